(* Proofs/EncodeFacts: the independent writer Spec.encode produces well-formed
   files that the layout reader and the library's Parse read back. *)
From Coq Require Import List Arith NArith ZArith Bool Lia Permutation.
From Tele Require Import Lib.Bytes Lib.BytesN Gen.Consts Model.DecodeStack Model.Layout Model.Parse
  Proofs.LayoutArith Proofs.LayoutRead Proofs.LayoutWrite Proofs.WriterFacts Proofs.WriterInv
  Proofs.ParseFacts.
Import ListNotations.
Open Scope N_scope.

Lemma spec_insert_eq hdr bs name v :
  spec_insert hdr bs (name, v) =
  let limit0 := get32 bs hdr in
  let cur := ((if limit0 =? 0 then first_off hdr else limit0) + 31) / 32 * 32 in
  let n := rec_size (len name) in
  let s := spec_place cur n in
  let e := s + n in
  let bs1 := bs ++ zeros (if len bs <? e then (e + 16383) / 16384 * 16384 - len bs else 0) in
  put (link_record hdr bs1 s e (len name) (get32 bs1 (head_off hdr (hash name))) name) s (le64 v).
Proof.
  unfold spec_insert, link_record. cbv zeta. change c_limitOff with 0. rewrite !N.add_0_r.
  change c_recordUnit with 32. change c_pageSize with 16384.
  replace ((if get32 bs hdr =? 0 then first_off hdr else get32 bs hdr) + 32 - 1)
    with ((if get32 bs hdr =? 0 then first_off hdr else get32 bs hdr) + 31) by lia.
  set (e := spec_place _ _ + _).
  replace (e + 16384 - 1) with (e + 16383) by lia.
  destruct (len bs <? e); [reflexivity|]. now rewrite zeros_0, app_nil_r.
Qed.

Section Insert.
  Variables (hdr : N) (bs : bytes) (meta : bytes) (kv : list (bytes * bytes)) (limit : N)
            (tbl : list (list rec)) (name : bytes) (v : N) (m : amap).
  Hypothesis Hread : spec_read bs = Some (hdr, meta, kv, limit, tbl).
  Hypothesis Hrep : repr (concat tbl) m.
  Hypothesis Hname : 1 <= len name <= 4096.
  Hypothesis Hv : v < 18446744073709551616.
  Hypothesis Hfresh : m name = None.
  Hypothesis Hsmall : len bs + 65536 <= 4294967296.

  Lemma spec_insert_ok :
    exists limit' tbl',
      spec_read (spec_insert hdr bs (name, v)) = Some (hdr, meta, kv, limit', tbl') /\
      repr (concat tbl') (fun k => if beq k name then Some v else m k) /\
      len (spec_insert hdr bs (name, v)) <= len bs + 32768.
  Proof.
    pose proof (spec_read_inv _ _ _ _ _ _ Hread) as (Eh & Ek & El & H1 & H2 & H3 & H4 & H5 & Ht & Hp).
    pose proof (spec_header_inv _ _ _ Eh) as (_ & _ & Hb & _ & Hfit & _).
    pose proof (rec_size_bounds _ Hname) as (R1 & R2 & R3).
    pose proof (first_off_val hdr) as Efo.
    rewrite spec_insert_eq. cbv zeta. rewrite <- El.
    set (cur := ((if limit =? 0 then first_off hdr else limit) + 31) / 32 * 32).
    assert (Hcur : cur mod 32 = 0 /\ (if limit =? 0 then first_off hdr else limit) <= cur /\ cur <= len bs).
    { unfold cur. destruct (N.eqb_spec limit 0); split; [|split| |split]; divlia. }
    destruct Hcur as (C1 & C2 & C3).
    pose proof (spec_place_ok cur (rec_size (len name)) C1 R1 R3) as P. cbv zeta in P.
    set (s := spec_place cur (rec_size (len name))) in *.
    destruct P as (P1 & P2 & P3 & P4).
    set (e := s + rec_size (len name)).
    set (k := if len bs <? e then (e + 16383) / 16384 * 16384 - len bs else 0).
    assert (Hk : (len bs + k) mod 16384 = 0 /\ e <= len bs + k /\ len bs + k <= len bs + 32768).
    { unfold k. destruct (N.ltb_spec (len bs) e); unfold e in *; divlia. }
    destruct Hk as (K1 & K2 & K3).
    set (bs1 := bs ++ zeros k).
    assert (Hlen1 : len bs1 = len bs + k) by (unfold bs1; rewrite len_app, len_zeros; reflexivity).
    pose proof (grow_ok _ _ _ _ _ _ k Hread K1) as Hread1. fold bs1 in Hread1.
    assert (Hfr : forall r, In r (concat tbl) -> r_name r <> name).
    { intros r Hr En. pose proof (repr_find _ _ _ Hrep Hr) as F. rewrite En, Hfresh in F. discriminate. }
    assert (Hw : len name mod 16777216 = len name) by (apply N.mod_small; lia).
    pose proof (link_all bs1 hdr meta kv limit tbl Hread1 s e (len name) name
                  Hname P1 ltac:(lia) eq_refl ltac:(lia) ltac:(unfold e; lia) P4 ltac:(lia) Hw Hfr)
      as (L1 & L2 & L3 & _).
    set (bsL := link_record hdr bs1 s e (len name) (get32 bs1 (head_off hdr (hash name))) name) in *.
    set (tblL := zip_upd buckets (hash name) (s, name, get64 bs1 s) tbl) in *.
    assert (HinL : In (s, name, get64 bs1 s) (concat tblL)) by (apply (Add_in L2); now left).
    pose proof (setval_all bsL hdr meta kv e tblL L1 (s, name, get64 bs1 s) v HinL Hv) as (S1 & S2 & _).
    change (r_off (s, name, get64 bs1 s)) with s in S1, S2.
    exists e, (map (map (setval s v)) tblL). split; [exact S1|]. split.
    - rewrite <- concat_map.
      assert (HpL : pairwise rec_compat (concat tblL) = true).
      { apply spec_read_inv in L1. now destruct L1 as (_&_&_&_&_&_&_&_&_&L1). }
      pose proof (repr_Add (concat tbl) (concat tblL) m (s, name, get64 bs1 s) Hrep HpL L2 Hfr) as RA.
      pose proof (repr_setval (concat tblL) _ (s, name, get64 bs1 s) v RA HinL) as RS.
      change (r_off (s, name, get64 bs1 s)) with s in RS.
      change (r_name (s, name, get64 bs1 s)) with name in RS.
      eapply repr_ext; [exact RS|]. intro k0. cbv beta. destruct (beq k0 name); reflexivity.
    - pose proof (eq_trans S2 (eq_trans L3 Hlen1)) as EL. cbv beta in EL.
      match goal with |- ?x <= _ => replace x with (len bs + k) by (symmetry; exact EL) end. lia.
  Qed.
End Insert.

(* the map Spec.encode is meant to store *)
Fixpoint enc_map (m : amap) (cs : list (bytes * N)) : amap :=
  match cs with
  | [] => m
  | (name, v) :: t => enc_map (fun k => if beq k name then Some v else m k) t
  end.

Lemma enc_map_spec cs : forall m, NoDup (map fst cs) -> (forall c, In c cs -> m (fst c) = None) ->
  forall k v, enc_map m cs k = Some v <-> (m k = Some v \/ In (k, v) cs).
Proof.
  induction cs as [|[name v0] t IH]; intros m Hnd Hm k v; cbn [enc_map].
  - cbn [In]. tauto.
  - cbn [map fst] in Hnd. inversion Hnd as [|? ? Hni Hnd']; subst.
    rewrite IH; [|exact Hnd'|].
    + cbn [In]. destruct (beq k name) eqn:E.
      * apply beq_eq in E. subst k. pose proof (Hm (name, v0) (or_introl eq_refl)) as Hn. cbn [fst] in Hn.
        rewrite Hn. split.
        -- intros [X|X]; [injection X as <-; right; now left|right; now right].
        -- intros [X|[X|X]]; [discriminate|injection X as <-; now left|now right].
      * apply beq_neq in E. split.
        -- intros [X|X]; [now left|right; now right].
        -- intros [X|[X|X]]; [now left|injection X as <- <-; contradiction|now right].
    + intros c Hc. destruct (beq (fst c) name) eqn:E.
      * apply beq_eq in E. exfalso. apply Hni. rewrite <- E. now apply in_map.
      * apply Hm. now right.
Qed.

Definition cs_ok (cs : list (bytes * N)) : Prop :=
  NoDup (map fst cs) /\
  Forall (fun c => 1 <= len (fst c) <= 4096 /\ snd c < 18446744073709551616) cs /\
  N.of_nat (length cs) * 32768 + 131072 <= 4294967296.

Lemma encode_fold hdr meta kv cs : forall bs limit tbl m,
  spec_read bs = Some (hdr, meta, kv, limit, tbl) -> repr (concat tbl) m ->
  NoDup (map fst cs) -> (forall c, In c cs -> m (fst c) = None) ->
  Forall (fun c => 1 <= len (fst c) <= 4096 /\ snd c < 18446744073709551616) cs ->
  len bs + N.of_nat (length cs) * 32768 + 65536 <= 4294967296 ->
  exists limit' tbl',
    spec_read (fold_left (spec_insert hdr) cs bs) = Some (hdr, meta, kv, limit', tbl') /\
    repr (concat tbl') (enc_map m cs).
Proof.
  induction cs as [|[name v] t IH]; intros bs limit tbl m Hread Hrep Hnd Hm Hf Hsz.
  - exists limit, tbl. now split.
  - cbn [fold_left enc_map]. cbn [map fst] in Hnd. inversion Hnd as [|? ? Hni Hnd']; subst.
    inversion Hf as [|? ? [Hn Hv] Hf']; subst. cbn [fst snd] in *.
    cbn [length] in Hsz. rewrite Nat2N.inj_succ in Hsz.
    pose proof (Hm (name, v) (or_introl eq_refl)) as Hfresh. cbn [fst] in Hfresh.
    destruct (spec_insert_ok hdr bs meta kv limit tbl name v m Hread Hrep Hn Hv Hfresh ltac:(lia))
      as (limit1 & tbl1 & R1 & Rep1 & L1).
    apply (IH _ limit1 tbl1 _ R1 Rep1 Hnd'); [|exact Hf'|lia].
    intros c Hc. destruct (beq (fst c) name) eqn:E.
    + apply beq_eq in E. exfalso. apply Hni. rewrite <- E. now apply in_map.
    + apply Hm. now right.
Qed.

(* roundtrip_spec, second half *)
Lemma encode_read meta cs : meta_ok meta -> cs_ok cs ->
  exists bs hdr kv limit tbl, spec_encode meta cs = Some bs /\ meta_kv meta = Some kv /\
    spec_read bs = Some (hdr, meta, kv, limit, tbl) /\
    NoDup (map r_name (concat tbl)) /\ Permutation (pairs (concat tbl)) cs.
Proof.
  intros (Hl & Hn & Hk) (Hnd & Hf & Hsz).
  destruct (meta_kv meta) as [kv|] eqn:Ek; [|contradiction].
  destruct (mapped_header meta) as [h|] eqn:Hm.
  2:{ unfold mapped_header in Hm. change c_maxMetaLen with 512 in Hm.
      destruct (N.ltb_spec 512 (len meta)); [lia|discriminate]. }
  pose proof (mapped_header_len _ _ Hm) as (_ & _ & Hb & _).
  pose proof (fresh_file_read _ _ _ Hm Hn Ek) as F.
  assert (Hrep0 : repr (concat (map (fun _ : N => @nil rec) buckets)) (fun _ => None)).
  { rewrite concat_map_nil. split; [reflexivity|]. intros k v. cbn. split; [contradiction|discriminate]. }
  assert (Hlen0 : len (h ++ zeros (16384 - len h)) = 16384) by (rewrite len_app, len_zeros; lia).
  destruct (encode_fold (len h) meta kv cs _ _ _ _ F Hrep0 Hnd (fun _ _ => eq_refl) Hf
              ltac:(rewrite Hlen0; lia)) as (limit' & tbl' & R & Rep).
  unfold spec_encode. rewrite Hm. change c_minFileLen with 16384.
  eexists. exists (len h), kv, limit', tbl'. split; [reflexivity|]. split; [reflexivity|].
  split; [exact R|]. split.
  - apply pairwise_names. now destruct Rep.
  - apply NoDup_Permutation.
    + destruct Rep as [Hp _]. apply pairwise_names in Hp. unfold pairs.
      apply (NoDup_map_inv fst). rewrite map_map. exact Hp.
    + apply (NoDup_map_inv fst). exact Hnd.
    + intros [k v]. destruct Rep as [_ Rep]. rewrite Rep.
      rewrite (enc_map_spec cs _ Hnd (fun _ _ => eq_refl)). split; [intros [X|X]; [discriminate|exact X]|now right].
Qed.

Theorem encode_wf meta cs : meta_ok meta -> cs_ok cs ->
  exists bs rs, spec_encode meta cs = Some bs /\ wf_file bs = true /\ spec_records bs = Some rs /\
                NoDup (map r_name rs) /\ Permutation (pairs rs) cs.
Proof.
  intros Hm Hc. destruct (encode_read meta cs Hm Hc) as (bs & hdr & kv & limit & tbl & He & _ & R & Hnd & Hp).
  exists bs, (concat tbl). unfold wf_file, spec_records. rewrite R. repeat split; assumption.
Qed.

(* and the library reads those files: the same metadata, the same counters
   with stack names expanded *)
Theorem encode_parse oob meta cs : meta_ok meta -> cs_ok cs ->
  exists bs kv cs', spec_encode meta cs = Some bs /\ meta_kv meta = Some kv /\
    parse_with oob bs = POk kv (map (fun c => (decode_stack (fst c), snd c)) cs') /\ Permutation cs' cs.
Proof.
  intros Hm Hc. destruct (encode_read meta cs Hm Hc) as (bs & hdr & kv & limit & tbl & He & Ek & E & Hnd & Hperm).
  exists bs, kv, (pairs (concat tbl)). split; [exact He|]. split; [exact Ek|]. split; [|exact Hperm].
  rewrite (parse_wf oob bs hdr meta kv limit tbl E).
  unfold decoded, pairs. rewrite map_map. reflexivity.
Qed.
