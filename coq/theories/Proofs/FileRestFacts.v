(* Proofs/FileRestFacts: totality and frame properties of Model/FileRest for
   ALL files (any length >= the hash table's end, any bytes). *)
From Coq Require Import List NArith ZArith Bool Lia Arith.
From Tele Require Import Gen.Consts Model.FileRest.
Import ListNotations.
Open Scope N_scope.

Ltac rconsts :=
  unfold table_end, head_off, RPAGE, RUNIT, R32, RMAX64, c_pageSize, c_recordUnit, c_hashOff, c_numHash,
    c_limitOff, c_maxNameLen in *.
Ltac rlia := rconsts; zify; Z.to_euclidean_division_equations; lia.
Ltac bsimp :=
  repeat match goal with
         | H : (_ <? _) = true |- _ => apply N.ltb_lt in H
         | H : (_ <? _) = false |- _ => apply N.ltb_ge in H
         | H : (_ <=? _) = true |- _ => apply N.leb_le in H
         | H : (_ <=? _) = false |- _ => apply N.leb_gt in H
         | H : (_ =? _) = true |- _ => apply N.eqb_eq in H
         | H : (_ =? _) = false |- _ => apply N.eqb_neq in H
         | H : (_ || _) = true |- _ => apply orb_true_iff in H
         | H : (_ || _) = false |- _ => apply orb_false_iff in H; destruct H
         | H : (_ && _) = true |- _ => apply andb_true_iff in H; destruct H
         | H : (_ && _) = false |- _ => apply andb_false_iff in H
         end.

(* ---- bytes ---- *)
Lemma wr_at : forall f o n g x,
  b_at (wr f o n g) x = if (o <=? x) && (x <? o + n) then g (x - o) else b_at f x.
Proof. reflexivity. Qed.

Lemma wr_len : forall f o n g, b_len (wr f o n g) = b_len f.
Proof. reflexivity. Qed.

Lemma wr_at_out : forall f o n g x, x < o \/ o + n <= x -> b_at (wr f o n g) x = b_at f x.
Proof.
  intros f o n g x Hx. rewrite wr_at. destruct ((o <=? x) && (x <? o + n)) eqn:Q; [|reflexivity].
  bsimp. exfalso. lia.
Qed.

Lemma rd32_wr_out : forall f o n g x, x + 4 <= o \/ o + n <= x -> rd32 (wr f o n g) x = rd32 f x.
Proof. intros f o n g x Hx. unfold rd32. rewrite !wr_at_out by lia. reflexivity. Qed.

Lemma grow_at_low : forall f e x, x < b_len f -> x + 4 < e -> b_at (grow f e) x = b_at f x.
Proof.
  intros f e x A B. unfold grow; cbn. destruct ((b_len f <=? x) || (e - 4 <=? x)) eqn:Q; [|reflexivity].
  exfalso. bsimp. destruct Q; bsimp; lia.
Qed.

Lemma rd32_grow_low : forall f e x, x + 4 <= b_len f -> x + 8 <= e -> rd32 (grow f e) x = rd32 f x.
Proof. intros f e x A B. unfold rd32. rewrite !grow_at_low by lia. reflexivity. Qed.

Lemma load32_in : forall f o, o + 4 <= b_len f -> load32 f o = Some (rd32 f o).
Proof.
  intros f o A. unfold load32. destruct (b_len f <? o + 4) eqn:Q2; bsimp; [exfalso; lia|reflexivity].
Qed.

Lemma fnv_lt : forall name, fnv name < 512.
Proof. intro name. unfold fnv. apply N.mod_lt. discriminate. Qed.

Lemma head_off_bounds : forall H name, H + 4 <= head_off H name /\ head_off H name + 4 <= table_end H.
Proof. intros H name. pose proof (fnv_lt name). rconsts. lia. Qed.

(* ---- lookup is total, within len/32 + 3 iterations, and never faults ---- *)
Lemma entry_at_nofault : forall f H off, entry_at f H off <> EFault.
Proof.
  intros f H off. unfold entry_at.
  destruct ((off <? H + c_hashOff) || negb (off mod 8 =? 0) || (b_len f <? off + 16)) eqn:G; [discriminate|]. bsimp.
  rewrite (load32_in f (off + 8)) by lia.
  destruct (_ || _); [discriminate|]. rewrite (load32_in f (off + 12)) by lia. discriminate.
Qed.

Lemma walk_total : forall fuel f H name head off n,
  n <= b_len f / RUNIT + 1 -> (N.to_nat (b_len f / RUNIT) + 2 <= fuel + N.to_nat n)%nat ->
  walk true fuel f H name head off n <> LFuel /\ walk true fuel f H name head off n <> LFault.
Proof.
  induction fuel as [|k IH]; intros f H name head off n A B; [lia|].
  cbn [walk]. destruct (off =? 0); [split; discriminate|].
  cbn [andb]. destruct (b_len f / RUNIT <? n) eqn:Q; [split; discriminate|]. bsimp.
  pose proof (entry_at_nofault f H off) as NF.
  destruct (entry_at f H off) as [nl nx| |]; [|split; discriminate|congruence].
  destruct (name_eqb f off nl name); [split; discriminate|].
  apply IH; lia.
Qed.

Theorem lookup_total : forall f H name, table_end H <= b_len f ->
  lookup f H name <> LFuel /\ lookup f H name <> LFault.
Proof.
  intros f H name A. unfold lookup, lookup_gen.
  pose proof (head_off_bounds H name) as [B1 B2].
  rewrite load32_in by lia. apply walk_total; [apply N.le_0_l|unfold walk_fuel; lia].
Qed.

Lemma walk_notfound_head : forall b fuel f H name head off n h,
  walk b fuel f H name head off n = LNotFound h -> h = head.
Proof.
  induction fuel as [|k IH]; intros f H name head off n h E; [discriminate|].
  cbn [walk] in E. destruct (off =? 0); [inversion E; reflexivity|].
  destruct (b && (b_len f / RUNIT <? n)); [discriminate|].
  destruct (entry_at f H off) as [nl nx| |]; try discriminate.
  destruct (name_eqb f off nl name); [discriminate|]. eapply IH; eauto.
Qed.

Lemma lookup_notfound_head : forall b fuel f H name h, table_end H <= b_len f ->
  lookup_gen b fuel f H name = LNotFound h -> rd32 f (head_off H name) = h.
Proof.
  intros b fuel f H name h A E. unfold lookup_gen in E.
  pose proof (head_off_bounds H name) as [B1 B2]. rewrite load32_in in E by lia.
  apply walk_notfound_head in E. congruence.
Qed.

Lemma walk_found_bounds : forall b fuel f H name head off n o,
  walk b fuel f H name head off n = LFound o -> H + c_hashOff <= o /\ o + 17 <= b_len f.
Proof.
  induction fuel as [|k IH]; intros f H name head off n o E; [discriminate|].
  cbn [walk] in E. destruct (off =? 0); [discriminate|].
  destruct (b && (b_len f / RUNIT <? n)); [discriminate|].
  destruct (entry_at f H off) as [nl nx| |] eqn:Ee; try discriminate.
  destruct (name_eqb f off nl name).
  - inversion E; subst o. unfold entry_at in Ee.
    destruct ((off <? H + c_hashOff) || negb (off mod 8 =? 0) || (b_len f <? off + 16)) eqn:G; [discriminate|]. bsimp.
    destruct (load32 f (off + 8)) as [w|]; [|discriminate].
    destruct ((w mod 16777216 =? 0) || (b_len f <? off + 16 + w mod 16777216)) eqn:G2; [discriminate|]. bsimp.
    remember (w mod 16777216) as nl0. lia.
  - eapply IH; eauto.
Qed.

(* ---- 32-bit arithmetic ---- *)
Lemma round32_nowrap : forall x u, 0 < u -> x + u <= R32 -> x <= round32 x u /\ round32 x u < x + u /\ round32 x u mod u = 0.
Proof.
  intros x u Hu A. unfold round32. rewrite N.mod_small by (rconsts; lia).
  pose proof (N.div_mod (x + u - 1) u ltac:(lia)) as E. pose proof (N.mod_lt (x + u - 1) u ltac:(lia)) as L.
  rewrite N.mod_mul by lia. rewrite (N.mul_comm _ u).
  remember ((x + u - 1) / u) as q. remember ((x + u - 1) mod u) as r. lia.
Qed.

Lemma round32_mult : forall x u, 0 < u -> round32 x u mod u = 0.
Proof. intros. unfold round32. apply N.mod_mul. lia. Qed.

(* ---- newCounter is total unless the reservation would wrap around 4 GiB ---- *)
Lemma commit_outcome : forall f H name head start e, table_end H <= b_len f ->
  rd32 f (head_off H name) = head ->
  fst (commit true f H name head start e) <> NFuel /\ fst (commit true f H name head start e) <> NFault.
Proof.
  intros f H name head start e A Hd. unfold commit.
  pose proof (head_off_bounds H name) as [B1 B2].
  destruct (b_len f <? H + c_limitOff + 4) eqn:Q; [exfalso; bsimp; rconsts; lia|].
  unfold write_entry.
  destruct ((start <? table_end H) || _) eqn:G; cbn [fst]; [split; discriminate|].
  bsimp.
  rewrite load32_in by (unfold wr32, wr_bytes; rewrite !wr_len; lia).
  match goal with |- context [if ?c then _ else _] => destruct c eqn:Qh end; cbn [fst]; [split; discriminate|].
  exfalso. bsimp. apply Qh.
  unfold wr32, wr_bytes. rewrite !rd32_wr_out; try exact Hd; rconsts; lia.
Qed.

Lemma place32_nl : forall H limit nl, exists s e, place32 H limit nl = (s, e).
Proof. intros. destruct (place32 H limit nl) as [s e]. eauto. Qed.

(* the reservation loop: the overflow test of fix 633eed3 fails the call, or
   there is at most one extension and then the commit *)
Lemma reserve_shape : forall f H name head, table_end H + 4 <= b_len f ->
  reserve true 3 f H name head = (NErr RCorrupt, f) \/
  exists f0 s e, place32 H (rd32 f (H + c_limitOff)) (N.of_nat (length name)) = (s, e) /\
    rd32 f (H + c_limitOff) <= s /\
    reserve true 3 f H name head = commit true f0 H name head s e /\
    (f0 = f \/ exists e', b_len f < e' /\ f0 = grow f e').
Proof.
  intros f H name head A4.
  assert (Lim : load32 f (H + c_limitOff) = Some (rd32 f (H + c_limitOff))) by (apply load32_in; rconsts; lia).
  cbn [reserve]. rewrite Lim.
  destruct (place32 H (rd32 f (H + c_limitOff)) (N.of_nat (length name))) as [s e] eqn:Pl.
  destruct ((s <? rd32 f (H + c_limitOff)) || (e <? s) || (round32 e RPAGE <? e)) eqn:Ov; [left; reflexivity|right].
  bsimp.
  destruct (b_len f <? e) eqn:Q1.
  - bsimp.
    assert (Q2 : (b_len f <? round32 e RPAGE) = true) by (apply N.ltb_lt; lia). rewrite Q2.
    cbn [b_len grow]. rewrite N.ltb_irrefl.
    set (e' := round32 e RPAGE) in *.
    assert (Lim' : load32 (grow f e') (H + c_limitOff) = Some (rd32 f (H + c_limitOff))).
    { rewrite load32_in by (cbn; rconsts; lia). f_equal. apply rd32_grow_low; rconsts; lia. }
    rewrite Lim', Pl.
    assert (Ov' : (s <? rd32 f (H + c_limitOff)) || (e <? s) || (round32 e RPAGE <? e) = false).
    { apply orb_false_iff. split; [apply orb_false_iff; split|]; apply N.ltb_ge; fold e'; lia. }
    rewrite Ov'. cbn [b_len grow].
    assert (Q3 : (e' <? e) = false) by (apply N.ltb_ge; lia). rewrite Q3.
    exists (grow f e'), s, e. split; [reflexivity|]. split; [lia|]. split; [reflexivity|]. right. exists e'. split; [lia|reflexivity].
  - exists f, s, e. split; [reflexivity|]. split; [lia|]. split; [reflexivity|]. left; reflexivity.
Qed.

(* newCounter is total on EVERY file (fix 633eed3 closes the 4 GiB wrap-around) *)
Theorem newcounter_total : forall f H name, table_end H + 4 <= b_len f ->
  fst (new_counter f H name) <> NFuel /\ fst (new_counter f H name) <> NFault.
Proof.
  intros f H name A4. assert (A : table_end H <= b_len f) by lia. unfold new_counter, new_counter_gen.
  destruct (N.of_nat (length name) =? 0); [split; discriminate|].
  destruct (c_maxNameLen <? N.of_nat (length name)); [split; discriminate|].
  pose proof (lookup_total f H name A) as [T1 T2]. unfold lookup in T1, T2.
  destruct (lookup_gen true (walk_fuel f) f H name) as [off|head| | |] eqn:El; try (split; discriminate); try congruence.
  pose proof (lookup_notfound_head _ _ _ _ _ _ A El) as Hd.
  pose proof (head_off_bounds H name) as [B1 B2].
  destruct (reserve_shape f H name head A4) as [E|(f0 & s & e & Pl & Ls & Rs & F0)]; [rewrite E; split; discriminate|].
  rewrite Rs. apply commit_outcome.
  - destruct F0 as [->|(e' & Le & ->)]; cbn; lia.
  - destruct F0 as [->|(e' & Le & ->)]; [exact Hd|]. rewrite rd32_grow_low; [exact Hd|lia|rconsts; lia].
Qed.

(* ---- what a call may write ---- *)
Definition in_range (lo n o : N) : Prop := lo <= o /\ o < lo + n.

Lemma wr_changed : forall f o n g x, b_at (wr f o n g) x <> b_at f x -> in_range o n x.
Proof.
  intros f o n g x X. unfold in_range. destruct (N.lt_ge_cases x o) as [C|C]; [exfalso; apply X; apply wr_at_out; lia|].
  destruct (N.lt_ge_cases x (o + n)) as [C2|C2]; [lia|exfalso; apply X; apply wr_at_out; lia].
Qed.

Lemma changed_trans : forall (f f1 f2 : bfile) x, b_at f2 x <> b_at f x -> b_at f2 x <> b_at f1 x \/ b_at f1 x <> b_at f x.
Proof. intros f f1 f2 x X. destruct (N.eq_dec (b_at f2 x) (b_at f1 x)) as [E|E]; [right; congruence|left; exact E]. Qed.

(* the bytes a commit may change *)
Definition commit_writes (f : bfile) (H : N) (name : list N) (start o : N) : Prop :=
  in_range (H + c_limitOff) 4 o \/ in_range (head_off H name) 4 o \/
  (table_end H <= start /\ start + 16 + N.of_nat (length name) <= b_len f /\
   in_range (start + 8) (8 + N.of_nat (length name)) o).

Lemma commit_frame : forall f H name head start e r f', table_end H <= b_len f ->
  commit true f H name head start e = (r, f') ->
  b_len f' = b_len f /\ forall o, b_at f' o <> b_at f o -> commit_writes f H name start o.
Proof.
  intros f H name head start e r f' A E. unfold commit in E.
  destruct (b_len f <? H + c_limitOff + 4); [inversion E; subst; split; [reflexivity|intros o X; congruence]|].
  set (f1 := wr32 f (H + c_limitOff) e) in *.
  assert (C1 : forall o, b_at f1 o <> b_at f o -> commit_writes f H name start o).
  { intros o X. left. apply (wr_changed _ _ _ _ _ X). }
  unfold write_entry in E.
  destruct ((start <? table_end H) || (b_len f1 <? start + 16 + N.of_nat (length name))) eqn:G.
  - inversion E; subst. split; [reflexivity|exact C1].
  - bsimp. change (b_len f1) with (b_len f) in *.
    set (f2 := wr_bytes f1 (start + 16) name) in *.
    set (f3 := wr32 f2 (start + 8) (N.of_nat (length name) + 4278190080)) in *.
    set (f4 := wr32 f3 (start + 12) head) in *.
    assert (In3 : forall o, in_range (start + 16) (N.of_nat (length name)) o \/ in_range (start + 8) 4 o \/ in_range (start + 12) 4 o ->
                            commit_writes f H name start o).
    { intros o X. right. right. unfold in_range in *. split; [lia|]. split; [lia|]. lia. }
    assert (C4 : forall o, b_at f4 o <> b_at f o -> commit_writes f H name start o).
    { intros o X. destruct (changed_trans f f3 f4 o X) as [Y|Y]; [apply In3; right; right; exact (wr_changed _ _ _ _ _ Y)|].
      destruct (changed_trans f f2 f3 o Y) as [Z|Z]; [apply In3; right; left; exact (wr_changed _ _ _ _ _ Z)|].
      destruct (changed_trans f f1 f2 o Z) as [U|U]; [apply In3; left; exact (wr_changed _ _ _ _ _ U)|].
      apply C1; exact U. }
    destruct (load32 f4 (head_off H name)) as [h|]; [destruct (h =? head)|]; inversion E; subst;
      (split; [reflexivity|]); try exact C4.
    intros o X. destruct (changed_trans f f4 _ o X) as [Y|Y]; [right; left; exact (wr_changed _ _ _ _ _ Y)|apply C4; exact Y].
Qed.

(* FAILURE ISOLATION, part 1: the bytes of the file as found that a call of
   newCounter(name) may change, whether it succeeds or fails: the limit word,
   the head word of name's own bucket, bytes 8.. of the record it reserved
   (which lies after the hash table: fix 69df376), and the at most three last
   bytes of a file whose length is not a multiple of four when it is extended *)
Theorem new_counter_frame : forall f H name r f', table_end H + 4 <= b_len f ->
  new_counter f H name = (r, f') ->
  b_len f <= b_len f' /\
  forall o, o < b_len f -> b_at f' o <> b_at f o ->
    in_range (H + c_limitOff) 4 o \/ in_range (head_off H name) 4 o \/
    (let s := fst (place32 H (rd32 f (H + c_limitOff)) (N.of_nat (length name))) in
     table_end H <= s /\ rd32 f (H + c_limitOff) <= s /\ in_range (s + 8) (8 + N.of_nat (length name)) o) \/
    (exists e', b_len f < e' /\ e' <= o + 4).
Proof.
  intros f H name r f' A4 E. unfold new_counter, new_counter_gen in E.
  destruct (N.of_nat (length name) =? 0); [inversion E; subst; split; [lia|intros o _ Y; exfalso; apply Y; reflexivity]|].
  destruct (c_maxNameLen <? N.of_nat (length name)); [inversion E; subst; split; [lia|intros o _ Y; exfalso; apply Y; reflexivity]|].
  destruct (lookup_gen true (walk_fuel f) f H name) as [off|head| | |] eqn:El;
    try (inversion E; subst; split; [lia|intros o _ Y; exfalso; apply Y; reflexivity]).
  destruct (reserve_shape f H name head A4) as [Er|(f0 & s & e & Pl & Ls & Rs & F0)];
    [rewrite Er in E; inversion E; subst; split; [lia|intros o _ Y; exfalso; apply Y; reflexivity]|].
  rewrite Rs in E. rewrite Pl. cbn [fst].
  assert (A0 : table_end H <= b_len f0) by (destruct F0 as [->|(e' & Le & ->)]; cbn; lia).
  destruct (commit_frame f0 H name head s e r f' A0 E) as [Ln Fr].
  split; [rewrite Ln; destruct F0 as [->|(e' & Le & ->)]; cbn; lia|].
  intros o Lo X.
  destruct (changed_trans f f0 f' o X) as [Y|Y].
  - destruct (Fr o Y) as [Z|[Z|(Z1 & Z2 & Z3)]]; auto 6.
  - destruct F0 as [->|(e' & Le & ->)]; [exfalso; apply Y; reflexivity|].
    right. right. right. exists e'. split; [exact Le|].
    destruct (N.le_gt_cases e' (o + 4)) as [C|C]; [exact C|]. exfalso. apply Y. apply grow_at_low; lia.
Qed.

(* FAILURE ISOLATION, part 2: Counter.add changes the eight bytes of its cell only *)
Theorem add_cell_frame : forall f cell k f', add_cell f cell k = Some f' ->
  b_len f' = b_len f /\ forall o, b_at f' o <> b_at f o -> in_range cell 8 o.
Proof.
  intros f cell k f' E. unfold add_cell in E. destruct (b_len f <? cell + 8); [discriminate|].
  inversion E; subst. split; [reflexivity|]. intros o X. exact (wr_changed _ _ _ _ _ X).
Qed.

Lemma rd64_same : forall f f' c, (forall o, c <= o < c + 8 -> b_at f' o = b_at f o) -> rd64 f' c = rd64 f c.
Proof.
  intros f f' c S. unfold rd64, rd32. rewrite !S by lia. reflexivity.
Qed.

(* consequence for the value cell of any OTHER record: a cell that lies after
   the hash table and below the allocation limit found in the file keeps its
   value through a newCounter call on any name, successful or not *)
Theorem other_cell_preserved : forall f H name r f' c,
  table_end H + 4 <= b_len f -> new_counter f H name = (r, f') ->
  table_end H <= c -> c + 12 <= b_len f -> c + 8 <= rd32 f (H + c_limitOff) ->
  rd64 f' c = rd64 f c.
Proof.
  intros f H name r f' c A4 E C1 C2 C3.
  destruct (new_counter_frame f H name r f' A4 E) as [Ln Fr].
  apply rd64_same. intros o Ho.
  destruct (N.eq_dec (b_at f' o) (b_at f o)) as [Eq|Ne]; [exact Eq|]. exfalso.
  pose proof (head_off_bounds H name) as [B1 B2].
  destruct (Fr o ltac:(lia) Ne) as [Z|[Z|[Z|Z]]].
  - unfold in_range in Z. rconsts. lia.
  - unfold in_range in Z. lia.
  - cbv zeta in Z. destruct Z as (Z1 & Z2 & Z3). unfold in_range in Z3. lia.
  - destruct Z as (e' & Z1 & Z2). lia.
Qed.
