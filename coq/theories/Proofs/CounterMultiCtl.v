(* The multi-level control of Model/CounterMulti keeps its own books: an
   invariant of the control (where the embedded CounterConc threads are when the
   walk visits them, list lengths, the focus on a claimed counter, quiet
   embedded threads on return, the registration list duplicate-free) that holds
   initially and is preserved by every step, so that the self-check flag
   ms_chk is never set.  Proved here for systems in which no lookup extends the
   file (no changer opens a FULL file: `nogrow`); there ms_bad stays clear too. *)
From Coq Require Import List ZArith NArith Bool Arith Lia.
From Tele Require Import Gen.Consts Model.CounterConc Model.CounterMulti Proofs.CounterWord Proofs.CounterInv Proofs.CounterMultiFacts.
Import ListNotations.
Open Scope Z_scope.

(* ---- classes of program points of the embedded threads ---- *)
Definition inI (u : thread) : Prop := t_pc u = IvLoad \/ t_pc u = IvCas.
Definition pcR (p : pc) : bool :=
  match p with RfLoad | RfCas | LCas | LLoad | LLook1 | LLook2 | LCellLoad | LCellCas | Crash => true | _ => false end.
Definition pcA (p : pc) : bool :=
  match p with
  | ALoad | ACas | AXCas | AXLoad | ACellLoad | ACellCas | RCas | RLoad
  | LCas | LLoad | LLook1 | LLook2 | LCellLoad | LCellCas | Crash => true
  | _ => false
  end.
Definition fin (u : thread) : Prop := t_pc u = match t_prev u with Some _ => CClose | None => Done end.

Ltac step_cases H :=
  repeat match type of H with
         | (if ?c then _ else _) = _ => destruct c
         | match ?c with Some _ => _ | None => _ end = _ => destruct c
         | match ?c with O => _ | S _ => _ end = _ => destruct c
         | (let w' := _ in _) = _ => cbv zeta in H
         end.

Lemma fin_to_close u : fin (to_close u).
Proof. unfold fin, to_close. destruct (t_prev u) eqn:E; cbn; rewrite E; reflexivity. Qed.
Lemma to_close_keeps u : t_kind (to_close u) = t_kind u /\ t_prev (to_close u) = t_prev u.
Proof. unfold to_close. destruct (t_prev u) eqn:E; cbn; auto. Qed.

(* invalidate *)
Lemma stepI np s u s' u' : step_thread np s u = (s', u') -> inI u ->
  (inI u' \/ t_pc u' = RfLoad) /\ t_kind u' = t_kind u /\ t_prev u' = t_prev u /\
  file_part s' = file_part s /\ length (s_cells s') = length (s_cells s).
Proof.
  intros H [Hpc|Hpc]; unfold step_thread in H; rewrite Hpc in H; step_cases H; injection H as <- <-;
    unfold inI; cbn; auto.
Qed.

(* refresh (incl. releaseLock and the lookup), a thread of kind Changer, file not full *)
Ltac keeps :=
  repeat match goal with
         | |- context [to_close ?x] => let A := fresh in let B := fresh in destruct (to_close_keeps x) as [A B]; rewrite ?A, ?B; clear A B
         end; cbn [t_pc t_kind t_prev with_pc with_st with_old with_amt with_st2]; auto.

Lemma stepR np s u s' u' : step_thread np s u = (s', u') -> pcR (t_pc u) = true -> t_kind u = Changer -> s_full s = false ->
  (pcR (t_pc u') = true \/ fin u') /\ t_kind u' = Changer /\ t_prev u' = t_prev u /\
  file_part s' = file_part s /\ length (s_cells s') = length (s_cells s).
Proof.
  intros H Hp Hk Hf. unfold step_thread in H.
  destruct (t_pc u) eqn:Hpc; try discriminate Hp; try rewrite Hf in H; step_cases H; try rewrite Hf in H; step_cases H;
    injection H as <- <-; unfold after_release in *; try rewrite Hk in *;
    (split; [first [left; cbn; rewrite ?Hpc; reflexivity | right; apply fin_to_close] |]);
    (split; [keeps|]); (split; [keeps|]);
    cbn [file_part set_word set_sat set_ptr set_cell touch s_cur s_maps s_closed s_full s_tight s_cells]; rewrite ?upd_len; split; reflexivity.
Qed.

(* Add proper (from its first load), a thread of kind Adder, file not full *)
Lemma stepA np s u s' u' : step_thread np s u = (s', u') -> pcA (t_pc u) = true -> t_kind u = Adder -> s_full s = false ->
  (pcA (t_pc u') = true \/ t_pc u' = Done) /\ t_kind u' = Adder /\
  file_part s' = file_part s /\ length (s_cells s') = length (s_cells s).
Proof.
  intros H Hp Hk Hf. unfold step_thread in H.
  destruct (t_pc u) eqn:Hpc; try discriminate Hp; try rewrite Hf in H; step_cases H; try rewrite Hf in H; step_cases H;
    injection H as <- <-; unfold after_release in *; try rewrite Hk in *;
    (split; [first [left; cbn; rewrite ?Hpc; reflexivity | right; reflexivity] |]);
    (split; [keeps|]);
    cbn [file_part set_word set_sat set_ptr set_cell touch s_cur s_maps s_closed s_full s_tight s_cells]; rewrite ?upd_len; split; reflexivity.
Qed.

Lemma thr_idle_adder ms j u : t_pc u = AIdle ->
  t_pc (thr_step ms j u) = ALoad /\ t_kind (thr_step ms j u) = t_kind u.
Proof. intros H. unfold thr_step, step_thread. rewrite H. cbn. auto. Qed.
Lemma thr_idle_changer ms j u : t_pc u = CIdle -> t_tgt u = NewFile ->
  t_pc (thr_step ms j u) = CStore /\ t_tgt (thr_step ms j u) = NewFile.
Proof. intros H T. unfold thr_step, step_thread. rewrite H, T. cbn. auto. Qed.
Lemma thr_store ms j u : t_pc u = CStore -> t_tgt u = NewFile ->
  t_pc (thr_step ms j u) = IvLoad /\ t_kind (thr_step ms j u) = Changer /\ t_prev (thr_step ms j u) = ms_cur ms.
Proof. intros H T. unfold thr_step, step_thread. rewrite H, T. cbn. auto. Qed.
Lemma thr_close ms j u g : t_pc u = CClose -> t_prev u = Some g -> t_pc (thr_step ms j u) = Done.
Proof. intros H T. unfold thr_step, step_thread. rewrite H, T. cbn. auto. Qed.

(* ---- the control invariant ---- *)
Definition nc (ms : mshared) : nat := length (ms_ctrs ms).
Definition chg (g : option nat) (u : thread) : Prop := t_kind u = Changer /\ t_prev u = g.

Definition wstate (ph : wphase) (pre : list nat) (cur : option nat) (rest snap : list nat) (j : nat) (u : thread) : Prop :=
  match ph with
  | PInv => (In j pre -> t_pc u = RfLoad) /\ (cur = Some j -> inI u) /\ (In j rest -> t_pc u = IvLoad) /\ (~ In j snap -> fin u)
  | PRef => (In j pre -> fin u) /\ (cur = Some j -> pcR (t_pc u) = true) /\ (In j rest -> t_pc u = RfLoad) /\ (~ In j snap -> fin u)
  end.

Definition snap_ok (ms : mshared) (snap : list nat) : Prop :=
  NoDup snap /\ forall j, In j snap -> (j < nc ms)%nat /\ claimed ms j = true.

Definition quiet_redo (u : thread) : Prop := t_pc u = Done \/ t_pc u = CIdle.

Definition CIadd (ms : mshared) (t : mthread) : Prop :=
  let k := m_k t in let a := nth k (m_main t) dflt in let rd := m_redo t in
  (k < nc ms)%nat /\ (forall j, j <> k -> nth j (m_main t) dflt = dflt) /\ m_walks t = [] /\
  t_kind a = Adder /\ t_kind rd = Changer /\ t_prev rd = None /\ (m_wrote t = true -> claimed ms k = true) /\
  match m_pc t with
  | MIdle => t_pc a = AIdle /\ m_wrote t = false /\ t_pc rd = CIdle
  | MRTest | MRDbgNext => t_pc a = ALoad /\ m_wrote t = false /\ t_pc rd = CIdle
  | MRHead | MRNext => t_pc a = ALoad /\ ((m_wrote t = false /\ t_pc rd = CIdle) \/ (m_wrote t = true /\ t_pc rd = IvLoad))
  | MRLink | MRDbgFail | MRDbgOk => t_pc a = ALoad /\ m_wrote t = true /\ t_pc rd = IvLoad
  | MRun => m_c t = k /\ claimed ms k = true /\
      match m_role t with
      | RRedo => t_pc a = ALoad /\ (inI rd \/ pcR (t_pc rd) = true)
      | RMain => pcA (t_pc a) = true /\ quiet_redo rd
      | RNest => False
      end
  | MDone => t_pc a = Done /\ quiet_redo rd
  | _ => False
  end.

Definition CIchg (ms : mshared) (t : mthread) : Prop :=
  let M := fun j => nth j (m_main t) dflt in
  let g := m_prev t in
  m_redo t = dflt /\ m_wrote t = false /\ m_tgt t = NewFile /\
  match m_pc t with
  | MIdle => m_walks t = [] /\ forall j, (j < nc ms)%nat -> t_pc (M j) = CIdle /\ t_tgt (M j) = NewFile
  | MStore => m_walks t = [] /\ forall j, (j < nc ms)%nat -> t_pc (M j) = CStore /\ t_tgt (M j) = NewFile
  | MReload => m_walks t = [] /\ forall j, (j < nc ms)%nat -> chg g (M j) /\ t_pc (M j) = IvLoad
  | MHead => m_walks t = [mkW [] [] PInv None] /\ forall j, (j < nc ms)%nat -> chg g (M j) /\ t_pc (M j) = IvLoad
  | MRun => exists ph pre rest, m_walks t = [mkW rest (pre ++ m_c t :: rest) ph None] /\ m_role t = RMain /\
      snap_ok ms (pre ++ m_c t :: rest) /\
      forall j, (j < nc ms)%nat -> chg g (M j) /\ wstate ph pre (Some (m_c t)) rest (pre ++ m_c t :: rest) j (M j)
  | MNext => exists ph pre rest, m_walks t = [mkW rest (pre ++ rest) ph None] /\
      snap_ok ms (pre ++ rest) /\
      forall j, (j < nc ms)%nat -> chg g (M j) /\ wstate ph pre None rest (pre ++ rest) j (M j)
  | MClose => exists w gg, m_walks t = [w] /\ w_own w = None /\ g = Some gg /\
      forall j, (j < nc ms)%nat -> t_pc (M j) = CClose /\ t_prev (M j) = Some gg
  | MDone => m_walks t = [] /\ forall j, (j < nc ms)%nat -> t_pc (M j) = Done
  | _ => False
  end.

Definition CI (ms : mshared) (t : mthread) : Prop :=
  length (m_main t) = nc ms /\ m_nest t = repeat nest0 (nc ms) /\ m_grown t = false /\
  if m_isadd t then CIadd ms t else CIchg ms t.

(* the shared part *)
Definition MW (ms : mshared) : Prop :=
  length (ms_claimed ms) = nc ms /\
  (forall j, In j (ms_list ms) -> (j < nc ms)%nat /\ claimed ms j = true) /\
  NoDup (ms_list ms) /\
  Forall (fun c => length (c_cells c) = ms_nf ms) (ms_ctrs ms) /\
  ms_full ms = false.

(* what a step may do to the shared part, as far as other threads' invariants care *)
Definition grows_to (ms ms' : mshared) : Prop :=
  nc ms' = nc ms /\ (forall j, claimed ms j = true -> claimed ms' j = true).

Lemma snap_ok_mono ms ms' l : grows_to ms ms' -> snap_ok ms l -> snap_ok ms' l.
Proof. intros [N C] [A B]. split; [exact A|]. intros j Hj. destruct (B j Hj). rewrite N. auto. Qed.

Lemma CI_mono ms ms' t : grows_to ms ms' -> CI ms t -> CI ms' t.
Proof.
  intros G (L & Ne & Gr & X). pose proof G as [N C]. unfold CI. rewrite N. repeat (split; [assumption|]).
  destruct (m_isadd t).
  - destruct X as (A1 & A2 & A3 & A4 & A5 & A6 & A7 & A8). unfold CIadd. rewrite N. repeat (split; [auto|]).
    destruct (m_pc t); auto. destruct A8 as (B1 & B2 & B3). auto.
  - destruct X as (A1 & A2 & A3 & A4). unfold CIchg. rewrite N. repeat (split; [auto|]).
    destruct (m_pc t); auto.
    + destruct A4 as (ph & pre & rest & B1 & B2 & B3 & B4). exists ph, pre, rest.
      split; [exact B1|]. split; [exact B2|]. split; [eapply snap_ok_mono; eauto | exact B4].
    + destruct A4 as (ph & pre & rest & B1 & B3 & B4). exists ph, pre, rest.
      split; [exact B1|]. split; [eapply snap_ok_mono; eauto | exact B4].
Qed.

Definition MS (ms : mshared) : Prop :=
  length (ms_claimed ms) = nc ms /\
  Forall (fun c => length (c_cells c) = ms_nf ms) (ms_ctrs ms) /\
  ms_full ms = false.

Lemma MW_MS ms : MW ms -> MS ms.
Proof. intros (A & B & C & D & E). repeat split; assumption. Qed.

Lemma grows_refl ms : grows_to ms ms. Proof. split; auto. Qed.

Lemma inj_shared c ms s : (c < nc ms)%nat -> MS ms ->
  file_part s = file_part (proj c ms) -> length (s_cells s) = length (s_cells (proj c ms)) ->
  grows_to ms (inj c ms s) /\ MS (inj c ms s).
Proof.
  intros Hc (M1 & M4 & M5) FP LC. unfold file_part in FP. cbn in FP. injection FP as F1 F2 F3 F4 F5.
  split; [split; [unfold nc, inj; cbn; apply upd_len | auto]|].
  unfold MS, nc, inj. cbn [ms_claimed ms_ctrs ms_nf ms_full]. rewrite upd_len. split; [exact M1|]. split; [|congruence].
  apply Forall_upd; [exact M4|]. cbn [c_cells]. rewrite LC. cbn [proj s_cells].
  rewrite Forall_forall in M4. apply M4. apply nth_In. exact Hc.
Qed.

Lemma set_chk_false ms : set_chk ms false = ms.
Proof. destruct ms; unfold set_chk; cbn. rewrite orb_false_r. reflexivity. Qed.

Lemma forallb_of_nth {A} (f : A -> bool) d l : (forall j, (j < length l)%nat -> f (nth j l d) = true) -> forallb f l = true.
Proof.
  intros H. apply forallb_forall. intros x Hx. destruct (In_nth l x d Hx) as (j & Hj & <-). apply H. exact Hj.
Qed.

Lemma quiet_nest0 n : forallb quietb (repeat nest0 n) = true.
Proof. induction n; cbn; auto. Qed.

Lemma CI_done_ok ms t : CI ms t -> done_ok t = true.
Proof.
  intros (L & Ne & Gr & X). unfold done_ok. destruct (m_pc t) eqn:Hpc; try reflexivity.
  rewrite Ne, quiet_nest0, andb_true_r. destruct (m_isadd t).
  - destruct X as (A1 & A2 & A3 & A4 & A5 & A6 & A7 & A8). rewrite Hpc in A8. destruct A8 as [B1 B2].
    apply andb_true_iff. split.
    + apply (forallb_of_nth quietb dflt). intros j Hj. destruct (Nat.eq_dec j (m_k t)) as [->|Ne'].
      * unfold quietb. rewrite B1. reflexivity.
      * rewrite (A2 j Ne'). reflexivity.
    + unfold quietb. destruct B2 as [-> | ->]; reflexivity.
  - destruct X as (A1 & A2 & A3 & A4). rewrite Hpc in A4. destruct A4 as [B1 B2]. rewrite A1.
    apply andb_true_iff. split; [|reflexivity].
    apply (forallb_of_nth quietb dflt). intros j Hj. rewrite L in Hj. unfold quietb. rewrite (B2 j Hj). reflexivity.
Qed.

Lemma CI_lens_focus ms t : CI ms t -> lens_ok ms t = true /\ focus_ok ms t = true.
Proof.
  intros (L & Ne & Gr & X). split.
  - unfold lens_ok. rewrite L, Ne, repeat_length. fold (nc ms). rewrite Nat.eqb_refl. reflexivity.
  - unfold focus_ok, rc_ok. destruct (m_pc t) eqn:Hpc; try reflexivity.
    + destruct (m_isadd t) eqn:Ea.
      * destruct X as (A1 & A2 & A3 & A4 & A5 & A6 & A7 & A8). rewrite Hpc in A8. destruct A8 as (B1 & B2 & B3).
        rewrite B1. fold (nc ms). apply Nat.ltb_lt in A1. rewrite A1, B2, Nat.eqb_refl. destruct (m_role t); reflexivity.
      * destruct X as (A1 & A2 & A3 & A4). rewrite Hpc in A4. destruct A4 as (ph & pre & rest & B1 & B2 & [B3 B4] & B5).
        destruct (B4 (m_c t)) as [C1 C2]; [apply in_or_app; right; left; reflexivity|].
        fold (nc ms). apply Nat.ltb_lt in C1. rewrite C1, C2, B2. reflexivity.
    + destruct (m_isadd t) eqn:Ea.
      * destruct X as (A1 & A2 & A3 & A4 & A5 & A6 & A7 & A8). rewrite Hpc in A8. contradiction.
      * destruct X as (A1 & A2 & A3 & A4). rewrite Hpc in A4. destruct A4 as (w & gg & B1 & B2 & _). rewrite B1, B2. reflexivity.
Qed.

Definition step_ok (ms : mshared) (t : mthread) (ms' : mshared) (t' : mthread) : Prop :=
  ms_chk ms' = ms_chk ms /\ ms_bad ms' = ms_bad ms /\ CI ms' t' /\ grows_to ms ms' /\ MS ms' /\
  m_isadd t' = m_isadd t /\ m_k t' = m_k t.

Ltac msimp :=
  cbn [m_pc m_isadd m_k m_tgt m_main m_nest m_redo m_wrote m_head m_role m_c m_walks m_grown m_prev
       with_mpc with_focus with_walks with_main with_nest with_redo with_reg with_grown with_prev sett gett] in *.

Lemma pcR_not p : pcR p = true ->
  pc_is p GIvLoad = false /\ pc_is p CStore = false /\ pc_is p CClose = false /\ pc_is p GClose = false /\ pc_is p Done = false /\ pc_is p RfLoad = (match p with RfLoad => true | _ => false end).
Proof. destruct p; cbn; intros H; try discriminate; repeat split. Qed.
Lemma pcA_not p : pcA p = true ->
  pc_is p GIvLoad = false /\ pc_is p CStore = false /\ pc_is p CClose = false /\ pc_is p GClose = false /\ pc_is p Done = false.
Proof. destruct p; cbn; intros H; try discriminate; repeat split. Qed.
Lemma inI_not u : inI u ->
  pc_is (t_pc u) GIvLoad = false /\ pc_is (t_pc u) CStore = false /\ pc_is (t_pc u) CClose = false /\ pc_is (t_pc u) GClose = false /\
  pc_is (t_pc u) Done = false /\ pc_is (t_pc u) LLook2 = false /\ pc_is (t_pc u) RfLoad = false.
Proof. intros [H|H]; rewrite H; repeat split. Qed.
Lemma fin_pc u : fin u -> (t_pc u = CClose /\ t_prev u <> None) \/ (t_pc u = Done /\ t_prev u = None).
Proof. unfold fin. destruct (t_prev u); intros H; [left|right]; split; auto; discriminate. Qed.

Section AdderStep.
Variables (ms : mshared) (t : mthread).
Hypothesis W : MW ms.
Hypothesis Ea : m_isadd t = true.
Hypothesis L : length (m_main t) = nc ms.
Hypothesis Ne : m_nest t = repeat nest0 (nc ms).
Hypothesis Gr : m_grown t = false.
Hypothesis A1 : (m_k t < nc ms)%nat.
Hypothesis A2 : forall j, j <> m_k t -> nth j (m_main t) dflt = dflt.
Hypothesis A3 : m_walks t = [].
Hypothesis A4 : t_kind (nth (m_k t) (m_main t) dflt) = Adder.
Hypothesis A5 : t_kind (m_redo t) = Changer.
Hypothesis A6 : t_prev (m_redo t) = None.
Hypothesis A7 : m_wrote t = true -> claimed ms (m_k t) = true.

(* rebuilding the invariant for a thread that differs in control, own adder and redo only *)
Lemma mk_CIadd ms' t' : grows_to ms ms' ->
  m_isadd t' = true -> m_k t' = m_k t -> m_nest t' = m_nest t -> m_grown t' = false -> m_walks t' = [] ->
  (m_main t' = m_main t \/ exists a', m_main t' = upd (m_main t) (m_k t) a' /\ t_kind a' = Adder) ->
  t_kind (m_redo t') = Changer -> t_prev (m_redo t') = None ->
  (m_wrote t' = true -> claimed ms' (m_k t) = true) ->
  (let k := m_k t in let a := nth k (m_main t') dflt in let rd := m_redo t' in
   match m_pc t' with
  | MIdle => t_pc a = AIdle /\ m_wrote t' = false /\ t_pc rd = CIdle
  | MRTest | MRDbgNext => t_pc a = ALoad /\ m_wrote t' = false /\ t_pc rd = CIdle
  | MRHead | MRNext => t_pc a = ALoad /\ ((m_wrote t' = false /\ t_pc rd = CIdle) \/ (m_wrote t' = true /\ t_pc rd = IvLoad))
  | MRLink | MRDbgFail | MRDbgOk => t_pc a = ALoad /\ m_wrote t' = true /\ t_pc rd = IvLoad
  | MRun => m_c t' = k /\ claimed ms' k = true /\
      match m_role t' with
      | RRedo => t_pc a = ALoad /\ (inI rd \/ pcR (t_pc rd) = true)
      | RMain => pcA (t_pc a) = true /\ quiet_redo rd
      | RNest => False
      end
  | MDone => t_pc a = Done /\ quiet_redo rd
  | _ => False
  end) -> CI ms' t'.
Proof.
  intros [N C] E1 E2 E3 E4 E5 E6 E7 E8 E9 E10. unfold CI. rewrite E1, E3, E4, N.
  assert (LM : length (m_main t') = nc ms) by (destruct E6 as [-> | (a' & -> & _)]; rewrite ?upd_len; exact L).
  split; [exact LM|]. split; [exact Ne|]. split; [reflexivity|].
  unfold CIadd. rewrite E2, E5, N. split; [exact A1|]. split.
  { intros j Hj. destruct E6 as [-> | (a' & -> & _)]; [auto|]. rewrite nth_upd_other by exact Hj. auto. }
  split; [reflexivity|]. split.
  { destruct E6 as [-> | (a' & -> & Ka)]; [exact A4|]. rewrite nth_upd_same by (rewrite L; exact A1). exact Ka. }
  split; [exact E7|]. split; [exact E8|]. split; [exact E9|]. exact E10.
Qed.
End AdderStep.

Lemma claimed_set ms k : (k < length (ms_claimed ms))%nat -> claimed (set_claimed ms k) k = true.
Proof. intros H. unfold claimed, set_claimed. cbn. apply nth_upd_same. exact H. Qed.
Lemma claimed_set_mono ms k j : claimed ms j = true -> claimed (set_claimed ms k) j = true.
Proof. unfold claimed, set_claimed. cbn. apply nth_upd_true. Qed.

Lemma core_CI_add ms t ms' t' : MW ms -> CI ms t -> m_isadd t = true ->
  mstep_core ms t = (ms', t') -> step_ok ms t ms' t'.
Proof.
  intros W (L & Ne & Gr & X) Ea H. rewrite Ea in X. destruct X as (A1 & A2 & A3 & A4 & A5 & A6 & A7 & A8).
  pose proof (MW_MS _ W) as S. pose proof S as (M1 & M4 & M5).
  pose proof (mk_CIadd ms t L Ne A1 A2 A4) as MK.
  unfold mstep_core in H. destruct (m_pc t) eqn:Hpc; try contradiction.
  - (* MIdle *)
    destruct A8 as (B1 & B2 & B3). rewrite Ea in H. injection H as <- <-. msimp. rewrite B1. cbn [pc_is negb]. rewrite set_chk_false.
    destruct (thr_idle_adder ms (m_k t) _ B1) as [T1 T2].
    unfold step_ok. repeat (split; [reflexivity|]). split; [|split; [apply grows_refl|split; [exact S|split; reflexivity]]].
    apply MK; msimp; auto; [apply grows_refl | right; eexists; split; [reflexivity | congruence] |].
    rewrite nth_upd_same by (rewrite L; exact A1). auto.
  - (* MRTest *)
    destruct A8 as (B1 & B2 & B3). destruct (claimed ms (m_k t)) eqn:Ec; injection H as <- <-;
      (unfold step_ok; repeat (split; [reflexivity|]); split; [|split; [apply grows_refl|split; [exact S|split; reflexivity]]]);
      apply MK; msimp; auto; try apply grows_refl.
    all: try (intros X; rewrite B2 in X; discriminate X).
    all: try (split; [exact B1|]; left; split; assumption).
    all: try (split; [reflexivity|]; split; [exact Ec|]; split; [rewrite B1; reflexivity | right; exact B3]).
  - (* MRHead *)
    destruct A8 as (B1 & B2). injection H as <- <-.
    unfold step_ok; repeat (split; [reflexivity|]); split; [|split; [apply grows_refl|split; [exact S|split; reflexivity]]].
    apply MK; msimp; auto; apply grows_refl.
  - (* MRNext *)
    destruct A8 as (B1 & [[B2 B3]|[B2 B3]]).
    + rewrite B2 in H. destruct (claimed ms (m_k t)) eqn:Ec; injection H as <- <-.
      * unfold step_ok; repeat (split; [reflexivity|]); split; [|split; [apply grows_refl|split; [exact S|split; reflexivity]]].
        apply MK; msimp; auto; apply grows_refl.
      * msimp. rewrite B3, Ea. cbn [pc_is andb negb]. rewrite set_chk_false.
        assert (G : grows_to ms (set_claimed ms (m_k t))).
        { split; [reflexivity|]. intros j. apply claimed_set_mono. }
        unfold step_ok. repeat (split; [reflexivity|]). split; [|split; [exact G|split; [|split; reflexivity]]].
        -- apply MK; msimp; auto.
           intros _. apply claimed_set. rewrite M1. exact A1.
        -- unfold MS, nc. cbn. rewrite upd_len. repeat split; assumption.
    + rewrite B2 in H. injection H as <- <-.
      unfold step_ok; repeat (split; [reflexivity|]); split; [|split; [apply grows_refl|split; [exact S|split; reflexivity]]].
      apply MK; msimp; auto; apply grows_refl.
  - (* MRLink *)
    destruct A8 as (B1 & B2 & B3).
    assert (G : forall l, grows_to ms (set_list ms l)) by (intros l; split; [reflexivity | auto]).
    destruct (onat_eqb _ _); injection H as <- <-;
      (unfold step_ok; repeat (split; [reflexivity|]); split; [|split; [first [apply G | apply grows_refl]|split; [exact S|split; reflexivity]]]);
      apply MK; msimp; auto; first [apply G | apply grows_refl].
  - (* MRDbgNext *)
    destruct A8 as (B1 & B2 & B3). injection H as <- <-.
    unfold step_ok; repeat (split; [reflexivity|]); split; [|split; [apply grows_refl|split; [exact S|split; reflexivity]]].
    apply MK; msimp; auto; apply grows_refl.
  - (* MRDbgFail *)
    destruct A8 as (B1 & B2 & B3). injection H as <- <-.
    unfold step_ok; repeat (split; [reflexivity|]); split; [|split; [apply grows_refl|split; [exact S|split; reflexivity]]].
    apply MK; msimp; auto; apply grows_refl.
  - (* MRDbgOk *)
    destruct A8 as (B1 & B2 & B3). injection H as <- <-.
    unfold step_ok; repeat (split; [reflexivity|]); split; [|split; [apply grows_refl|split; [exact S|split; reflexivity]]].
    apply MK; msimp; auto; try apply grows_refl.
    split; [reflexivity|]. split; [apply A7; exact B2|]. split; [exact B1|]. left. left. exact B3.
  - (* MRun *)
    destruct A8 as (B1 & B2 & B3). cbv zeta in H. rewrite B1 in H. rewrite A3 in H.
    assert (Hf : s_full (proj (m_k t) ms) = false) by exact M5.
    destruct (m_role t) eqn:Er; try contradiction; cbn [gett] in H.
    + (* Add proper *)
      destruct B3 as [C1 C2].
      destruct (step_thread np0 (proj (m_k t) ms) (nth (m_k t) (m_main t) dflt)) as [s' u'] eqn:Es.
      destruct (stepA _ _ _ _ _ Es C1 A4 Hf) as (D1 & D2 & D3 & D4).
      destruct (inj_shared (m_k t) ms s' A1 S D3 D4) as [G S'].
      destruct (pcA_not _ C1) as (N1 & N2 & N3 & N4 & N5).
      assert (Ng : pc_is (t_pc u') GIvLoad = false).
      { destruct D1 as [D1|D1]; [apply (pcA_not _ D1) | rewrite D1; reflexivity]. }
      rewrite Ng, andb_false_r in H. cbn [andb] in H. rewrite N2, N3, N4 in H. cbn [orb] in H. rewrite set_chk_false in H.
      destruct D1 as [D1|D1].
      * destruct (pcA_not _ D1) as (_ & _ & _ & _ & Q). rewrite Q in H. injection H as <- <-.
        unfold step_ok. repeat (split; [reflexivity|]). split; [|split; [exact G|split; [exact S'|split; reflexivity]]].
        apply MK; msimp; auto. { right. eexists. split; [reflexivity|exact D2]. }
        rewrite Hpc, Er. split; [exact B1|]. split; [apply G; exact B2|].
        rewrite nth_upd_same by (rewrite L; exact A1). split; assumption.
      * rewrite D1 in H. cbn [pc_is] in H. injection H as <- <-.
        unfold step_ok. repeat (split; [reflexivity|]). split; [|split; [exact G|split; [exact S'|split; reflexivity]]].
        apply MK; msimp; auto. { right. eexists. split; [reflexivity|exact D2]. }
        rewrite nth_upd_same by (rewrite L; exact A1). split; assumption.
    + (* the registrar's redo *)
      destruct B3 as [C1 C2].
      destruct (step_thread np0 (proj (m_k t) ms) (m_redo t)) as [s' u'] eqn:Es.
      assert (D : (inI u' \/ pcR (t_pc u') = true \/ t_pc u' = Done) /\ t_kind u' = Changer /\ t_prev u' = None /\
                  file_part s' = file_part (proj (m_k t) ms) /\ length (s_cells s') = length (s_cells (proj (m_k t) ms)) /\
                  pc_is (t_pc (m_redo t)) LLook2 && pc_is (t_pc u') GIvLoad = false /\
                  pc_is (t_pc (m_redo t)) CStore || pc_is (t_pc (m_redo t)) CClose || pc_is (t_pc (m_redo t)) GClose = false).
      { destruct C2 as [C2|C2].
        - destruct (stepI _ _ _ _ _ Es C2) as (D1 & D2 & D3 & D4 & D5).
          destruct (inI_not _ C2) as (N1 & N2 & N3 & N4 & N5 & N6 & N7).
          rewrite N6, N2, N3, N4. repeat split; try congruence.
          destruct D1 as [D1|D1]; [left; exact D1 | right; left; rewrite D1; reflexivity].
        - destruct (stepR _ _ _ _ _ Es C2 A5 Hf) as (D1 & D2 & D3 & D4 & D5).
          destruct (pcR_not _ C2) as (N1 & N2 & N3 & N4 & N5 & N6).
          rewrite N2, N3, N4. repeat split; try congruence.
          + destruct D1 as [D1|D1]; [right; left; exact D1|]. right; right.
            destruct (fin_pc _ D1) as [[_ X]|[X _]]; [congruence | exact X].
          + destruct D1 as [D1|D1]; [rewrite (proj1 (pcR_not _ D1)); apply andb_false_r|].
            destruct (fin_pc _ D1) as [[X _]|[X _]]; rewrite X; apply andb_false_r. }
      destruct D as (D1 & D2 & D3 & D4 & D5 & D6 & D7).
      destruct (inj_shared (m_k t) ms s' A1 S D4 D5) as [G S'].
      rewrite D6 in H. cbn [andb] in H. rewrite D7, set_chk_false in H.
      destruct (pc_is (t_pc u') Done) eqn:Ed.
      * apply pc_is_eq in Ed. injection H as <- <-.
        unfold step_ok. repeat (split; [reflexivity|]). split; [|split; [exact G|split; [exact S'|split; reflexivity]]].
        apply MK; msimp; auto.
        split; [reflexivity|]. split; [apply G; exact B2|]. rewrite C1. split; [reflexivity | left; exact Ed].
      * injection H as <- <-.
        unfold step_ok. repeat (split; [reflexivity|]). split; [|split; [exact G|split; [exact S'|split; reflexivity]]].
        apply MK; msimp; auto.
        rewrite Hpc, Er. split; [exact B1|]. split; [apply G; exact B2|]. split; [exact C1|].
        destruct D1 as [D1|[D1|D1]]; auto. rewrite D1 in Ed. discriminate.
  - (* MDone *)
    injection H as <- <-.
    unfold step_ok; repeat (split; [reflexivity|]); split; [|split; [apply grows_refl|split; [exact S|split; reflexivity]]].
    apply MK; msimp; auto; try apply grows_refl. rewrite Hpc. exact A8.
Qed.
