(* Proofs/UploaderSeq: one uploader alone (a sequential run).  For a week W
   with no report before, whose count files all ended before the start time
   and one of which has a counter, every complete run ends with
   local.W.json = the aggregate of exactly the week's files. *)
From Coq Require Import List ZArith NArith Bool Lia Arith.
From Tele Require Import Lib.Bytes Lib.FS Model.Span Model.Uploader
  Proofs.FSFacts Proofs.UploaderBase Proofs.UploaderNames Proofs.UploaderFiles Proofs.UploaderData
  Proofs.UploaderEver.
Import ListNotations.
Open Scope nat_scope.

(* ---------------------------------------------------------------- helpers *)
Lemma before_not_after e s : before_start e s = true -> after_start e s = false.
Proof.
  unfold before_start, after_start. intros H.
  apply orb_true_iff in H. apply Z.ltb_ge.
  destruct H as [H | H].
  - apply Z.ltb_lt in H. lia.
  - apply andb_true_iff in H. destruct H as [H _]. apply Z.eqb_eq in H. lia.
Qed.

Lemma mem_map_fst_in {C} (d : dir C) n : d_mem d n = true -> In n (map fst d).
Proof.
  unfold d_mem. induction d as [|[k v] d IH]; simpl; [discriminate|].
  destruct (beq k n) eqn:E; intros H.
  - apply beq_eq in E. auto.
  - auto.
Qed.

Lemma mem_in_d_names {C} (d : dir C) n : d_mem d n = true -> In n (d_names d).
Proof. intros H. unfold d_names. apply in_sort_names. apply mem_map_fst_in. exact H. Qed.

Lemma find_mem {C} (d : dir C) n v : d_find d n = Some v -> d_mem d n = true.
Proof. unfold d_mem. intros ->. reflexivity. Qed.

(* the group of week w *)
Definition glook (w : bytes) (g : list group) : list (bytes * cfile) :=
  match take_week w g with Some (l, _) => l | None => [] end.

Lemma glook_add g w w' e :
  glook w (group_add g w' e) = if beq w' w then glook w g ++ [e] else glook w g.
Proof.
  unfold glook. induction g as [|[w0 l] g IH]; simpl.
  - destruct (beq w' w); reflexivity.
  - destruct (beq w0 w') eqn:E0; simpl.
    + apply beq_eq in E0. subst w0. destruct (beq w' w) eqn:E; [reflexivity|].
      destruct (take_week w g) as [[? ?]|]; reflexivity.
    + destruct (beq w0 w) eqn:E1.
      * apply beq_eq in E1. subst w0. rewrite beq_sym, E0. reflexivity.
      * destruct (take_week w (group_add g w' e)) as [[l1 r1]|];
          destruct (take_week w g) as [[l2 r2]|]; auto.
Qed.

Lemma glook_group_files start w cs :
  glook w (group_files start cs) =
  filter (fun e => before_start (cf_end (snd e)) start && beq (uploader_week (cf_end (snd e))) w) cs.
Proof.
  unfold group_files.
  assert (G : forall acc,
    glook w (fold_left (fun g e => if before_start (cf_end (snd e)) start
                                   then group_add g (uploader_week (cf_end (snd e))) e else g) cs acc) =
    glook w acc ++ filter (fun e => before_start (cf_end (snd e)) start && beq (uploader_week (cf_end (snd e))) w) cs).
  { induction cs as [|e cs IH]; intros acc; simpl.
    - rewrite app_nil_r. reflexivity.
    - rewrite IH. destruct (before_start (cf_end (snd e)) start); simpl; auto.
      rewrite glook_add. destruct (beq (uploader_week (cf_end (snd e))) w); auto.
      rewrite <- app_assoc. reflexivity. }
  rewrite G. reflexivity.
Qed.

Lemma take_week_other w w' g files rest :
  take_week w' g = Some (files, rest) -> w' <> w -> glook w rest = glook w g.
Proof.
  unfold glook. revert files rest. induction g as [|[w0 l] g IH]; simpl; intros files rest E Hne; [discriminate|].
  destruct (beq w0 w') eqn:E0.
  - injection E as <- <-. apply beq_eq in E0. subst w0. rewrite (beq_false_ne _ _ Hne).
    destruct (take_week w g) as [[? ?]|]; reflexivity.
  - destruct (take_week w' g) as [[l0 r]|] eqn:Et; [|discriminate]. injection E as <- <-.
    simpl. specialize (IH _ _ eq_refl Hne). destruct (beq w0 w); auto.
    destruct (take_week w r) as [[? ?]|]; destruct (take_week w g) as [[? ?]|]; simpl in *; subst; auto.
Qed.

Lemma take_week_in w g l rest : take_week w g = Some (l, rest) -> In (w, l) g.
Proof.
  revert l rest. induction g as [|[w0 l0] g IH]; simpl; intros l rest E; [discriminate|].
  destruct (beq w0 w) eqn:E0.
  - injection E as <- <-. apply beq_eq in E0. subst. auto.
  - destruct (take_week w g) as [[l1 r]|]; [|discriminate]. injection E as <- <-. right. eapply IH. reflexivity.
Qed.

Lemma glook_some w g : glook w g <> [] -> exists rest, take_week w g = Some (glook w g, rest).
Proof.
  unfold glook. destruct (take_week w g) as [[l r]|]; intros H; [eauto|contradiction].
Qed.

(* ---------------------------------------------------------------- one uploader alone *)
Section Solo.
Variables (f : FS) (c : ucfg) (W : bytes).
Hypothesis Hwf : fs_wf f.

(* the count files of week W in the initial directory *)
Definition wfile (n : bytes) (cf : cfile) : Prop :=
  is_count n = true /\ exists id ct, d_find (f_local f) n = Some (id, ct) /\ parse ct = Some cf /\
                                     uploader_week (cf_end cf) = W.

(* no report for W before *)
Hypothesis P1a : d_mem (f_local f) (local_name W) = false.
Hypothesis P1b : d_mem (f_local f) (ready_name W) = false.
Hypothesis P1c : d_mem (up_dir f) (marker_name W) = false.
Hypothesis P1d : forall g, d_mem (f_local f) g = true -> collect_ready c g = true ->
                           contains g W = false.
(* the names of other weeks' reports do not contain W *)
Hypothesis P2 : forall n id ct cf, d_find (f_local f) n = Some (id, ct) -> parse ct = Some cf ->
  uploader_week (cf_end cf) <> W ->
  contains (ready_name (uploader_week (cf_end cf))) W = false.
(* all of W's files ended before the start, one has a counter *)
Hypothesis Hall : forall n cf, wfile n cf -> before_start (cf_end cf) (u_start c) = true.
Hypothesis Hne : exists n cf, wfile n cf /\ cf_counts cf <> [].

Definition st0 : state := init_state f [c].

Definition Wf (fs : FS) : Prop := forall n cf, wfile n cf -> d_find (f_local fs) n = d_find (f_local f) n.
Definition NoL (fs : FS) : Prop := d_mem (f_local fs) (local_name W) = false.
Definition NoR (fs : FS) : Prop := d_mem (f_local fs) (ready_name W) = false.
Definition NoM (fs : FS) : Prop := d_mem (up_dir fs) (marker_name W) = false.

Definition clean_r (t : thread) : Prop := forall g, In g (t_ready t) -> contains g W = false.
Definition clean_u (t : thread) : Prop := forall u, t_uploaded t = Some u -> ~ In (marker_name W) u.
Definition group_ok (l : list (bytes * cfile)) : Prop := forall n cf, In (n, cf) l <-> wfile n cf.

Definition phaseA (fs : FS) (t : thread) : Prop :=
  Wf fs /\ NoL fs /\ NoR fs /\ NoM fs /\
  match t_pc t with
  | FReadLocal => fs = f
  | FReadCount => clean_r t /\ (forall n cf, wfile n cf -> In n (t_ents t) \/ In (n, cf) (t_count t))
  | FReadUpload | FMkdir => clean_r t /\ (forall n cf, wfile n cf -> In (n, cf) (t_count t))
  | RPick => clean_r t /\ clean_u t /\ group_ok (glook W (t_weeks t))
  | RDel | RStatLocal | RStatUp | RCreateUp | RWriteUp | RCreateLocal | RWriteLocal =>
      clean_r t /\ clean_u t /\ group_ok (glook W (t_weeks t)) /\ t_week t <> W
  | _ => False
  end.

Definition phaseB (fs : FS) (t : thread) : Prop :=
  t_week t = W /\ group_ok (t_files t) /\
  match t_pc t with
  | RStatLocal | RStatUp | RCreateUp => NoL fs /\ NoR fs
  | RWriteUp | RCreateLocal => NoL fs
  | RWriteLocal => d_find (f_local fs) (local_name W) = Some (t_fd t, CRep None)
  | _ => False
  end.

Definition phaseC (fs : FS) : Prop :=
  exists id r, d_find (f_local fs) (local_name W) = Some (id, CRep (Some r)) /\
               r_week r = W /\ r_up r = false /\ group_ok (r_files r).

Definition J (st : state) : Prop :=
  exists t, s_ths st = [t] /\ t_cfg t = c /\
            (phaseA (s_fs st) t \/ phaseB (s_fs st) t \/ phaseC (s_fs st)).

Lemma J_init : J st0.
Proof.
  exists (new_thread 0 c). split; [reflexivity|]. split; [reflexivity|]. left.
  unfold phaseA, Wf, NoL, NoR, NoM. simpl. auto.
Qed.

(* ---- frames: what a step of the only thread can do to W's names ---- *)
Section Frames.
Variables (st : state) (t : thread) (i : nat) (a : act).
Hypothesis Hrf : reach_from st0 st.
Hypothesis Hths : s_ths st = [t].

Let Hr : reach st.
Proof. eapply reach_from_reach; eauto. apply reach_init. exact Hwf. Qed.

Lemma solo_thread j tj : nth_error (s_ths st) j = Some tj -> j = 0 /\ tj = t.
Proof.
  rewrite Hths. destruct j as [|j]; simpl.
  - intros H. injection H as <-. auto.
  - destruct j; discriminate.
Qed.

Lemma frame_Wf : Wf (s_fs st) -> (t_pc t = RDel -> t_week t <> W) -> Wf (s_fs (step st (i, a))).
Proof.
  intros HW Hd n cf Hw. specialize (HW n cf Hw). destruct Hw as (Hc & id & ct & Hf & Hp & Hwk).
  destruct (find_step st i a n Hr) as [E | [(t1 & t' & Hi & Hdec & E) | [(t1 & t' & Hi & Hdec & _) | (t1 & t' & fd & c' & Hi & Hdec & Hwr & _)]]].
  - simpl in E. rewrite E. exact HW.
  - exfalso. destruct (solo_thread _ _ Hi) as [-> ->].
    destruct (deleted_file_week _ _ _ _ _ _ _ _ Hwf Hrf Hi Hdec Hc) as (id' & c0 & cf' & Hf' & Hp' & Hwk' & _).
    rewrite Hf in Hf'. injection Hf' as <- <-. rewrite Hp in Hp'. injection Hp' as <-.
    destruct (remlocal_name _ _ _ _ _ _ Hr Hi Hdec) as [(_ & Hpc & _) | (Hc' & _)]; [|congruence].
    apply (Hd Hpc). congruence.
  - apply createlocal_name in Hdec. congruence.
  - apply writing_name in Hwr. congruence.
Qed.

Lemma frame_NoL : NoL (s_fs st) -> (t_pc t = RCreateLocal -> t_week t <> W) -> NoL (s_fs (step st (i, a))).
Proof.
  unfold NoL. intros HL Hd.
  destruct (find_step st i a (local_name W) Hr) as [E | [(t1 & t' & Hi & Hdec & E) | [(t1 & t' & Hi & Hdec & _) | (t1 & t' & fd & c' & Hi & Hdec & _ & Hf & _)]]].
  - unfold d_mem in *. simpl in E. rewrite E. exact HL.
  - unfold d_mem. simpl in E. rewrite E. reflexivity.
  - exfalso. destruct (solo_thread _ _ Hi) as [-> ->].
    destruct (eff_createlocal _ _ _ _ _ Hdec) as (_ & [(Hp & E & _) | (Hp & E & _)]).
    + pose proof (names_inv_reach _ Hr _ _ Hi) as N.
      assert (Hwk : week_ok (t_week t)) by (apply (ni_week _ N); rewrite Hp; reflexivity).
      apply week_not_local in Hwk. rewrite <- E, is_localrep_local in Hwk. discriminate.
    + apply local_name_inj in E. apply (Hd Hp). auto.
  - apply find_mem in Hf. congruence.
Qed.

Lemma frame_NoR : NoR (s_fs st) -> (t_pc t = RCreateUp -> t_week t <> W) -> NoR (s_fs (step st (i, a))).
Proof.
  unfold NoR. intros HL Hd.
  destruct (find_step st i a (ready_name W) Hr) as [E | [(t1 & t' & Hi & Hdec & E) | [(t1 & t' & Hi & Hdec & _) | (t1 & t' & fd & c' & Hi & Hdec & _ & Hf & _)]]].
  - unfold d_mem in *. simpl in E. rewrite E. exact HL.
  - unfold d_mem. simpl in E. rewrite E. reflexivity.
  - exfalso. destruct (solo_thread _ _ Hi) as [-> ->].
    destruct (eff_createlocal _ _ _ _ _ Hdec) as (_ & [(Hp & E & _) | (Hp & E & _)]).
    + apply ready_name_inj in E. apply (Hd Hp). auto.
    + pose proof (f_equal is_localrep E) as E'. rewrite is_localrep_local in E'.
      assert (Hwk : week_ok W).
      { destruct Hne as (n & cf & (_ & _ & _ & _ & _ & <-) & _). apply week_ok_uploader. }
      apply week_not_local in Hwk. congruence.
  - apply find_mem in Hf. congruence.
Qed.

Lemma frame_NoM : NoM (s_fs st) -> t_pc t <> UWriteMarker -> NoM (s_fs (step st (i, a))).
Proof.
  unfold NoM. intros HM Hp.
  destruct (step_cases st i a) as [-> | (t1 & e & t' & Hi & Hk & Hd & ->)]; [auto|].
  destruct (solo_thread _ _ Hi) as [-> ->].
  simpl. rewrite up_apply. destruct e; auto.
  - rewrite d_mem_add, HM, orb_false_r. apply beq_false_ne.
    destruct (eff_createlock _ _ _ _ _ Hd) as (_ & -> & _). apply lock_ne_marker.
  - destruct (eff_putup _ _ _ _ _ _ Hd) as (Hp' & _). contradiction.
  - destruct (d_mem (d_remove (up_dir (s_fs st)) n) (marker_name W)) eqn:E; auto.
    apply d_mem_remove_true in E. congruence.
Qed.

End Frames.

Lemma wk_ok_W : week_ok W.
Proof. destruct Hne as (n & cf & (_ & _ & _ & _ & _ & <-) & _). apply week_ok_uploader. Qed.

Lemma phaseA_kill fs t : phaseA fs t -> phaseA fs (kill t).
Proof. unfold phaseA, clean_r, clean_u. simpl. auto. Qed.
Lemma phaseB_kill fs t : phaseB fs t -> phaseB fs (kill t).
Proof. unfold phaseB. simpl. auto. Qed.

Lemma glook_nonempty t : group_ok (glook W (t_weeks t)) -> glook W (t_weeks t) <> [].
Proof.
  intros Hg E. destruct Hne as (n & cf & Hw & _). apply Hg in Hw. rewrite E in Hw. contradiction.
Qed.

Lemma has_counts_group l : group_ok l -> has_counts l = true.
Proof.
  intros Hg. destruct Hne as (n & cf & Hw & Hc). apply Hg in Hw.
  unfold has_counts. apply existsb_exists. exists (n, cf). split; auto. simpl.
  destruct (cf_counts cf); [contradiction|reflexivity].
Qed.

Lemma not_needed_clean t : clean_r t -> clean_u t -> not_needed W (t_uploaded t) (t_ready t) = false.
Proof.
  intros Hr Hu. unfold not_needed. apply orb_false_iff. split.
  - destruct (t_uploaded t) as [u|] eqn:E; auto.
    destruct (existsb (beq (W ++ sfx_json)) u) eqn:Ex; auto.
    apply existsb_exists in Ex. destruct Ex as (x & Hx & Hb). apply beq_eq in Hb. subst x.
    exfalso. apply (Hu u E). exact Hx.
  - destruct (existsb (fun g => contains g W) (t_ready t)) eqn:Ex; auto.
    apply existsb_exists in Ex. destruct Ex as (x & Hx & Hb). rewrite (Hr x Hx) in Hb. discriminate.
Qed.

(* thread-level step of phase A (file system facts are supplied by the frames) *)
Lemma group_files_ok_W t :
  t_cfg t = c -> data_inv (f_local f) t -> names_inv t ->
  (forall n cf, wfile n cf -> In (n, cf) (t_count t)) ->
  group_ok (glook W (group_files (u_start (t_cfg t)) (t_count t))).
Proof.
  intros Hcfg D N Hcov n cf. rewrite glook_group_files, filter_In. split.
  - intros [Hin Hb]. apply andb_true_iff in Hb. destruct Hb as [Hb Hw]. apply beq_eq in Hw.
    pose proof (di_count _ _ D) as DC. rewrite Forall_forall in DC. specialize (DC _ Hin).
    pose proof (ni_count _ N) as NC. unfold cnames in NC. rewrite Forall_forall in NC. specialize (NC _ Hin).
    destruct DC as (id & ct & Hf & Hp). simpl in *. split; auto. exists id, ct. auto.
  - intros Hw. split; auto. simpl. rewrite Hcfg, (Hall _ _ Hw).
    destruct Hw as (_ & _ & _ & _ & _ & ->). rewrite beq_refl. reflexivity.
Qed.

Lemma phaseA_pick fs t :
  Wf fs -> NoL fs -> NoR fs -> NoM fs -> t_pc t = RPick ->
  clean_r t -> clean_u t -> group_ok (glook W (t_weeks t)) -> phaseA fs t.
Proof.
  intros H1 H2 H3 H4 Hp H5 H6 H7. unfold phaseA. refine (conj H1 (conj H2 (conj H3 (conj H4 _)))).
  rewrite Hp. auto.
Qed.

Lemma phaseA_rep fs t :
  Wf fs -> NoL fs -> NoR fs -> NoM fs -> (in_rep (t_pc t) = true \/ t_pc t = RPick) ->
  clean_r t -> clean_u t -> group_ok (glook W (t_weeks t)) -> t_week t <> W -> phaseA fs t.
Proof.
  intros H1 H2 H3 H4 Hp H5 H6 H7 H8. unfold phaseA. refine (conj H1 (conj H2 (conj H3 (conj H4 _)))).
  destruct Hp as [Hp | Hp]; destruct (t_pc t); try discriminate; auto.
Qed.

Lemma clean_r_finish t :
  names_inv t -> data_inv (f_local f) t -> in_rep (t_pc t) = true -> t_week t <> W -> clean_r t ->
  forall g, In g (if t_upok t then t_ready t ++ [ready_name (t_week t)] else t_ready t) ->
            contains g W = false.
Proof.
  intros N D Hp Hw Hc g Hg. destruct (t_upok t); auto.
  apply in_app_iff in Hg. destruct Hg as [Hg | [<- | []]]; auto.
  pose proof (ni_nonempty _ N Hp) as Hne'. pose proof (di_files _ _ D Hp) as DF.
  destruct (t_files t) as [|[n cf] l]; [contradiction|]. inversion DF; subst.
  destruct H1 as ((id & ct & Hf & Hpa) & _ & Hwk). simpl in *. rewrite <- Hwk in *.
  eapply P2; eauto.
Qed.

Ltac phA := left; unfold phaseA; simpl; refine (conj _ (conj _ (conj _ (conj _ _)))); auto.

Lemma stepA st t a e t' :
  reach_from st0 st -> s_ths st = [t] -> t_cfg t = c -> t_killed t = false ->
  decide_all (s_fs st) a t = (e, t') -> phaseA (s_fs st) t ->
  let fs' := fst (apply_eff e (s_fs st) (s_log st)) in
  Wf fs' -> NoL fs' -> NoR fs' -> NoM fs' ->
  phaseA fs' t' \/ phaseB fs' t'.
Proof.
  intros Hrf Hths Hcfg Hk Hd (HW & HL & HR & HM & Hpc) fs' HW' HL' HR' HM'.
  assert (Hr : reach st) by (eapply reach_from_reach; eauto; apply reach_init; exact Hwf).
  destruct (data_reach _ _ _ Hwf Hrf) as (_ & _ & HD).
  assert (Hi : nth_error (s_ths st) 0 = Some t) by (rewrite Hths; reflexivity).
  pose proof (HD _ _ Hi) as D. pose proof (names_inv_reach _ Hr _ _ Hi) as N.
  destruct a as [o | w | | ].
  4: { (* kill *) simpl in Hd. injection Hd as <- <-. left. apply phaseA_kill.
       unfold phaseA. auto. }
  - (* a call *)
    simpl in Hd. unfold decide in Hd.
    destruct (t_pc t) eqn:Epc; try contradiction.
    6-12: (destruct Hpc as (Hcl & Hcu & Hg & Hwk);
           assert (Hin : in_rep (t_pc t) = true) by (rewrite Epc; reflexivity);
           pose proof (clean_r_finish t N D Hin Hwk Hcl) as Hfin;
           repeat match type of Hd with
                  | context [match ?x with _ => _ end] => destruct x eqn:?
                  end; injection Hd as <- <-; left;
           apply phaseA_rep; auto; simpl; auto;
           try (unfold finish_week, start_del; simpl);
           try (match goal with |- context [match ?x with _ => _ end] => destruct x; simpl; auto end)).
    + (* FReadLocal *)
      subst fs'. injection Hd as <- <-. simpl in *. rewrite Hpc in *.
      assert (Hcl : clean_r (set_listing t FReadCount (filter is_count (d_names (f_local f)))
                              (filter (collect_ready (t_cfg t)) (d_names (f_local f))))).
      { intros g Hg. simpl in Hg. apply filter_In in Hg. destruct Hg as [Hg Hcr].
        rewrite Hcfg in Hcr. apply P1d; auto. apply in_d_names. exact Hg. }
      assert (Hcov : forall n cf, wfile n cf -> In n (filter is_count (d_names (f_local f)))).
      { intros n cf (Hc & id & ct & Hf & _). apply filter_In. split; auto.
        apply mem_in_d_names. eapply find_mem; eauto. }
      destruct (filter is_count (d_names (f_local f))) as [|x l] eqn:El; phA;
        try (split; [exact Hcl|]; intros n cf Hw;
             first [left; apply (Hcov n cf Hw) | destruct (Hcov n cf Hw)]).
    + (* FReadCount *)
      destruct Hpc as [Hcl Hcov]. subst fs'.
      destruct (t_ents t) as [|n rest] eqn:Ee.
      * injection Hd as <- <-. phA. split; auto.
        intros m cf Hw. destruct (Hcov m cf Hw) as [[] | H]; auto.
      * injection Hd as <- <-. simpl in *.
        set (cnt := match d_get (f_local (s_fs st)) n with
                    | Some ct => match parse ct with
                                 | Some cf => if after_start (cf_end cf) (u_start (t_cfg t)) then t_count t
                                              else t_count t ++ [(n, cf)]
                                 | None => t_count t end
                    | None => t_count t end).
        assert (Hsub : forall x, In x (t_count t) -> In x cnt).
        { intros x Hx. subst cnt. destruct (d_get (f_local (s_fs st)) n) as [ct|]; auto.
          destruct (parse ct) as [cf|]; auto. destruct (after_start _ _); auto. apply in_or_app. auto. }
        assert (Hcov' : forall m cf, wfile m cf -> In m rest \/ In (m, cf) cnt).
        { intros m cf Hw. destruct (Hcov m cf Hw) as [[<- | Hin] | Hin]; auto.
          right. subst cnt. pose proof (HW _ _ Hw) as E1.
          pose proof (Hall _ _ Hw) as Hb. apply before_not_after in Hb.
          destruct Hw as (_ & id & ct & Hf & Hp & _). rewrite Hf in E1.
          unfold d_get. rewrite E1, Hp, Hcfg, Hb. apply in_or_app. right. left. reflexivity. }
        destruct rest as [|y rest']; phA; try (split; [exact Hcl|]); try exact Hcov';
          try (intros m cf Hw; destruct (Hcov' m cf Hw) as [[] | H]; auto).
    + (* FReadUpload *)
      destruct Hpc as [Hcl Hcov]. subst fs'.
      destruct (f_upload (s_fs st)) as [d|] eqn:Eu; injection Hd as <- <-; phA.
      split; [exact Hcl|]. split.
      * intros u Eq. injection Eq as <-. intros Hin. apply filter_In in Hin. destruct Hin as [Hin _].
        apply in_d_names in Hin. unfold NoM, up_dir in HM. rewrite Eu in HM. congruence.
      * apply group_files_ok_W; auto.
    + (* FMkdir *)
      destruct Hpc as [Hcl Hcov]. injection Hd as <- <-. phA.
      split; [exact Hcl|]. split.
      * intros u Eq. discriminate.
      * apply group_files_ok_W; auto.
    + (* RPick: a call is not possible, nothing happens *)
      injection Hd as <- <-. left. unfold phaseA. rewrite Epc. auto.
  - (* the range loop picks week w *)
    simpl in Hd. unfold step_pick in Hd.
    destruct (t_pc t) eqn:Epc;
      try (injection Hd as <- <-; left; unfold phaseA; rewrite Epc; auto; fail).
    destruct Hpc as (Hcl & Hcu & Hg).
    destruct (take_week w (t_weeks t)) as [[files rest]|] eqn:Et;
      [|injection Hd as <- <-; left; unfold phaseA; rewrite Epc; auto 12].
    destruct (beq w W) eqn:Ew.
    + (* W itself: the report is needed and has counters *)
      apply beq_eq in Ew. subst w.
      rewrite (not_needed_clean t Hcl Hcu) in Hd.
      assert (Hfiles : files = glook W (t_weeks t)) by (unfold glook; rewrite Et; reflexivity).
      rewrite Hfiles, (has_counts_group _ Hg) in Hd. injection Hd as <- <-.
      right. unfold phaseB. simpl. split; [reflexivity|split; [exact Hg|split; assumption]].
    + (* another week *)
      apply beq_neq in Ew.
      assert (Hg' : group_ok (glook W rest)) by (rewrite (take_week_other _ _ _ _ _ Et Ew); exact Hg).
      destruct (not_needed w (t_uploaded t) (t_ready t)).
      * injection Hd as <- <-. left. apply phaseA_rep; auto; simpl; auto.
        destruct files; simpl; auto.
      * destruct (has_counts files); injection Hd as <- <-; left;
          [apply phaseA_rep|apply phaseA_pick]; auto; simpl; auto.
  - (* the range loop ends: impossible while W is still to do *)
    simpl in Hd. unfold step_pick_none in Hd.
    destruct (t_pc t) eqn:Epc;
      try (injection Hd as <- <-; left; unfold phaseA; rewrite Epc; auto; fail).
    destruct Hpc as (Hcl & Hcu & Hg).
    destruct (forallb (silent t) (t_weeks t)) eqn:Es;
      [|injection Hd as <- <-; left; unfold phaseA; rewrite Epc; auto 12].
    exfalso. destruct (glook_some W (t_weeks t) (glook_nonempty t Hg)) as [rest Et].
    apply take_week_in in Et. rewrite forallb_forall in Es. specialize (Es _ Et).
    unfold silent in Es. simpl in Es. rewrite (not_needed_clean t Hcl Hcu) in Es.
    rewrite (has_counts_group _ Hg) in Es. discriminate.
Qed.


Lemma ready_ne_local : ready_name W <> local_name W.
Proof.
  intros E. pose proof (f_equal is_localrep E) as E'.
  rewrite is_localrep_local, (week_not_local _ wk_ok_W) in E'. discriminate.
Qed.

Lemma stepB fs log t a e t' :
  t_killed t = false -> decide_all fs a t = (e, t') -> phaseB fs t ->
  phaseB (fst (apply_eff e fs log)) t' \/ phaseC (fst (apply_eff e fs log)).
Proof.
  intros Hk Hd (Hw & Hg & Hpc).
  destruct a as [o | w | | ].
  4: { simpl in Hd. injection Hd as <- <-. left. apply phaseB_kill. unfold phaseB. auto. }
  2: { simpl in Hd. unfold step_pick in Hd.
       destruct (t_pc t) eqn:Epc; try contradiction; injection Hd as <- <-; left;
         unfold phaseB; rewrite Epc; auto. }
  2: { simpl in Hd. unfold step_pick_none in Hd.
       destruct (t_pc t) eqn:Epc; try contradiction; injection Hd as <- <-; left;
         unfold phaseB; rewrite Epc; auto. }
  simpl in Hd. unfold decide in Hd. rewrite Hw in Hd.
  destruct (t_pc t) eqn:Epc; try contradiction.
  - (* RStatLocal *) destruct Hpc as [HL HR]. unfold NoL in HL. rewrite HL in Hd. injection Hd as <- <-.
    left. unfold phaseB. simpl. auto.
  - (* RStatUp *) destruct Hpc as [HL HR]. unfold NoR in HR. rewrite HR in Hd. injection Hd as <- <-.
    left. unfold phaseB. simpl. destruct (t_upok t); auto.
  - (* RCreateUp *) destruct Hpc as [HL HR]. unfold NoR in HR. rewrite HR in Hd. injection Hd as <- <-.
    left. unfold phaseB. simpl. split; auto. split; auto.
    unfold NoL in *. simpl. rewrite d_mem_add, HL, orb_false_r. apply beq_false_ne, ready_ne_local.
  - (* RWriteUp *) injection Hd as <- <-. left. unfold phaseB. simpl. split; auto. split; auto.
    unfold NoL in *. simpl. rewrite d_mem_set_id. exact Hpc.
  - (* RCreateLocal *) unfold NoL in Hpc. rewrite Hpc in Hd. injection Hd as <- <-.
    left. unfold phaseB. simpl. split; auto. split; auto.
    rewrite beq_refl. reflexivity.
  - (* RWriteLocal *) injection Hd as <- <-. right. unfold phaseC. simpl.
    exists (t_fd t), (mkRep (t_week t) (t_last t) false (t_files t) (t_id t)).
    rewrite d_find_set_id, Hpc, Nat.eqb_refl. unfold local_body. rewrite Hw. auto.
Qed.

(* ---------------------------------------------------------------- the invariant of a solo run *)
Lemma J_step st ia : reach_from st0 st -> J st -> J (step st ia).
Proof.
  intros Hrf (t & Hths & Hcfg & HJ). destruct ia as [i a].
  assert (Hr : reach st) by (eapply reach_from_reach; eauto; apply reach_init; exact Hwf).
  destruct (step_cases st i a) as [E | (t1 & e & t' & Hi & Hk & Hd & E)].
  - rewrite E. exists t. auto.
  - destruct (solo_thread st t Hths _ _ Hi) as [-> ->].
    assert (Hcfg' : t_cfg t' = c) by (rewrite (cfg_step _ _ _ _ _ Hd); exact Hcfg).
    exists t'. split; [rewrite E; simpl; rewrite Hths; reflexivity|]. split; [exact Hcfg'|].
    destruct HJ as [HA | [HB | HC]].
    + (* before W's report *)
      pose proof HA as (HW & HL & HR & HM & Hpc).
      assert (Hnd : t_pc t = RDel -> t_week t <> W).
      { intros Hp. rewrite Hp in Hpc. tauto. }
      assert (Hncl : t_pc t = RCreateLocal -> t_week t <> W).
      { intros Hp. rewrite Hp in Hpc. tauto. }
      assert (Hncu : t_pc t = RCreateUp -> t_week t <> W).
      { intros Hp. rewrite Hp in Hpc. tauto. }
      assert (Hnwm : t_pc t <> UWriteMarker).
      { intros Hp. rewrite Hp in Hpc. exact Hpc. }
      pose proof (frame_Wf st t 0 a Hrf Hths HW Hnd) as HW'.
      pose proof (frame_NoL st t 0 a Hrf Hths HL Hncl) as HL'.
      pose proof (frame_NoR st t 0 a Hrf Hths HR Hncu) as HR'.
      pose proof (frame_NoM st t 0 a Hths HM Hnwm) as HM'.
      rewrite E in HW', HL', HR', HM' |- *. simpl in *.
      destruct (stepA st t a e t' Hrf Hths Hcfg Hk Hd HA HW' HL' HR' HM'); auto.
    + rewrite E. simpl. destruct (stepB _ (s_log st) _ _ _ _ Hk Hd HB); auto.
    + right. right. destruct HC as (id & r & Hf & Hw & Hu & Hg).
      destruct (local_report_stable st (0, a) (local_name W) Hr (is_localrep_local W) (is_count_local W) _ _ Hf)
        as (c' & Hf' & Hc').
      exists id, r. rewrite Hf', Hc'; auto. discriminate.
Qed.

Lemma J_run sched : J (run sched st0).
Proof.
  assert (G : forall st, reach_from st0 st -> J st -> J (run sched st)).
  { induction sched as [|ia s IH]; intros st Hrf HJ; simpl; auto.
    apply IH; [apply rf_step; exact Hrf|apply J_step; auto]. }
  apply G; [apply rf_refl|apply J_init].
Qed.

(* every complete run ends with local.W.json = the aggregate of exactly W's files *)
Theorem one_report_per_week sched t :
  s_ths (run sched st0) = [t] -> t_pc t = Done ->
  exists id r, d_find (f_local (s_fs (run sched st0))) (local_name W) = Some (id, CRep (Some r)) /\
               r_week r = W /\ r_up r = false /\ forall n cf, In (n, cf) (r_files r) <-> wfile n cf.
Proof.
  intros Hths Hp. destruct (J_run sched) as (t0 & Hths0 & _ & HJ).
  rewrite Hths in Hths0. injection Hths0 as <-.
  destruct HJ as [(_ & _ & _ & _ & HA) | [(_ & _ & HB) | HC]].
  - rewrite Hp in HA. contradiction.
  - rewrite Hp in HB. contradiction.
  - exact HC.
Qed.

End Solo.
