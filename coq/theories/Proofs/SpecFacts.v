(* Proofs about Model/Gating, part 3: every request of a run is allowed by the
   executable statement of the property (spec_post_allowed), outside the
   zero-time sentinel class; the sentinel witnesses. *)
From Coq Require Import String.
From Coq Require Import List ZArith NArith Bool Lia Permutation.
From Tele Require Import Lib.Bytes Lib.Calendar Proofs.CalendarFacts Gen.Consts Model.Mode Model.Gating
  Proofs.ModeFacts Proofs.DateOrder Proofs.GatingFacts Proofs.RunFacts.
Import ListNotations.
Open Scope Z_scope.

(* ---- earliest[expiry] ---- *)
Lemma fold_earliest_nonzero bs : forall cur, cur <> zero_ns -> (forall b, In b bs -> b <> zero_ns) ->
  let r := fold_left upd_earliest bs cur in
  r <= cur /\ (forall b, In b bs -> r <= b) /\ (r = cur \/ In r bs).
Proof.
  induction bs as [|b bs IH]; intros cur Hc Hb; cbn [fold_left].
  - split; [lia|]. split; [intros b []|left; reflexivity].
  - assert (U : upd_earliest cur b = Z.min cur b).
    { unfold upd_earliest. destruct (Z.eqb_spec cur zero_ns); [contradiction|]. cbn [orb].
      destruct (Z.ltb_spec b cur); lia. }
    rewrite U.
    assert (Hb0 : b <> zero_ns) by (apply Hb; left; reflexivity).
    destruct (IH (Z.min cur b) ltac:(lia) ltac:(intros; apply Hb; right; assumption)) as (I1 & I2 & I3).
    split; [lia|]. split.
    + intros x [<-|Hx]; [lia | apply I2; exact Hx].
    + destruct I3 as [I3|I3]; [|right; right; exact I3].
      destruct (Z.min_spec cur b) as [[_ E]|[_ E]]; [left; congruence | right; left; congruence].
Qed.

Theorem earliest_is_min bs : bs <> [] -> (forall b, In b bs -> b <> zero_ns) ->
  let r := fold_left upd_earliest bs zero_ns in (forall b, In b bs -> r <= b) /\ In r bs.
Proof.
  destruct bs as [|b bs]; [contradiction|]. intros _ Hb. cbn [fold_left].
  assert (U : upd_earliest zero_ns b = b) by (unfold upd_earliest; rewrite Z.eqb_refl; reflexivity).
  rewrite U.
  destruct (fold_earliest_nonzero bs b ltac:(apply Hb; left; reflexivity) ltac:(intros; apply Hb; right; assumption))
    as (I1 & I2 & I3).
  split.
  - intros x [<-|Hx]; [exact I1 | apply I2; exact Hx].
  - destruct I3 as [->|I3]; [left; reflexivity | right; exact I3].
Qed.

(* the listing order of a week's files (os.ReadDir: by name, i.e. by program)
   does not matter: earliest[expiry] is the same for every order *)
Theorem earliest_order_independent bs bs' : Permutation bs bs' ->
  (forall b, In b bs -> b <> zero_ns) ->
  fold_left upd_earliest bs zero_ns = fold_left upd_earliest bs' zero_ns.
Proof.
  intros P NZ. destruct bs as [|b0 bs0].
  - apply Permutation_nil in P. subst. reflexivity.
  - assert (NE' : bs' <> []) by (intros ->; apply Permutation_sym, Permutation_nil in P; discriminate).
    assert (NZ' : forall b, In b bs' -> b <> zero_ns)
      by (intros b I; apply NZ; eapply Permutation_in; [apply Permutation_sym; exact P | exact I]).
    destruct (earliest_is_min (b0 :: bs0) ltac:(discriminate) NZ) as [M1 I1].
    destruct (earliest_is_min bs' NE' NZ') as [M2 I2]. cbv zeta in *.
    pose proof (M2 _ (Permutation_in _ P I1)).
    pose proof (M1 _ (Permutation_in _ (Permutation_sym P) I2)). lia.
Qed.

(* the quirk: a begin equal to the zero time is forgotten *)
Example earliest_forgets_zero_begin :
  fold_left upd_earliest [zero_ns; zero_ns + 4 * ns_per_day] zero_ns = zero_ns + 4 * ns_per_day.
Proof. reflexivity. Qed.

Lemma group_in start cnt g : In g (groups_of start cnt) ->
  g_files g = filter (sel start (g_exp g)) cnt /\
  g_earliest g = fold_left upd_earliest (map begin_of (g_files g)) zero_ns.
Proof.
  unfold groups_of. intros H. apply in_map_iff in H as (wk & <- & _). split; reflexivity.
Qed.

(* ---- small list / string facts ---- *)
Lemma existsb_false {A} (p : A -> bool) l : existsb p l = false -> forall x, In x l -> p x = false.
Proof.
  intros H x I. destruct (p x) eqn:E; [|reflexivity].
  assert (existsb p l = true) by (apply existsb_exists; exists x; auto). congruence.
Qed.

Lemma trim_suffix_app w s : trim_suffix (w ++ s) s = w.
Proof.
  unfold trim_suffix. assert (H : has_suffix (w ++ s) s = true) by (apply has_suffix_app; exists w; reflexivity).
  rewrite H, app_length, Nat.add_sub, firstn_app, firstn_all, Nat.sub_diag. cbn [firstn]. apply app_nil_r.
Qed.

Lemma last_n_exact n s : length s = n -> last_n n s = s.
Proof. intros <-. unfold last_n. rewrite Nat.sub_diag. reflexivity. Qed.

Lemma in_week_filter start wk l :
  filter (in_week start wk) l = filter (sel start wk) (filter (collectable start) l).
Proof.
  rewrite filter_filter. apply filter_ext. intros f. unfold in_week, collectable, sel.
  destruct (has_suffix (lf_name f) count_suffix); [|reflexivity]. cbn [andb].
  destruct (lf_span f) as [[b e]|]; [|reflexivity].
  destruct (Z.ltb_spec e start); [|cbn [andb]; symmetry; apply andb_false_r].
  destruct (Z.ltb_spec start e); [lia | reflexivity].
Qed.

Definition year_ok_day (d : Z) : Prop := let '(y, _, _) := civil_from_days d in 0 <= y <= 9999.
(* what time.Parse(RFC3339) can return: years 0..9999 *)
Definition spans_ok (l : list lfile) : Prop :=
  forall f b e, In f l -> lf_span f = Some (b, e) -> year_ok_day (e / ns_per_day).

Lemma week_of_ok e : year_ok_day (e / ns_per_day) ->
  parse_date (week_of e) = Some (e / ns_per_day) /\ length (week_of e) = 10%nat.
Proof.
  intros Y. unfold week_of, year_ok_day in *. pose proof (fmt_parse_any_year (e / ns_per_day)) as F.
  destruct (civil_from_days (e / ns_per_day)) as [[y m] d]. destruct F as [F _]. destruct (F Y) as [P _].
  split; [exact P|]. apply date_shape_len. eapply parse_date_shape. exact P.
Qed.

Section SpecFacts.
Variable R : Type.
Variable rlt : R -> R -> bool.
Variable rzero : R.

Theorem posts_allowed (cfg : runcfg R) fs fd n :
  sentinel_involved fs = false ->
  year_ok_day (rc_start cfg / ns_per_day) ->
  (forall l, fs_local fs = Some l -> spans_ok l) ->
  In (EPost fd n) (fst (run R rlt rzero cfg fs)) ->
  spec_post_allowed R rlt rzero cfg fs fd = true.
Proof.
  intros S Y SP H. unfold run in H.
  pose proof (posts_justified R rlt rzero (mode_of (fs_mode fs)) (asof_of (fs_mode fs)) cfg (dirs_of fs) fd n) as J.
  destruct (run_ma R rlt rzero _ _ cfg (dirs_of fs)) as [e d']. cbn [fst] in *.
  destruct (J H) as (-> & F & l & L & C). clear J H.
  cbn [dirs_of d_local] in L. specialize (SP l L).
  unfold sentinel_involved in S. rewrite L in S. apply orb_false_iff in S as [S1 S2].
  pose proof (existsb_false _ _ S2) as S3. clear S2.
  (* the recorded date is the effective date *)
  assert (A : asof_of (fs_mode fs) = snd (parse_mode (fs_mode fs))).
  { unfold asof_of, effective_date. destruct (snd (parse_mode (fs_mode fs))) as [a|]; [|reflexivity].
    rewrite S1. reflexivity. }
  unfold spec_post_allowed. rewrite L. apply orb_true_iff.
  destruct C as [(f & If & Nf & Rr)|(g & Ig & Ng & U & Cn)].
  - (* a report found in local/ *)
    left. apply existsb_exists. exists f. split; [exact If|]. rewrite Nf, beq_refl, andb_true_r.
    apply ready_report_iff in Rr as (Js & Lp & _ & M & D).
    unfold spec_leftover_sendable. rewrite M, Js, Lp. change (beq m_on m_on) with true. cbn [andb negb].
    destruct (report_date_raw n) as [dd|] eqn:RD; [|reflexivity].
    specialize (S3 f If). apply orb_false_iff in S3 as [S3 _]. rewrite Nf, RD in S3.
    assert (RE : report_date n = Some dd) by (unfold report_date, effective_date; rewrite RD, S3; reflexivity).
    unfold report_date_raw in RD. destruct (re_date n) as [s|] eqn:RS; [|discriminate].
    rewrite (future_report_days _ _ _ _ Y RS RD) in F. apply Z.ltb_ge in F.
    apply andb_true_iff. split; [apply Z.leb_le; exact F|].
    rewrite <- A. destruct (asof_of (fs_mode fs)) as [a|]; [|reflexivity].
    destruct D as [D|[D|(a' & r & Ea & Er & Lt)]]; try congruence.
    apply Z.ltb_lt. congruence.
  - (* a report built in this run *)
    right. destruct (group_in _ _ _ Ig) as [GF GE].
    destruct (g_files g) as [|f0 fl0] eqn:EF; [discriminate|].
    assert (I0 : In f0 (filter (sel (rc_start cfg) (g_exp g)) (filter (collectable (rc_start cfg)) l)))
      by (rewrite <- GF; left; reflexivity).
    apply filter_In in I0 as [I0 S0]. apply filter_In in I0 as [I0 _].
    unfold sel in S0. destruct (lf_span f0) as [[b0 e0]|] eqn:SP0; [|discriminate].
    apply andb_true_iff in S0 as [_ W0]. apply beq_eq in W0.
    destruct (week_of_ok e0 (SP f0 b0 e0 I0 SP0)) as [PW LW]. rewrite W0 in PW, LW.
    rewrite Ng, trim_suffix_app, (last_n_exact 10 _ LW).
    rewrite in_week_filter, <- GF.
    apply upload_ok_iff in U as (M & T & As & Rt).
    rewrite M. change (beq m_on m_on) with true. rewrite PW. cbn [negb andb].
    apply andb_true_iff. split; [apply andb_true_iff; split|].
    + apply Z.leb_le. apply T. exact PW.
    + rewrite <- A. destruct (asof_of (fs_mode fs)) as [a|]; [|reflexivity].
      destruct As as [As|(a' & Ea & Lt)]; [discriminate|]. injection Ea as <-.
      unfold all_begin_after. apply forallb_forall. intros f I. apply Z.ltb_lt.
      assert (NZ : forall x, In x (map begin_of (f0 :: fl0)) -> x <> zero_ns).
      { intros x Ix. apply in_map_iff in Ix as (f' & <- & If').
        rewrite GF in If'. apply filter_In in If' as [If' Sf']. apply filter_In in If' as [If' _].
        specialize (S3 f' If'). apply orb_false_iff in S3 as [_ S3].
        unfold sel in Sf'. unfold begin_of. destruct (lf_span f') as [[b' e']|]; [|discriminate].
        apply Z.eqb_neq. exact S3. }
      destruct (earliest_is_min (map begin_of (f0 :: fl0)) ltac:(discriminate) NZ) as [Mn _].
      cbv zeta in Mn. rewrite <- GE in Mn.
      specialize (Mn (begin_of f) (in_map begin_of _ _ I)). lia.
    + apply negb_true_iff. apply andb_false_iff.
      destruct (rlt rzero (rc_rate cfg)) eqn:E1; [|left; reflexivity].
      destruct (rlt (rc_rate cfg) (rc_x cfg (g_exp g))) eqn:E2; [|right; reflexivity].
      exfalso. apply Rt. split; reflexivity.
Qed.

(* ---- which reports are created ---- *)
Definition is_create (e : effect) : bool := match e with ECreateLocal _ => true | _ => false end.

Lemma no_create_in l n : forallb (fun e => negb (is_create e)) l = true -> ~ In (ECreateLocal n) l.
Proof. intros H I. rewrite forallb_forall in H. specialize (H _ I). discriminate. Qed.

Lemma off_allowed_no_create l : forallb off_allowed l = true -> forallb (fun e => negb (is_create e)) l = true.
Proof.
  rewrite !forallb_forall. intros H e I. specialize (H e I). destruct e; try reflexivity; discriminate.
Qed.

Lemma upload_one_no_create (cfg : runcfg R) today nm d :
  forallb (fun e => negb (is_create e)) (fst (upload_one R cfg today nm d)) = true.
Proof.
  unfold upload_one. destruct (future_report today nm); [reflexivity|].
  destruct (d_local d) as [l|]; [|reflexivity].
  destruct (negb (local_has l nm)); [reflexivity|].
  destruct (Nat.ltb _ _); [reflexivity|].
  destruct (d_upload d) as [u|]; [|reflexivity].
  destruct (names_has u _); [reflexivity|].
  destruct (names_has u _); [reflexivity|].
  destruct (Z.eqb _ 200); [reflexivity|]. destruct (_ && _); reflexivity.
Qed.

Lemma upload_all_no_create (cfg : runcfg R) today ready : forall d,
  forallb (fun e => negb (is_create e)) (fst (upload_all R cfg today ready d)) = true.
Proof.
  induction ready as [|r rest IH]; intros d; cbn [upload_all]; [reflexivity|].
  pose proof (upload_one_no_create cfg today r d) as P.
  destruct (upload_one R cfg today r d) as [e d1]. cbn [fst snd] in P.
  specialize (IH d1).
  destruct (upload_all R cfg today rest d1) as [e2 d2]. cbn [fst] in *. rewrite forallb_app, P, IH. reflexivity.
Qed.

Lemma create_report_creates mode asof (cfg : runcfg R) l g n :
  In (ECreateLocal n) (snd (fst (create_report R rlt rzero mode asof cfg l g))) ->
  n = (local_prefix ++ g_exp g ++ json_suffix)%list \/
  (n = (g_exp g ++ json_suffix)%list /\
   upload_ok R rlt rzero mode asof (rc_start cfg) (g_exp g) (g_earliest g) (rc_x cfg (g_exp g)) (rc_rate cfg) = true).
Proof.
  unfold create_report. destruct (negb _); [cbn; intros [H|[]]; discriminate|].
  destruct (local_has l _).
  { cbn [fst snd]. intros H. apply in_app_or in H as [H|H].
    - cbn in H. destruct H as [H|[H|[]]]; discriminate.
    - apply in_map_iff in H as (x & H & _). discriminate. }
  destruct (local_has l _).
  { cbn [fst snd]. intros H. apply in_app_or in H as [H|H].
    - cbn in H. destruct H as [H|[H|[H|[]]]]; discriminate.
    - apply in_map_iff in H as (x & H & _). discriminate. }
  cbn [fst snd]. intros H.
  apply in_app_or in H as [H|H]; [cbn in H; destruct H as [H|[H|[H|[]]]]; discriminate|].
  apply in_app_or in H as [H|H].
  - destruct (upload_ok R rlt rzero _ _ _ _ _ _ _); [|destruct H].
    destruct H as [H|[]]. injection H as <-. right. split; reflexivity.
  - apply in_app_or in H as [H|H].
    + destruct H as [H|[]]. injection H as <-. left. reflexivity.
    + apply in_map_iff in H as (x & H & _). discriminate.
Qed.

Lemma reports_loop_creates mode asof (cfg : runcfg R) uploaded gs : forall l ready n,
  In (ECreateLocal n) (snd (fst (reports_loop R rlt rzero mode asof cfg uploaded gs l ready))) ->
  exists g, In g gs /\
    (n = (local_prefix ++ g_exp g ++ json_suffix)%list \/
     (n = (g_exp g ++ json_suffix)%list /\
      upload_ok R rlt rzero mode asof (rc_start cfg) (g_exp g) (g_earliest g) (rc_x cfg (g_exp g)) (rc_rate cfg) = true)).
Proof.
  induction gs as [|g gs IH]; intros l ready n; cbn [reports_loop]; [intros []|].
  destruct (not_needed _ _ _).
  - specialize (IH (remove_all l (map lf_name (g_files g))) ready n).
    destruct (reports_loop R rlt rzero _ _ _ _ gs _ ready) as [[r1 e1] l1]. cbn [fst snd] in *.
    intros H. apply in_app_or in H as [H|H]; [apply in_map_iff in H as (x & H & _); discriminate|].
    destruct (IH H) as (g' & I & J). exists g'. split; [right; exact I | exact J].
  - pose proof (create_report_creates mode asof cfg l g n) as C.
    destruct (create_report R rlt rzero mode asof cfg l g) as [[nm e1] l1]. cbn [fst snd] in C.
    specialize (IH l1 (match nm with Some x => ready ++ [x] | None => ready end)%list n).
    destruct (reports_loop R rlt rzero _ _ _ _ gs l1 _) as [[r2 e2] l2]. cbn [fst snd] in *.
    intros H. apply in_app_or in H as [H|H].
    + exists g. split; [left; reflexivity | apply C; exact H].
    + destruct (IH H) as (g' & I & J). exists g'. split; [right; exact I | exact J].
Qed.

Theorem creates_justified mode asof (cfg : runcfg R) d n :
  In (ECreateLocal n) (fst (run_ma R rlt rzero mode asof cfg d)) ->
  exists l g, d_local d = Some l /\
    In g (groups_of (rc_start cfg) (filter (collectable (rc_start cfg)) l)) /\
    (n = (local_prefix ++ g_exp g ++ json_suffix)%list \/
     (n = (g_exp g ++ json_suffix)%list /\
      upload_ok R rlt rzero mode asof (rc_start cfg) (g_exp g) (g_earliest g) (rc_x cfg (g_exp g)) (rc_rate cfg) = true)).
Proof.
  unfold run_ma.
  pose proof (find_work_no_post mode asof d (rc_start cfg)) as N1.
  pose proof (find_work_count mode asof d (rc_start cfg)) as W2.
  pose proof (find_work_dirs mode asof d (rc_start cfg)) as W3.
  destruct (find_work mode asof d (rc_start cfg)) as [[w e1] d1]. cbn [fst snd] in *.
  destruct W3 as [L3 _]. unfold reports.
  destruct (beq mode m_off).
  - cbn [upload_all fst]. intros H. exfalso.
    apply in_app_or in H as [H|H]; [eapply no_create_in; [apply off_allowed_no_create; exact N1 | exact H]|].
    cbn in H. destruct H as [H|[]]. discriminate.
  - destruct (d_local d1) as [l|] eqn:L1.
    + pose proof (reports_loop_creates mode asof cfg (w_uploaded w) (groups_of (rc_start cfg) (w_count w)) l (w_ready w) n) as RL.
      destruct (reports_loop R rlt rzero _ _ _ _ _ _ _) as [[r e2] l2]. cbn [fst snd] in RL.
      pose proof (upload_all_no_create cfg (today_of (rc_start cfg)) r {| d_local := Some l2; d_upload := d_upload d1 |}) as U.
      destruct (upload_all R cfg _ r _) as [e3 d3]. cbn [fst] in *.
      intros H. apply in_app_or in H as [H|H]; [exfalso; eapply no_create_in; [apply off_allowed_no_create; exact N1 | exact H]|].
      apply in_app_or in H as [H|H]; [|exfalso; eapply no_create_in; [exact U | exact H]].
      destruct H as [H|H]; [discriminate|].
      destruct (RL H) as (g & G1 & G2). exists l, g. rewrite W2, <- L3 in G1. split; [congruence|]. split; assumption.
    + pose proof (upload_all_no_create cfg (today_of (rc_start cfg)) (w_ready w) d1) as U.
      destruct (upload_all R cfg _ (w_ready w) d1) as [e3 d3]. cbn [fst] in *.
      intros H. exfalso. apply in_app_or in H as [H|H]; [eapply no_create_in; [apply off_allowed_no_create; exact N1 | exact H]|].
      destruct H as [H|H]; [discriminate|]. eapply no_create_in; [exact U | exact H].
Qed.

(* ---- statements at the level of run (mode and date read from the file) ---- *)
Theorem run_post_only_when_on (cfg : runcfg R) fs fd n :
  In (EPost fd n) (fst (run R rlt rzero cfg fs)) -> fst (parse_mode (fs_mode fs)) = m_on.
Proof.
  unfold run. pose proof (post_only_when_on R rlt rzero (mode_of (fs_mode fs)) (asof_of (fs_mode fs)) cfg (dirs_of fs) fd n) as P.
  destruct (run_ma R rlt rzero _ _ cfg (dirs_of fs)) as [e d']. exact P.
Qed.

Theorem run_uploadable_only_if (cfg : runcfg R) fs n :
  In (ECreateLocal n) (fst (run R rlt rzero cfg fs)) -> has_prefix n local_prefix = false ->
  exists l g, fs_local fs = Some l /\
    In g (groups_of (rc_start cfg) (filter (collectable (rc_start cfg)) l)) /\
    n = (g_exp g ++ json_suffix)%list /\
    upload_ok R rlt rzero (mode_of (fs_mode fs)) (asof_of (fs_mode fs)) (rc_start cfg) (g_exp g) (g_earliest g)
              (rc_x cfg (g_exp g)) (rc_rate cfg) = true.
Proof.
  unfold run. pose proof (creates_justified (mode_of (fs_mode fs)) (asof_of (fs_mode fs)) cfg (dirs_of fs) n) as P.
  destruct (run_ma R rlt rzero _ _ cfg (dirs_of fs)) as [e d']. cbn [fst]. intros H NP.
  destruct (P H) as (l & g & L & G & [->|[-> U]]).
  - exfalso. assert (has_prefix (local_prefix ++ g_exp g ++ json_suffix) local_prefix = true)
      by (apply has_prefix_app; eexists; reflexivity). congruence.
  - exists l, g. auto.
Qed.

Theorem run_sent_only_if (cfg : runcfg R) fs fd n :
  year_ok_day (rc_start cfg / ns_per_day) ->
  In (EPost fd n) (fst (run R rlt rzero cfg fs)) ->
  (* not in the future: the date in the name, when it is a date, is today or earlier *)
  (forall s dn, re_date n = Some s -> parse_date s = Some dn -> dn <= rc_start cfg / ns_per_day) /\
  exists l, fs_local fs = Some l /\
   ((* a report found in local/: ... *)
    (exists f, In f l /\ lf_name f = n /\
       (asof_of (fs_mode fs) = None \/ report_date n = None \/
        exists a r, asof_of (fs_mode fs) = Some a /\ report_date n = Some r /\ a < r)) \/
    (* ... or one built in this run from an uploadable week *)
    (exists g, In g (groups_of (rc_start cfg) (filter (collectable (rc_start cfg)) l)) /\
       n = (g_exp g ++ json_suffix)%list /\
       upload_ok R rlt rzero (mode_of (fs_mode fs)) (asof_of (fs_mode fs)) (rc_start cfg) (g_exp g) (g_earliest g)
                 (rc_x cfg (g_exp g)) (rc_rate cfg) = true)).
Proof.
  intros Y. unfold run.
  pose proof (posts_justified R rlt rzero (mode_of (fs_mode fs)) (asof_of (fs_mode fs)) cfg (dirs_of fs) fd n) as P.
  destruct (run_ma R rlt rzero _ _ cfg (dirs_of fs)) as [e d']. cbn [fst]. intros H.
  destruct (P H) as (_ & F & l & L & C). split.
  - intros s dn RS PD. rewrite (future_report_days _ _ _ _ Y RS PD) in F. apply Z.ltb_ge in F. exact F.
  - exists l. split; [exact L|]. destruct C as [(f & If & Nf & Rr)|(g & Ig & Ng & U & _)].
    + left. exists f. apply ready_report_iff in Rr. tauto.
    + right. exists g. auto.
Qed.

(* the 21-day rule counts from the end of the week *)
Lemma upload_ok_end_instant mode asof start e earliest x rate :
  year_ok_day (e / ns_per_day) ->
  upload_ok R rlt rzero mode asof start (week_of e) earliest x rate = true -> start - e <= 21 * ns_per_day.
Proof.
  intros Y U. apply upload_ok_iff in U as (_ & T & _). destruct (week_of_ok e Y) as [P _].
  specialize (T _ P). unfold day_ns in T. unfold ns_per_day in *.
  pose proof (Z.div_mod e (86400 * 1000000000) ltac:(lia)).
  pose proof (Z.mod_pos_bound e (86400 * 1000000000) ltac:(lia)). lia.
Qed.

(* a week built from files whose begin is not the zero time: the recorded
   date is before the begin of every one of them *)
Theorem uploadable_all_after_asof mode a start (cnt : list lfile) g x rate :
  In g (groups_of start cnt) ->
  (forall f, In f (g_files g) -> begin_of f <> zero_ns) ->
  existsb lf_counts (g_files g) = true ->
  upload_ok R rlt rzero mode (Some a) start (g_exp g) (g_earliest g) x rate = true ->
  forall f, In f (g_files g) -> day_ns a < begin_of f.
Proof.
  intros Ig NZ C U f If. destruct (group_in _ _ _ Ig) as [_ GE].
  apply upload_ok_iff in U as (_ & _ & [A|(a' & Ea & Lt)] & _); [discriminate|]. injection Ea as <-.
  assert (NE : map begin_of (g_files g) <> []) by (destruct (g_files g); [destruct If | discriminate]).
  assert (NZ' : forall b, In b (map begin_of (g_files g)) -> b <> zero_ns)
    by (intros b Ib; apply in_map_iff in Ib as (f' & <- & If'); apply NZ; exact If').
  destruct (earliest_is_min _ NE NZ') as [Mn _]. cbv zeta in Mn. rewrite <- GE in Mn.
  specialize (Mn _ (in_map begin_of _ _ If)). lia.
Qed.

End SpecFacts.

(* ---- the zero-time sentinel: three witnesses in the model (R := Z) ---- *)
Definition wit_cfg : runcfg Z :=
  {| rc_start := zero_ns + 8 * ns_per_day; rc_x := fun _ => 5; rc_rate := 0; rc_resp := fun _ => 200 |}.
Definition wit_count (name : string) (begin_day : Z) : lfile :=
  {| lf_name := s2b name; lf_span := Some (zero_ns + begin_day * ns_per_day, zero_ns + 6 * ns_per_day); lf_counts := true |}.
Definition posts_of (e : list effect) : list bytes :=
  flat_map (fun x => match x with EPost fd _ => [fd] | _ => [] end) e.

(* mode file "on 0001-01-01", one count file beginning 0001-01-01T00:00:00Z *)
Definition wit_fs1 : fstate :=
  {| fs_mode := Some (s2b "on 0001-01-01"); fs_local := Some [wit_count "p-0001-01-01.v1.count" 0]; fs_upload := None |}.
(* opt-in 0001-01-03, count files beginning 0001-01-01 and 0001-01-05 in one week *)
Definition wit_fs2 : fstate :=
  {| fs_mode := Some (s2b "on 0001-01-03");
     fs_local := Some [wit_count "p-0001-01-01.v1.count" 0; wit_count "p-0001-01-05.v1.count" 4]; fs_upload := None |}.
(* left-over report 0001-01-01.json under opt-in date 0001-01-02 *)
Definition wit_fs3 : fstate :=
  {| fs_mode := Some (s2b "on 0001-01-02");
     fs_local := Some [ {| lf_name := s2b "0001-01-01.json"; lf_span := None; lf_counts := false |} ]; fs_upload := None |}.

Theorem zero_time_sentinel_refuted :
  (posts_of (fst (run Z Z.ltb 0 wit_cfg wit_fs1)) = [s2b "0001-01-07"] /\
   spec_post_allowed Z Z.ltb 0 wit_cfg wit_fs1 (s2b "0001-01-07") = false /\
   snd (parse_mode (fs_mode wit_fs1)) = Some zero_day /\ sentinel_involved wit_fs1 = true) /\
  (posts_of (fst (run Z Z.ltb 0 wit_cfg wit_fs2)) = [s2b "0001-01-07"] /\
   spec_post_allowed Z Z.ltb 0 wit_cfg wit_fs2 (s2b "0001-01-07") = false /\
   sentinel_involved wit_fs2 = true) /\
  (posts_of (fst (run Z Z.ltb 0 wit_cfg wit_fs3)) = [s2b "0001-01-01"] /\
   spec_post_allowed Z Z.ltb 0 wit_cfg wit_fs3 (s2b "0001-01-01") = false /\
   sentinel_involved wit_fs3 = true).
Proof. vm_compute. repeat split; reflexivity. Qed.

(* ---- a process that mapped its count file while the mode was not off keeps
   recording after the mode is switched to off, until its next rotation:
   Add never reads the mode (known finding recording-until-rotation) ---- *)
Definition wit_fs_local : fstate :=
  {| fs_mode := Some (s2b "local 2024-01-01"); fs_local := Some []; fs_upload := None |}.
Theorem recording_until_rotation_refuted :
  let st := snd (exec Z Z.ltb 0 [OpOpen Z; OpSetMode Z (Some (s2b "off 2024-01-03"))] (wit_fs_local, PUnopened)) in
  mode_of (fs_mode (fst st)) = m_off /\
  fst (step Z Z.ltb 0 (OpAdd Z) st) = [ECounterAdd] /\
  (* ... and the next rotation ends it *)
  fst (exec Z Z.ltb 0 [OpRotate Z true; OpAdd Z; OpAdd Z] st) = [EReadMode].
Proof. vm_compute. repeat split; reflexivity. Qed.
