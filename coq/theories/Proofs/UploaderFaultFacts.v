(* Proofs/UploaderFaultFacts: one uploader.Run under an arbitrary fault plan
   (Model/UploaderFault.v).  Part 1: totality with an explicit bound on the
   number of calls (a potential that every macro step decreases by at least
   the number of calls it makes, and by at least one). *)
From Coq Require Import List ZArith NArith Bool Lia Arith.
From Tele Require Import Lib.Bytes Lib.FS Model.Span Model.Uploader Model.UploaderFault
  Proofs.FSFacts Proofs.UploaderBase.
Import ListNotations.
Open Scope nat_scope.

(* ---------------------------------------------------------------- the potential *)
Definition gsize (g : list group) : nat := fold_right (fun x a => 19 + length (snd x) + a) 0 g.

Definition upl_cost (p : pc) : nat :=
  match p with
  | URead => 8 | ULock => 7 | UStat => 5 | UPost => 4 | UWriteMarker => 3
  | URemAlready | URem4xx | URemDone => 2 | UUnlock => 1 | _ => 0
  end.

Definition phi_t (n : nat) (t : thread) : nat :=
  let r := 8 * length (t_ready t) in
  let F := length (t_files t) in
  match t_pc t with
  | FReadLocal => 21 * n + 5
  | FReadCount => 21 * length (t_ents t) + 20 * length (t_count t) + r + 4
  | FReadUpload => 20 * length (t_count t) + r + 3
  | FMkdir => 20 * length (t_count t) + r + 2
  | RPick => gsize (t_weeks t) + r + 1
  | RStatLocal => 17 + F + gsize (t_weeks t) + r + 1
  | RStatUp => 16 + F + gsize (t_weeks t) + r + 1
  | RCreateUp => 15 + F + gsize (t_weeks t) + r + 1
  | RWriteUp => 14 + F + gsize (t_weeks t) + r + 1
  | RCreateLocal => 12 + F + gsize (t_weeks t) + r + 1
  | RWriteLocal => 11 + F + gsize (t_weeks t) + r + 1
  | RDel => 1 + length (t_dels t) + gsize (t_weeks t) + r + 1
  | Done => 0
  | p => upl_cost p + 8 * length (t_up t)
  end.

Definition phi (x : fstate) : nat :=
  (if x_pre x then 1 else 0) + phi_t (entries (x_fs x)) (x_t x).

(* ---------------------------------------------------------------- list facts *)
Lemma gsize_group_add g w e : gsize (group_add g w e) <= gsize g + 20.
Proof.
  induction g as [|[w' l] g IH]; simpl; [lia|].
  destruct (beq w' w); simpl; [rewrite app_length; simpl; lia|lia].
Qed.

Lemma gsize_group_files start cs : gsize (group_files start cs) <= 20 * length cs.
Proof.
  unfold group_files.
  assert (G : forall acc, gsize (fold_left (fun g e => if before_start (cf_end (snd e)) start
                              then group_add g (uploader_week (cf_end (snd e))) e else g) cs acc)
                          <= gsize acc + 20 * length cs).
  { induction cs as [|e cs IH]; intros acc; simpl; [lia|].
    specialize (IH (if before_start (cf_end (snd e)) start
                    then group_add acc (uploader_week (cf_end (snd e))) e else acc)).
    destruct (before_start (cf_end (snd e)) start); [pose proof (gsize_group_add acc (uploader_week (cf_end (snd e))) e)|]; lia. }
  specialize (G []). simpl in G. lia.
Qed.

Lemma gsize_take w g files rest :
  take_week w g = Some (files, rest) -> gsize g = 19 + length files + gsize rest.
Proof.
  revert files rest. induction g as [|[w' l] g IH]; simpl; intros files rest E; [discriminate|].
  destruct (beq w' w).
  - injection E as <- <-. reflexivity.
  - destruct (take_week w g) as [[l0 r]|]; [|discriminate]. injection E as <- <-.
    simpl. rewrite (IH _ _ eq_refl). lia.
Qed.

Lemma next_upload_len tod l f rest : next_upload tod l = Some (f, rest) -> length rest < length l.
Proof.
  revert f rest. induction l as [|x l IH]; simpl; intros f rest E; [discriminate|].
  destruct (in_future tod x).
  - specialize (IH _ _ E). lia.
  - injection E as <- <-. lia.
Qed.

Lemma phi_advance n t :
  phi_t n (advance t) <= 8 * length (t_up t).
Proof.
  unfold advance. destruct (next_upload (today (t_cfg t)) (t_up t)) as [[f rest]|] eqn:E.
  - apply next_upload_len in E. unfold phi_t. simpl. lia.
  - unfold phi_t. simpl. lia.
Qed.

Lemma filter_two_len {A} (f g : A -> bool) l :
  (forall x, g x = true -> f x = false) -> length (filter f l) + length (filter g l) <= length l.
Proof.
  intros H. induction l as [|x l IH]; simpl; auto.
  destruct (f x) eqn:Ef; destruct (g x) eqn:Eg; simpl; try lia.
  rewrite (H x Eg) in Ef. discriminate.
Qed.

Lemma length_ins_sorted x l : length (ins_sorted x l) = S (length l).
Proof. induction l as [|y l IH]; simpl; auto. destruct (bleb x y); simpl; auto. Qed.

Lemma length_d_names {C} (d : dir C) : length (d_names d) = length d.
Proof.
  unfold d_names, sort_names. rewrite <- (map_length fst d).
  induction (map fst d) as [|y l IH]; simpl; auto. rewrite length_ins_sorted, IH. reflexivity.
Qed.

Lemma collect_not_count c n : collect_ready c n = true -> is_count n = false.
Proof.
  unfold collect_ready. intros H. repeat (apply andb_true_iff in H; destruct H as [H ?]).
  apply negb_true_iff in H. exact H.
Qed.

(* ---------------------------------------------------------------- every macro step pays for its calls *)
Ltac fin_phi :=
  unfold phi_t; simpl;
  repeat match goal with
         | |- context [match ?x with _ => _ end] => destruct x; simpl
         end; try lia.

Local Opaque Nat.mul.

Lemma fdecide_phi p i f err t e t' err' n pan m :
  t_pc t <> RPick -> t_pc t <> Done ->
  fdecide p i f err t = (e, t', err', n, pan) ->
  phi_t m t' + Nat.max 1 n <= phi_t (entries f) t /\ pan = false.
Proof.
  intros Hp1 Hp2 H. unfold fdecide, decide in H.
  destruct (t_pc t) eqn:Epc; try contradiction.
  all: repeat match type of H with
              | context [match ?x with _ => _ end] => destruct x eqn:?
              end; simpl in H; inversion H; subst; clear H; split; auto.
  all: try (unfold phi_t at 2; rewrite Epc).
  all: try (pose proof (phi_advance m t) as HA; set (pa := phi_t m (advance t)) in *; clearbody pa).
  all: try (pose proof (gsize_group_files (u_start (t_cfg t)) (t_count t)) as HG).
  all: try (assert (HL := filter_two_len is_count (collect_ready (t_cfg t)) (d_names (f_local f))
                            (collect_not_count (t_cfg t)));
            rewrite length_d_names in HL; fold (entries f) in HL).
  all: repeat match goal with E : ?a = _ |- _ => rewrite E in * end.
  all: unfold goto_read, finish_week, start_del, abort_week, enter_reports, set_listing, set_read, set_dels,
         set_pc, set_fd, set_buf; simpl.
  all: repeat match goal with
              | |- context [match ?x with nil => _ | cons _ _ => _ end] => destruct x eqn:?; simpl
              | |- context [if ?x then _ else _] => destruct x eqn:?; simpl
              end.
  all: unfold phi_t; simpl.
  all: rewrite ?app_length, ?map_length; simpl in *; try lia.
Qed.

Lemma take_week_in_some w l g : In (w, l) g -> take_week w g <> None.
Proof.
  induction g as [|[w' l'] g IH]; simpl; [tauto|]. intros [E | Hin].
  - injection E as -> ->. rewrite beq_refl. discriminate.
  - destruct (beq w' w); [discriminate|]. specialize (IH Hin).
    destruct (take_week w g) as [[? ?]|]; [discriminate|contradiction].
Qed.

Lemma choose_key picks t w0 w ps :
  choose picks t w0 = (w, ps) -> take_week w0 (t_weeks t) <> None -> take_week w (t_weeks t) <> None.
Proof.
  revert w ps. induction picks as [|[w1|] picks IH]; simpl; intros w ps E H0.
  - injection E as <- <-. exact H0.
  - destruct (take_week w1 (t_weeks t)) eqn:Et; [|eauto]. injection E as <- <-. rewrite Et. discriminate.
  - destruct (find (silent t) (t_weeks t)) as [g|] eqn:Ef.
    + injection E as <- <-.
      apply find_some in Ef. destruct Ef as [Hin _]. destruct g as [wg lg]. eapply take_week_in_some; eauto.
    + destruct (find (fun g => negb (not_needed (fst g) (t_uploaded t) (t_ready t))) (t_weeks t)) as [g|] eqn:Eg; [|eauto].
      injection E as <- <-.
      apply find_some in Eg. destruct Eg as [Hin _]. destruct g as [wg lg]. eapply take_week_in_some; eauto.
Qed.

Lemma fpick_phi p i picks t t' n pan picks' m :
  t_pc t = RPick -> fpick p i picks t = (t', n, pan, picks') ->
  phi_t m t' + Nat.max 1 n <= phi_t m t /\ (pan = true -> bad p i = true).
Proof.
  intros Hp H. unfold fpick in H.
  destruct (t_weeks t) as [|g0 gs] eqn:Ew.
  - injection H as <- <- <- <-. split; [|discriminate].
    unfold start_upload.
    pose proof (phi_advance m (set_upfile t (t_pc t) (t_file t) (t_ready t))) as HA. simpl in HA.
    rewrite Hp in HA. unfold phi_t at 2. rewrite Hp, Ew. simpl. lia.
  - destruct (choose picks t (fst g0)) as [w ps] eqn:Ec.
    assert (Hk : take_week w (t_weeks t) <> None).
    { eapply choose_key; eauto. rewrite Ew. destruct g0 as [w0 l0]. simpl. rewrite beq_refl. discriminate. }
    rewrite Ew in Hk.
    destruct (take_week w (g0 :: gs)) as [[files rest]|] eqn:Et; [|contradiction].
    pose proof (gsize_take _ _ _ _ Et) as HG.
    unfold phi_t at 2. rewrite Hp, Ew.
    destruct (not_needed w (t_uploaded t) (t_ready t)).
    + injection H as <- <- <- <-. split; [|discriminate].
      unfold start_del, phi_t. simpl. destruct files; simpl in *; rewrite ?map_length; lia.
    + destruct (bad p i) eqn:Eb.
      * injection H as <- <- <- <-. split; auto. unfold phi_t. simpl in *. lia.
      * destruct (has_counts files); injection H as <- <- <- <-; (split; [|discriminate]);
          unfold phi_t, start_week, set_weeks; simpl in *; rewrite ?Hp; lia.
Qed.

Lemma phi_t_indep a b t : t_pc t <> FReadLocal -> phi_t a t = phi_t b t.
Proof. intros H. unfold phi_t. destruct (t_pc t); auto. contradiction. Qed.

(* one macro step *)
Lemma fstep_phi p picks x x' picks' :
  fdone x = false -> fstep p picks x = (x', picks') ->
  phi x' + Nat.max 1 (x_idx x' - x_idx x) <= phi x /\ x_idx x <= x_idx x' /\
  (x_panic x' = true -> x_panic x = true \/ exists i, bad p i = true).
Proof.
  intros Hd H. unfold fstep in H. unfold phi. destruct (x_pre x) eqn:Epre.
  - injection H as <- <-. cbn [x_idx x_pre x_fs x_t x_panic].
    replace (S (x_idx x) - x_idx x) with 1 by lia. cbn [Nat.max].
    split; [lia|]. split; [lia|]. auto.
  - unfold fdone in Hd. rewrite Epre in Hd. simpl in Hd.
    destruct (t_pc (x_t x)) eqn:Epc; try discriminate.
    5: { (* RPick *)
      destruct (fpick p (x_idx x) picks (x_t x)) as [[[t' n] pan] pk] eqn:Ef.
      injection H as <- <-. cbn [x_idx x_pre x_fs x_t x_panic].
      destruct (fpick_phi _ _ _ _ _ _ _ _ (entries (x_fs x)) Epc Ef) as [A B].
      replace (x_idx x + n - x_idx x) with n by lia. split; [lia|]. split; [lia|].
      intros Hp. apply orb_true_iff in Hp. destruct Hp as [Hp | Hp]; eauto. }
    all: destruct (fdecide p (x_idx x) (x_fs x) (x_err x) (x_t x)) as [[[[e t'] err'] n] pan] eqn:Ef;
      destruct (apply_eff e (x_fs x) (x_log x)) as [f' log'] eqn:Ea; injection H as <- <-; cbn [x_idx x_pre x_fs x_t x_panic];
      destruct (fdecide_phi _ _ _ _ _ _ _ _ _ _ (entries f') ltac:(rewrite Epc; discriminate) ltac:(rewrite Epc; discriminate) Ef) as [A ->];
      replace (x_idx x + n - x_idx x) with n by lia; (split; [lia|]); (split; [lia|]);
      rewrite orb_false_r; auto.
Qed.

Lemma phi_zero_done x : phi x = 0 -> fdone x = true.
Proof.
  unfold phi, fdone. destruct (x_pre x); [simpl; lia|]. simpl.
  unfold phi_t. destruct (t_pc (x_t x)); simpl; try lia; auto.
Qed.

Lemma frun_total fuel : forall p picks x, phi x <= fuel ->
  let y := frun fuel p picks x in
  fdone y = true /\ x_idx y <= x_idx x + phi x /\
  (x_panic y = true -> x_panic x = true \/ exists i, bad p i = true).
Proof.
  induction fuel as [|k IH]; intros p picks x Hphi; simpl.
  - split; [apply phi_zero_done; lia|]. split; [lia|auto].
  - destruct (fdone x) eqn:Hd; [split; auto; split; [lia|auto]|].
    destruct (fstep p picks x) as [x' picks'] eqn:Es.
    destruct (fstep_phi _ _ _ _ _ Hd Es) as (A & B & C).
    assert (Hk : phi x' <= k) by lia.
    destruct (IH p picks' x' Hk) as (D1 & D2 & D3). split; auto. split; [lia|].
    intros Hp. destruct (D3 Hp) as [Hx | Hx]; auto.
Qed.

Theorem run_total p picks f c exported :
  let y := frun (call_bound (entries f)) p picks (finit f c exported) in
  fdone y = true /\ x_idx y <= call_bound (entries f) /\
  (x_panic y = true -> exists i, bad p i = true).
Proof.
  assert (Hphi : phi (finit f c exported) <= call_bound (entries f)).
  { unfold phi, finit, call_bound, phi_t. simpl. destruct exported; lia. }
  destruct (frun_total _ p picks _ Hphi) as (A & B & C). split; auto. split.
  - simpl in B. lia.
  - intros Hp. destruct (C Hp) as [Hx | Hx]; auto. discriminate.
Qed.

Transparent Nat.mul.
