(* Proofs/DateOrder: for well-formed "2006-01-02" dates the byte order of the
   strings is the order of the days (used by the uploader's future-date test,
   which compares strings).  Uses DateMono (arithmetic, no sweep). *)
From Coq Require Import List ZArith NArith Bool Lia.
From Tele Require Import Lib.Bytes Lib.Calendar Proofs.CalendarFacts Proofs.DateMono.
Import ListNotations.
Open Scope Z_scope.

(* ---- the shape of a string accepted by parse_date ---- *)
Definition dv (c : N) : Z := Z.of_N (c - 48).
Definition dval4 (a b c e : N) : Z := ((dv a * 10 + dv b) * 10 + dv c) * 10 + dv e.
Definition dval2 (a b : N) : Z := dv a * 10 + dv b.

Lemma is_digit_bounds c : is_digit c = true -> (48 <= c <= 57)%N.
Proof.
  unfold is_digit. intros H. apply andb_true_iff in H as [H1 H2].
  apply N.leb_le in H1. apply N.leb_le in H2. lia.
Qed.

Lemma parse_fixed4_val a b c e : all_digits [a; b; c; e] = true ->
  parse_fixed 4 [a; b; c; e] = Some (dval4 a b c e).
Proof.
  intros D. unfold parse_fixed. rewrite D. cbn [length Nat.eqb andb parse_dec parse_dec_acc].
  cbn [all_digits forallb] in D.
  apply andb_true_iff in D as [Da D]. apply andb_true_iff in D as [Db D].
  apply andb_true_iff in D as [Dc D]. apply andb_true_iff in D as [De _].
  rewrite Da, Db, Dc, De. f_equal. unfold dval4, dv.
  apply is_digit_bounds in Da, Db, Dc, De. lia.
Qed.

Lemma parse_fixed2_val a b : all_digits [a; b] = true ->
  parse_fixed 2 [a; b] = Some (dval2 a b).
Proof.
  intros D. unfold parse_fixed. rewrite D. cbn [length Nat.eqb andb parse_dec parse_dec_acc].
  cbn [all_digits forallb] in D.
  apply andb_true_iff in D as [Da D]. apply andb_true_iff in D as [Db _].
  rewrite Da, Db. f_equal. unfold dval2, dv.
  apply is_digit_bounds in Da, Db. lia.
Qed.

Lemma parse_fixed_some w s v : parse_fixed w s = Some v -> all_digits s = true.
Proof.
  unfold parse_fixed. destruct (Nat.eqb (length s) w); [|discriminate].
  destruct (all_digits s); [reflexivity | discriminate].
Qed.

Theorem parse_date_inv s z : parse_date s = Some z ->
  exists a b c e m1 m2 d1 d2,
    s = [a; b; c; e; dash; m1; m2; dash; d1; d2] /\
    all_digits [a; b; c; e] = true /\ all_digits [m1; m2] = true /\ all_digits [d1; d2] = true /\
    valid_civil (dval4 a b c e) (dval2 m1 m2) (dval2 d1 d2) = true /\
    z = days_from_civil (dval4 a b c e) (dval2 m1 m2) (dval2 d1 d2).
Proof.
  intros H. unfold parse_date in H.
  destruct (Nat.eqb (length s) 10) eqn:L; [|discriminate].
  apply Nat.eqb_eq in L.
  destruct s as [|a [|b [|c [|e [|x1 [|m1 [|m2 [|x2 [|d1 [|d2 [|? ?]]]]]]]]]]]; try discriminate L.
  cbn [sub skipn firstn nth_byte nth] in H.
  destruct (parse_fixed 4 [a; b; c; e]) as [y|] eqn:Py; [|discriminate].
  destruct (parse_fixed 2 [m1; m2]) as [m|] eqn:Pm; [|discriminate].
  destruct (parse_fixed 2 [d1; d2]) as [d|] eqn:Pd; [|discriminate].
  pose proof (parse_fixed_some _ _ _ Py) as Dy.
  pose proof (parse_fixed_some _ _ _ Pm) as Dm.
  pose proof (parse_fixed_some _ _ _ Pd) as Dd.
  rewrite (parse_fixed4_val _ _ _ _ Dy) in Py. rewrite (parse_fixed2_val _ _ Dm) in Pm.
  rewrite (parse_fixed2_val _ _ Dd) in Pd.
  injection Py as <-. injection Pm as <-. injection Pd as <-.
  destruct (N.eqb_spec x1 dash) as [->|]; [|discriminate].
  destruct (N.eqb_spec x2 dash) as [->|]; [|discriminate].
  cbn [andb] in H.
  destruct (valid_civil _ _ _) eqn:V; [|discriminate].
  injection H as <-.
  exists a, b, c, e, m1, m2, d1, d2. repeat split; assumption.
Qed.

(* ---- byte order of two well-formed date strings = order of the keys ---- *)
Lemma cmp_lt_key a a' (r r' : Z) (w : Z) :
  is_digit a = true -> is_digit a' = true -> (a < a')%N -> 0 <= r < w -> 0 <= r' < w ->
  dv a * w + r < dv a' * w + r'.
Proof.
  intros D D' L R R'. apply is_digit_bounds in D, D'. unfold dv. nia.
Qed.

Lemma dv_eq c : (48 <= c)%N -> dv c = Z.of_N c - 48.
Proof. intros H. unfold dv. lia. Qed.

Definition key8 (a b c e m1 m2 d1 d2 : N) : Z :=
  dval4 a b c e * 10000 + dval2 m1 m2 * 100 + dval2 d1 d2.

Lemma bcmp_digits a b c e m1 m2 d1 d2 a' b' c' e' m1' m2' d1' d2' :
  all_digits [a; b; c; e; m1; m2; d1; d2] = true ->
  all_digits [a'; b'; c'; e'; m1'; m2'; d1'; d2'] = true ->
  bcmp [a; b; c; e; dash; m1; m2; dash; d1; d2] [a'; b'; c'; e'; dash; m1'; m2'; dash; d1'; d2'] =
  (key8 a b c e m1 m2 d1 d2 ?= key8 a' b' c' e' m1' m2' d1' d2').
Proof.
  intros D D'. cbn [all_digits forallb] in D, D'.
  repeat (match goal with H : _ && _ = true |- _ => apply andb_true_iff in H as [? ?] end).
  repeat (match goal with H : is_digit _ = true |- _ => apply is_digit_bounds in H end).
  unfold key8, dval4, dval2. rewrite !dv_eq by lia. cbn [bcmp].
  change (N.compare dash dash) with Eq. cbv iota.
  repeat (match goal with
          | |- context [N.compare ?x ?y] =>
              destruct (N.compare_spec x y) as [?|?|?];
              [subst | symmetry; apply Z.compare_lt_iff; lia | symmetry; apply Z.compare_gt_iff; lia]
          end).
  symmetry. apply Z.compare_eq_iff. reflexivity.
Qed.

Lemma all_digits_8 a b c e m1 m2 d1 d2 :
  all_digits [a; b; c; e] = true -> all_digits [m1; m2] = true -> all_digits [d1; d2] = true ->
  all_digits [a; b; c; e; m1; m2; d1; d2] = true.
Proof.
  cbn [all_digits forallb]. intros H1 H2 H3.
  repeat (match goal with H : _ && _ = true |- _ => apply andb_true_iff in H as [? ?] end).
  repeat (match goal with H : is_digit _ = true |- _ => rewrite H; clear H end). reflexivity.
Qed.

Theorem date_string_order s1 s2 z1 z2 :
  parse_date s1 = Some z1 -> parse_date s2 = Some z2 ->
  bltb s1 s2 = (z1 <? z2) /\ bleb s1 s2 = (z1 <=? z2).
Proof.
  intros P1 P2.
  destruct (parse_date_inv _ _ P1) as (a & b & c & e & m1 & m2 & d1 & d2 & -> & Dy & Dm & Dd & V & ->).
  destruct (parse_date_inv _ _ P2) as (a' & b' & c' & e' & m1' & m2' & d1' & d2' & -> & Dy' & Dm' & Dd' & V' & ->).
  pose proof (civil_inverse _ _ _ V) as I1. pose proof (civil_inverse _ _ _ V') as I2.
  set (z1 := days_from_civil (dval4 a b c e) (dval2 m1 m2) (dval2 d1 d2)) in *.
  set (z2 := days_from_civil (dval4 a' b' c' e') (dval2 m1' m2') (dval2 d1' d2')) in *.
  assert (K1 : kkey z1 = key8 a b c e m1 m2 d1 d2) by (unfold kkey; rewrite I1; reflexivity).
  assert (K2 : kkey z2 = key8 a' b' c' e' m1' m2' d1' d2') by (unfold kkey; rewrite I2; reflexivity).
  unfold bltb, bleb.
  rewrite (bcmp_digits _ _ _ _ _ _ _ _ _ _ _ _ _ _ _ _
             (all_digits_8 _ _ _ _ _ _ _ _ Dy Dm Dd) (all_digits_8 _ _ _ _ _ _ _ _ Dy' Dm' Dd')).
  rewrite <- K1, <- K2. rewrite <- (kkey_order z1 z2).
  assert (L : (z1 <=? z2) = negb (kkey z2 <? kkey z1)).
  { rewrite kkey_order. destruct (Z.leb_spec z1 z2), (Z.ltb_spec z2 z1); try reflexivity; lia. }
  rewrite L. unfold Z.ltb. rewrite (Z.compare_antisym (kkey z1) (kkey z2)).
  destruct (kkey z1 ?= kkey z2); split; reflexivity.
Qed.
