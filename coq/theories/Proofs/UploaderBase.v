(* Proofs/UploaderBase: names, the step relation unfolded once and for all
   (every step = one thread's decision + one effect), reachability. *)
From Coq Require Import List ZArith NArith Bool Lia Arith.
From Tele Require Import Lib.Bytes Lib.Calendar Lib.FS Model.Span Model.Uploader Proofs.FSFacts.
Import ListNotations.
Open Scope nat_scope.

(* ---------------------------------------------------------------- names *)
Lemma app_inj_tail_l {A} (a b s : list A) : a ++ s = b ++ s -> a = b.
Proof. apply app_inv_tail. Qed.

Lemma ready_name_inj w w' : ready_name w = ready_name w' -> w = w'.
Proof. unfold ready_name. apply app_inv_tail. Qed.
Lemma marker_name_inj w w' : marker_name w = marker_name w' -> w = w'.
Proof. unfold marker_name. apply app_inv_tail. Qed.
Lemma lock_name_inj w w' : lock_name w = lock_name w' -> w = w'.
Proof. unfold lock_name. intros H. apply app_inv_tail in H. apply app_inv_tail in H. exact H. Qed.
Lemma local_name_inj w w' : local_name w = local_name w' -> w = w'.
Proof. unfold local_name. intros H. apply app_inv_head in H. apply app_inv_tail in H. exact H. Qed.

Lemma last_byte_ne (a b : bytes) (x y : N) : x <> y -> a ++ [x] <> b ++ [y].
Proof. intros H E. apply app_inj_tail in E. destruct E as [_ E]. auto. Qed.

Lemma lock_ne_marker w w' : lock_name w <> marker_name w'.
Proof.
  unfold lock_name, marker_name, sfx_lock, sfx_json.
  change [46; 108; 111; 99; 107]%N with ([46; 108; 111; 99]%N ++ [107%N]).
  change [46; 106; 115; 111; 110]%N with ([46; 106; 115; 111]%N ++ [110%N]).
  rewrite !app_assoc. apply last_byte_ne. discriminate.
Qed.

Lemma has_suffix_last_ne (s p : bytes) (x y : N) : x <> y -> has_suffix (s ++ [x]) (p ++ [y]) = false.
Proof.
  intros H. destruct (has_suffix (s ++ [x]) (p ++ [y])) eqn:E; auto.
  apply has_suffix_app in E. destruct E as [u E]. rewrite app_assoc in E.
  exfalso. revert E. apply last_byte_ne. exact H.
Qed.

Lemma is_count_json (s : bytes) : is_count (s ++ sfx_json) = false.
Proof.
  unfold is_count, sfx_json, sfx_count.
  change [46; 106; 115; 111; 110]%N with ([46; 106; 115; 111]%N ++ [110%N]).
  change [46; 118; 49; 46; 99; 111; 117; 110; 116]%N with ([46; 118; 49; 46; 99; 111; 117; 110]%N ++ [116%N]).
  rewrite app_assoc. apply has_suffix_last_ne. discriminate.
Qed.

Lemma is_count_ready w : is_count (ready_name w) = false.
Proof. apply is_count_json. Qed.
Lemma is_count_local w : is_count (local_name w) = false.
Proof. unfold local_name. rewrite app_assoc. apply is_count_json. Qed.
Lemma is_localrep_local w : is_localrep (local_name w) = true.
Proof. unfold is_localrep, local_name. apply has_prefix_app. eexists. reflexivity. Qed.
Lemma is_json_ready w : is_json (ready_name w) = true.
Proof. unfold is_json, ready_name. apply has_suffix_app. eexists. reflexivity. Qed.

(* ---------------------------------------------------------------- lists *)
Lemma nth_error_upd {A} (l : list A) i x j :
  nth_error (upd l i x) j =
  if Nat.eqb i j then match nth_error l i with Some _ => Some x | None => None end
  else nth_error l j.
Proof.
  revert i j. induction l as [|y l IH]; intros [|i] [|j]; simpl; auto.
  all: try (destruct (Nat.eqb i j); reflexivity); try apply IH.
Qed.

Lemma upd_same {A} (l : list A) i x : nth_error l i = Some x -> upd l i x = l.
Proof.
  revert i. induction l as [|y l IH]; intros [|i]; simpl; try discriminate; auto.
  - intros H. injection H as ->. reflexivity.
  - intros H. rewrite IH by exact H. reflexivity.
Qed.

Lemma length_upd {A} (l : list A) i x : length (upd l i x) = length l.
Proof. revert i. induction l as [|y l IH]; intros [|i]; simpl; auto. Qed.

(* ---------------------------------------------------------------- one step *)
(* all actions as one decision *)
Definition decide_all (f : FS) (a : act) (t : thread) : effect * thread :=
  match a with
  | AStep o => decide f o t
  | APick w => (ENone, step_pick w t)
  | APickNone => (ENone, step_pick_none t)
  | AKill => (ENone, kill t)
  end.

Lemma step_thread_eq f log a t :
  step_thread f log a t =
  if t_killed t then (f, log, t)
  else let '(e, t') := decide_all f a t in
       let '(f', log') := apply_eff e f log in (f', log', t').
Proof.
  unfold step_thread, decide_all, step_call. destruct (t_killed t); auto.
  destruct a; auto.
Qed.

Lemma step_cases st i a :
  step st (i, a) = st \/
  exists t e t', nth_error (s_ths st) i = Some t /\ t_killed t = false /\
    decide_all (s_fs st) a t = (e, t') /\
    step st (i, a) = mkSt (fst (apply_eff e (s_fs st) (s_log st)))
                          (snd (apply_eff e (s_fs st) (s_log st)))
                          (upd (s_ths st) i t').
Proof.
  unfold step. simpl. destruct (nth_error (s_ths st) i) as [t|] eqn:Hi; [|left; reflexivity].
  rewrite step_thread_eq. destruct (t_killed t) eqn:Hk.
  - left. rewrite (upd_same _ _ _ Hi). destruct st; reflexivity.
  - right. destruct (decide_all (s_fs st) a t) as [e t'] eqn:Hd.
    exists t, e, t'. repeat split; auto.
    destruct (apply_eff e (s_fs st) (s_log st)); reflexivity.
Qed.

(* ---------------------------------------------------------------- reachability *)
Definition fs_wf (f : FS) : Prop :=
  (forall i, In i (d_ids (f_local f)) -> i < f_next f) /\
  (forall i, In i (d_ids (up_dir f)) -> i < f_next f).

(* any number of runs: uploaders start at any time, steps interleave freely *)
Inductive reach : state -> Prop :=
  | reach_init f cfgs : fs_wf f -> reach (init_state f cfgs)
  | reach_step st ia : reach st -> reach (step st ia)
  | reach_spawn st c : reach st -> reach (spawn st c).

Lemma reach_run sched st : reach st -> reach (run sched st).
Proof.
  revert st. induction sched as [|ia s IH]; intros st H; simpl; auto.
  apply IH. apply reach_step. exact H.
Qed.

(* threads of an initial / spawned state *)
Lemma init_threads f cfgs i t :
  nth_error (s_ths (init_state f cfgs)) i = Some t -> exists k c, t = new_thread k c.
Proof.
  unfold init_state. simpl. intros H. apply nth_error_In in H. apply in_map_iff in H.
  destruct H as [[k c] [H _]]. exists k, c. symmetry. exact H.
Qed.

Lemma spawn_threads st c i t :
  nth_error (s_ths (spawn st c)) i = Some t ->
  nth_error (s_ths st) i = Some t \/ (i = length (s_ths st) /\ t = new_thread (length (s_ths st)) c).
Proof.
  unfold spawn. simpl. intros H.
  destruct (Nat.ltb i (length (s_ths st))) eqn:E.
  - apply Nat.ltb_lt in E. rewrite nth_error_app1 in H by exact E. left. exact H.
  - apply Nat.ltb_ge in E. rewrite nth_error_app2 in H by exact E.
    destruct (i - length (s_ths st)) as [|k] eqn:Ek; simpl in H.
    + injection H as <-. right. split; [lia|reflexivity].
    + destruct k; discriminate.
Qed.

Lemma spawn_old st c i t :
  nth_error (s_ths st) i = Some t -> nth_error (s_ths (spawn st c)) i = Some t.
Proof.
  intros H. unfold spawn. simpl. rewrite nth_error_app1; auto.
  apply nth_error_Some. rewrite H. discriminate.
Qed.

(* ---------------------------------------------------------------- effects on the two directories *)
Lemma local_apply e (f : FS) log :
  f_local (fst (apply_eff e f log)) =
  match e with
  | ERemLocal n => d_remove (f_local f) n
  | ECreateLocal n => d_add (f_local f) n (f_next f) (CRep None)
  | EWriteId fd c => d_set_id (f_local f) fd c
  | _ => f_local f
  end.
Proof. destruct e; reflexivity. Qed.

Lemma up_apply e (f : FS) log :
  up_dir (fst (apply_eff e f log)) =
  match e with
  | ECreateLock n => d_add (up_dir f) n (f_next f) CLock
  | EPutUp n c => d_put (up_dir f) n (f_next f) c
  | ERemUp n => d_remove (up_dir f) n
  | _ => up_dir f
  end.
Proof. destruct e; reflexivity. Qed.

Lemma log_apply e (f : FS) log :
  snd (apply_eff e f log) = match e with EPost a => log ++ [a] | _ => log end.
Proof. destruct e; reflexivity. Qed.

Lemma next_apply e (f : FS) log : f_next f <= f_next (fst (apply_eff e f log)).
Proof. destruct e; simpl; lia. Qed.

(* ---------------------------------------------------------------- inversion of decide *)
Lemma advance_cases t :
  (exists f rest, next_upload (today (t_cfg t)) (t_up t) = Some (f, rest) /\ advance t = set_upfile t URead f rest)
  \/ (next_upload (today (t_cfg t)) (t_up t) = None /\ advance t = set_pc t Done).
Proof.
  unfold advance. destruct (next_upload (today (t_cfg t)) (t_up t)) as [[f rest]|].
  - left. exists f, rest. auto.
  - right. auto.
Qed.

(* replace every [advance x] by its two possible values *)
Ltac adv :=
  repeat match goal with
         | |- context [advance ?x] =>
             let He := fresh "Hadv" in
             destruct (advance_cases x) as [(? & ? & ? & He) | (? & He)]; rewrite !He in *; clear He
         | H : context [advance ?x] |- _ =>
             let He := fresh "Hadv" in
             destruct (advance_cases x) as [(? & ? & ? & He) | (? & He)]; rewrite !He in *; clear He
         end.

(* case analysis of [H : decide_all f a t = (e, t')] into its leaves; the
   thread setters stay folded (projections of them reduce by simpl) *)
Ltac dinv H :=
  unfold decide_all, decide, step_pick, step_pick_none, start_upload in H;
  repeat match type of H with
         | context [match ?x with _ => _ end] => destruct x eqn:?
         end;
  try discriminate;
  inversion H; subst; clear H.

Ltac pcrw :=
  repeat match goal with
         | Hp : t_pc ?x = _ |- _ => progress (rewrite Hp in * )
         end.

Ltac dmatch H :=
  repeat match type of H with
         | context [match ?x with _ => _ end] => destruct x eqn:?
         end.

(* contradictory program-point equations left by dmatch *)
Ltac pcdiscr :=
  try discriminate;
  try (match goal with
       | H : match ?l with _ => _ end = _ |- _ => destruct l; discriminate
       end).

(* which program point produces which effect *)
Lemma eff_remup f a t n t' :
  decide_all f a t = (ERemUp n, t') -> t_pc t = UUnlock /\ n = lock_name (t_week t).
Proof. intros H. destruct a; dinv H; auto. Qed.

Lemma eff_createlock f a t n t' :
  decide_all f a t = (ECreateLock n, t') ->
  t_pc t = ULock /\ n = lock_name (t_week t) /\ d_mem (up_dir f) n = false /\ f_upload f <> None /\ t' = set_pc t UStat.
Proof.
  intros H. destruct a; dinv H. repeat split; auto; try discriminate.
  unfold up_dir. match goal with H : f_upload _ = Some _ |- _ => rewrite H end. assumption.
Qed.

Lemma eff_putup f a t n c t' :
  decide_all f a t = (EPutUp n c, t') ->
  t_pc t = UWriteMarker /\ n = marker_name (t_week t) /\ c = t_buf t /\ t' = set_pc t URemDone.
Proof. intros H. destruct a; dinv H; auto. Qed.

Lemma eff_post f a t k t' :
  decide_all f a t = (EPost k, t') ->
  exists o, a = AStep o /\ t_pc t = UPost /\ k = mkAck (t_week t) (t_buf t) o (t_id t) /\
            t' = set_pc t (match o with O200 => UWriteMarker | O4xx => URem4xx | _ => UUnlock end).
Proof. intros H. destruct a; dinv H; eexists; eauto. Qed.

Lemma eff_mkdir f a t t' : decide_all f a t = (EMkdir, t') -> t_pc t = FMkdir.
Proof. intros H. destruct a; dinv H; auto. Qed.

Lemma eff_remlocal f a t n t' :
  decide_all f a t = (ERemLocal n, t') ->
  (t_pc t = RDel /\ exists rest, t_dels t = n :: rest) \/
  ((t_pc t = URemAlready \/ t_pc t = URem4xx \/ t_pc t = URemDone) /\ n = t_file t /\ t' = set_pc t UUnlock).
Proof. intros H. destruct a; dinv H; eauto 6. Qed.

Lemma eff_createlocal f a t n t' :
  decide_all f a t = (ECreateLocal n, t') ->
  d_mem (f_local f) n = false /\
  ((t_pc t = RCreateUp /\ n = ready_name (t_week t) /\ t' = set_fd t RWriteUp (f_next f)) \/
   (t_pc t = RCreateLocal /\ n = local_name (t_week t) /\ t' = set_fd t RWriteLocal (f_next f))).
Proof. intros H. destruct a; dinv H; auto. Qed.

Lemma eff_writeid f a t fd c t' :
  decide_all f a t = (EWriteId fd c, t') ->
  fd = t_fd t /\
  ((t_pc t = RWriteUp /\ c = upload_body t /\ t' = set_pc t RCreateLocal) \/
   (t_pc t = RWriteLocal /\ c = local_body t /\ t' = finish_week t)).
Proof. intros H. destruct a; dinv H; auto. Qed.

(* ---------------------------------------------------------------- thread-local invariants *)
Lemma thread_inv_reach (P : thread -> Prop) :
  (forall k c, P (new_thread k c)) ->
  (forall f a t e t', decide_all f a t = (e, t') -> P t -> P t') ->
  forall st, reach st -> forall i t, nth_error (s_ths st) i = Some t -> P t.
Proof.
  intros Hnew Hstep st. induction 1; intros j tj Hj.
  - destruct (init_threads _ _ _ _ Hj) as (k & c & ->). apply Hnew.
  - destruct ia as [i a].
    destruct (step_cases st i a) as [E | (t & e & t' & Hi & Hk & Hd & E)]; rewrite E in Hj.
    + eauto.
    + simpl in Hj. rewrite nth_error_upd in Hj. destruct (Nat.eqb i j) eqn:Eij; [|eauto].
      rewrite Hi in Hj. injection Hj as <-. eapply Hstep; eauto.
  - destruct (spawn_threads _ _ _ _ Hj) as [H1 | [_ ->]]; [eauto|apply Hnew].
Qed.

(* steps and spawns from a given state *)
Inductive reach_from (st0 : state) : state -> Prop :=
  | rf_refl : reach_from st0 st0
  | rf_step st ia : reach_from st0 st -> reach_from st0 (step st ia)
  | rf_spawn st c : reach_from st0 st -> reach_from st0 (spawn st c).

Lemma reach_from_reach st0 st : reach st0 -> reach_from st0 st -> reach st.
Proof. intros H0. induction 1; auto using reach_step, reach_spawn. Qed.

Lemma reach_from_run st0 sched : reach_from st0 (run sched st0).
Proof.
  assert (G : forall st, reach_from st0 st -> reach_from st0 (run sched st)).
  { induction sched as [|ia s IH]; intros st H; simpl; auto. apply IH. apply rf_step. exact H. }
  apply G. apply rf_refl.
Qed.
