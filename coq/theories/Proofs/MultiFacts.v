(* Proofs/MultiFacts: (1) an operation whose file growth fails leaves a
   well-formed file with limit <= size; (2) several writers racing through the
   creation sequence of openMapped on one file, in every interleaving of their
   file-system calls, produce a well-formed file that holds what they wrote. *)
From Coq Require Import List Arith NArith ZArith Bool Lia Permutation.
From Tele Require Import Lib.Bytes Lib.BytesN Gen.Consts Model.DecodeStack Model.Layout Model.LayoutMulti
  Proofs.LayoutArith Proofs.LayoutRead Proofs.LayoutWrite Proofs.WriterFacts Proofs.WriterInv.
Import ListNotations.
Open Scope N_scope.

(* ---------------------------------------------------------------- 1. failing growth *)

Lemma Inv_shape s : Inv s ->
  len (w_bs s) mod 16384 = 0 /\ 16384 <= len (w_bs s) /\ handle_ok (w_meta s) (w_hdr s) (w_bs s).
Proof.
  intros [(m & kv & limit & tbl & H) Hh _]. apply spec_read_inv in H.
  destruct H as (_ & _ & _ & H1 & H2 & _). repeat split; assumption.
Qed.

Lemma extend_written_eq bs e : len bs mod 16384 = 0 ->
  extend_written bs e = bs ++ zeros (round_u32 e c_pageSize - len bs).
Proof.
  intro Hm. unfold extend_written. pose proof (round_page_mult e) as He'.
  set (e' := round_u32 e c_pageSize) in *.
  destruct (N.ltb_spec (len bs) e') as [Hlt|Hge].
  - assert (len bs + 16384 <= e') by divlia. apply write_zeros_tail. lia.
  - replace (e' - len bs) with 0 by lia. now rewrite zeros_0, app_nil_r.
Qed.

Lemma step_extend_state s e : Inv s ->
  step s (OpExtend e) = (RDone, with_bs s (extend_written (w_bs s) e)).
Proof.
  intro HI. destruct (Inv_shape s HI) as (Hm & Hl & Hh). cbn [step].
  rewrite (extend_ok (w_meta s) (w_hdr s)) by assumption.
  rewrite extend_written_eq by exact Hm. reflexivity.
Qed.

Lemma extend_fault_some bs e k bs' : extend_fault bs e k = Some bs' ->
  bs' = bs \/ bs' = extend_written bs e.
Proof.
  unfold extend_fault. destruct (len bs <? round_u32 e c_pageSize).
  - destruct (k <? 2); [intro E; injection E as <-; now left|].
    destruct (k <? 5); [intro E; injection E as <-; now right|discriminate].
  - destruct (k <? 4); [intro E; injection E as <-; now left|discriminate].
Qed.

Lemma with_bs_same s : with_bs s (w_bs s) = s.
Proof. destruct s; reflexivity. Qed.

Lemma records_step_fail o rs : records_step o RFail rs rs.
Proof. destruct o; reflexivity. Qed.

Definition step_post (s : wstate) (o : op) (rs : list rec) (r : op_result) (s' : wstate) : Prop :=
  Inv s' /\ (ok_result o r \/ r = RFail) /\
  limit_of (w_bs s) <= limit_of (w_bs s') /\ len (w_bs s) <= len (w_bs s') /\
  tail4_same (w_bs s) (w_bs s') /\
  exists rs', reads s' rs' /\ records_step o r rs rs'.

Lemma fail_state s o e bs' rs : Inv s -> small s -> reads s rs ->
  bs' = w_bs s \/ bs' = extend_written (w_bs s) e -> step_post s o rs RFail (with_bs s bs').
Proof.
  intros HI Hs Hr [->| ->].
  - rewrite with_bs_same. split; [exact HI|]. split; [now right|]. split; [lia|]. split; [lia|].
    split; [intros i _ _; reflexivity|]. exists rs. split; [exact Hr|apply records_step_fail].
  - pose proof (step_inv s (OpExtend e) rs HI Hs Hr) as P. rewrite (step_extend_state s e HI) in P.
    destruct P as (P1 & _ & P3 & P4 & P5 & rs' & P6 & P7). cbn [records_step] in P7. subst rs'.
    split; [exact P1|]. split; [now right|]. split; [exact P3|]. split; [exact P4|]. split; [exact P5|].
    exists rs. split; [exact P6|apply records_step_fail].
Qed.

(* every operation, with or without a failing file-system call: the invariant
   (well-formed, limit <= size) holds afterwards, the limit does not shrink,
   and a failed operation changes no record *)
Lemma step_f_inv s o p rs : Inv s -> small s -> reads s rs ->
  let '(r, s') := step_f s o p in step_post s o rs r s'.
Proof.
  intros HI Hs Hr.
  assert (Hplain : let '(r, s') := step s o in step_post s o rs r s').
  { pose proof (step_inv s o rs HI Hs Hr) as P. destruct (step s o) as [r s'].
    destruct P as (P1 & P2 & P3 & P4 & P5 & P6). split; [exact P1|]. split; [now left|].
    exact (conj P3 (conj P4 (conj P5 P6))). }
  destruct p as [k|]; [|exact Hplain]. destruct o as [name|name delta|e|meta']; cbn [step_f]; try exact Hplain.
  - destruct (growth_end (w_hdr s) (w_bs s) name) as [e|]; [|exact Hplain].
    destruct (extend_fault (w_bs s) e k) as [bs'|] eqn:EF; [|exact Hplain].
    apply (fail_state s _ e bs' rs HI Hs Hr). now apply extend_fault_some in EF.
  - destruct (growth_end (w_hdr s) (w_bs s) name) as [e|]; [|exact Hplain].
    destruct (extend_fault (w_bs s) e k) as [bs'|] eqn:EF; [|exact Hplain].
    apply (fail_state s _ e bs' rs HI Hs Hr). now apply extend_fault_some in EF.
  - destruct (extend_fault (w_bs s) e k) as [bs'|] eqn:EF; [|exact Hplain].
    apply (fail_state s _ e bs' rs HI Hs Hr). now apply extend_fault_some in EF.
Qed.

Fixpoint all_small_f (s : wstate) (ops : list (op * option N)) : Prop :=
  match ops with
  | [] => True
  | (o, p) :: t => small s /\ all_small_f (snd (step_f s o p)) t
  end.

Lemma run_fops_cons s o p t :
  run_fops s ((o, p) :: t) =
  (fst (step_f s o p) :: fst (run_fops (snd (step_f s o p)) t), snd (run_fops (snd (step_f s o p)) t)).
Proof.
  cbn [run_fops]. destruct (step_f s o p) as [r s1]. cbn [fst snd]. destruct (run_fops s1 t). reflexivity.
Qed.

Lemma run_fops_inv ops : forall s, Inv s -> all_small_f s ops -> Inv (snd (run_fops s ops)).
Proof.
  induction ops as [|[o p] t IH]; intros s HI Hs; [exact HI|].
  rewrite run_fops_cons. cbn [snd]. destruct Hs as [Hs1 Hs2].
  destruct (Inv_reads _ HI) as [rs Hr].
  pose proof (step_f_inv s o p rs HI Hs1 Hr) as P. destruct (step_f s o p) as [r s1]. cbn [snd] in *.
  destruct P as (HI1 & _). now apply IH.
Qed.

Lemma all_small_f_firstn n : forall ops s, all_small_f s ops -> all_small_f s (firstn n ops).
Proof.
  induction n as [|n IH]; intros [|[o p] t] s H; cbn [firstn all_small_f] in *; try exact I.
  destruct H as [H1 H2]. split; [exact H1|now apply IH].
Qed.

(* writer_wf with failing growth: after every operation, failed ones included,
   the file is well-formed and its allocation limit is within the file *)
Theorem writer_wf_faults meta s0 ops : meta_ok meta -> create [] meta = Some s0 -> all_small_f s0 ops ->
  forall n, let s := snd (run_fops s0 (firstn n ops)) in
            wf_file (w_bs s) = true /\ limit_of (w_bs s) <= len (w_bs s).
Proof.
  intros Hm Hc Hs n. cbv zeta.
  assert (HI : Inv (snd (run_fops s0 (firstn n ops)))).
  { apply run_fops_inv; [eapply create_inv; eassumption|now apply all_small_f_firstn]. }
  split; [now apply Inv_wf|now apply limit_le_size].
Qed.

Theorem failed_op_changes_no_record s o p rs : Inv s -> small s -> reads s rs ->
  fst (step_f s o p) = RFail -> reads (snd (step_f s o p)) rs /\
  limit_of (w_bs s) <= limit_of (w_bs (snd (step_f s o p))) /\
  limit_of (w_bs (snd (step_f s o p))) <= len (w_bs (snd (step_f s o p))).
Proof.
  intros HI Hs Hr E. pose proof (step_f_inv s o p rs HI Hs Hr) as P.
  destruct (step_f s o p) as [r s']. cbn [fst snd] in *. subst r.
  destruct P as (P1 & _ & P3 & _ & _ & rs' & P6 & P7).
  assert (rs' = rs) by (destruct o; exact P7). subst rs'.
  split; [exact P6|]. split; [exact P3|now apply limit_le_size].
Qed.

(* ---------------------------------------------------------------- 2. racing creation *)

Definition tail4_zero (bs : bytes) : Prop := forall i, 16380 <= i -> i < 16384 -> getb bs i = 0.

Definition fstate (meta h bs : bytes) : wstate := {| w_meta := meta; w_hdr := len h; w_bs := bs |}.

Definition FInv (meta h bs : bytes) : Prop := Inv (fstate meta h bs) /\ tail4_zero bs.

(* the shared file: not there / empty, header only, or complete *)
Definition file_ok (meta h bs : bytes) : Prop := bs = [] \/ bs = h \/ FInv meta h bs.

Definition writer_ok (meta h bs : bytes) (w : cwriter) : Prop :=
  match c_pc w with
  | CWriteTail => bs <> []
  | CStat2 | CMap => FInv meta h bs
  | _ => True
  end.

Definition count_op (o : op) : Prop := match o with OpNew _ | OpAdd _ _ => True | _ => False end.

Lemma count_step_state s o : count_op o ->
  w_meta (snd (step s o)) = w_meta s /\ w_hdr (snd (step s o)) = w_hdr s.
Proof.
  destruct o as [name|name d|e|m]; cbn [count_op]; intro H; try contradiction; cbn [step];
    destruct (new_counter _ _ _ _) as [r bs']; try destruct r; cbn; split; reflexivity.
Qed.

Lemma run_ops_inv4 ops : forall s, Inv s -> all_small s ops -> Forall count_op ops ->
  Inv (snd (run_ops s ops)) /\ tail4_same (w_bs s) (w_bs (snd (run_ops s ops))) /\
  w_meta (snd (run_ops s ops)) = w_meta s /\ w_hdr (snd (run_ops s ops)) = w_hdr s.
Proof.
  induction ops as [|o t IH]; intros s HI Hs Hc.
  - split; [exact HI|]. split; [intros i _ _; reflexivity|]. split; reflexivity.
  - rewrite run_ops_cons. cbn [snd]. destruct Hs as [Hs1 Hs2]. inversion Hc as [|? ? Hc1 Hc2]; subst.
    destruct (Inv_reads _ HI) as [rs Hr].
    pose proof (step_inv s o rs HI Hs1 Hr) as P. pose proof (count_step_state s o Hc1) as [Em Eh].
    destruct (step s o) as [r s1]. cbn [snd] in *.
    destruct P as (HI1 & _ & _ & _ & T4 & _).
    destruct (IH s1 HI1 Hs2 Hc2) as (I1 & I2 & I3 & I4).
    split; [exact I1|]. split; [|split; congruence].
    intros i Hi1 Hi2. rewrite (I2 i Hi1 Hi2). now apply T4.
Qed.

(* one newCounter / Add grows the file by at most two pages *)
Lemma step_growth s o : Inv s -> small s -> count_op o ->
  len (w_bs (snd (step s o))) <= len (w_bs s) + 32768.
Proof.
  intros HI Hs Hc. pose proof HI as [(m & kv & limit & tbl & Hread) Hh Ht].
  assert (Hnc : forall name, len (snd (new_counter (w_meta s) (w_hdr s) (w_bs s) name)) <= len (w_bs s) + 32768).
  { intro name. destruct (N.eqb_spec (len name) 0) as [E0|E0].
    - unfold new_counter. cbv zeta. destruct (N.eqb_spec (len name) 0); [cbn [snd]; lia|contradiction].
    - destruct (N.ltb_spec 4096 (len name)) as [El|El].
      + unfold new_counter. cbv zeta. change c_maxNameLen with 4096. destruct (N.eqb_spec (len name) 0); [contradiction|].
        destruct (N.ltb_spec 4096 (len name)); [cbn [snd]; lia|lia].
      + pose proof (new_counter_wf (w_meta s) (w_hdr s) (w_bs s) m kv limit tbl name Hread Hh Ht Hs ltac:(lia)) as P.
        destruct P as (off & limit' & tbl' & rcd & _ & _ & _ & _ & Hlen2 & _). exact Hlen2. }
  destruct o as [name|name d|e|mm]; cbn [count_op] in Hc; try contradiction; cbn [step].
  - specialize (Hnc name). destruct (new_counter _ _ _ name) as [r bs']. cbn [snd w_bs] in *. exact Hnc.
  - specialize (Hnc name). destruct (new_counter _ _ _ name) as [r bs'] eqn:En. cbn [snd] in Hnc.
    destruct r; cbn [snd w_bs]; try exact Hnc.
    (* Add keeps the length *)
    unfold add_at.
    destruct (N.leb_spec (off + 8) (len bs')) as [Hle|Hgt].
    + rewrite len_put by (rewrite len_le64; exact Hle). exact Hnc.
    + (* cannot happen (the cell lies in the file); the bound holds anyway *)
      destruct (N.eqb_spec (len name) 0) as [E0|E0].
      { unfold new_counter in En. cbv zeta in En. destruct (N.eqb_spec (len name) 0); [discriminate|contradiction]. }
      destruct (N.ltb_spec 4096 (len name)) as [El|El].
      { unfold new_counter in En. cbv zeta in En. change c_maxNameLen with 4096 in En.
        destruct (N.eqb_spec (len name) 0); [contradiction|].
        destruct (N.ltb_spec 4096 (len name)); [discriminate|lia]. }
      pose proof (new_counter_wf (w_meta s) (w_hdr s) (w_bs s) m kv limit tbl name Hread Hh Ht Hs ltac:(lia)) as P.
      rewrite En in P. cbn [fst snd] in P.
      destruct P as (off' & limit' & tbl' & rcd & Eo & R' & _ & _ & _ & _ & _ & _ & Hin & Eoff & _).
      injection Eo as <-.
      apply spec_read_inv in R'. destruct R' as (_ & _ & _ & _ & _ & H3 & _ & _ & Hft & _).
      pose proof (wf_record_in _ _ _ _ _ Hft Hin) as [Hri _].
      pose proof (rec_in_facts _ _ _ _ Hri H3) as (_ & _ & F3 & F4 & _).
      pose proof (rec_size_bounds _ F3). unfold r_end in F4. lia.
Qed.

(* writes of the creation sequence on a file that is already there *)
Lemma write_at_prefix_id bs h : has_prefix bs h = true -> write_at bs 0 h = bs.
Proof.
  intro Hp. pose proof Hp as Hp'. apply has_prefix_slice in Hp' as [Hl Hs].
  unfold write_at. rewrite N.add_0_l. destruct (N.ltb_spec (len bs) (len h)) as [|_]; [lia|].
  apply bytes_ext; [apply len_put; lia|]. intros i Hi. rewrite getb_put by lia.
  destruct ((0 <=? i) && (i <? 0 + len h)) eqn:E; [|reflexivity].
  apply andb_true_iff in E as [_ E]. apply N.ltb_lt in E.
  rewrite N.sub_0_r. rewrite <- Hs at 1. rewrite getb_slice by lia. now rewrite N.add_0_l.
Qed.

Lemma write_tail_id bs : 16384 <= len bs -> tail4_zero bs -> write_at bs 16380 [0; 0; 0; 0] = bs.
Proof.
  intros Hl Ht. unfold write_at. change (len [0; 0; 0; 0]) with 4.
  destruct (N.ltb_spec (len bs) (16380 + 4)) as [|_]; [lia|].
  apply bytes_ext; [apply len_put; change (len [0; 0; 0; 0]) with 4; lia|]. intros i Hi.
  rewrite getb_put by (change (len [0; 0; 0; 0]) with 4; lia). change (len [0; 0; 0; 0]) with 4.
  destruct ((16380 <=? i) && (i <? 16380 + 4)) eqn:E; [|reflexivity].
  apply andb_true_iff in E as [E1 E2]. apply N.leb_le in E1. apply N.ltb_lt in E2.
  rewrite getb_zero4. symmetry. apply Ht; lia.
Qed.

Section Race.
  Variables (meta h : bytes).
  Hypothesis Hmeta : meta_ok meta.
  Hypothesis Hh : mapped_header meta = Some h.

  Lemma h_len : 32 <= len h <= 544.
  Proof. now destruct (mapped_header_len _ _ Hh) as (_ & _ & H & _). Qed.

  Lemma FInv_len bs : FInv meta h bs -> 16384 <= len bs.
  Proof. intros [HI _]. now destruct (Inv_shape _ HI) as (_ & H & _). Qed.

  Lemma FInv_prefix bs : FInv meta h bs -> has_prefix bs h = true.
  Proof.
    intros [HI _]. destruct (Inv_shape _ HI) as (_ & _ & (h0 & Hm0 & Hp0 & _)).
    cbn [fstate w_meta] in Hm0. rewrite Hh in Hm0. injection Hm0 as <-. exact Hp0.
  Qed.

  Lemma fresh_FInv : FInv meta h (h ++ zeros (16384 - len h)).
  Proof.
    pose proof h_len as Hl. split.
    - apply (create_inv meta); [|exact Hmeta]. apply (create_new _ _ Hh).
    - intros i Hi1 Hi2. rewrite getb_app_r by lia. apply getb_zeros.
  Qed.

  Lemma file_ok_big bs : file_ok meta h bs -> 16384 <= len bs -> FInv meta h bs.
  Proof.
    pose proof h_len. intros [->|[->|H']] Hl; [rewrite len_nil in Hl; lia|lia|exact H'].
  Qed.

  (* what the shared file and the abstract map have to do with each other *)
  Definition absrel (bs : bytes) (m : amap) : Prop :=
    (len bs < 16384 -> forall k, m k = None) /\
    (FInv meta h bs -> exists rs, reads (fstate meta h bs) rs /\ repr rs m).

  Definition mstate (file : bytes) : wstate := {| w_meta := meta; w_hdr := u32 (len h); w_bs := file |}.

  Lemma mstate_fstate file : mstate file = fstate meta h file.
  Proof. pose proof h_len. unfold mstate, fstate, u32. rewrite N.mod_small by lia. reflexivity. Qed.

  (* the abstract map follows the operations of a writer that gets through *)
  Definition cabs_w (file : bytes) (w : cwriter) (m : amap) : amap :=
    match c_pc w with
    | CMap => if has_prefix file h then snd (run_abs (mstate file) m (c_ops w)) else m
    | _ => m
    end.

  Definition small_w (file : bytes) (w : cwriter) : Prop :=
    match c_pc w with CMap => all_small (mstate file) (c_ops w) | _ => True end.

  Lemma cstep_w_inv file w m :
    file_ok meta h file -> writer_ok meta h file w -> absrel file m ->
    Forall count_op (c_ops w) -> small_w file w ->
    let '(file', w') := cstep_w meta h file w in
    file_ok meta h file' /\ writer_ok meta h file' w' /\ absrel file' (cabs_w file w m) /\
    c_ops w' = c_ops w /\
    (file <> [] -> file' <> []) /\ (FInv meta h file -> FInv meta h file').
  Proof.
    intros Hf Hw Ha Hc Hs. pose proof h_len as Hl.
    unfold cstep_w, cabs_w, writer_ok, small_w in *. destruct (c_pc w) eqn:Epc.
    - (* OpenFile *) cbn. split; [exact Hf|]. split; [exact I|]. split; [exact Ha|]. split; [reflexivity|]. split; auto.
    - (* Stat *) change c_minFileLen with 16384.
      destruct (N.ltb_spec (len file) 16384) as [Hlt|Hge]; cbn.
      + split; [exact Hf|]. split; [exact I|]. split; [exact Ha|]. split; [reflexivity|]. split; auto.
      + split; [exact Hf|]. split; [now apply file_ok_big|]. split; [exact Ha|]. split; [reflexivity|]. split; auto.
    - (* WriteAt(hdr, 0) *)
      destruct Hf as [->|[->|HF]].
      + rewrite write_at_nil. cbn. split; [right; now left|]. split; [intro X; rewrite X, len_nil in Hl; lia|].
        split; [|split; [reflexivity|split; [intros _ X; rewrite X, len_nil in Hl; lia|]]].
        * destruct Ha as [A1 _]. split; [intros _; apply A1; rewrite len_nil; lia|].
          intro X. apply FInv_len in X. lia.
        * intro X. apply FInv_len in X. rewrite len_nil in X. lia.
      + rewrite write_at_prefix_id by (apply has_prefix_app; exists []; now rewrite app_nil_r).
        cbn. split; [right; now left|]. split; [intro X; rewrite X, len_nil in Hl; lia|].
        split; [exact Ha|]. split; [reflexivity|]. split; auto.
      + rewrite write_at_prefix_id by (now apply FInv_prefix). pose proof (FInv_len _ HF).
        cbn. split; [right; now right|]. split; [intro X; rewrite X, len_nil in *; lia|].
        split; [exact Ha|]. split; [reflexivity|]. split; auto.
    - (* WriteAt(zero, 16380) *) change (c_minFileLen - 4) with 16380.
      destruct Hf as [->|[->|HF]]; [contradiction| |].
      + replace 16380 with (16384 - 4) by reflexivity. rewrite write_zeros_tail by lia.
        pose proof fresh_FInv as HF. pose proof (FInv_len _ HF) as HFl.
        set (fresh := h ++ zeros (16384 - len h)) in *.
        cbv beta iota. cbn [set_pc c_pc c_ops]. split; [right; now right|]. split; [exact HF|].
        split; [|split; [reflexivity|split; [intros _ X; rewrite X, len_nil in HFl; lia|tauto]]].
        split; [intro X; lia|]. intros _. exists [].
        split.
        * destruct Hmeta as (_ & Hn & Hk). destruct (meta_kv meta) as [kv|] eqn:Ek; [|contradiction].
          exists meta, kv, 0, (map (fun _ => []) buckets). split; [unfold fresh; now apply fresh_file_read|].
          symmetry. apply concat_map_nil.
        * destruct Ha as [A1 _]. split; [reflexivity|]. intros k v. cbn [pairs map In].
          rewrite A1 by lia. split; [contradiction|discriminate].
      + rewrite write_tail_id by (try (now apply FInv_len); now destruct HF).
        cbn. split; [right; now right|]. split; [exact HF|]. split; [exact Ha|]. split; [reflexivity|]. split; auto.
    - (* second Stat *) cbn. split; [exact Hf|]. split; [exact Hw|]. split; [exact Ha|]. split; [reflexivity|]. split; auto.
    - (* mmap, prefix check, the writer's operations *)
      rewrite (FInv_prefix _ Hw). rewrite !mstate_fstate. rewrite mstate_fstate in Hs.
      destruct Hw as [HI T4].
      destruct (run_ops_inv4 (c_ops w) _ HI Hs Hc) as (I1 & I2 & I3 & I4).
      pose proof (run_abs_state (c_ops w) (fstate meta h file) m) as ES.
      destruct Ha as [_ A2]. destruct (A2 (conj HI T4)) as (rs & Hr & Hrep).
      pose proof (run_abs_repr (c_ops w) (fstate meta h file) m rs HI Hr Hrep Hs) as P.
      destruct (run_abs (fstate meta h file) m (c_ops w)) as [sa ma]. cbn [fst snd] in *.
      destruct (run_ops (fstate meta h file) (c_ops w)) as [res s']. cbn [snd] in *. subst sa.
      destruct P as (_ & rs' & Hr' & Hrep').
      assert (Es : s' = fstate meta h (w_bs s')).
      { destruct s' as [m' h' b']. cbn [w_meta w_hdr w_bs fstate] in *. now subst. }
      assert (HF' : FInv meta h (w_bs s')).
      { split; [rewrite <- Es; exact I1|]. intros i Hi1 Hi2. rewrite (I2 i Hi1 Hi2). now apply T4. }
      cbn [c_pc c_ops]. split; [right; now right|]. split; [exact I|].
      split; [|split; [reflexivity|split; [intros _ X; apply FInv_len in HF'; rewrite X, len_nil in HF'; lia|tauto]]].
      split; [intro X; apply FInv_len in HF'; lia|]. intros _. exists rs'. rewrite <- Es. split; assumption.
    - cbn. rewrite Epc. split; [exact Hf|]. split; [exact I|]. split; [exact Ha|]. split; [reflexivity|]. split; auto.
    - cbn. rewrite Epc. split; [exact Hf|]. split; [exact I|]. split; [exact Ha|]. split; [reflexivity|]. split; auto.
  Qed.

  (* the whole system *)
  Definition cabs (st : cstate) (m : amap) (i : nat) : amap :=
    match nth_error (c_ws st) i with Some w => cabs_w (c_file st) w m | None => m end.

  Fixpoint crun_abs (st : cstate) (m : amap) (sched : list nat) : cstate * amap :=
    match sched with
    | [] => (st, m)
    | i :: t => crun_abs (cstep meta h st i) (cabs st m i) t
    end.

  Lemma crun_abs_state sched : forall st m, fst (crun_abs st m sched) = crun meta h st sched.
  Proof. induction sched as [|i t IH]; intros st m; [reflexivity|]. cbn [crun_abs crun fold_left]. apply IH. Qed.

  Fixpoint csmall (st : cstate) (sched : list nat) : Prop :=
    match sched with
    | [] => True
    | i :: t => (match nth_error (c_ws st) i with Some w => small_w (c_file st) w | None => True end)
                /\ csmall (cstep meta h st i) t
    end.

  Definition cinv (st : cstate) (m : amap) : Prop :=
    file_ok meta h (c_file st) /\ Forall (writer_ok meta h (c_file st)) (c_ws st) /\
    absrel (c_file st) m /\ Forall (fun w => Forall count_op (c_ops w)) (c_ws st).

  Lemma writer_ok_stable f f' w : (f <> [] -> f' <> []) -> (FInv meta h f -> FInv meta h f') ->
    writer_ok meta h f w -> writer_ok meta h f' w.
  Proof. unfold writer_ok. intros H1 H2. destruct (c_pc w); auto. Qed.

  Lemma Forall_upd_nth {A} (P : A -> Prop) l : forall i x, Forall P l -> P x -> Forall P (upd_nth l i x).
  Proof.
    induction l as [|y t IH]; intros i x Hl Hx; [constructor|]. inversion Hl; subst.
    destruct i; cbn [upd_nth]; constructor; auto.
  Qed.

  Lemma cstep_inv st m i : cinv st m ->
    (match nth_error (c_ws st) i with Some w => small_w (c_file st) w | None => True end) ->
    cinv (cstep meta h st i) (cabs st m i).
  Proof.
    intros (Hf & Hw & Ha & Hc) Hs. unfold cstep, cabs. destruct (nth_error (c_ws st) i) as [w|] eqn:En.
    2:{ exact (conj Hf (conj Hw (conj Ha Hc))). }
    pose proof (nth_error_In _ _ En) as Hin.
    rewrite Forall_forall in Hw, Hc.
    pose proof (cstep_w_inv (c_file st) w m Hf (Hw w Hin) Ha (Hc w Hin) Hs) as P.
    destruct (cstep_w meta h (c_file st) w) as [f' w']. destruct P as (P1 & P2 & P3 & P4 & P5 & P6).
    cbn [c_file c_ws]. split; [exact P1|]. split; [|split; [exact P3|]].
    - apply Forall_upd_nth; [|exact P2]. apply Forall_forall. intros w0 H0.
      apply (writer_ok_stable (c_file st) f' w0 P5 P6). now apply Hw.
    - apply Forall_upd_nth; [apply Forall_forall; exact Hc|]. rewrite P4. now apply Hc.
  Qed.

  Lemma crun_inv sched : forall st m, cinv st m -> csmall st sched ->
    cinv (fst (crun_abs st m sched)) (snd (crun_abs st m sched)).
  Proof.
    induction sched as [|i t IH]; intros st m HI Hs; [exact HI|]. cbn [crun_abs]. destruct Hs as [Hs1 Hs2].
    apply IH; [now apply cstep_inv|exact Hs2].
  Qed.

  (* every schedule of every number of writers starting on a file that is not
     there yet: the file is never anything but absent, header-only or
     well-formed with its last four first-page bytes zero, and once complete an
     independent reader finds exactly the abstract map of the operations that
     were performed *)
  Theorem race_ok progs sched :
    Forall (Forall count_op) progs -> csmall (cinit [] progs) sched ->
    let st := crun meta h (cinit [] progs) sched in
    let m := snd (crun_abs (cinit [] progs) (fun _ => None) sched) in
    file_ok meta h (c_file st) /\
    (16384 <= len (c_file st) ->
       wf_file (c_file st) = true /\ limit_of (c_file st) <= len (c_file st) /\
       exists rs, spec_records (c_file st) = Some rs /\ NoDup (map r_name rs) /\
                  forall k v, In (k, v) (pairs rs) <-> m k = Some v).
  Proof.
    intros Hp Hs. cbv zeta.
    assert (H0 : cinv (cinit [] progs) (fun _ => None)).
    { unfold cinit, cinv. cbn [c_file c_ws]. split; [now left|]. split; [|split].
      - apply Forall_forall. intros w Hw. apply in_map_iff in Hw as (p & <- & _). exact I.
      - split; [reflexivity|]. intro X. apply FInv_len in X. rewrite len_nil in X. lia.
      - apply Forall_forall. intros w Hw. apply in_map_iff in Hw as (p & <- & Hin). cbn [c_ops].
        rewrite Forall_forall in Hp. now apply Hp. }
    pose proof (crun_inv sched _ _ H0 Hs) as (Hf & _ & Ha & _). rewrite crun_abs_state in *.
    split; [exact Hf|]. intro Hl. pose proof (file_ok_big _ Hf Hl) as HF.
    destruct Ha as [_ A2]. destruct (A2 HF) as (rs & Hr & Hrep). destruct HF as [HI _].
    split; [exact (Inv_wf _ HI)|]. split; [exact (limit_le_size _ HI)|].
    exists rs. split; [exact (reads_records _ _ Hr)|]. split; [apply pairwise_names; now destruct Hrep|now destruct Hrep].
  Qed.
End Race.
