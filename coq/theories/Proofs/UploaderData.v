(* Proofs/UploaderData: what a thread knows about count files is what the
   initial directory contained (count files are never created or modified by
   an uploader, only removed), and it only ever deletes files that its own
   start time makes expired.  Consequences: written local reports are
   permanent; active and unparseable count files are untouched. *)
From Coq Require Import List ZArith NArith Bool Lia Arith.
From Tele Require Import Lib.Bytes Lib.FS Model.Span Model.Uploader
  Proofs.FSFacts Proofs.UploaderBase Proofs.UploaderNames Proofs.UploaderFiles.
Import ListNotations.
Open Scope nat_scope.

(* ---------------------------------------------------------------- local reports are permanent *)
Lemma remlocal_name st i t a n t' :
  reach st -> nth_error (s_ths st) i = Some t -> decide_all (s_fs st) a t = (ERemLocal n, t') ->
  (is_count n = true /\ t_pc t = RDel /\ exists rest, t_dels t = n :: rest) \/ rname n.
Proof.
  intros Hr Hi Hd. pose proof (names_inv_reach _ Hr _ _ Hi) as N.
  destruct (eff_remlocal _ _ _ _ _ Hd) as [(Hp & rest & Hdel) | (Hp & -> & _)].
  - left. pose proof (ni_dels _ N) as D. rewrite Hdel in D. inversion D; subst. eauto.
  - right. apply (ni_file _ N). destruct Hp as [-> | [-> | ->]]; reflexivity.
Qed.

Lemma createlocal_name f a t n t' :
  decide_all f a t = (ECreateLocal n, t') -> is_count n = false.
Proof.
  intros H. destruct (eff_createlocal _ _ _ _ _ H) as (_ & [(_ & -> & _) | (_ & -> & _)]).
  - apply is_count_ready.
  - apply is_count_local.
Qed.

Lemma writing_name t fd n : writing t = Some (fd, n) -> is_count n = false.
Proof.
  unfold writing. destruct (t_pc t); try discriminate; intros H; injection H as _ <-.
  - apply is_count_ready.
  - apply is_count_local.
Qed.

(* a local.* file is never removed; once it has a body, the body stays *)
Theorem local_report_stable st ia n :
  reach st -> is_localrep n = true -> is_count n = false ->
  forall id c, d_find (f_local (s_fs st)) n = Some (id, c) ->
  exists c', d_find (f_local (s_fs (step st ia))) n = Some (id, c') /\ (c <> CRep None -> c' = c).
Proof.
  intros Hr Hl Hc id c Hf. destruct ia as [i a].
  destruct (find_step st i a n Hr) as [E | [(t & t' & Hi & Hd & _) | [(t & t' & Hi & Hd & Hn & _) | (t & t' & fd & c' & Hi & Hd & Hw & Hf0 & Hf1)]]].
  - exists c. rewrite E. auto.
  - exfalso. destruct (remlocal_name _ _ _ _ _ _ Hr Hi Hd) as [(Hc' & _) | (_ & Hl' & _)]; congruence.
  - congruence.
  - rewrite Hf0 in Hf. injection Hf as <- <-. exists c'. split; auto. intros H. contradiction.
Qed.

(* ---------------------------------------------------------------- count files: never created or written *)
Definition count_stable (L0 : dir content) (st : state) : Prop :=
  forall n, is_count n = true -> forall v, d_find (f_local (s_fs st)) n = Some v -> d_find L0 n = Some v.

Lemma count_stable_step L0 st ia : reach st -> count_stable L0 st -> count_stable L0 (step st ia).
Proof.
  intros Hr H n Hn v Hv. destruct ia as [i a].
  destruct (find_step st i a n Hr) as [E | [(t & t' & Hi & Hd & E) | [(t & t' & Hi & Hd & _) | (t & t' & fd & c' & Hi & Hd & Hw & _)]]].
  - rewrite E in Hv. auto.
  - rewrite E in Hv. discriminate.
  - apply createlocal_name in Hd. congruence.
  - apply writing_name in Hw. congruence.
Qed.

(* ---------------------------------------------------------------- the thread's data *)
Section Data.
Variable L0 : dir content.

Definition src (n : bytes) (cf : cfile) : Prop :=
  exists id c, d_find L0 n = Some (id, c) /\ parse c = Some cf.

Definition entry_ok (c : ucfg) (w : bytes) (e : bytes * cfile) : Prop :=
  src (fst e) (snd e) /\ before_start (cf_end (snd e)) (u_start c) = true /\
  uploader_week (cf_end (snd e)) = w.

Record data_inv (t : thread) : Prop := mkDI {
  di_count : Forall (fun e => src (fst e) (snd e)) (t_count t);
  di_weeks : Forall (fun g => Forall (entry_ok (t_cfg t) (fst g)) (snd g)) (t_weeks t);
  di_files : in_rep (t_pc t) = true -> Forall (entry_ok (t_cfg t) (t_week t)) (t_files t);
  di_dels : t_pc t = RDel -> Forall (fun n => exists cf, entry_ok (t_cfg t) (t_week t) (n, cf)) (t_dels t)
}.

Lemma data_inv_new k c : data_inv (new_thread k c).
Proof. constructor; simpl; try constructor; discriminate. Qed.

Definition fs_rel (f : FS) : Prop :=
  forall n, is_count n = true -> forall v, d_find (f_local f) n = Some v -> d_find L0 n = Some v.

Lemma group_add_data c g w e :
  Forall (fun g => Forall (entry_ok c (fst g)) (snd g)) g -> entry_ok c w e ->
  Forall (fun g => Forall (entry_ok c (fst g)) (snd g)) (group_add g w e).
Proof.
  intros H He. induction H as [|[w' l] g H1 H IH]; simpl.
  - constructor; [simpl; constructor; auto|constructor].
  - destruct (beq w' w) eqn:E; constructor; simpl in *; auto.
    apply beq_eq in E. subst w'. apply Forall_app. split; auto.
Qed.

Lemma group_files_data c cs :
  Forall (fun e => src (fst e) (snd e)) cs ->
  Forall (fun g => Forall (entry_ok c (fst g)) (snd g)) (group_files (u_start c) cs).
Proof.
  unfold group_files. intros H.
  assert (G : forall acc, Forall (fun g => Forall (entry_ok c (fst g)) (snd g)) acc ->
            Forall (fun g => Forall (entry_ok c (fst g)) (snd g))
              (fold_left (fun g e => if before_start (cf_end (snd e)) (u_start c)
                                     then group_add g (uploader_week (cf_end (snd e))) e else g) cs acc)).
  { induction H as [|e cs He H IH]; intros acc Ha; simpl; auto.
    apply IH. destruct (before_start (cf_end (snd e)) (u_start c)) eqn:Eb; auto.
    apply group_add_data; auto. repeat split; auto. }
  apply G. constructor.
Qed.

Lemma take_week_data c w g files rest :
  Forall (fun g => Forall (entry_ok c (fst g)) (snd g)) g -> take_week w g = Some (files, rest) ->
  Forall (entry_ok c w) files /\ Forall (fun g => Forall (entry_ok c (fst g)) (snd g)) rest.
Proof.
  intros H. revert files rest. induction H as [|[w' l] g H1 H IH]; simpl; intros files rest E; [discriminate|].
  destruct (beq w' w) eqn:Ew.
  - injection E as <- <-. apply beq_eq in Ew. subst. auto.
  - destruct (take_week w g) as [[l0 r]|]; [|discriminate]. injection E as <- <-.
    destruct (IH _ _ eq_refl) as (A & B). auto.
Qed.

Lemma dels_of_files c w files :
  Forall (entry_ok c w) files -> Forall (fun n => exists cf, entry_ok c w (n, cf)) (map fst files).
Proof. induction 1 as [|[n cf] l H1 H IH]; simpl; constructor; eauto. Qed.

Lemma cfg_step f a t e t' : decide_all f a t = (e, t') -> t_cfg t' = t_cfg t.
Proof. intros H. destruct a; dinv H; adv; reflexivity. Qed.

Lemma data_inv_step f a t e t' :
  decide_all f a t = (e, t') -> fs_rel f -> names_inv t -> data_inv t -> data_inv t'.
Proof.
  intros H HF HN [D1 D2 D3 D4].
  destruct a; dinv H; adv; pcrw; simpl in *.
  all: try (destruct (take_week_data _ _ _ _ _ D2 ltac:(eassumption)) as (Tf & Tr)).
  all: constructor; simpl; pcrw.
  all: try (intros Hx; simpl in Hx; dmatch Hx; pcdiscr).
  all: repeat match goal with E : ?x = _ |- context [?x] => rewrite E end.
  all: auto.
  all: try (constructor; fail).
  all: try (apply group_files_data; auto; fail).
  all: try (apply dels_of_files; auto; fail).
  all: try (inversion D4; subst; auto; fail).
  all: try (match goal with Hx : _ = RDel |- _ => dmatch Hx; pcdiscr end).
  - apply Forall_app. split; auto. constructor; auto. simpl.
    pose proof (ni_ents _ HN) as NE. rewrite Heql in NE. inversion NE; subst.
    unfold d_get in Heqo0. destruct (d_find (f_local f) b) as [[id c']|] eqn:Ef; [|discriminate].
    injection Heqo0 as ->. exists id, c. split; auto.
  - specialize (D4 eq_refl). inversion D4; subst. assumption.
Qed.

End Data.

(* along any run from an initial directory *)
Lemma data_reach f cfgs st :
  fs_wf f -> reach_from (init_state f cfgs) st ->
  reach st /\ count_stable (f_local f) st /\
  forall i t, nth_error (s_ths st) i = Some t -> data_inv (f_local f) t.
Proof.
  intros Hwf. induction 1 as [|st ia H IH|st c H IH].
  - split; [apply reach_init; exact Hwf|]. split.
    + intros n _ v Hv. exact Hv.
    + intros i t Hi. destruct (init_threads _ _ _ _ Hi) as (k & c & ->). apply data_inv_new.
  - destruct IH as (Hr & Hc & Hd). split; [apply reach_step; exact Hr|]. split.
    + apply count_stable_step; auto.
    + intros j tj Hj. destruct ia as [i a].
      destruct (step_cases st i a) as [E | (t & e & t' & Hi & Hk & Hdec & E)]; rewrite E in Hj.
      * eauto.
      * simpl in Hj. rewrite nth_error_upd in Hj. destruct (Nat.eqb i j) eqn:Eij; [|eauto].
        rewrite Hi in Hj. injection Hj as <-.
        eapply data_inv_step; eauto. eapply names_inv_reach; eauto.
  - destruct IH as (Hr & Hc & Hd). split; [apply reach_spawn; exact Hr|]. split.
    + exact Hc.
    + intros i t Hi. destruct (spawn_threads _ _ _ _ Hi) as [H1 | [_ ->]]; [eauto|apply data_inv_new].
Qed.

(* threads stay, with their configuration *)
Lemma thread_persists_step st ia i t :
  nth_error (s_ths st) i = Some t ->
  exists t', nth_error (s_ths (step st ia)) i = Some t' /\ t_cfg t' = t_cfg t.
Proof.
  intros Hi. destruct ia as [j a].
  destruct (step_cases st j a) as [-> | (tj & e & t' & Hj & Hk & Hd & ->)]; [eauto|].
  simpl. rewrite nth_error_upd. destruct (Nat.eqb j i) eqn:E; [|eauto].
  apply Nat.eqb_eq in E. subst j. rewrite Hj. rewrite Hi in Hj. injection Hj as <-.
  exists t'. split; auto. eapply cfg_step; eauto.
Qed.

(* ---------------------------------------------------------------- untouched *)
Theorem untouched f cfgs st n v :
  fs_wf f -> reach_from (init_state f cfgs) st ->
  is_count n = true -> d_find (f_local f) n = Some v ->
  (forall cf, parse (snd v) = Some cf ->
     forall i t, nth_error (s_ths st) i = Some t -> before_start (cf_end cf) (u_start (t_cfg t)) = false) ->
  d_find (f_local (s_fs st)) n = Some v.
Proof.
  intros Hwf Hrf Hn Hv. induction Hrf as [|st ia H IH|st c H IH]; intros Hp.
  - exact Hv.
  - destruct (data_reach _ _ _ Hwf H) as (Hr & Hc & Hd).
    assert (IH' : d_find (f_local (s_fs st)) n = Some v).
    { apply IH. intros cf Hcf i t Hi.
      destruct (thread_persists_step st ia i t Hi) as (t' & Hi' & <-). eapply Hp; eauto. }
    destruct ia as [i a].
    destruct (find_step st i a n Hr) as [E | [(t & t' & Hi & Hdec & E) | [(t & t' & Hi & Hdec & _) | (t & t' & fd & c' & Hi & Hdec & Hw & _)]]].
    + rewrite E. exact IH'.
    + exfalso. destruct (remlocal_name _ _ _ _ _ _ Hr Hi Hdec) as [(_ & Hpc & rest & Hdel) | (Hc' & _)]; [|congruence].
      pose proof (di_dels _ _ (Hd _ _ Hi) Hpc) as D. rewrite Hdel in D. inversion D; subst.
      destruct H2 as (cf & (id & c0 & Hs & Hparse) & Hb & _). simpl in *.
      rewrite Hv in Hs. injection Hs as ->. simpl in Hp.
      destruct (thread_persists_step st (i, a) i t Hi) as (t1 & Hi1 & Hcfg).
      specialize (Hp cf Hparse i t1 Hi1). rewrite Hcfg in Hp. congruence.
    + apply createlocal_name in Hdec. congruence.
    + apply writing_name in Hw. congruence.
  - apply IH. intros cf Hcf i t Hi. apply (Hp cf Hcf i t). apply spawn_old. exact Hi.
Qed.

