(* Proofs/FileConcWitness: computed counterexamples (model level) for the
   clauses of C04 that the code does not satisfy. *)
From Coq Require Import List NArith ZArith Bool Lia.
From Tele Require Import Gen.Consts Model.FileConc Proofs.FileConcBase Proofs.FileConcInv.
Import ListNotations.
Open Scope N_scope.

(* a concrete instance: 512 buckets by residue, names below 100 are 5 bytes
   long, the others 4080 bytes; header of 96 bytes *)
Definition w_bucket (nm : name) : N := nm mod 512.
Definition w_nlen (nm : name) : N := if nm <? 100 then 5 else 4080.
Definition w_H : N := 96.

Lemma w_nlen_pos : forall nm, 1 <= w_nlen nm.
Proof. intro nm. unfold w_nlen. destruct (nm <? 100); lia. Qed.

(* P0 ("A"): three long names, then a long name of bucket 1 (lands on page 2);
   P1 ("B"): a short name of bucket 1, on a one-page mapping *)
Definition w_progs : list (list op) :=
  [[OpNew 101; OpNew 102; OpNew 103; OpNew 513]; [OpNew 1]].
Definition w_st0 : state :=
  (empty_file, map (spawn w_nlen c_minFileLen) w_progs).

(* B: load head, load limit, CAS limit, copy name, store length, store next
   (now parked before its head CAS); A runs to completion (extends the file,
   links its 4th record, of B's bucket, at offset 16384); B: head CAS fails,
   reloads the head, the duplicate walk meets offset 16384 with a 16384-byte
   mapping *)
Definition w_sched : list nat :=
  repeat 1%nat 6 ++ repeat 0%nat 80 ++ repeat 1%nat 2.

Lemma w_init_ok : init_ok w_bucket w_nlen w_H w_st0.
Proof.
  split; [apply wf_empty|]. split.
  - intros i t E. unfold w_st0, w_progs in E. cbn [snd map] in E.
    destruct i as [|[|i]]; cbn in E; inversion E; subst.
    + exists c_minFileLen, [OpNew 101; OpNew 102; OpNew 103; OpNew 513]. split; [reflexivity|]. cbn. unfold map_ok. cbn. unfold_consts. lia.
    + exists c_minFileLen, [OpNew 1]. split; [reflexivity|]. cbn. unfold map_ok. cbn. unfold_consts. lia.
    + destruct i; discriminate.
  - intros r [].
Qed.

Definition results_of (st : state) (i : nat) : list result :=
  match nth_error (snd st) i with Some t => t_res t | None => [] end.
Definition pc_of (st : state) (i : nat) : option pc :=
  match nth_error (snd st) i with Some t => Some (t_pc t) | None => None end.

Lemma w_run :
  let st := run w_bucket w_nlen w_H w_sched w_st0 in
  results_of st 0%nat = [RCell 2208; RCell 6304; RCell 10400; RCell 16384] /\
  results_of st 1%nat = [RFail FBeyond] /\
  pc_of st 0%nat = Some Done /\ pc_of st 1%nat = Some Done /\
  f_size (fst st) = 32768 /\ f_chain (fst st) 1 = [16384].
Proof. vm_compute. repeat split; reflexivity. Qed.

(* ---- the empty counter name (fixed by 342cd17): rejected with its own
        error before anything is read or written ---- *)
Lemma empty_name_rejected : forall (nlen : name -> N) nm ops t, nlen nm = 0 ->
  dispatch nlen (OpNew nm :: ops) t = dispatch nlen ops (push_res (RFail FEmpty) (set_cell 0 t)).
Proof. intros nlen nm ops t E. cbn [dispatch]. rewrite E. reflexivity. Qed.

Definition e_nlen (nm : name) : N := if nm =? 7 then 0 else 5.
Definition e_st0 : state :=
  (empty_file, map (spawn e_nlen c_minFileLen) [[OpNew 7]; [OpNew 519]]).
Definition e_sched : list nat := repeat 0%nat 12 ++ repeat 1%nat 12.

(* the call with the empty name fails at once (the process is Done without a
   step), nothing of bucket 7 is damaged: the other process gets its record *)
Lemma e_run :
  results_of e_st0 0%nat = [RFail FEmpty] /\ pc_of e_st0 0%nat = Some Done /\
  let st := run w_bucket e_nlen w_H e_sched e_st0 in
  results_of st 0%nat = [RFail FEmpty] /\ results_of st 1%nat = [RCell 2176] /\
  f_chain (fst st) 7 = [2176] /\
  option_map r_name (find_rec 2176 (f_recs (fst st))) = Some 519 /\ e_nlen 7 = 0.
Proof. vm_compute. repeat split; reflexivity. Qed.

(* ---- the other route to a survivor's errCorrupt: ten remaps do not catch up ----
   P0 keeps creating long records of bucket 1 (a new page every three or four
   of them); P1, on a one-page mapping, looks up a name of bucket 1.  Each
   time P1 has re-mapped, P0 links a record beyond P1's new mapping before P1
   reads the bucket head again.  After the tenth remap newCounter gives up. *)
Definition t_names : list name := map (fun k => 513 + 512 * N.of_nat k) (seq 0 48).
Definition t_st0 : state :=
  (empty_file, [spawn w_nlen c_minFileLen (map OpNew t_names); spawn w_nlen c_minFileLen [OpNew 1]]).

Definition map_of (st : state) (i : nat) : N :=
  match nth_error (snd st) i with Some t => t_map t | None => 0 end.

(* P0 steps until the head of bucket 1 lies beyond P1's mapping *)
Fixpoint t_p0 (fuel : nat) (st : state) (acc : list nat) : state * list nat :=
  match fuel with
  | O => (st, acc)
  | S k =>
      if map_of st 1%nat <=? head_of (fst st) 1 then (st, acc)
      else t_p0 k (step w_bucket w_nlen w_H st 0%nat) (0%nat :: acc)
  end.
(* then P1: load head (fails), load limit, remap *)
Fixpoint t_rounds (n : nat) (st : state) (acc : list nat) : state * list nat :=
  match n with
  | O => (st, acc)
  | S n' =>
      let '(st1, acc1) := t_p0 3000 st acc in
      let st2 := run w_bucket w_nlen w_H [1%nat; 1%nat; 1%nat] st1 in
      t_rounds n' st2 (1%nat :: 1%nat :: 1%nat :: acc1)
  end.
Definition t_sched : list nat := Eval vm_compute in rev (snd (t_rounds 11 t_st0 [])).

Lemma t_init_ok : init_ok w_bucket w_nlen w_H t_st0.
Proof.
  split; [apply wf_empty|]. split.
  - intros i t E. unfold t_st0 in E. cbn [snd] in E.
    destruct i as [|[|i]]; cbn [nth_error] in E; inversion E; subst.
    + exists c_minFileLen, (map OpNew t_names). split; [reflexivity|]. unfold map_ok. cbn. unfold_consts. lia.
    + exists c_minFileLen, [OpNew 1]. split; [reflexivity|]. unfold map_ok. cbn. unfold_consts. lia.
    + destruct i; discriminate.
  - intros r [].
Qed.

Lemma t_run :
  let st := run w_bucket w_nlen w_H t_sched t_st0 in
  results_of st 1%nat = [RFail FTries] /\ pc_of st 1%nat = Some Done /\
  forallb (fun r => match r with RCell _ => true | RFail _ => false end) (results_of st 0%nat) = true.
Proof. vm_compute. repeat split; reflexivity. Qed.
