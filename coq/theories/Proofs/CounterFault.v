(* Which accesses can go through a closed (unmapped) mapping?  Only those of a
   call that entered its reader / flush section BEFORE the mapping was closed
   (the known finding use-after-unmap): no call ever ENTERS a section through
   a closed mapping.  Invariant over all schedules, layered on CounterInv. *)
From Coq Require Import List ZArith NArith Bool Lia.
From Tele Require Import Gen.Consts Model.CounterConc Proofs.CounterWord Proofs.CounterInv.
Import ListNotations.
Open Scope Z_scope.

Definition past_inv (t : thread) : bool :=
  match t_pc t with
  | RfLoad | RfCas | CClose | Done | Crash | LCas | LLoad | LLook1 | LLook2 | LCellLoad | LCellCas
  | GIvLoad | GIvCas | GRfLoad | GClose => true
  | _ => false
  end.

(* the same for the mapping a thread's own lookup replaced (t_prev2): it is past
   its inline invalidate from GRfLoad on *)
Definition past_g (t : thread) : bool :=
  match t_pc t with GIvLoad | GIvCas => false | _ => true end.

(* facts about a thread that has stored a mapping (t_prev = the mapping it replaced) *)
Definition chg_ok (s : shared) (LO : Z) (t : thread) : Prop :=
  match t_prev t with
  | None => True
  | Some g =>
      (g < length (s_maps s))%nat /\ s_cur s <> Some g /\
      (past_inv t = true -> s_ptr s = Some g -> w_have (s_word s) = false \/ 1 <= LO)
  end.

Definition chg_ok2 (s : shared) (LO : Z) (t : thread) : Prop :=
  match t_prev2 t with
  | None => True
  | Some g =>
      (g < length (s_maps s))%nat /\ s_cur s <> Some g /\
      (past_g t = true -> s_ptr s = Some g -> w_have (s_word s) = false \/ 1 <= LO)
  end.

Definition witness (g : nat) (t : thread) : Prop :=
  (t_prev t = Some g /\ past_inv t = true) \/ (t_prev2 t = Some g /\ past_g t = true).

Definition closed_ok (s : shared) (ts : list thread) : Prop :=
  forall g, In g (s_closed s) -> exists j t, nth_error ts j = Some t /\ witness g t.

Definition FInv (st : state) : Prop :=
  let '(s, ts) := st in
  Forall (chg_ok s (sumf look ts)) ts /\ Forall (chg_ok2 s (sumf look ts)) ts /\ closed_ok s ts.

(* how one step may change what chg_ok mentions *)
Definition ok_change (s : shared) (LO : Z) (s' : shared) (LO' : Z) : Prop :=
  (length (s_maps s) <= length (s_maps s'))%nat /\
  (s_cur s' = s_cur s \/ s_cur s' = None \/ s_cur s' = Some (length (s_maps s))) /\
  ((s_ptr s' = s_ptr s /\ LO <= LO' /\ (w_have (s_word s') = true -> w_have (s_word s) = true \/ 1 <= LO'))
   \/ s_ptr s' = None
   \/ (s_ptr s' = s_cur s /\ s_cur s' = s_cur s)
   \/ w_have (s_word s') = false).

Lemma chg_ok_preserved s LO s' LO' t t' :
  t_prev t' = t_prev t -> (past_inv t' = true -> past_inv t = true) ->
  ok_change s LO s' LO' -> chg_ok s LO t -> chg_ok s' LO' t'.
Proof.
  intros Epv Epi (Hm & Hc & Hp) H. unfold chg_ok in *. rewrite Epv. destruct (t_prev t) as [g|]; [|exact I].
  destruct H as (Hg & Hcur & Hq). split; [lia|]. split.
  - destruct Hc as [-> | [-> | ->]]; [exact Hcur | discriminate | intro E; injection E as E; lia].
  - intros Hpi Hptr. apply Epi in Hpi. destruct Hp as [(Ep & Hlo & Hh) | [Ep | [(Ep & Ec) | Hf0]]].
    + rewrite Ep in Hptr. destruct (Hq Hpi Hptr) as [Hf | Hl]; [|right; lia].
      destruct (w_have (s_word s')) eqn:E; [|left; reflexivity].
      destruct (Hh eq_refl) as [X | X]; [congruence | right; exact X].
    + congruence.
    + rewrite Ep in Hptr. contradiction.
    + left. exact Hf0.
Qed.

Lemma chg_ok2_preserved s LO s' LO' t t' :
  t_prev2 t' = t_prev2 t -> (past_g t' = true -> past_g t = true) ->
  ok_change s LO s' LO' -> chg_ok2 s LO t -> chg_ok2 s' LO' t'.
Proof.
  intros Epv Epi (Hm & Hc & Hp) H. unfold chg_ok2 in *. rewrite Epv. destruct (t_prev2 t) as [g|]; [|exact I].
  destruct H as (Hg & Hcur & Hq). split; [lia|]. split.
  - destruct Hc as [-> | [-> | ->]]; [exact Hcur | discriminate | intro E; injection E as E; lia].
  - intros Hpi Hptr. apply Epi in Hpi. destruct Hp as [(Ep & Hlo & Hh) | [Ep | [(Ep & Ec) | Hf0]]].
    + rewrite Ep in Hptr. destruct (Hq Hpi Hptr) as [Hf | Hl]; [|right; lia].
      destruct (w_have (s_word s')) eqn:E; [|left; reflexivity].
      destruct (Hh eq_refl) as [X | X]; [congruence | right; exact X].
    + congruence.
    + rewrite Ep in Hptr. contradiction.
    + left. exact Hf0.
Qed.

Lemma same_change s LO : ok_change s LO s LO.
Proof. split; [lia|]. split; [left; reflexivity|]. left. split; [reflexivity|]. split; [lia|]. intros H; left; exact H. Qed.

(* have is kept by the word operations that do not touch it *)
Lemma have_add_extra w n : 0 <= w < W64 -> 0 <= n -> w_have (w_add_extra w n) = w_have w.
Proof.
  intros Hw Hn. pose proof (fields_of _ Hw) as F. destruct (f_add_extra _ _ _ _ n F Hn) as [F' _].
  apply (fields_have _ _ _ _ F').
Qed.
Lemma have_set_locked w : 0 <= w < W64 -> w_have (w_set_locked w) = w_have w.
Proof. intros Hw. pose proof (fields_of _ Hw) as F. apply (fields_have _ _ _ _ (f_set_locked _ _ _ _ F)). Qed.
Lemma have_clear_locked w : 0 <= w < W64 -> w_have (w_clear_locked w) = w_have w.
Proof. intros Hw. pose proof (fields_of _ Hw) as F. apply (fields_have _ _ _ _ (f_clear_locked _ _ _ _ F)). Qed.
Lemma have_clear_extra w : 0 <= w < W64 -> w_have (w_clear_extra w) = w_have w.
Proof. intros Hw. pose proof (fields_of _ Hw) as F. apply (fields_have _ _ _ _ (f_clear_extra _ _ _ _ F)). Qed.
Lemma have_clear_have w : 0 <= w < W64 -> w_have (w_clear_have w) = false.
Proof. intros Hw. pose proof (fields_of _ Hw) as F. apply (fields_have _ _ _ _ (f_clear_have _ _ _ _ F)). Qed.
Lemma have_inc w : 0 <= w < W64 -> w_locked w = false -> w_have (w_inc_reader w) = w_have w.
Proof.
  intros Hw Hl. pose proof (fields_of _ Hw) as F. pose proof F as (_ & Hr & _).
  rewrite (fields_locked _ _ _ _ F) in Hl. apply Z.eqb_neq in Hl.
  apply (fields_have _ _ _ _ (f_inc _ _ _ _ F ltac:(rewrite LOCKED_v, HAVE_v in *; lia))).
Qed.
Lemma have_dec w : 0 <= w < W64 -> 1 <= w_readers w -> w_have (w_dec_reader w) = w_have w.
Proof. intros Hw Hr. pose proof (fields_of _ Hw) as F. apply (fields_have _ _ _ _ (f_dec _ _ _ _ F Hr)). Qed.

Ltac mf Hpc :=
  unfold look, past_inv, past_g in *;
  cbn [t_pc t_prev t_prev2 t_amt t_st t_kind t_old t_tgt t_after with_pc with_st with_st2 with_old with_amt to_close after_release goto_nops] in *;
  try rewrite Hpc in *; cbn iota beta in *.

Definition step_facts (s : shared) (u : thread) (s' : shared) (u' : thread) (rest : Z) : Prop :=
  ok_change s (look u + rest) s' (look u' + rest) /\
  (t_prev u <> None -> t_prev u' = t_prev u /\ (past_inv u = true -> past_inv u' = true) /\
     (past_inv u = false -> past_inv u' = true -> w_have (s_word s') = false)) /\
  (t_prev u = None -> t_prev u' = None \/ (t_prev u' = s_cur s /\ past_inv u' = false /\ (forall g, s_cur s = Some g -> s_cur s' <> Some g))) /\
  (s_closed s' = s_closed s \/ exists g, witness g u /\ s_closed s' = g :: s_closed s).

(* the same bookkeeping for the mapping replaced by the thread's own lookup *)
Definition step_facts2 (s : shared) (u : thread) (s' : shared) (u' : thread) : Prop :=
  (t_prev2 u <> None -> t_prev2 u' = t_prev2 u /\ (past_g u = true -> past_g u' = true) /\
     (past_g u = false -> past_g u' = true -> w_have (s_word s') = false)) /\
  (t_prev2 u = None -> t_prev2 u' = None \/ (t_prev2 u' = s_cur s /\ past_g u' = false /\ (forall g, s_cur s = Some g -> s_cur s' <> Some g))).

Lemma facts_same s u u' rest :
  look u' = look u -> t_prev u' = t_prev u -> (t_prev u = None \/ past_inv u' = past_inv u) -> step_facts s u s u' rest.
Proof.
  intros El Ep Ei. unfold step_facts. rewrite El.
  split; [apply same_change|]. split.
  - intros Hn. destruct Ei as [Ei|Ei]; [contradiction|]. rewrite Ei. split; [exact Ep|]. split; [auto|intros A B; congruence].
  - split; [intros Hn; left; congruence|]. left; reflexivity.
Qed.

(* a step that only rewrites the state word (keeping have or clearing it), cells, faults *)
Lemma facts_word s u s' u' rest :
  look u' = look u -> t_prev u' = t_prev u -> (t_prev u = None \/ past_inv u' = past_inv u) ->
  s_ptr s' = s_ptr s -> s_cur s' = s_cur s -> s_maps s' = s_maps s -> s_closed s' = s_closed s ->
  (w_have (s_word s') = true -> w_have (s_word s) = true) ->
  step_facts s u s' u' rest.
Proof.
  intros El Ep Ei E1 E2 E3 E4 Hh. unfold step_facts, ok_change. rewrite El, E1, E2, E3, E4.
  split; [split; [lia|]; split; [left; reflexivity|]; left; split; [reflexivity|]; split; [lia|]; intros H; left; auto|].
  split.
  - intros Hn. destruct Ei as [Ei|Ei]; [contradiction|]. rewrite Ei. split; [exact Ep|]. split; [auto|intros A B; congruence].
  - split; [intros Hn; left; congruence|]. left; reflexivity.
Qed.

Lemma facts_gen s u s' u' rest :
  ok_change s (look u + rest) s' (look u' + rest) -> t_prev u' = t_prev u ->
  (past_inv u = true -> past_inv u' = true) ->
  (past_inv u = false -> past_inv u' = true -> t_prev u <> None -> w_have (s_word s') = false) ->
  s_closed s' = s_closed s -> step_facts s u s' u' rest.
Proof.
  intros OC Ep P1 P2 Ec. unfold step_facts. split; [exact OC|]. split.
  - intros Hn. split; [exact Ep|]. split; [exact P1|]. intros A B. apply P2; assumption.
  - split; [intros Hn; left; congruence|]. left; exact Ec.
Qed.

Ltac fw Hpc := apply facts_word; mf Hpc; try reflexivity; try (left; assumption); try (right; reflexivity); psimp.
Ltac fs Hpc := apply facts_same; mf Hpc; try reflexivity; try (left; assumption); try (right; reflexivity).

Lemma step_change np s u s' u' rest :
  step_thread np s u = (s', u') -> 0 <= s_word s < W64 -> 0 <= rest -> 0 <= t_amt u ->
  (t_pc u = RCas -> 1 <= w_readers (s_word s)) ->
  (forall g, s_cur s = Some g -> (g < length (s_maps s))%nat) ->
  (match t_pc u with CStore | CIdle | CPre | AIdle | ALoad | ACas | AXCas | AXLoad | ACellLoad | ACellCas | RCas | RLoad => t_prev u = None | _ => True end) ->
  (t_pc u = GRfLoad -> 0 < w_readers (s_word s)) ->
  (t_pc u = GClose -> w_have (s_word s) = false) ->
  step_facts s u s' u' rest.
Proof.
  intros H Hw Hrest Hamt Hrd Hcur Hpn Hgr Hgc. unfold step_thread in H.
  destruct (t_pc u) eqn:Hpc.
  - (* AIdle *) injection H as <- <-. fs Hpc.
  - (* ALoad *) injection H as <- <-. fs Hpc.
  - (* ACas *)
    destruct (Z.eqb_spec (s_word s) (t_st u)) as [Ew|Ne].
    2:{ repeat match goal with H : (if ?c then _ else _) = _ |- _ => destruct c end;
        injection H as <- <-; fs Hpc. }
    rewrite <- Ew in H.
    destruct (negb (w_locked (s_word s)) && w_have (s_word s)) eqn:C1.
    + apply andb_true_iff in C1 as [Cl Ch]. apply negb_true_iff in Cl.
      destruct (s_ptr s); injection H as <- <-; (fw Hpc; rewrite (have_inc _ Hw Cl); auto).
    + assert (Rg : 0 <= w_add_extra (s_word s) (t_amt u) < W64).
      { pose proof (fields_of _ Hw) as F. destruct (f_add_extra _ _ _ _ (t_amt u) F Hamt) as [F' _].
        apply (fields_range _ _ _ _ F'). }
      destruct (w_locked (s_word s)); [|destruct (0 <? w_readers (s_word s))]; injection H as <- <-;
        (fw Hpc; rewrite ?(have_set_locked _ Rg), ?have_add_extra; auto).
  - (* AXCas *)
    destruct (Z.eqb_spec (s_word s) (t_st u)) as [Ew|Ne]; injection H as <- <-.
    + rewrite <- Ew. fw Hpc. rewrite have_add_extra; auto.
    + fs Hpc.
  - (* AXLoad *) injection H as <- <-. fs Hpc.
  - (* ACellLoad *)
    destruct (s_ptr s); injection H as <- <-.
    + fw Hpc. auto.
    + fs Hpc.
  - (* ACellCas *)
    destruct (s_ptr s) as [g|] eqn:Ep.
    + destruct (cell_of s g =? t_old u); injection H as <- <-; (fw Hpc; auto).
    + injection H as <- <-. fs Hpc.
  - (* RCas *)
    destruct (Z.eqb_spec (s_word s) (t_st u)) as [Ew|Ne].
    2:{ repeat match goal with H : (if ?c then _ else _) = _ |- _ => destruct c end;
        injection H as <- <-; fs Hpc. }
    rewrite <- Ew in H.
    destruct ((w_readers (s_word s) =? 1) && negb (w_have (s_word s))); injection H as <- <-; fw Hpc.
    + rewrite have_set_locked; auto.
    + rewrite (have_dec _ Hw (Hrd eq_refl)); auto.
  - (* RLoad *) injection H as <- <-. fs Hpc.
  - (* LCas *)
    destruct (Z.eqb_spec (s_word s) (t_st u)) as [Ew|Ne].
    2:{ repeat match goal with
               | H : (if ?c then _ else _) = _ |- _ => destruct c
               | H : match ?c with Some _ => _ | None => _ end = _ |- _ => destruct c
               end;
        injection H as <- <-; fs Hpc. }
    rewrite <- Ew in H.
    destruct (negb (w_have (s_word s))) eqn:Ch.
    + (* setHavePtr: enters the lookup *)
      injection H as <- <-. apply facts_gen; mf Hpc; try reflexivity; try (intros; discriminate).
      unfold ok_change. cbn [set_word s_ptr s_cur s_maps s_closed s_word].
      split; [lia|]; split; [left; reflexivity|]; left; split; [reflexivity|]; split; [lia|]; intros _; right; lia.
    + destruct (if w_extra (s_word s) =? 0 then None else s_ptr s); injection H as <- <-.
      * fw Hpc. rewrite have_clear_extra; auto.
      * unfold after_release, to_close. destruct (t_kind u); [|destruct (t_prev u) eqn:Epv];
          (fw Hpc; try (cbn; rewrite ?Epv; reflexivity); rewrite ?have_clear_locked; auto).
  - (* LLoad *) injection H as <- <-. fs Hpc.
  - (* LLook1 *)
    destruct (s_cur s) eqn:Ec; injection H as <- <-.
    + fs Hpc.
    + apply facts_gen; mf Hpc; try reflexivity; try (intros; discriminate).
      unfold ok_change. cbn [set_ptr s_ptr s_cur s_maps s_closed s_word].
      split; [lia|]; split; [left; reflexivity|]; right; left; reflexivity.
  - (* LLook2 *)
    assert (Plain : (s', u') = (set_ptr s (s_cur s), with_pc u LCas) -> step_facts s u s' u' rest).
    { intros X. injection X as -> ->. apply facts_gen; mf Hpc; try reflexivity; try (intros; discriminate).
      unfold ok_change. cbn [set_ptr s_ptr s_cur s_maps s_closed s_word].
      split; [lia|]; split; [left; reflexivity|]; right; right; left; split; reflexivity. }
    destruct (s_cur s) as [g0|] eqn:Ec; [|apply Plain; rewrite <- H; reflexivity].
    destruct (t_prev2 u) eqn:Epv; [apply Plain; rewrite <- H; reflexivity|].
    destruct (s_full s) eqn:Efu; [|apply Plain; rewrite <- H; reflexivity].
    injection H as <- <-.
    apply facts_gen; mf Hpc; try reflexivity; try (intros; discriminate).
    unfold ok_change. cbn [s_ptr s_cur s_maps s_closed s_word].
    split; [rewrite app_length; lia|]; split; [right; right; reflexivity|]; left; split; [reflexivity|]; split; [lia|]; intros X; left; exact X.
  - (* GIvLoad *)
    destruct (w_have (s_word s)) eqn:Eh; injection H as <- <-.
    + fs Hpc.
    + apply facts_gen; mf Hpc; try reflexivity; try (intros; discriminate); try (intros; assumption).
      apply same_change.
  - (* GIvCas *)
    destruct (Z.eqb_spec (s_word s) (t_old u)) as [Ew|Ne]; injection H as <- <-.
    + rewrite <- Ew. apply facts_gen; mf Hpc; try reflexivity; try (intros; discriminate).
      unfold ok_change. cbn [set_word s_ptr s_cur s_maps s_closed s_word]. rewrite (have_clear_have _ Hw).
      split; [lia|]; split; [left; reflexivity|]; left; split; [reflexivity|]; split; [lia|]; intros X; discriminate.
    + fs Hpc.
  - (* GRfLoad *)
    destruct (w_have (s_word s) || (0 <? w_readers (s_word s)) || (w_extra (s_word s) =? 0)) eqn:Cd; injection H as <- <-.
    + fs Hpc.
    + exfalso. apply orb_false_iff in Cd as [Cd _]. apply orb_false_iff in Cd as [_ Cd].
      apply Z.ltb_ge in Cd. specialize (Hgr eq_refl). lia.
  - (* GClose *)
    specialize (Hgc eq_refl).
    destruct (t_prev2 u) as [g|] eqn:Epv; injection H as <- <-.
    + unfold step_facts, ok_change. mf Hpc. cbn [s_ptr s_cur s_maps s_closed s_word].
      split; [split; [lia|]; split; [left; reflexivity|]; right; right; right; exact Hgc|].
      split; [intros _; split; [reflexivity|]; split; [auto|intros X; discriminate]|].
      split; [intros X; left; exact X|].
      right. exists g. split; [right; unfold past_g; rewrite Hpc; auto | reflexivity].
    + apply facts_gen; mf Hpc; try reflexivity; try (intros; discriminate).
      unfold ok_change. cbn [set_ptr s_ptr s_cur s_maps s_closed s_word].
      split; [lia|]; split; [left; reflexivity|]; right; right; right; exact Hgc.
  - (* LCellLoad *)
    destruct (s_ptr s); injection H as <- <-.
    + fw Hpc. auto.
    + fs Hpc.
  - (* LCellCas *)
    destruct (s_ptr s) as [g|] eqn:Ep.
    + destruct (cell_of s g =? t_old u); injection H as <- <-; (fw Hpc; auto).
    + injection H as <- <-. fs Hpc.
  - (* CIdle *) injection H as <- <-. destruct (t_tgt u); fs Hpc.
  - (* CPre *) injection H as <- <-. fs Hpc.
  - (* CStore *)
    pose proof Hpn as Epn.
    assert (G : forall k t0, t_prev t0 = s_cur s -> t_pc t0 = Done ->
                look (goto_nops t0 k IvLoad) = 0 /\ past_inv (goto_nops t0 k IvLoad) = false /\ t_prev (goto_nops t0 k IvLoad) = s_cur s).
    { intros k t0 E1 E2. destruct k; cbn; auto. }
    destruct (t_tgt u).
    + injection H as <- <-.
      destruct (G (n_after_store_rotate np) (mkT Done Changer (t_st u) (t_amt u) (t_old u) (s_cur s) (t_prev2 u) NewFile Done) eq_refl eq_refl) as (G1 & G2 & G3).
      unfold step_facts, ok_change. rewrite G1, G2, G3. mf Hpc. cbn [s_ptr s_cur s_maps s_closed s_word].
      split; [split; [rewrite app_length; lia|]; split; [right; right; reflexivity|]; left; split; [reflexivity|]; split; [lia|]; intros X; left; exact X|].
      split; [intros X; contradiction|]. split; [intros _; right; split; [reflexivity|]; split; [reflexivity|]; intros g Eg; first [discriminate | (specialize (Hcur g Eg); intro X; injection X as X; lia)]|]. left; reflexivity.
    + destruct (s_cur s) as [g0|] eqn:Ec; [destruct (s_tight s) eqn:Eti|]; injection H as <- <-.
      * destruct (G (n_after_store_extend np) (mkT Done Changer (t_st u) (t_amt u) (t_old u) (Some g0) (t_prev2 u) SameFile Done) eq_refl eq_refl) as (G1 & G2 & G3).
        unfold step_facts, ok_change. rewrite G1, G2, G3. mf Hpc. cbn [s_ptr s_cur s_maps s_closed s_word].
        split; [split; [rewrite app_length; lia|]; split; [right; right; reflexivity|]; left; split; [reflexivity|]; split; [lia|]; intros X; left; exact X|].
        split; [intros X; contradiction|]. split; [intros _; right; split; [rewrite Ec; reflexivity|]; split; [reflexivity|]; intros g Eg; rewrite Ec in Eg; injection Eg as <-; specialize (Hcur g0 eq_refl); intro X; injection X as X; lia|]. left; reflexivity.
      * fs Hpc.
      * fs Hpc.
    + injection H as <- <-.
      destruct (G (n_after_store_rotate np) (mkT Done Changer (t_st u) (t_amt u) (t_old u) (s_cur s) (t_prev2 u) NoFile Done) eq_refl eq_refl) as (G1 & G2 & G3).
      unfold step_facts, ok_change. rewrite G1, G2, G3. mf Hpc. cbn [s_ptr s_cur s_maps s_closed s_word].
      split; [split; [lia|]; split; [right; left; reflexivity|]; left; split; [reflexivity|]; split; [lia|]; intros X; left; exact X|].
      split; [intros X; contradiction|]. split; [intros _; right; split; [reflexivity|]; split; [reflexivity|]; intros g Eg; first [discriminate | (specialize (Hcur g Eg); intro X; injection X as X; lia)]|]. left; reflexivity.
    + injection H as <- <-.
      destruct (G (n_after_store_rotate np) (mkT Done Changer (t_st u) (t_amt u) (t_old u) (s_cur s) (t_prev2 u) FullFile Done) eq_refl eq_refl) as (G1 & G2 & G3).
      unfold step_facts, ok_change. rewrite G1, G2, G3. mf Hpc. cbn [s_ptr s_cur s_maps s_closed s_word].
      split; [split; [rewrite app_length; lia|]; split; [right; right; reflexivity|]; left; split; [reflexivity|]; split; [lia|]; intros X; left; exact X|].
      split; [intros X; contradiction|]. split; [intros _; right; split; [reflexivity|]; split; [reflexivity|]; intros g Eg; first [discriminate | (specialize (Hcur g Eg); intro X; injection X as X; lia)]|]. left; reflexivity.
  - (* CNop *) injection H as <- <-. destruct k; fs Hpc.
  - (* IvLoad *)
    destruct (w_have (s_word s)) eqn:Eh; injection H as <- <-.
    + fs Hpc.
    + apply facts_gen; mf Hpc; try reflexivity; try (intros; discriminate); try (intros; assumption).
      apply same_change.
  - (* IvCas *)
    destruct (Z.eqb_spec (s_word s) (t_st u)) as [Ew|Ne]; injection H as <- <-.
    + rewrite <- Ew. apply facts_gen; mf Hpc; try reflexivity; try (intros; discriminate).
      * unfold ok_change. cbn [set_word s_ptr s_cur s_maps s_closed s_word]. rewrite (have_clear_have _ Hw).
        split; [lia|]; split; [left; reflexivity|]; left; split; [reflexivity|]; split; [lia|]; intros X; discriminate.
      * intros _ _ _. cbn [set_word s_word]. apply (have_clear_have _ Hw).
    + fs Hpc.
  - (* RfLoad *)
    destruct (w_have (s_word s) || (0 <? w_readers (s_word s)) || (w_extra (s_word s) =? 0)); injection H as <- <-.
    + unfold to_close. cbn [t_prev with_st]. destruct (t_prev u) eqn:Epv; (fs Hpc; cbn; rewrite ?Epv; try reflexivity; right; reflexivity).
    + fs Hpc.
  - (* RfCas *)
    destruct (Z.eqb_spec (s_word s) (t_st u)) as [Ew|Ne]; injection H as <- <-.
    + rewrite <- Ew. fw Hpc. rewrite have_set_locked; auto.
    + fs Hpc.
  - (* CClose *)
    destruct (t_prev u) as [g|] eqn:Epv; injection H as <- <-.
    + unfold step_facts, ok_change. mf Hpc. cbn [s_ptr s_cur s_maps s_closed s_word].
      split; [split; [lia|]; split; [left; reflexivity|]; left; split; [reflexivity|]; split; [lia|]; intros X; left; exact X|].
      split; [intros _; split; [reflexivity|]; split; [auto|intros X; discriminate]|].
      split; [intros X; rewrite Epv in X; discriminate|].
      right. exists g. split; [left; unfold past_inv; rewrite Hpc; auto | reflexivity].
    + (fs Hpc; cbn; rewrite ?Epv; reflexivity).
  - (* Crash *) injection H as <- <-. apply facts_same; try reflexivity; right; reflexivity.
  - (* Done *) injection H as <- <-. apply facts_same; try reflexivity; right; reflexivity.
Qed.

Definition prev_none_ok (u : thread) : Prop :=
  match t_pc u with
  | CStore | CIdle | CPre | AIdle | ALoad | ACas | AXCas | AXLoad | ACellLoad | ACellCas | RCas | RLoad => t_prev u = None
  | _ => True
  end.

Lemma prev_none_step np s u s' u' : step_thread np s u = (s', u') -> prev_none_ok u -> prev_none_ok u'.
Proof.
  unfold step_thread, prev_none_ok. intros H P.
  destruct (t_pc u) eqn:Hpc;
    repeat match goal with
           | H : (if ?c then _ else _) = _ |- _ => destruct c
           | H : match ?c with Some _ => _ | None => _ end = _ |- _ => destruct c
           | H : match ?c with NewFile => _ | SameFile => _ | NoFile => _ | FullFile => _ end = _ |- _ => destruct c
           | H : (_, match ?k with O => _ | S _ => _ end) = _ |- _ => destruct k
           end;
    try (injection H as <- <-);
    unfold after_release, to_close, goto_nops in *;
    repeat match goal with |- context [match ?c with Adder => _ | Changer => _ end] => destruct c end;
    repeat match goal with |- context [match t_prev ?c with Some _ => _ | None => _ end] => destruct (t_prev c) eqn:? end;
    repeat match goal with |- context [match ?k with O => _ | S _ => _ end] => destruct k end;
    cbn [t_pc t_prev with_pc with_st with_old with_amt] in *; try rewrite Hpc in *; auto;
    try (destruct (t_tgt u); auto).
Qed.

Lemma nth_error_upd {A} (l : list A) i j x :
  nth_error (upd l i x) j =
  if Nat.eqb i j then (match nth_error l j with Some _ => Some x | None => None end) else nth_error l j.
Proof.
  revert i j; induction l as [|y l IHl]; intros [|i] [|j]; cbn; auto;
    try (destruct (Nat.eqb i j); reflexivity).
Qed.

Lemma Forall_upd_other {A} (P Q : A -> Prop) l i x :
  Forall P l -> (forall y, P y -> Q y) -> Q x -> Forall Q (upd l i x).
Proof.
  intros F H Hx. apply Forall_upd; [|exact Hx]. eapply Forall_impl; [|exact F]. exact H.
Qed.

(* the bookkeeping of t_prev2: only the extending lookup sets it, only the
   inline invalidate moves the thread past it *)
Lemma step_change2 np s u s' u' :
  step_thread np s u = (s', u') -> 0 <= s_word s < W64 ->
  (forall g, s_cur s = Some g -> (g < length (s_maps s))%nat) ->
  step_facts2 s u s' u'.
Proof.
  intros H Hw Hcur. unfold step_thread in H. unfold step_facts2.
  destruct (t_pc u) eqn:Hpc;
    try (* the pcs that neither are G program points nor can start an extension *)
      (repeat match goal with
              | H : (if ?c then _ else _) = _ |- _ => destruct c
              | H : match ?c with Some _ => _ | None => _ end = _ |- _ => destruct c
              | H : match ?c with NewFile => _ | SameFile => _ | NoFile => _ | FullFile => _ end = _ |- _ => destruct c
              end;
       injection H as <- <-;
       unfold after_release, to_close, goto_nops, past_g;
       repeat match goal with |- context [match t_kind ?c with Adder => _ | Changer => _ end] => destruct (t_kind c) end;
       repeat match goal with |- context [match t_prev ?c with Some _ => _ | None => _ end] => destruct (t_prev c) end;
       repeat match goal with |- context [match ?k with O => _ | S _ => _ end] => destruct k end;
       cbn [t_pc t_prev2 with_pc with_st with_st2 with_old with_amt]; rewrite ?Hpc;
       (split; [intros _; split; [reflexivity|]; split; [auto | intros X; discriminate] | intros X; left; exact X]);
       fail).
  - (* LLook2 *)
    assert (Plain : (s', u') = (set_ptr s (s_cur s), with_pc u LCas) ->
      (t_prev2 u <> None -> t_prev2 u' = t_prev2 u /\ (past_g u = true -> past_g u' = true) /\
         (past_g u = false -> past_g u' = true -> w_have (s_word s') = false)) /\
      (t_prev2 u = None -> t_prev2 u' = None \/ (t_prev2 u' = s_cur s /\ past_g u' = false /\ (forall g, s_cur s = Some g -> s_cur s' <> Some g)))).
    { intros X. injection X as -> ->. unfold past_g. cbn [t_pc t_prev2 with_pc]. rewrite Hpc.
      split; [intros _; split; [reflexivity|]; split; [auto | intros X; discriminate] | intros X; left; exact X]. }
    destruct (s_cur s) as [g0|] eqn:Ec; [|apply Plain; rewrite <- H; reflexivity].
    destruct (t_prev2 u) eqn:Epv; [apply Plain; rewrite <- H; reflexivity|].
    destruct (s_full s) eqn:Efu; [|apply Plain; rewrite <- H; reflexivity].
    injection H as <- <-. unfold past_g. cbn [t_pc t_prev2 s_cur].
    split; [intros X; contradiction|]. intros _. right. split; [reflexivity|]. split; [reflexivity|].
    intros g Eg. injection Eg as <-. specialize (Hcur g0 eq_refl). intro X. injection X as X. lia.
  - (* GIvLoad *)
    destruct (w_have (s_word s)) eqn:Eh; injection H as <- <-; unfold past_g; cbn [t_pc t_prev2 with_pc with_st2]; rewrite Hpc.
    + split; [intros _; split; [reflexivity|]; split; [auto | intros _ X; discriminate] | intros X; left; exact X].
    + split; [intros _; split; [reflexivity|]; split; [auto | intros _ _; exact Eh] | intros X; left; exact X].
  - (* GIvCas *)
    destruct (Z.eqb_spec (s_word s) (t_old u)) as [Ew|Ne]; injection H as <- <-; unfold past_g; cbn [t_pc t_prev2 with_pc]; rewrite Hpc.
    + split; [intros _; split; [reflexivity|]; split; [auto | intros _ _; cbn [set_word s_word]; rewrite <- Ew; apply (have_clear_have _ Hw)] | intros X; left; exact X].
    + split; [intros _; split; [reflexivity|]; split; [auto | intros _ X; discriminate] | intros X; left; exact X].
  - (* GClose *)
    destruct (t_prev2 u) eqn:Epv; injection H as <- <-; unfold past_g; cbn [t_pc t_prev2 with_pc]; rewrite Hpc, ?Epv;
      (split; [intros _; split; [reflexivity|]; split; [auto | intros X; discriminate] | intros X; first [discriminate X | left; reflexivity]]).
  - (* CIdle *)
    injection H as <- <-. unfold past_g. cbn [t_pc t_prev2 with_pc]. rewrite Hpc.
    destruct (t_tgt u); (split; [intros _; split; [reflexivity|]; split; [auto | intros X; discriminate] | intros X; left; exact X]).
Qed.

Theorem finv_step np T st i :
  Inv T st -> FInv st -> Forall prev_none_ok (snd st) ->
  FInv (step np st i) /\ Forall prev_none_ok (snd (step np st i)).
Proof.
  destruct st as [s ts]. cbn [snd]. intros I (FC & FC2 & CL) PN. unfold step.
  destruct (nth_error ts i) as [u|] eqn:Hn; [|split; [split; [|split]; assumption|exact PN]].
  destruct (step_thread np s u) as [s' u'] eqn:Hs. cbn [snd].
  destruct I as (r & h & e & F & C & TL & W & _ & _ & SO & _).
  pose proof (fields_range _ _ _ _ F) as Hw.
  pose proof (sum_others_bound _ _ _ Hn) as (B1 & B2 & B3 & B4 & B5 & B6 & B7 & B8 & B9).
  pose proof (nth_error_Forall _ _ _ _ TL Hn) as [Hamt _].
  pose proof (nth_error_Forall _ _ _ _ PN Hn) as Pu.
  assert (Hrd : t_pc u = RCas -> 1 <= w_readers (s_word s)).
  { intros Hpc. rewrite (fields_readers _ _ _ _ F).
    assert (rd u = 1) by (unfold rd; rewrite Hpc; reflexivity).
    unfold cnt_ok in C. rewrite LOCKED_v in *. lia. }
  assert (Hcur : forall g, s_cur s = Some g -> (g < length (s_maps s))%nat) by apply W.
  assert (Hgr : t_pc u = GRfLoad -> 0 < w_readers (s_word s)).
  { intros Hpc. rewrite (fields_readers _ _ _ _ F).
    assert (lk u = 1) by (unfold lk; rewrite Hpc; reflexivity).
    unfold cnt_ok in C. rewrite LOCKED_v in *. lia. }
  assert (Hgc : t_pc u = GClose -> w_have (s_word s) = false).
  { intros Hpc. rewrite (fields_have _ _ _ _ F).
    assert (gp u = 1) by (unfold gp; rewrite Hpc; reflexivity).
    destruct SO as (_ & _ & _ & _ & S5). apply S5. lia. }
  pose proof (step_change np s u s' u' (sumf look ts - look u) Hs Hw ltac:(lia) Hamt Hrd Hcur Pu Hgr Hgc) as (OC & S2 & S3 & S4).
  pose proof (step_change2 np s u s' u' Hs Hw Hcur) as (T2 & T3).
  replace (look u + (sumf look ts - look u)) with (sumf look ts) in OC by lia.
  pose proof (sumf_upd look _ _ _ u' Hn) as Ulo.
  replace (look u' + (sumf look ts - look u)) with (sumf look (upd ts i u')) in OC by lia.
  split; [split; [|split]|].
  - (* chg_ok for every thread *)
    apply Forall_upd.
    + eapply Forall_impl; [|exact FC]. intros t Ht. eapply (chg_ok_preserved s _ s' _ t t); eauto.
    + pose proof (nth_error_Forall _ _ _ _ FC Hn) as Cu.
      destruct (t_prev u) as [g|] eqn:Epu.
      * destruct (S2 ltac:(discriminate)) as (Ep & P1 & P2).
        destruct (past_inv u) eqn:Epi.
        -- eapply (chg_ok_preserved s _ s' _ u u'); eauto; try congruence.
        -- (* possibly newly past its invalidation *)
           unfold chg_ok in *. rewrite Ep, Epu in *. destruct Cu as (Hg & Hc & _).
           destruct OC as (Hm & Hcc & _). split; [lia|]. split.
           ++ destruct Hcc as [-> | [-> | ->]]; [exact Hc | discriminate | intro E; injection E as E; lia].
           ++ intros Hp _. left. apply P2; auto.
      * destruct (S3 eq_refl) as [E | (E & Epi & Hne)]; unfold chg_ok; rewrite E; [exact I|].
        destruct (s_cur s) as [g0|] eqn:Ec; [|exact I].
        destruct OC as (Hm & _ & _). split; [specialize (Hcur g0 eq_refl); lia|]. split; [apply Hne; reflexivity|].
        intros X. congruence.
  - (* chg_ok2 for every thread *)
    apply Forall_upd.
    + eapply Forall_impl; [|exact FC2]. intros t Ht. eapply (chg_ok2_preserved s _ s' _ t t); eauto.
    + pose proof (nth_error_Forall _ _ _ _ FC2 Hn) as Cu.
      destruct (t_prev2 u) as [g|] eqn:Epu.
      * destruct (T2 ltac:(discriminate)) as (Ep & P1 & P2).
        destruct (past_g u) eqn:Epi.
        -- eapply (chg_ok2_preserved s _ s' _ u u'); eauto; try congruence.
        -- unfold chg_ok2 in *. rewrite Ep, Epu in *. destruct Cu as (Hg & Hc & _).
           destruct OC as (Hm & Hcc & _). split; [lia|]. split.
           ++ destruct Hcc as [-> | [-> | ->]]; [exact Hc | discriminate | intro E; injection E as E; lia].
           ++ intros Hp _. left. apply P2; auto.
      * destruct (T3 eq_refl) as [E | (E & Epi & Hne)]; unfold chg_ok2; rewrite E; [exact I|].
        destruct (s_cur s) as [g0|] eqn:Ec; [|exact I].
        destruct OC as (Hm & _ & _). split; [specialize (Hcur g0 eq_refl); lia|]. split; [apply Hne; reflexivity|].
        intros X. congruence.
  - (* closed mappings have a witness *)
    intros g Hg.
    assert (Hwit : forall g0, witness g0 u -> witness g0 u').
    { intros g0 [[Hp Hpi] | [Hp Hpi]].
      - destruct (S2 ltac:(congruence)) as (Ep & P1 & _). left. split; [congruence | auto].
      - destruct (T2 ltac:(congruence)) as (Ep & P1 & _). right. split; [congruence | auto]. }
    assert (Hold : In g (s_closed s) -> exists j t, nth_error (upd ts i u') j = Some t /\ witness g t).
    { intros Hin. destruct (CL g Hin) as (j & t & Hj & Hwt).
      destruct (Nat.eq_dec i j) as [<-|Ne].
      - rewrite Hn in Hj. injection Hj as <-. exists i, u'. rewrite nth_error_upd, Nat.eqb_refl, Hn.
        split; [reflexivity | apply Hwit; exact Hwt].
      - exists j, t. rewrite nth_error_upd. destruct (Nat.eqb_spec i j); [contradiction|]. auto. }
    destruct S4 as [Ec | (g1 & Hw1 & Ec)]; rewrite Ec in Hg; [auto|].
    destruct Hg as [<-|Hg]; [|auto].
    exists i, u'. rewrite nth_error_upd, Nat.eqb_refl, Hn. split; [reflexivity | apply Hwit; exact Hw1].
  - apply Forall_upd; [exact PN|]. eapply prev_none_step; eauto.
Qed.

Theorem finv_run np T sched : forall st,
  Inv T st -> FInv st -> Forall prev_none_ok (snd st) ->
  FInv (run np sched st) /\ Forall prev_none_ok (snd (run np sched st)).
Proof.
  induction sched as [|i sched IH]; intros st I Fi P; [auto|].
  cbn [run fold_left]. destruct (finv_step np T st i I Fi P) as [F' P'].
  apply IH; [apply inv_step; exact I | exact F' | exact P'].
Qed.

(* ---- the characterisation ---- *)
(* a mapping that has been closed is never the counter's pointer while a call
   could enter a section through it: havePtr is clear, or the lock holder is
   about to overwrite the pointer *)
Theorem closed_pointer_unusable np T sched st :
  Inv T st -> FInv st -> Forall prev_none_ok (snd st) ->
  let '(s, ts) := run np sched st in
  forall g, In g (s_closed s) -> s_ptr s = Some g ->
  w_have (s_word s) = false \/ 1 <= sumf look ts.
Proof.
  intros I Fi P. destruct (finv_run np T sched st I Fi P) as [F' _].
  destruct (run np sched st) as [s ts]. destruct F' as (FC & FC2 & CL).
  intros g Hg Hp. destruct (CL g Hg) as (j & t & Hj & [[Ept Hpi] | [Ept Hpi]]).
  - pose proof (nth_error_Forall _ _ _ _ FC Hj) as Ct. unfold chg_ok in Ct. rewrite Ept in Ct.
    destruct Ct as (_ & _ & H). apply H; assumption.
  - pose proof (nth_error_Forall _ _ _ _ FC2 Hj) as Ct. unfold chg_ok2 in Ct. rewrite Ept in Ct.
    destruct Ct as (_ & _ & H). apply H; assumption.
Qed.

(* ---- from the initial states ---- *)
From Tele Require Import Proofs.CounterThms.

Definition good_init2 (s : shared) (ts : list thread) : Prop :=
  good_init s ts /\ s_closed s = [] /\ Forall (fun t => t_prev t = None /\ t_prev2 t = None) ts.

Lemma finv_init s ts : good_init2 s ts -> FInv (s, ts) /\ Forall prev_none_ok ts.
Proof.
  intros (_ & Hc & Hp). split; [split; [|split]|].
  - eapply Forall_impl; [|exact Hp]. intros t [Ht _]. unfold chg_ok. rewrite Ht. exact I.
  - eapply Forall_impl; [|exact Hp]. intros t [_ Ht]. unfold chg_ok2. rewrite Ht. exact I.
  - intros g Hg. rewrite Hc in Hg. destruct Hg.
  - eapply Forall_impl; [|exact Hp]. intros t [Ht _]. unfold prev_none_ok. destruct (t_pc t); auto.
Qed.

Theorem closed_pointer_unusable_from_init np s0 ts0 sched : good_init2 s0 ts0 ->
  let '(s, ts) := run np sched (s0, ts0) in
  forall g, In g (s_closed s) -> s_ptr s = Some g ->
  w_have (s_word s) = false \/ 1 <= sumf look ts.
Proof.
  intros G. destruct (finv_init _ _ G) as [Fi P]. destruct G as (G & _).
  pose proof (reach_inv np s0 ts0 [] G) as I0. cbn [run fold_left] in I0.
  exact (closed_pointer_unusable np _ sched (s0, ts0) I0 Fi P).
Qed.

(* No call ENTERS its reader section (ACas -> ACellLoad) or starts a flush
   (LCas -> LCellLoad) through a closed mapping: accesses through a closed
   mapping are made only by calls that were already inside such a section when
   the mapping was closed. *)
Theorem no_entry_through_closed np s0 ts0 sched i u s' u' : good_init2 s0 ts0 ->
  let '(s, ts) := run np sched (s0, ts0) in
  nth_error ts i = Some u -> step_thread np s u = (s', u') ->
  (t_pc u = ACas /\ t_pc u' = ACellLoad) \/ (t_pc u = LCas /\ t_pc u' = LCellLoad) ->
  forall g, s_ptr s = Some g -> ~ In g (s_closed s).
Proof.
  intros G. pose proof (closed_pointer_unusable_from_init np s0 ts0 sched G) as CP.
  destruct G as (G & _). pose proof (reach_inv np s0 ts0 sched G) as I.
  destruct (run np sched (s0, ts0)) as [s ts].
  intros Hn Hs Hpcs g Hp Hcl.
  destruct I as (r & h & e & F & C & TL & W & _).
  pose proof (sum_others_bound _ _ _ Hn) as (B1 & B2 & B3 & B4 & B5 & B6 & B7 & B8 & B9).
  pose proof (fields_have _ _ _ _ F) as Eh. pose proof (fields_locked _ _ _ _ F) as El.
  pose proof (fields_readers _ _ _ _ F) as Er.
  specialize (CP g Hcl Hp).
  unfold step_thread in Hs. destruct Hpcs as [[Hpc Hpc'] | [Hpc Hpc']]; rewrite Hpc in Hs.
  - (* reader entry *)
    destruct (Z.eqb_spec (s_word s) (t_st u)) as [Ew|Ne].
    2:{ repeat match goal with H : (if ?c then _ else _) = _ |- _ => destruct c end;
        injection Hs as _ <-; cbn in Hpc'; discriminate. }
    rewrite <- Ew in Hs. rewrite El, Eh in Hs.
    destruct (negb (r =? LOCKED) && h) eqn:Cd.
    + apply andb_true_iff in Cd as [Cl Ch]. apply negb_true_iff in Cl. apply Z.eqb_neq in Cl. subst h.
      assert (rd u = 0 /\ lk u = 0 /\ look u = 0) as (R0 & L0 & K0) by (unfold rd, lk, look; rewrite Hpc; auto).
      unfold cnt_ok in C. rewrite Eh in CP. destruct CP as [X|X]; [discriminate|]. lia.
    + repeat match goal with H : (if ?c then _ else _) = _ |- _ => destruct c end;
        injection Hs as _ <-; cbn in Hpc'; discriminate.
  - (* flush entry *)
    destruct (Z.eqb_spec (s_word s) (t_st u)) as [Ew|Ne].
    2:{ repeat match goal with
               | H : (if ?c then _ else _) = _ |- _ => destruct c
               | H : match ?c with Some _ => _ | None => _ end = _ |- _ => destruct c
               end; injection Hs as _ <-; cbn in Hpc'; discriminate. }
    rewrite <- Ew in Hs. rewrite Eh in Hs.
    destruct h; cbn [negb] in Hs.
    + assert (rd u = 0 /\ lk u = 1 /\ look u = 0) as (R0 & L0 & K0) by (unfold rd, lk, look; rewrite Hpc; auto).
      unfold cnt_ok in C. rewrite Eh in CP. destruct CP as [X|X]; [discriminate|]. lia.
    + injection Hs as _ <-. cbn in Hpc'. discriminate.
Qed.
