(* Proofs/SpanChain: the rotation chain of a long-lived process (C09). *)
From Coq Require Import List ZArith NArith Bool Lia.
From Tele Require Import Lib.Bytes Lib.Calendar Model.Span Proofs.CalendarFacts Proofs.SpanFacts.
Import ListNotations.
Open Scope Z_scope.

(* the span computed when the timer fires (at the recorded end, or later that
   day) begins exactly at that end and is a whole week *)
Lemma next_span now w t : 0 <= w < 7 ->
  snd (counter_span now w) <= t < snd (counter_span now w) + 86400 ->
  counter_span t w = (snd (counter_span now w), snd (counter_span now w) + 7 * 86400).
Proof.
  intros Hw Ht.
  pose proof (span_shape now w Hw) as S0. pose proof (span_shape t w Hw) as S1.
  destruct (counter_span now w) as [b e]. destruct (counter_span t w) as [b1 e1].
  cbn [fst snd] in *.
  destruct S0 as [Hb [k [Hk [He [Hwd _]]]]]. destruct S1 as [Hb1 [k1 [Hk1 [He1 [Hwd1 Hmin1]]]]].
  set (q := now / 86400) in *.
  assert (Hbq : b / 86400 = q) by (rewrite Hb; apply Z.div_mul; lia).
  rewrite Hbq in Hwd.
  assert (Ht2 : t / 86400 = q + k).
  { symmetry. apply Z.div_unique with (r := t - (q + k) * 86400); lia. }
  assert (Hb1e : b1 = e) by (rewrite Hb1, Ht2, He, Hb; ring).
  assert (Hb1q : b1 / 86400 = q + k) by (rewrite Hb1, Ht2; apply Z.div_mul; lia).
  rewrite Hb1q in Hwd1, Hmin1.
  assert (Hk7 : k1 = 7).
  { rewrite weekday_add in Hwd1. rewrite Hwd in Hwd1.
    pose proof (Z.div_mod (w + k1) 7 ltac:(lia)) as DM.
    pose proof (Z.mod_pos_bound (w + k1) 7 ltac:(lia)). lia. }
  subst k1. f_equal; lia.
Qed.

Theorem chain_tiles now w fires : 0 <= w < 7 -> fires_on_time now w fires ->
  match timer_chain now w fires with
  | [] => False
  | s :: r => s = counter_span now w /\ tiles (snd s) r
  end.
Proof.
  intros Hw. revert now. induction fires as [|t r IH]; intros now Hf; cbn [timer_chain].
  - split; [reflexivity | exact I].
  - split; [reflexivity|]. destruct Hf as [Ht Hr].
    specialize (IH t Hr). pose proof (next_span now w t Hw Ht) as N.
    destruct r as [|t2 r2]; cbn [timer_chain] in *.
    + cbn [tiles]. rewrite N. cbn [fst snd]. repeat split; exact I.
    + destruct IH as [_ IH]. cbn [tiles]. rewrite N in *. cbn [fst snd] in *. repeat split; exact IH.
Qed.

(* a chain that is NOT re-armed stops tiling: the file current at the last
   firing goes on being written after its recorded end (what the harness's
   clause rotation-chain observes as "0 timers armed") *)
Lemma chain_length now w fires : length (timer_chain now w fires) = S (length fires).
Proof. revert now; induction fires as [|t r IH]; intros now; cbn [timer_chain length]; [reflexivity | now rewrite IH]. Qed.

(* the timer is due at the recorded end, or one minimum delay from now if
   that is later: never before the end, and less than a day after it *)
Lemma timer_due mn now e : 0 < mn -> now < e ->
  e <= now + timer_delay mn now e /\
  (mn <= e - now -> now + timer_delay mn now e = e) /\
  now + timer_delay mn now e < e + mn.
Proof. intros Hm Hn. unfold timer_delay. lia. Qed.

Lemma now_before_end now w : 0 <= w < 7 -> now < snd (counter_span now w).
Proof.
  intros Hw. pose proof (span_shape now w Hw) as S. destruct (counter_span now w) as [b e].
  cbn [snd]. destruct S as [Hb [k [Hk [He _]]]].
  pose proof (Z.div_mod now 86400 ltac:(lia)) as DM. pose proof (Z.mod_pos_bound now 86400 ltac:(lia)). lia.
Qed.

Lemma self_timed_on_time n : forall now w, 0 <= w < 7 -> fires_on_time now w (self_timed n now w).
Proof.
  induction n as [|n IH]; intros now w Hw; cbn [self_timed fires_on_time]; [exact I|].
  split; [|apply IH; exact Hw].
  pose proof (timer_due 60 now (snd (counter_span now w)) ltac:(lia) (now_before_end now w Hw)). lia.
Qed.

(* a process that lives n weeks beyond its first file, its timers firing when
   due: n+1 files whose spans tile *)
Theorem self_timed_tiles n now w : 0 <= w < 7 ->
  match timer_chain now w (self_timed n now w) with
  | [] => False
  | s :: r => s = counter_span now w /\ tiles (snd s) r /\ length r = n
  end.
Proof.
  intros Hw. pose proof (chain_tiles now w _ Hw (self_timed_on_time n now w Hw)) as T.
  pose proof (chain_length now w (self_timed n now w)) as L.
  destruct (timer_chain now w (self_timed n now w)) as [|s r]; [exact T|].
  destruct T as [T1 T2]. split; [exact T1|]. split; [exact T2|].
  cbn [length] in L. injection L as L. rewrite L.
  clear. revert now. induction n as [|n IH]; intros now; cbn [self_timed length]; [reflexivity|]. now rewrite IH.
Qed.

(* one run over any set of count files: an entry is in a report iff it is the
   entry of a finished file, under the week named by that file's end date and
   under its program; every file is either reported or left, never both *)
Theorem run_entries_spec files start wk p n :
  In (wk, p, n) (run_entries files start) <->
  exists e, In (p, e, n) files /\ uploader_consumes e start = true /\ wk = uploader_week e.
Proof.
  unfold run_entries. rewrite in_map_iff. split.
  - intros [[[p0 e0] n0] [E H]]. apply filter_In in H. destruct H as [Hin Hc].
    injection E as E1 E2 E3. subst. exists e0. repeat split; assumption.
  - intros [e [Hin [Hc ->]]]. exists (p, e, n). split; [reflexivity|].
    apply filter_In. split; assumption.
Qed.

Theorem run_leaves_spec files start p e n :
  In (p, e, n) (run_leaves files start) <-> In (p, e, n) files /\ uploader_consumes e start = false.
Proof.
  unfold run_leaves. rewrite filter_In. split; intros [H1 H2]; (split; [exact H1|]);
    destruct (uploader_consumes e start); cbn in *; congruence.
Qed.

Theorem run_partition_length files start :
  (length (run_entries files start) + length (run_leaves files start) = length files)%nat.
Proof.
  unfold run_entries, run_leaves. rewrite map_length.
  induction files as [|[[p e] n] l IH]; cbn [filter length]; [reflexivity|].
  destruct (uploader_consumes e start); cbn [negb length]; lia.
Qed.

(* the span computed at a clock reading contains that reading: "the span an
   increment was made in" is well defined by its clock reading *)
Theorem span_contains_now now w : 0 <= w < 7 ->
  fst (counter_span now w) <= now < snd (counter_span now w).
Proof.
  intros Hw. split; [|apply now_before_end; exact Hw].
  pose proof (span_shape now w Hw) as S. destruct (counter_span now w) as [b e].
  cbn [fst]. destruct S as [Hb _].
  pose proof (Z.div_mod now 86400 ltac:(lia)) as DM. pose proof (Z.mod_pos_bound now 86400 ltac:(lia)). lia.
Qed.
