(* Proofs/GoFnsLayout: round, hash and mappedFile.place of Model/Layout are
   exactly the Go functions of internal/counter/file.go as TRANSLATED from the
   current source by harness/tools/gofns (Gen/GoFns.v), for all inputs in the
   range of their Go types.  An edit of those Go functions changes Gen/GoFns.v
   and breaks one of these proofs. *)
From Coq Require Import List ZArith NArith Bool Lia.
From Tele Require Import Lib.Bytes Lib.BytesN Gen.Consts Gen.GoFns Model.DecodeStack Model.Layout
  Proofs.LayoutArith.
Import ListNotations.

Lemma of_N_ldiff a b : Z.of_N (N.ldiff a b) = Z.ldiff (Z.of_N a) (Z.of_N b).
Proof. destruct a, b; reflexivity. Qed.

Lemma of_N_lxor a b : Z.of_N (N.lxor a b) = Z.lxor (Z.of_N a) (Z.of_N b).
Proof. destruct a, b; reflexivity. Qed.

Lemma of_N_u32 x : Z.of_N (u32 x) = wrapu 32 (Z.of_N x).
Proof. unfold u32, wrapu. rewrite N2Z.inj_mod. reflexivity. Qed.

Lemma wrapu_small x : (0 <= x < 4294967296)%Z -> wrapu 32 x = x.
Proof. intro H. unfold wrapu. apply Z.mod_small. change (2 ^ 32)%Z with 4294967296%Z. lia. Qed.

Lemma wraps_small x : (0 <= x < 9223372036854775808)%Z -> wraps 64 x = x.
Proof.
  intro H. unfold wraps. change (2 ^ 64)%Z with 18446744073709551616%Z.
  change (2 ^ (64 - 1))%Z with 9223372036854775808%Z.
  rewrite Z.mod_small by lia. destruct (Z.ltb_spec x 9223372036854775808); lia.
Qed.

(* ---------------------------------------------------------------- round *)

(* round[uint32]: every x in uint32 and every unit 1..2^32 (the source uses 32 and 16384) *)
Lemma round_u32_is_go x unit : (x < 4294967296)%N -> (1 <= unit <= 4294967296)%N ->
  Z.of_N (round_u32 x unit) = go_round_uint32 (Z.of_N x) (Z.of_N unit).
Proof.
  intros Hx Hu. unfold round_u32, go_round_uint32. rewrite of_N_ldiff, of_N_u32.
  rewrite !N2Z.inj_sub by lia. rewrite N2Z.inj_add. change (Z.of_N 1) with 1%Z.
  f_equal.
  - unfold wrapu. rewrite Zminus_mod_idemp_l. reflexivity.
  - symmetry. apply wrapu_small. lia.
Qed.

(* round[int]: no overflow of int64 *)
Lemma round_int_is_go x unit : (1 <= unit)%N -> (Z.of_N x + Z.of_N unit < 9223372036854775808)%Z ->
  Z.of_N (round_int x unit) = go_round_int (Z.of_N x) (Z.of_N unit).
Proof.
  intros Hu Hs. unfold round_int, go_round_int. rewrite of_N_ldiff.
  rewrite !N2Z.inj_sub by lia. rewrite N2Z.inj_add. change (Z.of_N 1) with 1%Z.
  rewrite (wraps_small (Z.of_N x + Z.of_N unit)) by lia.
  rewrite !wraps_small by lia. reflexivity.
Qed.

(* ---------------------------------------------------------------- hash *)

Lemma fnv_step_is_go h c : (c < 256)%N ->
  Z.of_N (fnv_step h c) = wrapu 32 (Z.lxor (Z.of_N h) (wrapu 32 (Z.of_N c)) * 16777619).
Proof.
  intro Hc. unfold fnv_step. rewrite lo32_u32, of_N_u32, N2Z.inj_mul, of_N_lxor.
  rewrite (wrapu_small (Z.of_N c)) by lia. change (Z.of_N c_fnv_prime32) with 16777619%Z.
  f_equal. apply Z.mul_comm.
Qed.

Lemma fnv_fold_is_go name : forall h, Forall (fun c => c < 256)%N name ->
  Z.of_N (fold_left fnv_step name h) =
  fold_left (fun v_h v_c => wrapu 32 (Z.lxor v_h (wrapu 32 v_c) * 16777619))
            (map Z.of_N name) (Z.of_N h).
Proof.
  induction name as [|c t IH]; intros h Hf; [reflexivity|]. inversion Hf as [|? ? Hc Ht]; subst.
  cbn [fold_left map]. rewrite IH by exact Ht. now rewrite fnv_step_is_go.
Qed.

(* hash: every name (Go strings are bytes) *)
Lemma hash_is_go name : Forall (fun c => c < 256)%N name ->
  Z.of_N (hash name) = go_hash (map Z.of_N name).
Proof.
  intro Hf. unfold hash, go_hash, fnv1a. cbv zeta.
  change 2166136261%Z with (Z.of_N c_fnv_offset32).
  rewrite <- (fnv_fold_is_go name c_fnv_offset32 Hf).
  set (h := fold_left fnv_step name c_fnv_offset32).
  rewrite N2Z.inj_mod, of_N_lxor, N2Z.inj_div, Z.shiftr_div_pow2 by lia. reflexivity.
Qed.

(* ---------------------------------------------------------------- place *)

Lemma place_is_go hdr limit (name : bytes) :
  (hdr < 4294967296)%N -> (limit < 4294967296)%N -> (Z.of_nat (length name) < 4611686018427387904)%Z ->
  go_mappedFile_place (Z.of_N hdr) (Z.of_N limit) (map Z.of_N name)
  = (Z.of_N (fst (place hdr limit (len name))), Z.of_N (snd (place hdr limit (len name)))).
Proof.
  intros Hh Hl Hn. unfold go_mappedFile_place, place. cbv zeta. cbn [fst snd].
  rewrite map_length.
  (* the effective limit *)
  assert (E1 : (if (Z.of_N limit =? 0)%Z then wrapu 32 (wrapu 32 (Z.of_N hdr + 4) + 2048) else Z.of_N limit)
               = Z.of_N (if (limit =? 0)%N then u32 (first_off hdr) else limit)).
  { destruct (N.eqb_spec limit 0) as [->|Hz].
    - cbn [Z.of_N Z.eqb]. rewrite of_N_u32, first_off_val. unfold wrapu.
      rewrite Zplus_mod_idemp_l. f_equal. lia.
    - destruct (Z.eqb_spec (Z.of_N limit) 0); [lia|reflexivity]. }
  rewrite E1. set (lim := if (limit =? 0)%N then u32 (first_off hdr) else limit).
  assert (Hlim : (lim < 4294967296)%N).
  { unfold lim. destruct (limit =? 0)%N; [apply N.mod_lt; lia|exact Hl]. }
  (* the record size *)
  assert (E2 : wrapu 32 (wraps 64 (16 + Z.of_nat (length name))) = Z.of_N (u32 (16 + len name))).
  { rewrite wraps_small by lia. rewrite of_N_u32. f_equal. rewrite len_length. lia. }
  rewrite E2.
  assert (Hsz : (u32 (16 + len name) < 4294967296)%N) by (apply N.mod_lt; lia).
  pose proof (round_u32_is_go (u32 (16 + len name)) 32 Hsz ltac:(lia)) as R1.
  pose proof (round_u32_is_go lim 32 Hlim ltac:(lia)) as R2.
  pose proof (round_u32_is_go lim 16384 Hlim ltac:(lia)) as R3.
  change (Z.of_N 32) with 32%Z in R1, R2. change (Z.of_N 16384) with 16384%Z in R3.
  rewrite <- R1, <- R2, <- R3. clear R1 R2 R3.
  change c_recordUnit with 32%N. change c_pageSize with 16384%N.
  set (n := round_u32 (u32 (16 + len name)) 32). set (s0 := round_u32 lim 32).
  change 16384%Z with (Z.of_N 16384). rewrite <- !N2Z.inj_add, <- !of_N_u32, <- !N2Z.inj_div.
  assert (E3 : (Z.of_N (s0 / 16384) =? Z.of_N (u32 (s0 + n) / 16384))%Z = (s0 / 16384 =? u32 (s0 + n) / 16384)%N).
  { destruct (N.eqb_spec (s0 / 16384) (u32 (s0 + n) / 16384)) as [->|Hne]; [apply Z.eqb_refl|].
    apply Z.eqb_neq. lia. }
  rewrite E3. destruct (s0 / 16384 =? u32 (s0 + n) / 16384)%N; cbn [negb];
    rewrite <- N2Z.inj_add, <- of_N_u32; reflexivity.
Qed.
