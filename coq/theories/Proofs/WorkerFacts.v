(* Proofs/WorkerFacts: lemmas about Model/Worker (C13), part 1:
   framing of the merged object, merge / read_merged, the partition loop
   invariant, and the specification of one partition chart. *)
From Coq Require Import List NArith ZArith Bool Permutation Sorted Lia.
From Tele Require Import Lib.Bytes Lib.Sort Gen.Consts Model.Worker.
Import ListNotations.

Ltac bcase a b :=
  let E := fresh "E" in
  destruct (beq a b) eqn:E; [apply beq_eq in E | apply beq_neq in E].

(* ------------------------------------------------------------------ *)
(* A. framing *)

Lemma split_byte_app_sep l rest :
  ~ In nl l -> split_byte (l ++ nl :: rest) nl = l :: split_byte rest nl.
Proof.
  induction l as [|x l IH]; intro H.
  - cbn [app split_byte].
    destruct (split_byte rest nl) as [|h t] eqn:E; [exfalso; eapply split_byte_nonempty; eauto|].
    rewrite N.eqb_refl. reflexivity.
  - cbn [app split_byte]. rewrite IH by (intro; apply H; right; assumption).
    destruct (N.eqb_spec x nl) as [->|_]; [exfalso; apply H; left; reflexivity | reflexivity].
Qed.

Lemma frame_cons l ls : frame (l :: ls) = l ++ nl :: frame ls.
Proof. unfold frame. cbn [map concat]. rewrite <- app_assoc. reflexivity. Qed.

Lemma split_frame ls :
  Forall (fun l => ~ In nl l) ls -> split_byte (frame ls) nl = ls ++ [[]].
Proof.
  induction ls as [|l ls IH]; intro H.
  - reflexivity.
  - inversion H as [|? ? Hl Hls]; subst. rewrite frame_cons, split_byte_app_sep by exact Hl.
    rewrite IH by exact Hls. reflexivity.
Qed.

Lemma filter_nonempty_id ls : Forall (fun l : bytes => l <> []) ls -> filter nonempty ls = ls.
Proof.
  induction ls as [|l ls IH]; intro H; [reflexivity|].
  inversion H as [|? ? Hl Hls]; subst. cbn [filter].
  destruct l; [contradiction|]. cbn [nonempty]. f_equal. apply IH. exact Hls.
Qed.

Lemma unframe_frame ls :
  Forall (fun l => ~ In nl l) ls -> Forall (fun l : bytes => l <> []) ls -> unframe (frame ls) = ls.
Proof.
  intros H1 H2. unfold unframe. rewrite split_frame by exact H1.
  rewrite filter_app. cbn [filter nonempty]. rewrite app_nil_r. apply filter_nonempty_id. exact H2.
Qed.

Lemma frame_length ls : length (frame ls) = fold_right (fun l a => (length l + 1 + a)%nat) 0%nat ls.
Proof.
  induction ls as [|l ls IH]; [reflexivity|].
  rewrite frame_cons, app_length. cbn [length fold_right]. rewrite IH. lia.
Qed.

(* ------------------------------------------------------------------ *)
(* B. merge and read_merged, for any JSON codec meeting three premises *)

Section MergeFacts.
  Variable R : Type.
  Variable enc : R -> bytes.
  Variable dec : bytes -> option R.
  (* Encode writes one line: compact JSON never contains a raw newline and is never empty;
     decoding what was encoded gives the value back *)
  Hypothesis enc_no_nl : forall r, ~ In nl (enc r).
  Hypothesis enc_nonempty : forall r, enc r <> [].
  Hypothesis dec_enc : forall r, dec (enc r) = Some r.

  Lemma merge_lines_all : forall objs rs,
    map dec objs = map (@Some R) rs -> merge_lines R enc dec objs = (map enc rs, true).
  Proof.
    induction objs as [|o objs IH]; intros [|r rs] H; cbn [map] in H; try discriminate.
    - reflexivity.
    - injection H as Ho Hrest. cbn [merge_lines map]. rewrite Ho, (IH rs Hrest). reflexivity.
  Qed.

  Lemma decode_all_enc rs : decode_all R dec (map enc rs) = Some rs.
  Proof.
    induction rs as [|r rs IH]; [reflexivity|]. cbn [map decode_all]. rewrite dec_enc, IH. reflexivity.
  Qed.

  Lemma enc_lines_ok rs :
    Forall (fun l => ~ In nl l) (map enc rs) /\ Forall (fun l : bytes => l <> []) (map enc rs).
  Proof. split; apply Forall_forall; intros l Hl; apply in_map_iff in Hl as [r [<- _]]; auto. Qed.

  Lemma merge_one_line_per_object objs rs :
    map dec objs = map (@Some R) rs ->
    exists file,
      merge R enc dec objs = (file, length objs, true) /\
      unframe file = map enc rs /\
      length (unframe file) = length objs /\
      Forall2 (fun o l => dec l = dec o /\ dec o <> None) objs (unframe file).
  Proof.
    intro H. exists (frame (map enc rs)).
    assert (Hlen : length rs = length objs).
    { rewrite <- (map_length (@Some R) rs), <- H, map_length. reflexivity. }
    destruct (enc_lines_ok rs) as [N1 N2].
    unfold merge. rewrite (merge_lines_all _ _ H), map_length, Hlen.
    rewrite (unframe_frame _ N1 N2), map_length.
    split; [reflexivity|]. split; [reflexivity|]. split; [exact Hlen|].
    clear N1 N2 Hlen. revert rs H.
    induction objs as [|o objs IH]; intros [|r rs] H; cbn [map] in H; try discriminate.
    - constructor.
    - injection H as Ho Hrest. cbn [map]. constructor.
      + rewrite dec_enc, Ho. split; [reflexivity | discriminate].
      + apply IH. exact Hrest.
  Qed.

  Lemma read_all objs rs :
    map dec objs = map (@Some R) rs ->
    read_merged R dec (fst (fst (merge R enc dec objs))) = Some rs.
  Proof.
    intro H. unfold merge. rewrite (merge_lines_all _ _ H). cbn [fst].
    destruct (enc_lines_ok rs) as [N1 N2].
    unfold read_merged. rewrite (unframe_frame _ N1 N2). apply decode_all_enc.
  Qed.

  Lemma merge_undecodable objs :
    Exists (fun o => dec o = None) objs -> snd (merge R enc dec objs) = false.
  Proof.
    intro H. unfold merge.
    assert (E : snd (merge_lines R enc dec objs) = false).
    { induction H as [o objs Ho | o objs _ IH]; cbn [merge_lines].
      - rewrite Ho. reflexivity.
      - destruct (dec o); [|reflexivity].
        destruct (merge_lines R enc dec objs) as [ls ok]. exact IH. }
    destruct (merge_lines R enc dec objs) as [ls ok]. exact E.
  Qed.
End MergeFacts.

(* the three premises are satisfiable (a unary codec) *)
Lemma merge_premises_satisfiable :
  exists (enc : nat -> bytes) (dec : bytes -> option nat),
    (forall r, ~ In nl (enc r)) /\ (forall r, enc r <> []) /\ (forall r, dec (enc r) = Some r).
Proof.
  exists (fun n => repeat 65%N (S n)), (fun b => Some (pred (length b))).
  split; [|split].
  - intros r H. apply repeat_spec in H. discriminate.
  - intros r. cbn [repeat]. discriminate.
  - intros r. rewrite repeat_length. reflexivity.
Qed.

(* ------------------------------------------------------------------ *)
(* C. finite sets and maps used by partition *)

Lemma mem_b_In x l : mem_b x l = true <-> In x l.
Proof.
  unfold mem_b. rewrite existsb_exists. split.
  - intros [y [Hy E]]. apply beq_eq in E. subst. exact Hy.
  - intros H. exists x. split; [exact H | apply beq_refl].
Qed.

Lemma mem_z_In x l : mem_z x l = true <-> In x l.
Proof.
  unfold mem_z. rewrite existsb_exists. split.
  - intros [y [Hy E]]. apply Z.eqb_eq in E. subst. exact Hy.
  - intros H. exists x. split; [exact H | apply Z.eqb_refl].
Qed.

Lemma NoDup_snoc {A} (x : A) s : NoDup s -> ~ In x s -> NoDup (s ++ [x]).
Proof.
  intros H1 H2. apply (Permutation_NoDup (l := x :: s)).
  - apply Permutation_cons_append.
  - constructor; assumption.
Qed.

Lemma set_add_spec x s :
  NoDup s -> NoDup (set_add x s) /\ forall y, In y (set_add x s) <-> In y s \/ y = x.
Proof.
  intro H. unfold set_add. destruct (mem_z x s) eqn:E.
  - apply mem_z_In in E. split; [exact H|]. intro y. split; [auto | intros [?| ->]; auto].
  - split.
    + apply NoDup_snoc; [exact H|]. intro Hin. apply mem_z_In in Hin. congruence.
    + intro y. rewrite in_app_iff. cbn [In]. split; [intros [?|[<-|[]]]; auto | intros [?| ->]; auto].
Qed.

Lemma set_union_spec ids : forall s,
  NoDup s -> NoDup (set_union s ids) /\ forall y, In y (set_union s ids) <-> In y s \/ In y ids.
Proof.
  unfold set_union. induction ids as [|x ids IH]; intros s H; cbn [fold_left].
  - split; [exact H|]. intro y. split; [auto | intros [?|[]]; auto].
  - destruct (set_add_spec x s H) as [H1 H2]. destruct (IH _ H1) as [H3 H4].
    split; [exact H3|]. intro y. rewrite H4, H2. cbn [In]. split.
    + intros [[?| ->]|?]; auto.
    + intros [?|[<-|?]]; auto.
Qed.

Lemma m_get_union key ids m k :
  m_get (m_union key ids m) k =
  if beq k key then Some (set_union (match m_get m key with Some s => s | None => [] end) ids)
  else m_get m k.
Proof.
  induction m as [|[k' s] m IH]; cbn [m_union m_get].
  - reflexivity.
  - bcase key k'.
    + subst k'. cbn [m_get]. try rewrite beq_refl. destruct (beq k key); reflexivity.
    + cbn [m_get]. rewrite IH. bcase k k'.
      * subst k'. assert (Hn : beq k key = false) by (apply beq_neq; congruence). rewrite Hn. reflexivity.
      * reflexivity.
Qed.

Lemma m_union_keys key ids m : forall k,
  In k (map fst (m_union key ids m)) <-> k = key \/ In k (map fst m).
Proof.
  induction m as [|[k' s] m IH]; intro k; cbn [m_union map fst In].
  - split; [intros [<-|[]]; auto | intros [->|[]]; auto].
  - bcase key k'.
    + subst k'. cbn [map fst In]. split; [intros [<-|?]; auto | intros [->|[<-|?]]; auto].
    + cbn [map fst In]. rewrite IH. split; [intros [?|[?|?]]; auto | intros [?|[?|?]]; auto].
Qed.

Lemma m_union_nodup key ids m : NoDup (map fst m) -> NoDup (map fst (m_union key ids m)).
Proof.
  induction m as [|[k' s] m IH]; intro H; cbn [m_union map fst].
  - constructor; [intros [] | constructor].
  - inversion H as [|? ? Hn Hm]; subst. bcase key k'.
    + subst k'. cbn [map fst]. constructor; assumption.
    + cbn [map fst]. constructor; [|apply IH; exact Hm].
      intro Hin. apply m_union_keys in Hin as [->|Hin]; [congruence | contradiction].
Qed.

Lemma m_get_none m k : m_get m k = None <-> ~ In k (map fst m).
Proof.
  induction m as [|[k' s] m IH]; cbn [m_get map fst In].
  - split; [intros _ [] | reflexivity].
  - bcase k k'.
    + subst k'. split; [discriminate | intro H; exfalso; apply H; left; reflexivity].
    + rewrite IH. split; [intros H [?|?]; [congruence | contradiction] | intros H ?; apply H; right; assumption].
Qed.

Lemma m_get_in m : NoDup (map fst m) -> forall k s, In (k, s) m <-> m_get m k = Some s.
Proof.
  induction m as [|[k' s'] m IH]; intros H k s; cbn [m_get In].
  - split; [intros [] | discriminate].
  - inversion H as [|? ? Hn Hm]; subst. cbn [fst] in Hn. bcase k k'.
    + subst k'. split.
      * intros [E'|Hin]; [injection E' as ->; reflexivity|].
        exfalso. apply Hn. apply in_map_iff. exists (k, s). split; [reflexivity | exact Hin].
      * intro E'. injection E' as ->. left. reflexivity.
    + rewrite <- (IH Hm). split; [intros [E'|?]; [injection E' as -> ->; congruence | assumption] | auto].
Qed.

(* ------------------------------------------------------------------ *)
(* D. the partition loop invariant *)

Definition sort_contract (srt : (bytes -> bytes -> bool) -> list datum -> list datum) : Prop :=
  forall lt l,
    Permutation (srt lt l) l /\
    (forall D : bytes -> Prop, lt_asym bytes lt D -> lt_trans bytes lt D -> lt_total bytes lt D ->
       Forall (fun x => D (d_key x)) l -> NoDup (map d_key l) -> wsorted d_key lt (srt lt l)).

(* all the theorems need of the iteration orders and of sort.Slice *)
Definition iter_ok (it : iter) : Prop :=
  (forall l, Permutation (ord_weeks it l) l) /\
  (forall l, Permutation (ord_ids it l) l) /\
  (forall m, Permutation (ord_merged it m) m) /\
  sort_contract (go_sort it).

Lemma iter_id_ok : iter_ok iter_id.
Proof.
  unfold iter_ok, iter_id; cbn. repeat split; try reflexivity.
  - apply isort_perm.
  - intros D Ha Ht _ HD _. apply (isort_wsorted _ _ d_key lt D Ha Ht). exact HD.
Qed.

Definition fold_end (ws : list bytes) (e0 : bytes) : bytes :=
  fold_left (fun e wk => if bleb e wk then wk else e) ws e0.

Lemma fold_end_spec ws : forall e0,
  (fold_end ws e0 = e0 \/ In (fold_end ws e0) ws) /\ bleb e0 (fold_end ws e0) = true /\
  forall w, In w ws -> bleb w (fold_end ws e0) = true.
Proof.
  unfold fold_end. induction ws as [|w ws IH]; intro e0; cbn [fold_left].
  - split; [left; reflexivity|]. split; [apply bleb_refl | intros ? []].
  - destruct (bleb e0 w) eqn:E.
    + destruct (IH w) as [H1 [H2 H3]]. split; [|split].
      * destruct H1 as [->|H1]; [right; left; reflexivity | right; right; exact H1].
      * eapply bleb_trans; eauto.
      * intros w' [<-|Hw']; [exact H2 | apply H3; exact Hw'].
    + destruct (IH e0) as [H1 [H2 H3]]. split; [|split].
      * destruct H1 as [H1|H1]; [left; exact H1 | right; right; exact H1].
      * exact H2.
      * intros w' [<-|Hw']; [|apply H3; exact Hw'].
        eapply bleb_trans; [apply bleb_false_lt; exact E | exact H2].
Qed.

Section PartInv.
  Variable it : iter.
  Hypothesis it_ids : forall l, Permutation (ord_ids it l) l.
  Variable d : list entry.
  Variables pk ch : bytes.
  Variable norm : bytes -> option bytes.

  Definition J (V : bytes -> bytes -> Prop) (m : merged_t) (e : bool) : Prop :=
    NoDup (map fst m) /\
    (forall k s, m_get m k = Some s ->
       NoDup s /\ forall x, In x s <-> exists w b, V w b /\ norm b = Some k /\ In x (cell d w pk ch b)) /\
    (forall k, m_get m k <> None <-> exists w b, V w b /\ norm b = Some k) /\
    (e = true -> forall w b, V w b -> cell d w pk ch b = []) /\
    (e = false -> exists w b x, V w b /\ In x (cell d w pk ch b)).

  Lemma J_init : J (fun _ _ => False) [] true.
  Proof.
    unfold J. split; [constructor|]. split; [intros k s H; discriminate|]. split.
    - intro k. split; [intro H; exfalso; apply H; reflexivity | intros [w [b [[] _]]]].
    - split; [intros _ w b [] | discriminate].
  Qed.

  Lemma J_ext V V' m e : (forall w b, V w b <-> V' w b) -> J V m e -> J V' m e.
  Proof.
    intros HV [J1 [J2 [J3 [J4 J5]]]]. split; [exact J1|]. split; [|split; [|split]].
    - intros k s Hk. destruct (J2 k s Hk) as [Hn Hx]. split; [exact Hn|].
      intro x. rewrite Hx. split; intros [w [b [Hv Hr]]]; exists w, b; (split; [apply HV; exact Hv | exact Hr]).
    - intro k. rewrite J3. split; intros [w [b [Hv Hr]]]; exists w, b; (split; [apply HV; exact Hv | exact Hr]).
    - intros He w b Hv. apply (J4 He). apply HV. exact Hv.
    - intros He. destruct (J5 He) as [w [b [x [Hv Hx]]]]. exists w, b, x. split; [apply HV; exact Hv | exact Hx].
  Qed.

  Lemma is_nil_true {A} (l : list A) : is_nil l = true <-> l = [].
  Proof. destruct l; cbn; split; congruence. Qed.

  Lemma J_step V m e wk b key :
    J V m e -> norm b = Some key ->
    J (fun w b' => V w b' \/ (w = wk /\ b' = b))
      (m_union key (ord_ids it (cell d wk pk ch b)) m)
      (e && is_nil (ord_ids it (cell d wk pk ch b))).
  Proof.
    intros [J1 [J2 [J3 [J4 J5]]]] Hkey.
    assert (Hids : forall x, In x (ord_ids it (cell d wk pk ch b)) <-> In x (cell d wk pk ch b)).
    { intro x. split; apply Permutation_in; [apply it_ids | symmetry; apply it_ids]. }
    remember (ord_ids it (cell d wk pk ch b)) as ids eqn:Eids. clear Eids.
    assert (Hold : forall s0, match m_get m key with Some s => s | None => [] end = s0 ->
              NoDup s0 /\ forall x, In x s0 <-> exists w b', V w b' /\ norm b' = Some key /\ In x (cell d w pk ch b')).
    { intros s0 <-. destruct (m_get m key) as [s|] eqn:G.
      - apply (J2 _ _ G).
      - split; [constructor|]. intro x. split; [intros []|].
        intros [w [b' [Hv [Hn _]]]]. exfalso.
        assert (Hne : m_get m key <> None) by (apply J3; exists w, b'; auto). congruence. }
    split; [apply m_union_nodup; exact J1|]. split; [|split; [|split]].
    - intros k s. rewrite m_get_union. bcase k key.
      + subst k. intro Hs. injection Hs as <-.
        destruct (Hold _ eq_refl) as [Hn0 Hx0].
        destruct (set_union_spec ids _ Hn0) as [Hn1 Hx1]. split; [exact Hn1|].
        intro x. rewrite Hx1, Hx0, Hids. split.
        * intros [[w [b' [Hv Hr]]] | Hc].
          -- exists w, b'. split; [left; exact Hv | exact Hr].
          -- exists wk, b. split; [right; split; reflexivity | split; assumption].
        * intros [w [b' [[Hv | [-> ->]] [Hn Hc]]]].
          -- left. exists w, b'. auto.
          -- right. exact Hc.
      + intro Hs. destruct (J2 _ _ Hs) as [Hn Hx]. split; [exact Hn|].
        intro x. rewrite Hx. split.
        * intros [w [b' [Hv Hr]]]. exists w, b'. split; [left; exact Hv | exact Hr].
        * intros [w [b' [[Hv | [-> ->]] [Hn' Hc]]]].
          -- exists w, b'. auto.
          -- congruence.
    - intro k. rewrite m_get_union. bcase k key.
      + subst k. split; [|discriminate]. intros _. exists wk, b. split; [right; split; reflexivity | exact Hkey].
      + rewrite J3. split.
        * intros [w [b' [Hv Hr]]]. exists w, b'. split; [left; exact Hv | exact Hr].
        * intros [w [b' [[Hv | [-> ->]] Hn']]]; [exists w, b'; auto | congruence].
    - rewrite andb_true_iff, is_nil_true. intros [H1 H2] w b' [Hv | [-> ->]]; [apply (J4 H1); exact Hv|].
      destruct (cell d wk pk ch b) as [|x c] eqn:Ec; [reflexivity|].
      exfalso. assert (Hin : In x ids) by (apply Hids; left; reflexivity).
      rewrite H2 in Hin. exact Hin.
    - rewrite andb_false_iff. intros [He | Hn].
      + destruct (J5 He) as [w [b' [x [Hv Hx]]]]. exists w, b', x. split; [left; exact Hv | exact Hx].
      + destruct ids as [|x ids']; [discriminate|].
        exists wk, b, x. split; [right; split; reflexivity | apply Hids; left; reflexivity].
  Qed.

  Lemma bucket_loop_J wk : forall buckets seen V m e,
    J V m e -> (forall b, In b seen -> V wk b) -> (forall b, In b buckets -> norm b <> None) ->
    exists m' e', bucket_loop it d pk ch norm wk buckets seen m e = Some (m', e') /\
                  J (fun w b => V w b \/ (w = wk /\ In b buckets)) m' e'.
  Proof.
    induction buckets as [|b bs IH]; intros seen V m e HJ Hseen Hnorm; cbn [bucket_loop].
    - exists m, e. split; [reflexivity|]. eapply J_ext; [|exact HJ].
      intros w b. split; [auto | intros [?|[_ []]]; assumption].
    - destruct (mem_b b seen) eqn:Es.
      + apply mem_b_In in Es.
        destruct (IH seen V m e HJ Hseen (fun b' Hb' => Hnorm b' (or_intror Hb'))) as [m' [e' [Hr HJ']]].
        exists m', e'. split; [exact Hr|]. eapply J_ext; [|exact HJ'].
        intros w b'. cbn [In]. split.
        * intros [?|[-> ?]]; auto.
        * intros [?|[-> [<-|?]]]; auto.
      + destruct (norm b) as [key|] eqn:Ek; [|exfalso; apply (Hnorm b); [left; reflexivity | exact Ek]].
        pose proof (J_step V m e wk b key HJ Ek) as HJ1.
        destruct (IH (b :: seen) _ _ _ HJ1) as [m' [e' [Hr HJ']]].
        * intros b' [<-|Hb']; [right; split; reflexivity | left; apply Hseen; exact Hb'].
        * intros b' Hb'. apply Hnorm. right. exact Hb'.
        * exists m', e'. split; [exact Hr|]. eapply J_ext; [|exact HJ'].
          intros w b'. cbn [In]. split.
          -- intros [[?|[-> ->]]|[-> ?]]; auto.
          -- intros [?|[-> [<-|?]]]; auto.
  Qed.

  Lemma week_loop_J buckets : (forall b, In b buckets -> norm b <> None) ->
    forall ws V m e en,
    J V m e ->
    exists m' e', week_loop it d pk ch norm buckets ws m e en = Some (m', e', fold_end ws en) /\
                  J (fun w b => V w b \/ (In w ws /\ In b buckets)) m' e'.
  Proof.
    intro Hnorm. induction ws as [|wk ws IH]; intros V m e en HJ; cbn [week_loop].
    - exists m, e. split; [reflexivity|]. eapply J_ext; [|exact HJ].
      intros w b. split; [auto | intros [?|[[] _]]; assumption].
    - destruct (bucket_loop_J wk buckets [] V m e HJ (fun b Hb => match Hb with end) Hnorm) as [m1 [e1 [Hr1 HJ1]]].
      rewrite Hr1.
      destruct (IH _ m1 e1 (if bleb en wk then wk else en) HJ1) as [m' [e' [Hr HJ']]].
      exists m', e'. split; [exact Hr|]. eapply J_ext; [|exact HJ'].
      intros w b. cbn [In]. split.
      + intros [[?|[-> ?]]|[? ?]]; auto.
      + intros [?|[[<-|?] ?]]; auto.
  Qed.
End PartInv.
