(* Proofs/WorkerSpec: the set-based specification of a partition chart, the
   proof that the model's partition (any iteration orders, any sort.Slice)
   meets it, and that the specification determines the chart. *)
From Coq Require Import List NArith ZArith Bool Permutation Sorted Lia.
From Tele Require Import Lib.Bytes Lib.Sort Gen.Consts Model.Worker Proofs.WorkerFacts.
Import ListNotations.

(* ------------------------------------------------------------------ *)
(* the specification (no loops, no maps, no orders: membership only) *)

(* report id x counts for `key` in the chart of request q for program pk *)
Definition counted (rs : list report) (pk : bytes) (q : preq) (key : bytes) (x : Z) : Prop :=
  exists r p b, In r rs /\ In p (r_progs r) /\ pr_prog p = pk /\ In b (q_buckets q) /\
                q_norm q b = Some key /\ In (q_chart q, b) (prog_cells p) /\ r_x r = x.

(* n = number of distinct such ids *)
Definition count_is (rs : list report) (pk : bytes) (q : preq) (key : bytes) (n : Z) : Prop :=
  exists ids, NoDup ids /\ (forall x, In x ids <-> counted rs pk q key x) /\ n = Z.of_nat (length ids).

Definition week_set (rs : list report) (w : bytes) : Prop :=
  exists r, In r rs /\ r_progs r <> [] /\ r_week r = w.

Definition is_max_week (rs : list report) (w : bytes) : Prop :=
  (w = [] \/ week_set rs w) /\ forall w', week_set rs w' -> bleb w' w = true.

Definition key_of (q : preq) (key : bytes) : Prop :=
  exists b, In b (q_buckets q) /\ q_norm q b = Some key.

Definition partition_spec (rs : list report) (pk : bytes) (q : preq) (oc : option chart) : Prop :=
  match oc with
  | None => forall key x, ~ counted rs pk q key x
  | Some c =>
      (exists key x, counted rs pk q key x) /\
      c_id c = charts_prefix ++ pk ++ colon_b ++ q_chart q /\ c_name c = q_chart q /\ c_type c = partition_type /\
      NoDup (map d_key (c_data c)) /\
      wsorted d_key (q_lt q) (c_data c) /\
      (forall wk key v, In (wk, key, v) (c_data c) ->
         is_max_week rs wk /\ key_of q key /\ count_is rs pk q key v /\ ((0 < v)%Z \/ q_ignore q = false)) /\
      (forall key n, key_of q key -> count_is rs pk q key n -> ((0 < n)%Z \/ q_ignore q = false) ->
         In key (map d_key (c_data c)))
  end.

Definition order_ok (lt : bytes -> bytes -> bool) (D : bytes -> Prop) : Prop :=
  lt_asym bytes lt D /\ lt_trans bytes lt D /\ lt_total bytes lt D.

(* what a request needs: its normaliser does not panic on its buckets, and
   its less is a strict total order on the keys it can produce *)
Definition req_ok (q : preq) : Prop :=
  (forall b, In b (q_buckets q) -> q_norm q b <> None) /\
  exists D, order_ok (q_lt q) D /\ forall key, key_of q key -> D key.

(* ------------------------------------------------------------------ *)
(* bridging: entries of group <-> reports *)

Lemma In_group rs e :
  In e (group rs) <->
  exists r p cb, In r rs /\ In p (r_progs r) /\ In cb (prog_cells p) /\
                 e = mkE (r_week r) (pr_prog p) (fst cb) (snd cb) (r_x r).
Proof.
  unfold group, report_entries. rewrite in_flat_map. split.
  - intros [r [Hr He]]. apply in_flat_map in He as [p [Hp He]]. apply in_map_iff in He as [cb [<- Hcb]].
    exists r, p, cb. auto.
  - intros [r [p [cb [Hr [Hp [Hcb ->]]]]]]. exists r. split; [exact Hr|].
    apply in_flat_map. exists p. split; [exact Hp|]. apply in_map_iff. exists cb. auto.
Qed.

Lemma e_match_spec wk pk ch b e :
  e_match wk pk ch b e = true <-> e_week e = wk /\ e_prog e = pk /\ e_chart e = ch /\ e_bucket e = b.
Proof.
  unfold e_match. rewrite !andb_true_iff, !beq_eq. intuition congruence.
Qed.

Lemma cell_in d wk pk ch b x :
  In x (cell d wk pk ch b) <->
  exists e, In e d /\ e_week e = wk /\ e_prog e = pk /\ e_chart e = ch /\ e_bucket e = b /\ e_id e = x.
Proof.
  unfold cell. rewrite nodup_In, in_map_iff. split.
  - intros [e [<- He]]. apply filter_In in He as [He Hm]. apply e_match_spec in Hm.
    exists e. intuition.
  - intros [e [He [H1 [H2 [H3 [H4 H5]]]]]]. exists e. split; [exact H5|].
    apply filter_In. split; [exact He|]. apply e_match_spec. auto.
Qed.

Lemma weeks_in d w : In w (weeks d) <-> exists e, In e d /\ e_week e = w.
Proof.
  unfold weeks. rewrite nodup_In, in_map_iff. split; intros [e [H1 H2]]; exists e; auto.
Qed.

Lemma prog_cells_nonempty p : exists cb, In cb (prog_cells p).
Proof. unfold prog_cells. eexists. left. reflexivity. Qed.

Lemma weeks_group rs w : In w (weeks (group rs)) <-> week_set rs w.
Proof.
  rewrite weeks_in. unfold week_set. split.
  - intros [e [He <-]]. apply In_group in He as [r [p [cb [Hr [Hp [_ ->]]]]]].
    exists r. split; [exact Hr|]. split; [|reflexivity]. intro E. rewrite E in Hp. exact Hp.
  - intros [r [Hr [Hne <-]]]. destruct (r_progs r) as [|p ps] eqn:Ep; [contradiction|].
    destruct (prog_cells_nonempty p) as [cb Hcb].
    exists (mkE (r_week r) (pr_prog p) (fst cb) (snd cb) (r_x r)). split; [|reflexivity].
    apply In_group. exists r, p, cb. rewrite Ep. cbn [In]. auto.
Qed.

Lemma counted_iff it rs pk q (Hw : forall l, Permutation (ord_weeks it l) l) key x :
  (exists w b, (In w (ord_weeks it (weeks (group rs))) /\ In b (q_buckets q)) /\ q_norm q b = Some key /\
               In x (cell (group rs) w pk (q_chart q) b))
  <-> counted rs pk q key x.
Proof.
  unfold counted. split.
  - intros [w [b [[_ Hb] [Hn Hc]]]]. apply cell_in in Hc as [e [He [E1 [E2 [E3 [E4 E5]]]]]].
    apply In_group in He as [r [p [cb [Hr [Hp [Hcb ->]]]]]]. cbn in E1, E2, E3, E4, E5.
    exists r, p, b. repeat split; auto.
    destruct cb as [c0 b0]. cbn in E3, E4. subst. exact Hcb.
  - intros [r [p [b [Hr [Hp [Hpk [Hb [Hn [Hcb Hx]]]]]]]]].
    exists (r_week r), b. split; [split; [|exact Hb]|split; [exact Hn|]].
    + apply (Permutation_in _ (Permutation_sym (Hw _))). apply weeks_group.
      exists r. split; [exact Hr|]. split; [|reflexivity]. intro E. rewrite E in Hp. exact Hp.
    + apply cell_in. exists (mkE (r_week r) (pr_prog p) (q_chart q) b (r_x r)). cbn.
      split; [|auto]. apply In_group. exists r, p, (q_chart q, b). auto.
Qed.

(* ------------------------------------------------------------------ *)
(* small list facts *)

Lemma NoDup_map_filter {A B} (f : A -> B) (p : A -> bool) l :
  NoDup (map f l) -> NoDup (map f (filter p l)).
Proof.
  induction l as [|a l IH]; intro H; cbn [filter map]; [constructor|].
  inversion H as [|? ? Hn Hl]; subst. destruct (p a); [|apply IH; exact Hl].
  cbn [map]. constructor; [|apply IH; exact Hl].
  intro Hin. apply Hn. apply in_map_iff in Hin as [a' [E Ha']]. apply filter_In in Ha' as [Ha' _].
  rewrite <- E. apply in_map. exact Ha'.
Qed.

Lemma count_is_fun rs pk q key n1 n2 :
  count_is rs pk q key n1 -> count_is rs pk q key n2 -> n1 = n2.
Proof.
  intros [l1 [N1 [H1 ->]]] [l2 [N2 [H2 ->]]]. f_equal. apply Permutation_length.
  apply NoDup_Permutation; auto. intro x. rewrite H1, H2. reflexivity.
Qed.

Lemma bleb_nil w : bleb [] w = true.
Proof. destruct w; reflexivity. Qed.

Lemma is_max_week_fun rs w1 w2 : is_max_week rs w1 -> is_max_week rs w2 -> w1 = w2.
Proof.
  intros [A1 B1] [A2 B2]. apply bleb_antisym.
  - destruct A1 as [->|A1]; [apply bleb_nil | apply B2; exact A1].
  - destruct A2 as [->|A2]; [apply bleb_nil | apply B1; exact A2].
Qed.

Lemma max_week_of_fold it rs (Hw : forall l, Permutation (ord_weeks it l) l) :
  is_max_week rs (fold_end (ord_weeks it (weeks (group rs))) []).
Proof.
  destruct (fold_end_spec (ord_weeks it (weeks (group rs))) []) as [H1 [_ H3]]. split.
  - destruct H1 as [->|H1]; [left; reflexivity | right].
    apply weeks_group. apply (Permutation_in _ (Hw _)). exact H1.
  - intros w' Hw'. apply H3. apply (Permutation_in _ (Permutation_sym (Hw _))). apply weeks_group. exact Hw'.
Qed.

(* ------------------------------------------------------------------ *)
(* the model's partition meets the specification *)

Theorem partition_meets_spec it rs pk q :
  iter_ok it -> req_ok q ->
  exists oc, run_req it (group rs) pk q = Some oc /\ partition_spec rs pk q oc.
Proof.
  intros [Hw [Hi [Hm Hsort]]] [Hnorm [D [[Dasym [Dtrans Dtotal]] HD]]].
  unfold run_req, partition.
  set (d := group rs). set (ws := ord_weeks it (weeks d)).
  destruct (week_loop_J it Hi d pk (q_chart q) (q_norm q) (q_buckets q) Hnorm ws _ [] true []
              (J_init d pk (q_chart q) (q_norm q))) as [m [e [Hr HJ0]]].
  rewrite Hr.
  assert (HJ : J d pk (q_chart q) (q_norm q) (fun w b => In w ws /\ In b (q_buckets q)) m e).
  { eapply J_ext; [|exact HJ0]. intros w b. split; [intros [[]|H]; exact H | auto]. }
  clear HJ0 Hr. destruct HJ as [J1 [J2 [J3 [J4 J5]]]].
  assert (K : forall key x,
             (exists w b, (In w ws /\ In b (q_buckets q)) /\ q_norm q b = Some key /\ In x (cell d w pk (q_chart q) b))
             <-> counted rs pk q key x) by (intros; apply counted_iff; exact Hw).
  destruct e.
  - (* nothing found: nil chart *)
    exists None. split; [reflexivity|]. cbn [partition_spec]. intros key x Hc.
    apply K in Hc as [w [b [Hv [_ Hx]]]]. rewrite (J4 eq_refl w b Hv) in Hx. exact Hx.
  - set (data := map (fun ks : bytes * list Z => (fold_end ws [], fst ks, Z.of_nat (length (snd ks))))
                     (filter (keep_datum (q_ignore q)) (ord_merged it m))).
    exists (Some (mkChart (charts_prefix ++ pk ++ colon_b ++ q_chart q) (q_chart q) partition_type
                          (go_sort it (q_lt q) data))).
    split; [reflexivity|].
    destruct (Hsort (q_lt q) data) as [Sperm Ssorted].
    (* facts about m *)
    assert (Fin : forall k s, In (k, s) (ord_merged it m) <-> m_get m k = Some s).
    { intros k s. rewrite <- (m_get_in m J1). split; apply Permutation_in; [apply Hm | symmetry; apply Hm]. }
    assert (Fkeys : map d_key data = map fst (filter (keep_datum (q_ignore q)) (ord_merged it m))).
    { unfold data. rewrite map_map. apply map_ext. intros [k s]. reflexivity. }
    assert (Fnd : NoDup (map d_key data)).
    { rewrite Fkeys. apply NoDup_map_filter.
      apply (Permutation_NoDup (l := map fst m)); [apply Permutation_map; symmetry; apply Hm | exact J1]. }
    assert (Fdata : forall wk key v, In (wk, key, v) data <->
              exists s, m_get m key = Some s /\ keep_datum (q_ignore q) (key, s) = true /\
                        wk = fold_end ws [] /\ v = Z.of_nat (length s)).
    { intros wk key v. unfold data. rewrite in_map_iff. split.
      - intros [[k s] [E Hin]]. cbn [fst snd] in E. injection E as <- <- <-.
        apply filter_In in Hin as [Hin Hk]. exists s. rewrite <- Fin. auto.
      - intros [s [G [Hk [-> ->]]]]. exists (key, s). split; [reflexivity|].
        apply filter_In. split; [apply Fin; exact G | exact Hk]. }
    assert (Fkey_of : forall k, m_get m k <> None <-> key_of q k).
    { intro k. rewrite J3. unfold key_of. split.
      - intros [w [b [[_ Hb] Hn]]]. exists b. auto.
      - intros [b [Hb Hn]]. destruct (J5 eq_refl) as [w [_ [_ [[Hwin _] _]]]]. exists w, b. auto. }
    assert (Fcount : forall k s, m_get m k = Some s -> count_is rs pk q k (Z.of_nat (length s))).
    { intros k s G. destruct (J2 k s G) as [Hn Hx]. exists s. split; [exact Hn|]. split; [|reflexivity].
      intro x. rewrite Hx. apply K. }
    assert (FD : Forall (fun x => D (d_key x)) data).
    { apply Forall_forall. intros [[wk key] v] Hin. apply Fdata in Hin as [s [G _]]. cbn.
      apply HD. apply Fkey_of. congruence. }
    cbn [partition_spec c_id c_name c_type c_data].
    split; [|split; [reflexivity|split; [reflexivity|split; [reflexivity|split; [|split; [|split]]]]]].
    + destruct (J5 eq_refl) as [w [b [x [Hv Hx]]]].
      destruct (q_norm q b) as [key|] eqn:En; [|exfalso; apply (Hnorm b); [apply Hv | exact En]].
      exists key, x. apply K. exists w, b. auto.
    + apply (Permutation_NoDup (l := map d_key data)); [apply Permutation_map; symmetry; exact Sperm | exact Fnd].
    + apply (Ssorted D); auto.
    + intros wk key v Hin. apply (Permutation_in _ Sperm) in Hin. apply Fdata in Hin as [s [G [Hk [-> ->]]]].
      split; [apply max_week_of_fold; exact Hw|]. split; [apply Fkey_of; congruence|].
      split; [apply Fcount; exact G|].
      unfold keep_datum in Hk. cbn [snd] in Hk. apply orb_true_iff in Hk as [Hk|Hk].
      * left. destruct s; [discriminate|]. cbn [length]. lia.
      * right. destruct (q_ignore q); [discriminate | reflexivity].
    + intros key n Hko Hc Hpos. apply Fkey_of in Hko.
      destruct (m_get m key) as [s|] eqn:G; [|congruence].
      pose proof (count_is_fun _ _ _ _ _ _ Hc (Fcount _ _ G)) as ->.
      apply (Permutation_in (l := map d_key data)); [apply Permutation_map; symmetry; exact Sperm|].
      apply in_map_iff. exists (fold_end ws [], key, Z.of_nat (length s)). split; [reflexivity|].
      apply Fdata. exists s. split; [exact G|]. split; [|auto].
      unfold keep_datum. cbn [snd]. apply orb_true_iff. destruct Hpos as [Hpos | ->]; [left | right; reflexivity].
      destruct s; [cbn in Hpos; lia | reflexivity].
Qed.

(* ------------------------------------------------------------------ *)
(* the specification determines the chart *)

Theorem partition_spec_unique rs pk q oc1 oc2 :
  (exists D, order_ok (q_lt q) D /\ forall key, key_of q key -> D key) ->
  partition_spec rs pk q oc1 -> partition_spec rs pk q oc2 -> oc1 = oc2.
Proof.
  intros [D [[_ [_ Dtotal]] HD]] S1 S2.
  destruct oc1 as [c1|], oc2 as [c2|]; cbn [partition_spec] in S1, S2.
  - destruct S1 as [_ [I1 [N1 [T1 [ND1 [W1 [A1 B1]]]]]]]. destruct S2 as [_ [I2 [N2 [T2 [ND2 [W2 [A2 B2]]]]]]].
    assert (Hsub : forall c c' : chart,
               (forall wk key v, In (wk, key, v) (c_data c) ->
                  is_max_week rs wk /\ key_of q key /\ count_is rs pk q key v /\ ((0 < v)%Z \/ q_ignore q = false)) ->
               (forall wk key v, In (wk, key, v) (c_data c') ->
                  is_max_week rs wk /\ key_of q key /\ count_is rs pk q key v /\ ((0 < v)%Z \/ q_ignore q = false)) ->
               (forall key n, key_of q key -> count_is rs pk q key n -> ((0 < n)%Z \/ q_ignore q = false) ->
                  In key (map d_key (c_data c'))) ->
               forall x, In x (c_data c) -> In x (c_data c')).
    { intros c c' A A' B' [[wk key] v] Hin. destruct (A _ _ _ Hin) as [Hmw [Hko [Hc Hpos]]].
      pose proof (B' key v Hko Hc Hpos) as Hk. apply in_map_iff in Hk as [[[wk' key'] v'] [Ek Hin']].
      cbn in Ek. subst key'. destruct (A' _ _ _ Hin') as [Hmw' [_ [Hc' _]]].
      rewrite (is_max_week_fun _ _ _ Hmw Hmw'), (count_is_fun _ _ _ _ _ _ Hc Hc'). exact Hin'. }
    assert (Hperm : Permutation (c_data c1) (c_data c2)).
    { apply NoDup_Permutation.
      - apply (NoDup_map_inv d_key). exact ND1.
      - apply (NoDup_map_inv d_key). exact ND2.
      - intro x. split; [apply (Hsub c1 c2) | apply (Hsub c2 c1)]; auto. }
    assert (Hdata : c_data c1 = c_data c2).
    { apply (wsorted_unique _ _ d_key (q_lt q) D Dtotal); auto.
      apply Forall_forall. intros [[wk key] v] Hin. cbn. apply HD. apply (A1 _ _ _ Hin). }
    destruct c1, c2. cbn in *. congruence.
  - exfalso. destruct S1 as [[key [x Hc]] _]. exact (S2 key x Hc).
  - exfalso. destruct S2 as [[key [x Hc]] _]. exact (S1 key x Hc).
  - reflexivity.
Qed.

(* the specification depends on the set of reports only *)
Lemma counted_ext rs rs' pk q key x :
  (forall r, In r rs <-> In r rs') -> counted rs pk q key x -> counted rs' pk q key x.
Proof.
  intros H [r [p [b [Hr Hrest]]]]. exists r, p, b. split; [apply H; exact Hr | exact Hrest].
Qed.

Lemma count_is_ext rs rs' pk q key n :
  (forall r, In r rs <-> In r rs') -> count_is rs pk q key n -> count_is rs' pk q key n.
Proof.
  intros H [ids [N [Hx E]]]. exists ids. split; [exact N|]. split; [|exact E].
  intro x. rewrite Hx. split; apply counted_ext; [exact H | intro r; symmetry; apply H].
Qed.

Lemma week_set_ext rs rs' w : (forall r, In r rs <-> In r rs') -> week_set rs w -> week_set rs' w.
Proof. intros H [r [Hr Hrest]]. exists r. split; [apply H; exact Hr | exact Hrest]. Qed.

Lemma is_max_week_ext rs rs' w :
  (forall r, In r rs <-> In r rs') -> is_max_week rs w -> is_max_week rs' w.
Proof.
  intros H [A B]. assert (H' : forall r, In r rs' <-> In r rs) by (intro r; symmetry; apply H). split.
  - destruct A as [->|A]; [left; reflexivity | right; eapply week_set_ext; eauto].
  - intros w' Hw'. apply B. eapply week_set_ext; eauto.
Qed.

Lemma partition_spec_ext rs rs' pk q oc :
  (forall r, In r rs <-> In r rs') -> partition_spec rs pk q oc -> partition_spec rs' pk q oc.
Proof.
  intros H S. assert (H' : forall r, In r rs' <-> In r rs) by (intro r; symmetry; apply H).
  destruct oc as [c|]; cbn [partition_spec] in *.
  - destruct S as [[key [x Hc]] [I [N [T [ND [W [A B]]]]]]].
    split; [exists key, x; eapply counted_ext; eauto|]. repeat (split; [assumption|]). split.
    + intros wk k v Hin. destruct (A _ _ _ Hin) as [A1 [A2 [A3 A4]]].
      split; [eapply is_max_week_ext; eauto|]. split; [exact A2|]. split; [eapply count_is_ext; eauto | exact A4].
    + intros k n Hko Hc' Hpos. apply (B k n Hko); [eapply count_is_ext; eauto | exact Hpos].
  - intros key x Hc. apply (S key x). eapply counted_ext; eauto.
Qed.

(* one partition request: any two runs (iteration orders, sort
   implementations, order and multiplicity of the reports) give the same chart *)
Theorem run_req_deterministic it it' rs rs' pk q :
  iter_ok it -> iter_ok it' -> req_ok q -> (forall r, In r rs <-> In r rs') ->
  run_req it (group rs) pk q = run_req it' (group rs') pk q /\ run_req it (group rs) pk q <> None.
Proof.
  intros Hit Hit' Hq Hrs.
  destruct (partition_meets_spec it rs pk q Hit Hq) as [oc [R S]].
  destruct (partition_meets_spec it' rs' pk q Hit' Hq) as [oc' [R' S']].
  rewrite R, R'. split; [|discriminate]. f_equal.
  apply (partition_spec_unique rs' pk q); [exact (proj2 Hq) | eapply partition_spec_ext; eauto | exact S'].
Qed.
