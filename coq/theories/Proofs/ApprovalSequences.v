(* Proofs/ApprovalSequences: property C11 over SEQUENCES of requests to one
   upload handler and to one viewer Server: every answer depends on its own
   request only, so the server accepts the uploader's report whatever was
   posted before, and the page for a configuration version shows that
   version's verdicts whatever versions were shown before. *)
From Coq Require Import List ZArith NArith Bool Lia.
From Tele Require Import Lib.Bytes Lib.Str Lib.Assoc Lib.Calendar Model.Config Model.ApprovalSpec Model.Report
  Model.Approval Proofs.ConfigFacts Proofs.AggregateFacts Proofs.ReportFacts Proofs.ReportOracle
  Proofs.ApprovalFacts Proofs.ApprovalOracle.
Import ListNotations.
Open Scope N_scope.

Lemma nth_map_app {A B} (g : A -> B) before x after d :
  nth (length before) (map g (before ++ x :: after)) d = g x.
Proof.
  rewrite map_app, app_nth2 by (rewrite map_length; apply le_n).
  rewrite map_length, PeanoNat.Nat.sub_diag. reflexivity.
Qed.

(* the answer to a request in any sequence is the answer to that request alone *)
Theorem serve_sequence_pointwise c before r after :
  nth (length before) (serve_sequence c (before ++ r :: after)) 0 =
  server_status (server_validate c (fst r) (snd r)).
Proof.
  unfold serve_sequence.
  exact (nth_map_app (fun r => server_status (server_validate c (fst r) (snd r))) before r after 0).
Qed.

(* the server accepts every report the uploader produces, whatever was posted before or after *)
Theorem server_accepts_uploader_in_sequence gate u cfgver week lastweek x files local up before after :
  create_report gate u cfgver week lastweek x files = Some (local, Some up) ->
  parse_date week <> None -> x_is_zero x = false ->
  nth (length before) (serve_sequence (new_config u) (before ++ (true, up) :: after)) 0 = 200.
Proof.
  intros H Hw Hx. rewrite serve_sequence_pointwise. cbn [fst snd].
  rewrite (server_accepts_uploader _ _ _ _ _ _ _ _ _ H Hw Hx). reflexivity.
Qed.

(* and refuses a report with an item outside the configuration, whatever was posted before *)
Theorem server_rejects_outside_in_sequence u sem r p before after :
  In p (r_programs r) -> ~ prog_within u p ->
  nth (length before) (serve_sequence (new_config u) (before ++ (sem, r) :: after)) 0 = 400.
Proof.
  intros Hin Hn. rewrite serve_sequence_pointwise. cbn [fst snd].
  pose proof (server_rejects_outside u sem r p Hin Hn) as H.
  destruct (server_validate (new_config u) sem r); [contradiction | reflexivity..].
Qed.

(* the page for a request in any sequence is the page of that request's configuration *)
Theorem viewer_pages_pointwise st files before r after :
  nth (length before) (viewer_pages st files (before ++ r :: after)) [] =
  viewer_page (config_at st (fst r) (snd r)) files.
Proof.
  unfold viewer_pages.
  exact (nth_map_app (fun r => viewer_page (config_at st (fst r) (snd r)) files) before r after []).
Qed.

(* the summary oracle is part of the viewer oracle, hence accepts the model *)
Lemma viewer_summary_check_sub u f s meta active up0 cl :
  In cl (viewer_summary_check u f s) -> In cl (viewer_check u f s meta active up0).
Proof.
  unfold viewer_summary_check, viewer_check. cbv zeta. rewrite !in_app_iff.
  intros [H|H]; [left; exact H | right; right; right; left; exact H].
Qed.

Theorem viewer_summary_check_model u f : viewer_summary_check u f (viewer_summary (new_config u) f) = [].
Proof.
  destruct (viewer_summary_check u f (viewer_summary (new_config u) f)) as [|cl l] eqn:E; [reflexivity|]. exfalso.
  assert (Hin : In cl (viewer_summary_check u f (viewer_summary (new_config u) f))) by (rewrite E; left; reflexivity).
  apply (viewer_summary_check_sub u f _ (viewer_active_meta (new_config u) (f_ident f)) (viewer_active (new_config u) f)
           (Some (filter_upload (new_config u) 0 (aggregate [f])))) in Hin.
  rewrite (viewer_check_model u [f] f (or_introl eq_refl)) in Hin. exact Hin.
Qed.

(* every summary of every page of a sequence passes the oracle under the configuration of its own request *)
Theorem viewer_pages_oracle st files before r after f :
  In f files ->
  forall s, In s (nth (length before) (viewer_pages st files (before ++ r :: after)) []) ->
  (exists g, In g files /\ s = viewer_summary (new_config (config_at st (fst r) (snd r))) g /\
             viewer_summary_check (config_at st (fst r) (snd r)) g s = []).
Proof.
  intros _ s Hs. rewrite viewer_pages_pointwise in Hs. unfold viewer_page in Hs.
  apply in_map_iff in Hs as [g [<- Hg]]. exists g. split; [exact Hg|]. split; [reflexivity|].
  apply viewer_summary_check_model.
Qed.

(* requests handled at the same time: whatever the order in which the handler
   gets to them, every request receives the answer it would receive alone *)
From Coq Require Import Permutation.
Theorem serve_sequence_permutation c reqs reqs' :
  Permutation reqs reqs' -> Permutation (serve_sequence c reqs) (serve_sequence c reqs').
Proof. intro H. unfold serve_sequence. apply Permutation_map. exact H. Qed.

Theorem serve_sequence_each c reqs r :
  In r reqs -> In (server_status (server_validate c (fst r) (snd r))) (serve_sequence c reqs).
Proof. intro H. unfold serve_sequence. apply in_map_iff. exists r. auto. Qed.

(* ---------------------------------------------------------------- the stored object *)

(* what the handler stores is the report it validated: within the configuration, nothing else *)
Theorem server_store_within u sem r s :
  server_store (new_config u) sem r = Some s -> s = r /\ report_withinb u s = true.
Proof.
  unfold server_store. destruct (server_validate (new_config u) sem r) eqn:E; try discriminate.
  intro H. injection H as <-. split; [reflexivity|].
  apply server_validate_spec in E as [_ [_ [_ Hw]]]. apply forallb_within. exact Hw.
Qed.

(* the stored-object oracle accepts the model *)
Theorem stored_check_model u sem r :
  stored_check u (match server_validate (new_config u) sem r with VOk => true | _ => false end)
               (server_store (new_config u) sem r) false = [].
Proof.
  unfold stored_check. destruct (server_store (new_config u) sem r) as [s|] eqn:Es.
  - destruct (server_store_within u sem r s Es) as [-> Hw]. rewrite Hw.
    unfold server_store in Es. destruct (server_validate (new_config u) sem r); try discriminate. reflexivity.
  - unfold server_store in Es. destruct (server_validate (new_config u) sem r); try discriminate; reflexivity.
Qed.
