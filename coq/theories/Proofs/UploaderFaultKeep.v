(* Proofs/UploaderFaultKeep: one uploader.Run under an arbitrary fault plan,
   part 4: keeps-or-drops.  For a week W with no report before, at every
   point of the run each of W's count files is still there unchanged, or its
   counts are in a completely written local.W.json. *)
From Coq Require Import List ZArith NArith Bool Lia Arith.
From Tele Require Import Lib.Bytes Lib.FS Model.Span Model.Uploader Model.UploaderFault
  Proofs.FSFacts Proofs.UploaderBase Proofs.UploaderLock Proofs.UploaderNames Proofs.UploaderFiles
  Proofs.UploaderData Proofs.UploaderEver Proofs.UploaderSeq Proofs.UploaderNoDup Proofs.UploaderLocal
  Proofs.UploaderDisp Proofs.UploaderFaultFacts Proofs.UploaderFaultInv Proofs.UploaderFaultIso.
Import ListNotations.
Open Scope nat_scope.

Section Keep.
Variables (p : fplan) (f0 : FS) (c : ucfg) (exported : bool) (W : bytes).
Hypothesis Hwf : fs_wf f0.
Notation L0 := (f_local f0).
Notation x0 := (finit f0 c exported).

(* no report for W before the run *)
Hypothesis P1a : d_mem (f_local f0) (local_name W) = false.
Hypothesis P1b : d_mem (f_local f0) (ready_name W) = false.
Hypothesis P1c : d_mem (up_dir f0) (marker_name W) = false.
Hypothesis P1d : forall g, d_mem (f_local f0) g = true -> collect_ready c g = true -> contains g W = false.
Hypothesis HWk : week_ok W.
(* the ready names of the directory's other weeks do not contain W *)
Hypothesis P2 : forall n id ct cf, d_find (f_local f0) n = Some (id, ct) -> parse ct = Some cf ->
  uploader_week (cf_end cf) <> W -> contains (ready_name (uploader_week (cf_end cf))) W = false.

Definition kNoL (f : FS) : Prop := d_mem (f_local f) (local_name W) = false.
Definition kNoR (f : FS) : Prop := d_mem (f_local f) (ready_name W) = false.
Definition kNoM (f : FS) : Prop := d_mem (up_dir f) (marker_name W) = false.
Definition kcr (t : thread) : Prop := forall g, In g (t_ready t) -> contains g W = false.
Definition kcu (t : thread) : Prop := forall u, t_uploaded t = Some u -> ~ In (marker_name W) u.

Definition findwork (q : pc) : bool :=
  match q with FReadLocal | FReadCount | FReadUpload | FMkdir => true | _ => false end.
Definition pending (t : thread) : Prop :=
  findwork (t_pc t) = true \/ take_week W (t_weeks t) <> None.

(* a completely written local report of W that folds in the files being deleted *)
Definition krep (f : FS) (t : thread) : Prop :=
  exists id r, d_find (f_local f) (local_name W) = Some (id, CRep (Some r)) /\ r_week r = W /\
               Forall (entry_ok L0 c W) (r_files r) /\ NoDup (map fst (r_files r)) /\
               forall m, In m (t_dels t) -> exists cf, In (m, cf) (r_files r).

Definition early (q : pc) : bool := match q with RStatLocal | RStatUp | RCreateUp => true | _ => false end.

Record kph (f : FS) (err : bool) (t : thread) : Prop := mkK {
  k_pend : pending t ->
           kNoL f /\ kNoR f /\ kNoM f /\ kcr t /\ kcu t /\ (in_rep (t_pc t) = true -> t_week t <> W);
  k_busy : in_rep (t_pc t) = true -> t_week t = W -> t_pc t <> RDel ->
           take_week W (t_weeks t) = None /\ (t_pc t <> RWriteLocal -> kNoL f) /\ (early (t_pc t) = true -> kNoR f);
  k_del : t_pc t = RDel -> t_week t = W -> krep f t;
  k_wl : t_pc t = RWriteLocal -> t_week t = W -> exists c0, d_find (f_local f) (local_name W) = Some (t_fd t, c0);
  k_first : t_pc t = FReadLocal -> f_local f = L0;
  k_upl : in_upl (t_pc t) = true -> t_weeks t = []
}.

Lemma kph_init : kph f0 false (new_thread 0 c).
Proof.
  constructor; simpl; intros; try discriminate; try reflexivity.
  unfold kNoL, kNoR, kNoM, kcr, kcu. simpl.
  split; [exact P1a|]. split; [exact P1b|]. split; [exact P1c|].
  split; [intros g []|]. split; [intros u E; discriminate|discriminate].
Qed.

(* frames *)
Lemma keep_absent (f : FS) e log n :
  d_mem (f_local f) n = false -> (forall m, e = ECreateLocal m -> m <> n) ->
  d_mem (f_local (fst (apply_eff e f log))) n = false.
Proof.
  intros H Hc. rewrite local_apply. destruct e; auto.
  - apply d_mem_remove_false. exact H.
  - rewrite d_mem_add, H, orb_false_r. apply beq_false_ne. apply Hc. reflexivity.
  - rewrite d_mem_set_id. exact H.
Qed.

Lemma keep_absent_up (f : FS) e log n :
  d_mem (up_dir f) n = false -> (forall m, e = ECreateLock m -> m <> n) -> (forall m c0, e = EPutUp m c0 -> m <> n) ->
  d_mem (up_dir (fst (apply_eff e f log))) n = false.
Proof.
  intros H Hc Hp. rewrite up_apply. destruct e; auto.
  - rewrite d_mem_add, H, orb_false_r. apply beq_false_ne. apply Hc. reflexivity.
  - rewrite d_mem_put, H, orb_false_r. apply beq_false_ne. eapply Hp. reflexivity.
  - apply d_mem_remove_false. exact H.
Qed.

Lemma kcr_finish t :
  names_inv t -> data_inv L0 t -> t_cfg t = c -> in_rep (t_pc t) = true -> t_week t <> W -> kcr t ->
  forall g, In g (if t_upok t then t_ready t ++ [ready_name (t_week t)] else t_ready t) -> contains g W = false.
Proof.
  intros N D Hc Hp Hw Hk g Hg. destruct (t_upok t); auto.
  apply in_app_iff in Hg. destruct Hg as [Hg | [<- | []]]; auto.
  pose proof (ni_nonempty _ N Hp) as Hne'. pose proof (di_files _ _ D Hp) as DF.
  destruct (t_files t) as [|[n cf] l]; [contradiction|]. inversion DF as [|a1 l1 H1 H2]. clear H2.
  destruct H1 as ((id & ct & Hf & Hpa) & _ & Hwk). simpl in *. rewrite <- Hwk in *.
  eapply P2; eauto.
Qed.

Lemma take_week_back w w' : forall g files rest,
  take_week w' g = Some (files, rest) -> w' <> w -> take_week w rest = None -> take_week w g = None.
Proof.
  induction g as [|[w0 l] g IH]; simpl; intros files rest E Hne Hn; [reflexivity|].
  destruct (beq w0 w') eqn:E0.
  - injection E as <- <-. apply beq_eq in E0. subst w0. rewrite (beq_false_ne _ _ Hne). rewrite Hn. reflexivity.
  - destruct (take_week w' g) as [[l0 r]|] eqn:Et; [|discriminate]. injection E as <- <-.
    simpl in Hn. destruct (beq w0 w); [discriminate|].
    destruct (take_week w r) as [[l1 r1]|] eqn:Er; [discriminate|].
    rewrite (IH l0 r eq_refl Hne Er). reflexivity.
Qed.

Lemma take_week_other_some w w' g files rest :
  take_week w' g = Some (files, rest) -> w' <> w -> take_week w g <> None -> take_week w rest <> None.
Proof. intros Et Hne Hs Hn. apply Hs. eapply take_week_back; eauto. Qed.

Lemma krep_mono f f' t t' :
  krep f t -> d_find (f_local f') (local_name W) = d_find (f_local f) (local_name W) ->
  (forall m, In m (t_dels t') -> In m (t_dels t)) -> krep f' t'.
Proof.
  intros (id & r & H1 & H2 & H3 & H5 & H4) E Hs. exists id, r. rewrite E.
  split; [exact H1|]. split; [exact H2|]. split; [exact H3|]. split; [exact H5|]. intros m Hm. apply H4, Hs, Hm.
Qed.

Lemma names_week w : week_ok w -> ready_name w <> local_name W /\ local_name w <> ready_name W.
Proof.
  intros Hw. split; intros E.
  - pose proof (week_not_local _ Hw) as Q. rewrite E, is_localrep_local in Q. discriminate.
  - pose proof (week_not_local _ HWk) as Q. rewrite <- E, is_localrep_local in Q. discriminate.
Qed.

Lemma krep_write f t i :
  t_pc t = RWriteLocal -> t_week t = W -> data_inv L0 t -> nd_inv t -> t_cfg t = c ->
  (exists c0, d_find (f_local f) (local_name W) = Some (t_fd t, c0)) -> wbad p i = false ->
  krep (set_local f (d_set_id (f_local f) (t_fd t) (written (p i) (local_body t)))) (finish_week t).
Proof.
  intros Hp Hw D ND Hc (c0 & Hf) Hb.
  exists (t_fd t), (mkRep (t_week t) (t_last t) false (t_files t) (t_id t)).
  rewrite loc_set_local, d_find_set_id, Hf, Nat.eqb_refl.
  assert (Hwr : written (p i) (local_body t) = local_body t).
  { unfold wbad in Hb. unfold written. destruct (p i); try discriminate; reflexivity. }
  rewrite Hwr. split; [reflexivity|]. split; [exact Hw|]. simpl. split.
  - pose proof (di_files _ _ D) as DF. rewrite Hp, Hc, Hw in DF. apply DF. reflexivity.
  - split; [apply (nd_files _ ND); rewrite Hp; reflexivity|]. intros m Hm. apply in_map_iff in Hm. destruct Hm as ([m' cf] & <- & Hin). exists cf. exact Hin.
Qed.

Lemma fdecide_kph i f log err t e t' err' n pan :
  fdecide p i f err t = (e, t', err', n, pan) ->
  names_inv t -> data_inv L0 t -> keys_inv t -> nd_inv t -> t_cfg t = c ->
  kph f err t -> kph (fst (apply_eff e f log)) err' t'.
Proof.
  intros H N D K NDI HC [K1 K2 K3 K4 K5 K6]. unfold pending in K1.
  pose proof (ni_week _ N) as NW. pose proof (ni_dels _ N) as ND.
  unfold fdecide, decide in H.
  destruct (t_pc t) eqn:Epc; simpl in K1, K2, K3, K4, K5, K6, NW.
  all: repeat match type of H with
              | context [match ?x with _ => _ end] => destruct x eqn:?
              end; simpl in H; inversion H; subst; clear H.
  all: adv.
  all: constructor; unfold apply_eff; cbn [fst snd]; unfold pending; simpl t_pc; simpl t_week; simpl t_weeks;
       simpl t_ready; simpl t_uploaded; simpl t_dels; simpl t_fd; simpl findwork.
  all: try (match goal with |- (_ = _) -> _ => intros Hx; simpl in Hx; dmatch Hx; pcdiscr end).
  all: intros; fsimp.
  all: try congruence.
  all: eauto.
  all: try (match goal with Hq : fst _ = _ |- _ => simpl in Hq; dmatch Hq; simpl in Hq; discriminate end).
  (* the RPick / Done no-ops *)
  all: try (rewrite Epc in *; simpl in *; solve [auto]).
  all: try (match goal with H : context [match t_files ?t with _ => _ end] |- _ =>
              revert H; destruct (t_files t) eqn:Efl; intros H; simpl in H end).
  (* upload phase: the week map is empty, nothing is pending *)
  all: try (match goal with Hp : false = true \/ _ <> None |- _ =>
              exfalso; destruct Hp as [Hp | Hp]; [discriminate|]; rewrite (K6 eq_refl) in Hp; apply Hp; reflexivity end).
  (* the week is still pending: nothing of it has been touched *)
  all: try (match goal with
            | Hp : _ \/ _ |- _ /\ _ =>
                let F := fresh "F" in
                first [ assert (F := K1 Hp) | assert (F := K1 (or_introl eq_refl)) ];
                destruct F as (A1 & A2 & A3 & A4 & A5 & A6);
                unfold kNoL, kNoR, kNoM in *; fsimp;
                rewrite ?d_mem_set_id;
                (split; [|split; [|split; [|split; [|split]]]]); auto;
                try (apply d_mem_remove_false; assumption);
                try (intros; discriminate);
                try exact A4; try exact A5;
                try (intros _; apply A6; reflexivity);
                try (unfold kcr; simpl t_ready; apply kcr_finish; auto; try (rewrite Epc; reflexivity); try (apply A6; reflexivity))
            end).
  all: try (match goal with |- in_rep (match ?l with _ => _ end) = true -> _ => intros Hx; destruct l; discriminate end).
  all: try (match goal with |- in_rep _ = true -> _ => intros Hx; simpl in Hx; try discriminate; auto end).
  (* names *)
  all: try (match goal with |- d_mem (d_add _ _ _ _) _ = false =>
              rewrite d_mem_add; first [rewrite A1 | rewrite A2]; rewrite orb_false_r; apply beq_false_ne;
              destruct (names_week _ (NW eq_refl)) as [Q1 Q2];
              first [ exact Q1 | exact Q2
                    | intros E; apply ready_name_inj in E; exact (A6 eq_refl E)
                    | intros E; apply local_name_inj in E; exact (A6 eq_refl E) ] end).
  (* the listing *)
  all: try (match goal with |- kcr (set_listing _ _ _ _) =>
              intros g Hg; simpl in Hg; apply filter_In in Hg; destruct Hg as [Hg1 Hg2];
              rewrite (K5 eq_refl) in Hg1; apply in_d_names in Hg1; rewrite HC in Hg2; eapply P1d; eauto end).
  all: try (match goal with Hu : f_upload _ = Some ?d |- kcu (enter_reports _ _) =>
              intros u Eu; simpl in Eu; injection Eu as <-; intros Hin; apply filter_In in Hin; destruct Hin as [Hin _];
              apply in_d_names in Hin; unfold up_dir in A3; rewrite Hu in A3; congruence end).
  (* the week in progress is W *)
  all: try (match goal with Hw : t_week _ = W |- take_week _ _ = None /\ _ =>
              destruct (K2 eq_refl Hw ltac:(discriminate)) as (B1 & B2 & B3);
              destruct (names_week _ HWk) as [Q1 Q2];
              unfold kNoL, kNoR in *; fsimp; rewrite ?d_mem_set_id; rewrite ?d_mem_add; rewrite ?Hw;
              split; [exact B1|split; intros Hq; try discriminate; try (exfalso; apply Hq; reflexivity);
                try (rewrite (B2 ltac:(discriminate))); try (rewrite (B3 eq_refl)); rewrite ?orb_false_r; auto;
                apply beq_false_ne; auto]
            end).
  all: try (match goal with Hw : t_week _ = W |- krep _ _ => exfalso;
              destruct (K2 eq_refl Hw ltac:(discriminate)) as (B1 & B2 & B3); unfold kNoL, kNoR in *;
              try (assert (B2' := B2 ltac:(discriminate))); try (assert (B3' := B3 eq_refl));
              rewrite Hw in *; congruence end).
  all: try (match goal with Hw : t_week _ = W, Hl : t_dels _ = _ |- krep _ _ =>
              eapply krep_mono; [exact (K3 eq_refl Hw) | | simpl t_dels; intros m Hm; rewrite Hl; simpl; tauto];
              fsimp; try reflexivity; apply d_find_remove_other; intros E; try rewrite Hl in ND;
              inversion ND as [|a1 l1 Hc1 Hc2]; rewrite E, is_count_local in Hc1; discriminate end).
  all: try (match goal with Hw : t_week _ = W |- krep _ (finish_week _) =>
              apply krep_write; auto; destruct (wbad p i); auto; rewrite orb_true_r in *; discriminate end).
  all: try (match goal with Hw : t_week _ = W |- exists c0, d_find (d_add _ _ _ _) _ = _ =>
              rewrite Hw, d_find_add, beq_refl; eexists; reflexivity end).
Qed.

Lemma not_needed_pending t :
  kcr t -> kcu t -> not_needed W (t_uploaded t) (t_ready t) = false.
Proof.
  intros Hr Hu. unfold not_needed. apply orb_false_iff. split.
  - destruct (t_uploaded t) as [u|] eqn:Eu; [|reflexivity].
    destruct (existsb (beq (W ++ sfx_json)) u) eqn:E; [|reflexivity].
    apply existsb_exists in E. destruct E as (x & Hx & Hb). apply beq_eq in Hb. subst x.
    exfalso. apply (Hu u Eu). exact Hx.
  - destruct (existsb (fun f => contains f W) (t_ready t)) eqn:E; [|reflexivity].
    apply existsb_exists in E. destruct E as (x & Hx & Hb). rewrite (Hr x Hx) in Hb. discriminate.
Qed.

Lemma take_week_gone g files rest :
  take_week W g = Some (files, rest) -> NoDup (map fst g) -> take_week W rest = None.
Proof.
  intros E Hn. destruct (take_week_keys _ _ _ _ E Hn) as (_ & Hni & _). apply take_week_none. exact Hni.
Qed.

Lemma fpick_kph i picks f err t t' n pan picks' :
  t_pc t = RPick -> fpick p i picks t = (t', n, pan, picks') ->
  names_inv t -> keys_inv t -> kph f err t -> kph f false t'.
Proof.
  intros Hp H N K [K1 K2 K3 K4 K5 K6]. unfold pending in K1. rewrite Hp in *. simpl in K1, K2, K3, K4, K5, K6.
  unfold fpick in H.
  destruct (t_weeks t) as [|g0 gs] eqn:Ew.
  - injection H as <- <- <- <-. unfold start_upload.
    adv; constructor; unfold pending; simpl; rewrite ?Hp, ?Ew; simpl; intros; try discriminate; auto.
  - destruct (choose picks t (fst g0)) as [w ps].
    destruct (take_week w (g0 :: gs)) as [[files rest]|] eqn:Et.
    2: { injection H as <- <- <- <-. constructor; unfold pending; rewrite ?Hp, ?Ew; simpl; intros; try discriminate; auto. }
    rewrite <- Ew in Et, K1, K2.
    assert (Hother : w <> W -> take_week W rest <> None -> take_week W (t_weeks t) <> None).
    { intros Hne Hs Hn. apply Hs. eapply take_week_other_none; eauto. }
    assert (Hgone : w = W -> take_week W rest = None).
    { intros ->. eapply take_week_gone; eauto. }
    assert (Hpend : w = W -> take_week W (t_weeks t) <> None).
    { intros ->. rewrite Et. discriminate. }
    destruct (not_needed w (t_uploaded t) (t_ready t)) eqn:En.
    + (* a report exists: the week is not W while W is pending *)
      injection H as <- <- <- <-.
      assert (Hne : take_week W (t_weeks t) <> None -> w <> W).
      { intros Hs ->. destruct (K1 (or_intror Hs)) as (_ & _ & _ & A4 & A5 & _).
        rewrite (not_needed_pending _ A4 A5) in En. discriminate. }
      constructor; unfold pending; simpl.
      * intros [Hf | Hs]; [destruct files; discriminate|].
        destruct (beq w W) eqn:Eb.
        -- apply beq_eq in Eb. rewrite (Hgone Eb) in Hs. contradiction.
        -- assert (Hw : w <> W) by (intros ->; rewrite beq_refl in Eb; discriminate).
           destruct (K1 (or_intror (Hother Hw Hs))) as (A1 & A2 & A3 & A4 & A5 & _). auto 10.
      * intros _ Hw _. exfalso. apply (Hne (Hpend Hw) Hw).
      * intros _ Hw. exfalso. apply (Hne (Hpend Hw) Hw).
      * destruct files; discriminate.
      * destruct files; discriminate.
      * destruct files; discriminate.
    + destruct (bad p i).
      * injection H as <- <- <- <-. constructor; unfold pending; simpl; intros; try discriminate; auto.
      * destruct (has_counts files); injection H as <- <- <- <-.
        -- constructor; unfold pending; simpl; try discriminate.
           ++ intros [Hf | Hs]; [discriminate|].
              destruct (beq w W) eqn:Eb.
              ** apply beq_eq in Eb. rewrite (Hgone Eb) in Hs. contradiction.
              ** assert (Hw : w <> W) by (intros ->; rewrite beq_refl in Eb; discriminate).
                 destruct (K1 (or_intror (Hother Hw Hs))) as (A1 & A2 & A3 & A4 & A5 & _). auto 10.
           ++ intros _ Hw _. destruct (K1 (or_intror (Hpend Hw))) as (A1 & A2 & _).
              split; [apply Hgone; exact Hw|]. split; auto.
        -- constructor; unfold pending; simpl; rewrite ?Hp; simpl; try discriminate.
           intros [Hf | Hs]; [discriminate|].
           destruct (beq w W) eqn:Eb.
           ** apply beq_eq in Eb. rewrite (Hgone Eb) in Hs. contradiction.
           ** assert (Hw : w <> W) by (intros ->; rewrite beq_refl in Eb; discriminate).
              destruct (K1 (or_intror (Hother Hw Hs))) as (A1 & A2 & A3 & A4 & A5 & _).
              split; auto. split; auto. split; auto. split; auto. split; auto. discriminate.
Qed.

(* ---------------------------------------------------------------- the invariant along a run *)
Hypothesis Hnd0 : NoDup (dnames (f_local f0)).

Lemma nd_inv_jump t p' : nd_inv t -> jump_ok (t_pc t) p' -> nd_inv (set_pc t p').
Proof. intros [N1 N2 N3] (J1 & _). constructor; simpl; auto. Qed.

Lemma hides_nodup f f' : NoDup (dnames (f_local f)) -> hides f' f -> NoDup (dnames (f_local f')).
Proof. intros H [-> | [n ->]]; [exact H|apply nodup_remove; exact H]. Qed.

Lemma fdecide_names i f log err t e t' err' n pan :
  fdecide p i f err t = (e, t', err', n, pan) -> NoDup (dnames (f_local f)) ->
  NoDup (dnames (f_local (fst (apply_eff e f log)))).
Proof.
  intros Ef H. rewrite local_apply. destruct e; auto.
  - apply nodup_remove. exact H.
  - simpl. constructor; auto.
    destruct (fdecide_cases _ _ _ _ _ _ _ _ _ _ Ef) as
      [(o & Hd) | [(Hx & _) | [(_ & c0 & Hx & _) | [(_ & c0 & Hx & _) | (_ & c0 & Hx & _)]]]]; try discriminate.
    assert (Hda : decide_all f (AStep o) t = (ECreateLocal n0, t')) by exact Hd.
    destruct (eff_createlocal _ _ _ _ _ Hda) as [Hm _].
    intros Hin. apply in_dnames_mem in Hin. congruence.
  - rewrite dnames_set_id. exact H.
Qed.

Lemma fdecide_nd i f err t e t' err' n pan :
  fdecide p i f err t = (e, t', err', n, pan) -> NoDup (dnames (f_local f)) -> nd_inv t -> nd_inv t'.
Proof.
  intros H HF ND.
  destruct (fdecide_thread _ _ _ _ _ _ _ _ _ _ H) as [(f' & o & -> & Hh) | (p' & -> & J)].
  - destruct (decide f' o t) as [e0 t0] eqn:Ed. simpl.
    assert (Hda : decide_all f' (AStep o) t = (e0, t0)) by exact Ed.
    eapply nd_inv_step; eauto. eapply hides_nodup; eauto.
  - apply nd_inv_jump; auto.
Qed.

Lemma fpick_nd i picks (f : FS) t t' n pan picks' :
  t_pc t = RPick -> fpick p i picks t = (t', n, pan, picks') -> NoDup (dnames (f_local f)) -> nd_inv t -> nd_inv t'.
Proof.
  intros Hp H HF ND.
  destruct (fpick_thread _ _ _ _ _ _ _ _ Hp H) as [-> | [[w ->] | ->]].
  - assert (Hda : decide_all f APickNone t = (ENone, step_pick_none t)) by reflexivity. eapply nd_inv_step; eauto.
  - assert (Hda : decide_all f (APick w) t = (ENone, step_pick w t)) by reflexivity. eapply nd_inv_step; eauto.
  - apply nd_inv_jump; auto using done_jump.
Qed.

Record kinv (x : fstate) : Prop := mkKI {
  ki_k : kph (x_fs x) (x_err x) (x_t x);
  ki_names : NoDup (dnames (f_local (x_fs x)));
  ki_nd : nd_inv (x_t x)
}.

Lemma kinv_step picks x : rinv f0 c x -> kinv x -> kinv (fst (fstep p picks x)).
Proof.
  intros [(N & D & K) HR HF HN HA HC] [KK KN KD]. unfold fstep.
  destruct (x_pre x); [constructor; simpl; auto|].
  destruct (t_pc (x_t x)) eqn:Epc.
  5: { destruct (fpick p (x_idx x) picks (x_t x)) as [[[t' n] pan] pk] eqn:Ef. simpl.
       constructor; simpl; auto.
       - eapply fpick_kph; eauto.
       - eapply fpick_nd; eauto. }
  all: destruct (fdecide p (x_idx x) (x_fs x) (x_err x) (x_t x)) as [[[[e t'] err'] k] pan] eqn:Ef;
    destruct (apply_eff e (x_fs x) (x_log x)) as [f' log'] eqn:Ea; simpl;
    assert (Ef' : f' = fst (apply_eff e (x_fs x) (x_log x))) by (rewrite Ea; reflexivity); rewrite Ef'; clear Ea Ef';
    (constructor; simpl; [eapply fdecide_kph; eauto|eapply fdecide_names; eauto|eapply fdecide_nd; eauto]).
Qed.

Lemma kinv_reach x : freach p x0 x -> kinv x.
Proof.
  induction 1 as [|x picks Hr IH].
  - constructor; simpl; [apply kph_init|exact Hnd0|apply nd_inv_new].
  - apply kinv_step; [apply (rinv_reach p f0 c exported Hwf); exact Hr|exact IH].
Qed.

(* ---------------------------------------------------------------- a complete local report stays *)
Lemma complete_step picks x w id r :
  rinv f0 c x -> d_find (f_local (x_fs x)) (local_name w) = Some (id, CRep (Some r)) ->
  d_find (f_local (x_fs (fst (fstep p picks x)))) (local_name w) = Some (id, CRep (Some r)).
Proof.
  intros [(N & D & K) HR HF HN HA HC] Em. unfold fstep.
  destruct (x_pre x); [exact Em|].
  assert (Hi : nth_error (s_ths (emb x)) 0 = Some (x_t x)) by reflexivity.
  assert (Hwrite : forall fd c1 m, writing (x_t x) = Some (fd, m) ->
            d_find (d_set_id (f_local (x_fs x)) fd c1) (local_name w) = Some (id, CRep (Some r))).
  { intros fd c1 m Hw. rewrite d_find_set_id, Em. destruct (Nat.eqb id fd) eqn:E; [|reflexivity].
    apply Nat.eqb_eq in E. subst id. destruct HF as (_ & _ & _ & I4).
    destruct (I4 0 _ _ _ _ _ Hi Hw Em) as [_ Hc]. discriminate. }
  destruct (t_pc (x_t x)) eqn:Epc.
  5: { destruct (fpick p (x_idx x) picks (x_t x)) as [[[t' k] pan] pk]. exact Em. }
  all: destruct (fdecide p (x_idx x) (x_fs x) (x_err x) (x_t x)) as [[[[e t'] err'] k] pan] eqn:Ef;
    destruct (apply_eff e (x_fs x) (x_log x)) as [f' log'] eqn:Ea; simpl;
    assert (Ef' : f' = fst (apply_eff e (x_fs x) (x_log x))) by (rewrite Ea; reflexivity); rewrite Ef'; clear Ea Ef';
    rewrite local_apply;
    destruct (fdecide_cases _ _ _ _ _ _ _ _ _ _ Ef) as
      [(o & Hd) | [(-> & Hw) | [(Hp & c0 & -> & ->) | [(Hp & c0 & -> & Ht) | (Hp & c0 & -> & ->)]]]];
    try exact Em.
  all: try (eapply Hwrite; unfold writing; rewrite Hp; reflexivity).
  all: assert (Hda : decide_all (x_fs x) (AStep o) (x_t x) = (e, t')) by exact Hd;
    destruct e; try exact Em.
  all: try (destruct (eff_remlocal _ _ _ _ _ Hda) as [(Hp & rest & Hdel) | (Hp & -> & _)];
            rewrite d_find_remove_other; [exact Em| |exact Em|];
            [ pose proof (ni_dels _ N) as ND; rewrite Hdel in ND; inversion ND as [|a1 l1 Hc1 Hc2];
              intros E; rewrite E, is_count_local in Hc1; discriminate
            | assert (Hu : in_upl (t_pc (x_t x)) = true) by (destruct Hp as [-> | [-> | ->]]; reflexivity);
              destruct (ni_file _ N Hu) as (_ & Hl & _); intros E; rewrite E, is_localrep_local in Hl; discriminate ]).
  all: try (destruct (eff_createlocal _ _ _ _ _ Hda) as [Hm _]; rewrite d_find_add;
            destruct (beq n (local_name w)) eqn:Eb; [|exact Em];
            apply beq_eq in Eb; subst n; unfold d_mem in Hm; rewrite Em in Hm; discriminate).
  all: try (destruct (eff_writeid_writing _ _ _ _ _ _ Hda) as (m & Hw & _); eapply Hwrite; exact Hw).
Qed.

(* ---------------------------------------------------------------- keeps or drops *)
(* the counts of file n are in a completely written local report of W, once *)
Definition in_report (f : FS) (n : bytes) (cf : cfile) : Prop :=
  exists idr r, d_find (f_local f) (local_name W) = Some (idr, CRep (Some r)) /\ r_week r = W /\
                In (n, cf) (r_files r) /\ NoDup (map fst (r_files r)) /\
                Forall (entry_ok L0 c W) (r_files r).

Theorem fault_keeps_or_drops x n id ct cf :
  freach p x0 x -> is_count n = true -> d_find L0 n = Some (id, ct) -> parse ct = Some cf ->
  uploader_week (cf_end cf) = W ->
  d_find (f_local (x_fs x)) n = Some (id, ct) \/ in_report (x_fs x) n cf.
Proof.
  intros Hr Hn Hv Hpa Hwk. induction Hr as [|x picks Hr IH]; [left; exact Hv|].
  pose proof (rinv_reach p f0 c exported Hwf _ Hr) as RI. pose proof (kinv_reach _ Hr) as [KK _ _].
  destruct IH as [IH | (idr & r & R1 & R2 & R3 & R4 & R5)].
  - destruct (count_step p f0 c picks x n RI Hn) as [E | (_ & Hpc & rest & Hdel)].
    + left. rewrite E. exact IH.
    + right. destruct RI as [(NN & D & KI) HR HF HN HA HC].
      pose proof (di_dels _ _ D Hpc) as DD. rewrite Hdel in DD. inversion DD as [|a1 l1 H1 H2]. clear H2.
      destruct H1 as (cf1 & (id1 & ct1 & Hs & Hp1) & Hb & Hw1). simpl in *.
      rewrite Hv in Hs. injection Hs as <- <-. rewrite Hpa in Hp1. injection Hp1 as <-.
      assert (HW : t_week (x_t x) = W) by congruence.
      destruct (k_del _ _ _ KK Hpc HW) as (idr & r & R1 & R2 & R3 & R4 & R5).
      destruct (R5 n) as (cf2 & Hin); [rewrite Hdel; left; reflexivity|].
      assert (cf2 = cf).
      { rewrite Forall_forall in R3. destruct (R3 _ Hin) as ((id2 & ct2 & Hs2 & Hp2) & _). simpl in *.
        rewrite Hv in Hs2. injection Hs2 as <- <-. congruence. }
      subst cf2. exists idr, r. split; [|auto].
      apply complete_step; [constructor; auto; split; auto|exact R1].
  - right. exists idr, r. split; [|auto]. apply complete_step; auto.
Qed.

End Keep.
