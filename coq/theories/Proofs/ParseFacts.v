(* Proofs/ParseFacts: Parse is total (the fuel of the model is never used up,
   no slice leaves the input below 4 GiB), sound (returns only linked
   records, with pairwise different stored names), faithful on every
   well-formed file, and a function of its input alone. *)
From Coq Require Import List Arith NArith ZArith Bool Lia Permutation.
From Tele Require Import Lib.Bytes Lib.BytesN Gen.Consts Model.DecodeStack Model.Layout Model.Parse
  Proofs.LayoutArith Proofs.LayoutRead Proofs.WriterFacts.
Import ListNotations.
Open Scope N_scope.

(* ---------------------------------------------------------------- totality *)

Lemma parse_walk_total fuel sz bs hdr : forall n off seen acc,
  sz / 32 + 2 <= N.of_nat fuel + n -> n <= sz / 32 + 1 ->
  parse_walk fuel sz bs hdr n off seen acc <> WDiverge.
Proof.
  induction fuel as [|f IH]; intros n off seen acc H1 H2.
  - cbn in H1. lia.
  - cbn [parse_walk]. destruct (off =? 0); [discriminate|]. change c_recordUnit with 32.
    destruct (N.ltb_spec (sz / 32) n) as [|Hn]; [discriminate|].
    destruct (entry_at_sz sz bs hdr off) as [[[ename next] v]|]; [|discriminate].
    destruct (has_name ename seen); [discriminate|]. apply IH; lia.
Qed.

(* the outer loop in the form with one load32 per bucket *)
Fixpoint pb_ref (oob : bytes) (sz : N) (bs : bytes) (hdr : N) (is : list N) (seen : list bytes)
    (acc : list (bytes * N)) : wresult :=
  match is with
  | [] => WOk seen acc
  | i :: is' =>
      match parse_walk (walk_fuel_sz sz) sz bs hdr 0
              (head_word oob sz (head_off hdr i) (dropN bs (head_off hdr i))) seen acc with
      | WOk seen' acc' => pb_ref oob sz bs hdr is' seen' acc'
      | r => r
      end
  end.

Lemma parse_buckets_ref oob sz bs hdr : forall k a seen acc,
  parse_buckets oob sz bs hdr (range_from a k) (dropN bs (head_off hdr a)) seen acc
  = pb_ref oob sz bs hdr (range_from a k) seen acc.
Proof.
  induction k as [|k IH]; intros a seen acc; [reflexivity|]. cbn [range_from parse_buckets pb_ref].
  destruct (parse_walk _ _ _ _ _ _ _ _) as [| |seen' acc']; try reflexivity.
  rewrite dropN_dropN. replace (head_off hdr a + 4) with (head_off hdr (a + 1)) by (rewrite !head_off_val; lia).
  apply IH.
Qed.

Lemma pb_ref_total oob sz bs hdr : forall is seen acc, pb_ref oob sz bs hdr is seen acc <> WDiverge.
Proof.
  induction is as [|i t IH]; intros seen acc; cbn [pb_ref]; [discriminate|].
  destruct (parse_walk _ _ _ _ _ _ _ _) as [| |seen' acc'] eqn:E; [|discriminate|apply IH].
  exfalso. revert E. apply parse_walk_total.
  - unfold walk_fuel_sz. change c_recordUnit with 32. set (q := sz / 32).
    rewrite !Nat2N.inj_succ, N2Nat.id. lia.
  - apply N.le_0_l.
Qed.

(* parse_total: whatever the input and whatever follows it in memory, the
   walk bound of the source stops every chain before the model's fuel
   (len/32 + 2 per bucket) is used up *)
Theorem parse_total oob bs : parse_with oob bs <> PDiverge.
Proof.
  unfold parse_with. cbv zeta.
  destruct (negb (has_prefix bs c_hdrPrefix) || (len bs <? c_pageSize)).
  - destruct (len bs <? c_pageSize); discriminate.
  - destruct (_ || _); [discriminate|].
    destruct (parse_meta _ _); [|discriminate].
    rewrite parse_buckets_ref.
    destruct (pb_ref _ _ _ _ _ _ _) eqn:E; try discriminate. exfalso. revert E. apply pb_ref_total.
Qed.

(* no partial operation: with the uint32 arithmetic and the slice expression
   of the source spelled out, entryAt on a mapping below 4 GiB is entry_at *)
Lemma entry_u32_eq bs hdr off : len bs < 4294967296 -> off < 4294967296 -> hdr <= 16384 ->
  entry_at_u32 bs hdr off =
  match entry_at bs hdr off with None => ENone | Some (nm, nx, v) => ESome nm nx v end.
Proof.
  intros Hl Ho Hh. rewrite entry_at_nf. unfold entry_at_u32, u32, load32. change c_hashOff with 4.
  rewrite (N.mod_small (hdr + 4)) by lia.
  destruct (N.ltb_spec off (hdr + 4)) as [|H1]; cbn [orb]; [reflexivity|].
  destruct (negb (off mod 8 =? 0)); cbn [orb]; [reflexivity|].
  destruct (N.ltb_spec (len bs) (off + 16)) as [|H2]; [reflexivity|].
  rewrite (N.mod_small (off + 8)), (N.mod_small (off + 12)), (N.mod_small (off + 16)) by lia.
  destruct (N.ltb_spec (len bs) (off + 8 + 4)) as [|_]; [lia|].
  destruct (N.ltb_spec (len bs) (off + 12 + 4)) as [|_]; [lia|].
  change 16777215 with (N.ones 24). rewrite N.land_ones. change (2 ^ 24) with 16777216.
  set (nl := get32 bs (off + 8) mod 16777216).
  destruct (N.eqb_spec nl 0) as [|H3]; cbn [orb]; [reflexivity|].
  destruct (N.ltb_spec (len bs) (off + 16 + nl)) as [|H4]; [reflexivity|].
  rewrite (N.mod_small (off + 16 + nl)) by lia.
  destruct (N.ltb_spec (off + 16 + nl) (off + 16)) as [|_]; [lia|]. cbn [orb].
  destruct (N.ltb_spec (len bs) (off + 16 + nl)) as [|_]; [lia|].
  replace (off + 16 + nl - (off + 16)) with nl by lia. reflexivity.
Qed.

(* ---------------------------------------------------------------- soundness *)

Lemma has_name_false k seen : has_name k seen = false <-> ~ In k seen.
Proof.
  unfold has_name. split.
  - intros H Hin. assert (X : existsb (fun x => beq x k) seen = true).
    { apply existsb_exists. exists k. split; [exact Hin|apply beq_refl]. }
    rewrite X in H. discriminate.
  - intro H. destruct (existsb _ seen) eqn:E; [|reflexivity]. exfalso.
    apply existsb_exists in E as (x & Hx & Eb). apply beq_eq in Eb. subst x. contradiction.
Qed.

Definition expand (r : bytes * N) : bytes * N := (decode_stack (fst r), snd r).

Section Sound.
  Variables (oob bs : bytes).
  Let sz := len bs.
  Let hl := get32 bs 28.

  (* records reachable from a bucket head (as Parse loads it) by next links *)
  Inductive linked : N -> Prop :=
  | L_head i : i < 512 -> linked (head_word oob sz (head_off hl i) (dropN bs (head_off hl i)))
  | L_next off name next v : linked off -> entry_at bs hl off = Some (name, next, v) -> linked next.

  (* (stored name, value) of a linked record *)
  Definition raw_record (r : bytes * N) : Prop :=
    exists off next, linked off /\ entry_at bs hl off = Some (fst r, next, snd r).

  (* the state of the walk: seen and f.Count come from one list of records
     with pairwise different stored names *)
  Definition walk_inv (seen : list bytes) (acc : list (bytes * N)) : Prop :=
    exists R, seen = map fst R /\ acc = map expand R /\ NoDup (map fst R) /\ Forall raw_record R.

  Lemma parse_walk_sound fuel : forall n off seen acc seen' acc',
    linked off -> walk_inv seen acc ->
    parse_walk fuel sz bs hl n off seen acc = WOk seen' acc' -> walk_inv seen' acc'.
  Proof.
    induction fuel as [|f IH]; intros n off seen acc seen' acc' Hl Ha; cbn [parse_walk].
    - destruct (off =? 0); [|discriminate]. intro E. injection E as <- <-. exact Ha.
    - destruct (off =? 0); [intro E; injection E as <- <-; exact Ha|].
      destruct (_ <? n); [discriminate|].
      destruct (entry_at_sz sz bs hl off) as [[[ename next] v]|] eqn:E; [|discriminate].
      destruct (has_name ename seen) eqn:Hn; [discriminate|]. apply has_name_false in Hn.
      apply IH.
      + eapply L_next; [exact Hl|exact E].
      + destruct Ha as (R & -> & -> & Hnd & Hf). exists ((ename, v) :: R).
        repeat split; cbn [map fst]; try reflexivity.
        * constructor; assumption.
        * constructor; [|exact Hf]. exists off, next. split; [exact Hl|exact E].
  Qed.

  Lemma pb_ref_sound : forall is seen acc seen' acc', Forall (fun i => i < 512) is -> walk_inv seen acc ->
    pb_ref oob sz bs hl is seen acc = WOk seen' acc' -> walk_inv seen' acc'.
  Proof.
    induction is as [|i t IH]; intros seen acc seen' acc' Hi Ha; cbn [pb_ref].
    - intro E. injection E as <- <-. exact Ha.
    - inversion Hi as [|? ? Hi1 Hi2]; subst.
      destruct (parse_walk _ _ _ _ _ _ _ _) as [| |seen1 acc1] eqn:E; try discriminate.
      intro E2. apply (IH seen1 acc1 seen' acc' Hi2); [|exact E2].
      eapply parse_walk_sound; [|exact Ha|exact E]. now apply L_head.
  Qed.

  (* every returned pair is a linked record with its name expanded, and the
     records have pairwise different stored names: a repeated stored name is
     answered with "corrupt", never with a result *)
  Theorem parse_sound kv cs : parse_with oob bs = POk kv cs ->
    exists R, cs = map expand R /\ NoDup (map fst R) /\ Forall raw_record R.
  Proof.
    unfold parse_with. cbv zeta.
    destruct (negb (has_prefix bs c_hdrPrefix) || (len bs <? c_pageSize)).
    - destruct (len bs <? c_pageSize); discriminate.
    - rewrite hdr_np_val. fold hl. destruct (_ || _); [discriminate|].
      destruct (parse_meta _ _); [|discriminate].
      rewrite parse_buckets_ref. fold sz.
      destruct (pb_ref _ _ _ _ _ _ _) as [| |seen acc] eqn:E; try discriminate.
      intro X. injection X as _ <-.
      assert (W : walk_inv seen acc).
      { eapply pb_ref_sound; [| |exact E].
        - apply Forall_forall. intros i Hi. apply range_from_in in Hi.
          change (N.to_nat c_numHash) with 512%nat in Hi. lia.
        - exists []. repeat split; constructor. }
      destruct W as (R & _ & -> & Hnd & Hf). exists (rev R). repeat split.
      + now rewrite map_rev.
      + rewrite map_rev. apply NoDup_rev. exact Hnd.
      + now apply Forall_rev.
  Qed.
End Sound.

(* ---------------------------------------------------------------- faithfulness *)

Lemma parse_meta_lines lines : forall acc,
  parse_meta lines acc = match meta_lines lines with Some r => Some (rev acc ++ r) | None => None end.
Proof.
  induction lines as [|l t IH]; intro acc; cbn [parse_meta meta_lines].
  - now rewrite app_nil_r.
  - destruct l as [|c l']; [apply IH|].
    destruct (cut (c :: l') sep_colon) as [[k v] ok]. destruct ok; [|reflexivity].
    rewrite IH. destruct (meta_lines t) as [r|]; [|reflexivity]. cbn [rev]. now rewrite <- app_assoc.
Qed.

(* the inner loop on a chain the layout reader accepts *)
Fixpoint walk_spec (seen : list bytes) (acc : list (bytes * N)) (c : list rec) : wresult :=
  match c with
  | [] => WOk seen acc
  | r :: t => if has_name (r_name r) seen then WCorrupt
              else walk_spec (r_name r :: seen) ((decode_stack (r_name r), r_val r) :: acc) t
  end.

Lemma parse_walk_chain bs hdr limit : forall f off c fuel n seen acc,
  spec_chain f bs hdr limit off = Some c -> limit <= len bs ->
  n + N.of_nat (length c) <= len bs / 32 + 1 -> (length c < fuel)%nat ->
  parse_walk fuel (len bs) bs hdr n off seen acc = walk_spec seen acc c.
Proof.
  induction f as [|f IH]; intros off c fuel n seen acc H Hl Hn Hf.
  - cbn [spec_chain] in H. destruct (N.eqb_spec off 0) as [->|]; [|discriminate].
    injection H as <-. destruct fuel; reflexivity.
  - destruct (N.eqb_spec off 0) as [->|Hz].
    + rewrite spec_chain_0 in H. injection H as <-. destruct fuel; reflexivity.
    + rewrite spec_chain_S in H by exact Hz.
      destruct (spec_record bs hdr limit off) as [[[ename next] v]|] eqn:E; [|discriminate].
      destruct (spec_chain f bs hdr limit next) as [c'|] eqn:E2; [|discriminate].
      injection H as <-. cbn [length] in *.
      destruct fuel as [|fuel]; [lia|]. cbn [parse_walk walk_spec].
      destruct (N.eqb_spec off 0); [contradiction|]. change c_recordUnit with 32.
      destruct (N.ltb_spec (len bs / 32) n) as [X|_]; [lia|].
      pose proof (spec_record_entry _ _ _ _ _ E Hl) as Ee. unfold entry_at in Ee. rewrite Ee.
      change (r_name (off, ename, v)) with ename. change (r_val (off, ename, v)) with v.
      destruct (has_name ename seen); [reflexivity|].
      apply (IH next c' fuel (n + 1) _ _ E2 Hl); lia.
Qed.

Lemma walk_spec_app seen acc c1 c2 :
  walk_spec seen acc (c1 ++ c2) =
  match walk_spec seen acc c1 with WOk seen' acc' => walk_spec seen' acc' c2 | r => r end.
Proof.
  revert seen acc; induction c1 as [|r t IH]; intros seen acc; cbn [app walk_spec]; [reflexivity|].
  destruct (has_name (r_name r) seen); [reflexivity|apply IH].
Qed.

(* records with pairwise different names, none seen before: all are taken *)
Lemma walk_spec_nodup rs : forall seen acc,
  NoDup (map r_name rs) -> (forall r, In r rs -> ~ In (r_name r) seen) ->
  walk_spec seen acc rs = WOk (rev (map r_name rs) ++ seen) (rev (decoded rs) ++ acc).
Proof.
  induction rs as [|r t IH]; intros seen acc Hnd Hs; [reflexivity|].
  cbn [walk_spec map rev decoded]. cbn [map] in Hnd. inversion Hnd as [|? ? Hni Hnd']; subst.
  replace (has_name (r_name r) seen) with false
    by (symmetry; apply has_name_false; apply Hs; now left).
  rewrite IH; [|exact Hnd'|].
  - unfold decoded. rewrite <- !app_assoc. reflexivity.
  - intros r' Hr' [Hin|Hin].
    + apply Hni. rewrite Hin. now apply in_map.
    + apply (Hs r'); [now right|exact Hin].
Qed.

(* a stored name that was seen before, or that occurs twice: corrupt *)
Lemma walk_spec_dup rs : forall seen acc,
  (exists r, In r rs /\ In (r_name r) seen) \/ ~ NoDup (map r_name rs) ->
  walk_spec seen acc rs = WCorrupt.
Proof.
  induction rs as [|r t IH]; intros seen acc H.
  - exfalso. destruct H as [(r & [] & _)|H]; apply H; constructor.
  - cbn [walk_spec]. destruct (has_name (r_name r) seen) eqn:Hn; [reflexivity|].
    apply has_name_false in Hn. apply IH.
    destruct H as [(r' & [<-|Hr'] & Hin)|H].
    + contradiction.
    + left. exists r'. split; [exact Hr'|now right].
    + destruct (in_dec (list_eq_dec N.eq_dec) (r_name r) (map r_name t)) as [Hin|Hni].
      * left. apply in_map_iff in Hin as (r' & E & Hr'). exists r'. split; [exact Hr'|]. left. now symmetry.
      * right. intro Hnd. apply H. cbn [map]. now constructor.
Qed.

Lemma head_word_in oob bs off : off + 4 <= len bs ->
  head_word oob (len bs) off (dropN bs off) = get32 bs off.
Proof.
  intro H. unfold head_word, get32.
  destruct (N.ltb_spec (len bs) (off + 4)) as [|_]; [lia|].
  pose proof (len_dropN bs off) as L.
  destruct (dropN bs off) as [|a [|b [|c [|d t]]]]; rewrite ?len_cons, ?len_nil in L; try lia; reflexivity.
Qed.

Section Faithful.
  Variables (oob bs : bytes) (hdr : N) (meta : bytes) (kv : list (bytes * bytes)) (limit : N)
            (tbl : list (list rec)).
  Hypothesis Hread : spec_read bs = Some (hdr, meta, kv, limit, tbl).

  Lemma pb_ref_table : forall is t seen acc,
    Forall2 (bucket_ok bs hdr limit) is t -> Forall (fun i => i < 512) is ->
    hdr + 2052 <= len bs -> limit <= len bs ->
    pb_ref oob (len bs) bs hdr is seen acc = walk_spec seen acc (concat t).
  Proof.
    intros is t seen acc H. revert seen acc.
    induction H as [|i c is t Hb Hf IH]; intros seen acc Hi Hh Hl; [reflexivity|].
    inversion Hi as [|? ? Hi1 Hi2]; subst. cbn [pb_ref concat]. rewrite walk_spec_app.
    rewrite head_word_in by (rewrite head_off_val; lia).
    unfold bucket_ok in Hb. apply spec_bucket_inv in Hb as [Hc _].
    pose proof (spec_chain_length _ _ _ _ _ _ Hc) as Hlen.
    assert (Hdiv : limit / 32 <= len bs / 32) by (apply N.div_le_mono; lia).
    unfold chain_fuel in Hlen.
    rewrite (parse_walk_chain bs hdr limit _ _ c _ 0 seen acc Hc Hl).
    2:{ lia. }
    2:{ unfold walk_fuel_sz. change c_recordUnit with 32. lia. }
    destruct (walk_spec seen acc c); try reflexivity. now apply IH.
  Qed.

  (* parse_faithful: on a well-formed file Parse returns the metadata and, in
     bucket order, every record's (expanded name, value) *)
  Theorem parse_wf : parse_with oob bs = POk kv (decoded (concat tbl)).
  Proof.
    pose proof (spec_read_inv _ _ _ _ _ _ Hread) as (Eh & Ek & El & H1 & H2 & H3 & H4 & H5 & Ht & Hp).
    pose proof (spec_header_inv _ _ _ Eh) as (Hpp & E28 & Hb & _ & Hfit & Em).
    unfold parse_with. cbv zeta. rewrite Hpp. cbn [negb orb]. change c_pageSize with 16384.
    destruct (N.ltb_spec (len bs) 16384) as [|_]; [lia|].
    rewrite hdr_np_val. change (28 + 4) with 32. rewrite <- E28.
    destruct (N.ltb_spec 16384 hdr) as [|_]; [lia|]. cbn [orb].
    destruct (N.ltb_spec hdr 32) as [|_]; [lia|].
    rewrite <- Em. unfold meta_kv in Ek. rewrite parse_meta_lines, Ek. cbn [rev app].
    rewrite parse_buckets_ref. change (range_from 0 (N.to_nat c_numHash)) with buckets.
    rewrite (pb_ref_table buckets tbl [] [] Ht).
    - rewrite walk_spec_nodup; [|now apply pairwise_names|intros r _ []].
      rewrite app_nil_r, rev_involutive. reflexivity.
    - apply Forall_forall. intros i Hi. now apply buckets_in.
    - lia.
    - exact H3.
  Qed.
End Faithful.

Theorem parse_faithful oob bs : wf_file bs = true ->
  match spec_decode bs with Some (kv, cs) => parse_with oob bs = POk kv cs | None => False end.
Proof.
  unfold wf_file, spec_decode.
  destruct (spec_read bs) as [[[[[hdr meta] kv] limit] tbl]|] eqn:E; [|discriminate].
  intros _. exact (parse_wf oob bs hdr meta kv limit tbl E).
Qed.

(* ---------------------------------------------------------------- bytes after the input *)

Lemma head_word_indep o1 o2 bs off :
  head_word o1 (len bs) off (dropN bs off) = head_word o2 (len bs) off (dropN bs off).
Proof.
  destruct (N.lt_ge_cases (len bs) (off + 4)) as [Hlt|Hge].
  - unfold head_word. destruct (N.ltb_spec (len bs) (off + 4)); [reflexivity|lia].
  - rewrite !head_word_in by exact Hge. reflexivity.
Qed.

Lemma pb_ref_indep o1 o2 bs hdr : forall is seen acc,
  pb_ref o1 (len bs) bs hdr is seen acc = pb_ref o2 (len bs) bs hdr is seen acc.
Proof.
  induction is as [|i t IH]; intros seen acc; [reflexivity|]. cbn [pb_ref].
  rewrite (head_word_indep o1 o2).
  destruct (parse_walk _ _ _ _ _ _ _ _); try reflexivity. apply IH.
Qed.

(* for every input the answer is a function of the input alone *)
Theorem parse_oob_indep o1 o2 bs : parse_with o1 bs = parse_with o2 bs.
Proof.
  unfold parse_with. cbv zeta.
  destruct (negb (has_prefix bs c_hdrPrefix) || (len bs <? c_pageSize)); [reflexivity|].
  destruct (_ || _); [reflexivity|]. destruct (parse_meta _ _); [|reflexivity].
  rewrite !parse_buckets_ref. rewrite (pb_ref_indep o1 o2). reflexivity.
Qed.

(* ---------------------------------------------------------------- Read / ReadFile *)

Lemma find_last_from cs : forall k acc,
  fold_left (fun acc kv => if beq (fst kv) k then Some (snd kv) else acc) cs acc =
  match find_last k cs with Some v => Some v | None => acc end.
Proof.
  unfold find_last. induction cs as [|[k' v'] t IH]; intros k acc; [reflexivity|]. cbn [fold_left fst snd].
  rewrite (IH k (if beq k' k then Some v' else acc)), (IH k (if beq k' k then Some v' else None)).
  destruct (fold_left _ t None); [reflexivity|]. destruct (beq k' k); reflexivity.
Qed.

Lemma find_last_none k cs : ~ In k (map fst cs) -> find_last k cs = None.
Proof.
  induction cs as [|[k' v'] t IH]; intro H; [reflexivity|]. unfold find_last. cbn [fold_left fst snd].
  rewrite find_last_from. cbn [map fst In] in H.
  rewrite IH by tauto. replace (beq k' k) with false; [reflexivity|]. symmetry. apply beq_neq. tauto.
Qed.

(* with pairwise different keys the map holds the listed value *)
Lemma find_last_nodup k v cs : NoDup (map fst cs) -> In (k, v) cs -> find_last k cs = Some v.
Proof.
  induction cs as [|[k' v'] t IH]; intros Hnd Hin; [contradiction|]. cbn [map fst] in Hnd.
  inversion Hnd as [|? ? Hni Hnd']; subst. unfold find_last. cbn [fold_left fst snd]. rewrite find_last_from.
  destruct Hin as [E|Hin].
  - injection E as -> ->. rewrite find_last_none by exact Hni. now rewrite beq_refl.
  - now rewrite (IH Hnd' Hin).
Qed.

(* read_faithful: whatever mapping the reading process holds, Read returns what
   the independent reader of the file's current contents finds under the
   expanded name (the later record when two expand to the same name) *)
Theorem read_faithful bs name : wf_file bs = true ->
  match spec_decode bs with
  | Some (_, cs) =>
      read_counter bs name =
      match find_last (decode_stack name) cs with Some v => RdVal v | None => RdNotFound end
  | None => False
  end.
Proof.
  intro Hwf. pose proof (parse_faithful [] bs Hwf) as P. destruct (spec_decode bs) as [[kv cs]|]; [|exact P].
  unfold read_counter, parse. now rewrite P.
Qed.

(* a counter the file holds, no other record expanding to its name: its value *)
Theorem read_finds_record bs rs r : wf_file bs = true -> spec_records bs = Some rs -> In r rs ->
  NoDup (map (fun x => decode_stack (r_name x)) rs) ->
  read_counter bs (r_name r) = RdVal (r_val r).
Proof.
  intros Hwf Hr Hin Hnd. pose proof (read_faithful bs (r_name r) Hwf) as P.
  unfold spec_decode, spec_records in *.
  destruct (spec_read bs) as [[[[[hdr meta] kv] limit] tbl]|]; [|discriminate]. injection Hr as <-.
  rewrite P. rewrite (find_last_nodup (decode_stack (r_name r)) (r_val r)); [reflexivity| |].
  - unfold decoded. rewrite map_map. exact Hnd.
  - unfold decoded. apply in_map_iff. exists r. split; [reflexivity|exact Hin].
Qed.

Theorem read_file_faithful bs : wf_file bs = true ->
  match spec_decode bs with
  | Some (_, cs) =>
      read_file bs =
      Some (filter (fun kv => negb (is_stack_name (fst kv))) (last_wins cs),
            map (fun kv => (decode_stack (fst kv), snd kv)) (filter (fun kv => is_stack_name (fst kv)) (last_wins cs)))
  | None => False
  end.
Proof.
  intro Hwf. pose proof (parse_faithful [] bs Hwf) as P. destruct (spec_decode bs) as [[kv cs]|]; [|exact P].
  unfold read_file, parse. now rewrite P.
Qed.
