(* Proofs/ParseFacts: Parse is total (the fuel of the model is never used up,
   no slice leaves the input below 4 GiB), sound (returns only linked
   records), faithful on well-formed files up to the raw/expanded duplicate
   test, and independent of the bytes after its input outside one class of
   header lengths. *)
From Coq Require Import List Arith NArith ZArith Bool Lia Permutation.
From Tele Require Import Lib.Bytes Lib.BytesN Gen.Consts Model.DecodeStack Model.Layout Model.Parse
  Proofs.LayoutArith Proofs.LayoutRead.
Import ListNotations.
Open Scope N_scope.

(* ---------------------------------------------------------------- totality *)

Lemma parse_walk_total fuel sz bs hdr : forall n off acc,
  sz / 32 + 2 <= N.of_nat fuel + n -> n <= sz / 32 + 1 ->
  parse_walk fuel sz bs hdr n off acc <> WDiverge.
Proof.
  induction fuel as [|f IH]; intros n off acc H1 H2.
  - cbn in H1. lia.
  - cbn [parse_walk]. destruct (off =? 0); [discriminate|]. change c_recordUnit with 32.
    destruct (N.ltb_spec (sz / 32) n) as [|Hn]; [discriminate|].
    destruct (entry_at_sz sz bs hdr off) as [[[ename next] v]|]; [|discriminate].
    destruct (has_key ename acc); [discriminate|]. apply IH; lia.
Qed.

(* the outer loop in the form with one load32 per bucket *)
Fixpoint pb_ref (oob : bytes) (sz : N) (bs : bytes) (hdr : N) (is : list N) (acc : list (bytes * N)) : wresult :=
  match is with
  | [] => WOk acc
  | i :: is' =>
      match parse_walk (walk_fuel_sz sz) sz bs hdr 0
              (head_word oob sz (head_off hdr i) (dropN bs (head_off hdr i))) acc with
      | WOk acc' => pb_ref oob sz bs hdr is' acc'
      | r => r
      end
  end.

Lemma parse_buckets_ref oob sz bs hdr : forall k a acc,
  parse_buckets oob sz bs hdr (range_from a k) (dropN bs (head_off hdr a)) acc
  = pb_ref oob sz bs hdr (range_from a k) acc.
Proof.
  induction k as [|k IH]; intros a acc; [reflexivity|]. cbn [range_from parse_buckets pb_ref].
  destruct (parse_walk _ _ _ _ _ _ _) as [| |acc']; try reflexivity.
  rewrite dropN_dropN. replace (head_off hdr a + 4) with (head_off hdr (a + 1)) by (rewrite !head_off_val; lia).
  apply IH.
Qed.

Lemma pb_ref_total oob sz bs hdr : forall is acc, pb_ref oob sz bs hdr is acc <> WDiverge.
Proof.
  induction is as [|i t IH]; intro acc; cbn [pb_ref]; [discriminate|].
  destruct (parse_walk _ _ _ _ _ _ _) as [| |acc'] eqn:E; [|discriminate|apply IH].
  exfalso. revert E. apply parse_walk_total.
  - unfold walk_fuel_sz. change c_recordUnit with 32. set (q := sz / 32).
    rewrite !Nat2N.inj_succ, N2Nat.id. lia.
  - apply N.le_0_l.
Qed.

(* parse_total: whatever the input and whatever follows it in memory, the
   walk bound of the source stops every chain before the model's fuel
   (len/32 + 2 per bucket) is used up *)
Theorem parse_total oob bs : parse_with oob bs <> PDiverge.
Proof.
  unfold parse_with. cbv zeta.
  destruct (negb (has_prefix bs c_hdrPrefix) || (len bs <? c_pageSize)).
  - destruct (len bs <? c_pageSize); discriminate.
  - destruct (_ || _); [discriminate|].
    destruct (parse_meta _ _); [|discriminate].
    rewrite parse_buckets_ref.
    destruct (pb_ref _ _ _ _ _ _) eqn:E; try discriminate. exfalso. revert E. apply pb_ref_total.
Qed.

(* no partial operation: with the uint32 arithmetic and the slice expression
   of the source spelled out, entryAt on a mapping below 4 GiB is entry_at *)
Lemma entry_u32_eq bs hdr off : len bs < 4294967296 -> off < 4294967296 -> hdr <= 16384 ->
  entry_at_u32 bs hdr off =
  match entry_at bs hdr off with None => ENone | Some (nm, nx, v) => ESome nm nx v end.
Proof.
  intros Hl Ho Hh. rewrite entry_at_nf. unfold entry_at_u32, u32, load32. change c_hashOff with 4.
  rewrite (N.mod_small (hdr + 4)) by lia.
  destruct (N.ltb_spec off (hdr + 4)) as [|H1]; cbn [orb]; [reflexivity|].
  destruct (N.ltb_spec (len bs) (off + 16)) as [|H2]; [reflexivity|].
  rewrite (N.mod_small (off + 8)), (N.mod_small (off + 12)), (N.mod_small (off + 16)) by lia.
  destruct (N.leb_spec (len bs) (off + 8)) as [|_]; [lia|].
  destruct (N.leb_spec (len bs) (off + 12)) as [|_]; [lia|].
  change 16777215 with (N.ones 24). rewrite N.land_ones. change (2 ^ 24) with 16777216.
  set (nl := get32 bs (off + 8) mod 16777216).
  destruct (N.eqb_spec nl 0) as [|H3]; cbn [orb]; [reflexivity|].
  destruct (N.ltb_spec (len bs) (off + 16 + nl)) as [|H4]; [reflexivity|].
  rewrite (N.mod_small (off + 16 + nl)) by lia.
  destruct (N.ltb_spec (off + 16 + nl) (off + 16)) as [|_]; [lia|]. cbn [orb].
  destruct (N.ltb_spec (len bs) (off + 16 + nl)) as [|_]; [lia|].
  replace (off + 16 + nl - (off + 16)) with nl by lia. reflexivity.
Qed.

(* ---------------------------------------------------------------- soundness *)

Section Sound.
  Variables (oob bs : bytes).
  Let sz := len bs.
  Let hl := get32 bs 28.

  (* records reachable from a bucket head (as Parse loads it) by next links *)
  Inductive linked : N -> Prop :=
  | L_head i : i < 512 -> linked (head_word oob sz (head_off hl i) (dropN bs (head_off hl i)))
  | L_next off name next v : linked off -> entry_at bs hl off = Some (name, next, v) -> linked next.

  Definition from_record (kv : bytes * N) : Prop :=
    exists off name next, linked off /\ entry_at bs hl off = Some (name, next, snd kv) /\
                          fst kv = decode_stack name.

  Lemma parse_walk_sound fuel : forall n off acc acc',
    linked off -> Forall from_record acc ->
    parse_walk fuel sz bs hl n off acc = WOk acc' -> Forall from_record acc'.
  Proof.
    induction fuel as [|f IH]; intros n off acc acc' Hl Ha; cbn [parse_walk].
    - destruct (off =? 0); [|discriminate]. intro E. injection E as <-. exact Ha.
    - destruct (off =? 0); [intro E; injection E as <-; exact Ha|].
      destruct (_ <? n); [discriminate|].
      destruct (entry_at_sz sz bs hl off) as [[[ename next] v]|] eqn:E; [|discriminate].
      destruct (has_key ename acc); [discriminate|].
      apply IH.
      + eapply L_next; [exact Hl|exact E].
      + constructor; [|exact Ha]. exists off, ename, next. repeat split; assumption.
  Qed.

  Lemma pb_ref_sound : forall is acc acc', Forall (fun i => i < 512) is -> Forall from_record acc ->
    pb_ref oob sz bs hl is acc = WOk acc' -> Forall from_record acc'.
  Proof.
    induction is as [|i t IH]; intros acc acc' Hi Ha; cbn [pb_ref].
    - intro E. injection E as <-. exact Ha.
    - inversion Hi as [|? ? Hi1 Hi2]; subst.
      destruct (parse_walk _ _ _ _ _ _ _) as [| |acc1] eqn:E; try discriminate.
      intro E2. apply (IH acc1 acc' Hi2); [|exact E2].
      eapply parse_walk_sound; [|exact Ha|exact E]. now apply L_head.
  Qed.

  Theorem parse_sound kv cs : parse_with oob bs = POk kv cs -> Forall from_record cs.
  Proof.
    unfold parse_with. cbv zeta.
    destruct (negb (has_prefix bs c_hdrPrefix) || (len bs <? c_pageSize)).
    - destruct (len bs <? c_pageSize); discriminate.
    - rewrite hdr_np_val. fold hl. destruct (_ || _); [discriminate|].
      destruct (parse_meta _ _); [|discriminate].
      rewrite parse_buckets_ref. fold sz.
      destruct (pb_ref _ _ _ _ _ _) as [| |acc] eqn:E; try discriminate.
      intro X. injection X as _ <-. apply Forall_rev.
      eapply pb_ref_sound; [|constructor|exact E].
      apply Forall_forall. intros i Hi. apply range_from_in in Hi.
      change (N.to_nat c_numHash) with 512%nat in Hi. lia.
  Qed.
End Sound.

(* ---------------------------------------------------------------- faithfulness *)

Lemma parse_meta_lines lines : forall acc,
  parse_meta lines acc = match meta_lines lines with Some r => Some (rev acc ++ r) | None => None end.
Proof.
  induction lines as [|l t IH]; intro acc; cbn [parse_meta meta_lines].
  - now rewrite app_nil_r.
  - destruct l as [|c l']; [apply IH|].
    destruct (cut (c :: l') sep_colon) as [[k v] ok]. destruct ok; [|reflexivity].
    rewrite IH. destruct (meta_lines t) as [r|]; [|reflexivity]. cbn [rev]. now rewrite <- app_assoc.
Qed.

(* the inner loop on a chain the layout reader accepts *)
Fixpoint walk_spec (acc : list (bytes * N)) (c : list rec) : wresult :=
  match c with
  | [] => WOk acc
  | r :: t => if has_key (r_name r) acc then WCorrupt
              else walk_spec ((decode_stack (r_name r), r_val r) :: acc) t
  end.

Lemma parse_walk_chain bs hdr limit : forall f off c fuel n acc,
  spec_chain f bs hdr limit off = Some c -> limit <= len bs ->
  n + N.of_nat (length c) <= len bs / 32 + 1 -> (length c < fuel)%nat ->
  parse_walk fuel (len bs) bs hdr n off acc = walk_spec acc c.
Proof.
  induction f as [|f IH]; intros off c fuel n acc H Hl Hn Hf.
  - cbn [spec_chain] in H. destruct (N.eqb_spec off 0) as [->|]; [|discriminate].
    injection H as <-. destruct fuel; reflexivity.
  - destruct (N.eqb_spec off 0) as [->|Hz].
    + rewrite spec_chain_0 in H. injection H as <-. destruct fuel; reflexivity.
    + rewrite spec_chain_S in H by exact Hz.
      destruct (spec_record bs hdr limit off) as [[[ename next] v]|] eqn:E; [|discriminate].
      destruct (spec_chain f bs hdr limit next) as [c'|] eqn:E2; [|discriminate].
      injection H as <-. cbn [length] in *.
      destruct fuel as [|fuel]; [lia|]. cbn [parse_walk walk_spec].
      destruct (N.eqb_spec off 0); [contradiction|]. change c_recordUnit with 32.
      destruct (N.ltb_spec (len bs / 32) n) as [X|_]; [lia|].
      pose proof (spec_record_entry _ _ _ _ _ E Hl) as Ee. unfold entry_at in Ee. rewrite Ee.
      change (r_name (off, ename, v)) with ename. change (r_val (off, ename, v)) with v.
      destruct (has_key ename acc); [reflexivity|].
      apply (IH next c' fuel (n + 1) _ E2 Hl); lia.
Qed.

Lemma walk_spec_app acc c1 c2 :
  walk_spec acc (c1 ++ c2) = match walk_spec acc c1 with WOk acc' => walk_spec acc' c2 | r => r end.
Proof.
  revert acc; induction c1 as [|r t IH]; intro acc; cbn [app walk_spec]; [reflexivity|].
  destruct (has_key (r_name r) acc); [reflexivity|apply IH].
Qed.

Lemma existsb_map {A B} (p : B -> bool) (g : A -> B) l : existsb p (map g l) = existsb (fun x => p (g x)) l.
Proof. induction l as [|x t IH]; [reflexivity|]. cbn [map existsb]. now rewrite IH. Qed.

Lemma walk_spec_clash rs : forall acc,
  walk_spec acc rs = if twin_clash_from (map fst acc) rs then WCorrupt else WOk (rev (decoded rs) ++ acc).
Proof.
  induction rs as [|r t IH]; intro acc; cbn [walk_spec twin_clash_from decoded map rev]; [reflexivity|].
  unfold has_key. rewrite (existsb_map (fun k => beq k (r_name r)) fst).
  destruct (existsb _ acc); cbn [orb]; [reflexivity|].
  rewrite IH. cbn [map fst]. destruct (twin_clash_from _ t); [reflexivity|].
  unfold decoded. rewrite <- app_assoc. reflexivity.
Qed.

Lemma head_word_in oob bs off : off + 4 <= len bs ->
  head_word oob (len bs) off (dropN bs off) = get32 bs off.
Proof.
  intro H. unfold head_word, get32.
  destruct (N.leb_spec (len bs) off) as [|_]; [lia|].
  pose proof (len_dropN bs off) as L.
  destruct (dropN bs off) as [|a [|b [|c [|d t]]]]; rewrite ?len_cons, ?len_nil in L; try lia; reflexivity.
Qed.

Section Faithful.
  Variables (oob bs : bytes) (hdr : N) (meta : bytes) (kv : list (bytes * bytes)) (limit : N)
            (tbl : list (list rec)).
  Hypothesis Hread : spec_read bs = Some (hdr, meta, kv, limit, tbl).

  Lemma pb_ref_table : forall is t acc,
    Forall2 (bucket_ok bs hdr limit) is t -> Forall (fun i => i < 512) is ->
    hdr + 2052 <= len bs -> limit <= len bs ->
    pb_ref oob (len bs) bs hdr is acc = walk_spec acc (concat t).
  Proof.
    intros is t acc H. revert acc. induction H as [|i c is t Hb Hf IH]; intros acc Hi Hh Hl; [reflexivity|].
    inversion Hi as [|? ? Hi1 Hi2]; subst. cbn [pb_ref concat]. rewrite walk_spec_app.
    rewrite head_word_in by (rewrite head_off_val; lia).
    unfold bucket_ok in Hb. apply spec_bucket_inv in Hb as [Hc _].
    pose proof (spec_chain_length _ _ _ _ _ _ Hc) as Hlen.
    assert (Hdiv : limit / 32 <= len bs / 32) by (apply N.div_le_mono; lia).
    unfold chain_fuel in Hlen. change c_recordUnit with 32 in Hlen.
    rewrite (parse_walk_chain bs hdr limit _ _ c _ 0 acc Hc Hl).
    2:{ lia. }
    2:{ unfold walk_fuel_sz. change c_recordUnit with 32. lia. }
    destruct (walk_spec acc c); try reflexivity. now apply IH.
  Qed.

  (* parse_faithful, with the exact condition under which the raw/expanded
     duplicate test rejects a well-formed file *)
  Theorem parse_wf :
    parse_with oob bs =
    if twin_clash_from [] (concat tbl) then PErrCorrupt else POk kv (decoded (concat tbl)).
  Proof.
    pose proof (spec_read_inv _ _ _ _ _ _ Hread) as (Eh & Ek & El & H1 & H2 & H3 & H4 & H5 & Ht & Hp).
    pose proof (spec_header_inv _ _ _ Eh) as (hh & Hm & _ & Elen & E28 & Em & Hpp & Hle).
    pose proof (mapped_header_len _ _ Hm) as (_ & _ & Hb & _). rewrite Elen in Hb.
    unfold parse_with. cbv zeta. rewrite Hpp. cbn [negb orb]. change c_pageSize with 16384.
    destruct (N.ltb_spec (len bs) 16384) as [|_]; [lia|].
    rewrite hdr_np_val. change (28 + 4) with 32. rewrite <- E28.
    destruct (N.ltb_spec 16384 hdr) as [|_]; [lia|]. cbn [orb].
    destruct (N.ltb_spec hdr 32) as [|_]; [lia|].
    rewrite <- Em. unfold meta_kv in Ek. rewrite parse_meta_lines, Ek. cbn [rev app].
    rewrite parse_buckets_ref. change (range_from 0 (N.to_nat c_numHash)) with buckets.
    rewrite (pb_ref_table buckets tbl [] Ht).
    - rewrite walk_spec_clash. cbn [map]. destruct (twin_clash_from [] (concat tbl)); [reflexivity|].
      rewrite app_nil_r, rev_involutive. reflexivity.
    - apply Forall_forall. intros i Hi. now apply buckets_in.
    - lia.
    - exact H3.
  Qed.
End Faithful.

Theorem parse_faithful oob bs : wf_file bs = true -> twin_clash bs = false ->
  match spec_decode bs with Some (kv, cs) => parse_with oob bs = POk kv cs | None => False end.
Proof.
  unfold wf_file, twin_clash, spec_decode, spec_records.
  destruct (spec_read bs) as [[[[[hdr meta] kv] limit] tbl]|] eqn:E; [|discriminate].
  intros _ Hc. rewrite (parse_wf oob bs hdr meta kv limit tbl E), Hc. reflexivity.
Qed.

Theorem parse_rejects_twin oob bs : wf_file bs = true -> twin_clash bs = true ->
  parse_with oob bs = PErrCorrupt.
Proof.
  unfold wf_file, twin_clash, spec_records.
  destruct (spec_read bs) as [[[[[hdr meta] kv] limit] tbl]|] eqn:E; [|discriminate].
  intros _ Hc. rewrite (parse_wf oob bs hdr meta kv limit tbl E), Hc. reflexivity.
Qed.

(* a sufficient condition without reference to the walk order: no name is the
   expansion of a different name *)
Lemma no_twin_no_clash rs : forall seen,
  NoDup (map r_name rs) ->
  (forall r, In r rs -> ~ In (r_name r) seen) ->
  (forall a b, In a rs -> In b rs -> r_name a <> r_name b -> r_name b <> decode_stack (r_name a)) ->
  twin_clash_from seen rs = false.
Proof.
  induction rs as [|r t IH]; intros seen Hnd Hs Hd; [reflexivity|]. cbn [twin_clash_from].
  cbn [map] in Hnd. inversion Hnd as [|? ? Hni Hnd']; subst.
  apply orb_false_iff. split.
  - destruct (existsb _ seen) eqn:E; [|reflexivity]. exfalso.
    apply existsb_exists in E as (k & Hk & Eb). apply beq_eq in Eb. subst k.
    apply (Hs r); [now left|exact Hk].
  - apply IH; [exact Hnd'| |].
    + intros r' Hr' [Hin|Hin].
      * apply (Hd r r'); [now left|now right| |now symmetry].
        intro X. apply Hni. rewrite X. now apply in_map.
      * apply (Hs r'); [now right|exact Hin].
    + intros a b Ha Hb. apply Hd; now right.
Qed.

(* ---------------------------------------------------------------- bytes after the input *)

Lemma head_word_indep o1 o2 bs off : negb ((off <? len bs) && (len bs <? off + 4)) = true ->
  head_word o1 (len bs) off (dropN bs off) = head_word o2 (len bs) off (dropN bs off).
Proof.
  intro H. apply negb_true_iff, andb_false_iff in H.
  destruct (N.le_gt_cases (len bs) off) as [Hle|Hgt].
  - unfold head_word. destruct (N.leb_spec (len bs) off); [reflexivity|lia].
  - destruct H as [H|H]; [apply N.ltb_ge in H; lia|]. apply N.ltb_ge in H.
    rewrite !head_word_in by exact H. reflexivity.
Qed.

Lemma pb_ref_indep o1 o2 bs hdr : forall is acc,
  (forall i, In i is -> negb ((head_off hdr i <? len bs) && (len bs <? head_off hdr i + 4)) = true) ->
  pb_ref o1 (len bs) bs hdr is acc = pb_ref o2 (len bs) bs hdr is acc.
Proof.
  induction is as [|i t IH]; intros acc H; [reflexivity|]. cbn [pb_ref].
  rewrite (head_word_indep o1 o2) by (apply H; now left).
  destruct (parse_walk _ _ _ _ _ _ _); try reflexivity. apply IH. intros j Hj. apply H. now right.
Qed.

(* outside the class oob_head the answer is a function of the input alone *)
Theorem parse_oob_indep o1 o2 bs : oob_head bs = false -> parse_with o1 bs = parse_with o2 bs.
Proof.
  intro H. unfold parse_with. cbv zeta.
  destruct (negb (has_prefix bs c_hdrPrefix) || (len bs <? c_pageSize)); [reflexivity|].
  destruct (_ || _); [reflexivity|]. destruct (parse_meta _ _); [|reflexivity].
  rewrite !parse_buckets_ref. change (range_from 0 (N.to_nat c_numHash)) with buckets.
  rewrite (pb_ref_indep o1 o2); [reflexivity|].
  intros i Hi. unfold oob_head in H. cbv zeta in H.
  apply negb_true_iff. destruct (_ && _) eqn:E; [|reflexivity]. exfalso.
  assert (X : existsb (fun i => (head_off (get32 bs hdr_np) i <? len bs)
                                && (len bs <? head_off (get32 bs hdr_np) i + 4)) buckets = true).
  { apply existsb_exists. exists i. split; assumption. }
  rewrite X in H. discriminate.
Qed.

Lemma wf_no_oob bs : wf_file bs = true -> oob_head bs = false.
Proof.
  unfold wf_file. destruct (spec_read bs) as [[[[[hdr meta] kv] limit] tbl]|] eqn:E; [|discriminate].
  intros _. apply spec_read_inv in E. destruct E as (Eh & _ & _ & _ & H2 & _).
  pose proof (spec_header_inv _ _ _ Eh) as (hh & Hm & _ & Elen & E28 & _).
  pose proof (mapped_header_len _ _ Hm) as (_ & _ & Hb & _). rewrite Elen in Hb.
  unfold oob_head. cbv zeta. rewrite hdr_np_val, <- E28.
  destruct (existsb _ buckets) eqn:X; [|reflexivity]. exfalso.
  apply existsb_exists in X as (i & Hi & Hx). apply buckets_in in Hi.
  apply andb_true_iff in Hx as [_ Hx]. apply N.ltb_lt in Hx. rewrite head_off_val in Hx. lia.
Qed.
