(* Proofs/ReportOracleSound: what it MEANS when the executable oracle of C01
   accepts an upload report (any report, in particular the implementation's):
   report_ok = true implies the property's clauses in Prop form, stated with
   the documented semantics (approved_build, counter_entry, stack_entry) and
   the true sums.  Together with Proofs/ReportOracle (the oracle accepts the
   model outside the known classes) this pins the oracle from both sides. *)
From Coq Require Import List ZArith NArith Bool Lia.
From Tele Require Import Lib.Bytes Lib.Str Lib.Assoc Model.Config Model.ApprovalSpec Model.Report
  Proofs.ConfigFacts Proofs.AggregateFacts Proofs.ReportFacts Proofs.ReportOracle.
Import ListNotations.
Open Scope Z_scope.

Lemma flat_map_nil {A B} (g : A -> list B) l : flat_map g l = [] -> forall a, In a l -> g a = [].
Proof.
  induction l as [|a l IH]; cbn [flat_map]; intros H b Hb; [destruct Hb|].
  apply app_eq_nil in H as [H1 H2]. destruct Hb as [<-|Hb]; auto.
Qed.

Lemma dup_idents_nil l : dup_idents l = [] -> NoDup l.
Proof.
  induction l as [|i l IH]; cbn [dup_idents]; intro H; [constructor|].
  apply app_eq_nil in H as [H1 H2]. constructor; [|auto].
  intro Hin. destruct (existsb (ident_eqb i) l) eqn:E; [discriminate|].
  assert (Ht : existsb (ident_eqb i) l = true).
  { apply existsb_exists. exists i. split; [exact Hin | apply ident_eqb_eq; reflexivity]. }
  congruence.
Qed.

Lemma existsb_leb_true x l : existsb (N.leb x) l = true -> exists r, In r l /\ (x <= r)%N.
Proof. intro H. apply existsb_exists in H as [r [Hin Hle]]. apply N.leb_le in Hle. eauto. Qed.

Lemma check_value_nil files i k v :
  check_value files i k v = [] -> spec_entries files i k <> [] /\ v = spec_sum files i k.
Proof.
  unfold check_value, spec_sum. destruct (spec_entries files i k) as [|e es]; [discriminate|].
  destruct (v =? wrap64 (zsum (e :: es))); [|discriminate].
  destruct (v =? zsum (e :: es)) eqn:E; [|discriminate]. intros _. apply Z.eqb_eq in E.
  split; [discriminate | exact E].
Qed.

Definition counter_ok (u : upload_cfg) (files : list cfile) (x : N) (i : ident) (k : bytes) (v : Z) : Prop :=
  is_stack k = false /\
  (exists r, counter_entry u (id_program i) k r /\ (x <= r)%N) /\
  spec_entries files i k <> [] /\ v = spec_sum files i k.

Definition stack_ok (u : upload_cfg) (files : list cfile) (x : N) (i : ident) (k : bytes) (v : Z) : Prop :=
  is_stack k = true /\
  (exists r, stack_entry u (id_program i) (stack_title k) r /\ (x <= r)%N) /\
  spec_entries files i k <> [] /\ v = spec_sum files i k.

Lemma check_counter_nil u files x i k v :
  check_counter u files x i (k, v) = [] -> counter_ok u files x i k v.
Proof.
  unfold check_counter. cbv zeta. cbn [fst snd]. intro H. apply app_eq_nil in H as [H1 H2].
  apply check_value_nil in H2 as [Hne Hv].
  destruct (is_stack k) eqn:Es; cbn [orb] in H1; [discriminate|].
  destruct (approved_counterb u (id_program i) k) eqn:Ea; cbn [negb] in H1; [|discriminate].
  destruct (existsb (N.leb x) (counter_rates u (id_program i) k)) eqn:Ee.
  - apply existsb_leb_true in Ee as [r [Hin Hle]]. apply in_counter_rates in Hin.
    split; [exact Es|]. split; [eauto|]. auto.
  - destruct (nonempty (stack_rates u (id_program i) k) && (x <=? rate (new_config u) (id_program i) k)%N); discriminate.
Qed.

Lemma check_stack_nil u files x i k v :
  check_stack u files x i (k, v) = [] -> stack_ok u files x i k v.
Proof.
  unfold check_stack. cbv zeta. cbn [fst snd]. intro H. apply app_eq_nil in H as [H1 H2].
  apply check_value_nil in H2 as [Hne Hv].
  destruct (is_stack k) eqn:Es; cbn [negb orb] in H1; [|discriminate].
  destruct (approved_stackb u (id_program i) k) eqn:Ea; cbn [negb] in H1; [|discriminate].
  destruct (existsb (N.leb x) (stack_rates u (id_program i) (stack_title k))) eqn:Ee.
  - apply existsb_leb_true in Ee as [r [Hin Hle]]. apply in_stack_rates in Hin.
    split; [exact Es|]. split; [eauto|]. auto.
  - destruct (nonempty (counter_rates u (id_program i) (stack_title k)) && (x <=? rate (new_config u) (id_program i) (stack_title k))%N); discriminate.
Qed.

Definition prog_ok (u : upload_cfg) (files : list cfile) (x : N) (p : ident * body) : Prop :=
  approved_build u (fst p) /\
  (exists f, In f files /\ f_ident f = fst p) /\
  (forall k v, In (k, v) (fst (snd p)) -> counter_ok u files x (fst p) k v) /\
  (forall k v, In (k, v) (snd (snd p)) -> stack_ok u files x (fst p) k v).

Lemma check_prog_nil u files x p : check_prog u files x p = [] -> prog_ok u files x p.
Proof.
  unfold check_prog. cbv zeta. intro H.
  apply app_eq_nil in H as [H1 H]. apply app_eq_nil in H as [H2 H]. apply app_eq_nil in H as [H3 H4].
  destruct (approved_buildb u (fst p)) eqn:Ea; [|discriminate].
  destruct (existsb (fun f => ident_eqb (f_ident f) (fst p)) files) eqn:Ef; [|discriminate].
  split; [apply approved_buildb_spec; exact Ea|]. split.
  - apply existsb_exists in Ef as [f [Hf He]]. apply ident_eqb_eq in He. eauto.
  - split; intros k v Hin.
    + apply check_counter_nil. exact (flat_map_nil _ _ H3 _ Hin).
    + apply check_stack_nil. exact (flat_map_nil _ _ H4 _ Hin).
Qed.

(* completeness side: what a file of an approved build is owed *)
Definition present_ok (u : upload_cfg) (x : N) (up : progs) (f : cfile) : Prop :=
  approved_build u (f_ident f) ->
  exists b, aget ident_eqb (f_ident f) up = Some b /\
    forall k v0, In (k, v0) (f_counts f) ->
      (is_stack k = false -> (exists r, counter_entry u (id_program (f_ident f)) k r) ->
       (forall r, counter_entry u (id_program (f_ident f)) k r -> (x <= r)%N) ->
       exists v, aget beq k (fst b) = Some v) /\
      (is_stack k = true -> (exists r, stack_entry u (id_program (f_ident f)) (stack_title k) r) ->
       (forall r, stack_entry u (id_program (f_ident f)) (stack_title k) r -> (x <= r)%N) ->
       exists v, aget beq k (snd b) = Some v).

Lemma forallb_leb x l : (forall r, In r l -> (x <= r)%N) -> forallb (N.leb x) l = true.
Proof. intro H. apply forallb_forall. intros r Hr. apply N.leb_le. auto. Qed.

Lemma check_present_nil u x up f : check_present u x up f = [] -> present_ok u x up f.
Proof.
  unfold check_present, present_ok. cbv zeta. intros H Ha.
  rewrite (proj2 (approved_buildb_spec u (f_ident f)) Ha) in H.
  destruct (aget ident_eqb (f_ident f) up) as [b|]; [|discriminate].
  exists b. split; [reflexivity|]. intros k v0 Hk.
  pose proof (flat_map_nil _ _ H _ Hk) as Hkv. cbn [fst] in Hkv.
  split; intros Hs He Hall; rewrite Hs in Hkv.
  - assert (Hm : must_counter u x (id_program (f_ident f)) k = true).
    { unfold must_counter. rewrite (proj2 (approved_counterb_spec u _ k) He). cbn [andb].
      apply forallb_leb. intros r Hr. apply Hall, in_counter_rates, Hr. }
    rewrite Hm in Hkv. destruct (aget beq k (fst b)) as [v|]; [eauto|].
    destruct (nonempty (stack_rates u (id_program (f_ident f)) k) && negb (x <=? rate (new_config u) (id_program (f_ident f)) k)%N); discriminate.
  - assert (Hm : must_stack u x (id_program (f_ident f)) k = true).
    { unfold must_stack. rewrite (proj2 (approved_stackb_spec u _ k) He). cbn [andb].
      apply forallb_leb. intros r Hr. apply Hall, in_stack_rates, Hr. }
    rewrite Hm in Hkv. destruct (aget beq k (snd b)) as [v|]; [eauto|].
    destruct (nonempty (counter_rates u (id_program (f_ident f)) (stack_title k)) && negb (x <=? rate (new_config u) (id_program (f_ident f)) (stack_title k))%N); discriminate.
Qed.

(* The meaning of an accepted report. *)
Theorem report_ok_sound u files local up :
  report_ok u files local up = true ->
  header_ok local up = true /\
  NoDup (map fst (r_programs up)) /\
  (forall p, In p (r_programs up) -> prog_ok u files (r_x local) p) /\
  (forall f, In f files -> present_ok u (r_x local) (r_programs up) f).
Proof.
  unfold report_ok. destruct (report_check u files local up) eqn:E; [|discriminate]. intros _.
  unfold report_check in E. cbv zeta in E.
  apply app_eq_nil in E as [H1 E]. apply app_eq_nil in E as [H2 E]. apply app_eq_nil in E as [H3 H4].
  split; [destruct (header_ok local up); [reflexivity | discriminate]|].
  split; [apply dup_idents_nil; exact H2|]. split.
  - intros p Hp. apply check_prog_nil. exact (flat_map_nil _ _ H3 _ Hp).
  - intros f Hf. apply check_present_nil. exact (flat_map_nil _ _ H4 _ Hf).
Qed.
