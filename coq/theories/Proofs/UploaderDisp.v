(* Proofs/UploaderDisp: what a thread does with the report after the
   server's answer (its own next steps, by computation), and that while it
   is between lock and unlock no other thread can remove that report or
   write the uploaded marker of its week. *)
From Coq Require Import List ZArith NArith Bool Lia Arith.
From Tele Require Import Lib.Bytes Lib.FS Model.Span Model.Uploader
  Proofs.FSFacts Proofs.UploaderBase Proofs.UploaderLock Proofs.UploaderNames.
Import ListNotations.
Open Scope nat_scope.

(* the week a thread locks is the date part of the file it uploads *)
Definition upl_inv (t : thread) : Prop :=
  (in_cs (t_pc t) = true \/ t_pc t = ULock) -> fdate (t_file t) = Some (t_week t).

Lemma upl_inv_step f a t e t' : decide_all f a t = (e, t') -> upl_inv t -> upl_inv t'.
Proof.
  unfold upl_inv. intros H. destruct a; dinv H; adv; simpl; intros HI Hx; pcrw; simpl in *;
    try (destruct Hx as [Hx|Hx]; dmatch Hx; discriminate);
    try (apply HI; auto; fail); auto.
Qed.

Lemma upl_inv_reach st : reach st -> forall i t, nth_error (s_ths st) i = Some t -> upl_inv t.
Proof.
  apply thread_inv_reach; [|apply upl_inv_step].
  intros k c [H|H]; discriminate.
Qed.

Lemma in_cs_upl p : in_cs p = true -> in_upl p = true.
Proof. destruct p; auto. Qed.

Theorem cs_protects st i j a ti :
  reach st -> nth_error (s_ths st) i = Some ti -> in_cs (t_pc ti) = true -> j <> i ->
  (d_mem (f_local (s_fs st)) (t_file ti) = true ->
   d_mem (f_local (s_fs (step st (j, a)))) (t_file ti) = true) /\
  (d_mem (up_dir (s_fs st)) (marker_name (t_week ti)) = false ->
   d_mem (up_dir (s_fs (step st (j, a)))) (marker_name (t_week ti)) = false).
Proof.
  intros Hr Hi Hcs Hji.
  destruct (step_cases st j a) as [-> | (tj & e & t' & Hj & Hk & Hd & ->)]; [auto|].
  pose proof (lock_inv_reach _ Hr) as [HA HB].
  pose proof (names_inv_reach _ Hr _ _ Hi) as Ni.
  pose proof (names_inv_reach _ Hr _ _ Hj) as Nj.
  pose proof (upl_inv_reach _ Hr _ _ Hi) as Ui.
  pose proof (upl_inv_reach _ Hr _ _ Hj) as Uj.
  destruct (ni_file _ Ni (in_cs_upl _ Hcs)) as (Fc & Fl & Fj).
  simpl. rewrite local_apply, up_apply. split; intros H.
  - destruct e; auto.
    + destruct (eff_remlocal _ _ _ _ _ Hd) as [(Hp & rest & Hdel) | (Hp & -> & _)].
      * rewrite d_mem_remove_other; auto. intros ->.
        pose proof (ni_dels _ Nj) as D. rewrite Hdel in D. inversion D; subst. congruence.
      * rewrite d_mem_remove_other; auto. intros E.
        assert (Hcj : in_cs (t_pc tj) = true) by (destruct Hp as [-> | [-> | ->]]; reflexivity).
        apply (HB j i tj ti Hji Hj Hi Hcj Hcs).
        specialize (Ui (or_introl Hcs)). specialize (Uj (or_introl Hcj)).
        rewrite E in Uj. congruence.
    + rewrite d_mem_add, H. apply orb_true_r.
    + rewrite d_mem_set_id. exact H.
  - destruct e; auto.
    + rewrite d_mem_add, H, orb_false_r. apply beq_false_ne.
      destruct (eff_createlock _ _ _ _ _ Hd) as (_ & -> & _). apply lock_ne_marker.
    + rewrite d_mem_put, H, orb_false_r. apply beq_false_ne.
      destruct (eff_putup _ _ _ _ _ _ Hd) as (Hp & -> & _). intros E. apply marker_name_inj in E.
      apply (HB j i tj ti Hji Hj Hi); auto. rewrite Hp. reflexivity.
    + apply d_mem_remove_false. exact H.
Qed.

(* ---- the thread's own steps ---- *)
Definition after_answer (o : outcome) : pc :=
  match o with O200 => UWriteMarker | O4xx => URem4xx | _ => UUnlock end.

Lemma step_at st i a t e t' :
  nth_error (s_ths st) i = Some t -> t_killed t = false -> decide_all (s_fs st) a t = (e, t') ->
  step st (i, a) = mkSt (fst (apply_eff e (s_fs st) (s_log st))) (snd (apply_eff e (s_fs st) (s_log st)))
                        (upd (s_ths st) i t').
Proof.
  intros Hi Hk Hd. unfold step. simpl. rewrite Hi, step_thread_eq, Hk, Hd.
  destruct (apply_eff e (s_fs st) (s_log st)); reflexivity.
Qed.

Theorem step_at_post st i t o :
  nth_error (s_ths st) i = Some t -> t_killed t = false -> t_pc t = UPost ->
  step st (i, AStep o) =
  mkSt (s_fs st) (s_log st ++ [mkAck (t_week t) (t_buf t) o (t_id t)])
       (upd (s_ths st) i (set_pc t (after_answer o))).
Proof.
  intros Hi Hk Hp. erewrite step_at; eauto; [|simpl; unfold decide; rewrite Hp; reflexivity].
  reflexivity.
Qed.

Theorem step_at_rem4xx st i t o :
  nth_error (s_ths st) i = Some t -> t_killed t = false -> t_pc t = URem4xx ->
  step st (i, AStep o) =
  mkSt (set_local (s_fs st) (d_remove (f_local (s_fs st)) (t_file t))) (s_log st)
       (upd (s_ths st) i (set_pc t UUnlock)).
Proof.
  intros Hi Hk Hp. erewrite step_at; eauto; [|simpl; unfold decide; rewrite Hp; reflexivity].
  reflexivity.
Qed.

Theorem step_at_unlock st i t o :
  nth_error (s_ths st) i = Some t -> t_killed t = false -> t_pc t = UUnlock ->
  f_local (s_fs (step st (i, AStep o))) = f_local (s_fs st) /\
  s_log (step st (i, AStep o)) = s_log st /\
  forall w, d_mem (up_dir (s_fs (step st (i, AStep o)))) (marker_name w) =
            d_mem (up_dir (s_fs st)) (marker_name w).
Proof.
  intros Hi Hk Hp.
  destruct (f_upload (s_fs st)) as [d|] eqn:Hu.
  - erewrite step_at; eauto; [|simpl; unfold decide; rewrite Hp, Hu; reflexivity].
    cbn [s_fs s_log]. rewrite local_apply, log_apply. repeat split; auto.
    intros w. rewrite up_apply. apply d_mem_remove_other, lock_ne_marker.
  - erewrite step_at; eauto; [|simpl; unfold decide; rewrite Hp, Hu; reflexivity].
    simpl. auto.
Qed.

Theorem step_at_writemarker st i t o :
  reach st -> nth_error (s_ths st) i = Some t -> t_killed t = false -> t_pc t = UWriteMarker ->
  d_get (up_dir (s_fs (step st (i, AStep o)))) (marker_name (t_week t)) = Some (t_buf t) /\
  f_local (s_fs (step st (i, AStep o))) = f_local (s_fs st) /\
  nth_error (s_ths (step st (i, AStep o))) i = Some (set_pc t URemDone).
Proof.
  intros Hr Hi Hk Hp.
  pose proof (lock_inv_reach _ Hr) as [HA _].
  assert (Hl := HA _ _ Hi). rewrite Hp in Hl. specialize (Hl eq_refl).
  destruct (f_upload (s_fs st)) as [d|] eqn:Hu.
  - erewrite step_at; eauto; [|simpl; unfold decide; rewrite Hp, Hu; reflexivity].
    cbn [s_fs s_ths]. rewrite local_apply, up_apply, d_get_put, beq_refl, nth_error_upd, Nat.eqb_refl, Hi. auto.
  - unfold up_dir in Hl. rewrite Hu in Hl. discriminate.
Qed.

(* the body sent is the content read from the report file *)
Theorem step_at_read st i t o c w :
  nth_error (s_ths st) i = Some t -> t_killed t = false -> t_pc t = URead ->
  d_get (f_local (s_fs st)) (t_file t) = Some c -> fdate (t_file t) = Some w ->
  step st (i, AStep o) = mkSt (s_fs st) (s_log st) (upd (s_ths st) i (set_buf t ULock w c)).
Proof.
  intros Hi Hk Hp Hc Hw. erewrite step_at; eauto; [|simpl; unfold decide; rewrite Hp, Hc, Hw; reflexivity].
  simpl. destruct st as [[? ? ?] ? ?]; reflexivity.
Qed.

(* a report name too short to hold a date is skipped: nothing changes, the
   thread goes on to the next ready file (fix 8d04c54; it used to panic) *)
Theorem step_at_read_short st i t o c :
  nth_error (s_ths st) i = Some t -> t_killed t = false -> t_pc t = URead ->
  d_get (f_local (s_fs st)) (t_file t) = Some c -> fdate (t_file t) = None ->
  step st (i, AStep o) = mkSt (s_fs st) (s_log st) (upd (s_ths st) i (advance t)).
Proof.
  intros Hi Hk Hp Hc Hw. erewrite step_at; eauto; [|simpl; unfold decide; rewrite Hp, Hc, Hw; reflexivity].
  simpl. destruct st as [[? ? ?] ? ?]; reflexivity.
Qed.

(* between the read and the request the buffer is not touched *)
Definition buf_phase (p : pc) : bool := match p with ULock | UStat | UPost => true | _ => false end.

Lemma buf_kept f a t e t' :
  decide_all f a t = (e, t') -> buf_phase (t_pc t) = true -> buf_phase (t_pc t') = true ->
  t_buf t' = t_buf t /\ t_file t' = t_file t.
Proof.
  intros H. destruct a; dinv H; adv; simpl; intros H1 H2; pcrw; simpl in *; try discriminate; auto.
Qed.
