(* Proofs/LayoutRead: reading side of the layout model: normal forms of the
   record readers, frame lemmas (what a reader depends on), chains, the
   structure of spec_read, and the library's lookup on well-formed files. *)
From Coq Require Import List Arith NArith ZArith Bool Lia.
From Tele Require Import Lib.Bytes Lib.BytesN Gen.Consts Model.DecodeStack Model.Layout Proofs.LayoutArith.
Import ListNotations.
Open Scope N_scope.

(* ---------------------------------------------------------------- offsets *)

Lemma dropN_dropN bs a b : dropN (dropN bs a) b = dropN bs (a + b).
Proof.
  apply bytes_ext.
  - rewrite !len_dropN. lia.
  - intros i Hi. rewrite !getb_dropN. f_equal. lia.
Qed.

Lemma get32_dropN bs off k : get32 (dropN bs off) k = get32 bs (off + k).
Proof. apply get32_ext2. intros j Hj. rewrite getb_dropN. f_equal. lia. Qed.

Lemma get64_dropN bs off k : get64 (dropN bs off) k = get64 bs (off + k).
Proof. apply get64_ext2. intros j Hj. rewrite getb_dropN. f_equal. lia. Qed.

Lemma slice_dropN bs off k n : slice (dropN bs off) k n = slice bs (off + k) n.
Proof. unfold slice. now rewrite dropN_dropN. Qed.

(* ---------------------------------------------------------------- agreement *)

Definition agree (a b : bytes) (lo hi : N) : Prop :=
  forall i, lo <= i -> i < hi -> getb a i = getb b i.

Lemma agree_refl a lo hi : agree a a lo hi.
Proof. intros i _ _. reflexivity. Qed.
Lemma agree_sym a b lo hi : agree a b lo hi -> agree b a lo hi.
Proof. intros H i H1 H2. symmetry. now apply H. Qed.
Lemma agree_trans a b c lo hi : agree a b lo hi -> agree b c lo hi -> agree a c lo hi.
Proof. intros H1 H2 i Hl Hh. rewrite H1 by assumption. now apply H2. Qed.
Lemma agree_sub a b lo hi lo' hi' : agree a b lo hi -> lo <= lo' -> hi' <= hi -> agree a b lo' hi'.
Proof. intros H Hl Hh i H1 H2. apply H; lia. Qed.

Lemma agree_put bs off d lo hi : off + len d <= len bs ->
  hi <= off \/ off + len d <= lo -> agree bs (put bs off d) lo hi.
Proof.
  intros H Hd i H1 H2. rewrite getb_put by exact H.
  replace ((off <=? i) && (i <? off + len d)) with false; [reflexivity|].
  symmetry. apply andb_false_iff.
  destruct Hd; [left; apply N.leb_gt|right; apply N.ltb_ge]; lia.
Qed.

Lemma agree_app_zeros bs n lo hi : agree bs (bs ++ zeros n) lo hi.
Proof. intros i _ _. symmetry. apply getb_app_zeros. Qed.

Lemma get32_agree a b off : agree a b off (off + 4) -> get32 a off = get32 b off.
Proof. intro H. apply get32_ext. intros i Hi. apply H; lia. Qed.

Lemma get64_agree a b off : agree a b off (off + 8) -> get64 a off = get64 b off.
Proof. intro H. apply get64_ext. intros i Hi. apply H; lia. Qed.

Lemma slice_agree a b off n : off + n <= len a -> off + n <= len b ->
  agree a b off (off + n) -> slice a off n = slice b off n.
Proof. intros Ha Hb H. apply slice_ext; try assumption. intros i Hi. apply H; lia. Qed.

Lemma has_prefix_agree a b p : has_prefix a p = true -> len p <= len b ->
  agree a b 0 (len p) -> has_prefix b p = true.
Proof.
  intros H Hb Ha. apply has_prefix_slice in H as [Hl Hs]. apply has_prefix_slice. split; [exact Hb|].
  rewrite <- Hs at 2. symmetry. apply slice_agree; try lia. exact Ha.
Qed.

(* ---------------------------------------------------------------- records *)

Lemma spec_record_nf bs hdr limit off :
  spec_record bs hdr limit off =
  if negb (off mod 32 =? 0) then None else
  if off <? first_off hdr then None else
  if (get32 bs (off + 8) mod 16777216 =? 0) || (4096 <? get32 bs (off + 8) mod 16777216) then None else
  if limit <? off + 16 + get32 bs (off + 8) mod 16777216 then None else
  if 16352 <? off mod 16384 + rec_size (get32 bs (off + 8) mod 16777216) then None else
  Some (slice bs (off + 16) (get32 bs (off + 8) mod 16777216), get32 bs (off + 12), get64 bs off).
Proof.
  unfold spec_record. cbv zeta.
  rewrite !get32_dropN, get64_dropN, slice_dropN, N.add_0_r. reflexivity.
Qed.

Lemma spec_record_inv bs hdr limit off name next v :
  spec_record bs hdr limit off = Some (name, next, v) ->
  let nl := get32 bs (off + 8) mod 16777216 in
  off mod 32 = 0 /\ first_off hdr <= off /\ 1 <= nl <= 4096 /\
  off + 16 + nl <= limit /\ off mod 16384 + rec_size nl <= 16352 /\
  name = slice bs (off + 16) nl /\ next = get32 bs (off + 12) /\ v = get64 bs off.
Proof.
  rewrite spec_record_nf. cbv zeta.
  set (nl := get32 bs (off + 8) mod 16777216).
  destruct (N.eqb_spec (off mod 32) 0) as [H1|H1]; cbn [negb]; [|discriminate].
  destruct (N.ltb_spec off (first_off hdr)) as [H2|H2]; [discriminate|].
  destruct (N.eqb_spec nl 0) as [H3|H3]; cbn [orb]; [discriminate|].
  destruct (N.ltb_spec 4096 nl) as [H4|H4]; [discriminate|].
  destruct (N.ltb_spec limit (off + 16 + nl)) as [H5|H5]; [discriminate|].
  destruct (N.ltb_spec 16352 (off mod 16384 + rec_size nl)) as [H6|H6]; [discriminate|].
  intro E. injection E as <- <- <-. repeat split; try assumption; try reflexivity; lia.
Qed.

Lemma spec_record_intro bs hdr limit off :
  let nl := get32 bs (off + 8) mod 16777216 in
  off mod 32 = 0 -> first_off hdr <= off -> 1 <= nl <= 4096 ->
  off + 16 + nl <= limit -> off mod 16384 + rec_size nl <= 16352 ->
  spec_record bs hdr limit off = Some (slice bs (off + 16) nl, get32 bs (off + 12), get64 bs off).
Proof.
  cbv zeta. set (nl := get32 bs (off + 8) mod 16777216).
  intros H1 H2 H3 H5 H6. rewrite spec_record_nf. fold nl.
  destruct (N.eqb_spec (off mod 32) 0) as [_|X]; [|contradiction]. cbn [negb].
  destruct (N.ltb_spec off (first_off hdr)) as [X|_]; [lia|].
  destruct (N.eqb_spec nl 0) as [X|_]; [lia|]. cbn [orb].
  destruct (N.ltb_spec 4096 nl) as [X|_]; [lia|].
  destruct (N.ltb_spec limit (off + 16 + nl)) as [X|_]; [lia|].
  destruct (N.ltb_spec 16352 (off mod 16384 + rec_size nl)) as [X|_]; [lia|].
  reflexivity.
Qed.

(* a record's reader depends only on the record's own bytes *)
Lemma spec_record_frame bs bs' hdr limit limit' off x :
  spec_record bs hdr limit off = Some x ->
  limit <= limit' -> limit <= len bs -> limit <= len bs' ->
  agree bs bs' (first_off hdr) limit ->
  spec_record bs' hdr limit' off = Some x.
Proof.
  intros H Hl Hb Hb' Ha. destruct x as [[name next] v].
  apply spec_record_inv in H. cbv zeta in H.
  destruct H as (H1 & H2 & H3 & H4 & H5 & -> & -> & ->).
  set (nl := get32 bs (off + 8) mod 16777216) in *.
  assert (Hsz : 16 + nl <= rec_size nl) by (apply rec_size_bounds; exact H3).
  assert (A : agree bs bs' off (off + 16 + nl)) by (eapply agree_sub; [exact Ha|lia|lia]).
  assert (E8 : get32 bs' (off + 8) = get32 bs (off + 8)).
  { symmetry. apply get32_agree. eapply agree_sub; [exact A|lia|lia]. }
  pose proof (spec_record_intro bs' hdr limit' off) as I. cbv zeta in I. rewrite E8 in I.
  fold nl in I. rewrite I by (try assumption; lia).
  f_equal. f_equal; [f_equal|].
  - symmetry. apply slice_agree; try lia. eapply agree_sub; [exact A|lia|lia].
  - symmetry. apply get32_agree. eapply agree_sub; [exact A|lia|lia].
  - symmetry. apply get64_agree. eapply agree_sub; [exact A|lia|lia].
Qed.

Lemma entry_at_nf bs hdr off :
  entry_at bs hdr off =
  if (off <? hdr + 4) || negb (off mod 8 =? 0) || (len bs <? off + 16) then None else
  if (get32 bs (off + 8) mod 16777216 =? 0) || (len bs <? off + 16 + get32 bs (off + 8) mod 16777216)
  then None else
  Some (slice bs (off + 16) (get32 bs (off + 8) mod 16777216), get32 bs (off + 12), get64 bs off).
Proof.
  unfold entry_at, entry_at_sz. cbv zeta. change c_hashOff with 4.
  rewrite !get32_dropN, get64_dropN, slice_dropN, N.add_0_r.
  change 16777215 with (N.ones 24). rewrite N.land_ones. reflexivity.
Qed.

(* the lenient reader of the library agrees with the strict one where the latter succeeds *)
Lemma spec_record_entry bs hdr limit off x :
  spec_record bs hdr limit off = Some x -> limit <= len bs -> entry_at bs hdr off = Some x.
Proof.
  intros H Hl. destruct x as [[name next] v]. apply spec_record_inv in H. cbv zeta in H.
  destruct H as (H1 & H2 & H3 & H4 & H5 & -> & -> & ->).
  set (nl := get32 bs (off + 8) mod 16777216) in *.
  assert (Hsz : 16 + nl <= rec_size nl) by (apply rec_size_bounds; exact H3).
  rewrite first_off_val in H2.
  rewrite entry_at_nf. fold nl.
  destruct (N.ltb_spec off (hdr + 4)) as [X|_]; [lia|]. cbn [orb].
  destruct (N.eqb_spec (off mod 8) 0) as [_|X]; [|exfalso; apply X; divlia]. cbn [negb orb].
  destruct (N.ltb_spec (len bs) (off + 16)) as [X|_]; [lia|].
  destruct (N.eqb_spec nl 0) as [X|_]; [lia|]. cbn [orb].
  destruct (N.ltb_spec (len bs) (off + 16 + nl)) as [X|_]; [lia|]. reflexivity.
Qed.

(* ---------------------------------------------------------------- chains *)

Definition rec_in (bs : bytes) (hdr limit : N) (r : rec) : Prop :=
  exists next, spec_record bs hdr limit (r_off r) = Some (r_name r, next, r_val r).

Lemma spec_chain_0 f bs hdr limit : spec_chain f bs hdr limit 0 = Some [].
Proof. destruct f; reflexivity. Qed.

Lemma spec_chain_S f bs hdr limit off : off <> 0 ->
  spec_chain (S f) bs hdr limit off =
  match spec_record bs hdr limit off with
  | None => None
  | Some (name, next, v) =>
      match spec_chain f bs hdr limit next with
      | None => None
      | Some rs => Some ((off, name, v) :: rs)
      end
  end.
Proof. intro H. cbn [spec_chain]. destruct (N.eqb_spec off 0); [contradiction|reflexivity]. Qed.

Lemma spec_chain_forall f bs hdr limit : forall off rs,
  spec_chain f bs hdr limit off = Some rs -> Forall (rec_in bs hdr limit) rs.
Proof.
  induction f as [|f IH]; intros off rs H.
  - cbn [spec_chain] in H. destruct (off =? 0); [injection H as <-; constructor|discriminate].
  - destruct (N.eqb_spec off 0) as [->|Hn].
    + rewrite spec_chain_0 in H. injection H as <-. constructor.
    + rewrite spec_chain_S in H by exact Hn.
      destruct (spec_record bs hdr limit off) as [[[name next] v]|] eqn:E; [|discriminate].
      destruct (spec_chain f bs hdr limit next) as [rs'|] eqn:E2; [|discriminate].
      injection H as <-. constructor; [exists next; exact E|]. eapply IH; exact E2.
Qed.

Lemma spec_chain_length f bs hdr limit : forall off rs,
  spec_chain f bs hdr limit off = Some rs -> (length rs <= f)%nat.
Proof.
  induction f as [|f IH]; intros off rs H.
  - cbn [spec_chain] in H. destruct (off =? 0); [injection H as <-; cbn; lia|discriminate].
  - destruct (N.eqb_spec off 0) as [->|Hn].
    + rewrite spec_chain_0 in H. injection H as <-. cbn. lia.
    + rewrite spec_chain_S in H by exact Hn.
      destruct (spec_record bs hdr limit off) as [[[name next] v]|] eqn:E; [|discriminate].
      destruct (spec_chain f bs hdr limit next) as [rs'|] eqn:E2; [|discriminate].
      injection H as <-. cbn [length]. apply IH in E2. lia.
Qed.

Lemma spec_chain_mono f bs hdr limit : forall off rs f',
  spec_chain f bs hdr limit off = Some rs -> (f <= f')%nat -> spec_chain f' bs hdr limit off = Some rs.
Proof.
  induction f as [|f IH]; intros off rs f' H Hf.
  - cbn [spec_chain] in H. destruct (N.eqb_spec off 0) as [->|]; [|discriminate].
    injection H as <-. apply spec_chain_0.
  - destruct (N.eqb_spec off 0) as [->|Hn].
    + rewrite spec_chain_0 in H. injection H as <-. apply spec_chain_0.
    + destruct f' as [|f']; [lia|]. rewrite spec_chain_S in * by exact Hn.
      destruct (spec_record bs hdr limit off) as [[[name next] v]|] eqn:E; [|discriminate].
      destruct (spec_chain f bs hdr limit next) as [rs'|] eqn:E2; [|discriminate].
      rewrite (IH next rs' f' E2) by lia. exact H.
Qed.

(* a chain read in bs reads the same in bs' when every record does *)
Lemma spec_chain_frame f bs bs' hdr limit limit' :
  (forall off x, spec_record bs hdr limit off = Some x -> spec_record bs' hdr limit' off = Some x) ->
  forall off rs, spec_chain f bs hdr limit off = Some rs -> spec_chain f bs' hdr limit' off = Some rs.
Proof.
  intro Hr. induction f as [|f IH]; intros off rs H.
  - exact H.
  - destruct (N.eqb_spec off 0) as [->|Hn].
    + rewrite spec_chain_0 in *. exact H.
    + rewrite spec_chain_S in * by exact Hn.
      destruct (spec_record bs hdr limit off) as [[[name next] v]|] eqn:E; [|discriminate].
      rewrite (Hr _ _ E).
      destruct (spec_chain f bs hdr limit next) as [rs'|] eqn:E2; [|discriminate].
      rewrite (IH _ _ E2). exact H.
Qed.

(* what membership in a chain says about a record *)
Lemma rec_in_facts bs hdr limit r : rec_in bs hdr limit r -> limit <= len bs ->
  r_off r mod 32 = 0 /\ first_off hdr <= r_off r /\ 1 <= len (r_name r) <= 4096 /\
  r_off r + 16 + len (r_name r) <= limit /\ r_off r mod 16384 + rec_size (len (r_name r)) <= 16352 /\
  get32 bs (r_off r + 8) mod 16777216 = len (r_name r) /\
  r_name r = slice bs (r_off r + 16) (len (r_name r)) /\ r_val r = get64 bs (r_off r).
Proof.
  intros [next H] Hl. apply spec_record_inv in H. cbv zeta in H.
  destruct H as (H1 & H2 & H3 & H4 & H5 & H6 & _ & H8).
  set (nl := get32 bs (r_off r + 8) mod 16777216) in *.
  assert (Hsz : 16 + nl <= rec_size nl) by (apply rec_size_bounds; exact H3).
  assert (Hn : len (r_name r) = nl) by (rewrite H6; apply len_slice; lia).
  unfold r_end. rewrite Hn. repeat split; try assumption; lia.
Qed.

(* ---------------------------------------------------------------- map_opt, buckets *)

Lemma map_opt_Forall2 {A B} (f : A -> option B) l l' :
  map_opt f l = Some l' <-> Forall2 (fun x y => f x = Some y) l l'.
Proof.
  revert l'; induction l as [|x t IH]; intro l'; cbn [map_opt].
  - split; intro H; [injection H as <-; constructor|inversion H; reflexivity].
  - destruct (f x) as [y|] eqn:E.
    + destruct (map_opt f t) as [ys|] eqn:E2.
      * split; intro H.
        -- injection H as <-. constructor; [exact E|]. now apply IH.
        -- inversion H as [|? y' ? ys' Hy Hys]; subst. rewrite E in Hy. injection Hy as <-.
           apply IH in Hys. injection Hys as <-. reflexivity.
      * split; intro H; [discriminate|]. inversion H as [|? y' ? ys' Hy Hys]; subst.
        apply IH in Hys. discriminate.
    + split; intro H; [discriminate|]. inversion H as [|? y' ? ys' Hy Hys]; subst.
      rewrite E in Hy. discriminate.
Qed.

Lemma map_opt_map {A B C} (g : B -> option C) (h : A -> B) l :
  map_opt g (map h l) = map_opt (fun x => g (h x)) l.
Proof.
  induction l as [|x t IH]; [reflexivity|]. cbn [map map_opt]. now rewrite IH.
Qed.

Lemma combine_map_r {A B} (f : A -> B) l : combine l (map f l) = map (fun x => (x, f x)) l.
Proof. induction l as [|x t IH]; [reflexivity|]. cbn. now rewrite IH. Qed.

Lemma slice_cons bs o n : o < len bs -> 0 < n ->
  slice bs o n = getb bs o :: slice bs (o + 1) (n - 1).
Proof.
  intros Ho Hn. unfold slice, getb. rewrite <- (dropN_dropN bs o 1).
  destruct (dropN bs o) as [|x t] eqn:E.
  - pose proof (len_dropN bs o) as L. rewrite E, len_nil in L. lia.
  - cbn [takeN dropN]. destruct (N.eqb_spec n 0); [lia|].
    change (1 =? 0) with false. cbv iota. change (N.pred 1) with 0. rewrite dropN_0.
    f_equal. f_equal. lia.
Qed.

Lemma words_slice bs o : forall k a, o + 4 * a + 4 * N.of_nat k <= len bs ->
  words (slice bs (o + 4 * a) (4 * N.of_nat k)) = map (fun i => get32 bs (o + 4 * i)) (range_from a k).
Proof.
  induction k as [|k IH]; intros a H.
  - cbn [range_from map]. change (4 * N.of_nat 0) with 0. unfold slice.
    destruct (dropN bs (o + 4 * a)); reflexivity.
  - cbn [range_from map].
    rewrite (slice_cons bs (o + 4 * a)) by lia.
    rewrite (slice_cons bs (o + 4 * a + 1)) by lia.
    rewrite (slice_cons bs (o + 4 * a + 1 + 1)) by lia.
    rewrite (slice_cons bs (o + 4 * a + 1 + 1 + 1)) by lia.
    cbn [words]. f_equal.
    + rewrite get32_getb. f_equal; f_equal; lia.
    + replace (o + 4 * a + 1 + 1 + 1 + 1) with (o + 4 * (a + 1)) by lia.
      replace (4 * N.of_nat (S k) - 1 - 1 - 1 - 1) with (4 * N.of_nat k) by lia.
      apply IH. lia.
Qed.

Lemma table_heads_nf bs hdr : hdr + 2052 <= len bs ->
  table_heads bs hdr = map (fun i => get32 bs (head_off hdr i)) buckets.
Proof.
  intro H. unfold table_heads, buckets. change c_hashOff with 4. change c_numHash with 512.
  pose proof (words_slice bs (hdr + 4) 512 0) as W.
  replace (hdr + 4 + 4 * 0) with (hdr + 4) in W by lia.
  change (4 * N.of_nat 512) with 2048 in W. change (4 * 512) with 2048.
  change (N.to_nat 512) with 512%nat.
  rewrite W by lia. apply map_ext. intro i. now rewrite head_off_val.
Qed.

Lemma table_nf bs hdr limit : hdr + 2052 <= len bs ->
  map_opt (fun ih => spec_bucket bs hdr limit (fst ih) (snd ih)) (combine buckets (table_heads bs hdr))
  = map_opt (fun i => spec_bucket bs hdr limit i (get32 bs (head_off hdr i))) buckets.
Proof.
  intro H. rewrite table_heads_nf by exact H. rewrite combine_map_r, map_opt_map. reflexivity.
Qed.

Lemma range_from_in a k i : In i (range_from a k) <-> a <= i < a + N.of_nat k.
Proof.
  revert a; induction k as [|k IH]; intro a; cbn [range_from In].
  - split; [tauto|lia].
  - rewrite IH. split; [intros [<-|H]; lia|]. intro H.
    destruct (N.eq_dec a i); [now left|right; lia].
Qed.

Lemma range_from_nodup a k : NoDup (range_from a k).
Proof.
  revert a; induction k as [|k IH]; intro a; cbn [range_from]; constructor.
  - rewrite range_from_in. lia.
  - apply IH.
Qed.

Lemma buckets_in i : In i buckets <-> i < 512.
Proof. unfold buckets. rewrite range_from_in. change (N.to_nat c_numHash) with 512%nat. lia. Qed.

Lemma buckets_nodup : NoDup buckets.
Proof. apply range_from_nodup. Qed.

(* ---------------------------------------------------------------- header *)

Lemma spec_header_inv bs hl meta : spec_header bs = Some (hl, meta) ->
  has_prefix bs c_hdrPrefix = true /\ hl = get32 bs 28 /\ (32 <= hl /\ hl <= 16384) /\ hl mod 32 = 0 /\
  hl + 2052 <= len bs /\ meta = cut_nul (slice bs 32 (hl - 32)).
Proof.
  unfold spec_header. rewrite hdr_np_val. change (28 + 4) with 32. change (4 * 512) with 2048.
  destruct (has_prefix bs c_hdrPrefix) eqn:Hp; cbn [negb]; [|discriminate].
  destruct (N.ltb_spec (get32 bs 28) 32) as [|H1]; cbn [orb]; [discriminate|].
  destruct (N.ltb_spec 16384 (get32 bs 28)) as [|H2]; cbn [orb]; [discriminate|].
  destruct (N.eqb_spec (get32 bs 28 mod 32) 0) as [H3|]; cbn [negb orb]; [|discriminate].
  destruct (N.ltb_spec (len bs) (get32 bs 28 + 4 + 2048)) as [|H4]; [discriminate|].
  intro E. injection E as <- <-. repeat split; try assumption; try reflexivity; lia.
Qed.

(* the header's reader depends only on the header's bytes *)
Lemma spec_header_frame bs bs' hl meta : spec_header bs = Some (hl, meta) ->
  len bs <= len bs' -> agree bs bs' 0 hl -> spec_header bs' = Some (hl, meta).
Proof.
  intros H Hl Ha. apply spec_header_inv in H.
  destruct H as (Hp & E28 & Hb & Hmod & Hfit & Em).
  assert (E28' : get32 bs' 28 = hl).
  { rewrite E28. symmetry. apply get32_agree. eapply agree_sub; [exact Ha|lia|lia]. }
  assert (Es : slice bs' 32 (hl - 32) = slice bs 32 (hl - 32)).
  { symmetry. apply slice_agree; try lia. eapply agree_sub; [exact Ha|lia|lia]. }
  unfold spec_header. rewrite hdr_np_val. change (28 + 4) with 32. change (4 * 512) with 2048.
  rewrite (has_prefix_agree bs bs' c_hdrPrefix Hp).
  2:{ change (len c_hdrPrefix) with 28. lia. }
  2:{ change (len c_hdrPrefix) with 28. eapply agree_sub; [exact Ha|lia|lia]. }
  cbn [negb]. rewrite E28'.
  destruct (N.ltb_spec hl 32) as [|_]; [lia|]. cbn [orb].
  destruct (N.ltb_spec 16384 hl) as [|_]; [lia|]. cbn [orb].
  rewrite Hmod. change (0 =? 0) with true. cbn [negb orb].
  destruct (N.ltb_spec (len bs') (hl + 4 + 2048)) as [|_]; [lia|].
  rewrite Es, <- Em. reflexivity.
Qed.

(* ---------------------------------------------------------------- spec_read *)

Definition bucket_ok (bs : bytes) (hdr limit : N) (i : N) (c : list rec) : Prop :=
  spec_bucket bs hdr limit i (get32 bs (head_off hdr i)) = Some c.

Lemma spec_read_inv bs hdr meta kv limit tbl :
  spec_read bs = Some (hdr, meta, kv, limit, tbl) ->
  spec_header bs = Some (hdr, meta) /\ meta_kv meta = Some kv /\ limit = get32 bs hdr /\
  len bs mod 16384 = 0 /\ 16384 <= len bs /\ limit <= len bs /\ 0 <= limit /\
  (limit = 0 \/ first_off hdr <= limit) /\
  Forall2 (bucket_ok bs hdr limit) buckets tbl /\ pairwise rec_compat (concat tbl) = true.
Proof.
  unfold spec_read.
  destruct (spec_header bs) as [[hl m]|] eqn:Eh; [|discriminate].
  destruct (meta_kv m) as [kv'|] eqn:Ek; [|discriminate].
  change c_limitOff with 0. rewrite N.add_0_r.
  change c_pageSize with 16384. change c_minFileLen with 16384. change c_recordUnit with 32.
  destruct (N.eqb_spec (len bs mod 16384) 0) as [H1|]; cbn [andb negb]; [|discriminate].
  destruct (N.leb_spec 16384 (len bs)) as [H2|]; cbn [andb negb]; [|discriminate].
  destruct (N.leb_spec (get32 bs hl) (len bs)) as [H3|]; cbn [andb negb]; [|discriminate].
  assert (H4 : 0 <= get32 bs hl) by apply N.le_0_l.
  assert (H5 : (get32 bs hl =? 0) || (first_off hl <=? get32 bs hl) = true ->
               get32 bs hl = 0 \/ first_off hl <= get32 bs hl).
  { intro X. apply orb_true_iff in X as [X|X]; [left; now apply N.eqb_eq|right; now apply N.leb_le]. }
  destruct ((get32 bs hl =? 0) || (first_off hl <=? get32 bs hl)) eqn:E5; cbn [negb]; [|discriminate].
  specialize (H5 eq_refl).
  pose proof (spec_header_inv _ _ _ Eh) as (_ & _ & Hb & _ & Hfit & _).
  rewrite table_nf by lia.
  destruct (map_opt _ buckets) as [t|] eqn:Et; [|discriminate].
  destruct (pairwise rec_compat (concat t)) eqn:Ep; [|discriminate].
  intro E. injection E as <- <- <- <- <-.
  repeat split; try assumption; try reflexivity.
  apply map_opt_Forall2 in Et. exact Et.
Qed.

Lemma spec_read_intro bs hdr meta kv limit tbl :
  spec_header bs = Some (hdr, meta) -> meta_kv meta = Some kv -> limit = get32 bs hdr ->
  len bs mod 16384 = 0 -> 16384 <= len bs -> limit <= len bs -> 0 <= limit ->
  (limit = 0 \/ first_off hdr <= limit) ->
  Forall2 (bucket_ok bs hdr limit) buckets tbl -> pairwise rec_compat (concat tbl) = true ->
  spec_read bs = Some (hdr, meta, kv, limit, tbl).
Proof.
  intros Eh Ek -> H1 H2 H3 H4 H5 Ht Hp. unfold spec_read. rewrite Eh, Ek.
  change c_limitOff with 0. rewrite N.add_0_r.
  change c_pageSize with 16384. change c_minFileLen with 16384. change c_recordUnit with 32.
  rewrite H1. change (0 =? 0) with true.
  destruct (N.leb_spec 16384 (len bs)) as [_|]; [|lia].
  destruct (N.leb_spec (get32 bs hdr) (len bs)) as [_|]; [|lia]. cbn [andb negb].
  replace ((get32 bs hdr =? 0) || (first_off hdr <=? get32 bs hdr)) with true.
  2:{ symmetry. apply orb_true_iff. destruct H5 as [H5|H5]; [left; now apply N.eqb_eq|right; now apply N.leb_le]. }
  cbn [negb].
  pose proof (spec_header_inv _ _ _ Eh) as (_ & _ & Hb & _ & Hfit & _).
  rewrite table_nf by lia.
  apply map_opt_Forall2 in Ht. unfold bucket_ok in Ht. rewrite Ht, Hp. reflexivity.
Qed.

Lemma spec_bucket_inv bs hdr limit i head c : spec_bucket bs hdr limit i head = Some c ->
  spec_chain (chain_fuel limit) bs hdr limit head = Some c /\ Forall (fun r => hash (r_name r) = i) c.
Proof.
  unfold spec_bucket. destruct (spec_chain _ _ _ _ _) as [rs|]; [|discriminate].
  destruct (forallb _ rs) eqn:F; [|discriminate]. intro E. injection E as <-. split; [reflexivity|].
  rewrite forallb_forall in F. apply Forall_forall. intros r Hr. apply N.eqb_eq. now apply F.
Qed.

Lemma spec_bucket_intro bs hdr limit i head c :
  spec_chain (chain_fuel limit) bs hdr limit head = Some c -> Forall (fun r => hash (r_name r) = i) c ->
  spec_bucket bs hdr limit i head = Some c.
Proof.
  intros H F. unfold spec_bucket. rewrite H.
  replace (forallb _ c) with true; [reflexivity|]. symmetry. apply forallb_forall.
  rewrite Forall_forall in F. intros r Hr. apply N.eqb_eq. now apply F.
Qed.

(* every record of a well-formed file *)
Lemma Forall2_concat_in {A B} (R : A -> list B -> Prop) l tbl x :
  Forall2 R l tbl -> In x (concat tbl) -> exists i c, In i l /\ R i c /\ In c tbl /\ In x c.
Proof.
  induction 1 as [|i c l tbl Hr Hf IH]; cbn [concat]; [contradiction|].
  rewrite in_app_iff. intros [H|H].
  - exists i, c. repeat split; try assumption; now left.
  - destruct (IH H) as (i' & c' & Hi & Hr' & Hc & Hx). exists i', c'.
    repeat split; try assumption; now right.
Qed.

Lemma wf_record_in bs hdr limit tbl r :
  Forall2 (bucket_ok bs hdr limit) buckets tbl -> In r (concat tbl) ->
  rec_in bs hdr limit r /\ hash (r_name r) < 512.
Proof.
  intros Ht Hr. destruct (Forall2_concat_in _ _ _ _ Ht Hr) as (i & c & Hi & Hb & _ & Hx).
  apply spec_bucket_inv in Hb as [Hc Hh]. split.
  - apply spec_chain_forall in Hc. rewrite Forall_forall in Hc. now apply Hc.
  - apply hash_lt.
Qed.

(* ---------------------------------------------------------------- pairwise *)

Lemma forallb_Add {A} (p : A -> bool) x l l' : Add x l l' -> forallb p l' = p x && forallb p l.
Proof.
  induction 1 as [l|y l l' _ IH]; [reflexivity|]. cbn [forallb]. rewrite IH.
  destruct (p x), (p y); reflexivity.
Qed.

Lemma pairwise_Add {A} (R : A -> A -> bool) x l l' :
  (forall a b, R a b = R b a) -> Add x l l' ->
  pairwise R l = true -> forallb (R x) l = true -> pairwise R l' = true.
Proof.
  intros Hs Ha. induction Ha as [l|y l l' Ha IH]; intros Hp Hx.
  - cbn [pairwise]. now rewrite Hx, Hp.
  - cbn [pairwise forallb] in *. apply andb_true_iff in Hp as [Hp1 Hp2].
    apply andb_true_iff in Hx as [Hx1 Hx2]. rewrite (forallb_Add _ _ _ _ Ha).
    rewrite (Hs y x), Hx1, Hp1. cbn [andb]. now apply IH.
Qed.

Lemma pairwise_In {A} (R : A -> A -> bool) l a b :
  (forall a b, R a b = R b a) -> pairwise R l = true -> In a l -> In b l ->
  a = b \/ R a b = true.
Proof.
  intro Hs. induction l as [|x t IH]; cbn [pairwise In]; [contradiction|].
  intros Hp Ha Hb. apply andb_true_iff in Hp as [Hp1 Hp2]. rewrite forallb_forall in Hp1.
  destruct Ha as [<-|Ha], Hb as [<-|Hb].
  - now left.
  - right. now apply Hp1.
  - right. rewrite Hs. now apply Hp1.
  - now apply IH.
Qed.

Lemma forallb_map_rel {A} (R : A -> A -> bool) (g : A -> A) x t :
  (forall a b, R (g a) (g b) = R a b) -> forallb (R (g x)) (map g t) = forallb (R x) t.
Proof.
  intro Hg. induction t as [|y t IH]; [reflexivity|]. cbn [map forallb]. now rewrite Hg, IH.
Qed.

Lemma pairwise_map {A} (R : A -> A -> bool) (g : A -> A) l :
  (forall a b, R (g a) (g b) = R a b) -> pairwise R (map g l) = pairwise R l.
Proof.
  intro Hg. induction l as [|x t IH]; [reflexivity|]. cbn [map pairwise].
  now rewrite IH, forallb_map_rel.
Qed.

Lemma beq_sym a b : beq a b = beq b a.
Proof.
  destruct (beq a b) eqn:E.
  - apply beq_eq in E. subst. symmetry. apply beq_refl.
  - symmetry. apply beq_neq. apply beq_neq in E. congruence.
Qed.

Lemma rec_compat_sym a b : rec_compat a b = rec_compat b a.
Proof. unfold rec_compat. rewrite (beq_sym (r_name a)). rewrite orb_comm. reflexivity. Qed.

(* ---------------------------------------------------------------- lookup *)

Fixpoint find_name (name : bytes) (rs : list rec) : option rec :=
  match rs with
  | [] => None
  | r :: t => if beq (r_name r) name then Some r else find_name name t
  end.

Lemma lookup_walk_chain bs hdr limit name : forall f off rs fuel n,
  spec_chain f bs hdr limit off = Some rs -> limit <= len bs ->
  n + N.of_nat (length rs) <= len bs / 32 + 1 -> (length rs < fuel)%nat ->
  lookup_walk fuel (len bs) bs hdr name n off =
  match find_name name rs with Some r => LFound (r_off r) | None => LMissing end.
Proof.
  induction f as [|f IH]; intros off rs fuel n H Hl Hn Hf.
  - cbn [spec_chain] in H. destruct (N.eqb_spec off 0) as [->|]; [|discriminate].
    injection H as <-. destruct fuel; reflexivity.
  - destruct (N.eqb_spec off 0) as [->|Hz].
    + rewrite spec_chain_0 in H. injection H as <-. destruct fuel; reflexivity.
    + rewrite spec_chain_S in H by exact Hz.
      destruct (spec_record bs hdr limit off) as [[[ename next] v]|] eqn:E; [|discriminate].
      destruct (spec_chain f bs hdr limit next) as [rs'|] eqn:E2; [|discriminate].
      injection H as <-. cbn [length] in *.
      destruct fuel as [|fuel]; [lia|]. cbn [lookup_walk find_name].
      destruct (N.eqb_spec off 0); [contradiction|].
      change c_recordUnit with 32.
      destruct (N.ltb_spec (len bs / 32) n) as [X|_]; [lia|].
      pose proof (spec_record_entry _ _ _ _ _ E Hl) as Ee. unfold entry_at in Ee. rewrite Ee.
      change (r_name (off, ename, v)) with ename. change (r_off (off, ename, v)) with off.
      destruct (beq ename name); [reflexivity|].
      apply (IH next rs' fuel (n + 1) E2 Hl); lia.
Qed.

Lemma find_name_none name rs : find_name name rs = None <-> ~ In name (map r_name rs).
Proof.
  induction rs as [|r t IH]; cbn [find_name map In]; [tauto|].
  destruct (beq (r_name r) name) eqn:E.
  - apply beq_eq in E. split; [discriminate|]. intro H. exfalso. apply H. now left.
  - apply beq_neq in E. rewrite IH. tauto.
Qed.

Lemma find_name_some name rs r : find_name name rs = Some r -> In r rs /\ r_name r = name.
Proof.
  induction rs as [|x t IH]; cbn [find_name]; [discriminate|].
  destruct (beq (r_name x) name) eqn:E.
  - intro H. injection H as <-. apply beq_eq in E. split; [now left|exact E].
  - intro H. destruct (IH H). split; [now right|assumption].
Qed.
