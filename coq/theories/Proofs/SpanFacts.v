(* Proofs about Model/Span. *)
From Coq Require Import List ZArith NArith Bool Lia.
From Tele Require Import Lib.Bytes Lib.Calendar Lib.Sweep Proofs.CalendarFacts Model.Span.
Import ListNotations.
Open Scope Z_scope.

Lemma counter_span_eq now w :
  counter_span now w =
  let day := now / 86400 in
  let incr0 := w - weekday day in
  let incr := if incr0 <=? 0 then incr0 + 7 else incr0 in
  (day * 86400, (day + incr) * 86400).
Proof.
  unfold counter_span. pose proof (civil_roundtrip (now / 86400)) as R.
  destruct (civil_from_days (now / 86400)) as [[y m] d]. destruct R as [R _].
  cbv zeta. rewrite days_linear, R. reflexivity.
Qed.

Theorem span_shape now w : 0 <= w < 7 ->
  let '(b, e) := counter_span now w in
  b = now / 86400 * 86400 /\
  exists k, 1 <= k <= 7 /\ e = b + k * 86400 /\ weekday (b / 86400 + k) = w /\
            forall j, 1 <= j < k -> weekday (b / 86400 + j) <> w.
Proof.
  intros Hw. rewrite counter_span_eq. cbv zeta.
  set (day := now / 86400).
  pose proof (weekday_range day) as Hwd.
  set (incr0 := w - weekday day).
  set (incr := if incr0 <=? 0 then incr0 + 7 else incr0).
  assert (Hincr : 1 <= incr <= 7 /\ ((0 < incr0 /\ incr = incr0) \/ (incr0 <= 0 /\ incr = incr0 + 7))).
  { subst incr. destruct (Z.leb_spec incr0 0); subst incr0; lia. }
  split; [reflexivity|]. exists incr.
  rewrite Z.div_mul by lia.
  split; [lia|]. split; [ring|]. split.
  - rewrite weekday_add. subst incr0. destruct Hincr as [_ [[_ ->] | [_ ->]]].
    + replace (weekday day + (w - weekday day)) with w by ring. apply Z.mod_small; lia.
    + replace (weekday day + (w - weekday day + 7)) with (w + 1 * 7) by ring.
      rewrite Z_mod_plus by lia. apply Z.mod_small; lia.
  - intros j Hj. rewrite weekday_add. intro E.
    assert (Hm : (weekday day + j) mod 7 = w) by exact E.
    subst incr0.
    pose proof (Z.div_mod (weekday day + j) 7 ltac:(lia)) as DM.
    pose proof (Z.mod_pos_bound (weekday day + j) 7 ltac:(lia)).
    destruct Hincr as [_ [[Hi0 Hi] | [Hi0 Hi]]]; lia.
Qed.

Theorem span_ok_model now w : 0 <= w < 7 -> span_ok now w (counter_span now w) = true.
Proof.
  intros Hw. pose proof (span_shape now w Hw) as S.
  destruct (counter_span now w) as [b e]. destruct S as (Hb & k & Hk & He & Hwk & Hmin).
  unfold span_ok.
  assert (Hbd : b / 86400 = now / 86400) by (rewrite Hb; apply Z.div_mul; lia).
  assert (Hed : e / 86400 = now / 86400 + k).
  { rewrite He, Hb. replace (now / 86400 * 86400 + k * 86400) with ((now / 86400 + k) * 86400) by ring.
    apply Z.div_mul; lia. }
  assert (Hem : e mod 86400 = 0).
  { rewrite He, Hb. replace (now / 86400 * 86400 + k * 86400) with ((now / 86400 + k) * 86400) by ring.
    apply Z_mod_mult. }
  apply andb_true_iff; split; [repeat (apply andb_true_iff; split)|].
  - apply Z.eqb_eq. exact Hb.
  - apply Z.eqb_eq. exact Hem.
  - apply Z.ltb_lt. lia.
  - apply Z.leb_le. lia.
  - apply Z.eqb_eq. rewrite Hed, <- Hbd. exact Hwk.
  - apply forallb_forall. intros j Hj.
    destruct (Z.eqb_spec (weekday (b / 86400 + j)) w) as [E|E]; [|reflexivity].
    cbn [negb orb]. apply Z.eqb_eq.
    assert (1 <= j <= 7) by (cbn in Hj; lia).
    destruct (Z_lt_ge_dec j k) as [Hlt|Hge].
    + exfalso. apply (Hmin j); [lia | exact E].
    + (* j >= k: both hit weekday w within 7 days *)
      assert (j = k); [|subst; lia].
      rewrite weekday_add in E, Hwk.
      pose proof (weekday_range (b / 86400)).
      pose proof (Z.div_mod (weekday (b / 86400) + j) 7 ltac:(lia)).
      pose proof (Z.div_mod (weekday (b / 86400) + k) 7 ltac:(lia)).
      pose proof (Z.mod_pos_bound (weekday (b / 86400) + j) 7 ltac:(lia)).
      pose proof (Z.mod_pos_bound (weekday (b / 86400) + k) 7 ltac:(lia)).
      lia.
Qed.

(* ---- RFC3339 round trip ---- *)

Theorem rfc3339_roundtrip t : -719528 * 86400 <= t < 2932897 * 86400 ->
  parse_rfc3339z (fmt_rfc3339 t) = Some t.
Proof.
  intros Ht.
  assert (Hday : -719528 <= t / 86400 < 2932897).
  { split; [apply Z.div_le_lower_bound; lia | apply Z.div_lt_upper_bound; lia]. }
  pose proof (Z.mod_pos_bound t 86400 ltac:(lia)) as Hs.
  pose proof (Z.div_mod t 86400 ltac:(lia)) as DM.
  destruct (date_roundtrip _ Hday) as [PD LD].
  pose proof (hms_roundtrip _ Hs) as HH.
  unfold fmt_rfc3339. unfold hms_rt_ok in HH. cbv zeta in HH.
  destruct (fmt_date (t / 86400)) as [|a0 [|a1 [|a2 [|a3 [|a4 [|a5 [|a6 [|a7 [|a8 [|a9 [|? ?]]]]]]]]]]]; try discriminate LD.
  destruct (fmt_hms (t mod 86400)) as [|h0 [|h1 [|h2 [|h3 [|h4 [|h5 [|h6 [|h7 [|? ?]]]]]]]]]; try discriminate HH.
  cbn [length Nat.eqb andb sub skipn firstn nth_byte nth] in HH.
  unfold parse_rfc3339z.
  cbn [length app Nat.eqb sub skipn firstn nth_byte nth].
  rewrite PD.
  destruct (parse_fixed 2 [h0; h1]) as [hh|]; [|discriminate].
  destruct (parse_fixed 2 [h3; h4]) as [mm|]; [|discriminate].
  destruct (parse_fixed 2 [h6; h7]) as [ss|]; [|discriminate].
  repeat (apply andb_true_iff in HH as [HH ?]).
  repeat match goal with H : (_ =? _) = true |- _ => apply Z.eqb_eq in H end.
  repeat match goal with H : N.eqb _ _ = true |- _ => rewrite H end.
  repeat match goal with H : (_ <? _) = true |- _ => rewrite H end.
  rewrite !N.eqb_refl. cbn [andb]. f_equal. lia.
Qed.

(* ---- rotation ---- *)

Theorem rotate_after_end now0 now w : 0 <= w < 7 ->
  snd (counter_span now0 w) <= now ->
  rotate_keeps (counter_span now0 w) now w = false /\
  snd (counter_span now0 w) <= fst (counter_span now w).
Proof.
  intros Hw Hnow.
  pose proof (span_shape now0 w Hw) as S0. pose proof (span_shape now w Hw) as S1.
  unfold rotate_keeps.
  destruct (counter_span now0 w) as [b0 e0]. destruct (counter_span now w) as [b1 e1].
  cbn [fst snd] in *.
  destruct S0 as (Hb0 & k0 & Hk0 & He0 & _). destruct S1 as (Hb1 & _).
  assert (e0 = (now0 / 86400 + k0) * 86400) by lia.
  assert (now0 / 86400 + k0 <= now / 86400) by (apply Z.div_le_lower_bound; lia).
  assert (e0 <= b1) by lia.
  split; [|assumption].
  apply andb_false_iff. left. apply Z.eqb_neq. lia.
Qed.

Theorem rotate_same_day now0 now w :
  now0 / 86400 = now / 86400 -> rotate_keeps (counter_span now0 w) now w = true.
Proof.
  intros E. unfold rotate_keeps. rewrite !counter_span_eq. cbv zeta. rewrite E.
  cbn [fst snd]. rewrite !Z.eqb_refl. reflexivity.
Qed.

(* ---- counter / uploader agreement ---- *)

Definition in_range (now : Z) : Prop := -719528 * 86400 <= now < 2932889 * 86400.

Lemma span_in_range now w : 0 <= w < 7 -> in_range now ->
  let '(b, e) := counter_span now w in
  -719528 * 86400 <= b < 2932897 * 86400 /\ -719528 * 86400 <= e < 2932897 * 86400.
Proof.
  intros Hw [H1 H2]. pose proof (span_shape now w Hw) as S.
  destruct (counter_span now w) as [b e]. destruct S as (Hb & k & Hk & He & _).
  pose proof (Z.div_mod now 86400 ltac:(lia)). pose proof (Z.mod_pos_bound now 86400 ltac:(lia)).
  lia.
Qed.

Theorem uploader_reads_what_counter_wrote now w : 0 <= w < 7 -> in_range now ->
  uploader_reads (meta_time_begin (counter_span now w)) (meta_time_end (counter_span now w))
  = Some (counter_span now w).
Proof.
  intros Hw Hr. pose proof (span_in_range now w Hw Hr) as R.
  unfold uploader_reads, meta_time_begin, meta_time_end.
  destruct (counter_span now w) as [b e]. destruct R as [Rb Re]. cbn [fst snd].
  rewrite (rfc3339_roundtrip b Rb), (rfc3339_roundtrip e Re). reflexivity.
Qed.

Theorem consumes_iff_ended_before_start tend ssec snsec : 0 <= snsec ->
  uploader_consumes tend (ssec, snsec) = true <-> (tend < ssec \/ (tend = ssec /\ 0 < snsec)).
Proof.
  intros Hns. unfold uploader_consumes, uploader_collects, after_start, before_start. cbn [fst snd].
  rewrite andb_true_iff, negb_true_iff, orb_true_iff, andb_true_iff, Z.ltb_ge, !Z.ltb_lt, Z.eqb_eq. lia.
Qed.

Theorem week_name_is_end_date now w : 0 <= w < 7 -> in_range now ->
  let e := snd (counter_span now w) in
  parse_date (uploader_week e) = Some (e / 86400) /\ weekday (e / 86400) = w /\
  e = e / 86400 * 86400.
Proof.
  intros Hw Hr. pose proof (span_in_range now w Hw Hr) as R.
  pose proof (span_shape now w Hw) as S.
  destruct (counter_span now w) as [b e]. cbn [snd]. destruct R as [_ Re].
  destruct S as (Hb & k & Hk & He & Hwk & _).
  assert (Hbd : b / 86400 = now / 86400) by (rewrite Hb; apply Z.div_mul; lia).
  assert (Hee : e = (now / 86400 + k) * 86400) by lia.
  assert (Hed : e / 86400 = now / 86400 + k) by (rewrite Hee; apply Z.div_mul; lia).
  unfold uploader_week. split; [|split].
  - apply date_roundtrip. rewrite Hed. destruct Hr. 
    pose proof (Z.div_mod now 86400 ltac:(lia)). pose proof (Z.mod_pos_bound now 86400 ltac:(lia)). lia.
  - rewrite Hed, <- Hbd. exact Hwk.
  - rewrite Hed. exact Hee.
Qed.

Theorem name_date_roundtrip now w : 0 <= w < 7 -> in_range now ->
  parse_date (name_date (counter_span now w)) = Some (now / 86400).
Proof.
  intros Hw Hr. unfold name_date. rewrite counter_span_eq. cbv zeta. cbn [fst].
  rewrite Z.div_mul by lia. apply date_roundtrip. destruct Hr.
  pose proof (Z.div_mod now 86400 ltac:(lia)). pose proof (Z.mod_pos_bound now 86400 ltac:(lia)). lia.
Qed.

(* ---- weekends file ---- *)

Theorem weekend_in_range f w : weekend_of_bytes f = Some w -> 0 <= w < 7.
Proof.
  unfold weekend_of_bytes. destruct (trim_space f) as [|c ?]; [discriminate|].
  intros H. injection H as <-.
  pose proof (N.mod_lt ((c + 208) mod 256) 7 ltac:(discriminate)) as Hlt.
  apply N2Z.inj_lt in Hlt. pose proof (N2Z.is_nonneg (((c + 208) mod 256) mod 7)).
  change (Z.of_N 7) with 7 in Hlt. lia.
Qed.

Theorem weekend_none_iff f : weekend_of_bytes f = None <-> trim_space f = [].
Proof. unfold weekend_of_bytes. destruct (trim_space f); split; congruence. Qed.
