(* Proofs/StartFacts: lemmas about Model/Start (telemetry.Start, the upload
   token race). *)
From Coq Require Import List ZArith NArith Bool Lia Arith.
From Tele Require Import Lib.Bytes Lib.Sched Gen.Consts Model.Start.
Import ListNotations.
Open Scope Z_scope.

(* ------------------------------------------------------ upload token *)

Lemma ticks_nonneg sched : 0 <= ticks sched.
Proof. induction sched as [|[d|i] r IH]; cbn [ticks]; lia. Qed.

Lemma nth_error_count_pos {A} (f : A -> bool) l i x :
  nth_error l i = Some x -> f x = true -> (count f l > 0)%nat.
Proof.
  intros H Hf. destruct (count f l) eqn:C; [|lia].
  apply (proj1 (count_zero _ f l)) with (x := x) in C; [congruence|].
  eapply nth_error_In. exact H.
Qed.

(* The invariant, relative to the end of the window `endt` and to whether the
   token was absent at the beginning:
   a  the time still to elapse fits before endt
   b  endt is less than a period after now (the window is shorter than a period)
   c  nobody is about to Remove
   d  a token that exists is younger than a period even at endt
   e  a token that existed at the beginning still exists
   f  nobody has won, or exactly one has, the token exists and was absent at first *)
Definition tinv (period endt : Z) (was_absent : bool) (st : tstate) (rest : list action) : Prop :=
  t_now st + ticks rest <= endt /\
  endt - t_now st < period /\
  count is_removing (t_pcs st) = 0%nat /\
  (forall m, t_token st = Some m -> endt - m < period) /\
  (was_absent = false -> t_token st <> None) /\
  (winners st = 0%nat \/ (winners st = 1%nat /\ t_token st <> None /\ was_absent = true)).

Lemma tinv_step period endt wa st a rest :
  tinv period endt wa st (a :: rest) -> tinv period endt wa (tstep period st a) rest.
Proof.
  intros (Ha & Hb & Hc & Hd & He & Hf).
  pose proof (ticks_nonneg rest) as TN.
  destruct a as [d | i]; cbn [tstep ticks] in *.
  - unfold tinv. cbn [t_now t_token t_pcs]. unfold winners in *. cbn [t_pcs].
    repeat split; try assumption; lia.
  - destruct (nth_error (t_pcs st) i) as [p|] eqn:N; [|repeat split; assumption].
    destruct p as [ | | | w].
    + (* Stat *)
      destruct (t_token st) as [m|] eqn:T.
      * assert (F : token_fresh period (t_now st) m = true).
        { unfold token_fresh. apply Z.ltb_lt. specialize (Hd m eq_refl). lia. }
        rewrite F. unfold tinv, set_pc, winners in *. cbn [t_now t_token t_pcs].
        pose proof (count_upd _ is_removing i (PDone false) _ _ N) as C1.
        pose proof (count_upd _ is_winner i (PDone false) _ _ N) as C2.
        cbn [is_removing is_winner b2n] in C1, C2. rewrite T.
        repeat split; try assumption; try lia.
        destruct Hf as [Hf | (Hf1 & Hf2 & Hf3)]; [left | right; repeat split; try assumption]; lia.
      * unfold tinv, set_pc, winners in *. cbn [t_now t_token t_pcs].
        pose proof (count_upd _ is_removing i PCreate _ _ N) as C1.
        pose proof (count_upd _ is_winner i PCreate _ _ N) as C2.
        cbn [is_removing is_winner b2n] in C1, C2. rewrite T.
        repeat split; try assumption; try lia.
        destruct Hf as [Hf | (Hf1 & Hf2 & Hf3)]; [left | right; repeat split; try assumption]; lia.
    + (* Remove: nobody is there *)
      exfalso. pose proof (nth_error_count_pos is_removing _ _ _ N eq_refl). lia.
    + (* Create *)
      destruct (t_token st) as [m|] eqn:T.
      * unfold tinv, set_pc, winners in *. cbn [t_now t_token t_pcs].
        pose proof (count_upd _ is_removing i (PDone false) _ _ N) as C1.
        pose proof (count_upd _ is_winner i (PDone false) _ _ N) as C2.
        cbn [is_removing is_winner b2n] in C1, C2. rewrite T.
        repeat split; try assumption; try lia.
        destruct Hf as [Hf | (Hf1 & Hf2 & Hf3)]; [left | right; repeat split; try assumption]; lia.
      * unfold tinv, winners in *. cbn [t_now t_token t_pcs].
        pose proof (count_upd _ is_removing i (PDone true) _ _ N) as C1.
        pose proof (count_upd _ is_winner i (PDone true) _ _ N) as C2.
        cbn [is_removing is_winner b2n] in C1, C2.
        assert (WA : wa = true) by (destruct wa; [reflexivity | exfalso; apply He; reflexivity]).
        repeat split; try assumption; try lia.
        -- intros m [= <-]. lia.
        -- intros _. discriminate.
        -- right. destruct Hf as [Hf | (_ & Hf2 & _)]; [|congruence].
           repeat split; [lia | discriminate | exact WA].
    + (* Done *)
      repeat split; assumption.
Qed.

Lemma tinv_init period n now tok sched :
  ticks sched < period ->
  (forall m, tok = Some m -> now + ticks sched - m < period) ->
  tinv period (now + ticks sched) (match tok with None => true | Some _ => false end)
       (tinit n now tok) sched.
Proof.
  intros Hw Hf. unfold tinv, tinit, winners. cbn [t_now t_token t_pcs].
  rewrite !count_repeat. cbn [is_removing is_winner].
  repeat split; try lia; try assumption.
  all: try (destruct tok; [discriminate | intros; discriminate]).
  all: try (left; reflexivity).
Qed.

Lemma tinv_final period n now tok sched :
  ticks sched < period ->
  (forall m, tok = Some m -> now + ticks sched - m < period) ->
  tinv period (now + ticks sched) (match tok with None => true | Some _ => false end)
       (trun period sched (tinit n now tok)) [].
Proof.
  intros Hw Hf. unfold trun.
  apply (run_invariant_sched _ _ (tstep period)
           (tinv period (now + ticks sched) (match tok with None => true | Some _ => false end))).
  - intros st a rest. apply tinv_step.
  - apply tinv_init; assumption.
Qed.

(* every interleaving (and every passage of time within the window) of any
   number of starters: at most one acquires the token *)
Theorem token_at_most_once period n now tok sched :
  ticks sched < period ->
  (forall m, tok = Some m -> now + ticks sched - m < period) ->
  (winners (trun period sched (tinit n now tok)) <= 1)%nat.
Proof.
  intros Hw Hf. destruct (tinv_final period n now tok sched Hw Hf) as (_ & _ & _ & _ & _ & [W | (W & _)]); lia.
Qed.

(* a token that stays young through the window is acquired by nobody *)
Theorem token_fresh_no_winner period n now m sched :
  ticks sched < period -> now + ticks sched - m < period ->
  winners (trun period sched (tinit n now (Some m))) = 0%nat.
Proof.
  intros Hw Hf.
  destruct (tinv_final period n now (Some m) sched Hw) as (_ & _ & _ & _ & _ & [W | (_ & _ & W)]).
  - intros m' [= <-]. exact Hf.
  - exact W.
  - discriminate.
Qed.

(* with a stale token two starters can both win (the race the source's
   comment describes): a computed schedule, no time passing *)
Definition stale_race_schedule : list action :=
  [Step 0%nat; Step 1%nat; Step 0%nat; Step 0%nat; Step 1%nat; Step 1%nat].

Theorem token_stale_refuted period : 0 < period ->
  ticks stale_race_schedule = 0 /\
  winners (trun period stale_race_schedule (tinit 2 period (Some 0))) = 2%nat.
Proof.
  intros Hp. split; [reflexivity|].
  assert (F : token_fresh period period 0 = false).
  { unfold token_fresh. apply Z.ltb_ge. lia. }
  (* the six steps, one at a time *)
  assert (E1 : tstep period (mkT period (Some 0) [PStat; PStat]) (Step 0)
               = mkT period (Some 0) [PRemove; PStat]).
  { cbn [tstep t_pcs t_token t_now nth_error]. rewrite F. reflexivity. }
  assert (E2 : tstep period (mkT period (Some 0) [PRemove; PStat]) (Step 1)
               = mkT period (Some 0) [PRemove; PRemove]).
  { cbn [tstep t_pcs t_token t_now nth_error]. rewrite F. reflexivity. }
  assert (E3 : tstep period (mkT period (Some 0) [PRemove; PRemove]) (Step 0)
               = mkT period None [PCreate; PRemove]) by reflexivity.
  assert (E4 : tstep period (mkT period None [PCreate; PRemove]) (Step 0)
               = mkT period (Some period) [PDone true; PRemove]) by reflexivity.
  assert (E5 : tstep period (mkT period (Some period) [PDone true; PRemove]) (Step 1)
               = mkT period None [PDone true; PCreate]) by reflexivity.
  assert (E6 : tstep period (mkT period None [PDone true; PCreate]) (Step 1)
               = mkT period (Some period) [PDone true; PDone true]) by reflexivity.
  unfold trun, run, stale_race_schedule, tinit. cbn [fold_left repeat].
  rewrite E1, E2, E3, E4, E5, E6. reflexivity.
Qed.

(* one starter alone *)
Lemma acquire_seq_spec period now tok :
  acquire_seq period now tok =
  (token_state_allows period now tok,
   if token_state_allows period now tok then Some now else tok).
Proof.
  unfold acquire_seq, trun, run, tinit, token_state_allows. cbn [fold_left repeat].
  destruct tok as [m|]; cbn [tstep t_pcs t_token t_now nth_error].
  - destruct (token_fresh period now m) eqn:F;
      cbn [set_pc t_pcs t_token t_now upd nth_error tstep negb]; reflexivity.
  - cbn [set_pc t_pcs t_token t_now upd nth_error tstep]. reflexivity.
Qed.

(* ------------------------------------------------------ the decision *)

Definition launches (c : cfg) (period now : Z) (tok : option Z) : bool :=
  c_crash c || (c_upload c && token_state_allows period now tok).

Lemma parent_run_spec c mode ld period now tok :
  parent_run c mode ld period now tok =
  if beq mode lit_off then mkR OReturned [EReadMode] tok
  else if negb ld then mkR OReturned [EReadMode; EOpenCounters; EStatLocal] tok
  else
    let up := c_upload c && token_state_allows period now tok in
    mkR OReturned
        ([EReadMode; EOpenCounters; EStatLocal]
         ++ (if c_upload c then token_effects period now tok else [])
         ++ (if c_crash c || up then [EExec (c_crash c) up] else []))
        (if up then Some now else tok).
Proof.
  unfold parent_run. destruct (beq mode lit_off); [reflexivity|].
  destruct (negb ld); [reflexivity|]. rewrite acquire_seq_spec. cbn [fst snd].
  destruct (c_upload c); cbn [andb]; reflexivity.
Qed.

Lemma in_token_effects_not_exec period now tok e : In e (token_effects period now tok) -> is_exec e = false.
Proof.
  unfold token_effects. destruct tok as [m|]; [destruct (token_fresh period now m)|]; cbn [In];
    intuition (subst; reflexivity).
Qed.

(* a sidecar is exec'ed only by an application process (empty marker), with
   the mode not off, the local directory present, for the crash monitor
   and/or because the upload flag is set and the token was acquired *)
Theorem launch_only_if marker uv c mode ld period now tok cr up :
  In (EExec cr up) (r_effects (start_run marker uv c mode ld period now tok)) ->
  marker = [] /\ mode <> lit_off /\ ld = true /\
  cr = c_crash c /\ (cr = true \/ up = true) /\
  (up = true -> c_upload c = true /\ token_state_allows period now tok = true
                /\ r_token (start_run marker uv c mode ld period now tok) = Some now).
Proof.
  unfold start_run. destruct (beq marker []) eqn:M.
  - apply beq_eq in M. rewrite parent_run_spec.
    destruct (beq mode lit_off) eqn:O; [cbn; intuition discriminate|].
    apply beq_neq in O. destruct ld; cbn [negb]; [|cbn; intuition discriminate].
    cbn zeta. cbn [r_effects r_token]. intros Hin.
    apply in_app_or in Hin as [Hin | Hin]; [cbn in Hin; intuition discriminate|].
    apply in_app_or in Hin as [Hin | Hin].
    + exfalso. destruct (c_upload c); [|destruct Hin].
      apply in_token_effects_not_exec in Hin. discriminate.
    + destruct (c_crash c || c_upload c && token_state_allows period now tok) eqn:L; [|destruct Hin].
      destruct Hin as [[= <- <-] | []].
      repeat split; try assumption; try reflexivity.
      * apply orb_true_iff in L. tauto.
      * apply andb_true_iff in H. tauto.
      * apply andb_true_iff in H. tauto.
      * rewrite H. reflexivity.
  - destruct (beq marker lit_1).
    + cbn [child_run r_effects]. intros Hin.
      destruct (c_crash c), uv; cbn in Hin; intuition discriminate.
    + destruct (beq marker lit_2); cbn; intuition discriminate.
Qed.

(* and it is: the decision is exactly that *)
Theorem launch_iff uv c mode period now tok :
  mode <> lit_off ->
  (launches c period now tok = true <->
   In (EExec (c_crash c) (c_upload c && token_state_allows period now tok))
      (r_effects (start_run [] uv c mode true period now tok))).
Proof.
  intros O. apply beq_neq in O. unfold start_run. cbn [beq]. rewrite parent_run_spec, O. cbn [negb].
  cbn zeta. cbn [r_effects]. unfold launches. split.
  - intros L. apply in_or_app. right. apply in_or_app. right. rewrite L. left. reflexivity.
  - intros Hin. apply in_app_or in Hin as [Hin | Hin]; [cbn in Hin; intuition discriminate|].
    apply in_app_or in Hin as [Hin | Hin].
    + destruct (c_upload c); [|destruct Hin]. apply in_token_effects_not_exec in Hin. discriminate.
    + destruct (c_crash c || c_upload c && token_state_allows period now tok); [reflexivity | destruct Hin].
Qed.

(* a sidecar ("1") or a descendant of one ("2") execs nothing *)
Theorem no_exec_in_child marker uv c mode ld period now tok :
  marker = lit_1 \/ marker = lit_2 ->
  forall e, In e (r_effects (start_run marker uv c mode ld period now tok)) -> is_exec e = false.
Proof.
  intros [-> | ->] e; unfold start_run; cbn [beq lit_1 lit_2 N.eqb Pos.eqb andb].
  - cbn [child_run r_effects]. destruct (c_crash c), uv; cbn; intuition (subst; reflexivity).
  - cbn. intros [].
Qed.

(* the sidecar rewrites the marker to "2" before any other effect *)
Theorem child_sets_marker_first uv c mode ld period now tok :
  exists rest, r_effects (start_run lit_1 uv c mode ld period now tok) = ESetMarker2 :: rest /\
               r_outcome (start_run lit_1 uv c mode ld period now tok) = OChildExit.
Proof. eexists. split; reflexivity. Qed.

(* ------------------------------------------------------ process tree *)

Lemma spawned_marker2 fuel uv c mode ld period now tok :
  spawned fuel lit_2 uv c mode ld period now tok = [].
Proof. destruct fuel; reflexivity. Qed.

Lemma spawned_other fuel marker uv c mode ld period now tok :
  beq marker [] = false -> beq marker lit_1 = false ->
  spawned fuel marker uv c mode ld period now tok = [].
Proof.
  intros M0 M1. destruct fuel; [reflexivity|]. cbn [spawned]. unfold start_run. rewrite M0, M1.
  destruct (beq marker lit_2); reflexivity.
Qed.

Lemma spawned_marker1 fuel uv c mode ld period now tok :
  spawned (S fuel) lit_1 uv c mode ld period now tok =
  if uv && beq mode lit_on then [mkProc KDelegated lit_2 uv] else [].
Proof.
  cbn [spawned]. unfold start_run. cbn [beq lit_1 N.eqb Pos.eqb andb child_run r_effects r_token].
  destruct (c_crash c), uv; cbn [app andb]; try reflexivity;
    destruct (beq mode lit_on); cbn [app]; rewrite ?spawned_marker2; reflexivity.
Qed.

Lemma walk_no_spawn cur effs :
  (forall e, In e effs -> match e with ESetMarker2 | EExec _ _ | EUploadRun => False | _ => True end) ->
  forall (F : bytes -> bool -> list proc) (G : bytes -> list proc),
  (fix walk (cur : bytes) (effs : list effect) : list proc :=
     match effs with
     | [] => []
     | ESetMarker2 :: rest => walk lit_2 rest
     | EExec _ up :: rest => F cur up ++ walk cur rest
     | EUploadRun :: rest => G cur ++ walk cur rest
     | _ :: rest => walk cur rest
     end) cur effs = [].
Proof.
  intros H F G. revert cur. induction effs as [|e r IH]; intros cur; [reflexivity|].
  assert (He := H e (or_introl eq_refl)).
  assert (Hr : forall e, In e r -> match e with ESetMarker2 | EExec _ _ | EUploadRun => False | _ => True end)
    by (intros; apply H; right; assumption).
  destruct e; try destruct He; apply IH; exact Hr.
Qed.

(* the application process: at most the one sidecar, and whatever that starts *)
Lemma spawned_app fuel uv c mode ld period now tok :
  spawned (S fuel) [] uv c mode ld period now tok =
  if negb (beq mode lit_off) && ld && launches c period now tok
  then let up := c_upload c && token_state_allows period now tok in
       mkProc KSidecar lit_1 (up || uv)
         :: spawned fuel lit_1 (up || uv) c mode ld period now (if up then Some now else tok)
  else [].
Proof.
  cbn [spawned]. unfold start_run. cbn [beq]. rewrite parent_run_spec.
  destruct (beq mode lit_off); [reflexivity|]. destruct ld; [|reflexivity]. cbn [negb andb].
  cbn zeta. cbn [r_effects r_token app]. unfold launches.
  set (up := c_upload c && token_state_allows period now tok).
  assert (TE : forall cur F G,
    (fix walk (cur : bytes) (effs : list effect) : list proc :=
       match effs with
       | [] => []
       | ESetMarker2 :: rest => walk lit_2 rest
       | EExec _ up :: rest => F cur up ++ walk cur rest
       | EUploadRun :: rest => G cur ++ walk cur rest
       | _ :: rest => walk cur rest
       end) cur (if c_upload c then token_effects period now tok else []) = []).
  { intros cur F G. apply walk_no_spawn. intros e Hin.
    destruct (c_upload c); [|destruct Hin]. unfold token_effects in Hin.
    destruct tok as [m|]; [destruct (token_fresh period now m)|]; cbn [In] in Hin;
      intuition (subst; exact I). }
  destruct (c_upload c) eqn:U.
  - unfold token_effects. destruct tok as [m|]; [destruct (token_fresh period now m)|];
      cbn [app]; destruct (c_crash c || up); cbn [app]; rewrite ?app_nil_r; reflexivity.
  - cbn [app]. destruct (c_crash c || up); cbn [app]; rewrite ?app_nil_r; reflexivity.
Qed.

Definition marker_is_app (marker : bytes) : bool := beq marker [].

(* all processes started, transitively and to any depth, by a process that
   calls Start: what they are *)
Theorem spawned_shape fuel marker uv c mode ld period now tok :
  forall p, In p (spawned fuel marker uv c mode ld period now tok) ->
    (p_kind p = KSidecar /\ p_marker p = lit_1 /\ marker = [] /\ mode <> lit_off /\
     launches c period now tok = true /\
     (p_upload p = true -> uv = true \/
        (c_upload c = true /\ token_state_allows period now tok = true)))
    \/ (p_kind p = KDelegated /\ p_marker p = lit_2 /\ mode = lit_on).
Proof.
  intros p Hin. destruct fuel as [|f]; [destruct Hin|].
  destruct (beq marker []) eqn:M0.
  - apply beq_eq in M0. subst marker. rewrite spawned_app in Hin.
    destruct (beq mode lit_off) eqn:O; [destruct Hin|]. apply beq_neq in O.
    destruct ld; [|destruct Hin]. cbn [negb andb] in Hin.
    destruct (launches c period now tok) eqn:L; [|destruct Hin].
    cbn zeta in Hin. destruct Hin as [<- | Hin].
    + left. cbn [p_kind p_marker p_upload]. repeat split; try assumption.
      intros H. apply orb_true_iff in H as [H | H]; [right | left; exact H].
      apply andb_true_iff in H. exact H.
    + right. destruct f as [|f']; [destruct Hin|]. rewrite spawned_marker1 in Hin.
      destruct ((c_upload c && token_state_allows period now tok || uv) && beq mode lit_on) eqn:E; [|destruct Hin].
      destruct Hin as [<- | []]. cbn [p_kind p_marker]. repeat split.
      apply andb_true_iff in E as [_ E]. apply beq_eq. exact E.
  - destruct (beq marker lit_1) eqn:M1.
    + apply beq_eq in M1. subst marker. rewrite spawned_marker1 in Hin.
      destruct (uv && beq mode lit_on) eqn:E; [|destruct Hin].
      destruct Hin as [<- | []]. right. cbn [p_kind p_marker]. repeat split.
      apply andb_true_iff in E as [_ E]. apply beq_eq. exact E.
    + rewrite (spawned_other _ _ _ _ _ _ _ _ _ M0 M1) in Hin. destruct Hin.
Qed.

Lemma count_sidecar_marker1 fuel uv c mode ld period now tok :
  count is_sidecar (spawned fuel lit_1 uv c mode ld period now tok) = 0%nat.
Proof.
  destruct fuel; [reflexivity|]. rewrite spawned_marker1.
  destruct (uv && beq mode lit_on); reflexivity.
Qed.

(* to any depth: an application starts at most one sidecar in total; a
   sidecar, a descendant of one, or a process with any other marker starts
   none *)
Theorem sidecars_bounded fuel marker uv c mode ld period now tok :
  (count is_sidecar (spawned fuel marker uv c mode ld period now tok)
   <= if beq marker [] then 1 else 0)%nat.
Proof.
  destruct fuel as [|f]; [destruct (beq marker []); cbn; lia|].
  destruct (beq marker []) eqn:M0.
  - apply beq_eq in M0. subst marker. rewrite spawned_app.
    destruct (negb (beq mode lit_off) && ld && launches c period now tok); [|cbn; lia].
    cbn zeta. rewrite count_cons, count_sidecar_marker1. cbn. lia.
  - destruct (beq marker lit_1) eqn:M1.
    + apply beq_eq in M1. subst marker. rewrite count_sidecar_marker1. lia.
    + rewrite (spawned_other _ _ _ _ _ _ _ _ _ M0 M1). cbn. lia.
Qed.

Theorem no_recursion fuel marker uv c mode ld period now tok :
  marker = lit_1 \/ marker = lit_2 ->
  forall p, In p (spawned fuel marker uv c mode ld period now tok) ->
    p_kind p = KDelegated /\ p_marker p = lit_2.
Proof.
  intros Hm p Hin.
  destruct (spawned_shape _ _ _ _ _ _ _ _ _ p Hin) as [(_ & _ & M & _) | (K & Mk & _)]; [|auto].
  subst marker. destruct Hm; discriminate.
Qed.

(* ------------------------------------------------------ mode off *)

Theorem off_inert_no_launch fuel marker uv c ld period now tok :
  spawned fuel marker uv c lit_off ld period now tok = [].
Proof.
  destruct fuel as [|f]; [reflexivity|].
  destruct (beq marker []) eqn:M0.
  - apply beq_eq in M0. subst marker. rewrite spawned_app. reflexivity.
  - destruct (beq marker lit_1) eqn:M1.
    + apply beq_eq in M1. subst marker. rewrite spawned_marker1.
      replace (beq lit_off lit_on) with false by reflexivity. rewrite andb_false_r. reflexivity.
    + apply spawned_other; assumption.
Qed.

(* the application's Start with mode off: one read of the mode file, no
   write, no exec, the token untouched *)
Theorem off_inert_no_write uv c ld period now tok :
  start_run [] uv c lit_off ld period now tok = mkR OReturned [EReadMode] tok.
Proof. reflexivity. Qed.

Theorem off_inert_effects marker uv c ld period now tok : marker <> lit_1 ->
  forall e, In e (r_effects (start_run marker uv c lit_off ld period now tok)) ->
    is_write e = false /\ is_exec e = false.
Proof.
  intros NM e. unfold start_run. destruct (beq marker []) eqn:M0.
  - cbn. intros [<- | []]. split; reflexivity.
  - destruct (beq marker lit_1) eqn:M1; [apply beq_eq in M1; contradiction|].
    destruct (beq marker lit_2); cbn; [intros [] | intros [<- | []]; split; reflexivity].
Qed.

(* ------------------------------------------------------ the oracle *)

Definition token_created (r : result) : bool :=
  existsb (fun e => match e with ETokenCreate true => true | _ => false end) (r_effects r).
Definition fs_changed (r : result) : bool := existsb is_write (r_effects r).

Lemma token_created_app uv c mode ld period now tok :
  c_upload c = true -> token_state_allows period now tok = true -> mode <> lit_off -> ld = true ->
  token_created (start_run [] uv c mode ld period now tok) = true.
Proof.
  intros U A O ->. apply beq_neq in O. unfold token_created, start_run. cbn [beq].
  rewrite parent_run_spec, O, U. cbn [negb]. cbn zeta. cbn [r_effects].
  rewrite !existsb_app. unfold token_effects, token_state_allows in *.
  destruct tok as [m|]; [destruct (token_fresh period now m); [discriminate|]|]; cbn; reflexivity.
Qed.

Theorem oracle_accepts_model fuel marker uv c mode ld period now tok :
  let r := start_run marker uv c mode ld period now tok in
  start_ok marker uv c mode period now tok (token_created r) (fs_changed r)
           (spawned fuel marker uv c mode ld period now tok) = true.
Proof.
  cbn zeta. unfold start_ok. rewrite !andb_true_iff. repeat split.
  - apply forallb_forall. intros p Hin. unfold launch_ok.
    destruct (spawned_shape _ _ _ _ _ _ _ _ _ p Hin)
      as [(K & Mk & M & O & L & Up) | (K & Mk & _)]; rewrite K.
    + subst marker. rewrite Mk. cbn [beq andb]. apply beq_neq in O. rewrite O. cbn [negb andb].
      replace (beq lit_1 lit_1) with true by reflexivity. cbn [andb].
      assert (LD : ld = true).
      { destruct fuel as [|f]; [destruct Hin|]. rewrite spawned_app in Hin.
        destruct ld; [reflexivity|]. rewrite andb_false_r in Hin. destruct Hin. }
      destruct (p_upload p) eqn:PU.
      * rewrite orb_true_r. cbn [andb]. destruct uv; [reflexivity|]. cbn [negb].
        destruct (Up eq_refl) as [? | [U A]]; [discriminate|]. rewrite U, A. cbn [andb].
        apply token_created_app; try assumption. apply beq_neq. exact O.
      * cbn [andb orb]. rewrite orb_false_r.
        (* no upload in the child: it was launched for the crash monitor *)
        destruct fuel as [|f]; [destruct Hin|]. rewrite spawned_app in Hin.
        rewrite O, LD, L in Hin. cbn [negb andb] in Hin. cbn zeta in Hin.
        destruct Hin as [<- | Hin].
        -- cbn [p_upload] in PU. apply orb_false_iff in PU as [PU _].
           unfold launches in L. rewrite PU, orb_false_r in L. rewrite ?andb_true_r. exact L.
        -- exfalso. destruct f as [|f']; [destruct Hin|]. rewrite spawned_marker1 in Hin.
           destruct ((c_upload c && token_state_allows period now tok || uv) && beq mode lit_on);
             [|destruct Hin]. destruct Hin as [<- | []]. discriminate.
    + rewrite Mk. reflexivity.
  - apply Nat.leb_le. apply sidecars_bounded.
  - destruct (beq mode lit_off) eqn:O; [|reflexivity]. apply beq_eq in O. subst mode.
    rewrite off_inert_no_launch. destruct (beq marker lit_1) eqn:M1; [reflexivity|]. cbn [orb].
    apply negb_true_iff. unfold fs_changed.
    destruct (existsb is_write _) eqn:E; [|reflexivity]. exfalso.
    apply existsb_exists in E as [e [Hin W]].
    assert (NM : marker <> lit_1) by (apply beq_neq; exact M1).
    destruct (off_inert_effects marker uv c ld period now tok NM e Hin) as [W' _]. congruence.
Qed.

(* ------------------------------------------------------ entry points *)

(* MaybeChild-then-Start and Start alone do the same thing for every marker:
   both reach the one child(), which is where the marker is rewritten *)
Theorem program_run_eq e marker uv c mode ld period now tok :
  program_run e marker uv c mode ld period now tok = start_run marker uv c mode ld period now tok.
Proof.
  destruct e; [reflexivity|]. unfold program_run, maybe_child_run, start_run.
  destruct (beq marker lit_1) eqn:M1; [|reflexivity].
  apply beq_eq in M1. subst marker. reflexivity.
Qed.

Theorem spawned_e_eq fuel : forall e marker uv c mode ld period now tok,
  spawned_e fuel e marker uv c mode ld period now tok = spawned fuel marker uv c mode ld period now tok.
Proof.
  induction fuel as [|f IH]; intros; [reflexivity|].
  cbn [spawned_e spawned]. rewrite program_run_eq.
  remember (start_run marker uv c mode ld period now tok) as res eqn:Hres. clear Hres.
  generalize (r_token res). intros tok'.
  generalize (r_effects res). intros effs. clear res.
  generalize marker. revert tok'.
  induction effs as [|x r IHr]; intros tok' cur; [reflexivity|].
  destruct x; try (apply IHr).
  - rewrite IH, IHr. reflexivity.
  - destruct (beq mode lit_on); [rewrite IH|]; rewrite IHr; reflexivity.
Qed.

(* whichever entry point ran child(): the environment marker is "2" from the
   first effect on, for everything the sidecar starts *)
Theorem child_marks_environment e uv c mode ld period now tok :
  exists rest,
    r_effects (program_run e lit_1 uv c mode ld period now tok) = ESetMarker2 :: rest /\
    r_outcome (program_run e lit_1 uv c mode ld period now tok) = OChildExit /\
    env_marker_after lit_1 (r_effects (program_run e lit_1 uv c mode ld period now tok)) = lit_2 /\
    (forall pre post, rest = pre ++ post -> env_marker_after lit_1 (ESetMarker2 :: pre) = lit_2).
Proof.
  rewrite program_run_eq. eexists. split; [reflexivity|]. split; [reflexivity|]. split.
  - unfold start_run. cbn [beq lit_1 N.eqb Pos.eqb andb child_run r_effects].
    destruct (c_crash c), uv; reflexivity.
  - intros pre post _. cbn [env_marker_after].
    induction pre as [|x r IH]; [reflexivity|]. destruct x; exact IH.
Qed.

(* a process that finds marker "2" does nothing, whichever entry point *)
Theorem marker2_inert e fuel uv c mode ld period now tok :
  program_run e lit_2 uv c mode ld period now tok = mkR OReturned [] tok /\
  spawned_e fuel e lit_2 uv c mode ld period now tok = [].
Proof.
  split; [rewrite program_run_eq; reflexivity|]. rewrite spawned_e_eq. apply spawned_marker2.
Qed.

Theorem spawned_e_shape fuel e marker uv c mode ld period now tok :
  forall p, In p (spawned_e fuel e marker uv c mode ld period now tok) ->
    (p_kind p = KSidecar /\ p_marker p = lit_1 /\ marker = [] /\ mode <> lit_off /\
     launches c period now tok = true /\
     (p_upload p = true -> uv = true \/
        (c_upload c = true /\ token_state_allows period now tok = true)))
    \/ (p_kind p = KDelegated /\ p_marker p = lit_2 /\ mode = lit_on).
Proof. rewrite spawned_e_eq. apply spawned_shape. Qed.

Theorem sidecars_bounded_e fuel e marker uv c mode ld period now tok :
  (count is_sidecar (spawned_e fuel e marker uv c mode ld period now tok)
   <= if beq marker [] then 1 else 0)%nat.
Proof. rewrite spawned_e_eq. apply sidecars_bounded. Qed.

Theorem oracle_accepts_model_e fuel e marker uv c mode ld period now tok :
  let r := program_run e marker uv c mode ld period now tok in
  start_ok marker uv c mode period now tok (token_created r) (fs_changed r)
           (spawned_e fuel e marker uv c mode ld period now tok) = true.
Proof. cbn zeta. rewrite spawned_e_eq, program_run_eq. apply oracle_accepts_model. Qed.

(* ------------------------------------------------------ which directory *)

(* no TelemetryDir in the configuration and no user configuration directory:
   whatever the mode files lying around say, nothing is started (any marker,
   any entry point, any depth) ... *)
Theorem no_directory_no_launch fuel e marker uv c mode ld period now tok :
  spawned_env fuel e false false marker uv c mode ld period now tok = [].
Proof.
  unfold spawned_env, dir_known, effective_mode. cbn [orb].
  rewrite spawned_e_eq. apply off_inert_no_launch.
Qed.

(* ... the application only asks for the mode ... *)
Theorem no_directory_app e uv c mode ld period now tok :
  program_run_env e false false [] uv c mode ld period now tok = mkR OReturned [EReadMode] tok.
Proof.
  unfold program_run_env, dir_known, effective_mode. cbn [orb]. rewrite program_run_eq. reflexivity.
Qed.

(* ... and no process other than one that already is a sidecar writes or execs *)
Theorem no_directory_effects e marker uv c mode ld period now tok : marker <> lit_1 ->
  forall x, In x (r_effects (program_run_env e false false marker uv c mode ld period now tok)) ->
    is_write x = false /\ is_exec x = false.
Proof.
  unfold program_run_env, dir_known, effective_mode. cbn [orb]. rewrite program_run_eq.
  apply off_inert_effects.
Qed.

(* with a directory, the mode read from it decides, as before *)
Theorem known_directory_run e a b marker uv c mode ld period now tok : dir_known a b = true ->
  program_run_env e a b marker uv c mode ld period now tok = start_run marker uv c mode ld period now tok /\
  spawned_env 4 e a b marker uv c mode ld period now tok = spawned 4 marker uv c mode ld period now tok.
Proof.
  intros K. unfold program_run_env, spawned_env, effective_mode. rewrite K.
  split; [apply program_run_eq | apply spawned_e_eq].
Qed.

Theorem oracle_accepts_model_env fuel e a b marker uv c mode ld period now tok :
  let m := effective_mode (dir_known a b) mode in
  let r := program_run_env e a b marker uv c mode ld period now tok in
  start_ok marker uv c m period now tok (token_created r) (fs_changed r)
           (spawned_env fuel e a b marker uv c mode ld period now tok) = true.
Proof. cbn zeta. unfold program_run_env, spawned_env. apply oracle_accepts_model_e. Qed.

(* ------------------------------------------------------ the mode file *)

(* every hand-written spelling of "off" (trailing newline or CRLF, surrounding
   blanks, with or without a date) reads as "off" *)
Lemma off_spellings_read_off : forallb (fun d => beq (mode_of_bytes d) lit_off) off_spellings = true.
Proof. vm_compute. reflexivity. Qed.

Theorem off_spelling_is_off d : In d off_spellings -> mode_of_bytes d = lit_off.
Proof.
  intros Hin. apply beq_eq.
  exact (proj1 (forallb_forall _ _) off_spellings_read_off d Hin).
Qed.

(* a mode file that reads as "off": nothing started (any marker, entry point,
   flags, depth), the application only reads the mode, nobody but an existing
   sidecar writes *)
Theorem off_file_inert fuel e a b marker uv c d ld period now tok : mode_of_bytes d = lit_off ->
  spawned_file fuel e a b marker uv c (Some d) ld period now tok = [] /\
  program_run_file e a b [] uv c (Some d) ld period now tok = mkR OReturned [EReadMode] tok /\
  (marker <> lit_1 ->
   forall x, In x (r_effects (program_run_file e a b marker uv c (Some d) ld period now tok)) ->
     is_write x = false /\ is_exec x = false).
Proof.
  intros M. unfold spawned_file, program_run_file, spawned_env, program_run_env. cbn [mode_of_file]. rewrite M.
  assert (E : effective_mode (dir_known a b) lit_off = lit_off) by (unfold effective_mode; destruct (dir_known a b); reflexivity).
  rewrite E. split; [rewrite spawned_e_eq; apply off_inert_no_launch|].
  split; [rewrite program_run_eq; reflexivity|].
  intros NM. rewrite program_run_eq. apply off_inert_effects. exact NM.
Qed.

(* a missing or unreadable mode file is "local": telemetry is not off *)
Lemma absent_file_is_local : mode_of_file None = lit_local /\ lit_local <> lit_off.
Proof. split; [reflexivity | discriminate]. Qed.

Theorem oracle_accepts_model_file fuel e a b marker uv c file ld period now tok :
  let m := effective_mode (dir_known a b) (mode_of_file file) in
  let r := program_run_file e a b marker uv c file ld period now tok in
  start_ok marker uv c m period now tok (token_created r) (fs_changed r)
           (spawned_file fuel e a b marker uv c file ld period now tok) = true.
Proof. cbn zeta. unfold program_run_file, spawned_file. apply oracle_accepts_model_env. Qed.

(* ------------------------------------------------------ UploadStartTime, histories *)

Theorem upload_start_time_irrelevant fuel e a b marker uv c s1 s2 file ld period now tok :
  program_run_cfg e a b marker uv c s1 file ld period now tok
  = program_run_cfg e a b marker uv c s2 file ld period now tok /\
  spawned_cfg fuel e a b marker uv c s1 file ld period now tok
  = spawned_cfg fuel e a b marker uv c s2 file ld period now tok.
Proof. split; reflexivity. Qed.

Theorem oracle_accepts_model_cfg fuel e a b marker uv c s file ld period now tok :
  let m := effective_mode (dir_known a b) (mode_of_file file) in
  let r := program_run_cfg e a b marker uv c s file ld period now tok in
  start_ok marker uv c m period now tok (token_created r) (fs_changed r)
           (spawned_cfg fuel e a b marker uv c s file ld period now tok) = true.
Proof. cbn zeta. unfold program_run_cfg, spawned_cfg. apply oracle_accepts_model_file. Qed.

Lemma history_run_cons period t s rest tok :
  history_run period ((t, s) :: rest) tok =
  (token_state_allows period t tok :: fst (history_run period rest (if token_state_allows period t tok then Some t else tok)),
   snd (history_run period rest (if token_state_allows period t tok then Some t else tok))).
Proof. cbn [history_run]. rewrite acquire_seq_spec. reflexivity. Qed.

(* a refused start leaves the token as it was (its time is not refreshed) and
   an acquisition stamps it with the current real time *)
Theorem refused_start_keeps_token period t tok :
  (token_state_allows period t tok = false -> snd (acquire_seq period t tok) = tok) /\
  (token_state_allows period t tok = true -> snd (acquire_seq period t tok) = Some t).
Proof. rewrite acquire_seq_spec. cbn [snd]. split; intros ->; reflexivity. Qed.

(* in every history of starts (any real times, any UploadStartTime values)
   two acquisitions are at least a period apart, and so are the first one and
   the token that was there before *)
Theorem history_is_spaced period starts : forall tok,
  history_spaced period tok (combine (map fst starts) (fst (history_run period starts tok))) = true.
Proof.
  induction starts as [|[t s] rest IH]; intros tok; [reflexivity|].
  rewrite history_run_cons. cbn [map fst combine history_spaced].
  destruct (token_state_allows period t tok) eqn:A.
  - rewrite IH, andb_true_r. unfold token_state_allows, token_fresh in A.
    destruct tok as [m|]; [|reflexivity]. apply negb_true_iff, Z.ltb_ge in A. apply Z.leb_le. exact A.
  - apply IH.
Qed.

(* ... and the limit is not stricter than that: a start a period or more after
   the last acquisition (refused starts in between do not count) acquires *)
Theorem history_acquires_after_period period t s rest m :
  period <= t - m -> fst (history_run period ((t, s) :: rest) (Some m)) = true :: fst (history_run period rest (Some t)).
Proof.
  intros H. rewrite history_run_cons. cbn [fst].
  assert (A : token_state_allows period t (Some m) = true).
  { unfold token_state_allows, token_fresh. apply negb_true_iff, Z.ltb_ge. exact H. }
  rewrite A. reflexivity.
Qed.

Theorem history_refused_then_same period t s rest m :
  t - m < period -> history_run period ((t, s) :: rest) (Some m) =
                    (false :: fst (history_run period rest (Some m)), snd (history_run period rest (Some m))).
Proof.
  intros H. rewrite history_run_cons.
  assert (A : token_state_allows period t (Some m) = false).
  { unfold token_state_allows, token_fresh. apply negb_false_iff, Z.ltb_lt. exact H. }
  rewrite A. reflexivity.
Qed.
