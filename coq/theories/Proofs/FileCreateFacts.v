(* Proofs/FileCreateFacts: whoever is killed wherever, every process that
   finishes opening has a mapping of a file with the header in place and at
   least minFileLen bytes; a process running alone finishes within 6 calls. *)
From Coq Require Import List NArith ZArith Bool Lia Arith.
From Tele Require Import Gen.Consts Model.FileCreate.
Import ListNotations.
Open Scope N_scope.

Section Facts.
Variable HL : N.
Notation step_opener := (step_opener true HL).
Notation cstep := (cstep true HL).
Notation crun := (crun true HL).

(* a file as any prefix of a creation can leave it: once it has its full
   length the header is there *)
Definition cfile_ok (f : cstate) : Prop := MINLEN <= c_size f -> c_hdr f = true.

Definition opener_ok (f : cstate) (o : opener) : Prop :=
  match o_pc o with
  | COpen | CStat | CWriteHdr => True
  | CWriteZero => c_hdr f = true
  | CStat2 | CMap => MINLEN <= c_size f /\ c_hdr f = true
  | CDone ok => ok = true /\ MINLEN <= o_map o /\ o_map o <= c_size f /\ c_hdr f = true
  end.

Definition cinv (st : cst) : Prop :=
  cfile_ok (fst st) /\ forall i o, nth_error (snd st) i = Some o -> opener_ok (fst st) o.

(* the file only grows and keeps its header *)
Definition cgrows (f f' : cstate) : Prop :=
  c_size f <= c_size f' /\ (c_hdr f = true -> c_hdr f' = true).

Lemma step_grows : forall f o, cgrows f (fst (step_opener f o)).
Proof.
  intros f o. unfold FileCreate.step_opener, cgrows.
  destruct (o_pc o); cbn [fst];
    repeat match goal with |- context [if ?c then _ else _] => destruct c eqn:? end; cbn [fst c_size c_hdr]; split; auto; lia.
Qed.

Lemma opener_ok_grows : forall f f' o, cgrows f f' -> opener_ok f o -> opener_ok f' o.
Proof.
  intros f f' o [G1 G2] K. unfold opener_ok in *. destruct (o_pc o); auto.
  - destruct K; split; [lia|auto].
  - destruct K; split; [lia|auto].
  - destruct K as (A & B & C & D). repeat split; auto; lia.
Qed.

Lemma step_own : forall f o, cfile_ok f -> opener_ok f o ->
  cfile_ok (fst (step_opener f o)) /\ opener_ok (fst (step_opener f o)) (snd (step_opener f o)).
Proof.
  intros f o F K. unfold FileCreate.step_opener, cfile_ok, opener_ok, MINLEN in *.
  destruct (o_pc o) eqn:Pc; cbn [fst snd o_pc o_map c_size c_hdr].
  - split; [exact F|exact I].
  - cbn [andb]. destruct (c_size f <? c_minFileLen) eqn:Q; cbn [fst snd o_pc]; [split; [exact F|exact I]|].
    apply N.ltb_ge in Q. split; [exact F|]. cbn. split; [exact Q|auto].
  - split; [intros _; reflexivity|reflexivity].
  - split; [intros _; exact K|]. split; [lia|exact K].
  - destruct K as [K1 K2]. destruct (c_size f <? c_minFileLen) eqn:Q; cbn [fst snd o_pc].
    + apply N.ltb_lt in Q. lia.
    + split; [exact F|]. cbn. auto.
  - destruct K as [K1 K2]. rewrite K2. cbn [fst snd o_pc o_map]. split; [exact F|]. repeat split; auto. lia.
  - rewrite Pc. split; [exact F|exact K].
Qed.

Lemma cnth_upd_same : forall (l : list opener) i x y, nth_error l i = Some y -> nth_error (cupd l i x) i = Some x.
Proof. induction l as [|a l IH]; destruct i; cbn; intros; try discriminate; eauto. Qed.
Lemma cnth_upd_other : forall (l : list opener) i j x, i <> j -> nth_error (cupd l i x) j = nth_error l j.
Proof. induction l as [|a l IH]; destruct i, j; cbn; intros; try reflexivity; try congruence. apply IH. congruence. Qed.

Lemma cinv_step : forall st i, cinv st -> cinv (cstep st i).
Proof.
  intros [f os] i [F K]. cbn [fst snd] in *. unfold FileCreate.cstep.
  destruct (nth_error os i) as [o|] eqn:E; [|split; assumption].
  pose proof (step_own f o F (K i o E)) as [F' K']. pose proof (step_grows f o) as G.
  destruct (step_opener f o) as [f' o']. cbn [fst snd] in *. split; [exact F'|]. cbn [fst snd].
  intros j oj Ej. destruct (Nat.eq_dec i j) as [<-|Ne].
  - rewrite (cnth_upd_same os i o' o E) in Ej. inversion Ej; subst. exact K'.
  - rewrite cnth_upd_other in Ej by exact Ne. eapply opener_ok_grows; eauto.
Qed.

Lemma cinv_run : forall sched st, cinv st -> cinv (crun sched st).
Proof. induction sched as [|i s IH]; intros st K; [exact K|]. cbn. apply IH. apply cinv_step. exact K. Qed.

(* any file a killed creator may have left, any number of openers about to open it *)
Definition cinit (st : cst) : Prop :=
  cfile_ok (fst st) /\ forall i o, nth_error (snd st) i = Some o -> o = fresh_opener.

Theorem create_total : forall st0 sched i o ok, cinit st0 ->
  nth_error (snd (crun sched st0)) i = Some o -> o_pc o = CDone ok ->
  ok = true /\ MINLEN <= o_map o /\ c_hdr (fst (crun sched st0)) = true /\ MINLEN <= c_size (fst (crun sched st0)).
Proof.
  intros st0 sched i o ok [F0 K0] E Pc.
  assert (I0 : cinv st0). { split; [exact F0|]. intros j oj Ej. rewrite (K0 j oj Ej). exact I. }
  destruct (cinv_run sched st0 I0) as [F K]. specialize (K i o E). unfold opener_ok in K. rewrite Pc in K.
  destruct K as (A & B & C & D). repeat split; auto. lia.
Qed.

(* progress: alone, from a fresh start, an opener is done after six calls *)
Fixpoint solo (k : nat) (f : cstate) (o : opener) : cstate * opener :=
  match k with O => (f, o) | S k' => let '(f', o') := step_opener f o in solo k' f' o' end.

Theorem create_solo_done : forall f, exists ok, o_pc (snd (solo 6 f fresh_opener)) = CDone ok.
Proof.
  intro f. unfold solo, fresh_opener.
  repeat (unfold FileCreate.step_opener at 1; cbn [o_pc o_map c_size c_hdr fst snd];
          repeat match goal with |- context [if ?c then _ else _] => destruct c eqn:? end;
          cbn [o_pc o_map c_size c_hdr fst snd]);
    eauto.
Qed.

End Facts.

(* ---- the variant that initialises only an EMPTY file (seeded change C04-m8
        shape): a creator killed between its two writes leaves a file that no
        later opener can ever open ---- *)
Theorem create_only_empty_refuted :
  let st0 := (mkC 0 false, [fresh_opener; fresh_opener]) in
  (* opener 0: OpenFile, Stat, WriteAt(header) ... and is killed; opener 1 opens *)
  let st := FileCreate.crun false 192 [0; 0; 0; 1; 1]%nat st0 in
  c_size (fst st) = 192 /\ option_map o_pc (nth_error (snd st) 1) = Some (CDone false) /\
  (* and so does everybody after it, for ever: the file is never completed *)
  forall k, option_map o_pc (nth_error (snd (FileCreate.crun false 192 (repeat 1%nat k) st)) 1) = Some (CDone false).
Proof.
  cbv zeta. split; [vm_compute; reflexivity|]. split; [vm_compute; reflexivity|].
  induction k as [|k IH]; [vm_compute; reflexivity|].
  cbn [repeat FileCreate.crun fold_left].
  replace (FileCreate.cstep false 192 (FileCreate.crun false 192 [0; 0; 0; 1; 1]%nat (mkC 0 false, [fresh_opener; fresh_opener])) 1)
    with (FileCreate.crun false 192 [0; 0; 0; 1; 1]%nat (mkC 0 false, [fresh_opener; fresh_opener])) by (vm_compute; reflexivity).
  exact IH.
Qed.
