(* Proofs/UploaderNames: which names a thread can hold in which of its
   lists (thread-local invariant): count files in the work lists and the
   delete list, report names (never a count file, never a local report) in the
   upload lists.  Week strings come from fmt_date and never start with 'l'. *)
From Coq Require Import List ZArith NArith Bool Lia Arith.
From Tele Require Import Lib.Bytes Lib.Calendar Lib.FS Model.Span Model.Uploader
  Proofs.FSFacts Proofs.UploaderBase.
Import ListNotations.
Open Scope nat_scope.

(* ---------------------------------------------------------------- digits *)
Definition small (c : N) : Prop := (c < 58)%N.

Lemma dec_digits_small fuel : forall n acc, Forall small acc -> Forall small (dec_digits fuel n acc).
Proof.
  induction fuel as [|f IH]; intros n acc H; cbn [dec_digits]; auto.
  destruct (N.ltb_spec n 10).
  - constructor; auto. unfold small. lia.
  - apply IH. constructor; auto. unfold small.
    assert (n mod 10 < 10)%N by (apply N.mod_lt; lia). lia.
Qed.

Lemma pad_left_aux_small k s : Forall small s -> Forall small (pad_left_aux k s).
Proof. induction k; cbn [pad_left_aux]; auto. intros H. constructor; auto. unfold small. lia. Qed.

Lemma dec_pad_small w n : Forall small (dec_pad w n).
Proof. unfold dec_pad, pad_left. apply pad_left_aux_small. apply dec_digits_small. constructor. Qed.

Lemma fmt_date_small day : Forall small (fmt_date day).
Proof.
  unfold fmt_date. destruct (civil_from_days day) as [[y m] d]. unfold fmt_ymd.
  repeat (apply Forall_app; split); try apply dec_pad_small; constructor; try constructor;
    unfold small, dash; lia.
Qed.

Lemma fmt_date_nonempty day : fmt_date day <> [].
Proof.
  unfold fmt_date. destruct (civil_from_days day) as [[y m] d]. unfold fmt_ymd.
  intros E. apply app_eq_nil in E. destruct E as [_ E]. discriminate.
Qed.

(* weeks are dates of end instants *)
Definition week_ok (w : bytes) : Prop := exists e, w = uploader_week e.

Lemma week_ok_uploader e : week_ok (uploader_week e).
Proof. exists e. reflexivity. Qed.

Lemma week_not_local w : week_ok w -> is_localrep (ready_name w) = false.
Proof.
  intros [e ->]. unfold uploader_week, is_localrep, ready_name.
  pose proof (fmt_date_small (e / 86400)) as Hs. pose proof (fmt_date_nonempty (e / 86400)) as Hn.
  destruct (fmt_date (e / 86400)) as [|c s]; [contradiction|].
  inversion Hs; subst. unfold small in *. simpl.
  destruct (N.eqb_spec c 108); auto. lia.
Qed.

(* ---------------------------------------------------------------- the invariant *)
Definition cnames (l : list (bytes * cfile)) : Prop := Forall (fun e => is_count (fst e) = true) l.
Definition rname (n : bytes) : Prop := is_count n = false /\ is_localrep n = false /\ is_json n = true.

Definition in_rep (p : pc) : bool :=
  match p with
  | RDel | RStatLocal | RStatUp | RCreateUp | RWriteUp | RCreateLocal | RWriteLocal => true
  | _ => false
  end.
Definition in_upl (p : pc) : bool :=
  match p with
  | URead | ULock | UStat | URemAlready | UPost | URem4xx | UWriteMarker | URemDone | UUnlock => true
  | _ => false
  end.

Record names_inv (t : thread) : Prop := mkNI {
  ni_ents : Forall (fun n => is_count n = true) (t_ents t);
  ni_count : cnames (t_count t);
  ni_weeks : Forall (fun g => week_ok (fst g) /\ cnames (snd g)) (t_weeks t);
  ni_files : cnames (t_files t);
  ni_week : in_rep (t_pc t) = true -> week_ok (t_week t);
  ni_dels : Forall (fun n => is_count n = true) (t_dels t);
  ni_ready : Forall rname (t_ready t);
  ni_up : Forall rname (t_up t);
  ni_file : in_upl (t_pc t) = true -> rname (t_file t);
  ni_nonempty : in_rep (t_pc t) = true -> t_files t <> []
}.

Lemma names_inv_new k c : names_inv (new_thread k c).
Proof. constructor; simpl; try constructor; discriminate. Qed.

Lemma Forall_filter {A} (P : A -> Prop) (f : A -> bool) l :
  (forall x, f x = true -> P x) -> Forall P (filter f l).
Proof.
  intros H. induction l as [|x l IH]; simpl; auto.
  destruct (f x) eqn:E; auto.
Qed.

Lemma Forall_filter_keep {A} (P : A -> Prop) (f : A -> bool) l : Forall P l -> Forall P (filter f l).
Proof.
  induction 1; simpl; auto. destruct (f x); auto.
Qed.

Lemma collect_ready_rname c n : collect_ready c n = true -> rname n.
Proof.
  unfold collect_ready, rname. intros H.
  repeat (apply andb_true_iff in H; destruct H as [H ?]).
  apply negb_true_iff in H. apply negb_true_iff in H3. auto.
Qed.

Lemma rname_ready w : week_ok w -> rname (ready_name w).
Proof. intros H. split; [apply is_count_ready|split; [apply week_not_local; exact H|apply is_json_ready]]. Qed.

Lemma group_add_ok g w e :
  Forall (fun g => week_ok (fst g) /\ cnames (snd g)) g -> week_ok w -> is_count (fst e) = true ->
  Forall (fun g => week_ok (fst g) /\ cnames (snd g)) (group_add g w e).
Proof.
  intros H Hw He. induction H as [|[w' l] g [H1 H2] H IH]; simpl.
  - repeat constructor; auto.
  - destruct (beq w' w); constructor; simpl in *; auto.
    all: try (split; auto; apply Forall_app; split; auto; constructor; auto).
Qed.

Lemma group_files_ok start cs :
  cnames cs -> Forall (fun g => week_ok (fst g) /\ cnames (snd g)) (group_files start cs).
Proof.
  unfold group_files. intros H.
  assert (G : forall acc, Forall (fun g => week_ok (fst g) /\ cnames (snd g)) acc ->
            Forall (fun g => week_ok (fst g) /\ cnames (snd g))
              (fold_left (fun g e => if before_start (cf_end (snd e)) start
                                     then group_add g (uploader_week (cf_end (snd e))) e else g) cs acc)).
  { induction H as [|e cs He H IH]; intros acc Ha; simpl; auto.
    apply IH. destruct (before_start (cf_end (snd e)) start); auto.
    apply group_add_ok; auto. apply week_ok_uploader. }
  apply G. constructor.
Qed.

Lemma take_week_ok w g files rest :
  Forall (fun g => week_ok (fst g) /\ cnames (snd g)) g -> take_week w g = Some (files, rest) ->
  week_ok w /\ cnames files /\ Forall (fun g => week_ok (fst g) /\ cnames (snd g)) rest.
Proof.
  intros H. revert files rest. induction H as [|[w' l] g [H1 H2] H IH]; simpl; intros files rest E; [discriminate|].
  destruct (beq w' w) eqn:Ew.
  - injection E as <- <-. apply beq_eq in Ew. subst. auto.
  - destruct (take_week w g) as [[l0 r]|]; [|discriminate]. injection E as <- <-.
    destruct (IH _ _ eq_refl) as (A & B & C). repeat split; auto.
Qed.

Lemma next_upload_ok tod l f rest :
  Forall rname l -> next_upload tod l = Some (f, rest) -> rname f /\ Forall rname rest.
Proof.
  induction 1 as [|x l Hx H IH]; simpl; [discriminate|].
  destruct (in_future tod x); auto. intros E. injection E as <- <-. auto.
Qed.

Lemma cnames_map_fst l : cnames l -> Forall (fun n => is_count n = true) (map fst l).
Proof. induction 1; simpl; constructor; auto. Qed.

Lemma names_inv_step f a t e t' : decide_all f a t = (e, t') -> names_inv t -> names_inv t'.
Proof.
  intros H [H1 H2 H3 H4 H5 H6 H7 H8 H9 H10].
  destruct a; dinv H; adv; pcrw; simpl in *.
  all: try (destruct (take_week_ok _ _ _ _ H3 ltac:(eassumption)) as (Tw & Tf & Tr)).
  all: try (match goal with Hn : next_upload _ _ = Some _ |- _ =>
              destruct (next_upload_ok _ _ _ _ ltac:(eassumption) Hn) end).
  all: constructor; simpl; pcrw.
  all: try (intros Hx; simpl in Hx; dmatch Hx; try discriminate).
  all: repeat match goal with E : ?x = _ |- context [?x] => rewrite E end.
  all: auto.
  all: try (unfold cnames; constructor; fail).
  all: try (apply Forall_filter; intros; eapply collect_ready_rname; eauto; fail).
  all: try (apply group_files_ok; auto; fail).
  all: try (apply cnames_map_fst; auto; fail).
  all: try (match goal with E : filter _ _ = _ |- _ => rewrite <- E; apply Forall_filter; auto end; fail).
  all: try (apply Forall_app; split; auto; constructor; auto; apply rname_ready; apply H5; reflexivity).
  all: try (inversion H1; subst; auto; fail).
  all: try (inversion H6; subst; auto; fail).
  all: try (apply Forall_app; split; auto; constructor; auto; inversion H1; subst; auto; fail).
  all: try (destruct (t_upok t); auto; apply Forall_app; split; auto; constructor; auto;
            apply rname_ready; apply H5; reflexivity).
  all: try (destruct (next_upload_ok _ _ _ _ H7 H); auto; fail).
  intros ->. discriminate.
Qed.

(* every thread of a reachable state *)
Lemma names_inv_reach st : reach st -> forall i t, nth_error (s_ths st) i = Some t -> names_inv t.
Proof. apply thread_inv_reach; [apply names_inv_new|apply names_inv_step]. Qed.
