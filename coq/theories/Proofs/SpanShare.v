(* Proofs/SpanShare: a second process meeting an existing counter file (C09). *)
From Coq Require Import List ZArith NArith Bool Lia.
From Tele Require Import Lib.Bytes Lib.Calendar Model.Span Proofs.SpanFacts.
Import ListNotations.
Open Scope Z_scope.

Lemma rfc3339_inj a b : -719528 * 86400 <= a < 2932897 * 86400 -> -719528 * 86400 <= b < 2932897 * 86400 ->
  fmt_rfc3339 a = fmt_rfc3339 b -> a = b.
Proof.
  intros Ha Hb E. pose proof (rfc3339_roundtrip a Ha) as Ra. pose proof (rfc3339_roundtrip b Hb) as Rb.
  rewrite E in Ra. rewrite Ra in Rb. injection Rb as Rb. exact Rb.
Qed.

(* The kernel's conversion must not be asked to compare a folded with an
   unfolded date rendering (it evaluates the rendering symbolically): these
   equations are proved with the unfolded side as the inferred type and used
   by rewriting. *)
Lemma hm_unfold first mine : header_matches first mine =
  beq (meta_time_begin first) (meta_time_begin mine) && beq (meta_time_end first) (meta_time_end mine).
Proof. exact (eq_refl (beq (meta_time_begin first) (meta_time_begin mine) && beq (meta_time_end first) (meta_time_end mine))). Qed.
Lemma mtb_unfold s : meta_time_begin s = fmt_rfc3339 (fst s).
Proof. exact (eq_refl (fmt_rfc3339 (fst s))). Qed.
Lemma mte_unfold s : meta_time_end s = fmt_rfc3339 (snd s).
Proof. exact (eq_refl (fmt_rfc3339 (snd s))). Qed.
Lemma so_unfold first mine : second_opener first mine =
  if beq (name_date first) (name_date mine)
  then (if header_matches first mine then Some first else None)
  else Some mine.
Proof. exact (eq_refl (if beq (name_date first) (name_date mine)
  then (if header_matches first mine then Some first else None) else Some mine)). Qed.

Lemma second_opener_some first mine s : second_opener first mine = Some s ->
  s = mine \/ (s = first /\ header_matches first mine = true).
Proof.
  rewrite so_unfold.
  destruct (beq (name_date first) (name_date mine)).
  - destruct (header_matches first mine); [|discriminate].
    intros H. injection H as H. right. split; [symmetry; exact H | reflexivity].
  - intros H. injection H as H. left. symmetry. exact H.
Qed.

Lemma header_matches_eq (first mine : Z * Z) :
  -719528 * 86400 <= fst first < 2932897 * 86400 -> -719528 * 86400 <= snd first < 2932897 * 86400 ->
  -719528 * 86400 <= fst mine < 2932897 * 86400 -> -719528 * 86400 <= snd mine < 2932897 * 86400 ->
  header_matches first mine = true -> first = mine.
Proof.
  intros Rb0 Re0 Rb1 Re1 HM.
  rewrite hm_unfold in HM.
  apply andb_true_iff in HM. destruct HM as [M1 M2].
  apply beq_eq in M1. apply beq_eq in M2.
  rewrite !mtb_unfold in M1. rewrite !mte_unfold in M2.
  apply (rfc3339_inj _ _ Rb0 Rb1) in M1. apply (rfc3339_inj _ _ Re0 Re1) in M2.
  destruct first as [b0 e0]. destruct mine as [b1 e1]. cbn [fst snd] in M1, M2.
  rewrite M1, M2. reflexivity.
Qed.

Theorem second_opener_own_span now0 w0 now1 w1 s :
  0 <= w0 < 7 -> 0 <= w1 < 7 -> in_range now0 -> in_range now1 ->
  second_opener (counter_span now0 w0) (counter_span now1 w1) = Some s ->
  s = counter_span now1 w1 /\
  uploader_reads (meta_time_begin s) (meta_time_end s) = Some (counter_span now1 w1).
Proof.
  intros Hw0 Hw1 Hr0 Hr1 H.
  assert (E : s = counter_span now1 w1).
  { pose proof (span_in_range now0 w0 Hw0 Hr0) as R0. pose proof (span_in_range now1 w1 Hw1 Hr1) as R1.
    apply second_opener_some in H.
    destruct H as [H | [H HM]]; [exact H|].
    rewrite H. clear H.
    apply header_matches_eq; [| | | |exact HM].
    - destruct (counter_span now0 w0) as [b0 e0]. exact (proj1 R0).
    - destruct (counter_span now0 w0) as [b0 e0]. exact (proj2 R0).
    - destruct (counter_span now1 w1) as [b1 e1]. exact (proj1 R1).
    - destruct (counter_span now1 w1) as [b1 e1]. exact (proj2 R1). }
  split; [exact E|]. rewrite E. apply uploader_reads_what_counter_wrote; assumption.
Qed.

(* and it is refused exactly when it meets a file of the same begin date whose
   recorded span differs from its own *)
Theorem second_opener_refused_iff first mine :
  second_opener first mine = None <->
  name_date first = name_date mine /\
  ~ (meta_time_begin first = meta_time_begin mine /\ meta_time_end first = meta_time_end mine).
Proof.
  rewrite so_unfold, hm_unfold.
  destruct (beq (name_date first) (name_date mine)) eqn:N.
  - apply beq_eq in N.
    destruct (beq (meta_time_begin first) (meta_time_begin mine)) eqn:B1;
    destruct (beq (meta_time_end first) (meta_time_end mine)) eqn:B2; cbn [andb].
    + apply beq_eq in B1. apply beq_eq in B2. split; [discriminate|]. intros [_ X]. exfalso. apply X. split; assumption.
    + split; [|reflexivity]. intros _. split; [exact N|]. intros [_ X]. apply beq_eq in X. rewrite X in B2. discriminate.
    + split; [|reflexivity]. intros _. split; [exact N|]. intros [X _]. apply beq_eq in X. rewrite X in B1. discriminate.
    + split; [|reflexivity]. intros _. split; [exact N|]. intros [X _]. apply beq_eq in X. rewrite X in B1. discriminate.
  - split; [discriminate|]. intros [X _]. apply beq_eq in X. rewrite X in N. discriminate.
Qed.
