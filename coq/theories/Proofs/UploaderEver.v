(* Proofs/UploaderEver: histories.  A count file of week W is removed only
   in a run in which, now or earlier, a report for W existed: local.W.json,
   W.json, upload/W.json, or a ready file whose name contains W (the
   substring test of notNeeded). *)
From Coq Require Import List ZArith NArith Bool Lia Arith.
From Tele Require Import Lib.Bytes Lib.FS Model.Span Model.Uploader
  Proofs.FSFacts Proofs.UploaderBase Proofs.UploaderNames Proofs.UploaderFiles Proofs.UploaderData.
Import ListNotations.
Open Scope nat_scope.

(* the run so far: current state first *)
Inductive treach : list state -> Prop :=
  | tr_init f cfgs : fs_wf f -> treach [init_state f cfgs]
  | tr_step st tr ia : treach (st :: tr) -> treach (step st ia :: st :: tr)
  | tr_spawn st tr c : treach (st :: tr) -> treach (spawn st c :: st :: tr).

Lemma treach_reach st tr : treach (st :: tr) -> reach st.
Proof.
  remember (st :: tr) as l eqn:E. intros H. revert st tr E.
  induction H; intros st' tr' E; injection E as <- <-.
  - apply reach_init. assumption.
  - apply reach_step. eapply IHtreach. reflexivity.
  - apply reach_spawn. eapply IHtreach. reflexivity.
Qed.

Definition ever (P : state -> Prop) (tr : list state) : Prop := Exists P tr.

Lemma ever_cons P s tr : ever P tr -> ever P (s :: tr).
Proof. apply Exists_cons_tl. Qed.
Lemma ever_now (P : state -> Prop) s tr : P s -> ever P (s :: tr).
Proof. apply Exists_cons_hd. Qed.

Definition in_local (n : bytes) (s : state) : Prop := d_mem (f_local (s_fs s)) n = true.
Definition in_up (n : bytes) (s : state) : Prop := d_mem (up_dir (s_fs s)) n = true.

Definition witness (w : bytes) (s : state) : Prop :=
  in_local (local_name w) s \/ in_local (ready_name w) s \/ in_up (marker_name w) s \/
  exists f, in_local f s /\ rname f /\ contains f w = true.

(* ---- listings ---- *)
Lemma in_ins_sorted x y l : In x (ins_sorted y l) <-> x = y \/ In x l.
Proof.
  induction l as [|z l IH]; simpl.
  - intuition.
  - destruct (bleb y z); simpl; [intuition|]. rewrite IH. intuition.
Qed.

Lemma in_sort_names x l : In x (sort_names l) <-> In x l.
Proof.
  unfold sort_names. induction l as [|y l IH]; simpl; [tauto|].
  rewrite in_ins_sorted, IH. intuition.
Qed.

Lemma in_map_fst_mem {C} (d : dir C) n : In n (map fst d) -> d_mem d n = true.
Proof.
  unfold d_mem. induction d as [|[k v] d IH]; simpl; [tauto|].
  intros [-> | H].
  - rewrite beq_refl. reflexivity.
  - destruct (beq k n); auto.
Qed.

Lemma in_d_names {C} (d : dir C) n : In n (d_names d) -> d_mem d n = true.
Proof. unfold d_names. rewrite in_sort_names. apply in_map_fst_mem. Qed.

(* ---- the invariant ---- *)
Definition making (p : pc) : bool :=
  match p with RWriteUp | RCreateLocal | RWriteLocal => true | _ => false end.

Record ever_inv (tr : list state) (t : thread) : Prop := mkEI {
  ei_uploaded : forall u n, t_uploaded t = Some u -> In n u -> ever (in_up n) tr;
  ei_ready : forall f, In f (t_ready t) -> ever (in_local f) tr;
  ei_del : t_pc t = RDel -> ever (witness (t_week t)) tr;
  ei_making : making (t_pc t) = true -> t_upok t = true -> ever (in_local (ready_name (t_week t))) tr;
  ei_wlocal : t_pc t = RWriteLocal -> ever (in_local (local_name (t_week t))) tr
}.

Lemma ever_inv_cons tr t s : ever_inv tr t -> ever_inv (s :: tr) t.
Proof.
  intros [E1 E2 E3 E4 E5]. constructor; intros.
  - apply ever_cons. eauto.
  - apply ever_cons. eauto.
  - apply ever_cons. eauto.
  - apply ever_cons. eauto.
  - apply ever_cons. eauto.
Qed.

Lemma ever_inv_new tr k c : ever_inv tr (new_thread k c).
Proof. constructor; simpl; intros; try discriminate; contradiction. Qed.

Lemma ever_impl (P Q : state -> Prop) tr : (forall s, P s -> Q s) -> ever P tr -> ever Q tr.
Proof. intros H E. unfold ever in *. eapply Exists_impl; eauto. Qed.

Lemma existsb_In {A} (f : A -> bool) l : existsb f l = true -> exists x, In x l /\ f x = true.
Proof. apply existsb_exists. Qed.

(* the stepping thread: s' is the state after the step, whose history is s' :: s :: tr *)
Lemma ever_inv_step st tr i a t e t' :
  reach st -> nth_error (s_ths st) i = Some t -> decide_all (s_fs st) a t = (e, t') ->
  ever_inv (st :: tr) t ->
  let s' := mkSt (fst (apply_eff e (s_fs st) (s_log st))) (snd (apply_eff e (s_fs st) (s_log st)))
                 (upd (s_ths st) i t') in
  ever_inv (s' :: st :: tr) t'.
Proof.
  intros Hr Hi Hd EI s'.
  pose proof (names_inv_reach _ Hr _ _ Hi) as HN.
  assert (EI' := ever_inv_cons _ _ s' EI). destruct EI' as [E1 E2 E3 E4 E5].
  assert (Hnow : forall P : state -> Prop, P st -> ever P (s' :: st :: tr)).
  { intros P HP. apply ever_cons. apply ever_now. exact HP. }
  assert (Hnew : forall P : state -> Prop, P s' -> ever P (s' :: st :: tr)).
  { intros P HP. apply ever_now. exact HP. }
  destruct a; dinv Hd; adv; pcrw; simpl in *.
  all: constructor; simpl; pcrw.
  all: try (match goal with |- (_ = _) -> _ => intros Hx; simpl in Hx; dmatch Hx; pcdiscr end).
  all: eauto.
  - intros f Hf. apply filter_In in Hf. destruct Hf as [Hf _]. apply Hnow. apply in_d_names. exact Hf.
  - intros f Hf. apply filter_In in Hf. destruct Hf as [Hf _]. apply Hnow. apply in_d_names. exact Hf.
  - intros u n E Hn. injection E as <-. apply filter_In in Hn. destruct Hn as [Hn _].
    apply Hnow. unfold in_up, up_dir. rewrite Heqo0. apply in_d_names. exact Hn.
  - intros u n E. discriminate.
  - apply Hnow. left. exact Heqb.
  - apply Hnow. right. left. exact Heqb.
  - intros _. apply Hnew. unfold in_local. subst s'. simpl. rewrite d_mem_add, beq_refl. reflexivity.
  - intros f Hf. destruct (t_upok t) eqn:Eu; auto. apply in_app_iff in Hf. destruct Hf as [Hf | [<- | []]]; auto.
  - apply Hnow. left. exact Heqb.
  - apply Hnew. unfold in_local. subst s'. simpl. rewrite d_mem_add, beq_refl. reflexivity.
  - intros f Hf. destruct (t_upok t) eqn:Eu; auto. apply in_app_iff in Hf. destruct Hf as [Hf | [<- | []]]; auto.
  - eapply ever_impl; [|apply E5; reflexivity]. intros s Hs. left. exact Hs.
  - apply orb_true_iff in Heqb. destruct Heqb as [Hu | Hrd].
    + destruct (t_uploaded t) as [u|] eqn:Eu; [|discriminate].
      apply existsb_In in Hu. destruct Hu as (n & Hn & Hb). apply beq_eq in Hb. subst n.
      eapply ever_impl; [|eapply E1; eauto]. intros s Hs. right. right. left. exact Hs.
    + apply existsb_In in Hrd. destruct Hrd as (f & Hf & Hc).
      eapply ever_impl; [|eapply E2; eauto]. intros s Hs. right. right. right.
      exists f. split; auto. split; auto.
      pose proof (ni_ready _ HN) as NR. rewrite Forall_forall in NR. auto.
Qed.


Lemma ever_inv_all st tr :
  treach (st :: tr) -> forall i t, nth_error (s_ths st) i = Some t -> ever_inv (st :: tr) t.
Proof.
  remember (st :: tr) as l eqn:E. intros H. revert st tr E.
  induction H as [f cfgs Hwf | st0 tr0 ia H IH | st0 tr0 c H IH]; intros st tr E; injection E as <- <-;
    intros j tj Hj.
  - destruct (init_threads _ _ _ _ Hj) as (k & c & ->). apply ever_inv_new.
  - specialize (IH _ _ eq_refl). pose proof (treach_reach _ _ H) as Hr.
    destruct ia as [i a].
    destruct (step_cases st0 i a) as [E | (t & e & t' & Hi & Hk & Hd & E)]; rewrite E in *.
    + apply ever_inv_cons. eauto.
    + simpl in Hj. rewrite nth_error_upd in Hj. destruct (Nat.eqb i j) eqn:Eij.
      * rewrite Hi in Hj. injection Hj as <-. apply (ever_inv_step st0 tr0 i a t e t'); auto. eapply IH; eauto.
      * apply ever_inv_cons. eauto.
  - specialize (IH _ _ eq_refl).
    destruct (spawn_threads _ _ _ _ Hj) as [H1 | [_ ->]]; [|apply ever_inv_new].
    apply ever_inv_cons. eauto.
Qed.

(* ---------------------------------------------------------------- the theorem *)
Theorem delete_only_after_report st tr i a t n t' :
  treach (st :: tr) -> nth_error (s_ths st) i = Some t ->
  decide_all (s_fs st) a t = (ERemLocal n, t') -> is_count n = true ->
  ever (witness (t_week t)) (st :: tr).
Proof.
  intros Htr Hi Hd Hn. pose proof (treach_reach _ _ Htr) as Hr.
  destruct (remlocal_name _ _ _ _ _ _ Hr Hi Hd) as [(_ & Hpc & _) | (Hc & _)]; [|congruence].
  apply (ei_del _ _ (ever_inv_all _ _ Htr _ _ Hi) Hpc).
Qed.

(* the file removed is a count file of that week (as parsed from the initial directory) *)
Theorem deleted_file_week f cfgs st i a t n t' :
  fs_wf f -> reach_from (init_state f cfgs) st -> nth_error (s_ths st) i = Some t ->
  decide_all (s_fs st) a t = (ERemLocal n, t') -> is_count n = true ->
  exists id c cf, d_find (f_local f) n = Some (id, c) /\ parse c = Some cf /\
                  uploader_week (cf_end cf) = t_week t /\
                  before_start (cf_end cf) (u_start (t_cfg t)) = true.
Proof.
  intros Hwf Hrf Hi Hd Hn. destruct (data_reach _ _ _ Hwf Hrf) as (Hr & _ & HD).
  destruct (remlocal_name _ _ _ _ _ _ Hr Hi Hd) as [(_ & Hpc & rest & Hdel) | (Hc & _)]; [|congruence].
  pose proof (di_dels _ _ (HD _ _ Hi) Hpc) as D. rewrite Hdel in D. inversion D; subst.
  destruct H1 as (cf & (id & c & Hs & Hp) & Hb & Hw). simpl in *. eauto 10.
Qed.
