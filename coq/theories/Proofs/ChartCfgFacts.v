(* Proofs/ChartCfgFacts: facts about Model/ChartCfg: totality, key table,
   decimal round trip, and parse (render items) = Ok records. *)
From Coq Require Import List NArith ZArith Bool Lia.
From Tele Require Import Lib.Bytes Lib.Text Model.ChartCfg.
Import ListNotations.
Open Scope N_scope.

(* ------------------------------------------------------------ totality *)

Theorem parse_total pf data :
  (exists ln e, parse pf data = PErr ln e) \/ (exists rs, parse pf data = POk rs).
Proof. destruct (parse pf data) as [ln e|rs]; [left; eauto | right; eauto]. Qed.

(* an error carries the index of a line of the text, except end-of-file *)
Lemma parse_lines_err_line pf st n ls k e : parse_lines pf st n ls = PErr (Some k) e ->
  n <= k < n + N.of_nat (length ls).
Proof.
  revert st n; induction ls as [|l ls IH]; intros st n H; cbn [parse_lines] in H.
  - unfold finish in H. destruct (is_empty (st_acc st)); discriminate.
  - destruct (step pf st l) as [st'|e'].
    + apply IH in H. cbn [length]. lia.
    + injection H as <- <-. cbn [length]. lia.
Qed.

(* ------------------------------------------------------------ key table *)

Lemma key_eqb_eq a b : key_eqb a b = true <-> a = b.
Proof. destruct a, b; cbn; split; intro H; try reflexivity; try discriminate. Qed.

Lemma key_set_in k set : key_set k set = true <-> In k set.
Proof.
  unfold key_set. rewrite existsb_exists. split.
  - intros [x [Hx He]]. apply key_eqb_eq in He. subst. exact Hx.
  - intros H. exists k. split; [exact H | apply key_eqb_eq; reflexivity].
Qed.

Lemma match_key_hit k rest : match_key (key_name k ++ [58] ++ rest) = (Some k, rest).
Proof. destruct k; reflexivity. Qed.

(* at most one key matches: the order in which Go walks its map is immaterial *)
Lemma match_key_unique k k' text :
  has_prefix text (key_name k ++ [58]) = true -> has_prefix text (key_name k' ++ [58]) = true -> k = k'.
Proof.
  intros H1 H2. apply has_prefix_app in H1 as [t1 E1]. apply has_prefix_app in H2 as [t2 E2].
  rewrite E1 in E2. destruct k, k'; try reflexivity; cbn in E2; discriminate.
Qed.

Lemma match_key_in_spec ks text :
  (exists k, In k ks /\ has_prefix text (key_name k ++ [58]) = true /\
             match_key_in ks text = (Some k, skipn (length (key_name k ++ [58])) text))
  \/ ((forall k, In k ks -> has_prefix text (key_name k ++ [58]) = false) /\ match_key_in ks text = (None, text)).
Proof.
  induction ks as [|k ks IH]; [right; split; [intros k []| reflexivity]|].
  cbn [match_key_in]. destruct (has_prefix text (key_name k ++ [58])) eqn:E.
  - left. exists k. split; [left; reflexivity | split; [exact E | reflexivity]].
  - destruct IH as [[k' [Hin [Hp Hm]]] | [Hall Hm]].
    + left. exists k'. split; [right; exact Hin | split; assumption].
    + right. split; [|exact Hm]. intros k' [<-|Hin]; [exact E | apply Hall; exact Hin].
Qed.

(* permuting the key table does not change the result *)
Theorem match_key_order_independent ks text :
  (forall k, In k ks <-> In k all_keys) -> match_key_in ks text = match_key text.
Proof.
  intros Hperm. unfold match_key.
  destruct (match_key_in_spec ks text) as [[k [Hin [Hp Hm]]] | [Hall Hm]];
  destruct (match_key_in_spec all_keys text) as [[k' [Hin' [Hp' Hm']]] | [Hall' Hm']].
  - rewrite Hm, Hm'. rewrite (match_key_unique k k' text Hp Hp'). reflexivity.
  - apply Hperm in Hin. rewrite (Hall' k Hin) in Hp. discriminate.
  - apply Hperm in Hin'. rewrite (Hall k' Hin') in Hp'. discriminate.
  - rewrite Hm, Hm'. reflexivity.
Qed.

Lemma match_key_blank ws : all_blank ws = true -> match_key ws = (None, ws).
Proof.
  intros H. destruct ws as [|c ws]; [reflexivity|].
  cbn [all_blank forallb] in H. apply andb_true_iff in H as [Hc _].
  unfold blank in Hc. apply orb_true_iff in Hc as [Hc|Hc]; apply N.eqb_eq in Hc; subst; reflexivity.
Qed.

(* ------------------------------------------------------------ decimal *)

Lemma digits_val_app a b : digits_val (a ++ b) = fold_left (fun a c => a * 10 + (c - 48)) b (digits_val a).
Proof. unfold digits_val. apply fold_left_app. Qed.

Lemma dec_digits_S f n acc : dec_digits (S f) n acc =
  if n <? 10 then (48 + n) :: acc else dec_digits f (n / 10) ((48 + n mod 10) :: acc).
Proof. reflexivity. Qed.

Lemma dec_digits_spec f : forall n acc, n < 10 ^ N.of_nat (S f) ->
  exists ds, dec_digits (S f) n acc = ds ++ acc /\ ds <> [] /\ forallb is_digit ds = true /\ digits_val ds = n
             /\ (exists d t, ds = d :: t /\ is_digit d = true).
Proof.
  induction f as [|f IH]; intros n acc Hn.
  - rewrite dec_digits_S. change (10 ^ N.of_nat 1) with 10 in Hn.
    assert (n <? 10 = true) as -> by (apply N.ltb_lt; exact Hn).
    assert (is_digit (48 + n) = true) as Hd.
    { unfold is_digit. apply andb_true_iff. split; apply N.leb_le; lia. }
    exists [48 + n]. repeat split.
    + discriminate.
    + cbn [forallb]. rewrite Hd. reflexivity.
    + unfold digits_val. cbn [fold_left]. lia.
    + exists (48 + n), []. split; [reflexivity | exact Hd].
  - rewrite dec_digits_S. destruct (n <? 10) eqn:E.
    + apply N.ltb_lt in E.
      assert (is_digit (48 + n) = true) as Hd.
      { unfold is_digit. apply andb_true_iff. split; apply N.leb_le; lia. }
      exists [48 + n]. repeat split.
      * discriminate.
      * cbn [forallb]. rewrite Hd. reflexivity.
      * unfold digits_val. cbn [fold_left]. lia.
      * exists (48 + n), []. split; [reflexivity | exact Hd].
    + apply N.ltb_ge in E.
      assert (n / 10 < 10 ^ N.of_nat (S f)) as Hq.
      { apply N.div_lt_upper_bound; [discriminate|].
        rewrite (Nat2N.inj_succ (S f)), N.pow_succ_r' in Hn. exact Hn. }
      assert (n mod 10 < 10) as Hm by (apply N.mod_lt; discriminate).
      pose proof (N.div_mod n 10 ltac:(discriminate)) as Hdm.
      revert Hq Hm Hdm. generalize (n / 10) as q. generalize (n mod 10) as m. intros m q Hq Hm Hdm.
      destruct (IH q ((48 + m) :: acc) Hq) as [ds [E1 [Hne [Hall [Hval Hhd]]]]].
      assert (is_digit (48 + m) = true) as Hd.
      { unfold is_digit. apply andb_true_iff. split; apply N.leb_le; lia. }
      exists (ds ++ [48 + m]). repeat split.
      * rewrite E1, <- app_assoc. reflexivity.
      * destruct ds; discriminate.
      * rewrite forallb_app, Hall. cbn [forallb]. rewrite Hd. reflexivity.
      * rewrite digits_val_app, Hval. cbn [fold_left]. lia.
      * destruct Hhd as [d [t [-> Hdd]]]. exists d, (t ++ [48 + m]). split; [reflexivity | exact Hdd].
Qed.

Lemma dec_of_N_spec n : n < 10 ^ 40 ->
  exists d t, dec_of_N n = d :: t /\ is_digit d = true /\ forallb is_digit (d :: t) = true /\ digits_val (d :: t) = n.
Proof.
  intros Hn. unfold dec_of_N.
  destruct (dec_digits_spec 39 n [] Hn) as [ds [E [_ [Hall [Hval [d [t [-> Hd]]]]]]]].
  rewrite app_nil_r in E. exists d, t. repeat split; assumption.
Qed.

Lemma is_digit_not_sign d : is_digit d = true -> d <> 43 /\ d <> 45.
Proof. unfold is_digit. intros H. apply andb_true_iff in H as [H1 H2]. apply N.leb_le in H1. lia. Qed.

Theorem parse_render_int z : in_int64 z = true -> parse_int64 (render_int z) = Some z.
Proof.
  unfold in_int64. intros H. pose proof H as H'. apply andb_true_iff in H' as [Hlo Hhi].
  apply Z.leb_le in Hlo. apply Z.leb_le in Hhi.
  unfold render_int. destruct (z <? 0)%Z eqn:Eneg.
  - apply Z.ltb_lt in Eneg.
    assert (Z.to_N (- z) < 10 ^ 40) as Hb.
    { apply N.lt_le_trans with (m := 9223372036854775809); [lia | vm_compute; discriminate]. }
    destruct (dec_of_N_spec _ Hb) as [d [t [E [Hd [Hall Hval]]]]].
    unfold parse_int64. rewrite E, Hall, Hval. rewrite Z2N.id by lia.
    replace (- - z)%Z with z by lia. rewrite H. reflexivity.
  - apply Z.ltb_ge in Eneg.
    assert (Z.to_N z < 10 ^ 40) as Hb.
    { apply N.lt_le_trans with (m := 9223372036854775809); [lia | vm_compute; discriminate]. }
    destruct (dec_of_N_spec _ Hb) as [d [t [E [Hd [Hall Hval]]]]].
    destruct (is_digit_not_sign d Hd) as [N1 N2].
    unfold parse_int64. rewrite E.
    assert ((let '(neg, d0) := match d :: t with
              | 43 :: d0 => (false, d0) | 45 :: d0 => (true, d0) | _ => (false, d :: t) end in
             match d0 with [] => None | _ :: _ =>
               if forallb is_digit d0 then
                 let v := Z.of_N (digits_val d0) in let z0 := if neg then (- v)%Z else v in
                 if ((-9223372036854775808 <=? z0)%Z && (z0 <=? 9223372036854775807)%Z)%bool then Some z0 else None
               else None end) = Some z); [|assumption].
    destruct d as [|p]; [|destruct p as [p|p|]; try (destruct p as [p|p|]; try (destruct p as [p|p|];
      try (destruct p as [p|p|]; try (destruct p as [p|p|]; try (destruct p as [p|p|])))))];
    try (exfalso; apply N1; reflexivity); try (exfalso; apply N2; reflexivity);
    cbv zeta iota beta; rewrite Hall, Hval, Z2N.id by lia; rewrite H; reflexivity.
Qed.

(* the text of a rendered integer is a plain value *)
Lemma digits_plain d t : forallb is_digit (d :: t) = true -> plain_value (d :: t) = true.
Proof.
  intros Hall.
  assert (forall c, is_digit c = false -> has_byte c (d :: t) = false) as Hnb.
  { intros c Hc. apply has_byte_false_in. intros Hin.
    rewrite forallb_forall in Hall. rewrite (Hall c Hin) in Hc. discriminate. }
  unfold plain_value, valid_value. rewrite !Hnb by reflexivity. cbn [is_empty negb andb].
  rewrite !andb_true_r. unfold trimmed. apply andb_true_iff. split.
  - cbn [forallb] in Hall. apply andb_true_iff in Hall as [Hd _].
    unfold is_digit in Hd. apply andb_true_iff in Hd as [H1 H2]. apply N.leb_le in H1, H2.
    apply no_lead_first.
    + apply N.ltb_lt. lia.
    + unfold blank. apply orb_false_iff. split; apply N.eqb_neq; lia.
    + repeat (apply orb_false_iff; split); apply N.eqb_neq; lia.
  - destruct (@exists_last _ (d :: t)) as [x [c E]]; [discriminate|]. rewrite E.
    assert (is_digit c = true) as Hc.
    { rewrite forallb_forall in Hall. apply Hall. rewrite E. apply in_or_app. right. left. reflexivity. }
    unfold is_digit in Hc. apply andb_true_iff in Hc as [H1 H2]. apply N.leb_le in H1, H2.
    apply no_trail_last.
    + apply N.ltb_lt. lia.
    + unfold blank. apply orb_false_iff. split; apply N.eqb_neq; lia.
    + repeat (apply orb_false_iff; split); apply N.eqb_neq; lia.
Qed.

Lemma render_int_plain z : in_int64 z = true -> z <> 0%Z -> plain_value (render_int z) = true.
Proof.
  unfold in_int64. intros H Hz. apply andb_true_iff in H as [Hlo Hhi].
  apply Z.leb_le in Hlo. apply Z.leb_le in Hhi.
  unfold render_int. destruct (z <? 0)%Z eqn:Eneg.
  - apply Z.ltb_lt in Eneg.
    assert (Z.to_N (- z) < 10 ^ 40) as Hb.
    { apply N.lt_le_trans with (m := 9223372036854775809); [lia | vm_compute; discriminate]. }
    destruct (dec_of_N_spec _ Hb) as [d [t [E [Hd [Hall Hval]]]]]. rewrite E.
    pose proof (digits_plain d t Hall) as P.
    unfold plain_value, valid_value in *.
    apply andb_true_iff in P as [P P3]. apply andb_true_iff in P as [P P2].
    apply andb_true_iff in P as [P Ptr]. apply andb_true_iff in P as [P P1].
    apply andb_true_iff in P as [_ P0].
    rewrite (has_byte_cons 10 45), (has_byte_cons 35 45), (has_byte_cons 123 45), (has_byte_cons 125 45).
    apply negb_true_iff in P0, P1, P2, P3. rewrite P0, P1, P2, P3.
    cbn [is_empty negb N.eqb Pos.eqb orb andb].
    unfold trimmed in *. apply andb_true_iff in Ptr as [_ Pt]. rewrite ?andb_true_r. apply andb_true_iff. split.
    + apply no_lead_first; reflexivity.
    + change (45 :: d :: t) with ([45] ++ d :: t). rewrite no_trail_app_ascii; [exact Pt | discriminate | reflexivity].
  - apply Z.ltb_ge in Eneg.
    assert (Z.to_N z < 10 ^ 40) as Hb.
    { apply N.lt_le_trans with (m := 9223372036854775809); [lia | vm_compute; discriminate]. }
    destruct (dec_of_N_spec _ Hb) as [d [t [E [Hd [Hall Hval]]]]]. rewrite E.
    apply digits_plain. exact Hall.
Qed.

(* ------------------------------------------------------------ line lemmas *)

Lemma has_suffix1_app a b c : b <> [] -> fhas_suffix (a ++ b) [c] = fhas_suffix b [c].
Proof.
  intros Hb. rewrite !fhas_suffix_eq. unfold has_suffix. rewrite rev_app_distr.
  destruct (rev b) as [|x rb] eqn:E.
  - exfalso. apply Hb. rewrite <- (rev_involutive b), E. reflexivity.
  - reflexivity.
Qed.

Lemma has_suffix_brace_body a body : fhas_suffix body [44] = false -> fhas_suffix (a ++ 123 :: body) [44] = false.
Proof.
  intros H. destruct body as [|b body].
  - rewrite has_suffix1_app by discriminate. reflexivity.
  - change (a ++ 123 :: b :: body) with (a ++ [123] ++ (b :: body)). rewrite app_assoc.
    rewrite has_suffix1_app by discriminate. exact H.
Qed.

Lemma split_byte_has_byte x s c : has_byte x s = false ->
  Forall (fun it => has_byte x it = false) (split_byte s c).
Proof.
  induction s as [|a s IH]; intros H; [repeat constructor|].
  rewrite has_byte_cons in H. apply orb_false_iff in H as [H1 H2]. specialize (IH H2).
  cbn [split_byte]. destruct (split_byte s c) as [|h t]; [repeat constructor; cbn; rewrite H1; reflexivity|].
  inversion IH as [|? ? Hh Ht]; subst.
  destruct (a =? c).
  - constructor; [reflexivity | constructor; assumption].
  - constructor; [rewrite has_byte_cons, H1, Hh; reflexivity | assumption].
Qed.

Lemma key_colon_no k x : x = 35 \/ x = 123 \/ x = 125 \/ x = 10 -> has_byte x (key_name k ++ [58]) = false.
Proof. intros [->|[->|[->| ->]]]; destruct k; reflexivity. Qed.

Lemma key_colon_ascii k : ascii7 (key_name k ++ [58]) = true.
Proof. destruct k; reflexivity. Qed.

Lemma field_line_not_sep k v fs : beq (field_line k v fs) sep_line = false.
Proof. destruct k; reflexivity. Qed.

Lemma counter_prefix_key : key_name KCounter ++ [58] = counter_prefix.
Proof. reflexivity. Qed.

Lemma cmt_cut body cmt : has_byte 35 body = false -> cmt_ok cmt = true -> cut_before (body ++ cmt) 35 = body.
Proof.
  intros Hb Hc. destruct cmt as [|x t].
  - rewrite app_nil_r. apply cut_before_none. exact Hb.
  - cbn [cmt_ok] in Hc. apply andb_true_iff in Hc as [Hx _]. apply N.eqb_eq in Hx. subst.
    apply cut_before_hit. exact Hb.
Qed.

Lemma fstyle_ok_parts fs : fstyle_ok fs = true ->
  all_blank (fs_ws1 fs) = true /\ all_blank (fs_ws2 fs) = true /\ cmt_ok (fs_cmt fs) = true.
Proof.
  unfold fstyle_ok. intros H. apply andb_true_iff in H as [H H3]. apply andb_true_iff in H as [H1 H2]. auto.
Qed.

Lemma valid_value_parts v : valid_value v = true ->
  v <> [] /\ has_byte 10 v = false /\ has_byte 35 v = false /\ trimmed v = true.
Proof.
  unfold valid_value. intros H. apply andb_true_iff in H as [H H4]. apply andb_true_iff in H as [H H3].
  apply andb_true_iff in H as [H1 H2]. apply negb_true_iff in H2, H3.
  repeat split; try assumption. intros ->. discriminate.
Qed.

Lemma plain_value_parts v : plain_value v = true ->
  valid_value v = true /\ has_byte 123 v = false /\ has_byte 125 v = false.
Proof.
  unfold plain_value. intros H. apply andb_true_iff in H as [H H3]. apply andb_true_iff in H as [H1 H2].
  apply negb_true_iff in H2, H3. auto.
Qed.

Section RT.
  Variable pf : bytes -> option N.

  Fixpoint steps (st : pstate) (ls : list bytes) : option pstate :=
    match ls with
    | [] => Some st
    | l :: ls' => match step pf st l with inl st' => steps st' ls' | inr _ => None end
    end.

  Lemma steps_app st l1 l2 :
    steps st (l1 ++ l2) = match steps st l1 with Some st' => steps st' l2 | None => None end.
  Proof.
    revert st; induction l1 as [|l l1 IH]; intros st; [reflexivity|].
    cbn [app steps]. destruct (step pf st l); [apply IH | reflexivity].
  Qed.

  Lemma parse_lines_steps st n ls st' : steps st ls = Some st' -> parse_lines pf st n ls = finish st'.
  Proof.
    revert st n; induction ls as [|l ls IH]; intros st n H; cbn [steps parse_lines] in *.
    - injection H as <-. reflexivity.
    - destruct (step pf st l); [apply IH; exact H | discriminate].
  Qed.

  (* a line whose text carries no brace, outside an accumulation *)
  Lemma step_plain st line text :
    st_acc st = [] -> beq line sep_line = false -> cut_before line 35 = text ->
    has_byte 123 text = false -> has_byte 125 text = false ->
    step pf st line = apply_field pf st text.
  Proof.
    intros Ha Hs Ht H1 H2. unfold step. rewrite Hs, Ht, Ha. unfold phase1. cbn [is_empty].
    rewrite (index_byte_none text 123 H1), H2. unfold phase2. cbn [is_empty].
    destruct st as [d c s a]. cbn in Ha. subst a. reflexivity.
  Qed.

  Lemma apply_field_value st k ws1 v ws2 c :
    all_blank ws1 = true -> all_blank ws2 = true -> trimmed v = true -> v <> [] ->
    key_set k (st_set st) && negb (is_slice k) = false ->
    set_field pf k v (st_cur st) = inl c ->
    apply_field pf st (key_name k ++ [58] ++ ws1 ++ v ++ ws2)
    = inl (mkSt (st_done st) c (k :: st_set st) (st_acc st)).
  Proof.
    intros H1 H2 Hv Hne Hset Hf. unfold apply_field. rewrite match_key_hit.
    rewrite (ftrim_space_strip ws1 v ws2 H1 H2 Hv).
    destruct v as [|x v]; [contradiction|]. cbn [is_empty]. rewrite Hset, Hf. reflexivity.
  Qed.

  Lemma step_field st k v fs c :
    st_acc st = [] -> fstyle_ok fs = true -> plain_value v = true ->
    key_set k (st_set st) && negb (is_slice k) = false ->
    set_field pf k v (st_cur st) = inl c ->
    step pf st (field_line k v fs) = inl (mkSt (st_done st) c (k :: st_set st) []).
  Proof.
    intros Ha Hfs Hv Hset Hf.
    destruct (fstyle_ok_parts fs Hfs) as [W1 [W2 Wc]].
    destruct (plain_value_parts v Hv) as [Hvv [B1 B2]].
    destruct (valid_value_parts v Hvv) as [Hne [N10 [N35 Htr]]].
    set (text := key_name k ++ [58] ++ fs_ws1 fs ++ v ++ fs_ws2 fs).
    assert (forall x, blank x = false -> has_byte x v = false ->
                      x = 35 \/ x = 123 \/ x = 125 \/ x = 10 -> has_byte x text = false) as Hno.
    { intros x Hb Hx Hk. unfold text.
      rewrite app_assoc, has_byte_app, (key_colon_no k x Hk), !has_byte_app, Hx,
        (has_byte_blank x _ W1 Hb), (has_byte_blank x _ W2 Hb). reflexivity. }
    assert (field_line k v fs = text ++ fs_cmt fs) as El.
    { unfold field_line, text. rewrite <- !app_assoc. reflexivity. }
    rewrite (step_plain st _ text Ha (field_line_not_sep k v fs)).
    - unfold text. rewrite (apply_field_value st k _ v _ c W1 W2 Htr Hne Hset Hf). rewrite Ha. reflexivity.
    - rewrite El. apply cmt_cut; [apply Hno; auto | exact Wc].
    - apply Hno; auto.
    - apply Hno; auto.
  Qed.

  Lemma filler_decomp l : filler_ok l = true ->
    exists ws cmt, l = ws ++ cmt /\ all_blank ws = true /\ cmt_ok cmt = true.
  Proof.
    induction l as [|c l IH]; intros H.
    - exists [], []. auto.
    - cbn [filler_ok] in H. destruct (c =? 35) eqn:E.
      + apply N.eqb_eq in E. subst. exists [], (35 :: l). repeat split. cbn [cmt_ok]. rewrite H. reflexivity.
      + destruct (blank c) eqn:Eb; [|discriminate].
        destruct (IH H) as [ws [cmt [-> [Hw Hc]]]]. exists (c :: ws), cmt. repeat split; [|exact Hc].
        cbn [all_blank forallb]. rewrite Eb. exact Hw.
  Qed.

  Lemma filler_not_sep l : filler_ok l = true -> beq l sep_line = false.
  Proof.
    destruct l as [|c l]; [reflexivity|]. cbn [filler_ok]. intros H.
    change sep_line with [45; 45; 45]. cbn [beq].
    destruct (c =? 35) eqn:E.
    - apply N.eqb_eq in E. subst. reflexivity.
    - destruct (blank c) eqn:Eb; [|discriminate]. unfold blank in Eb.
      apply orb_true_iff in Eb as [Eb|Eb]; apply N.eqb_eq in Eb; subst; reflexivity.
  Qed.

  Lemma step_filler st l : st_acc st = [] -> filler_ok l = true -> step pf st l = inl st.
  Proof.
    intros Ha Hl. destruct (filler_decomp l Hl) as [ws [cmt [E [Hw Hc]]]].
    assert (forall x, blank x = false -> has_byte x ws = false) as Hno by (intros; apply has_byte_blank; assumption).
    rewrite (step_plain st l ws Ha (filler_not_sep l Hl)).
    - unfold apply_field. rewrite (match_key_blank ws Hw), (ftrim_space_blank ws Hw). reflexivity.
    - rewrite E. apply cmt_cut; [apply Hno; reflexivity | exact Hc].
    - apply Hno. reflexivity.
    - apply Hno. reflexivity.
  Qed.

  Lemma steps_fillers st ls : st_acc st = [] -> forallb filler_ok ls = true -> steps st ls = Some st.
  Proof.
    intros Ha H. induction ls as [|l ls IH]; [reflexivity|].
    cbn [forallb] in H. apply andb_true_iff in H as [H1 H2].
    cbn [steps]. rewrite (step_filler st l Ha H1). apply IH. exact H2.
  Qed.

  (* a line absorbed into the accumulated counter text *)
  Lemma step_accumulate st line :
    st_acc st <> [] -> beq line sep_line = false ->
    has_byte 35 line = false -> has_byte 123 line = false ->
    has_byte 125 (st_acc st ++ ftrim_space line) = false ->
    step pf st line = inl (mkSt (st_done st) (st_cur st) (st_set st) (st_acc st ++ ftrim_space line)).
  Proof.
    intros Ha Hs H35 H123 H125. unfold step. rewrite Hs, (cut_before_none line 35 H35).
    unfold phase1, phase2. destruct (st_acc st) as [|a0 A] eqn:EA; [contradiction|].
    cbn [is_empty]. rewrite H123. rewrite (index_byte_none _ 125 H125). reflexivity.
  Qed.
End RT.

(* ------------------------------------------------------------ counter field *)

Lemma braces_decomp c pre body post : split_braces c = Some (pre, body, post) ->
  c = pre ++ 123 :: body ++ 125 :: post /\ has_byte 123 pre = false /\ has_byte 125 body = false.
Proof.
  unfold split_braces. intros H.
  destruct (index_byte c 123) as [oi|] eqn:E1; [|discriminate].
  destruct (index_byte (skipn (S oi) c) 125) as [ci|] eqn:E2; [|discriminate].
  injection H as <- <- <-.
  destruct (index_byte_some _ _ _ E1) as [D1 N1]. destruct (index_byte_some _ _ _ E2) as [D2 N2].
  split; [|split; assumption].
  transitivity (firstn oi c ++ 123 :: skipn (S oi) c); [exact D1|]. f_equal. f_equal. exact D2.
Qed.

Lemma braces_ok_cases c : braces_ok c = true ->
  (has_byte 123 c = false /\ has_byte 125 c = false) \/
  (exists pre body post, split_braces c = Some (pre, body, post) /\
     c = pre ++ 123 :: body ++ 125 :: post /\
     has_byte 123 pre = false /\ has_byte 125 pre = false /\
     has_byte 123 body = false /\ has_byte 125 body = false /\
     has_byte 123 post = false /\ has_byte 125 post = false /\ fhas_suffix body [44] = false).
Proof.
  unfold braces_ok. intros H. destruct (index_byte c 123) as [oi|] eqn:E1.
  - right. destruct (split_braces c) as [[[pre body] post]|] eqn:E; [|discriminate].
    destruct (braces_decomp c pre body post E) as [D [N1 N2]].
    apply andb_true_iff in H as [H H5]. apply andb_true_iff in H as [H H4].
    apply andb_true_iff in H as [H H3]. apply andb_true_iff in H as [H1 H2].
    apply negb_true_iff in H1, H2, H3, H4, H5.
    exists pre, body, post. repeat split; assumption.
  - left. apply negb_true_iff in H. split; [|exact H].
    destruct (has_byte 123 c) eqn:E; [|reflexivity].
    exfalso. unfold has_byte in E. apply existsb_exists in E as [x [Hin Hx]]. apply N.eqb_eq in Hx. subst x.
    apply in_split in Hin as [l1 [l2 ->]].
    clear H. revert E1. induction l1 as [|a l1 IH]; cbn [app index_byte].
    + discriminate.
    + destruct (a =? 123); [discriminate|]. destruct (index_byte (l1 ++ 123 :: l2) 123); [discriminate|].
      intros _. apply IH. reflexivity.
Qed.

Ltac norm_app := repeat (progress (repeat rewrite <- app_assoc; repeat rewrite <- app_comm_cons; cbn [app])).

Lemma text_no x k ws1 v ws2 : all_blank ws1 = true -> all_blank ws2 = true -> blank x = false ->
  x = 35 \/ x = 123 \/ x = 125 \/ x = 10 -> has_byte x v = false ->
  has_byte x (key_name k ++ [58] ++ ws1 ++ v ++ ws2) = false.
Proof.
  intros W1 W2 Hb Hk Hx.
  rewrite app_assoc, has_byte_app, (key_colon_no k x Hk), !has_byte_app, Hx,
    (has_byte_blank x _ W1 Hb), (has_byte_blank x _ W2 Hb). reflexivity.
Qed.

Lemma phase1_open text X Y : text = X ++ 123 :: Y ->
  has_byte 123 X = false -> has_byte 125 X = false -> has_byte 123 Y = false ->
  has_prefix text counter_prefix = true ->
  phase1 [] text = inl (trim_right_space text, []).
Proof.
  intros E X1 X2 Y1 Hp. unfold phase1. cbn [is_empty]. rewrite Hp. subst text.
  rewrite (index_byte_app_hit X 123 Y X1), firstn_app_exact, X2, skipn_S_app_exact, Y1. reflexivity.
Qed.

Lemma phase2_close acc text A rest : acc <> [] -> has_byte 123 text = false ->
  acc ++ ftrim_space text = A ++ 125 :: rest ->
  has_byte 125 A = false -> has_byte 125 rest = false -> fhas_suffix A [44] = false ->
  phase2 acc text = inl (Some (A ++ 125 :: rest), []).
Proof.
  intros Hne H123 E A1 R1 Hs. unfold phase2. destruct acc as [|a0 acc]; [contradiction|].
  cbn [is_empty]. rewrite H123, E.
  rewrite (index_byte_app_hit A 125 rest A1), skipn_S_app_exact, R1, firstn_app_exact, Hs, andb_false_r.
  reflexivity.
Qed.

Lemma counter_key_prefix rest : has_prefix (key_name KCounter ++ [58] ++ rest) counter_prefix = true.
Proof. reflexivity. Qed.

Definition with_counter (c : chart) (v : bytes) : chart :=
  mkChart (c_title c) (c_description c) (c_issue c) (c_type c) (c_program c) (c_module c) v
          (c_depth c) (c_error c) (c_version c).

Section RTCounter.
  Variable pf : bytes -> option N.

  (* the joined text "counter:<ws1>pre{body}post" processed as one line *)
  Lemma apply_counter st ws1 c :
    all_blank ws1 = true -> valid_value c = true -> key_set KCounter (st_set st) = false ->
    apply_field pf st (key_name KCounter ++ [58] ++ ws1 ++ c)
    = inl (mkSt (st_done st) (with_counter (st_cur st) c) (KCounter :: st_set st) (st_acc st)).
  Proof.
    intros W1 Hv Hset. destruct (valid_value_parts c Hv) as [Hne [_ [_ Htr]]].
    pose proof (apply_field_value pf st KCounter ws1 c [] (with_counter (st_cur st) c) W1 eq_refl Htr Hne) as P.
    rewrite app_nil_r in P. apply P; [rewrite Hset; reflexivity | reflexivity].
  Qed.

  Lemma no_trail_counter_text ws1 c : all_blank ws1 = true -> c <> [] -> no_trail c = true ->
    no_trail (key_name KCounter ++ [58] ++ ws1 ++ c) = true.
  Proof.
    intros W1 Hne Ht. rewrite !app_assoc. rewrite no_trail_app_ascii; [exact Ht | exact Hne |].
    unfold ascii7. rewrite forallb_app. apply andb_true_iff. split; [reflexivity|].
    apply all_blank_ascii. exact W1.
  Qed.

  (* pre{body}post on one line *)
  Lemma step_counter_single st fs pre body post :
    let c := pre ++ 123 :: body ++ 125 :: post in
    st_acc st = [] -> fstyle_ok fs = true -> valid_value c = true ->
    has_byte 123 pre = false -> has_byte 125 pre = false ->
    has_byte 123 body = false -> has_byte 125 body = false ->
    has_byte 123 post = false -> has_byte 125 post = false -> fhas_suffix body [44] = false ->
    key_set KCounter (st_set st) = false ->
    step pf st (field_line KCounter c fs)
    = inl (mkSt (st_done st) (with_counter (st_cur st) c) (KCounter :: st_set st) []).
  Proof.
    intros c Ha Hfs Hv P1 P2 B1 B2 Q1 Q2 Hsuf Hset.
    destruct (fstyle_ok_parts fs Hfs) as [W1 [W2 Wc]].
    destruct (valid_value_parts c Hv) as [Hne [N10 [N35 Htr]]].
    unfold trimmed in Htr. apply andb_true_iff in Htr as [Hlead Htrail].
    set (K := key_name KCounter ++ [58]).
    set (text := key_name KCounter ++ [58] ++ fs_ws1 fs ++ c ++ fs_ws2 fs).
    assert (field_line KCounter c fs = text ++ fs_cmt fs) as El.
    { unfold field_line, text. norm_app. reflexivity. }
    assert (has_byte 35 text = false) as T35 by (apply text_no; auto).
    assert (forall x, blank x = false -> has_byte x (fs_ws1 fs) = false) as Hb1 by (intros; apply has_byte_blank; assumption).
    assert (forall x, blank x = false -> has_byte x (fs_ws2 fs) = false) as Hb2 by (intros; apply has_byte_blank; assumption).
    set (X := key_name KCounter ++ [58] ++ fs_ws1 fs ++ pre).
    assert (has_byte 123 X = false) as X1.
    { unfold X. rewrite app_assoc, has_byte_app, (key_colon_no KCounter 123), has_byte_app, Hb1, P1 by auto. reflexivity. }
    assert (has_byte 125 X = false) as X2.
    { unfold X. rewrite app_assoc, has_byte_app, (key_colon_no KCounter 125), has_byte_app, Hb1, P2 by auto. reflexivity. }
    assert (text = X ++ 123 :: (body ++ 125 :: post ++ fs_ws2 fs)) as Et.
    { unfold text, X, c. norm_app. reflexivity. }
    assert (trim_right_space text = key_name KCounter ++ [58] ++ fs_ws1 fs ++ c) as Etr.
    { replace text with ((key_name KCounter ++ [58] ++ fs_ws1 fs ++ c) ++ fs_ws2 fs) by (unfold text; norm_app; reflexivity).
      apply trim_right_strip; [exact W2 | apply no_trail_counter_text; assumption]. }
    unfold step. rewrite El, (cmt_cut text _ T35 Wc), Ha.
    rewrite (phase1_open text X _ Et X1 X2).
    2:{ rewrite has_byte_app, B1, has_byte_cons, has_byte_app, Q1, Hb2 by reflexivity. reflexivity. }
    2:{ apply counter_key_prefix. }
    rewrite Etr.
    rewrite (phase2_close _ [] (X ++ 123 :: body) post).
    - replace ((X ++ 123 :: body) ++ 125 :: post) with (key_name KCounter ++ [58] ++ fs_ws1 fs ++ c)
        by (unfold X, c; norm_app; reflexivity).
      rewrite (apply_counter _ _ c W1 Hv); [reflexivity | exact Hset].
    - destruct (key_name KCounter) eqn:E; [discriminate E | discriminate].
    - reflexivity.
    - rewrite ftrim_space_nil, app_nil_r. unfold X, c. norm_app. reflexivity.
    - rewrite has_byte_app, X2, has_byte_cons, B2. reflexivity.
    - exact Q2.
    - apply has_suffix_brace_body. exact Hsuf.
  Qed.
End RTCounter.

Definition with_acc (st : pstate) (a : bytes) : pstate := mkSt (st_done st) (st_cur st) (st_set st) a.

Lemma trimmed_comma it : trimmed it = true -> trimmed (it ++ [44]) = true.
Proof.
  unfold trimmed. intros H. apply andb_true_iff in H as [Hl _]. apply andb_true_iff. split.
  - destruct it as [|a it]; [reflexivity|]. rewrite no_lead_app_ascii; [exact Hl | discriminate | reflexivity].
  - apply no_trail_last; reflexivity.
Qed.

Section RTMulti.
  Variable pf : bytes -> option N.

  Definition item_ok (it : bytes) : Prop :=
    trimmed it = true /\ has_byte 35 it = false /\ has_byte 123 it = false /\ has_byte 125 it = false.

  Lemma step_body_line st indent v :
    st_acc st <> [] -> has_byte 125 (st_acc st) = false -> all_blank indent = true ->
    trimmed v = true -> has_byte 35 v = false -> has_byte 123 v = false -> has_byte 125 v = false ->
    beq (indent ++ v) sep_line = false ->
    step pf st (indent ++ v) = inl (with_acc st (st_acc st ++ v)).
  Proof.
    intros Ha A125 Hi Htr V35 V123 V125 Hs.
    assert (ftrim_space (indent ++ v) = v) as Et.
    { pose proof (ftrim_space_strip indent v [] Hi eq_refl Htr) as P. rewrite app_nil_r in P. exact P. }
    rewrite (step_accumulate pf st (indent ++ v) Ha Hs).
    - rewrite Et. reflexivity.
    - rewrite has_byte_app, V35, (has_byte_blank 35 indent Hi); reflexivity.
    - rewrite has_byte_app, V123, (has_byte_blank 123 indent Hi); reflexivity.
    - rewrite Et, has_byte_app, A125, V125. reflexivity.
  Qed.

  Lemma steps_body indent items : forall st,
    items <> [] -> st_acc st <> [] -> has_byte 125 (st_acc st) = false -> all_blank indent = true ->
    Forall item_ok items ->
    forallb (fun l => negb (beq l sep_line)) (body_lines indent items) = true ->
    steps pf st (body_lines indent items) = Some (with_acc st (st_acc st ++ join items [44])).
  Proof.
    induction items as [|it items IH]; intros st Hne Ha A125 Hi Hall Hsep; [contradiction|].
    inversion Hall as [|? ? [Htr [I35 [I123 I125]]] Hrest]; subst.
    destruct items as [|it2 rest].
    - cbn [body_lines steps join]. cbn [body_lines forallb] in Hsep.
      apply andb_true_iff in Hsep as [Hs _]. apply negb_true_iff in Hs.
      rewrite (step_body_line st indent it Ha A125 Hi Htr I35 I123 I125 Hs). reflexivity.
    - change (body_lines indent (it :: it2 :: rest)) with ((indent ++ it ++ [44]) :: body_lines indent (it2 :: rest)) in *.
      cbn [forallb] in Hsep. apply andb_true_iff in Hsep as [Hs Hsep]. apply negb_true_iff in Hs.
      cbn [steps].
      rewrite (step_body_line st indent (it ++ [44]) Ha A125 Hi (trimmed_comma it Htr)).
      + rewrite (IH (with_acc st (st_acc st ++ it ++ [44]))).
        * unfold with_acc. cbn [st_done st_cur st_set st_acc]. rewrite join_cons2. norm_app. reflexivity.
        * discriminate.
        * cbn [with_acc st_acc]. destruct (st_acc st); [contradiction | discriminate].
        * cbn [with_acc st_acc]. rewrite !has_byte_app, A125, I125. reflexivity.
        * exact Hi.
        * exact Hrest.
        * exact Hsep.
      + rewrite has_byte_app, I35. reflexivity.
      + rewrite has_byte_app, I123. reflexivity.
      + rewrite has_byte_app, I125. reflexivity.
      + exact Hs.
  Qed.

  Lemma step_counter_open st fs pre :
    st_acc st = [] -> fstyle_ok fs = true -> has_byte 123 pre = false -> has_byte 125 pre = false ->
    has_byte 35 pre = false ->
    step pf st (key_name KCounter ++ [58] ++ fs_ws1 fs ++ pre ++ [123] ++ fs_ws2 fs ++ fs_cmt fs)
    = inl (with_acc st (key_name KCounter ++ [58] ++ fs_ws1 fs ++ pre ++ [123])).
  Proof.
    intros Ha Hfs P1 P2 P35.
    destruct (fstyle_ok_parts fs Hfs) as [W1 [W2 Wc]].
    assert (forall x, blank x = false -> has_byte x (fs_ws1 fs) = false) as Hb1 by (intros; apply has_byte_blank; assumption).
    assert (forall x, blank x = false -> has_byte x (fs_ws2 fs) = false) as Hb2 by (intros; apply has_byte_blank; assumption).
    set (X := key_name KCounter ++ [58] ++ fs_ws1 fs ++ pre).
    set (text := X ++ 123 :: fs_ws2 fs).
    assert (forall x, x = 35 \/ x = 123 \/ x = 125 \/ x = 10 -> blank x = false -> has_byte x pre = false -> has_byte x X = false) as HX.
    { intros x Hk Hb Hp. unfold X. rewrite app_assoc, has_byte_app, (key_colon_no KCounter x Hk), has_byte_app, Hb1, Hp by auto. reflexivity. }
    assert (has_byte 35 text = false) as T35.
    { unfold text. rewrite has_byte_app, HX, has_byte_cons, Hb2 by auto. reflexivity. }
    replace (key_name KCounter ++ [58] ++ fs_ws1 fs ++ pre ++ [123] ++ fs_ws2 fs ++ fs_cmt fs)
      with (text ++ fs_cmt fs) by (unfold text, X; norm_app; reflexivity).
    replace (key_name KCounter ++ [58] ++ fs_ws1 fs ++ pre ++ [123]) with (X ++ [123]) by (unfold X; norm_app; reflexivity).
    assert (beq (text ++ fs_cmt fs) sep_line = false) as Hs by reflexivity.
    unfold step. rewrite Hs, (cmt_cut text _ T35 Wc), Ha.
    rewrite (phase1_open text X (fs_ws2 fs) eq_refl); [| apply HX; auto | apply HX; auto | apply Hb2; reflexivity |].
    2:{ unfold text, X. norm_app. reflexivity. }
    assert (trim_right_space text = X ++ [123]) as Etr.
    { replace text with ((X ++ [123]) ++ fs_ws2 fs) by (unfold text; norm_app; reflexivity).
      apply trim_right_strip; [exact W2 | apply no_trail_last; reflexivity]. }
    rewrite Etr. unfold phase2.
    destruct (X ++ [123]) as [|a0 A] eqn:EA; [destruct X; discriminate|].
    cbn [is_empty has_byte existsb]. rewrite ftrim_space_nil, app_nil_r, <- EA.
    rewrite index_byte_none; [reflexivity|].
    rewrite has_byte_app, HX by auto. reflexivity.
  Qed.

  Lemma step_counter_close st A post :
    st_acc st = A -> A <> [] -> has_byte 125 A = false -> fhas_suffix A [44] = false ->
    has_byte 35 post = false -> has_byte 123 post = false -> has_byte 125 post = false ->
    trimmed (125 :: post) = true ->
    step pf st (125 :: post) = apply_field pf (with_acc st []) (A ++ 125 :: post).
  Proof.
    intros Ha Hne A125 Hsuf Q35 Q123 Q125 Htr.
    assert (beq (125 :: post) sep_line = false) as Hs by reflexivity.
    unfold step. rewrite Hs, Ha.
    rewrite cut_before_none by (rewrite has_byte_cons, Q35; reflexivity).
    unfold phase1. destruct A as [|a0 A']; [contradiction|]. cbn [is_empty].
    rewrite (phase2_close (a0 :: A') (125 :: post) (a0 :: A') post); try assumption.
    - reflexivity.
    - rewrite (ftrim_space_trimmed _ Htr). reflexivity.
  Qed.
End RTMulti.

Lemma has_byte_app_false x a b : has_byte x (a ++ b) = false -> has_byte x a = false /\ has_byte x b = false.
Proof. rewrite has_byte_app. apply orb_false_iff. Qed.

Lemma trimmed_close c pre body post : c = pre ++ 123 :: body ++ 125 :: post -> trimmed c = true ->
  trimmed (125 :: post) = true.
Proof.
  intros E Ht. unfold trimmed in *. apply andb_true_iff in Ht as [_ Ht]. apply andb_true_iff. split.
  - apply no_lead_first; reflexivity.
  - destruct post as [|p post]; [reflexivity|].
    change (125 :: p :: post) with ([125] ++ p :: post).
    rewrite no_trail_app_ascii; [|discriminate|reflexivity].
    apply (no_trail_suffix (pre ++ 123 :: body ++ [125])).
    replace ((pre ++ 123 :: body ++ [125]) ++ p :: post) with c; [exact Ht|].
    rewrite E. norm_app. reflexivity.
Qed.

Section RTCounterAll.
  Variable pf : bytes -> option N.

  Lemma steps_counter_lines st c sty :
    st_acc st = [] -> fstyle_ok (rs_f sty KCounter) = true -> all_blank (rs_indent sty) = true ->
    valid_counter c = true -> multi_ok c sty = true -> key_set KCounter (st_set st) = false ->
    steps pf st (counter_lines c sty)
    = Some (mkSt (st_done st) (if is_empty c then st_cur st else with_counter (st_cur st) c)
                 (if is_empty c then st_set st else KCounter :: st_set st) []).
  Proof.
    intros Ha Hfs Hind Hvc Hmulti Hset. unfold counter_lines.
    destruct c as [|c0 c'] eqn:Ec.
    { cbn [is_empty steps]. destruct st; cbn in Ha; subst; reflexivity. }
    rewrite <- Ec in *. assert (is_empty c = false) as Hie by (rewrite Ec; reflexivity).
    rewrite Hie. unfold valid_counter in Hvc. rewrite Hie in Hvc. cbn [orb] in Hvc.
    apply andb_true_iff in Hvc as [Hv Hbr].
    destruct (valid_value_parts c Hv) as [Hne [N10 [N35 Htr]]].
    destruct (braces_ok_cases c Hbr) as [[NB1 NB2] | [pre [body [post [Esp [Ed [P1 [P2 [B1 [B2 [Q1 [Q2 Hsuf]]]]]]]]]]]].
    - (* no braces: one plain line whatever the layout *)
      assert ((if rs_multi sty then split_braces c else None) = None) as ->.
      { destruct (rs_multi sty); [|reflexivity]. unfold split_braces. rewrite (index_byte_none c 123 NB1). reflexivity. }
      cbn [steps].
      rewrite (step_field pf st KCounter c _ (with_counter (st_cur st) c) Ha Hfs).
      + reflexivity.
      + unfold plain_value. rewrite Hv, NB1, NB2. reflexivity.
      + rewrite Hset. reflexivity.
      + reflexivity.
    - destruct (rs_multi sty) eqn:Em.
      + (* one bucket per line *)
        rewrite Esp.
        unfold multi_ok in Hmulti. rewrite Em, Esp in Hmulti. apply andb_true_iff in Hmulti as [Hitems Hseps].
        assert (has_byte 35 pre = false /\ has_byte 35 body = false /\ has_byte 35 post = false) as [P35 [B35 Q35]].
        { rewrite Ed in N35. apply has_byte_app_false in N35 as [N1 N2]. rewrite has_byte_cons in N2.
          apply orb_false_iff in N2 as [_ N2]. apply has_byte_app_false in N2 as [N2 N3].
          rewrite has_byte_cons in N3. apply orb_false_iff in N3 as [_ N3]. auto. }
        set (fs := rs_f sty KCounter) in *.
        set (A0 := key_name KCounter ++ [58] ++ fs_ws1 fs ++ pre ++ [123]).
        assert (A0 <> []) as HA0 by (unfold A0; destruct (key_name KCounter) eqn:E; [discriminate E | discriminate]).
        destruct (fstyle_ok_parts fs Hfs) as [W1 [W2 Wc]].
        assert (has_byte 125 A0 = false) as A0125.
        { unfold A0. rewrite app_assoc, has_byte_app, (key_colon_no KCounter 125), !has_byte_app,
            (has_byte_blank 125 _ W1), P2 by auto. reflexivity. }
        assert (Forall (item_ok) (split_byte body 44)) as Hall.
        { pose proof (split_byte_has_byte 35 body 44 B35) as F1.
          pose proof (split_byte_has_byte 123 body 44 B1) as F2.
          pose proof (split_byte_has_byte 125 body 44 B2) as F3.
          rewrite forallb_forall in Hitems. rewrite Forall_forall in *.
          intros it Hin. unfold item_ok. auto. }
        change ((key_name KCounter ++ [58] ++ fs_ws1 fs ++ pre ++ [123] ++ fs_ws2 fs ++ fs_cmt fs)
                :: body_lines (rs_indent sty) (split_byte body 44) ++ [125 :: post])
          with ([key_name KCounter ++ [58] ++ fs_ws1 fs ++ pre ++ [123] ++ fs_ws2 fs ++ fs_cmt fs]
                ++ body_lines (rs_indent sty) (split_byte body 44) ++ [125 :: post]).
        rewrite steps_app. cbn [steps].
        rewrite (step_counter_open pf st fs pre Ha Hfs P1 P2 P35). fold A0.
        rewrite steps_app.
        rewrite (steps_body pf (rs_indent sty) (split_byte body 44) (with_acc st A0)); try assumption.
        2:{ apply split_byte_nonempty. }
        cbn [with_acc st_acc st_done st_cur st_set]. rewrite join_split_byte.
        cbn [steps].
        rewrite (step_counter_close pf _ (A0 ++ body) post); cbn [with_acc st_acc st_done st_cur st_set]; try assumption; try reflexivity.
        * replace ((A0 ++ body) ++ 125 :: post) with (key_name KCounter ++ [58] ++ fs_ws1 fs ++ c)
            by (unfold A0; rewrite Ed; norm_app; reflexivity).
          rewrite (apply_counter pf _ _ c W1 Hv); [reflexivity | exact Hset].
        * destruct A0; [contradiction | discriminate].
        * rewrite has_byte_app, A0125, B2. reflexivity.
        * unfold A0. replace ((key_name KCounter ++ [58] ++ fs_ws1 fs ++ pre ++ [123]) ++ body)
            with ((key_name KCounter ++ [58] ++ fs_ws1 fs ++ pre) ++ 123 :: body) by (norm_app; reflexivity).
          apply has_suffix_brace_body. exact Hsuf.
        * apply (trimmed_close c pre body post Ed Htr).
      + (* on one line *)
        cbn [steps]. rewrite Ed.
        rewrite (step_counter_single pf st _ pre body post Ha Hfs); try assumption.
        * reflexivity.
        * rewrite <- Ed. exact Hv.
  Qed.
End RTCounterAll.

(* ------------------------------------------------------------ one record *)

(* order in which record_lines writes the keys *)
Definition rank (k : key) : nat :=
  match k with
  | KCounter => 0 | KTitle => 1 | KDescription => 2 | KIssue => 3 | KType => 4 | KProgram => 5
  | KModule => 6 | KVersion => 7 | KDepth => 8 | KError => 9
  end.
Definition below (n : nat) (set : list key) : Prop := forall k, In k set -> (rank k < n)%nat.

Lemma below_nil n : below n [].
Proof. intros k []. Qed.
Lemma below_step n m k (absent : bool) set : below n set -> (rank k < m)%nat -> (n <= m)%nat ->
  below m (if absent then set else k :: set).
Proof.
  intros Hb Hk Hn x Hin. destruct absent.
  - specialize (Hb x Hin). lia.
  - destruct Hin as [<-|Hin]; [exact Hk | specialize (Hb x Hin); lia].
Qed.
Lemma below_not_set n k set : below n set -> (n <= rank k)%nat -> key_set k set = false.
Proof.
  intros Hb Hn. destruct (key_set k set) eqn:E; [|reflexivity].
  apply key_set_in in E. specialize (Hb k E). lia.
Qed.
Lemma below_app n a b : below n a -> below n b -> below n (a ++ b).
Proof. intros Ha Hb k Hin. apply in_app_or in Hin as [H|H]; auto. Qed.
Lemma below_repeat n k m : (rank k < n)%nat -> below n (repeat k m).
Proof. intros Hk x Hin. apply repeat_spec in Hin. subst. exact Hk. Qed.

Lemma repeat_snoc {A} (x : A) n l : repeat x n ++ x :: l = x :: repeat x n ++ l.
Proof. induction n as [|n IH]; [reflexivity|]. cbn [repeat app]. rewrite IH. reflexivity. Qed.

Section RTRecord.
  Variable pf : bytes -> option N.
  Variable rf : N -> bytes.

  Lemma steps_opt_gen st k (absent : bool) v fs c :
    st_acc st = [] -> fstyle_ok fs = true ->
    (absent = false -> plain_value v = true /\ set_field pf k v (st_cur st) = inl c) ->
    (absent = true -> c = st_cur st) ->
    key_set k (st_set st) && negb (is_slice k) = false ->
    steps pf st (if absent then [] else [field_line k v fs])
    = Some (mkSt (st_done st) c (if absent then st_set st else k :: st_set st) []).
  Proof.
    intros Ha Hfs Hp Hab Hset. destruct absent.
    - rewrite (Hab eq_refl). cbn [steps]. destruct st; cbn in Ha; subst; reflexivity.
    - destruct (Hp eq_refl) as [Hv Hf]. cbn [steps]. rewrite (step_field pf st k v fs c Ha Hfs Hv Hset Hf). reflexivity.
  Qed.

  Definition with_issue (c : chart) (is : list bytes) : chart :=
    mkChart (c_title c) (c_description c) is (c_type c) (c_program c) (c_module c) (c_counter c)
            (c_depth c) (c_error c) (c_version c).

  Lemma steps_issues fs vs : forall st,
    st_acc st = [] -> fstyle_ok fs = true -> forallb plain_value vs = true ->
    steps pf st (map (fun v => field_line KIssue v fs) vs)
    = Some (mkSt (st_done st) (with_issue (st_cur st) (c_issue (st_cur st) ++ vs))
                 (repeat KIssue (length vs) ++ st_set st) []).
  Proof.
    induction vs as [|v vs IH]; intros st Ha Hfs Hall.
    - cbn [map steps length repeat app]. rewrite app_nil_r.
      destruct st as [d c s a]; cbn in Ha; subst. destruct c; reflexivity.
    - cbn [forallb] in Hall. apply andb_true_iff in Hall as [Hv Hall].
      cbn [map steps].
      rewrite (step_field pf st KIssue v fs (with_issue (st_cur st) (c_issue (st_cur st) ++ [v])) Ha Hfs Hv).
      + rewrite IH; try assumption; try reflexivity.
        cbn [st_done st_cur st_set with_issue c_issue c_title c_description c_type c_program c_module c_counter c_depth c_error c_version length repeat].
        rewrite <- app_assoc. cbn [app]. rewrite repeat_snoc. reflexivity.
      + rewrite andb_false_r. reflexivity.
      + reflexivity.
  Qed.

  Lemma opt_plain_cases v : opt_plain v = true -> is_empty v = false -> plain_value v = true.
  Proof. unfold opt_plain. intros H E. rewrite E in H. exact H. Qed.

  Lemma is_empty_true v : is_empty v = true -> v = [].
  Proof. destruct v; [reflexivity | discriminate]. Qed.

  Theorem steps_record done r sty :
    valid_record pf rf r = true -> style_ok r sty = true ->
    exists set, set <> [] /\
      steps pf (mkSt done empty_chart [] []) (record_lines rf r sty) = Some (mkSt done r set []).
  Proof.
    intros Hv Hs.
    destruct r as [ti de iss ty pr mo cn dp er ve].
    unfold valid_record in Hv. cbn [c_title c_description c_issue c_type c_program c_module c_counter c_depth c_error c_version] in Hv.
    apply andb_true_iff in Hv as [Hv Hnon]. apply andb_true_iff in Hv as [Hv Vve].
    apply andb_true_iff in Hv as [Hv Ver]. apply andb_true_iff in Hv as [Hv Vdp].
    apply andb_true_iff in Hv as [Hv Vcn]. apply andb_true_iff in Hv as [Hv Vmo].
    apply andb_true_iff in Hv as [Hv Vpr]. apply andb_true_iff in Hv as [Hv Vty].
    apply andb_true_iff in Hv as [Hv Vis]. apply andb_true_iff in Hv as [Vti Vde].
    unfold style_ok in Hs. cbn [c_counter] in Hs.
    apply andb_true_iff in Hs as [Hs Smulti]. apply andb_true_iff in Hs as [Hs Sind].
    apply andb_true_iff in Hs as [Hs Sf]. apply andb_true_iff in Hs as [Spre Spost].
    assert (forall k, fstyle_ok (rs_f sty k) = true) as Hfs.
    { intros k. rewrite forallb_forall in Sf. apply Sf. destruct k; cbn; auto 12. }
    unfold record_lines.
    cbn [c_title c_description c_issue c_type c_program c_module c_counter c_depth c_error c_version].
    (* optional separator: an empty record is skipped *)
    rewrite steps_app.
    assert (steps pf (mkSt done empty_chart [] []) (if rs_sep sty then [sep_line] else [])
            = Some (mkSt done empty_chart [] [])) as -> by (destruct (rs_sep sty); reflexivity).
    (* fillers *)
    rewrite steps_app, (steps_fillers pf (mkSt done empty_chart [] []) _ eq_refl Spre).
    (* counter *)
    rewrite steps_app, (steps_counter_lines pf (mkSt done empty_chart [] []) cn sty eq_refl (Hfs KCounter) Sind Vcn Smulti eq_refl).
    cbn [st_done st_cur st_set].
    assert ((if is_empty cn then empty_chart else with_counter empty_chart cn)
            = mkChart [] [] [] [] [] [] cn 0%Z 0 []) as -> by (destruct cn; reflexivity).
    pose proof (below_step 0 1 KCounter (is_empty cn) [] (below_nil 0) ltac:(cbn; lia) ltac:(lia)) as B1.
    set (s1 := if is_empty cn then [] else [KCounter]) in *.
    (* title *)
    rewrite steps_app. unfold opt_line at 1.
    rewrite steps_opt_gen with (c := (mkChart ti [] [] [] [] [] cn 0%Z 0 [])); [| reflexivity | apply Hfs | | | ].
    2:{ intros E. split; [apply opt_plain_cases; assumption | reflexivity]. }
    2:{ intros E. apply is_empty_true in E. subst. reflexivity. }
    2:{ cbn [st_set]. rewrite (below_not_set 1 KTitle s1 B1); [reflexivity | cbn; lia]. }
    cbn [st_done st_cur st_set].
    pose proof (below_step 1 2 KTitle (is_empty ti) s1 B1 ltac:(cbn; lia) ltac:(lia)) as B2.
    set (s2 := if is_empty ti then s1 else KTitle :: s1) in *.
    (* description *)
    rewrite steps_app. unfold opt_line at 1.
    rewrite steps_opt_gen with (c := (mkChart ti de [] [] [] [] cn 0%Z 0 [])); [| reflexivity | apply Hfs | | | ].
    2:{ intros E. split; [apply opt_plain_cases; assumption | reflexivity]. }
    2:{ intros E. apply is_empty_true in E. subst. reflexivity. }
    2:{ cbn [st_set]. rewrite (below_not_set 2 KDescription s2 B2); [reflexivity | cbn; lia]. }
    cbn [st_done st_cur st_set].
    pose proof (below_step 2 3 KDescription (is_empty de) s2 B2 ltac:(cbn; lia) ltac:(lia)) as B3.
    set (s3 := if is_empty de then s2 else KDescription :: s2) in *.
    (* issues *)
    rewrite steps_app, steps_issues; [| reflexivity | apply Hfs | exact Vis].
    cbn [st_done st_cur st_set with_issue c_issue c_title c_description c_type c_program c_module c_counter c_depth c_error c_version app].
    assert (below 4 (repeat KIssue (length iss) ++ s3)) as B4.
    { apply below_app; [apply below_repeat; cbn; lia | intros k Hin; specialize (B3 k Hin); lia]. }
    set (s4 := repeat KIssue (length iss) ++ s3) in *.
    (* type *)
    rewrite steps_app. unfold opt_line at 1.
    rewrite steps_opt_gen with (c := (mkChart ti de iss ty [] [] cn 0%Z 0 [])); [| reflexivity | apply Hfs | | | ].
    2:{ intros E. split; [apply opt_plain_cases; assumption | reflexivity]. }
    2:{ intros E. apply is_empty_true in E. subst. reflexivity. }
    2:{ cbn [st_set]. rewrite (below_not_set 4 KType s4 B4); [reflexivity | cbn; lia]. }
    cbn [st_done st_cur st_set].
    pose proof (below_step 4 5 KType (is_empty ty) s4 B4 ltac:(cbn; lia) ltac:(lia)) as B5.
    set (s5 := if is_empty ty then s4 else KType :: s4) in *.
    (* program *)
    rewrite steps_app. unfold opt_line at 1.
    rewrite steps_opt_gen with (c := (mkChart ti de iss ty pr [] cn 0%Z 0 [])); [| reflexivity | apply Hfs | | | ].
    2:{ intros E. split; [apply opt_plain_cases; assumption | reflexivity]. }
    2:{ intros E. apply is_empty_true in E. subst. reflexivity. }
    2:{ cbn [st_set]. rewrite (below_not_set 5 KProgram s5 B5); [reflexivity | cbn; lia]. }
    cbn [st_done st_cur st_set].
    pose proof (below_step 5 6 KProgram (is_empty pr) s5 B5 ltac:(cbn; lia) ltac:(lia)) as B6.
    set (s6 := if is_empty pr then s5 else KProgram :: s5) in *.
    (* module *)
    rewrite steps_app. unfold opt_line at 1.
    rewrite steps_opt_gen with (c := (mkChart ti de iss ty pr mo cn 0%Z 0 [])); [| reflexivity | apply Hfs | | | ].
    2:{ intros E. split; [apply opt_plain_cases; assumption | reflexivity]. }
    2:{ intros E. apply is_empty_true in E. subst. reflexivity. }
    2:{ cbn [st_set]. rewrite (below_not_set 6 KModule s6 B6); [reflexivity | cbn; lia]. }
    cbn [st_done st_cur st_set].
    pose proof (below_step 6 7 KModule (is_empty mo) s6 B6 ltac:(cbn; lia) ltac:(lia)) as B7.
    set (s7 := if is_empty mo then s6 else KModule :: s6) in *.
    (* version *)
    rewrite steps_app. unfold opt_line at 1.
    rewrite steps_opt_gen with (c := (mkChart ti de iss ty pr mo cn 0%Z 0 ve)); [| reflexivity | apply Hfs | | | ].
    2:{ intros E. split; [apply opt_plain_cases; assumption | reflexivity]. }
    2:{ intros E. apply is_empty_true in E. subst. reflexivity. }
    2:{ cbn [st_set]. rewrite (below_not_set 7 KVersion s7 B7); [reflexivity | cbn; lia]. }
    cbn [st_done st_cur st_set].
    pose proof (below_step 7 8 KVersion (is_empty ve) s7 B7 ltac:(cbn; lia) ltac:(lia)) as B8.
    set (s8 := if is_empty ve then s7 else KVersion :: s7) in *.
    (* depth *)
    rewrite steps_app.
    rewrite steps_opt_gen with (c := (mkChart ti de iss ty pr mo cn dp 0 ve)); [| reflexivity | apply Hfs | | | ].
    2:{ intros E. apply Z.eqb_neq in E. split; [apply render_int_plain; assumption|].
        cbn [set_field st_cur]. rewrite (parse_render_int dp Vdp). reflexivity. }
    2:{ intros E. apply Z.eqb_eq in E. subst. reflexivity. }
    2:{ cbn [st_set]. rewrite (below_not_set 8 KDepth s8 B8); [reflexivity | cbn; lia]. }
    cbn [st_done st_cur st_set].
    pose proof (below_step 8 9 KDepth (dp =? 0)%Z s8 B8 ltac:(cbn; lia) ltac:(lia)) as B9.
    set (s9 := if (dp =? 0)%Z then s8 else KDepth :: s8) in *.
    (* error *)
    rewrite steps_app.
    rewrite steps_opt_gen with (c := (mkChart ti de iss ty pr mo cn dp er ve)); [| reflexivity | apply Hfs | | | ].
    2:{ intros E. unfold float_ok in Ver. rewrite E in Ver. cbn [orb] in Ver.
        apply andb_true_iff in Ver as [Hp Hrt]. split; [exact Hp|].
        cbn [set_field st_cur]. destruct (pf (rf er)) as [g|]; [|discriminate].
        apply N.eqb_eq in Hrt. subst. reflexivity. }
    2:{ intros E. apply N.eqb_eq in E. subst. reflexivity. }
    2:{ cbn [st_set]. rewrite (below_not_set 9 KError s9 B9); [reflexivity | cbn; lia]. }
    cbn [st_done st_cur st_set].
    set (s10 := if er =? 0 then s9 else KError :: s9) in *.
    (* trailing fillers *)
    rewrite steps_fillers; [| reflexivity | exact Spost].
    exists s10. split; [|reflexivity].
    (* the record is not empty, so some key was set *)
    intros E10.
    unfold nonempty_record in Hnon.
    cbn [c_title c_description c_issue c_type c_program c_module c_counter c_depth c_error c_version] in Hnon.
    unfold s10 in E10. destruct (er =? 0); [|discriminate].
    unfold s9 in E10. destruct (dp =? 0)%Z; [|discriminate].
    unfold s8 in E10. destruct (is_empty ve); [|discriminate].
    unfold s7 in E10. destruct (is_empty mo); [|discriminate].
    unfold s6 in E10. destruct (is_empty pr); [|discriminate].
    unfold s5 in E10. destruct (is_empty ty); [|discriminate].
    unfold s4 in E10. destruct iss as [|i0 iss]; [|discriminate].
    cbn [length repeat app] in E10.
    unfold s3 in E10. destruct (is_empty de); [|discriminate].
    unfold s2 in E10. destruct (is_empty ti); [|discriminate].
    unfold s1 in E10. destruct (is_empty cn); [|discriminate].
    discriminate Hnon.
  Qed.
End RTRecord.

(* ------------------------------------------------------------ no newline inside rendered lines *)

Definition no_nl (l : bytes) : Prop := has_byte 10 l = false.

Lemma filler_no_nl l : filler_ok l = true -> no_nl l.
Proof.
  unfold no_nl. induction l as [|c l IH]; intros H; [reflexivity|].
  cbn [filler_ok] in H. rewrite has_byte_cons. destruct (c =? 35) eqn:E.
  - apply N.eqb_eq in E. subst. apply negb_true_iff in H. rewrite H. reflexivity.
  - destruct (blank c) eqn:Eb; [|discriminate]. rewrite (IH H), orb_false_r.
    unfold blank in Eb. apply orb_true_iff in Eb as [Eb|Eb]; apply N.eqb_eq in Eb; subst; reflexivity.
Qed.

Lemma cmt_no_nl c : cmt_ok c = true -> no_nl c.
Proof.
  unfold no_nl. destruct c as [|x t]; [reflexivity|]. cbn [cmt_ok]. intros H.
  apply andb_true_iff in H as [Hx Ht]. apply N.eqb_eq in Hx. subst. apply negb_true_iff in Ht.
  rewrite has_byte_cons, Ht. reflexivity.
Qed.

Lemma field_line_no_nl k v fs : fstyle_ok fs = true -> has_byte 10 v = false -> no_nl (field_line k v fs).
Proof.
  intros Hfs Hv. destruct (fstyle_ok_parts fs Hfs) as [W1 [W2 Wc]]. unfold no_nl, field_line.
  replace (key_name k ++ [58] ++ fs_ws1 fs ++ v ++ fs_ws2 fs ++ fs_cmt fs)
    with ((key_name k ++ [58] ++ fs_ws1 fs ++ v ++ fs_ws2 fs) ++ fs_cmt fs) by (norm_app; reflexivity).
  rewrite has_byte_app, text_no, (cmt_no_nl _ Wc); auto.
Qed.

Lemma body_lines_no_nl indent items : all_blank indent = true -> Forall no_nl items ->
  Forall no_nl (body_lines indent items).
Proof.
  intros Hi. induction 1 as [|it items Hit Hrest IH]; [constructor|].
  destruct items as [|it2 rest].
  - constructor; [|constructor]. unfold no_nl in *. rewrite has_byte_app, Hit, (has_byte_blank 10 indent Hi); reflexivity.
  - change (body_lines indent (it :: it2 :: rest)) with ((indent ++ it ++ [44]) :: body_lines indent (it2 :: rest)).
    constructor; [|exact IH]. unfold no_nl in *.
    rewrite !has_byte_app, Hit, (has_byte_blank 10 indent Hi); reflexivity.
Qed.

Lemma counter_lines_no_nl c sty : fstyle_ok (rs_f sty KCounter) = true -> all_blank (rs_indent sty) = true ->
  has_byte 10 c = false -> Forall no_nl (counter_lines c sty).
Proof.
  intros Hfs Hi Hc. unfold counter_lines. destruct (is_empty c); [constructor|].
  destruct (if rs_multi sty then split_braces c else None) as [[[pre body] post]|] eqn:E.
  - destruct (rs_multi sty); [|discriminate].
    destruct (braces_decomp c pre body post E) as [Ed _].
    rewrite Ed in Hc. apply has_byte_app_false in Hc as [N1 N2]. rewrite has_byte_cons in N2.
    apply orb_false_iff in N2 as [_ N2]. apply has_byte_app_false in N2 as [N2 N3].
    rewrite has_byte_cons in N3. apply orb_false_iff in N3 as [_ N3].
    destruct (fstyle_ok_parts _ Hfs) as [W1 [W2 Wc]].
    constructor.
    + unfold no_nl.
      rewrite app_assoc, has_byte_app, (key_colon_no KCounter 10), !has_byte_app, N1,
        (has_byte_blank 10 _ W1), (has_byte_blank 10 _ W2), (cmt_no_nl _ Wc) by auto. reflexivity.
    + apply Forall_app. split.
      * apply body_lines_no_nl; [exact Hi|]. apply split_byte_has_byte. exact N2.
      * constructor; [|constructor]. unfold no_nl. rewrite has_byte_cons, N3. reflexivity.
  - constructor; [|constructor]. apply field_line_no_nl; assumption.
Qed.

Lemma opt_plain_no_nl v : opt_plain v = true -> has_byte 10 v = false.
Proof.
  unfold opt_plain. destruct v as [|x v]; [reflexivity|]. cbn [is_empty orb]. intros H.
  apply plain_value_parts in H as [H _]. apply valid_value_parts in H as [_ [H _]]. exact H.
Qed.

Lemma opt_line_no_nl k v sty : fstyle_ok (rs_f sty k) = true -> opt_plain v = true -> Forall no_nl (opt_line k v sty).
Proof.
  intros Hfs Hv. unfold opt_line. destruct (is_empty v); [constructor|].
  constructor; [|constructor]. apply field_line_no_nl; [exact Hfs | apply opt_plain_no_nl; exact Hv].
Qed.

Section RTAll.
  Variable pf : bytes -> option N.
  Variable rf : N -> bytes.

  Definition item_valid (it : chart * rstyle) : Prop :=
    valid_record pf rf (fst it) = true /\ style_ok (fst it) (snd it) = true.

  Lemma record_lines_no_nl r sty : valid_record pf rf r = true -> style_ok r sty = true ->
    Forall no_nl (record_lines rf r sty).
  Proof.
    intros Hv Hs. unfold valid_record in Hv.
    apply andb_true_iff in Hv as [Hv Hnon]. apply andb_true_iff in Hv as [Hv Vve].
    apply andb_true_iff in Hv as [Hv Ver]. apply andb_true_iff in Hv as [Hv Vdp].
    apply andb_true_iff in Hv as [Hv Vcn]. apply andb_true_iff in Hv as [Hv Vmo].
    apply andb_true_iff in Hv as [Hv Vpr]. apply andb_true_iff in Hv as [Hv Vty].
    apply andb_true_iff in Hv as [Hv Vis]. apply andb_true_iff in Hv as [Vti Vde].
    unfold style_ok in Hs.
    apply andb_true_iff in Hs as [Hs Smulti]. apply andb_true_iff in Hs as [Hs Sind].
    apply andb_true_iff in Hs as [Hs Sf]. apply andb_true_iff in Hs as [Spre Spost].
    assert (forall k, fstyle_ok (rs_f sty k) = true) as Hfs.
    { intros k. rewrite forallb_forall in Sf. apply Sf. destruct k; cbn; auto 12. }
    unfold record_lines. repeat (apply Forall_app; split).
    - destruct (rs_sep sty); [constructor; [reflexivity | constructor] | constructor].
    - rewrite forallb_forall in Spre. apply Forall_forall. intros l Hl. apply filler_no_nl, Spre, Hl.
    - apply counter_lines_no_nl; try apply Hfs; try assumption.
      unfold valid_counter in Vcn. destruct (c_counter r) as [|x c] eqn:E; [reflexivity|].
      cbn [is_empty orb] in Vcn. apply andb_true_iff in Vcn as [Vv _].
      apply valid_value_parts in Vv as [_ [Vv _]]. exact Vv.
    - apply opt_line_no_nl; auto.
    - apply opt_line_no_nl; auto.
    - apply Forall_forall. intros l Hl. apply in_map_iff in Hl as [v [<- Hin]].
      apply field_line_no_nl; [apply Hfs|]. rewrite forallb_forall in Vis. specialize (Vis v Hin).
      apply plain_value_parts in Vis as [Vis _]. apply valid_value_parts in Vis as [_ [Vis _]]. exact Vis.
    - apply opt_line_no_nl; auto.
    - apply opt_line_no_nl; auto.
    - apply opt_line_no_nl; auto.
    - apply opt_line_no_nl; auto.
    - destruct (c_depth r =? 0)%Z eqn:E; [constructor|]. constructor; [|constructor].
      apply field_line_no_nl; [apply Hfs|]. apply Z.eqb_neq in E.
      pose proof (render_int_plain _ Vdp E) as P. apply plain_value_parts in P as [P _].
      apply valid_value_parts in P as [_ [P _]]. exact P.
    - destruct (c_error r =? 0) eqn:E; [constructor|]. constructor; [|constructor].
      apply field_line_no_nl; [apply Hfs|]. unfold float_ok in Ver. rewrite E in Ver. cbn [orb] in Ver.
      apply andb_true_iff in Ver as [P _]. apply plain_value_parts in P as [P _].
      apply valid_value_parts in P as [_ [P _]]. exact P.
    - rewrite forallb_forall in Spost. apply Forall_forall. intros l Hl. apply filler_no_nl, Spost, Hl.
  Qed.

  Lemma render_lines_no_nl items : Forall item_valid items -> Forall no_nl (render_lines rf items).
  Proof.
    induction 1 as [|[r s] items [Hv Hs] Hrest IH]; [constructor|].
    cbn [fst snd] in *.
    destruct items as [|it items]; cbn [render_lines].
    - apply record_lines_no_nl; assumption.
    - apply Forall_app. split; [apply record_lines_no_nl; assumption|].
      constructor; [reflexivity | exact IH].
  Qed.

  Lemma parse_lines_app st n l1 l2 st' : steps pf st l1 = Some st' ->
    parse_lines pf st n (l1 ++ l2) = parse_lines pf st' (n + N.of_nat (length l1)) l2.
  Proof.
    revert st n; induction l1 as [|l l1 IH]; intros st n H; cbn [steps app parse_lines length] in *.
    - injection H as <-. f_equal. lia.
    - destruct (step pf st l) as [st1|]; [|discriminate].
      rewrite (IH st1 (n + 1) H). f_equal. lia.
  Qed.

  Lemma parse_lines_render items : forall done n, Forall item_valid items ->
    parse_lines pf (mkSt done empty_chart [] []) n (render_lines rf items ++ [[]])
    = POk (done ++ map fst items).
  Proof.
    induction items as [|[r s] items IH]; intros done n Hall.
    - cbn [render_lines app parse_lines map]. rewrite (step_filler pf (mkSt done empty_chart [] []) [] eq_refl eq_refl).
      cbn [parse_lines]. unfold finish, flush. cbn. rewrite app_nil_r. reflexivity.
    - inversion Hall as [|? ? [Hv Hs] Hrest]; subst. cbn [fst snd] in *.
      destruct (steps_record pf rf done r s Hv Hs) as [set [Hset Hsteps]].
      destruct items as [|it items].
      + cbn [render_lines map].
        rewrite (parse_lines_app _ n _ [[]] _ Hsteps). cbn [parse_lines].
        rewrite (step_filler pf (mkSt done r set []) [] eq_refl eq_refl). cbn [parse_lines].
        unfold finish, flush. cbn [st_acc st_set st_done st_cur is_empty].
        destruct set; [contradiction | reflexivity].
      + change (render_lines rf ((r, s) :: it :: items))
          with (record_lines rf r s ++ sep_line :: render_lines rf (it :: items)).
        rewrite <- app_assoc.
        rewrite (parse_lines_app _ n _ _ _ Hsteps).
        cbn [app parse_lines].
        assert (step pf (mkSt done r set []) sep_line = inl (mkSt (done ++ [r]) empty_chart [] [])) as ->.
        { unfold step, flush. cbn. destruct set; [contradiction | reflexivity]. }
        rewrite IH by exact Hrest. cbn [map fst]. rewrite <- app_assoc. reflexivity.
  Qed.

  (* The main theorem: every list of valid records, rendered with any valid
     layout, parses back to exactly those records. *)
  Theorem parse_render items : Forall item_valid items ->
    parse pf (render rf items) = POk (map fst items).
  Proof.
    intros Hall. unfold parse, render.
    rewrite split_unlines.
    - apply (parse_lines_render items [] 0 Hall).
    - apply Forall_forall. intros l Hl.
      pose proof (render_lines_no_nl items Hall) as P. rewrite Forall_forall in P. apply P. exact Hl.
  Qed.

  Lemma canon_style_ok multi r : multi_ok (c_counter r) (canon_rs multi) = true -> style_ok r (canon_rs multi) = true.
  Proof. intros H. unfold style_ok. rewrite H. reflexivity. Qed.

  Corollary parse_render_canonical multi rs :
    Forall (fun r => valid_record pf rf r = true /\ multi_ok (c_counter r) (canon_rs multi) = true) rs ->
    parse pf (render_canonical rf multi rs) = POk rs.
  Proof.
    intros Hall. unfold render_canonical. rewrite parse_render.
    - rewrite map_map. cbn [fst]. rewrite map_id. reflexivity.
    - apply Forall_forall. intros it Hin. apply in_map_iff in Hin as [r [<- Hr]].
      rewrite Forall_forall in Hall. destruct (Hall r Hr) as [Hv Hm].
      split; [exact Hv | apply canon_style_ok; exact Hm].
  Qed.

  (* the executable oracle accepts exactly the expected answer *)
  Lemma list_eqb_refl {A} (eq : A -> A -> bool) l : (forall x, eq x x = true) -> list_eqb eq l l = true.
  Proof. intros H. induction l; cbn; [reflexivity | rewrite H, IHl; reflexivity]. Qed.
  Lemma chart_eqb_refl c : chart_eqb c c = true.
  Proof.
    unfold chart_eqb. rewrite !beq_refl, Z.eqb_refl, N.eqb_refl, (list_eqb_refl beq _ beq_refl). reflexivity.
  Qed.
  Lemma list_eqb_eq {A} (eq : A -> A -> bool) : (forall x y, eq x y = true -> x = y) ->
    forall a b, list_eqb eq a b = true -> a = b.
  Proof.
    intros H. induction a as [|x a IH]; intros [|y b] E; try discriminate; [reflexivity|].
    cbn in E. apply andb_true_iff in E as [E1 E2]. f_equal; [apply H; exact E1 | apply IH; exact E2].
  Qed.
  Lemma chart_eqb_eq a b : chart_eqb a b = true -> a = b.
  Proof.
    unfold chart_eqb. intros H. repeat (apply andb_true_iff in H as [H ?]).
    destruct a, b. cbn in *.
    repeat match goal with
           | E : beq _ _ = true |- _ => apply beq_eq in E
           | E : list_eqb beq _ _ = true |- _ => apply (list_eqb_eq beq (fun x y => proj1 (beq_eq x y))) in E
           | E : (_ =? _)%Z = true |- _ => apply Z.eqb_eq in E
           | E : (_ =? _) = true |- _ => apply N.eqb_eq in E
           end.
    congruence.
  Qed.
  Theorem roundtrip_ok_iff rs res : roundtrip_ok rs res = true <-> res = POk rs.
  Proof.
    unfold roundtrip_ok. destruct res as [ln e|got]; split; intro H; try discriminate.
    - f_equal. symmetry. apply (list_eqb_eq chart_eqb chart_eqb_eq). exact H.
    - injection H as ->. apply list_eqb_refl. apply chart_eqb_refl.
  Qed.
End RTAll.

(* ------------------------------------------------------------ no limit on the length of a line *)

Lemma has_byte_repeat x c k : x <> c -> has_byte x (repeat c k) = false.
Proof.
  intros H. induction k as [|k IH]; [reflexivity|]. cbn [repeat]. rewrite has_byte_cons, IH, orb_false_r.
  apply N.eqb_neq. exact H.
Qed.

Lemma repeat_plain n : plain_value (repeat 97 (S n)) = true.
Proof.
  unfold plain_value, valid_value. rewrite !has_byte_repeat by discriminate.
  cbn [repeat is_empty negb andb]. rewrite !andb_true_r. unfold trimmed. apply andb_true_iff. split.
  - apply no_lead_first; reflexivity.
  - change (97 :: repeat 97 n) with (repeat 97 (S n)). cbn [repeat]. rewrite repeat_cons. apply no_trail_last; reflexivity.
Qed.

Definition long_record (n : nat) : chart := mkChart [] (repeat 97 (S n)) [] [] [] [] [] 0%Z 0 [].

Lemma long_record_valid pf rf n : valid_record pf rf (long_record n) = true.
Proof.
  unfold valid_record, long_record.
  cbn [c_title c_description c_issue c_type c_program c_module c_counter c_depth c_error c_version].
  unfold opt_plain at 2. rewrite repeat_plain, orb_true_r. reflexivity.
Qed.

(* for every length there is a valid record whose canonical rendering is one
   line of that length (plus the key), and it parses back: the syntax has no
   line length limit *)
Theorem parse_render_any_length pf rf n :
  render_canonical rf false [long_record n] = key_name KDescription ++ [58; 32] ++ repeat 97 (S n) ++ [10]
  /\ parse pf (render_canonical rf false [long_record n]) = POk [long_record n].
Proof.
  split.
  - unfold render_canonical, render, unlines. cbn [map render_lines]. unfold record_lines, long_record.
    cbn [c_title c_description c_issue c_type c_program c_module c_counter c_depth c_error c_version
         canon_rs rs_sep rs_pre rs_post rs_f rs_multi counter_lines opt_line is_empty repeat map app
         Z.eqb N.eqb field_line canon_fs fs_ws1 fs_ws2 fs_cmt concat].
    rewrite ?app_nil_r. unfold field_line, canon_fs. cbn [fs_ws1 fs_ws2 fs_cmt]. norm_app. reflexivity.
  - apply parse_render_canonical. constructor; [|constructor]. split; [apply long_record_valid | reflexivity].
Qed.

(* ------------------------------------------------------------ the inside of a value is free *)

(* Only the ends of a value must be non-space: between them every byte except
   '\n' and '#' (and braces outside `counter`) is allowed - carriage returns,
   tabs, form feeds, Unicode spaces, control characters. *)
Lemma plain_value_interior m :
  has_byte 10 m = false -> has_byte 35 m = false -> has_byte 123 m = false -> has_byte 125 m = false ->
  plain_value (120 :: m ++ [120]) = true.
Proof.
  intros H10 H35 H123 H125. unfold plain_value, valid_value.
  rewrite !has_byte_cons, !has_byte_app, H10, H35, H123, H125.
  cbn [is_empty negb andb orb N.eqb Pos.eqb has_byte existsb]. rewrite !andb_true_r.
  unfold trimmed. apply andb_true_iff. split.
  - apply no_lead_first; reflexivity.
  - change (120 :: m ++ [120]) with ((120 :: m) ++ [120]). apply no_trail_last; reflexivity.
Qed.

Definition interior_record (m : bytes) : chart := mkChart (120 :: m ++ [120]) [] [] [] [] [] [] 0%Z 0 [].

Theorem parse_render_interior pf rf m :
  has_byte 10 m = false -> has_byte 35 m = false -> has_byte 123 m = false -> has_byte 125 m = false ->
  parse pf (render_canonical rf false [interior_record m]) = POk [interior_record m].
Proof.
  intros H10 H35 H123 H125. apply parse_render_canonical. constructor; [|constructor]. split; [|reflexivity].
  unfold valid_record, interior_record.
  cbn [c_title c_description c_issue c_type c_program c_module c_counter c_depth c_error c_version].
  unfold opt_plain at 1. rewrite (plain_value_interior m H10 H35 H123 H125), orb_true_r. reflexivity.
Qed.
