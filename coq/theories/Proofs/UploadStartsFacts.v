(* Proofs/UploadStartsFacts: the token over a history of starts. *)
From Coq Require Import List ZArith Bool Lia.
From Tele Require Import Lib.Sched Model.Start Model.UploadStarts.
Import ListNotations.
Open Scope Z_scope.

(* one start alone: it acquires iff there is no token or the token is at least
   a period old; the token's time becomes the instant of the start if it
   acquires and is UNCHANGED if it is refused *)
Theorem acquire_seq_spec period now tok :
  acquire_seq period now tok =
  (match tok with None => true | Some m => negb (token_fresh period now m) end,
   match tok with
   | None => Some now
   | Some m => if token_fresh period now m then Some m else Some now
   end).
Proof.
  unfold acquire_seq, trun, tinit, run. simpl.
  destruct tok as [m|]; simpl.
  - destruct (token_fresh period now m) eqn:E; simpl; rewrite ?E; reflexivity.
  - reflexivity.
Qed.

Local Opaque acquire_seq.

Lemma hist_obs period : forall times tok,
  not_starved period tok (combine times (map fst (starts_hist period tok times))) = true /\
  rate_ok period tok (combine times (map fst (starts_hist period tok times))) = true.
Proof.
  induction times as [|t r IH]; intros tok; simpl; [split; reflexivity|].
  rewrite acquire_seq_spec. unfold token_fresh.
  destruct tok as [m|]; simpl.
  - destruct (t - m <? period) eqn:E; simpl.
    + destruct (IH (Some m)) as [A B]. rewrite A, B. split; reflexivity.
    + destruct (IH (Some t)) as [A B]. rewrite A, B. split; reflexivity.
  - destruct (IH (Some t)) as [A B]. rewrite A, B. split; reflexivity.
Qed.

(* over every history of starts the model is neither starved nor too fast *)
Theorem starts_not_starved period times tok :
  not_starved period tok (combine times (map fst (starts_hist period tok times))) = true.
Proof. apply hist_obs. Qed.

Theorem starts_rate_ok period times tok :
  rate_ok period tok (combine times (map fst (starts_hist period tok times))) = true.
Proof. apply hist_obs. Qed.

(* a refused start does not move the window *)
Theorem refused_keeps_token period now tok :
  fst (acquire_seq period now tok) = false -> snd (acquire_seq period now tok) = tok.
Proof.
  rewrite acquire_seq_spec. destruct tok as [m|]; simpl; [|discriminate].
  destruct (token_fresh period now m); simpl; [reflexivity|discriminate].
Qed.
