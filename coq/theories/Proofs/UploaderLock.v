(* Proofs/UploaderLock: the lock-file protocol of uploadReportContents.
   Invariant over all schedules, kills and server answers: a thread between
   its successful exclusive creation of upload/W.json.lock and its removal of
   that file (killed or not) is the only such thread for W, and the lock
   file exists.  Consequences: no request while the uploaded marker exists,
   at most one acknowledgement per week. *)
From Coq Require Import List ZArith NArith Bool Lia Arith.
From Tele Require Import Lib.Bytes Lib.FS Model.Span Model.Uploader Proofs.FSFacts Proofs.UploaderBase.
Import ListNotations.
Open Scope nat_scope.

Definition in_cs (p : pc) : bool :=
  match p with
  | UStat | URemAlready | UPost | URem4xx | UWriteMarker | URemDone | UUnlock => true
  | _ => false
  end.

Definition lock_inv (st : state) : Prop :=
  (forall i t, nth_error (s_ths st) i = Some t -> in_cs (t_pc t) = true ->
               d_mem (up_dir (s_fs st)) (lock_name (t_week t)) = true) /\
  (forall i j ti tj, i <> j -> nth_error (s_ths st) i = Some ti -> nth_error (s_ths st) j = Some tj ->
               in_cs (t_pc ti) = true -> in_cs (t_pc tj) = true -> t_week ti <> t_week tj).

(* how a thread gets into / stays in the critical section *)
(* how a thread gets into / stays in the critical section *)
Lemma cs_after f a t e t' :
  decide_all f a t = (e, t') -> in_cs (t_pc t') = true ->
  t_week t' = t_week t /\
  ((in_cs (t_pc t) = true /\ forall n, e <> ERemUp n) \/
   (t_pc t = ULock /\ e = ECreateLock (lock_name (t_week t)) /\
    d_mem (up_dir f) (lock_name (t_week t)) = false)).
Proof.
  intros H. destruct a; dinv H; adv; simpl; intros Hcs; pcrw; dmatch Hcs; try discriminate; split; auto;
    try (left; split; [first [reflexivity|assumption]|intros; discriminate]).
  right. unfold up_dir.
  match goal with H : f_upload _ = Some _ |- _ => rewrite H end. auto.
Qed.

Lemma lock_inv_step st ia : lock_inv st -> lock_inv (step st ia).
Proof.
  intros [HA HB]. destruct ia as [i a].
  destruct (step_cases st i a) as [-> | (t & e & t' & Hi & Hk & Hd & ->)]; [split; auto|].
  split; simpl.
  - intros j tj Hj Hcs. rewrite nth_error_upd in Hj. rewrite up_apply.
    destruct (Nat.eqb i j) eqn:Eij.
    + apply Nat.eqb_eq in Eij. subst j. rewrite Hi in Hj. injection Hj as <-.
      destruct (cs_after _ _ _ _ _ Hd Hcs) as [Hw [[Hcs0 Hne] | (Hpc & -> & Hm)]].
      * rewrite Hw. specialize (HA _ _ Hi Hcs0).
        destruct e; auto.
        -- rewrite d_mem_add, HA. apply orb_true_r.
        -- rewrite d_mem_put, HA. apply orb_true_r.
        -- exfalso. apply (Hne n). reflexivity.
      * rewrite Hw, d_mem_add, beq_refl. reflexivity.
    + specialize (HA _ _ Hj Hcs). destruct e; auto.
      * rewrite d_mem_add, HA. apply orb_true_r.
      * rewrite d_mem_put, HA. apply orb_true_r.
      * destruct (eff_remup _ _ _ _ _ Hd) as [Hpc ->].
        rewrite d_mem_remove_other; auto.
        intros E. apply lock_name_inj in E.
        apply Nat.eqb_neq in Eij.
        apply (HB i j t tj Eij Hi Hj); auto. rewrite Hpc. reflexivity.
  - intros j k tj tk Hjk Hj Hk' Hcj Hck.
    rewrite nth_error_upd in Hj, Hk'.
    destruct (Nat.eqb i j) eqn:Eij; destruct (Nat.eqb i k) eqn:Eik.
    + apply Nat.eqb_eq in Eij, Eik. subst. contradiction.
    + apply Nat.eqb_eq in Eij. subst j. rewrite Hi in Hj. injection Hj as <-.
      apply Nat.eqb_neq in Eik.
      destruct (cs_after _ _ _ _ _ Hd Hcj) as [Hw [[Hcs0 _] | (Hpc & _ & Hm)]]; rewrite Hw.
      * apply (HB i k t tk); auto.
      * intros E. rewrite E in Hm. rewrite (HA _ _ Hk' Hck) in Hm. discriminate.
    + apply Nat.eqb_eq in Eik. subst k. rewrite Hi in Hk'. injection Hk' as <-.
      apply Nat.eqb_neq in Eij.
      destruct (cs_after _ _ _ _ _ Hd Hck) as [Hw [[Hcs0 _] | (Hpc & _ & Hm)]]; rewrite Hw.
      * apply (HB j i tj t); auto.
      * intros E. rewrite <- E in Hm. rewrite (HA _ _ Hj Hcj) in Hm. discriminate.
    + apply (HB j k tj tk); auto.
Qed.

Lemma new_thread_not_cs k c : in_cs (t_pc (new_thread k c)) = false.
Proof. reflexivity. Qed.

Lemma lock_inv_init f cfgs : lock_inv (init_state f cfgs).
Proof.
  split.
  - intros i t Hi Hcs. destruct (init_threads _ _ _ _ Hi) as (k & c & ->). discriminate.
  - intros i j ti tj _ Hi _ Hcs. destruct (init_threads _ _ _ _ Hi) as (k & c & ->). discriminate.
Qed.

Lemma lock_inv_spawn st c : lock_inv st -> lock_inv (spawn st c).
Proof.
  intros [HA HB]. split.
  - intros i t Hi Hcs. destruct (spawn_threads _ _ _ _ Hi) as [H | [_ ->]]; [|discriminate].
    exact (HA _ _ H Hcs).
  - intros i j ti tj Hij Hi Hj Hci Hcj.
    destruct (spawn_threads _ _ _ _ Hi) as [H1 | [_ ->]]; [|discriminate].
    destruct (spawn_threads _ _ _ _ Hj) as [H2 | [_ ->]]; [|discriminate].
    exact (HB _ _ _ _ Hij H1 H2 Hci Hcj).
Qed.

Theorem lock_inv_reach st : reach st -> lock_inv st.
Proof.
  induction 1.
  - apply lock_inv_init.
  - apply lock_inv_step. assumption.
  - apply lock_inv_spawn. assumption.
Qed.

(* ---------------------------------------------------------------- no request while the marker exists *)
Definition post_inv (st : state) : Prop :=
  forall i t, nth_error (s_ths st) i = Some t -> t_pc t = UPost ->
              d_mem (up_dir (s_fs st)) (marker_name (t_week t)) = false.

Lemma d_mem_remove_false {C} (d : dir C) n m : d_mem d m = false -> d_mem (d_remove d n) m = false.
Proof.
  intros H. destruct (d_mem (d_remove d n) m) eqn:E; auto.
  apply d_mem_remove_true in E. congruence.
Qed.

Lemma post_after f a t e t' :
  decide_all f a t = (e, t') -> t_pc t' = UPost ->
  t_week t' = t_week t /\ e = ENone /\
  ((t_pc t = UStat /\ d_mem (up_dir f) (marker_name (t_week t)) = false) \/ t_pc t = UPost).
Proof.
  intros H. destruct a; dinv H; adv; simpl; intros Hp; pcrw; dmatch Hp; try discriminate; auto.
Qed.

Lemma marker_kept (f : FS) e log w :
  d_mem (up_dir f) (marker_name w) = true ->
  (forall n, e = ERemUp n -> exists w', n = lock_name w') ->
  d_mem (up_dir (fst (apply_eff e f log))) (marker_name w) = true.
Proof.
  intros H Hr. rewrite up_apply. destruct e; auto.
  - rewrite d_mem_add, H. apply orb_true_r.
  - rewrite d_mem_put, H. apply orb_true_r.
  - destruct (Hr n eq_refl) as [w' ->]. rewrite d_mem_remove_other; auto. apply lock_ne_marker.
Qed.

Lemma remup_is_lock f a t e t' :
  decide_all f a t = (e, t') -> forall n, e = ERemUp n -> exists w', n = lock_name w'.
Proof. intros H n ->. destruct (eff_remup _ _ _ _ _ H) as [_ ->]. eauto. Qed.

Lemma post_inv_step st ia : lock_inv st -> post_inv st -> post_inv (step st ia).
Proof.
  intros [HA HB] HP. destruct ia as [i a].
  destruct (step_cases st i a) as [-> | (t & e & t' & Hi & Hk & Hd & ->)]; [auto|].
  intros j tj Hj Hpc. simpl in *. rewrite nth_error_upd in Hj.
  destruct (Nat.eqb i j) eqn:Eij.
  - apply Nat.eqb_eq in Eij. subst j. rewrite Hi in Hj. injection Hj as <-.
    destruct (post_after _ _ _ _ _ Hd Hpc) as (Hw & -> & [[_ Hm] | Hp]); rewrite Hw; simpl; auto.
    apply (HP _ _ Hi Hp).
  - apply Nat.eqb_neq in Eij. specialize (HP _ _ Hj Hpc). rewrite up_apply.
    destruct e; auto.
    + rewrite d_mem_add, HP, orb_false_r. apply beq_false_ne.
      destruct (eff_createlock _ _ _ _ _ Hd) as (_ & -> & _). apply lock_ne_marker.
    + rewrite d_mem_put, HP, orb_false_r. apply beq_false_ne.
      destruct (eff_putup _ _ _ _ _ _ Hd) as (Hp & -> & _). intros E. apply marker_name_inj in E.
      apply (HB i j t tj Eij Hi Hj); auto; [rewrite Hp|rewrite Hpc]; reflexivity.
    + apply d_mem_remove_false. exact HP.
Qed.

Lemma post_inv_reach st : reach st -> post_inv st.
Proof.
  induction 1.
  - intros i t Hi Hp. destruct (init_threads _ _ _ _ Hi) as (k & c & ->). discriminate.
  - apply post_inv_step; auto. apply lock_inv_reach. assumption.
  - intros i t Hi Hp. destruct (spawn_threads _ _ _ _ Hi) as [H1 | [_ ->]]; [|discriminate].
    apply (IHreach _ _ H1 Hp).
Qed.

(* markers are never removed *)
Lemma marker_persistent st ia w :
  d_mem (up_dir (s_fs st)) (marker_name w) = true ->
  d_mem (up_dir (s_fs (step st ia))) (marker_name w) = true.
Proof.
  intros H. destruct ia as [i a].
  destruct (step_cases st i a) as [-> | (t & e & t' & Hi & Hk & Hd & ->)]; [auto|].
  simpl. apply marker_kept; auto. apply (remup_is_lock _ _ _ _ _ Hd).
Qed.

(* the log grows only by a Post of a live thread parked at UPost *)
Lemma log_step st i a :
  s_log (step st (i, a)) = s_log st \/
  exists t o, nth_error (s_ths st) i = Some t /\ t_killed t = false /\ t_pc t = UPost /\ a = AStep o /\
              s_log (step st (i, a)) = s_log st ++ [mkAck (t_week t) (t_buf t) o (t_id t)] /\
              s_fs (step st (i, a)) = s_fs st.
Proof.
  destruct (step_cases st i a) as [-> | (t & e & t' & Hi & Hk & Hd & ->)]; [auto|].
  simpl. rewrite log_apply. destruct e; auto.
  destruct (eff_post _ _ _ _ _ Hd) as (o & -> & Hp & -> & _).
  right. exists t, o. repeat split; auto.
Qed.

Theorem no_resend_after_record st i a k :
  reach st -> s_log (step st (i, a)) = s_log st ++ [k] ->
  d_mem (up_dir (s_fs st)) (marker_name (a_week k)) = false.
Proof.
  intros Hr Hl. destruct (log_step st i a) as [E | (t & o & Hi & Hk & Hp & -> & E & _)].
  - rewrite E in Hl. exfalso. rewrite <- (app_nil_r (s_log st)) in Hl at 1.
    apply app_inv_head in Hl. discriminate.
  - rewrite E in Hl. apply app_inv_head in Hl. injection Hl as <-. simpl.
    apply (post_inv_reach _ Hr _ _ Hi Hp).
Qed.

(* ---------------------------------------------------------------- at most one acknowledgement per week *)
Definition at_wm (st : state) (w : bytes) : Prop :=
  exists i t, nth_error (s_ths st) i = Some t /\ t_pc t = UWriteMarker /\ t_week t = w.

Definition ack_inv (st : state) : Prop :=
  forall w, count200 w (s_log st) = 0 \/
            (count200 w (s_log st) = 1 /\
             (d_mem (up_dir (s_fs st)) (marker_name w) = true \/ at_wm st w)).

Lemma count200_app w l k :
  count200 w (l ++ [k]) = count200 w l + (if is200 k && beq (a_week k) w then 1 else 0).
Proof.
  unfold count200. rewrite filter_app, app_length. simpl.
  destruct (is200 k && beq (a_week k) w); reflexivity.
Qed.

Lemma wm_step f a t e t' :
  decide_all f a t = (e, t') -> t_pc t = UWriteMarker ->
  (t_pc t' = UWriteMarker /\ t_week t' = t_week t /\ e = ENone) \/
  e = EPutUp (marker_name (t_week t)) (t_buf t) \/ f_upload f = None.
Proof.
  intros H Hp. destruct a; dinv H; adv; simpl; try congruence; auto.
Qed.

Lemma ack_inv_step st ia : lock_inv st -> post_inv st -> ack_inv st -> ack_inv (step st ia).
Proof.
  intros [HA HB] HP HK. destruct ia as [i a].
  destruct (step_cases st i a) as [-> | (t & e & t' & Hi & Hk & Hd & ->)]; [auto|].
  unfold ack_inv, at_wm in *.
  intros w. simpl. rewrite log_apply.
  assert (Hkeep : d_mem (up_dir (s_fs st)) (marker_name w) = true ->
                  d_mem (up_dir (fst (apply_eff e (s_fs st) (s_log st)))) (marker_name w) = true).
  { intros H. apply marker_kept; auto. apply (remup_is_lock _ _ _ _ _ Hd). }
  destruct e.
  9: { (* EPost *)
    destruct (eff_post _ _ _ _ _ Hd) as (o & -> & Hp & -> & ->).
    rewrite count200_app. unfold is200. simpl.
    destruct (HK w) as [H0 | [H1 Hw]].
    - rewrite H0. simpl.
      destruct (match o with O200 => true | _ => false end && beq (t_week t) w) eqn:E; [|left; reflexivity].
      right. split; auto. right. apply andb_true_iff in E. destruct E as [Eo Ew].
      apply beq_eq in Ew. exists i, (set_pc t UWriteMarker). rewrite nth_error_upd, Nat.eqb_refl, Hi.
      destruct o; try discriminate. auto.
    - destruct (match o with O200 => true | _ => false end && beq (t_week t) w) eqn:E.
      + exfalso. apply andb_true_iff in E. destruct E as [_ Ew]. apply beq_eq in Ew. subst w.
        destruct Hw as [Hm | (j & tj & Hj & Hpj & Hwj)].
        * rewrite (HP _ _ Hi Hp) in Hm. discriminate.
        * destruct (Nat.eq_dec i j) as [-> | Hij].
          -- rewrite Hi in Hj. injection Hj as <-. congruence.
          -- apply (HB i j t tj Hij Hi Hj); auto; [rewrite Hp|rewrite Hpj]; reflexivity.
      + right. rewrite H1. split; [reflexivity|].
        destruct Hw as [Hm | (j & tj & Hj & Hpj & Hwj)]; [left; exact Hm|].
        right. exists j, tj. rewrite nth_error_upd.
        destruct (Nat.eqb i j) eqn:Eij; auto.
        apply Nat.eqb_eq in Eij. subst j. rewrite Hi in Hj. injection Hj as <-. congruence. }
  all: destruct (HK w) as [H0 | [H1 Hw]]; [left; exact H0|right; split; [exact H1|]].
  all: destruct Hw as [Hm | (j & tj & Hj & Hpj & Hwj)]; [left; apply Hkeep; exact Hm|].
  all: destruct (Nat.eq_dec i j) as [<- | Hij];
    [| right; exists j, tj; rewrite nth_error_upd; apply Nat.eqb_neq in Hij; rewrite Hij; auto].
  all: rewrite Hi in Hj; injection Hj as <-.
  all: destruct (wm_step _ _ _ _ _ Hd Hpj) as [(Hp' & Hw' & He) | [He | Hn]]; try discriminate.
  all: try (right; exists i, t'; rewrite nth_error_upd, Nat.eqb_refl, Hi; repeat split; auto; congruence).
  (* no upload directory: impossible while the lock file exists *)
  all: try (exfalso; assert (Hl := HA _ _ Hi); rewrite Hpj in Hl; specialize (Hl eq_refl);
            unfold up_dir in Hl; rewrite Hn in Hl; discriminate).
  (* EPutUp: the marker is written *)
  injection He as -> ->. left. rewrite up_apply, d_mem_put, Hwj, beq_refl. reflexivity.
Qed.

Lemma ack_inv_reach st : reach st -> ack_inv st.
Proof.
  induction 1.
  - intros w. left. reflexivity.
  - apply ack_inv_step; auto using lock_inv_reach, post_inv_reach.
  - intros w. destruct (IHreach w) as [H0 | [H1 Hw]]; [left; exact H0|right; split; [exact H1|]].
    destruct Hw as [Hm | (j & tj & Hj & Hp & Hw)]; [left; exact Hm|].
    right. exists j, tj. split; [apply spawn_old; exact Hj|auto].
Qed.

Theorem acked_at_most_once st w : reach st -> count200 w (s_log st) <= 1.
Proof. intros H. destruct (ack_inv_reach _ H w) as [-> | [-> _]]; lia. Qed.

Theorem no_two_bodies st a1 a2 :
  reach st -> In a1 (s_log st) -> In a2 (s_log st) ->
  is200 a1 = true -> is200 a2 = true -> a_week a1 = a_week a2 -> a_body a1 = a_body a2.
Proof.
  intros Hr H1 H2 Ho1 Ho2 Hw.
  destruct (ack_inv_reach _ Hr (a_week a1)) as [H0 | [Hc _]].
  - unfold count200 in H0. apply length_zero_iff_nil in H0.
    assert (In a1 (filter (fun a => is200 a && beq (a_week a) (a_week a1)) (s_log st))).
    { apply filter_In. split; auto. rewrite Ho1, beq_refl. reflexivity. }
    rewrite H0 in H. contradiction.
  - unfold count200 in Hc.
    set (l := filter (fun a => is200 a && beq (a_week a) (a_week a1)) (s_log st)) in *.
    assert (I1 : In a1 l) by (apply filter_In; split; auto; rewrite Ho1, beq_refl; reflexivity).
    assert (I2 : In a2 l) by (apply filter_In; split; auto; rewrite Ho2, Hw, beq_refl; reflexivity).
    destruct l as [|x [|y l']]; simpl in Hc; try discriminate.
    destruct I1 as [<-|[]]. destruct I2 as [<-|[]]. reflexivity.
Qed.
