(* Proofs/UploaderDates: week strings are digits and dashes; when they are
   ten bytes long (years 0..9999: Proofs/CalendarFacts.date_roundtrip, used by
   C09, proves length (fmt_date day) = 10 for -719528 <= day < 2932897; it is
   not imported here to keep this closure's coqchk short), the name of another
   week's ready report never contains a given week as a substring: the
   premise P2 of one_report_per_week holds for real dates. *)
From Coq Require Import List ZArith NArith Bool Lia Arith.
From Tele Require Import Lib.Bytes Lib.Calendar Lib.FS Model.Span Model.Uploader
  Proofs.FSFacts Proofs.UploaderBase Proofs.UploaderNames Proofs.UploaderSeq.
Import ListNotations.
Open Scope nat_scope.

Definition date_char (c : N) : Prop := is_digit c = true \/ c = 45%N.

Lemma dec_digits_digit fuel : forall n acc, Forall date_char acc -> Forall date_char (dec_digits fuel n acc).
Proof.
  induction fuel as [|f IH]; intros n acc H; cbn [dec_digits]; auto.
  destruct (N.ltb_spec n 10).
  - constructor; auto. left. unfold is_digit. apply andb_true_iff. split; apply N.leb_le; lia.
  - apply IH. constructor; auto. left. unfold is_digit.
    assert (Hm : (n mod 10 < 10)%N) by (apply N.mod_lt; lia).
    set (r := (n mod 10)%N) in *. clearbody r.
    apply andb_true_iff. split; apply N.leb_le; lia.
Qed.

Lemma pad_left_aux_digit k s : Forall date_char s -> Forall date_char (pad_left_aux k s).
Proof.
  induction k; cbn [pad_left_aux]; auto. intros H. constructor; auto. left. reflexivity.
Qed.

Lemma dec_pad_digit w n : Forall date_char (dec_pad w n).
Proof. unfold dec_pad, pad_left. apply pad_left_aux_digit. apply dec_digits_digit. constructor. Qed.

Lemma fmt_date_chars day : Forall date_char (fmt_date day).
Proof.
  unfold fmt_date. destruct (civil_from_days day) as [[y m] d]. unfold fmt_ymd.
  repeat (apply Forall_app; split); try apply dec_pad_digit;
    (constructor; [right; reflexivity|constructor]).
Qed.

(* the week string of end instant e has the ten bytes of a date of the years 0..9999 *)
Definition in_range (e : Z) : Prop := length (uploader_week e) = 10.

Lemma week_length e : in_range e -> length (uploader_week e) = 10.
Proof. intros H. exact H. Qed.

Lemma contains_spec (s p : bytes) : contains s p = true -> exists a b, s = a ++ p ++ b.
Proof.
  unfold contains. induction s as [|x s IH]; simpl.
  - destruct (has_prefix [] p) eqn:E; [|discriminate]. intros _.
    apply has_prefix_app in E. destruct E as [t E]. exists [], t. exact E.
  - destruct (has_prefix (x :: s) p) eqn:E.
    + intros _. apply has_prefix_app in E. destruct E as [t E]. exists [], t. exact E.
    + destruct (index_sub s p) eqn:Ei; [|discriminate]. intros _.
      destruct IH as (a & b & ->); [reflexivity|]. exists (x :: a), b. reflexivity.
Qed.

Lemma app_eq_len {A} (a b c d : list A) : length a = length c -> a ++ b = c ++ d -> a = c.
Proof.
  revert c. induction a as [|x a IH]; intros [|y c] Hl H; simpl in *; try discriminate; auto.
  injection H as -> H. f_equal. apply IH; auto.
Qed.

Lemma nth_date_char (w : bytes) k : Forall date_char w -> k < length w -> date_char (nth k w 0%N).
Proof.
  intros H. revert k. induction H as [|x w Hx H IH]; intros [|k] Hk; simpl in *; try lia; auto.
  apply IH. lia.
Qed.

Lemma clean_abstract (w w' : bytes) :
  length w = 10 -> length w' = 10 -> Forall date_char w -> w' <> w ->
  contains (w' ++ sfx_json) w = false.
Proof.
  intros L L' Hch Hne.
  destruct (contains (w' ++ sfx_json) w) eqn:Ec; auto. exfalso.
  apply contains_spec in Ec. destruct Ec as (a & b & E).
  assert (Hlen : length (w' ++ sfx_json) = length (a ++ w ++ b)) by (rewrite E; reflexivity).
  rewrite !app_length, L, L' in Hlen. change (length sfx_json) with 5 in Hlen.
  destruct a as [|x a].
  - apply Hne. apply (app_eq_len _ sfx_json _ b); [lia|exact E].
  - (* byte 10 of the name is '.', but it lies inside the week string *)
    pose proof (f_equal (fun l => nth 10 l 0%N) E) as N10. cbv beta in N10.
    rewrite app_nth2 in N10 by lia. rewrite L' in N10. change (nth (10 - 10) sfx_json 0%N) with 46%N in N10.
    rewrite app_nth2 in N10 by (cbn [length] in *; lia).
    rewrite app_nth1 in N10 by (cbn [length] in *; lia).
    assert (Hd : date_char (nth (10 - length (x :: a)) w 0%N)).
    { apply nth_date_char; [exact Hch|cbn [length] in *; lia]. }
    rewrite <- N10 in Hd. destruct Hd as [Hd | Hd]; discriminate.
Qed.

Theorem other_week_name_clean e e' :
  in_range e -> in_range e' -> uploader_week e' <> uploader_week e ->
  contains (ready_name (uploader_week e')) (uploader_week e) = false.
Proof.
  intros Hr Hr' Hne. unfold ready_name.
  apply clean_abstract; auto using week_length. apply fmt_date_chars.
Qed.

(* one_report_per_week for directories whose count files carry end times of
   the years 0..9999: the substring premise is discharged *)
Theorem one_report_per_week_dates (f : FS) (c : ucfg) (e0 : Z) :
  let W := uploader_week e0 in
  fs_wf f -> in_range e0 ->
  (forall n id ct cf, d_find (f_local f) n = Some (id, ct) -> parse ct = Some cf -> in_range (cf_end cf)) ->
  d_mem (f_local f) (local_name W) = false ->
  d_mem (f_local f) (ready_name W) = false ->
  d_mem (up_dir f) (marker_name W) = false ->
  (forall g, d_mem (f_local f) g = true -> collect_ready c g = true -> contains g W = false) ->
  (forall n cf, wfile f W n cf -> before_start (cf_end cf) (u_start c) = true) ->
  (exists n cf, wfile f W n cf /\ cf_counts cf <> []) ->
  forall sched t, s_ths (run sched (init_state f [c])) = [t] -> t_pc t = Done ->
  exists id r,
    d_find (f_local (s_fs (run sched (init_state f [c])))) (local_name W) = Some (id, CRep (Some r)) /\
    r_week r = W /\ r_up r = false /\ forall n cf, In (n, cf) (r_files r) <-> wfile f W n cf.
Proof.
  intros W Hwf Hr0 Hrange P1a P1b P1c P1d Hall Hne sched t Hths Hp.
  apply (one_report_per_week f c W Hwf P1a P1b P1c P1d) with (t := t); auto.
  intros n id ct cf Hf Hpa Hw. apply other_week_name_clean; auto. eapply Hrange; eauto.
Qed.
