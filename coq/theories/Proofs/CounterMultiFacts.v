(* Facts about Model/CounterMulti: every step of the multi-counter system,
   seen from any one counter k, is a stutter, ONE step of Model/CounterConc,
   or one of two extra transitions of a changer thread (the registrar takes on
   its redo obligation; a changer drops its invalidate+refresh of a counter
   that is not on the list it loaded) - hence the single-counter invariant
   holds of every counter's view along every multi run. *)
From Coq Require Import List ZArith NArith Bool Arith Lia.
From Tele Require Import Gen.Consts Model.CounterConc Model.CounterMulti Proofs.CounterWord Proofs.CounterInv.
Import ListNotations.
Open Scope Z_scope.

(* ---- lists ---- *)
Lemma nth_upd_same {A} (l : list A) c x d : (c < length l)%nat -> nth c (upd l c x) d = x.
Proof. revert c; induction l as [|y l IH]; intros [|c] H; cbn in *; try lia; auto. apply IH; lia. Qed.
Lemma nth_upd_other {A} (l : list A) c k x d : k <> c -> nth k (upd l c x) d = nth k l d.
Proof. revert c k; induction l as [|y l IH]; intros [|c] [|k] H; cbn; auto; try congruence. Qed.
Lemma upd_len {A} (l : list A) c x : length (upd l c x) = length l.
Proof. revert c; induction l as [|y l IH]; intros [|c]; cbn; auto. Qed.

Lemma nth_mapi_from {A} (f : nat -> A -> A) d : (forall j, f j d = d) ->
  forall l i k, nth k (mapi_from f i l) d = f (i + k)%nat (nth k l d).
Proof.
  intros Hd. induction l as [|x l IH]; intros i k; cbn.
  - destruct k; rewrite Hd; reflexivity.
  - destruct k; [rewrite Nat.add_0_r; reflexivity|]. rewrite IH. f_equal. lia.
Qed.
Lemma nth_mapi {A} (f : nat -> A -> A) d l k : (forall j, f j d = d) -> nth k (mapi f l) d = f k (nth k l d).
Proof. intros Hd. unfold mapi. rewrite (nth_mapi_from f d Hd). reflexivity. Qed.
Lemma mapi_from_len {A B} (f : nat -> A -> B) l : forall i, length (mapi_from f i l) = length l.
Proof. induction l; intros; cbn; auto. Qed.

Lemma alli_from_nth {A} (f : nat -> A -> bool) d l : forall i k, alli_from f i l = true -> (k < length l)%nat ->
  f (i + k)%nat (nth k l d) = true.
Proof.
  induction l as [|x l IH]; intros i k H Hk; cbn in *; [lia|].
  apply andb_true_iff in H as [H1 H2]. destruct k; [rewrite Nat.add_0_r; exact H1|].
  replace (i + S k)%nat with (S i + k)%nat by lia. apply IH; [exact H2 | lia].
Qed.
Lemma alli_nth {A} (f : nat -> A -> bool) d l k : alli f l = true -> (k < length l)%nat -> f k (nth k l d) = true.
Proof. intros H Hk. exact (alli_from_nth f d l 0 k H Hk). Qed.
Lemma forallb_nth {A} (f : A -> bool) d l k : forallb f l = true -> (k < length l)%nat -> f (nth k l d) = true.
Proof. intros H Hk. rewrite forallb_forall in H. apply H. apply nth_In. exact Hk. Qed.

Lemma pc_is_eq p q : pc_is p q = true -> p = q.
Proof. destruct p, q; cbn; intros H; try discriminate; reflexivity. Qed.
Lemma onat_eqb_eq a b : onat_eqb a b = true -> a = b.
Proof. destruct a, b; cbn; intros H; try discriminate; auto. apply Nat.eqb_eq in H. congruence. Qed.
Lemma tgt_eqb_eq a b : tgt_eqb a b = true -> a = b.
Proof. destruct a, b; cbn; intros H; try discriminate; reflexivity. Qed.

(* ---- projections ---- *)
Definition file_part (s : shared) := (s_cur s, s_maps s, s_closed s, s_full s, s_tight s).

Lemma shared_eta s : mkS (s_word s) (s_ptr s) (s_cur s) (s_maps s) (s_closed s) (s_cells s) (s_faults s) (s_sat s) (s_full s) (s_new s) (s_tight s) = s.
Proof. destruct s; reflexivity. Qed.

Lemma proj_inj_same c ms s : (c < length (ms_ctrs ms))%nat -> proj c (inj c ms s) = s.
Proof.
  intros H. unfold proj, inj, getc. cbn [ms_ctrs ms_cur ms_maps ms_closed ms_full ms_tight].
  rewrite nth_upd_same by exact H. cbn. apply shared_eta.
Qed.
Lemma proj_inj_other c k ms s : k <> c -> file_part s = file_part (proj c ms) -> proj k (inj c ms s) = proj k ms.
Proof.
  intros H F. unfold file_part in F. cbn in F. injection F as F1 F2 F3 F4 F5.
  unfold proj, inj, getc. cbn [ms_ctrs ms_cur ms_maps ms_closed ms_full ms_tight].
  rewrite nth_upd_other by exact H. congruence.
Qed.
Lemma proj_set_chk k ms b : proj k (set_chk ms b) = proj k ms. Proof. reflexivity. Qed.
Lemma proj_set_bad k ms b : proj k (set_bad ms b) = proj k ms. Proof. reflexivity. Qed.
Lemma proj_set_list k ms l : proj k (set_list ms l) = proj k ms. Proof. reflexivity. Qed.
Lemma proj_set_claimed k ms c : proj k (set_claimed ms c) = proj k ms. Proof. reflexivity. Qed.

(* ---- what a CounterConc step does to the file part ---- *)
Lemma step_file_part np s u s' u' : step_thread np s u = (s', u') ->
  t_pc u <> CStore -> t_pc u <> CClose -> t_pc u <> GClose -> t_pc u <> LLook2 ->
  file_part s' = file_part s.
Proof.
  intros H N1 N2 N3 N4. unfold step_thread in H. destruct (t_pc u) eqn:Hpc; try congruence;
  repeat match type of H with
         | (if ?c then _ else _) = _ => destruct c
         | match ?c with Some _ => _ | None => _ end = _ => destruct c
         | match ?c with O => _ | S _ => _ end = _ => destruct c
         | (let w' := _ in _) = _ => cbv zeta in H
         end; try (injection H as <- <-; reflexivity).
Qed.

Lemma step_idle np s u : t_pc u = AIdle \/ t_pc u = CIdle -> fst (step_thread np s u) = s.
Proof. intros [H|H]; unfold step_thread; rewrite H; reflexivity. Qed.

Lemma step_store_new s u : t_pc u = CStore -> t_tgt u = NewFile \/ t_tgt u = FullFile ->
  fst (step_thread np0 s u) =
  mkS (s_word s) (s_ptr s) (Some (length (s_maps s))) (s_maps s ++ [length (s_cells s)]) (s_closed s) (s_cells s ++ [0])
      (s_faults s) (s_sat s) (tgt_eqb (t_tgt u) FullFile) (s_new s) (tgt_eqb (t_tgt u) FullFile).
Proof. intros H [T|T]; unfold step_thread; rewrite H, T; reflexivity. Qed.

Lemma step_store_same s u g0 : t_pc u = CStore -> t_tgt u = SameFile -> s_cur s = Some g0 -> s_tight s = true ->
  fst (step_thread np0 s u) =
  mkS (s_word s) (s_ptr s) (Some (length (s_maps s))) (s_maps s ++ [file_of s g0]) (s_closed s) (s_cells s)
      (s_faults s) (s_sat s) false (s_new s) false.
Proof. intros H T C G. unfold step_thread. rewrite H, T, C, G. reflexivity. Qed.

Lemma step_cclose np s u g : t_pc u = CClose -> t_prev u = Some g ->
  fst (step_thread np s u) =
  mkS (s_word s) (s_ptr s) (s_cur s) (s_maps s) (g :: s_closed s) (s_cells s) (s_faults s) (s_sat s) (s_full s) (s_new s) (s_tight s).
Proof. intros H P. unfold step_thread. rewrite H, P. reflexivity. Qed.

Lemma step_gclose np s u g : t_pc u = GClose -> t_prev2 u = Some g ->
  file_part (fst (step_thread np s u)) = (s_cur s, s_maps s, g :: s_closed s, s_full s, s_tight s).
Proof. intros H P. unfold step_thread. rewrite H, P. reflexivity. Qed.

(* the lookup under f.mu: either it leaves the file alone, or it is the
   extension (then the thread goes on with the cleanup: GIvLoad) *)
Lemma step_llook2 np s u s' u' : step_thread np s u = (s', u') -> t_pc u = LLook2 ->
  (file_part s' = file_part s /\ t_pc u' = LCas) \/
  (exists g0, s_cur s = Some g0 /\ s_full s = true /\ t_pc u' = GIvLoad /\
     file_part s' = (Some (length (s_maps s)), s_maps s ++ [file_of s g0], s_closed s, false, false)).
Proof.
  intros H Hpc. unfold step_thread in H. rewrite Hpc in H.
  destruct (s_cur s) as [g0|] eqn:Ec; [|injection H as <- <-; left; split; reflexivity].
  destruct (t_prev2 u); [injection H as <- <-; left; split; reflexivity|].
  destruct (s_full s) eqn:Ef; injection H as <- <-; [|left; split; reflexivity].
  right. exists g0. repeat split; reflexivity.
Qed.

(* ---- one multi thread, seen from counter k ---- *)
Definition ridx (r : role) : nat := match r with RMain => 0 | RNest => 1 | RRedo => 2 end.

Inductive lstep (k : nat) (ms : mshared) (t : mthread) (ms' : mshared) (t' : mthread) : Prop :=
  | L_stutter : proj k ms' = proj k ms -> tproj k t' = tproj k t -> lstep k ms t ms' t'
  | L_step (r : nat) (u : thread) : nth_error (tproj k t) r = Some u ->
      fst (step_thread np0 (proj k ms) u) = proj k ms' ->
      tproj k t' = upd (tproj k t) r (snd (step_thread np0 (proj k ms) u)) -> lstep k ms t ms' t'
  | L_redo (r : nat) (u : thread) : proj k ms' = proj k ms -> nth_error (tproj k t) r = Some u ->
      t_pc u = CIdle -> tproj k t' = upd (tproj k t) r (with_pc u IvLoad) -> lstep k ms t ms' t'
  | L_skip (r : nat) (u : thread) : proj k ms' = proj k ms -> nth_error (tproj k t) r = Some u ->
      t_pc u = IvLoad -> memn k (ms_list ms) = false ->
      tproj k t' = upd (tproj k t) r (to_close u) -> lstep k ms t ms' t'.

Lemma thr_step_dflt ms j : thr_step ms j dflt = dflt. Proof. reflexivity. Qed.
Lemma skip_dflt : skip_thread dflt = dflt. Proof. reflexivity. Qed.

Definition rc_len (t : mthread) (r : role) (c : nat) : Prop :=
  match r with
  | RMain => (c < length (m_main t))%nat
  | RNest => (c < length (m_nest t))%nat
  | RRedo => m_isadd t = true /\ c = m_k t
  end.

Lemma tproj_sett_same t r c u : rc_len t r c ->
  nth_error (tproj c t) (ridx r) = Some (gett t r c) /\ tproj c (sett t r c u) = upd (tproj c t) (ridx r) u.
Proof.
  destruct r; cbn [rc_len ridx gett sett]; intros H; unfold tproj; cbn.
  - rewrite nth_upd_same by exact H. split; reflexivity.
  - rewrite nth_upd_same by exact H. split; reflexivity.
  - destruct H as [Ha ->]. rewrite Ha, Nat.eqb_refl. cbn. split; reflexivity.
Qed.

Lemma tproj_sett_other k t r c u : k <> c -> (r = RRedo -> c = m_k t) -> tproj k (sett t r c u) = tproj k t.
Proof.
  intros Hk Hr. destruct r; cbn [sett]; unfold tproj; cbn.
  - rewrite nth_upd_other by exact Hk. reflexivity.
  - rewrite nth_upd_other by exact Hk. reflexivity.
  - rewrite <- (Hr eq_refl). apply Nat.eqb_neq in Hk. rewrite Hk, andb_false_r. reflexivity.
Qed.

Lemma rc_ok_len ms t r c : lens_ok ms t = true -> rc_ok ms t r c = true ->
  (c < length (ms_ctrs ms))%nat /\ rc_len t r c /\ (r = RRedo -> c = m_k t).
Proof.
  unfold lens_ok, rc_ok. intros L H. apply andb_true_iff in L as [L1 L2]. apply andb_true_iff in H as [H1 H2].
  apply Nat.eqb_eq in L1, L2. apply Nat.ltb_lt in H1. split; [exact H1|].
  destruct r; cbn [rc_len]; (split; [|intros; try discriminate]); try lia.
  - apply andb_true_iff in H2 as [A B]. apply Nat.eqb_eq in B. auto.
  - apply andb_true_iff in H2 as [A B]. apply Nat.eqb_eq in B. auto.
Qed.

Lemma tproj_advance k t : tproj k (advance t) = tproj k t.
Proof.
  unfold advance, after_walk. destruct (m_walks t) as [|w ws]; [reflexivity|].
  destruct (w_rest w); [|reflexivity]. destruct (w_ph w); [destruct (w_snap w)|]; try reflexivity;
  destruct (w_own w); try reflexivity; destruct (m_prev t); reflexivity.
Qed.

Ltac chk_split H :=
  cbn [ms_chk set_chk] in H; apply orb_false_iff in H;
  let A := fresh "CK" in let B := fresh "CB" in pose proof (proj1 H) as A; pose proof (proj2 H) as B.

Lemma proj_inj_other_fp c k ms s : k <> c ->
  proj k (inj c ms s) =
  mkS (s_word (proj k ms)) (s_ptr (proj k ms)) (s_cur s) (s_maps s) (s_closed s) (s_cells (proj k ms))
      (s_faults (proj k ms)) (s_sat (proj k ms)) (s_full s) (s_new (proj k ms)) (s_tight s).
Proof.
  intros H. unfold proj, inj, getc. cbn [ms_ctrs ms_cur ms_maps ms_closed ms_full ms_tight].
  rewrite nth_upd_other by exact H. reflexivity.
Qed.

(* the nest threads of the other counters step; the own counter's entry stays *)
Definition nest_others (ms : mshared) (c : nat) (t : mthread) : mthread :=
  with_nest t (mapi (fun j v => if Nat.eqb j c then v else thr_step ms j v) (m_nest t)).
Lemma nest_others_same ms c t r : 
  tproj c (nest_others ms c t) = tproj c t /\ gett (nest_others ms c t) r c = gett t r c /\
  (rc_len t r c -> rc_len (nest_others ms c t) r c).
Proof.
  unfold nest_others, tproj. cbn.
  assert (E : nth c (mapi (fun j v => if Nat.eqb j c then v else thr_step ms j v) (m_nest t)) dflt = nth c (m_nest t) dflt).
  { rewrite nth_mapi by (intros j; destruct (Nat.eqb j c); reflexivity). rewrite Nat.eqb_refl. reflexivity. }
  rewrite E. split; [reflexivity|]. split.
  - destruct r; cbn; auto.
  - destruct r; cbn; auto. unfold mapi. rewrite mapi_from_len. auto.
Qed.
Lemma nest_others_other ms c t k : k <> c ->
  tproj k (nest_others ms c t) = upd (tproj k t) 1 (thr_step ms k (nth k (m_nest t) dflt)).
Proof.
  intros H. unfold nest_others, tproj. cbn.
  rewrite nth_mapi by (intros j; destruct (Nat.eqb j c); reflexivity).
  apply Nat.eqb_neq in H. rewrite H. reflexivity.
Qed.

Lemma lstep_tproj_eq k ms t ms' t1 t2 : lstep k ms t ms' t1 -> tproj k t2 = tproj k t1 -> lstep k ms t ms' t2.
Proof.
  intros L E. destruct L.
  - apply L_stutter; congruence.
  - eapply L_step; eauto; congruence.
  - eapply L_redo; eauto; congruence.
  - eapply L_skip; eauto; congruence.
Qed.

Section OneThread.
Variables (k : nat) (ms : mshared) (t : mthread) (ms' : mshared) (t' : mthread).
Hypothesis Hk : (k < length (ms_ctrs ms))%nat.
Hypothesis Hlen : lens_ok ms t = true.
Hypothesis Hfoc : focus_ok ms t = true.
Hypothesis Hstep : mstep_core ms t = (ms', t').
Hypothesis Hchk : ms_chk ms' = false.
Hypothesis Hbad : ms_bad ms' = false.

Lemma core_simple : match m_pc t with
  | MRTest | MRHead | MRLink | MRDbgNext | MRDbgFail | MRDbgOk | MReload | MNext | MDone => True | _ => False end ->
  lstep k ms t ms' t'.
Proof.
  intros Hp. unfold mstep_core in Hstep. destruct (m_pc t) eqn:Hpc; try contradiction.
  - destruct (claimed ms (m_k t)); injection Hstep as <- <-; apply L_stutter; reflexivity.
  - injection Hstep as <- <-; apply L_stutter; reflexivity.
  - destruct (onat_eqb _ _); injection Hstep as <- <-; apply L_stutter; reflexivity.
  - injection Hstep as <- <-; apply L_stutter; reflexivity.
  - injection Hstep as <- <-; apply L_stutter; reflexivity.
  - injection Hstep as <- <-; apply L_stutter; reflexivity.
  - injection Hstep as <- <-; apply L_stutter; reflexivity.
  - injection Hstep as <- <-; apply L_stutter; [reflexivity | apply tproj_advance].
  - injection Hstep as <- <-; apply L_stutter; reflexivity.
Qed.

(* file.register's claim of c.next: the registrar takes on the redo *)
Lemma core_rnext : m_pc t = MRNext -> lstep k ms t ms' t'.
Proof.
  intros Hpc. unfold mstep_core in Hstep. rewrite Hpc in Hstep.
  destruct (m_wrote t); [injection Hstep as <- <-; apply L_stutter; reflexivity|].
  destruct (claimed ms (m_k t)); [injection Hstep as <- <-; apply L_stutter; reflexivity|].
  injection Hstep as <- <-. chk_split Hchk. apply negb_false_iff in CB. apply pc_is_eq in CB.
  destruct (m_isadd t && Nat.eqb k (m_k t)) eqn:E.
  - apply (L_redo _ _ _ _ _ 2%nat (m_redo t)); [reflexivity| | exact CB|]; unfold tproj; cbn; rewrite E; reflexivity.
  - apply L_stutter; [reflexivity|]. unfold tproj; cbn; rewrite E; reflexivity.
Qed.

(* a call begins *)
Lemma core_idle : m_pc t = MIdle -> lstep k ms t ms' t'.
Proof.
  intros Hpc. unfold mstep_core in Hstep. rewrite Hpc in Hstep.
  unfold lens_ok in Hlen. apply andb_true_iff in Hlen as [L1 L2]. apply Nat.eqb_eq in L1, L2.
  destruct (m_isadd t) eqn:Ea; injection Hstep as <- <-; chk_split Hchk; apply negb_false_iff in CB.
  - apply pc_is_eq in CB. destruct (Nat.eq_dec k (m_k t)) as [->|Ne].
    + destruct (tproj_sett_same t RMain (m_k t) (thr_step ms (m_k t) (gett t RMain (m_k t)))) as [A B]; [cbn; lia|].
      apply (L_step _ _ _ _ _ 0%nat (gett t RMain (m_k t))); [exact A | | exact B].
      rewrite step_idle by (left; exact CB). reflexivity.
    + apply L_stutter; [reflexivity|]. apply (tproj_sett_other k t RMain (m_k t)); [exact Ne | discriminate].
  - apply (L_step _ _ _ _ _ 0%nat (nth k (m_main t) dflt)); [reflexivity | |].
    + rewrite step_idle; [reflexivity|]. right. apply pc_is_eq. apply (forallb_nth _ dflt _ k CB). lia.
    + unfold tproj. cbn. rewrite nth_mapi by (intros; reflexivity). rewrite Ea. reflexivity.
Qed.

(* rotate1's critical section: every counter sees the store of the new mapping *)
Lemma core_store : m_pc t = MStore -> lstep k ms t ms' t'.
Proof.
  intros Hpc. unfold mstep_core in Hstep. rewrite Hpc in Hstep.
  unfold lens_ok in Hlen. apply andb_true_iff in Hlen as [L1 L2]. apply Nat.eqb_eq in L1, L2.
  injection Hstep as <- <-. chk_split Hchk. apply negb_false_iff in CB.
  apply andb_true_iff in CB as [CB C4]. apply andb_true_iff in CB as [CB C3]. apply andb_true_iff in CB as [C1 C2].
  pose proof (forallb_nth _ dflt _ k C1 ltac:(lia)) as U. cbv beta in U. apply andb_true_iff in U as [U1 U2].
  apply pc_is_eq in U1. apply tgt_eqb_eq in U2.
  pose proof (forallb_nth _ ctr0 _ k C3 Hk) as N. cbv beta in N. apply Nat.eqb_eq in N.
  apply (L_step _ _ _ _ _ 0%nat (nth k (m_main t) dflt)); [reflexivity | |].
  - rewrite step_store_new; [|exact U1|rewrite U2; destruct (m_tgt t); try discriminate; auto].
    unfold proj, store_new, getc. cbn [ms_ctrs ms_cur ms_maps ms_closed ms_full ms_tight set_chk s_word s_ptr s_maps s_cells s_closed s_faults s_sat s_new].
    match goal with |- context [nth k (map ?g _) ctr0] =>
      rewrite (nth_indep (map g (ms_ctrs ms)) ctr0 (g ctr0)) by (rewrite map_length; exact Hk); rewrite (map_nth g) end.
    cbn [c_word c_ptr c_cells c_faults c_sat c_new]. fold (getc ms k).
    unfold getc in N |- *. rewrite N, U2. destruct (m_tgt t); try discriminate; reflexivity.
  - unfold tproj. cbn. rewrite nth_mapi by (intros; reflexivity). reflexivity.
Qed.

(* invalidateCounters loads the head of the list: counters that are not on it
   are dropped from this walk *)
Lemma core_head : m_pc t = MHead -> lstep k ms t ms' t'.
Proof.
  intros Hpc. unfold mstep_core in Hstep. rewrite Hpc in Hstep.
  unfold lens_ok in Hlen. apply andb_true_iff in Hlen as [L1 L2]. apply Nat.eqb_eq in L1, L2.
  destruct (m_walks t) as [|w ws] eqn:Ew.
  { injection Hstep as <- <-. pose proof Hchk as C. cbn in C. rewrite orb_true_r in C. discriminate. }
  cbv zeta in Hstep. injection Hstep as <- <-.
  pose proof Hbad as B. pose proof Hchk as C. cbn [ms_bad set_bad ms_chk set_chk] in B, C.
  apply orb_false_iff in B as [_ Hunl]. apply orb_false_iff in C as [_ Hok]. apply negb_false_iff in Hok.
  destruct (w_own w) as [[r c]|] eqn:Eo.
  - (* nested walk: the SameFile changers the other counters see *)
    apply negb_false_iff in Hunl. rewrite Hunl.
    pose proof (alli_nth _ dflt _ k Hok ltac:(lia)) as Q. cbv beta in Q.
    destruct (memn k (ms_list ms) || is_own w k) eqn:E.
    + apply L_stutter; [reflexivity|]. rewrite tproj_advance. unfold tproj. cbn. rewrite nth_mapi by (intros j; match goal with |- (if ?c then _ else _) = _ => destruct c end; reflexivity).
      rewrite E. reflexivity.
    + cbn [andb] in Q. try rewrite E in Q. cbn [orb] in Q. apply pc_is_eq in Q.
      apply orb_false_iff in E as [E1 E2].
      apply (L_skip _ _ _ _ _ 1%nat (nth k (m_nest t) dflt)); [reflexivity|reflexivity|exact Q|exact E1|].
      rewrite tproj_advance. unfold tproj. cbn. rewrite nth_mapi by (intros j; match goal with |- (if ?c then _ else _) = _ => destruct c end; reflexivity).
      rewrite E1, E2. reflexivity.
  - pose proof (alli_nth _ dflt _ k Hok ltac:(lia)) as Q. cbv beta in Q.
    destruct (memn k (ms_list ms)) eqn:E.
    + apply L_stutter; [reflexivity|]. rewrite tproj_advance. unfold tproj. cbn. rewrite nth_mapi by (intros j; match goal with |- (if ?c then _ else _) = _ => destruct c end; reflexivity).
      rewrite E. reflexivity.
    + cbn [orb andb] in Q. apply pc_is_eq in Q.
      apply (L_skip _ _ _ _ _ 0%nat (nth k (m_main t) dflt)); [reflexivity|reflexivity|exact Q|exact E|].
      rewrite tproj_advance. unfold tproj. cbn. rewrite nth_mapi by (intros j; match goal with |- (if ?c then _ else _) = _ => destruct c end; reflexivity).
      rewrite E. reflexivity.
Qed.

(* the close after a walk *)
Lemma core_close : m_pc t = MClose -> lstep k ms t ms' t'.
Proof.
  intros Hpc. unfold mstep_core in Hstep. rewrite Hpc in Hstep.
  pose proof Hlen as Hlen'. unfold lens_ok in Hlen'. apply andb_true_iff in Hlen' as [L1 L2]. apply Nat.eqb_eq in L1, L2.
  unfold focus_ok in Hfoc. rewrite Hpc in Hfoc.
  destruct (m_walks t) as [|w ws] eqn:Ew.
  { injection Hstep as <- <-. pose proof Hchk as C. cbn in C. rewrite orb_true_r in C. discriminate. }
  destruct (w_own w) as [[r c]|] eqn:Eo.
  - (* nested: GClose of the thread whose lookup extended the file *)
    destruct (rc_ok_len _ _ _ _ Hlen Hfoc) as (Hc & Hrl & Hrr).
    fold (nest_others ms c t) in Hstep.
    destruct (step_thread np0 (proj c ms) (gett t r c)) as [s' u'] eqn:Es.
    injection Hstep as <- <-. chk_split Hchk. apply negb_false_iff in CB.
    apply andb_true_iff in CB as [CB C3]. apply andb_true_iff in CB as [C1 C2].
    apply pc_is_eq in C1. destruct (t_prev2 (gett t r c)) as [g|] eqn:Ep2; [|discriminate].
    pose proof (step_gclose np0 (proj c ms) _ g C1 Ep2) as FP. rewrite Es in FP. cbn [fst] in FP.
    destruct (nest_others_same ms c t r) as (N1 & N2 & N3).
    destruct (Nat.eq_dec k c) as [->|Ne].
    + destruct (tproj_sett_same (nest_others ms c t) r c u' (N3 Hrl)) as [A B].
      rewrite N1, N2 in A. rewrite N1 in B.
      apply (L_step _ _ _ _ _ (ridx r) (gett t r c)); [exact A| |].
      * rewrite Es. cbn [fst]. rewrite proj_set_chk, proj_inj_same by exact Hc. reflexivity.
      * rewrite Es. cbn [snd]. exact B.
    + pose proof (alli_nth _ dflt _ k C3 ltac:(lia)) as Q. cbv beta in Q.
      apply Nat.eqb_neq in Ne. rewrite Ne in Q. cbn [orb] in Q. apply Nat.eqb_neq in Ne.
      apply andb_true_iff in Q as [Q1 Q2]. apply pc_is_eq in Q1. apply onat_eqb_eq in Q2.
      apply (L_step _ _ _ _ _ 1%nat (nth k (m_nest t) dflt)); [reflexivity| |].
      * rewrite (step_cclose np0 _ _ g Q1 Q2). rewrite proj_set_chk, proj_inj_other_fp by exact Ne.
        unfold file_part in FP. injection FP as -> -> -> -> ->. reflexivity.
      * change (tproj k (sett (nest_others ms c t) r c u') = upd (tproj k t) 1 (thr_step ms k (nth k (m_nest t) dflt))).
        rewrite tproj_sett_other by (try exact Ne; exact Hrr). apply nest_others_other. exact Ne.
  - destruct (m_prev t) as [g|] eqn:Ep.
    2:{ injection Hstep as <- <-. pose proof Hchk as C. cbn in C. rewrite orb_true_r in C. discriminate. }
    injection Hstep as <- <-. chk_split Hchk. apply negb_false_iff in CB.
    pose proof (forallb_nth _ dflt _ k CB ltac:(lia)) as U. cbv beta in U. apply andb_true_iff in U as [U1 U2].
    apply pc_is_eq in U1. apply onat_eqb_eq in U2.
    apply (L_step _ _ _ _ _ 0%nat (nth k (m_main t) dflt)); [reflexivity| |].
    + rewrite (step_cclose np0 _ _ g U1 U2). reflexivity.
    + unfold tproj. cbn. rewrite nth_mapi by (intros; reflexivity). reflexivity.
Qed.

(* the embedded thread in focus performs its next operation *)
Lemma core_run : m_pc t = MRun -> lstep k ms t ms' t'.
Proof.
  intros Hpc. unfold mstep_core in Hstep. rewrite Hpc in Hstep.
  pose proof Hlen as Hlen'. unfold lens_ok in Hlen'. apply andb_true_iff in Hlen' as [L1 L2]. apply Nat.eqb_eq in L1, L2.
  unfold focus_ok in Hfoc. rewrite Hpc in Hfoc.
  destruct (rc_ok_len _ _ _ _ Hlen Hfoc) as (Hc & Hrl & Hrr).
  set (r := m_role t) in *. set (c := m_c t) in *. cbv zeta in Hstep.
  fold (nest_others ms c t) in Hstep.
  destruct (step_thread np0 (proj c ms) (gett t r c)) as [s' u'] eqn:Es.
  destruct (pc_is (t_pc (gett t r c)) LLook2 && pc_is (t_pc u') GIvLoad) eqn:Eg.
  - (* the lookup extended the file *)
    apply andb_true_iff in Eg as [G1 G2]. apply pc_is_eq in G1, G2.
    destruct (m_grown t).
    { cbn [andb] in Hstep. injection Hstep as <- <-. pose proof Hbad as B. cbn in B. rewrite orb_true_r in B. discriminate. }
    cbn [andb] in Hstep. injection Hstep as <- <-. chk_split Hchk. apply negb_false_iff in CB.
    apply andb_true_iff in CB as [C1 C2].
    destruct (step_llook2 _ _ _ _ _ Es G1) as [[_ X]|(g0 & Ecur & Efull & _ & FP)]; [congruence|].
    destruct (nest_others_same ms c t r) as (N1 & N2 & N3).
    destruct (Nat.eq_dec k c) as [->|Ne].
    + destruct (tproj_sett_same (nest_others ms c t) r c u' (N3 Hrl)) as [A B].
      rewrite N1, N2 in A. rewrite N1 in B.
      apply (L_step _ _ _ _ _ (ridx r) (gett t r c)); [exact A| |].
      * rewrite Es. cbn [fst]. rewrite proj_set_chk, proj_inj_same by exact Hc. reflexivity.
      * rewrite Es. cbn [snd]. exact B.
    + pose proof (alli_nth _ dflt _ k C2 ltac:(lia)) as Q. cbv beta in Q.
      apply Nat.eqb_neq in Ne. rewrite Ne in Q. cbn [orb] in Q. apply Nat.eqb_neq in Ne.
      apply andb_true_iff in Q as [Q1 Q2]. apply pc_is_eq in Q1.
      assert (Q3 : t_tgt (nth k (m_nest t) dflt) = SameFile) by (destruct (t_tgt (nth k (m_nest t) dflt)); try discriminate; reflexivity).
      apply (L_step _ _ _ _ _ 1%nat (nth k (m_nest t) dflt)); [reflexivity| |].
      * rewrite (step_store_same (proj k ms) _ g0 Q1 Q3 Ecur C1). rewrite proj_set_chk, proj_inj_other_fp by exact Ne.
        unfold file_part in FP. injection FP as -> -> -> -> ->. reflexivity.
      * change (tproj k (sett (nest_others ms c t) r c u') = upd (tproj k t) 1 (thr_step ms k (nth k (m_nest t) dflt))).
        rewrite tproj_sett_other by (try exact Ne; exact Hrr). apply nest_others_other. exact Ne.
  - (* an ordinary operation on counter c *)
    assert (L : lstep k ms t (set_chk (inj c ms s') (pc_is (t_pc (gett t r c)) CStore || pc_is (t_pc (gett t r c)) CClose || pc_is (t_pc (gett t r c)) GClose)) (sett t r c u') /\
                ms_chk (set_chk (inj c ms s') (pc_is (t_pc (gett t r c)) CStore || pc_is (t_pc (gett t r c)) CClose || pc_is (t_pc (gett t r c)) GClose)) = ms_chk ms').
    { split.
      2:{ cbn [andb] in Hstep. destruct (m_walks t) as [|w ws]; [destruct (pc_is (t_pc u') Done); [destruct r|]|destruct (visit_ended w c u')];
          injection Hstep as <- <-; reflexivity. }
      assert (CK : ms_chk (set_chk (inj c ms s') (pc_is (t_pc (gett t r c)) CStore || pc_is (t_pc (gett t r c)) CClose || pc_is (t_pc (gett t r c)) GClose)) = false).
      { cbn [andb] in Hstep. destruct (m_walks t) as [|w ws]; [destruct (pc_is (t_pc u') Done); [destruct r|]|destruct (visit_ended w c u')];
          injection Hstep as <- <-; exact Hchk. }
      cbn [ms_chk set_chk] in CK. apply orb_false_iff in CK as [_ CK].
      apply orb_false_iff in CK as [CK P3]. apply orb_false_iff in CK as [P1 P2].
      destruct (Nat.eq_dec k c) as [->|Ne].
      - destruct (tproj_sett_same t r c u' Hrl) as [A B].
        apply (L_step _ _ _ _ _ (ridx r) (gett t r c)); [exact A| |].
        + rewrite Es. cbn [fst]. rewrite proj_set_chk, proj_inj_same by exact Hc. reflexivity.
        + rewrite Es. cbn [snd]. exact B.
      - apply L_stutter.
        + rewrite proj_set_chk. apply proj_inj_other; [exact Ne|].
          destruct (pc_is (t_pc (gett t r c)) LLook2) eqn:E4.
          * apply pc_is_eq in E4. destruct (step_llook2 _ _ _ _ _ Es E4) as [[X _]|(g0 & _ & _ & X & _)]; [exact X|].
            rewrite X in Eg. cbn in Eg. discriminate.
          * apply (step_file_part _ _ _ _ _ Es); intros X; rewrite X in *; discriminate.
        + apply tproj_sett_other; [exact Ne | exact Hrr]. }
    destruct L as [L _]. cbn [andb] in Hstep.
    destruct (m_walks t) as [|w ws]; [destruct (pc_is (t_pc u') Done); [destruct r|]|destruct (visit_ended w c u')];
      injection Hstep as <- <-; (eapply lstep_tproj_eq; [exact L | reflexivity]).
Qed.
End OneThread.

Lemma lstep_ms_eq k ms t ms1 ms2 t' : lstep k ms t ms1 t' -> proj k ms2 = proj k ms1 -> lstep k ms t ms2 t'.
Proof.
  intros L E. destruct L.
  - apply L_stutter; congruence.
  - eapply L_step; eauto; congruence.
  - eapply L_redo; eauto; congruence.
  - eapply L_skip; eauto; congruence.
Qed.

Theorem mstep_thread_lstep k ms t ms' t' : (k < length (ms_ctrs ms))%nat ->
  mstep_thread ms t = (ms', t') -> ms_chk ms' = false -> ms_bad ms' = false -> lstep k ms t ms' t'.
Proof.
  intros Hk H C B. unfold mstep_thread in H. destruct (mstep_core ms t) as [ms1 t1] eqn:Hc.
  cbn [fst snd] in H. injection H as <- <-.
  cbn [ms_chk set_chk] in C. apply orb_false_iff in C as [C1 C2]. apply negb_false_iff in C2.
  apply andb_true_iff in C2 as [C2 C4]. apply andb_true_iff in C2 as [C2 C3].
  assert (B1 : ms_bad ms1 = false) by exact B.
  apply (lstep_ms_eq k ms t ms1); [|reflexivity].
  destruct (m_pc t) eqn:Hpc.
  - eapply core_idle; eauto.
  - eapply core_simple; eauto; rewrite Hpc; exact I.
  - eapply core_simple; eauto; rewrite Hpc; exact I.
  - eapply core_rnext; eauto.
  - eapply core_simple; eauto; rewrite Hpc; exact I.
  - eapply core_simple; eauto; rewrite Hpc; exact I.
  - eapply core_simple; eauto; rewrite Hpc; exact I.
  - eapply core_simple; eauto; rewrite Hpc; exact I.
  - eapply core_run; eauto.
  - eapply core_store; eauto.
  - eapply core_simple; eauto; rewrite Hpc; exact I.
  - eapply core_head; eauto.
  - eapply core_simple; eauto; rewrite Hpc; exact I.
  - eapply core_close; eauto.
  - eapply core_simple; eauto; rewrite Hpc; exact I.
Qed.

(* ---- the whole system, seen from counter k ---- *)
Inductive xstep : state -> state -> Prop :=
  | X_stutter st : xstep st st
  | X_step st i : xstep st (step np0 st i)
  | X_redo s ts i u : nth_error ts i = Some u -> t_pc u = CIdle -> xstep (s, ts) (s, upd ts i (with_pc u IvLoad))
  | X_skip s ts i u : nth_error ts i = Some u -> t_pc u = IvLoad -> xstep (s, ts) (s, upd ts i (to_close u)).

Lemma tproj_shape k t : exists a b c, tproj k t = [a; b; c].
Proof. unfold tproj. eauto. Qed.

Lemma tsproj_nth k ts : forall i t r u, nth_error ts i = Some t -> nth_error (tproj k t) r = Some u ->
  nth_error (tsproj k ts) (3 * i + r) = Some u.
Proof.
  induction ts as [|x ts IH]; intros [|i] t r u H Hr; cbn [nth_error] in H; try discriminate.
  - injection H as ->. destruct (tproj_shape k t) as (a & b & c & E). unfold tsproj. cbn [flat_map]. rewrite E in *.
    destruct r as [|[|[|r]]]; cbn in *; try exact Hr. destruct r; discriminate.
  - specialize (IH _ _ _ _ H Hr). destruct (tproj_shape k x) as (a & b & c & E). unfold tsproj in *. cbn [flat_map]. rewrite E.
    replace (3 * S i + r)%nat with (S (S (S (3 * i + r)))) by lia. exact IH.
Qed.

Lemma tsproj_upd k ts : forall i t t' r u u', nth_error ts i = Some t -> nth_error (tproj k t) r = Some u ->
  tproj k t' = upd (tproj k t) r u' -> tsproj k (upd ts i t') = upd (tsproj k ts) (3 * i + r) u'.
Proof.
  induction ts as [|x ts IH]; intros [|i] t t' r u u' H Hr E; cbn [nth_error] in H; try discriminate.
  - injection H as ->. destruct (tproj_shape k t) as (a & b & c & Et). unfold tsproj. cbn [upd flat_map]. rewrite E, Et in *.
    destruct r as [|[|[|r]]]; cbn in *; try reflexivity. destruct r; discriminate.
  - specialize (IH _ _ _ _ _ _ H Hr E). destruct (tproj_shape k x) as (a & b & c & Ex). unfold tsproj in *. cbn [upd flat_map]. rewrite Ex.
    replace (3 * S i + r)%nat with (S (S (S (3 * i + r)))) by lia. cbn [app upd]. rewrite IH. reflexivity.
Qed.

Lemma tsproj_same k ts : forall i t t', nth_error ts i = Some t -> tproj k t' = tproj k t -> tsproj k (upd ts i t') = tsproj k ts.
Proof.
  induction ts as [|x ts IH]; intros [|i] t t' H E; cbn [nth_error] in H; try discriminate.
  - injection H as ->. unfold tsproj. cbn [upd flat_map]. rewrite E. reflexivity.
  - unfold tsproj in *. cbn [upd flat_map]. rewrite (IH _ _ _ H E). reflexivity.
Qed.

(* C03, several counters: every step of the multi-counter system is, for every
   counter k, a stutter, one step of the single-counter system, or one of the
   two registration transitions *)
Theorem mstep_projects k st i : (k < length (ms_ctrs (fst st)))%nat ->
  ms_chk (fst (mstep st i)) = false -> ms_bad (fst (mstep st i)) = false ->
  xstep (sproj k st) (sproj k (mstep st i)).
Proof.
  destruct st as [ms ts]. cbn [fst]. intros Hk C B. unfold mstep in *.
  destruct (nth_error ts i) as [t|] eqn:Hn; [|apply X_stutter].
  destruct (mstep_thread ms t) as [ms' t'] eqn:Hs. cbn [fst] in C, B.
  pose proof (mstep_thread_lstep k ms t ms' t' Hk Hs C B) as L.
  unfold sproj. cbn [fst snd]. destruct L as [P T|r u Hr P T|r u P Hr Hpc T|r u P Hr Hpc _ T].
  - rewrite P, (tsproj_same k ts i t t' Hn T). apply X_stutter.
  - rewrite (tsproj_upd k ts i t t' r u _ Hn Hr T), <- P.
    pose proof (tsproj_nth k ts i t r u Hn Hr) as Hx.
    replace (fst (step_thread np0 (proj k ms) u), upd (tsproj k ts) (3 * i + r) (snd (step_thread np0 (proj k ms) u)))
      with (step np0 (proj k ms, tsproj k ts) (3 * i + r)); [apply X_step|].
    unfold step. rewrite Hx. destruct (step_thread np0 (proj k ms) u); reflexivity.
  - rewrite P, (tsproj_upd k ts i t t' r u _ Hn Hr T). apply X_redo; [exact (tsproj_nth k ts i t r u Hn Hr) | exact Hpc].
  - rewrite P, (tsproj_upd k ts i t t' r u _ Hn Hr T). apply X_skip; [exact (tsproj_nth k ts i t r u Hn Hr) | exact Hpc].
Qed.
