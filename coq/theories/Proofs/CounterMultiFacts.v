(* Facts about Model/CounterMulti: every step of the multi-counter system,
   seen from any one counter k, is a stutter, ONE step of Model/CounterConc,
   or one of two extra transitions of a changer thread (the registrar takes on
   its redo obligation; a changer drops its invalidate+refresh of a counter
   that is not on the list it loaded) - hence the single-counter invariant
   holds of every counter's view along every multi run. *)
From Coq Require Import List ZArith NArith Bool Arith Lia.
From Tele Require Import Gen.Consts Model.CounterConc Model.CounterMulti Proofs.CounterWord Proofs.CounterInv.
Import ListNotations.
Open Scope Z_scope.

(* ---- lists ---- *)
Lemma nth_upd_same {A} (l : list A) c x d : (c < length l)%nat -> nth c (upd l c x) d = x.
Proof. revert c; induction l as [|y l IH]; intros [|c] H; cbn in *; try lia; auto. apply IH; lia. Qed.
Lemma nth_upd_other {A} (l : list A) c k x d : k <> c -> nth k (upd l c x) d = nth k l d.
Proof. revert c k; induction l as [|y l IH]; intros [|c] [|k] H; cbn; auto; try congruence. Qed.
Lemma upd_len {A} (l : list A) c x : length (upd l c x) = length l.
Proof. revert c; induction l as [|y l IH]; intros [|c]; cbn; auto. Qed.

Lemma nth_mapi_from {A} (f : nat -> A -> A) d : (forall j, f j d = d) ->
  forall l i k, nth k (mapi_from f i l) d = f (i + k)%nat (nth k l d).
Proof.
  intros Hd. induction l as [|x l IH]; intros i k; cbn.
  - destruct k; rewrite Hd; reflexivity.
  - destruct k; [rewrite Nat.add_0_r; reflexivity|]. rewrite IH. f_equal. lia.
Qed.
Lemma nth_mapi {A} (f : nat -> A -> A) d l k : (forall j, f j d = d) -> nth k (mapi f l) d = f k (nth k l d).
Proof. intros Hd. unfold mapi. rewrite (nth_mapi_from f d Hd). reflexivity. Qed.
Lemma mapi_from_len {A B} (f : nat -> A -> B) l : forall i, length (mapi_from f i l) = length l.
Proof. induction l; intros; cbn; auto. Qed.

Lemma alli_from_nth {A} (f : nat -> A -> bool) d l : forall i k, alli_from f i l = true -> (k < length l)%nat ->
  f (i + k)%nat (nth k l d) = true.
Proof.
  induction l as [|x l IH]; intros i k H Hk; cbn in *; [lia|].
  apply andb_true_iff in H as [H1 H2]. destruct k; [rewrite Nat.add_0_r; exact H1|].
  replace (i + S k)%nat with (S i + k)%nat by lia. apply IH; [exact H2 | lia].
Qed.
Lemma alli_nth {A} (f : nat -> A -> bool) d l k : alli f l = true -> (k < length l)%nat -> f k (nth k l d) = true.
Proof. intros H Hk. exact (alli_from_nth f d l 0 k H Hk). Qed.
Lemma forallb_nth {A} (f : A -> bool) d l k : forallb f l = true -> (k < length l)%nat -> f (nth k l d) = true.
Proof. intros H Hk. rewrite forallb_forall in H. apply H. apply nth_In. exact Hk. Qed.

Lemma pc_is_eq p q : pc_is p q = true -> p = q.
Proof. destruct p, q; cbn; intros H; try discriminate; reflexivity. Qed.
Lemma onat_eqb_eq a b : onat_eqb a b = true -> a = b.
Proof. destruct a, b; cbn; intros H; try discriminate; auto. apply Nat.eqb_eq in H. congruence. Qed.
Lemma tgt_eqb_eq a b : tgt_eqb a b = true -> a = b.
Proof. destruct a, b; cbn; intros H; try discriminate; reflexivity. Qed.

(* ---- projections ---- *)
Definition file_part (s : shared) := (s_cur s, s_maps s, s_closed s, s_full s, s_tight s).

Lemma shared_eta s : mkS (s_word s) (s_ptr s) (s_cur s) (s_maps s) (s_closed s) (s_cells s) (s_faults s) (s_sat s) (s_full s) (s_new s) (s_tight s) = s.
Proof. destruct s; reflexivity. Qed.

Lemma proj_inj_same c ms s : (c < length (ms_ctrs ms))%nat -> proj c (inj c ms s) = s.
Proof.
  intros H. unfold proj, inj, getc. cbn [ms_ctrs ms_cur ms_maps ms_closed ms_full ms_tight].
  rewrite nth_upd_same by exact H. cbn. apply shared_eta.
Qed.
Lemma proj_inj_other c k ms s : k <> c -> file_part s = file_part (proj c ms) -> proj k (inj c ms s) = proj k ms.
Proof.
  intros H F. unfold file_part in F. cbn in F. injection F as F1 F2 F3 F4 F5.
  unfold proj, inj, getc. cbn [ms_ctrs ms_cur ms_maps ms_closed ms_full ms_tight].
  rewrite nth_upd_other by exact H. congruence.
Qed.
Lemma proj_set_chk k ms b : proj k (set_chk ms b) = proj k ms. Proof. reflexivity. Qed.
Lemma proj_set_bad k ms b : proj k (set_bad ms b) = proj k ms. Proof. reflexivity. Qed.
Lemma proj_set_list k ms l : proj k (set_list ms l) = proj k ms. Proof. reflexivity. Qed.
Lemma proj_set_claimed k ms c : proj k (set_claimed ms c) = proj k ms. Proof. reflexivity. Qed.

(* ---- what a CounterConc step does to the file part ---- *)
Lemma step_file_part np s u s' u' : step_thread np s u = (s', u') ->
  t_pc u <> CStore -> t_pc u <> CClose -> t_pc u <> GClose -> t_pc u <> LLook2 ->
  file_part s' = file_part s.
Proof.
  intros H N1 N2 N3 N4. unfold step_thread in H. destruct (t_pc u) eqn:Hpc; try congruence;
  repeat match type of H with
         | (if ?c then _ else _) = _ => destruct c
         | match ?c with Some _ => _ | None => _ end = _ => destruct c
         | match ?c with O => _ | S _ => _ end = _ => destruct c
         | (let w' := _ in _) = _ => cbv zeta in H
         end; try (injection H as <- <-; reflexivity).
Qed.

Lemma step_idle np s u : t_pc u = AIdle \/ t_pc u = CIdle -> fst (step_thread np s u) = s.
Proof. intros [H|H]; unfold step_thread; rewrite H; reflexivity. Qed.

Lemma step_store_new s u : t_pc u = CStore -> t_tgt u = NewFile \/ t_tgt u = FullFile ->
  fst (step_thread np0 s u) =
  mkS (s_word s) (s_ptr s) (Some (length (s_maps s))) (s_maps s ++ [length (s_cells s)]) (s_closed s) (s_cells s ++ [0])
      (s_faults s) (s_sat s) (tgt_eqb (t_tgt u) FullFile) (s_new s) (tgt_eqb (t_tgt u) FullFile).
Proof. intros H [T|T]; unfold step_thread; rewrite H, T; reflexivity. Qed.

Lemma step_store_same s u g0 : t_pc u = CStore -> t_tgt u = SameFile -> s_cur s = Some g0 -> s_tight s = true ->
  fst (step_thread np0 s u) =
  mkS (s_word s) (s_ptr s) (Some (length (s_maps s))) (s_maps s ++ [file_of s g0]) (s_closed s) (s_cells s)
      (s_faults s) (s_sat s) false (s_new s) false.
Proof. intros H T C G. unfold step_thread. rewrite H, T, C, G. reflexivity. Qed.

Lemma step_cclose np s u g : t_pc u = CClose -> t_prev u = Some g ->
  fst (step_thread np s u) =
  mkS (s_word s) (s_ptr s) (s_cur s) (s_maps s) (g :: s_closed s) (s_cells s) (s_faults s) (s_sat s) (s_full s) (s_new s) (s_tight s).
Proof. intros H P. unfold step_thread. rewrite H, P. reflexivity. Qed.

Lemma step_gclose np s u g : t_pc u = GClose -> t_prev2 u = Some g ->
  file_part (fst (step_thread np s u)) = (s_cur s, s_maps s, g :: s_closed s, s_full s, s_tight s).
Proof. intros H P. unfold step_thread. rewrite H, P. reflexivity. Qed.

(* the lookup under f.mu: either it leaves the file alone, or it is the
   extension (then the thread goes on with the cleanup: GIvLoad) *)
Lemma step_llook2 np s u s' u' : step_thread np s u = (s', u') -> t_pc u = LLook2 ->
  (file_part s' = file_part s /\ t_pc u' = LCas) \/
  (exists g0, s_cur s = Some g0 /\ s_full s = true /\ t_pc u' = GIvLoad /\
     file_part s' = (Some (length (s_maps s)), s_maps s ++ [file_of s g0], s_closed s, false, false)).
Proof.
  intros H Hpc. unfold step_thread in H. rewrite Hpc in H.
  destruct (s_cur s) as [g0|] eqn:Ec; [|injection H as <- <-; left; split; reflexivity].
  destruct (t_prev2 u); [injection H as <- <-; left; split; reflexivity|].
  destruct (s_full s) eqn:Ef; injection H as <- <-; [|left; split; reflexivity].
  right. exists g0. repeat split; reflexivity.
Qed.

(* ---- one multi thread, seen from counter k ---- *)
Definition ridx (r : role) : nat := match r with RMain => 0 | RNest => 1 | RRedo => 2 end.

Inductive lstep (k : nat) (ms : mshared) (t : mthread) (ms' : mshared) (t' : mthread) : Prop :=
  | L_stutter : proj k ms' = proj k ms -> tproj k t' = tproj k t -> lstep k ms t ms' t'
  | L_step (r : nat) (u : thread) : nth_error (tproj k t) r = Some u ->
      fst (step_thread np0 (proj k ms) u) = proj k ms' ->
      tproj k t' = upd (tproj k t) r (snd (step_thread np0 (proj k ms) u)) -> lstep k ms t ms' t'
  | L_redo (r : nat) (u : thread) : proj k ms' = proj k ms -> nth_error (tproj k t) r = Some u ->
      t_pc u = CIdle -> tproj k t' = upd (tproj k t) r (with_pc u IvLoad) -> lstep k ms t ms' t'
  | L_skip (r : nat) (u : thread) : proj k ms' = proj k ms -> nth_error (tproj k t) r = Some u ->
      t_pc u = IvLoad -> memn k (ms_list ms) = false -> (r < 2)%nat ->
      tproj k t' = upd (tproj k t) r (to_close u) -> lstep k ms t ms' t'.

Lemma thr_step_dflt ms j : thr_step ms j dflt = dflt. Proof. reflexivity. Qed.
Lemma skip_dflt : skip_thread dflt = dflt. Proof. reflexivity. Qed.

Definition rc_len (t : mthread) (r : role) (c : nat) : Prop :=
  match r with
  | RMain => (c < length (m_main t))%nat
  | RNest => (c < length (m_nest t))%nat
  | RRedo => m_isadd t = true /\ c = m_k t
  end.

Lemma tproj_sett_same t r c u : rc_len t r c ->
  nth_error (tproj c t) (ridx r) = Some (gett t r c) /\ tproj c (sett t r c u) = upd (tproj c t) (ridx r) u.
Proof.
  destruct r; cbn [rc_len ridx gett sett]; intros H; unfold tproj; cbn.
  - rewrite nth_upd_same by exact H. split; reflexivity.
  - rewrite nth_upd_same by exact H. split; reflexivity.
  - destruct H as [Ha ->]. rewrite Ha, Nat.eqb_refl. cbn. split; reflexivity.
Qed.

Lemma tproj_sett_other k t r c u : k <> c -> (r = RRedo -> c = m_k t) -> tproj k (sett t r c u) = tproj k t.
Proof.
  intros Hk Hr. destruct r; cbn [sett]; unfold tproj; cbn.
  - rewrite nth_upd_other by exact Hk. reflexivity.
  - rewrite nth_upd_other by exact Hk. reflexivity.
  - rewrite <- (Hr eq_refl). apply Nat.eqb_neq in Hk. rewrite Hk, andb_false_r. reflexivity.
Qed.

Lemma rc_ok_len ms t r c : lens_ok ms t = true -> rc_ok ms t r c = true ->
  (c < length (ms_ctrs ms))%nat /\ rc_len t r c /\ (r = RRedo -> c = m_k t).
Proof.
  unfold lens_ok, rc_ok. intros L H. apply andb_true_iff in L as [L1 L2]. apply andb_true_iff in H as [H1 H2].
  apply andb_true_iff in H1 as [H1 _].
  apply Nat.eqb_eq in L1, L2. apply Nat.ltb_lt in H1. split; [exact H1|].
  destruct r; cbn [rc_len]; (split; [|intros; try discriminate]); try lia.
  - apply andb_true_iff in H2 as [A B]. apply Nat.eqb_eq in B. auto.
  - apply andb_true_iff in H2 as [A B]. apply Nat.eqb_eq in B. auto.
Qed.
Lemma rc_ok_claimed ms t r c : rc_ok ms t r c = true -> claimed ms c = true.
Proof. unfold rc_ok. intros H. apply andb_true_iff in H as [H _]. apply andb_true_iff in H as [_ H]. exact H. Qed.

Lemma tproj_advance k t : tproj k (advance t) = tproj k t.
Proof.
  unfold advance, after_walk. destruct (m_walks t) as [|w ws]; [reflexivity|].
  destruct (w_rest w); [|reflexivity]. destruct (w_ph w); [destruct (w_snap w)|]; try reflexivity;
  destruct (w_own w); try reflexivity; destruct (m_prev t); reflexivity.
Qed.

Ltac chk_split H :=
  cbn [ms_chk set_chk] in H; apply orb_false_iff in H;
  let A := fresh "CK" in let B := fresh "CB" in pose proof (proj1 H) as A; pose proof (proj2 H) as B.

Lemma proj_inj_other_fp c k ms s : k <> c ->
  proj k (inj c ms s) =
  mkS (s_word (proj k ms)) (s_ptr (proj k ms)) (s_cur s) (s_maps s) (s_closed s) (s_cells (proj k ms))
      (s_faults (proj k ms)) (s_sat (proj k ms)) (s_full s) (s_new (proj k ms)) (s_tight s).
Proof.
  intros H. unfold proj, inj, getc. cbn [ms_ctrs ms_cur ms_maps ms_closed ms_full ms_tight].
  rewrite nth_upd_other by exact H. reflexivity.
Qed.

(* the nest threads of the other counters step; the own counter's entry stays *)
Definition nest_others (ms : mshared) (c : nat) (t : mthread) : mthread :=
  with_nest t (mapi (fun j v => if Nat.eqb j c then v else thr_step ms j v) (m_nest t)).
Lemma nest_others_same ms c t r : 
  tproj c (nest_others ms c t) = tproj c t /\ gett (nest_others ms c t) r c = gett t r c /\
  (rc_len t r c -> rc_len (nest_others ms c t) r c).
Proof.
  unfold nest_others, tproj. cbn.
  assert (E : nth c (mapi (fun j v => if Nat.eqb j c then v else thr_step ms j v) (m_nest t)) dflt = nth c (m_nest t) dflt).
  { rewrite nth_mapi by (intros j; destruct (Nat.eqb j c); reflexivity). rewrite Nat.eqb_refl. reflexivity. }
  rewrite E. split; [reflexivity|]. split.
  - destruct r; cbn; auto.
  - destruct r; cbn; auto. unfold mapi. rewrite mapi_from_len. auto.
Qed.
Lemma nest_others_other ms c t k : k <> c ->
  tproj k (nest_others ms c t) = upd (tproj k t) 1 (thr_step ms k (nth k (m_nest t) dflt)).
Proof.
  intros H. unfold nest_others, tproj. cbn.
  rewrite nth_mapi by (intros j; destruct (Nat.eqb j c); reflexivity).
  apply Nat.eqb_neq in H. rewrite H. reflexivity.
Qed.

Lemma lstep_tproj_eq k ms t ms' t1 t2 : lstep k ms t ms' t1 -> tproj k t2 = tproj k t1 -> lstep k ms t ms' t2.
Proof.
  intros L E. destruct L.
  - apply L_stutter; congruence.
  - eapply L_step; eauto; congruence.
  - eapply L_redo; eauto; congruence.
  - eapply L_skip; eauto; congruence.
Qed.

Section OneThread.
Variables (k : nat) (ms : mshared) (t : mthread) (ms' : mshared) (t' : mthread).
Hypothesis Hk : (k < length (ms_ctrs ms))%nat.
Hypothesis Hlen : lens_ok ms t = true.
Hypothesis Hfoc : focus_ok ms t = true.
Hypothesis Hstep : mstep_core ms t = (ms', t').
Hypothesis Hchk : ms_chk ms' = false.
Hypothesis Hbad : ms_bad ms' = false.

Lemma core_simple : match m_pc t with
  | MRTest | MRHead | MRLink | MRDbgNext | MRDbgFail | MRDbgOk | MReload | MNext | MDone => True | _ => False end ->
  lstep k ms t ms' t'.
Proof.
  intros Hp. unfold mstep_core in Hstep. destruct (m_pc t) eqn:Hpc; try contradiction.
  - destruct (claimed ms (m_k t)); injection Hstep as <- <-; apply L_stutter; reflexivity.
  - injection Hstep as <- <-; apply L_stutter; reflexivity.
  - destruct (onat_eqb _ _); injection Hstep as <- <-; apply L_stutter; reflexivity.
  - injection Hstep as <- <-; apply L_stutter; reflexivity.
  - injection Hstep as <- <-; apply L_stutter; reflexivity.
  - injection Hstep as <- <-; apply L_stutter; reflexivity.
  - injection Hstep as <- <-; apply L_stutter; reflexivity.
  - injection Hstep as <- <-; apply L_stutter; [reflexivity | apply tproj_advance].
  - injection Hstep as <- <-; apply L_stutter; reflexivity.
Qed.

(* file.register's claim of c.next: the registrar takes on the redo *)
Lemma core_rnext : m_pc t = MRNext -> lstep k ms t ms' t'.
Proof.
  intros Hpc. unfold mstep_core in Hstep. rewrite Hpc in Hstep.
  destruct (m_wrote t); [injection Hstep as <- <-; apply L_stutter; reflexivity|].
  destruct (claimed ms (m_k t)); [injection Hstep as <- <-; apply L_stutter; reflexivity|].
  injection Hstep as <- <-. chk_split Hchk. apply negb_false_iff in CB. apply andb_true_iff in CB as [CB _]. apply pc_is_eq in CB.
  destruct (m_isadd t && Nat.eqb k (m_k t)) eqn:E.
  - apply (L_redo _ _ _ _ _ 2%nat (m_redo t)); [reflexivity| | exact CB|]; unfold tproj; cbn; rewrite E; reflexivity.
  - apply L_stutter; [reflexivity|]. unfold tproj; cbn; rewrite E; reflexivity.
Qed.

(* a call begins *)
Lemma core_idle : m_pc t = MIdle -> lstep k ms t ms' t'.
Proof.
  intros Hpc. unfold mstep_core in Hstep. rewrite Hpc in Hstep.
  unfold lens_ok in Hlen. apply andb_true_iff in Hlen as [L1 L2]. apply Nat.eqb_eq in L1, L2.
  destruct (m_isadd t) eqn:Ea; injection Hstep as <- <-; chk_split Hchk; apply negb_false_iff in CB.
  - apply pc_is_eq in CB. destruct (Nat.eq_dec k (m_k t)) as [->|Ne].
    + destruct (tproj_sett_same t RMain (m_k t) (thr_step ms (m_k t) (gett t RMain (m_k t)))) as [A B]; [cbn; lia|].
      apply (L_step _ _ _ _ _ 0%nat (gett t RMain (m_k t))); [exact A | | exact B].
      rewrite step_idle by (left; exact CB). reflexivity.
    + apply L_stutter; [reflexivity|]. apply (tproj_sett_other k t RMain (m_k t)); [exact Ne | discriminate].
  - apply (L_step _ _ _ _ _ 0%nat (nth k (m_main t) dflt)); [reflexivity | |].
    + rewrite step_idle; [reflexivity|]. right. apply pc_is_eq. apply (forallb_nth _ dflt _ k CB). lia.
    + unfold tproj. cbn. rewrite nth_mapi by (intros; reflexivity). rewrite Ea. reflexivity.
Qed.

(* rotate1's critical section: every counter sees the store of the new mapping *)
Lemma core_store : m_pc t = MStore -> lstep k ms t ms' t'.
Proof.
  intros Hpc. unfold mstep_core in Hstep. rewrite Hpc in Hstep.
  unfold lens_ok in Hlen. apply andb_true_iff in Hlen as [L1 L2]. apply Nat.eqb_eq in L1, L2.
  injection Hstep as <- <-. chk_split Hchk. apply negb_false_iff in CB.
  apply andb_true_iff in CB as [CB C4]. apply andb_true_iff in CB as [CB C3]. apply andb_true_iff in CB as [C1 C2].
  pose proof (forallb_nth _ dflt _ k C1 ltac:(lia)) as U. cbv beta in U. apply andb_true_iff in U as [U1 U2].
  apply pc_is_eq in U1. apply tgt_eqb_eq in U2.
  pose proof (forallb_nth _ ctr0 _ k C3 Hk) as N. cbv beta in N. apply Nat.eqb_eq in N.
  apply (L_step _ _ _ _ _ 0%nat (nth k (m_main t) dflt)); [reflexivity | |].
  - rewrite step_store_new; [|exact U1|rewrite U2; destruct (m_tgt t); try discriminate; auto].
    unfold proj, store_new, getc. cbn [ms_ctrs ms_cur ms_maps ms_closed ms_full ms_tight set_chk s_word s_ptr s_maps s_cells s_closed s_faults s_sat s_new].
    match goal with |- context [nth k (map ?g _) ctr0] =>
      rewrite (nth_indep (map g (ms_ctrs ms)) ctr0 (g ctr0)) by (rewrite map_length; exact Hk); rewrite (map_nth g) end.
    cbn [c_word c_ptr c_cells c_faults c_sat c_new]. fold (getc ms k).
    unfold getc in N |- *. rewrite N, U2. destruct (m_tgt t); try discriminate; reflexivity.
  - unfold tproj. cbn. rewrite nth_mapi by (intros; reflexivity). reflexivity.
Qed.

(* invalidateCounters loads the head of the list: counters that are not on it
   are dropped from this walk *)
Lemma core_head : m_pc t = MHead -> lstep k ms t ms' t'.
Proof.
  intros Hpc. unfold mstep_core in Hstep. rewrite Hpc in Hstep.
  unfold lens_ok in Hlen. apply andb_true_iff in Hlen as [L1 L2]. apply Nat.eqb_eq in L1, L2.
  destruct (m_walks t) as [|w ws] eqn:Ew.
  { injection Hstep as <- <-. pose proof Hchk as C. cbn in C. rewrite orb_true_r in C. discriminate. }
  cbv zeta in Hstep. injection Hstep as <- <-.
  pose proof Hbad as B. pose proof Hchk as C. cbn [ms_bad set_bad ms_chk set_chk] in B, C.
  apply orb_false_iff in B as [_ Hunl]. apply orb_false_iff in C as [_ Hok]. apply negb_false_iff in Hok.
  destruct (w_own w) as [[r c]|] eqn:Eo.
  - (* nested walk: the SameFile changers the other counters see *)
    apply negb_false_iff in Hunl. rewrite Hunl.
    pose proof (alli_nth _ dflt _ k Hok ltac:(lia)) as Q. cbv beta in Q.
    destruct (memn k (ms_list ms) || is_own w k) eqn:E.
    + apply L_stutter; [reflexivity|]. rewrite tproj_advance. unfold tproj. cbn. rewrite nth_mapi by (intros j; match goal with |- (if ?c then _ else _) = _ => destruct c end; reflexivity).
      rewrite E. reflexivity.
    + cbn [andb] in Q. try rewrite E in Q. cbn [orb] in Q. apply pc_is_eq in Q.
      apply orb_false_iff in E as [E1 E2].
      apply (L_skip _ _ _ _ _ 1%nat (nth k (m_nest t) dflt)); [reflexivity|reflexivity|exact Q|exact E1|lia|].
      rewrite tproj_advance. unfold tproj. cbn. rewrite nth_mapi by (intros j; match goal with |- (if ?c then _ else _) = _ => destruct c end; reflexivity).
      rewrite E1, E2. reflexivity.
  - pose proof (alli_nth _ dflt _ k Hok ltac:(lia)) as Q. cbv beta in Q.
    destruct (memn k (ms_list ms)) eqn:E.
    + apply L_stutter; [reflexivity|]. rewrite tproj_advance. unfold tproj. cbn. rewrite nth_mapi by (intros j; match goal with |- (if ?c then _ else _) = _ => destruct c end; reflexivity).
      rewrite E. reflexivity.
    + cbn [orb andb] in Q. apply pc_is_eq in Q.
      apply (L_skip _ _ _ _ _ 0%nat (nth k (m_main t) dflt)); [reflexivity|reflexivity|exact Q|exact E|lia|].
      rewrite tproj_advance. unfold tproj. cbn. rewrite nth_mapi by (intros j; match goal with |- (if ?c then _ else _) = _ => destruct c end; reflexivity).
      rewrite E. reflexivity.
Qed.

(* the close after a walk *)
Lemma core_close : m_pc t = MClose -> lstep k ms t ms' t'.
Proof.
  intros Hpc. unfold mstep_core in Hstep. rewrite Hpc in Hstep.
  pose proof Hlen as Hlen'. unfold lens_ok in Hlen'. apply andb_true_iff in Hlen' as [L1 L2]. apply Nat.eqb_eq in L1, L2.
  unfold focus_ok in Hfoc. rewrite Hpc in Hfoc.
  destruct (m_walks t) as [|w ws] eqn:Ew.
  { injection Hstep as <- <-. pose proof Hchk as C. cbn in C. rewrite orb_true_r in C. discriminate. }
  destruct (w_own w) as [[r c]|] eqn:Eo.
  - (* nested: GClose of the thread whose lookup extended the file *)
    destruct (rc_ok_len _ _ _ _ Hlen Hfoc) as (Hc & Hrl & Hrr).
    fold (nest_others ms c t) in Hstep.
    destruct (step_thread np0 (proj c ms) (gett t r c)) as [s' u'] eqn:Es.
    injection Hstep as <- <-. chk_split Hchk. apply negb_false_iff in CB.
    apply andb_true_iff in CB as [CB C3]. apply andb_true_iff in CB as [C1 C2].
    apply pc_is_eq in C1. destruct (t_prev2 (gett t r c)) as [g|] eqn:Ep2; [|discriminate].
    pose proof (step_gclose np0 (proj c ms) _ g C1 Ep2) as FP. rewrite Es in FP. cbn [fst] in FP.
    destruct (nest_others_same ms c t r) as (N1 & N2 & N3).
    destruct (Nat.eq_dec k c) as [->|Ne].
    + destruct (tproj_sett_same (nest_others ms c t) r c u' (N3 Hrl)) as [A B].
      rewrite N1, N2 in A. rewrite N1 in B.
      apply (L_step _ _ _ _ _ (ridx r) (gett t r c)); [exact A| |].
      * rewrite Es. cbn [fst]. rewrite proj_set_chk, proj_inj_same by exact Hc. reflexivity.
      * rewrite Es. cbn [snd]. exact B.
    + pose proof (alli_nth _ dflt _ k C3 ltac:(lia)) as Q. cbv beta in Q.
      apply Nat.eqb_neq in Ne. rewrite Ne in Q. cbn [orb] in Q. apply Nat.eqb_neq in Ne.
      apply andb_true_iff in Q as [Q1 Q2]. apply pc_is_eq in Q1. apply onat_eqb_eq in Q2.
      apply (L_step _ _ _ _ _ 1%nat (nth k (m_nest t) dflt)); [reflexivity| |].
      * rewrite (step_cclose np0 _ _ g Q1 Q2). rewrite proj_set_chk, proj_inj_other_fp by exact Ne.
        unfold file_part in FP. injection FP as -> -> -> -> ->. reflexivity.
      * change (tproj k (sett (nest_others ms c t) r c u') = upd (tproj k t) 1 (thr_step ms k (nth k (m_nest t) dflt))).
        rewrite tproj_sett_other by (try exact Ne; exact Hrr). apply nest_others_other. exact Ne.
  - destruct (m_prev t) as [g|] eqn:Ep.
    2:{ injection Hstep as <- <-. pose proof Hchk as C. cbn in C. rewrite orb_true_r in C. discriminate. }
    injection Hstep as <- <-. chk_split Hchk. apply negb_false_iff in CB.
    pose proof (forallb_nth _ dflt _ k CB ltac:(lia)) as U. cbv beta in U. apply andb_true_iff in U as [U1 U2].
    apply pc_is_eq in U1. apply onat_eqb_eq in U2.
    apply (L_step _ _ _ _ _ 0%nat (nth k (m_main t) dflt)); [reflexivity| |].
    + rewrite (step_cclose np0 _ _ g U1 U2). reflexivity.
    + unfold tproj. cbn. rewrite nth_mapi by (intros; reflexivity). reflexivity.
Qed.

(* the embedded thread in focus performs its next operation *)
Lemma core_run : m_pc t = MRun -> lstep k ms t ms' t'.
Proof.
  intros Hpc. unfold mstep_core in Hstep. rewrite Hpc in Hstep.
  pose proof Hlen as Hlen'. unfold lens_ok in Hlen'. apply andb_true_iff in Hlen' as [L1 L2]. apply Nat.eqb_eq in L1, L2.
  unfold focus_ok in Hfoc. rewrite Hpc in Hfoc.
  destruct (rc_ok_len _ _ _ _ Hlen Hfoc) as (Hc & Hrl & Hrr).
  set (r := m_role t) in *. set (c := m_c t) in *. cbv zeta in Hstep.
  fold (nest_others ms c t) in Hstep.
  destruct (step_thread np0 (proj c ms) (gett t r c)) as [s' u'] eqn:Es.
  destruct (pc_is (t_pc (gett t r c)) LLook2 && pc_is (t_pc u') GIvLoad) eqn:Eg.
  - (* the lookup extended the file *)
    apply andb_true_iff in Eg as [G1 G2]. apply pc_is_eq in G1, G2.
    destruct (m_grown t).
    { cbn [andb] in Hstep. injection Hstep as <- <-. pose proof Hbad as B. cbn in B. rewrite orb_true_r in B. discriminate. }
    cbn [andb] in Hstep. injection Hstep as <- <-. chk_split Hchk. apply negb_false_iff in CB.
    apply andb_true_iff in CB as [C1 C2].
    destruct (step_llook2 _ _ _ _ _ Es G1) as [[_ X]|(g0 & Ecur & Efull & _ & FP)]; [congruence|].
    destruct (nest_others_same ms c t r) as (N1 & N2 & N3).
    destruct (Nat.eq_dec k c) as [->|Ne].
    + destruct (tproj_sett_same (nest_others ms c t) r c u' (N3 Hrl)) as [A B].
      rewrite N1, N2 in A. rewrite N1 in B.
      apply (L_step _ _ _ _ _ (ridx r) (gett t r c)); [exact A| |].
      * rewrite Es. cbn [fst]. rewrite proj_set_chk, proj_inj_same by exact Hc. reflexivity.
      * rewrite Es. cbn [snd]. exact B.
    + pose proof (alli_nth _ dflt _ k C2 ltac:(lia)) as Q. cbv beta in Q.
      apply Nat.eqb_neq in Ne. rewrite Ne in Q. cbn [orb] in Q. apply Nat.eqb_neq in Ne.
      apply andb_true_iff in Q as [Q1 Q2]. apply pc_is_eq in Q1.
      assert (Q3 : t_tgt (nth k (m_nest t) dflt) = SameFile) by (destruct (t_tgt (nth k (m_nest t) dflt)); try discriminate; reflexivity).
      apply (L_step _ _ _ _ _ 1%nat (nth k (m_nest t) dflt)); [reflexivity| |].
      * rewrite (step_store_same (proj k ms) _ g0 Q1 Q3 Ecur C1). rewrite proj_set_chk, proj_inj_other_fp by exact Ne.
        unfold file_part in FP. injection FP as -> -> -> -> ->. reflexivity.
      * change (tproj k (sett (nest_others ms c t) r c u') = upd (tproj k t) 1 (thr_step ms k (nth k (m_nest t) dflt))).
        rewrite tproj_sett_other by (try exact Ne; exact Hrr). apply nest_others_other. exact Ne.
  - (* an ordinary operation on counter c *)
    assert (L : lstep k ms t (set_chk (inj c ms s') (pc_is (t_pc (gett t r c)) CStore || pc_is (t_pc (gett t r c)) CClose || pc_is (t_pc (gett t r c)) GClose)) (sett t r c u') /\
                ms_chk (set_chk (inj c ms s') (pc_is (t_pc (gett t r c)) CStore || pc_is (t_pc (gett t r c)) CClose || pc_is (t_pc (gett t r c)) GClose)) = ms_chk ms').
    { split.
      2:{ cbn [andb] in Hstep. destruct (m_walks t) as [|w ws]; [destruct (pc_is (t_pc u') Done); [destruct r|]|destruct (visit_ended w c u')];
          injection Hstep as <- <-; reflexivity. }
      assert (CK : ms_chk (set_chk (inj c ms s') (pc_is (t_pc (gett t r c)) CStore || pc_is (t_pc (gett t r c)) CClose || pc_is (t_pc (gett t r c)) GClose)) = false).
      { cbn [andb] in Hstep. destruct (m_walks t) as [|w ws]; [destruct (pc_is (t_pc u') Done); [destruct r|]|destruct (visit_ended w c u')];
          injection Hstep as <- <-; exact Hchk. }
      cbn [ms_chk set_chk] in CK. apply orb_false_iff in CK as [_ CK].
      apply orb_false_iff in CK as [CK P3]. apply orb_false_iff in CK as [P1 P2].
      destruct (Nat.eq_dec k c) as [->|Ne].
      - destruct (tproj_sett_same t r c u' Hrl) as [A B].
        apply (L_step _ _ _ _ _ (ridx r) (gett t r c)); [exact A| |].
        + rewrite Es. cbn [fst]. rewrite proj_set_chk, proj_inj_same by exact Hc. reflexivity.
        + rewrite Es. cbn [snd]. exact B.
      - apply L_stutter.
        + rewrite proj_set_chk. apply proj_inj_other; [exact Ne|].
          destruct (pc_is (t_pc (gett t r c)) LLook2) eqn:E4.
          * apply pc_is_eq in E4. destruct (step_llook2 _ _ _ _ _ Es E4) as [[X _]|(g0 & _ & _ & X & _)]; [exact X|].
            rewrite X in Eg. cbn in Eg. discriminate.
          * apply (step_file_part _ _ _ _ _ Es); intros X; rewrite X in *; discriminate.
        + apply tproj_sett_other; [exact Ne | exact Hrr]. }
    destruct L as [L _]. cbn [andb] in Hstep.
    destruct (m_walks t) as [|w ws]; [destruct (pc_is (t_pc u') Done); [destruct r|]|destruct (visit_ended w c u')];
      injection Hstep as <- <-; (eapply lstep_tproj_eq; [exact L | reflexivity]).
Qed.
End OneThread.

Lemma lstep_ms_eq k ms t ms1 ms2 t' : lstep k ms t ms1 t' -> proj k ms2 = proj k ms1 -> lstep k ms t ms2 t'.
Proof.
  intros L E. destruct L.
  - apply L_stutter; congruence.
  - eapply L_step; eauto; congruence.
  - eapply L_redo; eauto; congruence.
  - eapply L_skip; eauto; congruence.
Qed.

Theorem mstep_thread_lstep k ms t ms' t' : (k < length (ms_ctrs ms))%nat ->
  mstep_thread ms t = (ms', t') -> ms_chk ms' = false -> ms_bad ms' = false -> lstep k ms t ms' t'.
Proof.
  intros Hk H C B. unfold mstep_thread in H. destruct (mstep_core ms t) as [ms1 t1] eqn:Hc.
  cbn [fst snd] in H. injection H as <- <-.
  cbn [ms_chk set_chk] in C. apply orb_false_iff in C as [C1 C2]. apply negb_false_iff in C2.
  apply andb_true_iff in C2 as [C2 C4]. apply andb_true_iff in C2 as [C2 C3].
  assert (B1 : ms_bad ms1 = false) by exact B.
  apply (lstep_ms_eq k ms t ms1); [|reflexivity].
  destruct (m_pc t) eqn:Hpc.
  - eapply core_idle; eauto.
  - eapply core_simple; eauto; rewrite Hpc; exact I.
  - eapply core_simple; eauto; rewrite Hpc; exact I.
  - eapply core_rnext; eauto.
  - eapply core_simple; eauto; rewrite Hpc; exact I.
  - eapply core_simple; eauto; rewrite Hpc; exact I.
  - eapply core_simple; eauto; rewrite Hpc; exact I.
  - eapply core_simple; eauto; rewrite Hpc; exact I.
  - eapply core_run; eauto.
  - eapply core_store; eauto.
  - eapply core_simple; eauto; rewrite Hpc; exact I.
  - eapply core_head; eauto.
  - eapply core_simple; eauto; rewrite Hpc; exact I.
  - eapply core_close; eauto.
  - eapply core_simple; eauto; rewrite Hpc; exact I.
Qed.

(* ---- the whole system, seen from counter k ---- *)
Inductive xstep (listed : bool) : state -> state -> Prop :=
  | X_stutter st : xstep listed st st
  | X_step st i : xstep listed st (step np0 st i)
  | X_redo s ts i u : nth_error ts i = Some u -> t_pc u = CIdle -> xstep listed (s, ts) (s, upd ts i (with_pc u IvLoad))
  | X_skip s ts i u : listed = false -> (i mod 3 <> 2)%nat -> nth_error ts i = Some u -> t_pc u = IvLoad ->
      xstep listed (s, ts) (s, upd ts i (to_close u)).

Lemma tproj_shape k t : exists a b c, tproj k t = [a; b; c].
Proof. unfold tproj. eauto. Qed.

Lemma tsproj_nth k ts : forall i t r u, nth_error ts i = Some t -> nth_error (tproj k t) r = Some u ->
  nth_error (tsproj k ts) (3 * i + r) = Some u.
Proof.
  induction ts as [|x ts IH]; intros [|i] t r u H Hr; cbn [nth_error] in H; try discriminate.
  - injection H as ->. destruct (tproj_shape k t) as (a & b & c & E). unfold tsproj. cbn [flat_map]. rewrite E in *.
    destruct r as [|[|[|r]]]; cbn in *; try exact Hr. destruct r; discriminate.
  - specialize (IH _ _ _ _ H Hr). destruct (tproj_shape k x) as (a & b & c & E). unfold tsproj in *. cbn [flat_map]. rewrite E.
    replace (3 * S i + r)%nat with (S (S (S (3 * i + r)))) by lia. exact IH.
Qed.

Lemma tsproj_upd k ts : forall i t t' r u u', nth_error ts i = Some t -> nth_error (tproj k t) r = Some u ->
  tproj k t' = upd (tproj k t) r u' -> tsproj k (upd ts i t') = upd (tsproj k ts) (3 * i + r) u'.
Proof.
  induction ts as [|x ts IH]; intros [|i] t t' r u u' H Hr E; cbn [nth_error] in H; try discriminate.
  - injection H as ->. destruct (tproj_shape k t) as (a & b & c & Et). unfold tsproj. cbn [upd flat_map]. rewrite E, Et in *.
    destruct r as [|[|[|r]]]; cbn in *; try reflexivity. destruct r; discriminate.
  - specialize (IH _ _ _ _ _ _ H Hr E). destruct (tproj_shape k x) as (a & b & c & Ex). unfold tsproj in *. cbn [upd flat_map]. rewrite Ex.
    replace (3 * S i + r)%nat with (S (S (S (3 * i + r)))) by lia. cbn [app upd]. rewrite IH. reflexivity.
Qed.

Lemma tsproj_same k ts : forall i t t', nth_error ts i = Some t -> tproj k t' = tproj k t -> tsproj k (upd ts i t') = tsproj k ts.
Proof.
  induction ts as [|x ts IH]; intros [|i] t t' H E; cbn [nth_error] in H; try discriminate.
  - injection H as ->. unfold tsproj. cbn [upd flat_map]. rewrite E. reflexivity.
  - unfold tsproj in *. cbn [upd flat_map]. rewrite (IH _ _ _ H E). reflexivity.
Qed.

(* C03, several counters: every step of the multi-counter system is, for every
   counter k, a stutter, one step of the single-counter system, or one of the
   two registration transitions *)
Theorem mstep_projects k st i : (k < length (ms_ctrs (fst st)))%nat ->
  ms_chk (fst (mstep st i)) = false -> ms_bad (fst (mstep st i)) = false ->
  xstep (memn k (ms_list (fst st))) (sproj k st) (sproj k (mstep st i)).
Proof.
  destruct st as [ms ts]. cbn [fst]. intros Hk C B. unfold mstep in *.
  destruct (nth_error ts i) as [t|] eqn:Hn; [|apply X_stutter].
  destruct (mstep_thread ms t) as [ms' t'] eqn:Hs. cbn [fst] in C, B.
  pose proof (mstep_thread_lstep k ms t ms' t' Hk Hs C B) as L.
  unfold sproj. cbn [fst snd]. destruct L as [P T|r u Hr P T|r u P Hr Hpc T|r u P Hr Hpc Hl Hr2 T].
  - rewrite P, (tsproj_same k ts i t t' Hn T). apply X_stutter.
  - rewrite (tsproj_upd k ts i t t' r u _ Hn Hr T), <- P.
    pose proof (tsproj_nth k ts i t r u Hn Hr) as Hx.
    replace (fst (step_thread np0 (proj k ms) u), upd (tsproj k ts) (3 * i + r) (snd (step_thread np0 (proj k ms) u)))
      with (step np0 (proj k ms, tsproj k ts) (3 * i + r)); [apply X_step|].
    unfold step. rewrite Hx. destruct (step_thread np0 (proj k ms) u); reflexivity.
  - rewrite P, (tsproj_upd k ts i t t' r u _ Hn Hr T). apply X_redo; [exact (tsproj_nth k ts i t r u Hn Hr) | exact Hpc].
  - rewrite P, (tsproj_upd k ts i t t' r u _ Hn Hr T). apply X_skip; [exact Hl | | exact (tsproj_nth k ts i t r u Hn Hr) | exact Hpc].
    rewrite Nat.add_comm, Nat.mul_comm, Nat.mod_add by lia. rewrite Nat.mod_small by lia. lia.
Qed.

(* ---- the single-counter invariant along the extra transitions ---- *)
Lemma inv_replace T s ts i u u' :
  Inv T (s, ts) -> nth_error ts i = Some u ->
  rd u' = rd u -> lk u' = lk u -> carry u' = carry u -> undep u' = undep u -> needs_ptr u' = needs_ptr u ->
  pendR u' = pendR u -> look u' = look u -> xr u' = xr u -> gp u' = gp u -> tl_ok u' -> crashed u' = false ->
  (pendI u <= pendI u' \/
   (pendI u' = pendI u - 1 /\ (2 <= sumf pendI ts \/ (w_have (s_word s) = false /\ w_extra (s_word s) = 0)))) ->
  Inv T (s, upd ts i u').
Proof.
  intros I Hn E1 E2 E3 E4 E5 E6 E7 E8 E9 TL' CR' J.
  destruct I as (r & h & e & F & C & TL & W & NP & CR & SO & LEN & LE & EQ).
  exists r, h, e. split; [exact F|].
  rewrite (sumf_upd rd _ _ _ u' Hn), (sumf_upd lk _ _ _ u' Hn), (sumf_upd carry _ _ _ u' Hn),
    (sumf_upd undep _ _ _ u' Hn), (sumf_upd needs_ptr _ _ _ u' Hn), (sumf_upd pendI _ _ _ u' Hn),
    (sumf_upd pendR _ _ _ u' Hn), (sumf_upd look _ _ _ u' Hn), (sumf_upd xr _ _ _ u' Hn), (sumf_upd gp _ _ _ u' Hn).
  rewrite E1, E2, E3, E4, E5, E6, E7, E8, E9.
  replace (sumf rd ts - rd u + rd u) with (sumf rd ts) by lia.
  replace (sumf lk ts - lk u + lk u) with (sumf lk ts) by lia.
  replace (sumf carry ts - carry u + carry u) with (sumf carry ts) by lia.
  replace (sumf undep ts - undep u + undep u) with (sumf undep ts) by lia.
  replace (sumf needs_ptr ts - needs_ptr u + needs_ptr u) with (sumf needs_ptr ts) by lia.
  replace (sumf pendR ts - pendR u + pendR u) with (sumf pendR ts) by lia.
  replace (sumf look ts - look u + look u) with (sumf look ts) by lia.
  replace (sumf xr ts - xr u + xr u) with (sumf xr ts) by lia.
  replace (sumf gp ts - gp u + gp u) with (sumf gp ts) by lia.
  split; [exact C|]. split; [apply Forall_upd; assumption|]. split; [exact W|]. split; [exact NP|].
  split; [apply Forall_upd; assumption|].
  split.
  { destruct SO as (S1 & S2 & S3 & S4 & S5). unfold S_ok.
    rewrite (fields_have _ _ _ _ F), (fields_extra _ _ _ _ F) in J.
    split; [|split; [exact S2|split; [exact S3|split; [|exact S5]]]].
    - intros Hh Hne Hlo. specialize (S1 Hh Hne Hlo). destruct J as [J|(J1 & [J2|[J2 _]])]; [lia|lia|congruence].
    - intros He. destruct (S4 He) as [X|[X|[X|X]]]; auto.
      destruct J as [J|(J1 & [J2|[_ J2]])]; [right; right; right; lia| |lia].
      right; right; right. assert (0 <= sumf pendR ts).
      { apply sumf_nonneg. intros x _. unfold pendR. destruct (t_pc x); lia. } lia. }
  rewrite upd_length. split; [exact LEN|]. split; [exact LE|exact EQ].
Qed.

Lemma inv_redo T s ts i u : Inv T (s, ts) -> nth_error ts i = Some u -> t_pc u = CIdle ->
  Inv T (s, upd ts i (with_pc u IvLoad)).
Proof.
  intros I Hn Hpc. pose proof I as (r & h & e & _ & _ & TL & _).
  pose proof (nth_error_Forall _ _ _ _ TL Hn) as [Ta _].
  apply (inv_replace T s ts i u); auto;
    unfold rd, lk, carry, undep, needs_ptr, pendR, look, xr, gp, pendI, crashed, tl_ok; cbn [with_pc t_pc t_amt t_st]; rewrite ?Hpc; try reflexivity.
  - split; [exact Ta | intros X; discriminate].
  - left. lia.
Qed.

Lemma to_close_pc u : t_pc (to_close u) = CClose \/ t_pc (to_close u) = Done.
Proof. unfold to_close. destruct (t_prev u); cbn; auto. Qed.

Lemma inv_skip T s ts i u : Inv T (s, ts) -> nth_error ts i = Some u -> t_pc u = IvLoad ->
  (2 <= sumf pendI ts \/ (w_have (s_word s) = false /\ w_extra (s_word s) = 0)) ->
  Inv T (s, upd ts i (to_close u)).
Proof.
  intros I Hn Hpc J. pose proof I as (r & h & e & _ & _ & TL & _).
  pose proof (nth_error_Forall _ _ _ _ TL Hn) as [Ta _].
  assert (A : t_amt (to_close u) = t_amt u) by (unfold to_close; destruct (t_prev u); reflexivity).
  apply (inv_replace T s ts i u); auto;
    unfold rd, lk, carry, undep, needs_ptr, pendR, look, xr, gp, pendI, crashed, tl_ok; rewrite ?Hpc;
    try (destruct (to_close_pc u) as [X|X]; rewrite X; reflexivity).
  - split; [rewrite A; exact Ta|]. destruct (to_close_pc u) as [X|X]; rewrite X; intros; discriminate.
  - right. split; [destruct (to_close_pc u) as [X|X]; rewrite X; reflexivity | exact J].
Qed.

(* ---- what no step changes ---- *)
Definition frame (ms ms' : mshared) : Prop :=
  length (ms_ctrs ms') = length (ms_ctrs ms) /\
  (ms_chk ms = true -> ms_chk ms' = true) /\ (ms_bad ms = true -> ms_bad ms' = true) /\
  (exists l, ms_list ms' = l ++ ms_list ms).

Lemma frame_refl ms : frame ms ms.
Proof. repeat split; auto. exists []. reflexivity. Qed.
Lemma frame_inj c ms s : frame ms (inj c ms s).
Proof. unfold frame, inj. cbn. rewrite upd_len. repeat split; auto. exists []. reflexivity. Qed.
Lemma frame_chk ms ms' b : frame ms ms' -> frame ms (set_chk ms' b).
Proof. intros (A & B & C & D). unfold frame. cbn. repeat split; auto. intros X. rewrite (B X). reflexivity. Qed.
Lemma frame_bad ms ms' b : frame ms ms' -> frame ms (set_bad ms' b).
Proof. intros (A & B & C & D). unfold frame. cbn. repeat split; auto. intros X. rewrite (C X). reflexivity. Qed.

Lemma core_frame ms t ms' t' : mstep_core ms t = (ms', t') -> frame ms ms'.
Proof.
  intros H. unfold mstep_core in H. destruct (m_pc t).
  - destruct (m_isadd t); injection H as <- <-; apply frame_chk, frame_refl.
  - destruct (claimed ms (m_k t)); injection H as <- <-; apply frame_refl.
  - injection H as <- <-; apply frame_refl.
  - destruct (m_wrote t); [|destruct (claimed ms (m_k t))]; injection H as <- <-; try apply frame_refl.
    apply frame_chk. unfold frame. cbn. repeat split; auto. exists []. reflexivity.
  - destruct (onat_eqb _ _); injection H as <- <-; try apply frame_refl.
    unfold frame. cbn. repeat split; auto. exists [m_k t]. reflexivity.
  - injection H as <- <-; apply frame_refl.
  - injection H as <- <-; apply frame_refl.
  - injection H as <- <-; apply frame_refl.
  - cbv zeta in H. destruct (step_thread np0 _ _) as [s' u'].
    destruct (_ && m_grown t); [injection H as <- <-; apply frame_bad, frame_refl|].
    destruct (pc_is _ LLook2 && _); [injection H as <- <-; apply frame_chk, frame_inj|].
    destruct (m_walks t); [destruct (pc_is (t_pc u') Done); [destruct (m_role t)|]|destruct (visit_ended _ _ _)];
      injection H as <- <-; apply frame_chk, frame_inj.
  - injection H as <- <-. apply frame_chk. unfold frame, store_new. cbn. rewrite map_length. repeat split; auto. exists []. reflexivity.
  - injection H as <- <-; apply frame_refl.
  - destruct (m_walks t); injection H as <- <-; [apply frame_chk, frame_refl|apply frame_bad, frame_chk, frame_refl].
  - injection H as <- <-; apply frame_refl.
  - destruct (m_walks t) as [|w ws]; [injection H as <- <-; apply frame_chk, frame_refl|].
    destruct (w_own w) as [[r c]|].
    + destruct (step_thread np0 _ _) as [s' u']. injection H as <- <-. apply frame_chk, frame_inj.
    + destruct (m_prev t); injection H as <- <-; apply frame_chk; [|apply frame_refl].
      unfold frame. cbn. repeat split; auto. exists []. reflexivity.
  - injection H as <- <-; apply frame_refl.
Qed.

Lemma mstep_frame st i : frame (fst st) (fst (mstep st i)).
Proof.
  destruct st as [ms ts]. unfold mstep. destruct (nth_error ts i) as [t|]; [|apply frame_refl].
  unfold mstep_thread. destruct (mstep_core ms t) as [ms1 t1] eqn:E. cbn [fst snd].
  apply frame_chk. exact (core_frame _ _ _ _ E).
Qed.

(* ---- initial states ---- *)
Definition zero_thread (t : thread) : Prop :=
  rd t = 0 /\ lk t = 0 /\ carry t = 0 /\ needs_ptr t = 0 /\ crashed t = false /\ tl_ok t /\
  undep t = unbegun t /\ pendI t = 0 /\ pendR t = 0 /\ look t = 0 /\ xr t = 0 /\ gp t = 0.

Theorem inv_init_z s ts :
  0 <= s_word s < W64 -> wf s -> Forall zero_thread ts -> Z.of_nat (length ts) < LOCKED ->
  w_readers (s_word s) = 0 -> init_clean s ->
  Inv (persisted s + w_extra (s_word s) + sumf unbegun ts) (s, ts).
Proof.
  intros Hw W FR LEN R0 (IC1 & IC2 & IC3).
  pose proof (fields_of _ Hw) as F. rewrite R0 in F.
  assert (M : sumf rd ts = 0 /\ sumf lk ts = 0 /\ sumf carry ts = 0 /\ sumf needs_ptr ts = 0 /\
              Forall tl_ok ts /\ Forall (fun t => crashed t = false) ts /\ sumf undep ts = sumf unbegun ts /\
              sumf pendI ts = 0 /\ sumf pendR ts = 0 /\ sumf look ts = 0 /\ sumf xr ts = 0 /\ sumf gp ts = 0).
  { clear -FR. induction ts as [|t ts IH]; cbn [sumf]; [repeat split; constructor|].
    inversion FR as [|? ? Ft FR']; subst. destruct (IH FR') as (A & B & C & D & E & G & H & I1 & I2 & I3 & I4 & I5).
    destruct Ft as (a & b & c & d & e & g & h & i1 & i2 & i3 & i4 & i5).
    repeat split; try lia; constructor; assumption. }
  destruct M as (M1 & M2 & M3 & M4 & M5 & M6 & M7 & M8 & M9 & M10 & M11 & M12).
  exists 0, (w_have (s_word s)), (w_extra (s_word s)).
  split; [exact F|]. rewrite M1, M2, M3, M4, M7, M8, M9, M10, M11, M12.
  split; [unfold cnt_ok; right; lia|]. split; [exact M5|]. split; [exact W|].
  split; [intros; lia|]. split; [exact M6|].
  split.
  { unfold S_ok. split; [intros Hh Hne _; exfalso; apply Hne; apply IC1; exact Hh|].
    split; [intros; lia|]. split; [intros _ Hh Hp; apply IC2; assumption|].
    split; [intros He; right; right; left; apply IC3; exact He|]. intros; lia. }
  split; [exact LEN|].
  split; [lia|]. intros _. lia.
Qed.

Lemma zero_of_pc t : 0 <= t_amt t ->
  match t_pc t with AIdle | CIdle | CPre | CStore | Done => True | _ => False end -> zero_thread t.
Proof.
  intros Ha Hp. unfold zero_thread, rd, lk, carry, needs_ptr, crashed, tl_ok, undep, unbegun, pendI, pendR, look, xr, gp.
  destruct (t_pc t); try contradiction; repeat split; try lia; try reflexivity; intros; discriminate.
Qed.

Definition mthread_init (nc : nat) (t : mthread) : Prop :=
  (exists k n, (k < nc)%nat /\ 0 <= n /\ t = adderM nc k n) \/ (exists tg, t = changerM nc tg).

Lemma nth_repeat {A} (x d : A) n k : nth k (repeat x n) d = if Nat.ltb k n then x else d.
Proof.
  revert k; induction n as [|n IH]; intros [|k]; cbn; auto. rewrite IH. reflexivity.
Qed.

Lemma tproj_init_zero nc k t : mthread_init nc t -> Forall zero_thread (tproj k t).
Proof.
  assert (Z1 : forall u n, zero_thread u -> zero_thread (nth k (repeat u n) dflt)).
  { intros u n Hu. rewrite nth_repeat. destruct (Nat.ltb k n); [exact Hu|]. apply zero_of_pc; cbn; [lia|exact I]. }
  assert (Zd : zero_thread dflt) by (apply zero_of_pc; cbn; [lia|exact I]).
  assert (Zn : zero_thread nest0) by (apply zero_of_pc; cbn; [lia|exact I]).
  assert (Zr : zero_thread redo0) by (apply zero_of_pc; cbn; [lia|exact I]).
  intros [(k' & n & Hk & Hn & ->)|(tg & ->)]; unfold tproj, adderM, changerM; cbn [m_main m_nest m_redo m_isadd m_k].
  - constructor; [|constructor; [|constructor; [|constructor]]].
    + destruct (Nat.eq_dec k k') as [->|Ne].
      * rewrite nth_upd_same by (rewrite repeat_length; exact Hk). apply zero_of_pc; cbn; [exact Hn|exact I].
      * rewrite nth_upd_other by exact Ne. apply Z1. exact Zd.
    + apply Z1. exact Zn.
    + destruct (true && Nat.eqb k k'); assumption.
  - constructor; [|constructor; [|constructor; [|constructor]]].
    + apply Z1. apply zero_of_pc; cbn; [lia|exact I].
    + apply Z1. exact Zn.
    + cbn. exact Zd.
Qed.

Lemma tsproj_init_zero nc k ts : Forall (mthread_init nc) ts -> Forall zero_thread (tsproj k ts).
Proof.
  induction 1 as [|t ts Ht _ IH]; unfold tsproj; cbn [flat_map]; [constructor|].
  apply Forall_app. split; [exact (tproj_init_zero nc k t Ht) | exact IH].
Qed.
Lemma tsproj_length k ts : length (tsproj k ts) = (3 * length ts)%nat.
Proof. induction ts as [|t ts IH]; [reflexivity|]. unfold tsproj in *. cbn [flat_map length]. rewrite app_length, IH. cbn. lia. Qed.

Definition mgood (ms : mshared) (ts : list mthread) : Prop :=
  ms_chk ms = false /\ ms_bad ms = false /\
  Forall (mthread_init (length (ms_ctrs ms))) ts /\ Z.of_nat (3 * length ts) < LOCKED /\
  forall k, (k < length (ms_ctrs ms))%nat ->
    0 <= s_word (proj k ms) < W64 /\ wf (proj k ms) /\ w_readers (s_word (proj k ms)) = 0 /\ init_clean (proj k ms).

Definition total_k (k : nat) (ms : mshared) (ts : list mthread) : Z :=
  persisted (proj k ms) + w_extra (s_word (proj k ms)) + sumf unbegun (tsproj k ts).

Lemma mgood_inv ms ts k : mgood ms ts -> (k < length (ms_ctrs ms))%nat -> Inv (total_k k ms ts) (sproj k (ms, ts)).
Proof.
  intros (_ & _ & FT & LEN & G) Hk. destruct (G k Hk) as (A & B & C & D).
  unfold sproj, total_k. cbn [fst snd]. apply inv_init_z; auto.
  - exact (tsproj_init_zero _ k ts FT).
  - rewrite tsproj_length. exact LEN.
Qed.

(* ---- runs ---- *)
Lemma frame_trans a b c : frame a b -> frame b c -> frame a c.
Proof.
  intros (A1 & A2 & A3 & (l1 & A4)) (B1 & B2 & B3 & (l2 & B4)). unfold frame.
  split; [congruence|]. split; [auto|]. split; [auto|].
  exists (l2 ++ l1). rewrite B4, A4, app_assoc. reflexivity.
Qed.
Lemma mrun_frame sched : forall st, frame (fst st) (fst (mrun sched st)).
Proof.
  induction sched as [|i sched IH]; intros st; [apply frame_refl|].
  cbn [mrun fold_left]. eapply frame_trans; [apply (mstep_frame st i) | apply IH].
Qed.

Definition all_listed (ms : mshared) : Prop :=
  forall k, (k < length (ms_ctrs ms))%nat -> memn k (ms_list ms) = true.

Lemma memn_app x l1 l2 : memn x l2 = true -> memn x (l1 ++ l2) = true.
Proof. intros H. induction l1 as [|y l1 IH]; cbn; [exact H|]. rewrite IH. apply orb_true_r. Qed.
Lemma frame_listed a b : frame a b -> all_listed a -> all_listed b.
Proof.
  intros (A1 & _ & _ & (l & A4)) L k Hk. rewrite A1 in Hk. specialize (L k Hk).
  rewrite A4. apply memn_app. exact L.
Qed.

Lemma mstep_done_ok st i : Forall (fun t => done_ok t = true) (snd st) -> ms_chk (fst (mstep st i)) = false ->
  Forall (fun t => done_ok t = true) (snd (mstep st i)).
Proof.
  destruct st as [ms ts]. cbn [snd fst]. intros F C. unfold mstep in *.
  destruct (nth_error ts i) as [t|]; [|exact F]. unfold mstep_thread in *.
  destruct (mstep_core ms t) as [ms1 t1]. cbn [fst snd] in *.
  apply orb_false_iff in C as [_ C]. apply negb_false_iff in C. apply andb_true_iff in C as [_ C].
  apply Forall_upd; assumption.
Qed.

Lemma xstep_inv_listed T st st' : xstep true st st' -> Inv T st -> Inv T st'.
Proof.
  intros X I. destruct X as [st|st i|s ts i u Hn Hpc|s ts i u Hl Hm Hn Hpc].
  - exact I.
  - apply inv_step. exact I.
  - apply inv_redo; assumption.
  - discriminate.
Qed.

Lemma mrun_inv_listed (T : nat -> Z) sched : forall st,
  all_listed (fst st) -> Forall (fun t => done_ok t = true) (snd st) ->
  (forall k, (k < length (ms_ctrs (fst st)))%nat -> Inv (T k) (sproj k st)) ->
  ms_chk (fst (mrun sched st)) = false -> ms_bad (fst (mrun sched st)) = false ->
  (forall k, (k < length (ms_ctrs (fst st)))%nat -> Inv (T k) (sproj k (mrun sched st))) /\
  Forall (fun t => done_ok t = true) (snd (mrun sched st)).
Proof.
  induction sched as [|i sched IH]; intros st L Q I C B; [split; assumption|].
  cbn [mrun fold_left] in *. fold (mrun sched (mstep st i)) in *.
  pose proof (mstep_frame st i) as F1. pose proof (mrun_frame sched (mstep st i)) as F2.
  assert (C1 : ms_chk (fst (mstep st i)) = false).
  { destruct F2 as (_ & X & _). destruct (ms_chk (fst (mstep st i))); [rewrite X in C by reflexivity; discriminate | reflexivity]. }
  assert (B1 : ms_bad (fst (mstep st i)) = false).
  { destruct F2 as (_ & _ & X & _). destruct (ms_bad (fst (mstep st i))); [rewrite X in B by reflexivity; discriminate | reflexivity]. }
  assert (N : length (ms_ctrs (fst (mstep st i))) = length (ms_ctrs (fst st))) by apply F1.
  destruct (IH (mstep st i)) as [I' Q']; auto.
  - exact (frame_listed _ _ F1 L).
  - apply mstep_done_ok; assumption.
  - intros k Hk. rewrite N in Hk. apply (xstep_inv_listed (T k) (sproj k st)); [|apply I; exact Hk].
    rewrite <- (L k Hk). apply mstep_projects; assumption.
  - split; [|exact Q']. intros k Hk. apply I'. rewrite N. exact Hk.
Qed.

(* ---- consequences of the invariant for one counter's view ---- *)
From Tele Require Import Proofs.CounterThms.

Lemma inv_upper T s ts : Inv T (s, ts) -> persisted s + w_extra (s_word s) <= T - sumf unbegun ts.
Proof.
  intros (r & h & e & F & C & TL & W & _ & _ & _ & _ & LE & _).
  rewrite (fields_extra _ _ _ _ F).
  assert (0 <= sumf carry ts).
  { apply sumf_nonneg. intros t Ht. rewrite Forall_forall in TL. apply (tl_measures t (TL t Ht)). }
  assert (sumf unbegun ts <= sumf undep ts).
  { apply sumf_le. intros t Ht. rewrite Forall_forall in TL. apply (tl_measures t (TL t Ht)). }
  lia.
Qed.

Lemma quiet_measures ts : Forall (fun u => quietb u = true) ts ->
  sumf carry ts = 0 /\ sumf undep ts = 0 /\ sumf unbegun ts = 0 /\ sumf rd ts = 0 /\ sumf lk ts = 0.
Proof.
  induction 1 as [|t ts Ht _ IH]; cbn [sumf]; [lia|].
  assert (M : carry t = 0 /\ undep t = 0 /\ unbegun t = 0 /\ rd t = 0 /\ lk t = 0).
  { unfold quietb in Ht. unfold carry, undep, unbegun, rd, lk. destruct (t_pc t); try discriminate; lia. }
  lia.
Qed.

Lemma inv_exact T s ts : Inv T (s, ts) -> Forall (fun u => quietb u = true) ts -> s_sat s = false ->
  persisted s + w_extra (s_word s) = T /\ w_readers (s_word s) = 0.
Proof.
  intros (r & h & e & F & C & TL & W & _ & _ & _ & _ & _ & EQ) Q S.
  destruct (quiet_measures _ Q) as (A & B & _ & Rz & Lz).
  rewrite (fields_extra _ _ _ _ F), (fields_readers _ _ _ _ F). specialize (EQ S).
  unfold cnt_ok in C. rewrite LOCKED_v in *. split; lia.
Qed.

Lemma nth_quiet l k : forallb quietb l = true -> quietb (nth k l dflt) = true.
Proof.
  intros H. destruct (Nat.lt_ge_cases k (length l)) as [Hk|Hk].
  - apply forallb_nth; assumption.
  - rewrite nth_overflow by exact Hk. reflexivity.
Qed.

Lemma done_quiet k ts : Forall (fun t => done_ok t = true) ts -> m_all_done ts = true ->
  Forall (fun u => quietb u = true) (tsproj k ts).
Proof.
  induction 1 as [|t ts Ht _ IH]; cbn [m_all_done forallb]; intros D; [constructor|].
  apply andb_true_iff in D as [D1 D2]. unfold tsproj. cbn [flat_map]. apply Forall_app. split; [|apply IH; exact D2].
  unfold m_done in D1. unfold done_ok in Ht. destruct (m_pc t); try discriminate.
  apply andb_true_iff in Ht as [Ht Q3]. apply andb_true_iff in Ht as [Q1 Q2].
  unfold tproj. constructor; [apply nth_quiet; exact Q1|]. constructor; [apply nth_quiet; exact Q2|].
  constructor; [|constructor]. destruct (m_isadd t && Nat.eqb k (m_k t)); [exact Q3|reflexivity].
Qed.

Lemma init_done_ok nc ts : Forall (mthread_init nc) ts -> Forall (fun t => done_ok t = true) ts.
Proof.
  induction 1 as [|t ts Ht _ IH]; constructor; [|exact IH].
  destruct Ht as [(k & n & _ & _ & ->)|(tg & ->)]; reflexivity.
Qed.

(* ---- registration racing with the walks: who answers for a counter that is
        not on the list ---- *)
Definition reg_phase (t : mthread) : bool :=
  match m_pc t with MRHead | MRNext | MRLink | MRDbgFail => true | _ => false end.

(* c.next is claimed only by register's CAS, and the claimer is then on its way
   to link the counter, with the redo pending *)
Lemma core_claim ms t ms' t' : mstep_core ms t = (ms', t') -> ms_chk ms' = false ->
  ms_claimed ms' = ms_claimed ms \/
  (ms_claimed ms' = upd (ms_claimed ms) (m_k t) true /\ m_isadd t' = true /\ m_k t' = m_k t /\ m_wrote t' = true /\
   reg_phase t' = true /\ t_pc (m_redo t') = IvLoad).
Proof.
  intros H C. unfold mstep_core in H. destruct (m_pc t).
  - destruct (m_isadd t); injection H as <- <-; left; reflexivity.
  - destruct (claimed ms (m_k t)); injection H as <- <-; left; reflexivity.
  - injection H as <- <-; left; reflexivity.
  - destruct (m_wrote t); [|destruct (claimed ms (m_k t))]; injection H as <- <-; try (left; reflexivity).
    right. cbn in C. apply orb_false_iff in C as [_ C]. apply negb_false_iff in C. apply andb_true_iff in C as [_ C].
    cbn. repeat split; auto.
  - destruct (onat_eqb _ _); injection H as <- <-; left; reflexivity.
  - injection H as <- <-; left; reflexivity.
  - injection H as <- <-; left; reflexivity.
  - injection H as <- <-; left; reflexivity.
  - cbv zeta in H. destruct (step_thread np0 _ _) as [s' u'].
    destruct (_ && m_grown t); [injection H as <- <-; left; reflexivity|].
    destruct (pc_is _ LLook2 && _); [injection H as <- <-; left; reflexivity|].
    destruct (m_walks t); [destruct (pc_is (t_pc u') Done); [destruct (m_role t)|]|destruct (visit_ended _ _ _)];
      injection H as <- <-; left; reflexivity.
  - injection H as <- <-. left; reflexivity.
  - injection H as <- <-; left; reflexivity.
  - destruct (m_walks t); injection H as <- <-; left; reflexivity.
  - injection H as <- <-; left; reflexivity.
  - destruct (m_walks t) as [|w ws]; [injection H as <- <-; left; reflexivity|].
    destruct (w_own w) as [[r c]|].
    + destruct (step_thread np0 _ _) as [s' u']. injection H as <- <-. left; reflexivity.
    + destruct (m_prev t); injection H as <- <-; left; reflexivity.
  - injection H as <- <-; left; reflexivity.
Qed.

(* the claimer stays on its way until the counter is on the list *)
Lemma core_reg ms t ms' t' : mstep_core ms t = (ms', t') -> m_wrote t = true -> reg_phase t = true ->
  (m_isadd t' = m_isadd t /\ m_k t' = m_k t /\ m_wrote t' = true /\ reg_phase t' = true /\ m_redo t' = m_redo t) \/
  memn (m_k t) (ms_list ms') = true.
Proof.
  intros H W R. unfold mstep_core in H. unfold reg_phase in R. destruct (m_pc t); try discriminate.
  - injection H as <- <-. left. cbn. auto.
  - rewrite W in H. injection H as <- <-. left. cbn. auto.
  - destruct (onat_eqb _ _); injection H as <- <-.
    + right. cbn. rewrite Nat.eqb_refl. reflexivity.
    + left. cbn. auto.
  - injection H as <- <-. left. cbn. auto.
Qed.

(* a counter's word is written only through a focus on that counter, and a
   focus is always on a claimed counter *)
Lemma getc_inj_other c k ms s : k <> c -> getc (inj c ms s) k = getc ms k.
Proof. intros H. unfold getc, inj. cbn. apply nth_upd_other. exact H. Qed.

Lemma core_word k ms t ms' t' : (k < length (ms_ctrs ms))%nat -> mstep_core ms t = (ms', t') -> focus_ok ms t = true ->
  c_word (getc ms' k) = c_word (getc ms k) \/ claimed ms k = true.
Proof.
  intros Hk H Fo. unfold mstep_core in H. unfold focus_ok in Fo. destruct (m_pc t).
  - destruct (m_isadd t); injection H as <- <-; left; reflexivity.
  - destruct (claimed ms (m_k t)); injection H as <- <-; left; reflexivity.
  - injection H as <- <-; left; reflexivity.
  - destruct (m_wrote t); [|destruct (claimed ms (m_k t))]; injection H as <- <-; left; reflexivity.
  - destruct (onat_eqb _ _); injection H as <- <-; left; reflexivity.
  - injection H as <- <-; left; reflexivity.
  - injection H as <- <-; left; reflexivity.
  - injection H as <- <-; left; reflexivity.
  - apply rc_ok_claimed in Fo. cbv zeta in H. destruct (step_thread np0 _ _) as [s' u'].
    destruct (Nat.eq_dec k (m_c t)) as [->|Ne]; [right; exact Fo|left].
    destruct (_ && m_grown t); [injection H as <- <-; reflexivity|].
    destruct (pc_is _ LLook2 && _); [injection H as <- <-; cbn [set_chk]; change (c_word (getc (inj (m_c t) ms s') k) = c_word (getc ms k)); rewrite getc_inj_other by exact Ne; reflexivity|].
    destruct (m_walks t); [destruct (pc_is (t_pc u') Done); [destruct (m_role t)|]|destruct (visit_ended _ _ _)];
      injection H as <- <-; change (c_word (getc (inj (m_c t) ms s') k) = c_word (getc ms k)); rewrite getc_inj_other by exact Ne; reflexivity.
  - injection H as <- <-. left. unfold getc, store_new. cbn [ms_ctrs set_chk].
    match goal with |- context [nth k (map ?g _) ctr0] =>
      rewrite (nth_indep (map g (ms_ctrs ms)) ctr0 (g ctr0)) by (rewrite map_length; exact Hk); rewrite (map_nth g) end.
    reflexivity.
  - injection H as <- <-; left; reflexivity.
  - destruct (m_walks t); injection H as <- <-; left; reflexivity.
  - injection H as <- <-; left; reflexivity.
  - destruct (m_walks t) as [|w ws]; [injection H as <- <-; left; reflexivity|].
    destruct (w_own w) as [[r c]|].
    + apply rc_ok_claimed in Fo. destruct (step_thread np0 _ _) as [s' u']. injection H as <- <-.
      destruct (Nat.eq_dec k c) as [->|Ne]; [right; exact Fo|left].
      change (c_word (getc (inj c ms s') k) = c_word (getc ms k)). rewrite getc_inj_other by exact Ne. reflexivity.
    + destruct (m_prev t); injection H as <- <-; left; reflexivity.
  - injection H as <- <-; left; reflexivity.
Qed.

Definition RI (st : mstate) : Prop :=
  forall k, (k < length (ms_ctrs (fst st)))%nat ->
    (claimed (fst st) k = false -> c_word (getc (fst st) k) = 0) /\
    (claimed (fst st) k = true -> memn k (ms_list (fst st)) = false ->
       exists i t, nth_error (snd st) i = Some t /\ m_isadd t = true /\ m_k t = k /\ m_wrote t = true /\
                   reg_phase t = true /\ t_pc (m_redo t) = IvLoad).

Lemma nth_upd_true l c k : nth k l false = true -> nth k (upd l c true) false = true.
Proof.
  revert c k; induction l as [|x l IH]; intros [|c] [|k] H; cbn in *; auto.
Qed.
Lemma nth_error_upd_same {A} (l : list A) i x y : nth_error l i = Some y -> nth_error (upd l i x) i = Some x.
Proof. revert i; induction l as [|z l IH]; intros [|i] H; cbn in *; try discriminate; auto. Qed.
Lemma nth_error_upd_other {A} (l : list A) i j x : i <> j -> nth_error (upd l i x) j = nth_error l j.
Proof. revert i j; induction l as [|z l IH]; intros [|i] [|j] H; cbn; auto; congruence. Qed.
Lemma memn_app_false x l1 l2 : memn x (l1 ++ l2) = false -> memn x l2 = false.
Proof. intros H. destruct (memn x l2) eqn:E; [|reflexivity]. rewrite (memn_app x l1 l2 E) in H. discriminate. Qed.

Lemma mstep_RI st i0 : RI st -> ms_chk (fst (mstep st i0)) = false -> RI (mstep st i0).
Proof.
  destruct st as [ms ts]. intros R C. unfold mstep in *.
  destruct (nth_error ts i0) as [t0|] eqn:Hn; [|exact R].
  unfold mstep_thread in *. destruct (mstep_core ms t0) as [ms1 t1] eqn:Hc. cbn [fst snd] in *.
  apply orb_false_iff in C as [C1 C2]. apply negb_false_iff in C2.
  apply andb_true_iff in C2 as [C2 _]. apply andb_true_iff in C2 as [_ Fo].
  pose proof (core_frame _ _ _ _ Hc) as (N & _ & _ & (l & Hl)).
  pose proof (core_claim _ _ _ _ Hc C1) as CL.
  intros k Hk. cbn [fst snd set_chk ms_ctrs] in Hk |- *. rewrite N in Hk.
  change (claimed (set_chk ms1 _) k) with (claimed ms1 k).
  change (getc (set_chk ms1 _) k) with (getc ms1 k).
  change (ms_list (set_chk ms1 _)) with (ms_list ms1).
  destruct (R k Hk) as [RA RB]. cbn [fst snd] in RA, RB.
  assert (Mono : claimed ms k = true -> claimed ms1 k = true).
  { unfold claimed. destruct CL as [-> | (-> & _)]; [auto|]. apply nth_upd_true. }
  split.
  - intros Hc1. assert (Hc0 : claimed ms k = false) by (destruct (claimed ms k); [rewrite Mono in Hc1 by reflexivity; discriminate|reflexivity]).
    destruct (core_word k _ _ _ _ Hk Hc Fo) as [W|W]; [rewrite W; apply RA; exact Hc0 | congruence].
  - intros Hc1 Hu1. rewrite Hl in Hu1. pose proof Hu1 as Hu1'. apply memn_app_false in Hu1.
    destruct (claimed ms k) eqn:Hc0.
    + destruct (RB eq_refl Hu1) as (i & t & Hi & P1 & P2 & P3 & P4 & P5).
      destruct (Nat.eq_dec i0 i) as [<-|Ne].
      * rewrite Hn in Hi. injection Hi as <-.
        destruct (core_reg _ _ _ _ Hc P3 P4) as [(Q1 & Q2 & Q3 & Q4 & Q5)|Q].
        -- exists i0, t1. rewrite (nth_error_upd_same _ _ _ _ Hn). repeat split; try congruence.
        -- rewrite P2, Hl in Q. congruence.
      * exists i, t. rewrite nth_error_upd_other by exact Ne. repeat split; assumption.
    + destruct CL as [E | (E & Q1 & Q2 & Q3 & Q4 & Q5)].
      * unfold claimed in *. rewrite E in Hc1. congruence.
      * assert (k = m_k t0).
        { destruct (Nat.eq_dec k (m_k t0)) as [X|X]; [exact X|]. unfold claimed in *. rewrite E, nth_upd_other in Hc1 by exact X. congruence. }
        exists i0, t1. rewrite (nth_error_upd_same _ _ _ _ Hn). repeat split; try assumption. congruence.
Qed.

Lemma sumf_one f l : (forall x, 0 <= f x) -> forall i a, nth_error l i = Some a -> f a <= sumf f l.
Proof.
  intros P. induction l as [|x l IH]; intros [|i] a H; cbn in *; try discriminate.
  - injection H as ->. pose proof (sumf_nonneg f l (fun t _ => P t)). lia.
  - specialize (IH _ _ H). pose proof (P x). lia.
Qed.
Lemma sumf_two f l : (forall x, 0 <= f x) -> forall i j a b, nth_error l i = Some a -> nth_error l j = Some b -> i <> j ->
  f a + f b <= sumf f l.
Proof.
  intros P. induction l as [|x l IH]; intros [|i] [|j] a b Ha Hb Ne; cbn in *; try discriminate; try congruence.
  - injection Ha as ->. pose proof (sumf_one f l P _ _ Hb). lia.
  - injection Hb as ->. pose proof (sumf_one f l P _ _ Ha). lia.
  - assert (i <> j) by congruence. specialize (IH _ _ _ _ Ha Hb H). pose proof (P x). lia.
Qed.

Lemma skip_justified k ms ts i u : RI (ms, ts) -> (k < length (ms_ctrs ms))%nat -> memn k (ms_list ms) = false ->
  nth_error (tsproj k ts) i = Some u -> t_pc u = IvLoad -> (i mod 3 <> 2)%nat ->
  2 <= sumf pendI (tsproj k ts) \/ (w_have (s_word (proj k ms)) = false /\ w_extra (s_word (proj k ms)) = 0).
Proof.
  intros R Hk Hu Hi Hpc Hm. destruct (R k Hk) as [RA RB]. cbn [fst snd] in RA, RB.
  destruct (claimed ms k) eqn:Hc.
  - left. destruct (RB eq_refl Hu) as (i1 & t1 & H1 & P1 & P2 & _ & _ & P5).
    assert (Hr : nth_error (tproj k t1) 2 = Some (m_redo t1)).
    { unfold tproj. rewrite P1, P2, Nat.eqb_refl. reflexivity. }
    pose proof (tsproj_nth k ts i1 t1 2 _ H1 Hr) as Hj.
    assert (Ne : i <> (3 * i1 + 2)%nat).
    { intros ->. apply Hm. rewrite Nat.add_comm, Nat.mul_comm, Nat.mod_add by lia. reflexivity. }
    assert (P : forall x, 0 <= pendI x) by (intros x; unfold pendI; destruct (t_pc x); lia).
    pose proof (sumf_two pendI _ P _ _ _ _ Hi Hj Ne) as S.
    unfold pendI at 1 2 in S. rewrite Hpc, P5 in S. lia.
  - right. specialize (RA eq_refl). unfold proj. cbn [s_word]. rewrite RA. split; reflexivity.
Qed.

(* the invariant of every counter's view along every run *)
Lemma mrun_inv (T : nat -> Z) sched : forall st,
  RI st -> Forall (fun t => done_ok t = true) (snd st) ->
  (forall k, (k < length (ms_ctrs (fst st)))%nat -> Inv (T k) (sproj k st)) ->
  ms_chk (fst (mrun sched st)) = false -> ms_bad (fst (mrun sched st)) = false ->
  (forall k, (k < length (ms_ctrs (fst st)))%nat -> Inv (T k) (sproj k (mrun sched st))) /\
  Forall (fun t => done_ok t = true) (snd (mrun sched st)).
Proof.
  induction sched as [|i sched IH]; intros st R Q I C B; [split; assumption|].
  cbn [mrun fold_left] in *. fold (mrun sched (mstep st i)) in *.
  pose proof (mstep_frame st i) as F1. pose proof (mrun_frame sched (mstep st i)) as F2.
  assert (C1 : ms_chk (fst (mstep st i)) = false).
  { destruct F2 as (_ & X & _). destruct (ms_chk (fst (mstep st i))); [rewrite X in C by reflexivity; discriminate | reflexivity]. }
  assert (B1 : ms_bad (fst (mstep st i)) = false).
  { destruct F2 as (_ & _ & X & _). destruct (ms_bad (fst (mstep st i))); [rewrite X in B by reflexivity; discriminate | reflexivity]. }
  assert (N : length (ms_ctrs (fst (mstep st i))) = length (ms_ctrs (fst st))) by apply F1.
  destruct (IH (mstep st i)) as [I' Q']; auto.
  - apply mstep_RI; assumption.
  - apply mstep_done_ok; assumption.
  - intros k Hk. rewrite N in Hk. specialize (I k Hk).
    pose proof (mstep_projects k st i Hk C1 B1) as X.
    destruct st as [ms ts]. unfold sproj in *. cbn [fst snd] in *.
    remember (proj k ms, tsproj k ts) as a eqn:Ea. remember (proj k (fst (mstep (ms, ts) i)), tsproj k (snd (mstep (ms, ts) i))) as b eqn:Eb.
    destruct X as [st0|st0 j|s0 ts0 j u Hn Hpc|s0 ts0 j u Hl Hm Hn Hpc].
    + exact I.
    + apply inv_step. exact I.
    + apply inv_redo; assumption.
    + injection Ea as -> ->. apply inv_skip; try assumption.
      apply (skip_justified k ms ts j u); assumption.
  - split; [|exact Q']. intros k Hk. apply I'. rewrite N. exact Hk.
Qed.

(* ---- the theorems, for every counter of every multi schedule ---- *)
(* initially a counter is on the list (then c.next is set), or nobody has
   touched it: c.next nil and the word zero *)
Definition reg_init (ms : mshared) : Prop :=
  forall k, (k < length (ms_ctrs ms))%nat ->
    (memn k (ms_list ms) = true /\ claimed ms k = true) \/ (claimed ms k = false /\ c_word (getc ms k) = 0).

Lemma reg_init_RI ms ts : reg_init ms -> RI (ms, ts).
Proof.
  intros R k Hk. cbn [fst snd] in *. destruct (R k Hk) as [[A B]|[A B]]; split; intros; try congruence.
Qed.

Theorem multi_inv ms0 ts0 sched k : mgood ms0 ts0 -> reg_init ms0 ->
  ms_chk (fst (mrun sched (ms0, ts0))) = false -> ms_bad (fst (mrun sched (ms0, ts0))) = false ->
  (k < length (ms_ctrs ms0))%nat ->
  Inv (total_k k ms0 ts0) (sproj k (mrun sched (ms0, ts0))) /\
  Forall (fun t => done_ok t = true) (snd (mrun sched (ms0, ts0))).
Proof.
  intros G R C B Hk.
  destruct (mrun_inv (fun k => total_k k ms0 ts0) sched (ms0, ts0)) as [I Q]; auto.
  - apply reg_init_RI. exact R.
  - destruct G as (_ & _ & FT & _). exact (init_done_ok _ _ FT).
  - intros k' Hk'. apply mgood_inv; assumption.
Qed.

Theorem multi_upper_bound ms0 ts0 sched k : mgood ms0 ts0 -> reg_init ms0 ->
  let '(ms, ts) := mrun sched (ms0, ts0) in
  ms_chk ms = false -> ms_bad ms = false -> (k < length (ms_ctrs ms0))%nat ->
  persisted (proj k ms) + w_extra (c_word (getc ms k))
  <= persisted (proj k ms0) + w_extra (c_word (getc ms0 k)) + (sumf unbegun (tsproj k ts0) - sumf unbegun (tsproj k ts)).
Proof.
  intros G R. pose proof (multi_inv ms0 ts0 sched k G R) as M.
  destruct (mrun sched (ms0, ts0)) as [ms ts]. cbn [fst snd] in M. intros C B Hk.
  destruct (M C B Hk) as [I _]. unfold sproj in I. cbn [fst snd] in I. apply inv_upper in I. unfold total_k in I.
  change (s_word (proj k ms)) with (c_word (getc ms k)) in I. change (s_word (proj k ms0)) with (c_word (getc ms0 k)) in I. lia.
Qed.

Theorem multi_exact_at_quiescence ms0 ts0 sched k : mgood ms0 ts0 -> reg_init ms0 ->
  let '(ms, ts) := mrun sched (ms0, ts0) in
  ms_chk ms = false -> ms_bad ms = false -> (k < length (ms_ctrs ms0))%nat ->
  m_all_done ts = true -> c_sat (getc ms k) = false ->
  persisted (proj k ms) + w_extra (c_word (getc ms k))
  = persisted (proj k ms0) + w_extra (c_word (getc ms0 k)) + sumf unbegun (tsproj k ts0) /\
  w_readers (c_word (getc ms k)) = 0.
Proof.
  intros G R. pose proof (multi_inv ms0 ts0 sched k G R) as M.
  destruct (mrun sched (ms0, ts0)) as [ms ts]. cbn [fst snd] in M. intros C B Hk D S.
  destruct (M C B Hk) as [I Q]. unfold sproj in I. cbn [fst snd] in I.
  destruct (inv_exact _ _ _ I (done_quiet k ts Q D) S) as [E Z].
  unfold total_k in E. change (s_word (proj k ms)) with (c_word (getc ms k)) in E, Z. change (s_word (proj k ms0)) with (c_word (getc ms0 k)) in E.
  split; [lia | exact Z].
Qed.

Theorem multi_no_nil_deref ms0 ts0 sched k : mgood ms0 ts0 -> reg_init ms0 ->
  let '(ms, ts) := mrun sched (ms0, ts0) in
  ms_chk ms = false -> ms_bad ms = false -> (k < length (ms_ctrs ms0))%nat ->
  Forall (fun u => crashed u = false) (tsproj k ts).
Proof.
  intros G R. pose proof (multi_inv ms0 ts0 sched k G R) as M.
  destruct (mrun sched (ms0, ts0)) as [ms ts]. cbn [fst snd] in M. intros C B Hk.
  destruct (M C B Hk) as [(r & h & e & _ & _ & _ & _ & _ & CR & _) _]. exact CR.
Qed.
