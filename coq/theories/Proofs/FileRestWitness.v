(* Proofs/FileRestWitness: concrete damaged files (model level) showing what
   each guard of the code is needed for, and what no guard prevents. *)
From Coq Require Import List NArith ZArith Bool Lia.
From Tele Require Import Gen.Consts Model.FileRest Proofs.FileRestFacts.
Import ListNotations.
Open Scope N_scope.

(* a file of length len, zero except for the listed bytes *)
Fixpoint assoc (l : list (N * N)) (o : N) : N :=
  match l with [] => 0 | (k, v) :: tl => if k =? o then v else assoc tl o end.
Definition mk_file (len : N) (l : list (N * N)) : bfile := mkB len (assoc l).
Definition put32 (o v : N) : list (N * N) :=
  [(o, byte_of v 0); (o + 1, byte_of v 1); (o + 2, byte_of v 2); (o + 3, byte_of v 3)].

Definition wH : N := 32.
Definition nx : list N := [120].   (* "x" *)
Definition ny : list N := [121].   (* "y" *)

(* ---- a self-linked record: without the walk bound (fix a9b3f3d) lookup of
        another name of that bucket never returns ---- *)
Definition cyc : bfile :=
  mk_file 16384 (put32 (head_off wH ny) 4096 ++ put32 4104 (1 + 4278190080) ++ put32 4108 4096 ++ [(4112, 120)]).

Lemma cyc_head : load32 cyc (head_off wH ny) = Some 4096. Proof. vm_compute. reflexivity. Qed.
Lemma cyc_entry : entry_at cyc wH 4096 = EOk 1 4096. Proof. vm_compute. reflexivity. Qed.
Lemma cyc_name : name_eqb cyc 4096 1 ny = false. Proof. vm_compute. reflexivity. Qed.

Lemma cyc_walk : forall fuel n, walk false fuel cyc wH ny 4096 4096 n = LFuel.
Proof.
  induction fuel as [|k IH]; intro n; [reflexivity|].
  cbn [walk]. change (4096 =? 0) with false. cbn [andb]. rewrite cyc_entry, cyc_name. apply IH.
Qed.

Theorem lookup_unbounded_refuted :
  table_end wH <= b_len cyc /\ (forall fuel, lookup_gen false fuel cyc wH ny = LFuel) /\
  lookup cyc wH ny = LBad.
Proof.
  split; [vm_compute; discriminate|]. split.
  - intro fuel. unfold lookup_gen. rewrite cyc_head. apply cyc_walk.
  - vm_compute. reflexivity.
Qed.

(* ---- an allocation limit just below 4 GiB: round(end, pageSize) would wrap
        to 0.  Before fix 633eed3 extend then extended nothing and the
        reservation loop never ended (finding limit-wrap-hang); now the call
        fails with errCorrupt and the file is untouched ---- *)
Definition wrapf : bfile := mk_file 16384 (put32 (wH + c_limitOff) 4294967040).

Theorem newcounter_wrap_fixed :
  place32 wH 4294967040 (N.of_nat (length nx)) = (4294967040, 4294967072) /\ round32 4294967072 RPAGE = 0 /\
  new_counter wrapf wH nx = (NErr RCorrupt, wrapf).
Proof.
  split; [vm_compute; reflexivity|]. split; [vm_compute; reflexivity|].
  unfold new_counter, new_counter_gen.
  change (N.of_nat (length nx) =? 0) with false. change (c_maxNameLen <? N.of_nat (length nx)) with false. cbv iota.
  replace (lookup_gen true (walk_fuel wrapf) wrapf wH nx) with (LNotFound 0) by (vm_compute; reflexivity).
  cbn [reserve].
  replace (load32 wrapf (wH + c_limitOff)) with (Some 4294967040) by (vm_compute; reflexivity).
  replace (place32 wH 4294967040 (N.of_nat (length nx))) with (4294967040, 4294967072) by (vm_compute; reflexivity).
  replace ((4294967040 <? 4294967040) || (4294967072 <? 4294967040) || (round32 4294967072 RPAGE <? 4294967072)) with true
    by (vm_compute; reflexivity).
  reflexivity.
Qed.

(* ---- a small damaged limit: without the bound of fix 69df376 in
        writeEntryAt the new record is written over the bucket heads ---- *)
Definition lowf : bfile := mk_file 16384 (put32 (wH + c_limitOff) 64).

Theorem table_unprotected_refuted :
  (* with the fix: refused, only the limit word has changed *)
  fst (new_counter lowf wH nx) = NErr RCorrupt /\
  (forall o, o < 16384 -> ~ in_range (wH + c_limitOff) 4 o ->
     b_at (snd (new_counter lowf wH nx)) o = b_at lowf o) /\
  (* without it: accepted, and the head words of buckets 9 and 10 (offsets 72, 76) are overwritten *)
  fst (new_counter_gen true false (walk_fuel lowf) 3 lowf wH nx) = NCell 64 /\
  rd32 lowf 72 = 0 /\ rd32 (snd (new_counter_gen true false (walk_fuel lowf) 3 lowf wH nx)) 72 = 4278190081 /\
  72 <> head_off wH nx /\ wH + c_hashOff <= 72 /\ 72 + 4 <= table_end wH.
Proof.
  split; [vm_compute; reflexivity|]. split.
  - intros o Lo Nr.
    assert (E : new_counter lowf wH nx = (NErr RCorrupt, wr32 lowf (wH + c_limitOff) 96)).
    { unfold new_counter, new_counter_gen.
      change (N.of_nat (length nx) =? 0) with false. change (c_maxNameLen <? N.of_nat (length nx)) with false. cbv iota.
      replace (lookup_gen true (walk_fuel lowf) lowf wH nx) with (LNotFound 0) by (vm_compute; reflexivity).
      cbn [reserve].
      replace (load32 lowf (wH + c_limitOff)) with (Some 64) by (vm_compute; reflexivity).
      replace (place32 wH 64 (N.of_nat (length nx))) with (64, 96) by (vm_compute; reflexivity).
      change (b_len lowf <? 96) with false. cbv iota. unfold commit.
      change (b_len lowf <? wH + c_limitOff + 4) with false. cbv iota.
      replace (write_entry true (wr32 lowf (wH + c_limitOff) 96) wH 64 nx) with (@None bfile) by (vm_compute; reflexivity).
      reflexivity. }
    rewrite E. cbn [snd]. unfold wr32. apply wr_at_out. unfold in_range in Nr. lia.
  - vm_compute. repeat split; try reflexivity; discriminate.
Qed.

(* ---- a limit that points INTO the record area: nothing in the code can
        notice; the next newCounter reuses the space of an existing record
        (known finding limit-below-records) ---- *)
Definition na : list N := [97].    (* "a" *)
Definition nb : list N := [98].    (* "b" *)
(* record "a" at 2112 with value 5, linked in its bucket; the true limit would be 2144 *)
Definition stale : bfile :=
  mk_file 16384 (put32 (wH + c_limitOff) 2112 ++ put32 (head_off wH na) 2112 ++
                 [(2112, 5)] ++ put32 2120 (1 + 4278190080) ++ [(2128, 97)]).

Theorem isolation_limit_refuted :
  lookup stale wH na = LFound 2112 /\ rd64 stale 2112 = 5 /\
  let '(r, f1) := new_counter stale wH nb in
  r = NCell 2112 /\                                  (* "b" is given the record of "a" *)
  lookup f1 wH na = LNotFound 2112 /\                (* "a" is gone *)
  match add_cell f1 2112 1 with
  | Some f2 => rd64 f2 2112 = 6                      (* and its count continues under the name "b" *)
  | None => False
  end.
Proof. vm_compute. repeat split; reflexivity. Qed.
