(* Proofs/FileConcBase: arithmetic of round/place, the record store
   (find_rec / upd_rec), chain suffixes.  Used by Proofs/FileConcInv. *)
From Coq Require Import List NArith ZArith Bool Lia.
From Tele Require Import Gen.Consts Model.FileConc.
Import ListNotations.
Open Scope N_scope.

Ltac unfold_consts :=
  unfold UNIT, PAGE, W32, DEAD, MAX64, c_recordUnit, c_pageSize, c_minFileLen, c_maxNameLen,
    c_hashOff, c_numHash, c_limitOff in *.
Ltac nlia := unfold_consts; zify; Z.to_euclidean_division_equations; lia.

Ltac splits := repeat match goal with |- _ /\ _ => split end.

(* ---- round ---- *)
Lemma round_ge : forall x u, 0 < u -> x <= round x u.
Proof.
  intros x u Hu. unfold round.
  pose proof (N.div_mod (x + u - 1) u ltac:(lia)) as E.
  pose proof (N.mod_lt (x + u - 1) u ltac:(lia)) as L.
  rewrite N.mul_comm. remember ((x + u - 1) / u) as q. remember ((x + u - 1) mod u) as r. lia.
Qed.

Lemma round_lt : forall x u, 0 < u -> round x u < x + u.
Proof.
  intros x u Hu. unfold round.
  pose proof (N.div_mod (x + u - 1) u ltac:(lia)) as E.
  rewrite N.mul_comm. remember ((x + u - 1) / u) as q. remember ((x + u - 1) mod u) as r. lia.
Qed.

Lemma round_mod : forall x u, 0 < u -> round x u mod u = 0.
Proof. intros x u Hu. unfold round. apply N.mod_mul. lia. Qed.

Lemma round_unit : forall x, x <= round x UNIT /\ round x UNIT < x + 32 /\ round x UNIT mod 32 = 0.
Proof.
  intro x. pose proof (round_ge x UNIT ltac:(unfold_consts; lia)).
  pose proof (round_lt x UNIT ltac:(unfold_consts; lia)).
  pose proof (round_mod x UNIT ltac:(unfold_consts; lia)). unfold_consts. lia.
Qed.

Lemma round_page : forall x, x <= round x PAGE /\ round x PAGE < x + 16384 /\ round x PAGE mod 16384 = 0.
Proof.
  intro x. pose proof (round_ge x PAGE ltac:(unfold_consts; lia)).
  pose proof (round_lt x PAGE ltac:(unfold_consts; lia)).
  pose proof (round_mod x PAGE ltac:(unfold_consts; lia)). unfold_consts. lia.
Qed.

Lemma rsize_facts : forall (nlen : name -> N) nm, let rsize := rsize nlen in
  16 + nlen nm <= rsize nm /\ rsize nm < 48 + nlen nm /\ rsize nm mod 32 = 0 /\ 32 <= rsize nm.
Proof.
  intros nlen nm rsize. subst rsize. unfold FileConc.rsize. pose proof (round_unit (16 + nlen nm)) as [A [B C]].
  repeat split; try lia. nlia.
Qed.

Lemma rec_start_val : forall H, rec_start H = H + 2052.
Proof. intro H. unfold FileConc.rec_start. unfold_consts. lia. Qed.

(* mappedFile.place: the new record starts at or after the (effective) limit,
   is 32-aligned, does not reach the end of its page *)
Lemma place_spec : forall (nlen : name -> N) (H lim : N) nm s e,
  place nlen H lim nm = (s, e) -> nlen nm <= c_maxNameLen ->
  (if lim =? 0 then rec_start H else lim) <= s /\ lim < e /\
  s mod 32 = 0 /\ e = s + rsize nlen nm /\ s / 16384 = e / 16384.
Proof.
  intros nlen H lim nm s e P Hn. unfold FileConc.place in P.
  pose proof (rsize_facts nlen nm) as [R1 [R2 [R3 R4]]]. cbv zeta in *.
  set (rsize := FileConc.rsize nlen) in *. set (rec_start := FileConc.rec_start H) in *.
  set (L := if lim =? 0 then rec_start else lim) in *.
  assert (HL : lim <= L) by (subst L; destruct (lim =? 0) eqn:E; [apply N.eqb_eq in E; lia | lia]).
  pose proof (round_unit L) as [U1 [U2 U3]]. pose proof (round_page L) as [P1 [P2 P3]].
  fold L in P.
  destruct (round L UNIT / PAGE =? (round L UNIT + rsize nm) / PAGE) eqn:E; inversion P; subst s e; clear P.
  - apply N.eqb_eq in E. unfold PAGE, c_pageSize in E. repeat split; try lia.
  - clear E. assert (rsize nm < 16384) by (unfold_consts; lia).
    repeat split; try lia.
    + nlia.
    + nlia.
Qed.

(* ---- the record store ---- *)
Lemma find_rec_some : forall o rs r, find_rec o rs = Some r -> In r rs /\ r_off r = o.
Proof.
  induction rs as [|x tl IH]; cbn; intros r E; [discriminate|].
  destruct (r_off x =? o) eqn:Q.
  - inversion E; subst. apply N.eqb_eq in Q. auto.
  - destruct (IH _ E); auto.
Qed.

Lemma find_rec_none : forall o rs, find_rec o rs = None -> ~ In o (map r_off rs).
Proof.
  induction rs as [|x tl IH]; cbn; intros E; [tauto|].
  destruct (r_off x =? o) eqn:Q; [discriminate|]. apply N.eqb_neq in Q. intros [A|A]; [tauto|]. exact (IH E A).
Qed.

Lemma In_find_rec : forall rs r, NoDup (map r_off rs) -> In r rs -> find_rec (r_off r) rs = Some r.
Proof.
  induction rs as [|x tl IH]; cbn; intros r ND I; [tauto|].
  inversion ND as [|? ? NI ND']; subst.
  destruct I as [I|I].
  - subst. rewrite N.eqb_refl. reflexivity.
  - destruct (r_off x =? r_off r) eqn:Q.
    + apply N.eqb_eq in Q. exfalso. apply NI. rewrite Q. apply in_map. exact I.
    + auto.
Qed.

Lemma find_rec_in_offs : forall o rs, In o (map r_off rs) -> exists r, find_rec o rs = Some r.
Proof.
  intros o rs I. destruct (find_rec o rs) eqn:E; [eauto|]. exfalso. exact (find_rec_none _ _ E I).
Qed.

Lemma find_rec_upd : forall o off g rs, (forall r, r_off (g r) = r_off r) ->
  find_rec o (upd_rec off g rs) = option_map (fun r => if r_off r =? off then g r else r) (find_rec o rs).
Proof.
  intros o off g rs Hg. induction rs as [|x tl IH]; cbn; [reflexivity|].
  destruct (r_off x =? off) eqn:Q.
  - rewrite Hg. destruct (r_off x =? o); cbn; [rewrite Q; reflexivity|exact IH].
  - destruct (r_off x =? o); cbn; [rewrite Q; reflexivity|exact IH].
Qed.

Lemma find_rec_upd_other : forall o off g rs, (forall r, r_off (g r) = r_off r) -> o <> off ->
  find_rec o (upd_rec off g rs) = find_rec o rs.
Proof.
  intros o off g rs Hg Ne. rewrite find_rec_upd by exact Hg.
  destruct (find_rec o rs) as [r|] eqn:E; cbn; [|reflexivity].
  apply find_rec_some in E. destruct E as [_ E]. subst o.
  destruct (r_off r =? off) eqn:Q; [apply N.eqb_eq in Q; tauto|reflexivity].
Qed.

Lemma find_rec_upd_same : forall off g rs r, (forall r, r_off (g r) = r_off r) ->
  find_rec off rs = Some r -> find_rec off (upd_rec off g rs) = Some (g r).
Proof.
  intros off g rs r Hg E. rewrite find_rec_upd by exact Hg. rewrite E. cbn.
  apply find_rec_some in E. destruct E as [_ E]. rewrite E, N.eqb_refl. reflexivity.
Qed.

Lemma find_rec_app : forall o rs r,
  find_rec o (rs ++ [r]) = match find_rec o rs with
                           | Some x => Some x
                           | None => if r_off r =? o then Some r else None
                           end.
Proof.
  intros o rs r. induction rs as [|x tl IH]; cbn; [reflexivity|].
  destruct (r_off x =? o); [reflexivity|exact IH].
Qed.

Lemma map_off_upd : forall off g rs, (forall r, r_off (g r) = r_off r) -> map r_off (upd_rec off g rs) = map r_off rs.
Proof.
  intros off g rs Hg. unfold upd_rec. rewrite map_map. apply map_ext. intro r.
  destruct (r_off r =? off); [apply Hg|reflexivity].
Qed.

Lemma In_upd_rec : forall off g rs r', In r' (upd_rec off g rs) ->
  exists r, In r rs /\ r' = (if r_off r =? off then g r else r).
Proof.
  intros off g rs r' I. unfold upd_rec in I. apply in_map_iff in I. destruct I as [r [E I]]. eauto.
Qed.

(* ---- chain suffixes ---- *)
Fixpoint suf (o : N) (l : list N) : list N :=
  match l with
  | [] => []
  | x :: tl => if x =? o then l else suf o tl
  end.

Lemma suf_incl : forall o l x, In x (suf o l) -> In x l.
Proof.
  induction l as [|y tl IH]; cbn; intros x I; [tauto|].
  destruct (y =? o); [exact I|right; auto].
Qed.

Lemma suf_notin : forall o l, ~ In o l -> suf o l = [].
Proof.
  induction l as [|y tl IH]; cbn; intros NI; [reflexivity|].
  destruct (y =? o) eqn:Q; [apply N.eqb_eq in Q; tauto|apply IH; tauto].
Qed.

Lemma suf_app_fresh : forall o ext l, ~ In o ext -> suf o (ext ++ l) = suf o l.
Proof.
  induction ext as [|y tl IH]; cbn; intros l NI; [reflexivity|].
  destruct (y =? o) eqn:Q; [apply N.eqb_eq in Q; tauto|apply IH; tauto].
Qed.

Lemma suf_hd : forall x tl, suf x (x :: tl) = x :: tl.
Proof. intros. cbn. rewrite N.eqb_refl. reflexivity. Qed.

Lemma suf_in : forall o l, In o l -> exists rest, suf o l = o :: rest.
Proof.
  induction l as [|y tl IH]; cbn; intros I; [tauto|].
  destruct (y =? o) eqn:Q.
  - apply N.eqb_eq in Q. subst. eauto.
  - apply N.eqb_neq in Q. destruct I; [tauto|auto].
Qed.

(* following the chain: the suffix at the successor is the tail of the suffix *)
Lemma suf_next : forall a l rest, NoDup l -> ~ In 0 l -> suf a l = a :: rest -> suf (hd 0 rest) l = rest.
Proof.
  induction l as [|y tl IH]; cbn; intros rest ND Z E; [discriminate|].
  inversion ND as [|? ? NI ND']; subst.
  destruct (y =? a) eqn:Q.
  - apply N.eqb_eq in Q. subst y. inversion E; subst rest.
    destruct tl as [|z tl']; cbn; [destruct (a =? 0) eqn:Q0; [apply N.eqb_eq in Q0; tauto|reflexivity]|].
    destruct (a =? z) eqn:Q2; [apply N.eqb_eq in Q2; subst; exfalso; apply NI; left; reflexivity|].
    rewrite N.eqb_refl. reflexivity.
  - assert (Hr : suf (hd 0 rest) tl = rest) by (apply IH; tauto).
    destruct (y =? hd 0 rest) eqn:Q2; [|exact Hr].
    apply N.eqb_eq in Q2. exfalso.
    destruct rest as [|z rest']; cbn in Q2; [tauto|].
    subst y. apply NI. apply (suf_incl a). rewrite E. right. left. reflexivity.
Qed.

Lemma suf_whole : forall l, suf (hd 0 l) l = l \/ l = [].
Proof. destruct l; [right; reflexivity|left; apply suf_hd]. Qed.


Lemma NoDup_snoc : forall (l : list N) x, NoDup l -> ~ In x l -> NoDup (l ++ [x]).
Proof.
  induction l as [|y tl IH]; cbn; intros x ND NI.
  - constructor; [tauto|constructor].
  - inversion ND as [|? ? NI' ND']; subst. constructor.
    + intro I. apply in_app_iff in I. destruct I as [I|[I|[]]]; [tauto|]. subst. tauto.
    + apply IH; tauto.
Qed.
