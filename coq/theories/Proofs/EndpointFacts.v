(* Proofs/EndpointFacts: lemmas about Model/Endpoint. *)
From Coq Require Import List NArith ZArith Bool Lia.
From Tele Require Import Lib.Bytes Lib.Calendar Lib.SortedMap Model.Bucket Model.Endpoint
  Proofs.SortedMapFacts Proofs.BucketFacts.
Import ListNotations.
Open Scope N_scope.

Lemma status_eq_dec : forall a b : status, {a = b} + {a <> b}.
Proof. decide equality. Qed.

(* ------------------------------------------------------------ validation *)
Lemma validate_programs_ok cfg : forall ps,
  validate_programs cfg ps = VOk <->
  forallb (fun o => match o with Some p => program_ok cfg p | None => false end) ps = true.
Proof.
  induction ps as [|[p|] ps IH]; simpl.
  - tauto.
  - destruct (program_ok cfg p); simpl; [exact IH | split; discriminate].
  - split; discriminate.
Qed.

(* ------------------------------------------- expansion of configured names *)
Lemma index_sub_absent : forall s c, ~ In c s -> index_sub s [c] = None.
Proof.
  induction s as [|x s IH]; intros c H; simpl; [reflexivity|].
  destruct (N.eqb_spec x c) as [->|_]; [exfalso; apply H; left; reflexivity|]. simpl.
  rewrite IH by (intro; apply H; right; assumption). reflexivity.
Qed.

Lemma index_sub_first : forall p c rest, ~ In c p -> index_sub (p ++ c :: rest) [c] = Some (length p).
Proof.
  induction p as [|x p IH]; intros c rest H; simpl.
  - rewrite N.eqb_refl. reflexivity.
  - destruct (N.eqb_spec x c) as [->|_]; [exfalso; apply H; left; reflexivity|]. simpl.
    rewrite IH by (intro; apply H; right; assumption). reflexivity.
Qed.

Lemma cut_absent s c : ~ In c s -> cut s [c] = (s, [], false).
Proof. intro H. unfold cut. rewrite (index_sub_absent _ _ H). reflexivity. Qed.

Lemma cut_first p c rest : ~ In c p -> cut (p ++ c :: rest) [c] = (p, rest, true).
Proof.
  intro H. unfold cut. rewrite (index_sub_first _ _ _ H).
  rewrite firstn_app, firstn_all, Nat.sub_diag. simpl. rewrite app_nil_r.
  replace (length p + 1)%nat with (length p + 1 + 0)%nat by lia.
  rewrite <- (app_nil_l rest) at 1.
  change (p ++ c :: [] ++ rest) with (p ++ [c] ++ rest). rewrite app_assoc.
  rewrite skipn_app. rewrite app_length. simpl.
  rewrite skipn_all2 by (rewrite app_length; simpl; lia).
  replace (length p + 1 + 0 - (length p + 1))%nat with 0%nat by lia. reflexivity.
Qed.

Lemma trim_suffix_last x c : trim_suffix (x ++ [c]) [c] = x.
Proof.
  unfold trim_suffix, has_suffix. rewrite rev_app_distr. simpl. rewrite N.eqb_refl. simpl.
  rewrite app_length. simpl. replace (length x + 1 - 1)%nat with (length x) by lia.
  rewrite firstn_app, firstn_all, Nat.sub_diag. simpl. apply app_nil_r.
Qed.

(* a name without a bucket list stands for itself *)
Theorem expand_plain c : ~ In 123 c -> expand c = [c].
Proof. intro H. unfold expand. rewrite (cut_absent _ _ H). reflexivity. Qed.

(* prefix{b1,...,bn} stands for prefix++b1, ..., prefix++bn - also for n = 1 *)
Theorem expand_buckets p bs : ~ In 123 p -> bs <> [] -> (forall b, In b bs -> ~ In 44 b) ->
  expand (p ++ [123] ++ join bs [44] ++ [125]) = map (fun b => p ++ b) bs.
Proof.
  intros Hp Hne Hb. unfold expand. simpl app. rewrite (cut_first _ _ _ Hp).
  rewrite trim_suffix_last. rewrite (split_join bs 44 Hne Hb). reflexivity.
Qed.

(* approval is membership of the WHOLE reported name in the program's own table *)
Lemma mem_in x l : mem x l = true <-> In x l.
Proof.
  unfold mem. rewrite existsb_exists. split.
  - intros [y [Hin E]]. apply beq_eq in E. subst. exact Hin.
  - intro H. exists x. split; [exact H | apply beq_refl].
Qed.

Lemma has_counter_spec cfg n c : has_counter cfg n c = true <->
  exists pc, In pc (cf_programs cfg) /\ pc_name pc = n /\ In c (pc_counters pc).
Proof.
  unfold has_counter. rewrite existsb_exists. split.
  - intros [pc [Hin H]]. apply andb_true_iff in H as [H1 H2]. apply beq_eq in H1. apply mem_in in H2. eauto.
  - intros [pc [Hin [<- Hc]]]. exists pc. split; [exact Hin|]. rewrite beq_refl. apply mem_in in Hc. rewrite Hc. reflexivity.
Qed.

Lemma has_stack_spec cfg n st : has_stack cfg n st = true <->
  exists pc, In pc (cf_programs cfg) /\ pc_name pc = n /\ In st (pc_stacks pc).
Proof.
  unfold has_stack. rewrite existsb_exists. split.
  - intros [pc [Hin H]]. apply andb_true_iff in H as [H1 H2]. apply beq_eq in H1. apply mem_in in H2. eauto.
  - intros [pc [Hin [<- Hc]]]. exists pc. split; [exact Hin|]. rewrite beq_refl. apply mem_in in Hc. rewrite Hc. reflexivity.
Qed.

Theorem approved_names_listed semver cfg r p : valid_report semver cfg r = true -> In (Some p) (r_programs r) ->
  (forall c v, In (c, v) (pg_counters p) ->
     exists pc, In pc (cf_programs cfg) /\ pc_name pc = pg_name p /\ In c (pc_counters pc)) /\
  (forall st v, In (st, v) (pg_stacks p) ->
     exists pc, In pc (cf_programs cfg) /\ pc_name pc = pg_name p /\ In (stack_prefix st) (pc_stacks pc)).
Proof.
  unfold valid_report, approved. intros H Hin. apply andb_true_iff in H as [_ H].
  rewrite forallb_forall in H. specialize (H _ Hin). simpl in H. unfold program_ok in H.
  apply andb_true_iff in H as [H Hs]. apply andb_true_iff in H as [_ Hc].
  rewrite forallb_forall in Hc, Hs. split.
  - intros c v Hcv. apply has_counter_spec. apply (Hc _ Hcv).
  - intros st v Hsv. apply has_stack_spec. apply (Hs _ Hsv).
Qed.

Section Endpoint.
  Variable semver : bytes -> bool.
  Variable marshal : report -> bytes.
  Variable cfg : config.

  Lemma validate_ok_iff r : validate semver cfg r = VOk <-> valid_report semver cfg r = true.
  Proof.
    unfold validate, valid_report, approved.
    destruct (week_ok r); simpl; [|split; discriminate].
    destruct (semver (r_config r)); simpl; [|split; discriminate].
    destruct (r_xzero r); simpl; [split; discriminate|].
    apply validate_programs_ok.
  Qed.

  Notation handle := (handle semver marshal cfg).
  Notation expected := (expected semver marshal cfg).
  Notation valid_request := (valid_request semver cfg).

  Lemma valid_request_inv method size_ok decoded : valid_request method size_ok decoded = true ->
    method = post /\ size_ok = true /\ exists r, decoded = Some r /\ valid_report semver cfg r = true.
  Proof.
    unfold valid_request. intro H. apply andb_true_iff in H as [H H3]. apply andb_true_iff in H as [H1 H2].
    apply beq_eq in H1. destruct decoded as [r|]; [|discriminate]. eauto.
  Qed.

  (* what the handler does with a valid request *)
  Lemma handle_valid method size_ok r m : valid_request method size_ok (Some r) = true ->
    handle method size_ok (Some r) m =
      let '(ok, m') := write m (components (object_name r)) (object_content marshal r) in
      if ok then (S2xx, m') else (S5xx, m').
  Proof.
    intro H. destruct (valid_request_inv _ _ _ H) as [-> [-> [r' [E Hv]]]]. injection E as <-.
    unfold Endpoint.handle. rewrite beq_refl. simpl.
    apply validate_ok_iff in Hv. rewrite Hv. reflexivity.
  Qed.

  (* ... and with any other one *)
  Lemma handle_invalid method size_ok decoded m : valid_request method size_ok decoded = false ->
    handle method size_ok decoded m = (S4xx, m).
  Proof.
    unfold Endpoint.valid_request, Endpoint.handle. intro H.
    destruct (beq method post); simpl in *; [|reflexivity].
    destruct size_ok; simpl in *; [|reflexivity].
    destruct decoded as [r|]; [|reflexivity].
    destruct (validate semver cfg r) eqn:E; try reflexivity.
    apply validate_ok_iff in E. congruence.
  Qed.

  Theorem oversize_refused method decoded m : handle method false decoded m = (S4xx, m).
  Proof. unfold Endpoint.handle. destruct (beq method post); reflexivity. Qed.

  Theorem wrong_method_refused method size_ok decoded m : method <> post ->
    handle method size_ok decoded m = (S4xx, m).
  Proof.
    intro H. unfold Endpoint.handle. destruct (beq method post) eqn:E; [|reflexivity].
    apply beq_eq in E. contradiction.
  Qed.

  Theorem reject_is_inert method size_ok decoded m :
    fst (handle method size_ok decoded m) = S4xx -> snd (handle method size_ok decoded m) = m.
  Proof.
    unfold Endpoint.handle. destruct (beq method post); simpl; [|reflexivity].
    destruct size_ok; simpl; [|reflexivity].
    destruct decoded as [r|]; [|reflexivity].
    destruct (validate semver cfg r); try reflexivity.
    destruct (write m (components (object_name r)) (object_content marshal r)) as [[|] m']; simpl; discriminate.
  Qed.

  (* a 2xx answer is given only after the object was written *)
  Theorem ack_means_written method size_ok decoded m :
    fst (handle method size_ok decoded m) = S2xx ->
    exists r, decoded = Some r /\ valid_request method size_ok decoded = true /\
      write m (components (object_name r)) (object_content marshal r) = (true, snd (handle method size_ok decoded m)).
  Proof.
    intro H. destruct (valid_request method size_ok decoded) eqn:Ev.
    - destruct (valid_request_inv _ _ _ Ev) as [_ [_ [r [-> _]]]]. exists r. split; [reflexivity|]. split; [reflexivity|].
      rewrite (handle_valid _ _ _ m Ev) in *.
      destruct (write m (components (object_name r)) (object_content marshal r)) as [[|] m']; simpl in *;
        [reflexivity | discriminate].
    - rewrite (handle_invalid _ _ _ m Ev) in H. simpl in H. discriminate.
  Qed.

  (* ---------------------------------------------------- the upload bucket *)
  (* trees reached by bucket operations in which every object is <dir>/<file> *)
  Definition upload_store (m : fs) : Prop := reachable m /\ two_level m = true.

  Lemma upload_store_init : upload_store fs_init.
  Proof. split; [exists []; reflexivity | reflexivity]. Qed.

  Lemma pp_length q p : pp q p -> (length q < length p)%nat.
  Proof. intros [x [r ->]]. rewrite app_length. simpl. lia. Qed.

  Lemma two_level_no_collision m p : two_level m = true -> length p = 2%nat -> collides p (files m) = false.
  Proof.
    unfold two_level, collides, above, below. intros H Hp.
    rewrite forallb_forall in H.
    apply orb_false_iff. split.
    - destruct (existsb _ (files m)) eqn:E; [|reflexivity]. exfalso.
      apply existsb_exists in E as [kv [Hin Hpp]]. apply is_pprefix_spec, pp_length in Hpp.
      specialize (H _ Hin). apply Nat.eqb_eq in H. unfold path, bytes in *. lia.
    - destruct (existsb _ (files m)) eqn:E; [|reflexivity]. exfalso.
      apply existsb_exists in E as [kv [Hin Hpp]]. apply is_pprefix_spec, pp_length in Hpp.
      specialize (H _ Hin). apply Nat.eqb_eq in H. unfold path, bytes in *. lia.
  Qed.

  Lemma run_fs_app : forall a b m, snd (run_fs m (a ++ b)) = snd (run_fs (snd (run_fs m a)) b).
  Proof.
    induction a as [|o a IH]; intros b m; simpl; [reflexivity|].
    destruct (step_fs m o) as [r m1]. specialize (IH b m1).
    destruct (run_fs m1 (a ++ b)) as [rs m2]. destruct (run_fs m1 a) as [rs' m3]. simpl in *.
    exact IH.
  Qed.

  Lemma reachable_write m n c m' : reachable m -> write m (components n) c = (true, m') -> reachable m'.
  Proof.
    intros [ops <-] H. exists (ops ++ [OWrite n c]). rewrite run_fs_app. simpl. rewrite H. reflexivity.
  Qed.

  Lemma object_components r d : parse_date (r_week r) = Some d -> g_string (r_xs r) = true ->
    components (object_name r) = [r_week r; r_xs r ++ json_ext].
  Proof. intros Hw Hx. apply (upload_name_good _ _ _ Hw Hx). Qed.

  Lemma valid_report_week r : valid_report semver cfg r = true -> exists d, parse_date (r_week r) = Some d.
  Proof.
    unfold valid_report, week_ok. intro H. repeat (apply andb_true_iff in H as [H _]).
    destruct (parse_date (r_week r)) as [d|]; [eauto | discriminate].
  Qed.

  (* a valid upload into an upload store is written, and the store stays one *)
  Lemma valid_upload_written m method size_ok r :
    upload_store m -> valid_request method size_ok (Some r) = true -> g_string (r_xs r) = true ->
    exists m', write m (components (object_name r)) (object_content marshal r) = (true, m') /\
               handle method size_ok (Some r) m = (S2xx, m') /\ upload_store m'.
  Proof.
    intros [Hr H2] Hv Hx.
    destruct (valid_request_inv _ _ _ Hv) as [_ [_ [r' [E Hvr]]]]. injection E as <-.
    destruct (valid_report_week _ Hvr) as [d Hw].
    pose proof (object_components _ _ Hw Hx) as Hc.
    assert (Hlen : length (components (object_name r)) = 2%nat) by (rewrite Hc; reflexivity).
    pose proof (write_succeeds_iff m (object_name r) (object_content marshal r) Hr) as Hok.
    rewrite (two_level_no_collision _ _ H2 Hlen) in Hok. simpl in Hok.
    destruct (write m (components (object_name r)) (object_content marshal r)) as [ok m'] eqn:Ew.
    simpl in Hok. subst ok. exists m'. split; [reflexivity|]. split.
    - rewrite (handle_valid _ _ _ m Hv), Ew. reflexivity.
    - split; [eapply reachable_write; eauto|].
      unfold two_level. rewrite (write_ok_files _ _ _ _ (reachable_inv _ Hr) Ew).
      apply forallb_forall. intros kv Hin. apply in_put_inv in Hin as [->|Hin].
      + simpl. rewrite Hlen. reflexivity.
      + unfold two_level in H2. rewrite forallb_forall in H2. auto.
  Qed.

  (* the handler does what the property expects, away from null programs *)
  Theorem handle_expected m method size_ok decoded :
    upload_store m ->
    (forall r, decoded = Some r -> g_string (r_xs r) = true) ->
    handle method size_ok decoded m = expected method size_ok decoded m /\
    upload_store (snd (handle method size_ok decoded m)).
  Proof.
    intros Hs Hx. unfold Endpoint.expected.
    destruct (valid_request method size_ok decoded) eqn:Ev.
    - destruct (valid_request_inv _ _ _ Ev) as [_ [_ [r [-> _]]]].
      destruct (valid_upload_written m _ _ _ Hs Ev (Hx r eq_refl)) as [m' [Hw [Hh Hs']]].
      rewrite Hh, Hw. simpl. auto.
    - rewrite (handle_invalid _ _ _ m Ev). destruct decoded; auto.
  Qed.

  Theorem never_5xx m method size_ok decoded :
    upload_store m ->
    (forall r, decoded = Some r -> g_string (r_xs r) = true) ->
    fst (handle method size_ok decoded m) <> S5xx.
  Proof.
    intros Hs Hx. destruct (handle_expected m method size_ok decoded Hs Hx) as [-> _].
    unfold Endpoint.expected. destruct decoded; [destruct (valid_request method size_ok (Some r))|]; simpl; discriminate.
  Qed.

  Theorem stores_iff_valid m method size_ok decoded :
    upload_store m ->
    (forall r, decoded = Some r -> g_string (r_xs r) = true) ->
    (fst (handle method size_ok decoded m) = S2xx <-> valid_request method size_ok decoded = true) /\
    (valid_request method size_ok decoded = true ->
       exists r, decoded = Some r /\
         write m (components (object_name r)) (object_content marshal r) = (true, snd (handle method size_ok decoded m))) /\
    (valid_request method size_ok decoded = false ->
       fst (handle method size_ok decoded m) = S4xx /\ snd (handle method size_ok decoded m) = m).
  Proof.
    intros Hs Hx. split; [|split].
    - split.
      + intro H. destruct (ack_means_written _ _ _ _ H) as [r [_ [Hv _]]]. exact Hv.
      + intro Ev. destruct (valid_request_inv _ _ _ Ev) as [_ [_ [r [-> _]]]].
        destruct (valid_upload_written m _ _ _ Hs Ev (Hx r eq_refl)) as [m' [_ [Hh _]]]. rewrite Hh. reflexivity.
    - intro Ev. destruct (valid_request_inv _ _ _ Ev) as [_ [_ [r [-> _]]]]. exists r. split; [reflexivity|].
      destruct (valid_upload_written m _ _ _ Hs Ev (Hx r eq_refl)) as [m' [Hw [Hh _]]]. rewrite Hh. exact Hw.
    - intro Ev. rewrite (handle_invalid _ _ _ m Ev). simpl. auto.
  Qed.

  (* the object is named by the report's week and X, inside the bucket *)
  Theorem name_inside_bucket method size_ok r :
    valid_request method size_ok (Some r) = true -> g_string (r_xs r) = true ->
    components (object_name r) = [r_week r; r_xs r ++ json_ext] /\ good_name (object_name r).
  Proof.
    intros Ev Hx. destruct (valid_request_inv _ _ _ Ev) as [_ [_ [r' [E Hvr]]]]. injection E as <-.
    destruct (valid_report_week _ Hvr) as [d Hw]. apply (upload_name_good _ _ _ Hw Hx).
  Qed.

  (* ------------------------------------------------- all request sequences *)
  Definition good_request (q : request) : Prop :=
    forall r, q_decoded q = Some r -> g_string (r_xs r) = true.

  Theorem serve_never_5xx : forall qs m, upload_store m -> Forall good_request qs ->
    Forall (fun st => st <> S5xx) (fst (serve semver marshal cfg m qs)) /\
    upload_store (snd (serve semver marshal cfg m qs)).
  Proof.
    induction qs as [|q qs IH]; intros m Hs Hg; simpl; [auto|].
    inversion Hg as [|q' qs' Hx Hg']; subst.
    pose proof (never_5xx m (q_method q) (q_size_ok q) (q_decoded q) Hs Hx) as H5.
    destruct (handle_expected m (q_method q) (q_size_ok q) (q_decoded q) Hs Hx) as [_ Hs'].
    destruct (Model.Endpoint.handle semver marshal cfg (q_method q) (q_size_ok q) (q_decoded q) m) as [st m1]. simpl in *.
    destruct (IH m1 Hs' Hg') as [I1 I2].
    destruct (serve semver marshal cfg m1 qs) as [sts m2]. simpl in *. auto.
  Qed.
  (* Uploads in flight together.  Concurrent requests take effect in some
     order; for a batch of valid uploads of pairwise different objects EVERY
     order gives: all answered 2xx, each object reads back as its report,
     every other object as before.  (The theorem quantifies over the list,
     hence over all its permutations.) *)
  Definition batch_request (q : request) : Prop :=
    valid_request (q_method q) (q_size_ok q) (q_decoded q) = true /\
    forall r, q_decoded q = Some r -> g_string (r_xs r) = true.

  Theorem batch_any_order : forall qs m, upload_store m -> Forall batch_request qs ->
    NoDup (map q_path qs) ->
    Forall (fun st => st = S2xx) (fst (serve semver marshal cfg m qs)) /\
    upload_store (snd (serve semver marshal cfg m qs)) /\
    (forall q r, In q qs -> q_decoded q = Some r ->
       read (snd (serve semver marshal cfg m qs)) (components (object_name r)) = ROk (object_content marshal r)) /\
    (forall n c, (forall q, In q qs -> q_path q <> components n) ->
       (read (snd (serve semver marshal cfg m qs)) (components n) = ROk c <-> read m (components n) = ROk c)).
  Proof.
    induction qs as [|q qs IH]; intros m Hs Hb Hnd; simpl.
    - split; [constructor|]. split; [exact Hs|]. split; [intros ? ? []|]. intros; tauto.
    - inversion Hb as [|q' qs' [Hv Hx] Hb']; subst. inversion Hnd as [|p ps Hnotin Hnd']; subst.
      destruct (valid_request_inv _ _ _ Hv) as [_ [_ [r0 [Hdec _]]]].
      assert (Hv0 : valid_request (q_method q) (q_size_ok q) (Some r0) = true) by (rewrite <- Hdec; exact Hv).
      destruct (valid_upload_written m _ _ _ Hs Hv0 (Hx r0 Hdec)) as [m1 [Hw [Hh Hs1]]].
      rewrite Hdec, Hh.
      destruct (IH m1 Hs1 Hb' Hnd') as [I1 [I2 [I3 I4]]].
      destruct (serve semver marshal cfg m1 qs) as [sts m2]. simpl in *.
      assert (Hpath : q_path q = components (object_name r0)) by (unfold q_path; rewrite Hdec; reflexivity).
      split; [constructor; [reflexivity | exact I1]|]. split; [exact I2|]. split.
      + intros q1 r1 [<-|Hin] Hd1.
        * rewrite Hdec in Hd1. injection Hd1 as <-.
          apply (I4 (object_name r0) (object_content marshal r0)).
          -- intros q2 Hin2 E. apply Hnotin. rewrite Hpath, <- E. apply in_map. exact Hin2.
          -- eapply write_read; [apply Hs | exact Hw].
        * eapply I3; eauto.
      + intros n c Hn. rewrite (I4 n c (fun q2 Hin2 => Hn q2 (or_intror Hin2))).
        apply (write_frame m (object_name r0) (object_content marshal r0) m1 n c (proj1 Hs) Hw).
        intro E. apply (Hn q (or_introl eq_refl)). rewrite Hpath. symmetry. exact E.
  Qed.

  Section Roundtrip.
  (* what is stored decodes to the report (JSON round trip as a premise) *)
  Variable unmarshal : bytes -> option report.
  Hypothesis roundtrip : forall r, unmarshal (marshal r ++ [10]) = Some r.

  Theorem stored_decodes_same m method size_ok r :
    upload_store m -> valid_request method size_ok (Some r) = true -> g_string (r_xs r) = true ->
    let '(st, m') := handle method size_ok (Some r) m in
    st = S2xx /\ exists c, read m' (components (object_name r)) = ROk c /\ unmarshal c = Some r.
  Proof.
    intros Hs Ev Hx. destruct (valid_upload_written m _ _ _ Hs Ev Hx) as [m' [Hw [Hh _]]].
    rewrite Hh. split; [reflexivity|]. exists (object_content marshal r). split.
    - eapply write_read; [apply Hs | exact Hw].
    - apply roundtrip.
  Qed.
  End Roundtrip.
End Endpoint.

(* the declared Content-Length is an input the answer does not depend on *)
Theorem declared_length_irrelevant semver marshal cfg method d1 d2 size_ok decoded m :
  handle_http semver marshal cfg method d1 size_ok decoded m =
  handle_http semver marshal cfg method d2 size_ok decoded m.
Proof. reflexivity. Qed.

Theorem http_never_5xx semver marshal cfg m method declared size_ok decoded :
  upload_store m ->
  (forall r, decoded = Some r -> g_string (r_xs r) = true) ->
  handle_http semver marshal cfg method declared size_ok decoded m =
    expected semver marshal cfg method size_ok decoded m /\
  fst (handle_http semver marshal cfg method declared size_ok decoded m) <> S5xx.
Proof.
  intros Hs Hx. unfold handle_http. split.
  - apply (handle_expected semver marshal cfg m method size_ok decoded Hs Hx).
  - apply (never_5xx semver marshal cfg m method size_ok decoded Hs Hx).
Qed.

(* malformed framing below the HTTP API: refused with 4xx, never 5xx *)
Theorem wire_expected semver marshal cfg m method declared framing_ok size_ok decoded :
  upload_store m ->
  (forall r, decoded = Some r -> g_string (r_xs r) = true) ->
  handle_wire semver marshal cfg method declared framing_ok size_ok decoded m =
    expected_wire semver marshal cfg method framing_ok size_ok decoded m /\
  fst (handle_wire semver marshal cfg method declared framing_ok size_ok decoded m) <> S5xx.
Proof.
  intros Hs Hx. unfold handle_wire, expected_wire.
  destruct framing_ok; simpl.
  - rewrite andb_false_r. apply (http_never_5xx semver marshal cfg m method declared size_ok decoded Hs Hx).
  - destruct (beq method post) eqn:E; simpl.
    + split; [reflexivity | discriminate].
    + assert (Hm : method <> post) by (intros ->; rewrite beq_refl in E; discriminate).
      unfold handle_http. rewrite (wrong_method_refused semver marshal cfg method size_ok decoded m Hm).
      split; [reflexivity | discriminate].
Qed.

(* the former deviation: a null program entry is now refused like any other
   invalid report *)
Definition null_report : report :=
  mkReport [50;48;50;52;45;48;49;45;48;49] [] false [48;46;53] [118;49] [None].
Definition empty_config : config := mkConfig [] [] [] [].

Lemma null_program_example :
  handle (fun _ => true) (fun _ => []) empty_config post true (Some null_report) fs_init = (S4xx, fs_init) /\
  valid_request (fun _ => true) empty_config post true (Some null_report) = false.
Proof. vm_compute. auto. Qed.

(* non-vacuity: a valid upload into a fresh bucket *)
Definition ok_report : report :=
  mkReport [50;48;50;52;45;48;49;45;48;49] [] false [48;46;53] [118;49] [].
Lemma valid_example :
  valid_request (fun _ => true) empty_config post true (Some ok_report) = true /\
  g_string (r_xs ok_report) = true /\
  fst (handle (fun _ => true) (fun _ => [123; 125]) empty_config post true (Some ok_report) fs_init) = S2xx /\
  files (snd (handle (fun _ => true) (fun _ => [123; 125]) empty_config post true (Some ok_report) fs_init)) =
    [([[50;48;50;52;45;48;49;45;48;49]; [48;46;53;46;106;115;111;110]], [123; 125; 10])].
Proof. vm_compute. auto. Qed.
