(* The state-word operations of Model/CounterConc are exactly the Go methods
   of counterStateBits, as TRANSLATED from the current source by
   harness/tools/gofns (Gen/GoFns.v), for every 64-bit word. *)
From Coq Require Import List ZArith NArith Bool Lia.
From Tele Require Import Gen.Consts Gen.GoFns Model.CounterConc Proofs.CounterWord.
Open Scope Z_scope.

(* ---- generic facts about masks ---- *)
Lemma lor_as_add a b : Z.lor a b = Z.ldiff a b + b.
Proof.
  assert (D : Z.land (Z.ldiff a b) b = 0).
  { apply Z.bits_inj'. intros n Hn. rewrite Z.land_spec, Z.ldiff_spec, Z.bits_0.
    destruct (Z.testbit a n), (Z.testbit b n); reflexivity. }
  rewrite (Z.add_nocarry_lxor _ _ D), (Z.lxor_lor _ _ D).
  apply Z.bits_inj'. intros n Hn. rewrite !Z.lor_spec, Z.ldiff_spec.
  destruct (Z.testbit a n), (Z.testbit b n); reflexivity.
Qed.

Lemma ldiff_as_sub a b : Z.ldiff a b = a - Z.land a b.
Proof.
  assert (D : Z.land (Z.ldiff a b) (Z.land a b) = 0).
  { apply Z.bits_inj'. intros n Hn. rewrite !Z.land_spec, Z.ldiff_spec, Z.bits_0.
    destruct (Z.testbit a n), (Z.testbit b n); reflexivity. }
  pose proof (Z.add_nocarry_lxor _ _ D) as E. rewrite (Z.lxor_lor _ _ D), Z.lor_ldiff_and in E. lia.
Qed.

Lemma ldiff_ones a n : 0 <= n -> Z.ldiff a (Z.ones n) = a / 2 ^ n * 2 ^ n.
Proof. intros Hn. rewrite Z.ldiff_ones_r, Z.shiftl_mul_pow2, Z.shiftr_div_pow2 by lia. reflexivity. Qed.

Lemma land_pow2 a n : 0 <= n -> Z.land a (2 ^ n) = if Z.odd (a / 2 ^ n) then 2 ^ n else 0.
Proof.
  intros Hn. apply Z.bits_inj'. intros m Hm. rewrite Z.land_spec, Z.pow2_bits_eqb by lia.
  destruct (Z.eqb_spec n m) as [<-|Ne].
  - rewrite andb_true_r, Z.testbit_odd, Z.shiftr_div_pow2 by lia.
    destruct (Z.odd (a / 2 ^ n)); [rewrite Z.pow2_bits_true by lia | rewrite Z.bits_0]; reflexivity.
  - rewrite andb_false_r. destruct (Z.odd (a / 2 ^ n)); [rewrite Z.pow2_bits_false by lia | rewrite Z.bits_0]; reflexivity.
Qed.

Definition MASKX : Z := 18446744071562067968. (* 2^64 - 2^31 = stateExtra *)
Lemma MASKX_is_const : MASKX = Z.of_N c_stateExtra. Proof. reflexivity. Qed.

Lemma maskx_bits n : 0 <= n -> Z.testbit MASKX n = (31 <=? n) && (n <? 64).
Proof.
  intros Hn. change MASKX with (Z.shiftl (Z.ones 33) 31).
  rewrite Z.shiftl_spec by lia.
  destruct (Z.leb_spec 31 n).
  - rewrite Z.testbit_ones by lia. destruct (Z.ltb_spec n 64), (Z.ltb_spec (n - 31) 33), (Z.leb_spec 0 (n - 31)); try lia; reflexivity.
  - rewrite Z.testbit_neg_r by lia. reflexivity.
Qed.

Lemma land_maskx b : 0 <= b < W64 -> Z.land b MASKX = Z.ldiff b (Z.ones 31).
Proof.
  intros Hb. apply Z.bits_inj'. intros n Hn.
  rewrite Z.land_spec, Z.ldiff_spec, maskx_bits, Z.testbit_ones by lia.
  destruct (Z.leb_spec 0 n); [|lia]. cbn [andb].
  destruct (Z.ltb_spec n 31).
  - destruct (Z.leb_spec 31 n); [lia|]. cbn [andb negb]. rewrite !andb_false_r. reflexivity.
  - destruct (Z.leb_spec 31 n); [|lia]. cbn [andb negb]. rewrite andb_true_r.
    destruct (Z.ltb_spec n 64); [rewrite andb_true_r; reflexivity|].
    rewrite andb_false_r. symmetry.
    destruct (Z.eq_dec b 0) as [->|Hnz]; [apply Z.bits_0|].
    apply Z.bits_above_log2; [lia|]. apply Z.log2_lt_pow2; [lia|]. rewrite W64_v in Hb.
    assert (2 ^ 64 <= 2 ^ n) by (apply Z.pow_le_mono_r; lia). change (2 ^ 64) with 18446744073709551616 in *. lia.
Qed.

Ltac cz := change (2 ^ 30) with 1073741824 in *; change (2 ^ 31) with 2147483648 in *;
           change (2 ^ 64) with 18446744073709551616 in *; change (2 ^ 63) with 9223372036854775808 in *; change (2 ^ (64 - 1)) with 9223372036854775808 in *.

(* ---- the twelve methods ---- *)
Section Word.
Variable b : Z.
Hypothesis Hb : 0 <= b < W64.

Lemma go_readers_eq : go_counterStateBits_readers b = w_readers b.
Proof.
  unfold go_counterStateBits_readers, w_readers, wraps. change 1073741823 with (Z.ones 30).
  rewrite Z.land_ones by lia. rewrite HAVE_v. cz.
  pose proof (Z.mod_pos_bound b 1073741824 ltac:(lia)).
  rewrite (Z.mod_small (b mod 1073741824)) by lia. cz.
  destruct (Z.ltb_spec (b mod 1073741824) 9223372036854775808); lia.
Qed.

Lemma go_locked_eq : go_counterStateBits_locked b = w_locked b.
Proof.
  unfold go_counterStateBits_locked, w_locked, w_readers. change 1073741823 with (Z.ones 30) at 1.
  rewrite Z.land_ones by lia. rewrite HAVE_v, LOCKED_v. reflexivity.
Qed.

Lemma go_havePtr_eq : go_counterStateBits_havePtr b = w_have b.
Proof.
  unfold go_counterStateBits_havePtr, w_have. change 1073741824 with (2 ^ 30) at 1.
  rewrite land_pow2 by lia. rewrite HAVE_v. cz.
  destruct (Z.odd (b / 1073741824)); reflexivity.
Qed.

Lemma go_extra_eq : go_counterStateBits_extra b = w_extra b.
Proof.
  unfold go_counterStateBits_extra, w_extra, wrapu. change 18446744071562067968 with MASKX.
  rewrite (land_maskx b Hb), ldiff_ones by lia. rewrite XUNIT_v. rewrite W64_v in Hb. cz.
  pose proof (Z.div_mod b 2147483648 ltac:(lia)). pose proof (Z.mod_pos_bound b 2147483648 ltac:(lia)).
  assert (0 <= b / 2147483648) by (apply Z.div_pos; lia).
  rewrite Z.mod_small by lia. rewrite Z.shiftr_div_pow2 by lia. cz. apply Z.div_mul. lia.
Qed.

Lemma go_incReader_eq : go_counterStateBits_incReader b = w_inc_reader b.
Proof. reflexivity. Qed.
Lemma go_decReader_eq : go_counterStateBits_decReader b = w_dec_reader b.
Proof. reflexivity. Qed.

Lemma go_setLocked_eq : go_counterStateBits_setLocked b = w_set_locked b.
Proof.
  unfold go_counterStateBits_setLocked, w_set_locked, w_readers. change 1073741823 with (Z.ones 30).
  rewrite lor_as_add, ldiff_ones by lia. rewrite HAVE_v, LOCKED_v. cz. change (Z.ones 30) with 1073741823.
  pose proof (Z.div_mod b 1073741824 ltac:(lia)). lia.
Qed.

Lemma go_clearLocked_eq : go_counterStateBits_clearLocked b = w_clear_locked b.
Proof.
  unfold go_counterStateBits_clearLocked, w_clear_locked, w_readers. change 1073741823 with (Z.ones 30).
  rewrite ldiff_ones by lia. rewrite HAVE_v. cz.
  pose proof (Z.div_mod b 1073741824 ltac:(lia)). lia.
Qed.

Lemma go_setHavePtr_eq : go_counterStateBits_setHavePtr b = w_set_have b.
Proof.
  unfold go_counterStateBits_setHavePtr, w_set_have, w_have. change 1073741824 with (2 ^ 30).
  rewrite lor_as_add, ldiff_as_sub, land_pow2 by lia. rewrite HAVE_v. cz.
  destruct (Z.odd (b / 1073741824)); lia.
Qed.

Lemma go_clearHavePtr_eq : go_counterStateBits_clearHavePtr b = w_clear_have b.
Proof.
  unfold go_counterStateBits_clearHavePtr, w_clear_have, w_have. change 1073741824 with (2 ^ 30) at 1.
  rewrite ldiff_as_sub, land_pow2 by lia. rewrite HAVE_v. cz.
  destruct (Z.odd (b / 1073741824)); lia.
Qed.

Lemma go_clearExtra_eq : go_counterStateBits_clearExtra b = w_clear_extra b.
Proof.
  unfold go_counterStateBits_clearExtra, w_clear_extra. change 18446744071562067968 with MASKX.
  rewrite ldiff_as_sub, (land_maskx b Hb), ldiff_ones by lia. rewrite XUNIT_v. cz.
  pose proof (Z.div_mod b 2147483648 ltac:(lia)). lia.
Qed.

Lemma go_addExtra_eq n : 0 <= n < W64 -> go_counterStateBits_addExtra b n = w_add_extra b n.
Proof.
  intros Hn. unfold go_counterStateBits_addExtra, w_add_extra.
  rewrite go_extra_eq, go_clearExtra_eq.
  pose proof (fields_of b Hb) as F. pose proof F as (_ & _ & He).
  pose proof (f_clear_extra _ _ _ _ F) as F0. pose proof (fields_range _ _ _ _ F0) as R0.
  destruct F0 as (E0 & Hr0 & _).
  set (x := w_extra b) in *.
  rewrite MAXEXTRA_v, W64_v in *. unfold wrapu. cz.
  assert (Hlow : 0 <= w_clear_extra b < 2147483648).
  { rewrite HAVE_v, XUNIT_v in *. rewrite E0. destruct (w_have b); cbn [b2z]; lia. }
  (* the saturation test *)
  assert (T : ((x + n) mod 18446744073709551616 <? x) || (8589934591 <? (x + n) mod 18446744073709551616)
              = (18446744073709551616 <=? x + n) || (8589934591 <? x + n)).
  { destruct (Z.leb_spec 18446744073709551616 (x + n)) as [Hov|Hno].
    - assert (Em : (x + n) mod 18446744073709551616 = x + n - 18446744073709551616).
      { symmetry. apply Z.mod_unique_pos with (q := 1); lia. }
      rewrite Em. cbn [orb]. destruct (Z.ltb_spec (x + n - 18446744073709551616) x); [reflexivity|lia].
    - rewrite Z.mod_small by lia. destruct (Z.ltb_spec (x + n) x); [lia|]. reflexivity. }
  rewrite T. clear T.
  set (x' := if (18446744073709551616 <=? x + n) || (8589934591 <? x + n) then 8589934591 else x + n).
  assert (Hx' : 0 <= x' <= 8589934591).
  { subst x'. destruct ((18446744073709551616 <=? x + n) || (8589934591 <? x + n)) eqn:C; [lia|].
    apply orb_false_iff in C as [_ C]. apply Z.ltb_ge in C. lia. }
  assert (Ex : (if (18446744073709551616 <=? x + n) || (8589934591 <? x + n)
                then let v_x := 8589934591 in v_x
                else let v_x := (x + n) mod 18446744073709551616 in v_x) = x').
  { subst x'. destruct ((18446744073709551616 <=? x + n) || (8589934591 <? x + n)) eqn:C; [reflexivity|].
    apply orb_false_iff in C as [C _]. apply Z.leb_gt in C. cbv zeta. apply Z.mod_small. lia. }
  cbv zeta. cbv zeta in Ex. rewrite Ex.
  rewrite (Z.mod_small x') by lia. rewrite Z.shiftl_mul_pow2 by lia. cz.
  rewrite (Z.mod_small (x' * 2147483648)) by lia.
  (* disjoint lor = + *)
  rewrite lor_as_add.
  assert (Ld : Z.ldiff (w_clear_extra b) (x' * 2147483648) = w_clear_extra b).
  { rewrite ldiff_as_sub. replace (Z.land (w_clear_extra b) (x' * 2147483648)) with 0; [lia|].
    symmetry. apply Z.bits_inj'. intros m Hm. rewrite Z.land_spec, Z.bits_0.
    destruct (Z.ltb_spec m 31).
    - change 2147483648 with (2 ^ 31). rewrite Z.mul_pow2_bits_low by lia. apply andb_false_r.
    - destruct (Z.eq_dec (w_clear_extra b) 0) as [->|Hnz]; [rewrite Z.bits_0; reflexivity|].
      rewrite Z.bits_above_log2; [reflexivity | lia |].
      apply Z.lt_le_trans with 31; [|lia]. apply Z.log2_lt_pow2; [lia|]. cz. lia. }
  rewrite Ld. rewrite XUNIT_v. reflexivity.
Qed.
End Word.

Theorem word_ops_are_go : forall b, 0 <= b < W64 ->
  go_counterStateBits_readers b = w_readers b /\
  go_counterStateBits_locked b = w_locked b /\
  go_counterStateBits_havePtr b = w_have b /\
  go_counterStateBits_extra b = w_extra b /\
  go_counterStateBits_incReader b = w_inc_reader b /\
  go_counterStateBits_decReader b = w_dec_reader b /\
  go_counterStateBits_setLocked b = w_set_locked b /\
  go_counterStateBits_clearLocked b = w_clear_locked b /\
  go_counterStateBits_setHavePtr b = w_set_have b /\
  go_counterStateBits_clearHavePtr b = w_clear_have b /\
  go_counterStateBits_clearExtra b = w_clear_extra b /\
  (forall n, 0 <= n < W64 -> go_counterStateBits_addExtra b n = w_add_extra b n).
Proof.
  intros b Hb. repeat split.
  - apply go_readers_eq; assumption.
  - apply go_locked_eq.
  - apply go_havePtr_eq.
  - apply go_extra_eq; assumption.
  - apply go_setLocked_eq.
  - apply go_clearLocked_eq.
  - apply go_setHavePtr_eq.
  - apply go_clearHavePtr_eq.
  - apply go_clearExtra_eq; assumption.
  - intros n Hn. apply go_addExtra_eq; assumption.
Qed.
