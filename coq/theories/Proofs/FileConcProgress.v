(* Proofs/FileConcProgress: nonblocking.  A potential phi(file, process):
   every step of a process either completes its current call or strictly
   decreases its own potential; a step of ANOTHER process raises it only if
   that step is a successful CAS (limit, bucket head or cell), and then by a
   bounded amount.  Nothing depends on the other processes' program points:
   a killed process holds nothing anybody waits for. *)
From Coq Require Import List NArith ZArith Bool Lia Arith.
From Tele Require Import Gen.Consts Model.FileConc Proofs.FileConcBase Proofs.FileConcInv
  Proofs.FileConcThms Proofs.FileConcInv2.
Import ListNotations.
Open Scope N_scope.

Section Progress.
Variable bucket : name -> N.
Variable nlen : name -> N.
Variable H : N.
Set Default Proof Using "All".

Notation rsize := (rsize nlen).
Notation place := (place nlen H).
Notation rec_start := (rec_start H).
Notation apply_act := (apply_act nlen).
Notation dispatch := (dispatch nlen).
Notation ret_cell := (ret_cell nlen).
Notation ret_fail := (ret_fail nlen).
Notation look_fail := (look_fail nlen).
Notation look_at := (look_at nlen H).
Notation dwalk := (dwalk nlen H).
Notation step_thread := (step_thread bucket nlen H).
Notation step := (step bucket nlen H).
Notation run := (run bucket nlen H).
Notation wf_shared := (wf_shared bucket nlen H).
Notation tinv := (tinv bucket nlen H).
Notation tinv2 := (tinv2 bucket nlen H).
Notation act_pre := (act_pre bucket nlen H).

Definition Lc (f : file) (b : N) : N := N.of_nat (length (f_chain f b)).
Definition sufl (f : file) (b o : N) : N := N.of_nat (length (suf o (f_chain f b))).
Definition endof (f : file) (nm : name) : N := snd (place (f_limit f) nm).
Definition need (f : file) (nm : name) (m : N) : N := if m <? endof f nm then 4 else 0.
Definition Rk (f : file) (t : thread) : N :=
  if head_of f (bucket (t_nm t)) =? t_head t then 0 else 3 + 2 * Lc f (bucket (t_nm t)).
Definition RMP (f : file) (t : thread) : N :=
  if t_map t <? f_limit f then 3 + 2 * Lc f (bucket (t_nm t)) else 0.

(* an upper bound on the number of further steps the process itself needs to
   finish its current call if nobody else's CAS succeeds in the meantime *)
Definition phi (f : file) (t : thread) : N :=
  let nm := t_nm t in let b := bucket nm in
  match t_pc t with
  | LHead => 1 + 2 * Lc f b + RMP f t + 6 + need f nm (t_map t)
  | LLen => 2 * sufl f b (t_off t) + RMP f t + 6 + need f nm (t_map t) + Rk f t
  | LNext => 2 * sufl f b (t_off t) - 1 + RMP f t + 6 + need f nm (t_map t) + Rk f t
  | RLimit => 3 + 2 * Lc f b + 6 + need f nm (t_map t)
  | RMap => 2 + 2 * Lc f b + 6 + need f nm (t_map t)
  | PLimit => 6 + need f nm (t_map t) + Rk f t
  | EStat => 9 + need f nm (N.max (f_size f) (round (t_end t) PAGE)) + Rk f t
  | EWrite => 8 + need f nm (N.max (f_size f) (round (t_end t) PAGE)) + Rk f t
  | EMap => 7 + need f nm (N.max (f_size f) (round (t_end t) PAGE)) + Rk f t
  | PCas => if f_limit f =? t_lim t then 5 + Rk f t else 7 + need f nm (t_map t) + Rk f t
  | WCopy => 4 + Rk f t
  | WLen => 3 + Rk f t
  | KNext => 2 + Rk f t
  | KCas => 1 + Rk f t
  | DHead => 3 + 2 * Lc f b
  | DLen => 2 * sufl f b (t_off t) + 2 + Rk f t
  | DNext => 2 * sufl f b (t_off t) + 1 + Rk f t
  | DDead => 1
  | ALoad => 2
  | ACas => if load_val f (t_cell t) =? t_old t then 1 else 3
  | Done => 0
  end.

(* calls still to be finished, the current one included *)
Definition remaining (t : thread) : nat :=
  match t_pc t with Done => 0%nat | _ => S (length (t_ops t)) end.

Definition progress (f' : file) (t t' : thread) (bound : N) : Prop :=
  (remaining t' < remaining t)%nat \/ (remaining t' = remaining t /\ phi f' t' < bound).

Lemma dispatch_remaining : forall ops t, (remaining (dispatch ops t) <= length ops)%nat.
Proof.
  induction ops as [|o ops IH]; intro t; [cbn; lia|]. destruct o as [nm|k]; cbn [FileConc.dispatch length].
  - destruct (nlen nm =? 0); [specialize (IH (push_res (RFail FEmpty) (set_cell 0 t))); lia|].
    destruct (c_maxNameLen <? nlen nm); [specialize (IH (push_res (RFail FTooLong) (set_cell 0 t))); lia|].
    unfold remaining; cbn. lia.
  - destruct (t_cell t =? 0); [specialize (IH t); lia|]. unfold remaining; cbn. lia.
Qed.

Lemma ret_cell_done : forall f' c t t1 bound, t_pc t <> Done -> t_ops t1 = t_ops t ->
  progress f' t (ret_cell c t1) bound.
Proof.
  intros f' c t t1 bound Nd Eo. left. unfold FileConc.ret_cell.
  pose proof (dispatch_remaining (t_ops t1) (push_res (RCell c) (set_cell c (set_map0 (t_map t1) t1)))) as X.
  rewrite Eo in *. unfold remaining at 2. destruct (t_pc t) eqn:Pc; try lia; congruence.
Qed.

Lemma ret_fail_done : forall f' e t t1 bound, t_pc t <> Done -> t_ops t1 = t_ops t ->
  progress f' t (ret_fail e t1) bound.
Proof.
  intros f' e t t1 bound Nd Eo. left. unfold FileConc.ret_fail.
  pose proof (dispatch_remaining (t_ops t1) (push_res (RFail e) (set_cell 0 (set_map (t_map0 t1) t1)))) as X.
  rewrite Eo in *. unfold remaining at 2. destruct (t_pc t) eqn:Pc; try lia; congruence.
Qed.

Lemma same_remaining : forall t t', t_pc t <> Done -> t_pc t' <> Done -> t_ops t' = t_ops t ->
  remaining t' = remaining t.
Proof.
  intros t t' A B E. unfold remaining. rewrite E. destruct (t_pc t) eqn:P1; try congruence; destruct (t_pc t') eqn:P2; try congruence; reflexivity.
Qed.

(* ---- facts about the measures ---- *)
Lemma need_le4 : forall f nm m, need f nm m <= 4.
Proof. intros. unfold need. destruct (_ <? _); lia. Qed.

Lemma need_mono : forall f nm m m', m <= m' -> need f nm m' <= need f nm m.
Proof.
  intros f nm m m' Le. unfold need. destruct (m' <? endof f nm) eqn:A; destruct (m <? endof f nm) eqn:B; try lia.
  apply N.ltb_lt in A. apply N.ltb_ge in B. lia.
Qed.

Lemma sufl_ge1 : forall f b o, In o (f_chain f b) -> 1 <= sufl f b o.
Proof. intros f b o I. unfold sufl. destruct (suf_in o _ I) as (rest & ->). cbn [length]. lia. Qed.

Lemma sufl_le : forall f b o, sufl f b o <= Lc f b.
Proof. intros. unfold sufl, Lc. pose proof (suf_length_le o (f_chain f b)). lia. Qed.

Lemma sufl_next : forall f b o, wf_shared f -> In o (f_chain f b) ->
  sufl f b (load_next f o) + 1 = sufl f b o.
Proof.
  intros f b o W I. destruct (proj2 W b) as (ND & LR & LO & NN).
  pose proof (zero_not_linked bucket nlen H f b W) as Z.
  destruct (suf_in o _ I) as (rest & Es).
  pose proof (linked_ok_suf f o _ rest LO Es) as Ln. pose proof (suf_next o _ rest ND Z Es) as Sn.
  unfold sufl. rewrite Ln, Sn, Es. cbn [length]. lia.
Qed.

Lemma sufl_head : forall f b, sufl f b (head_of f b) <= Lc f b /\ (head_of f b <> 0 -> sufl f b (head_of f b) = Lc f b).
Proof.
  intros f b. split; [apply sufl_le|]. unfold sufl, Lc, head_of.
  destruct (f_chain f b) as [|x tl]; [cbn; tauto|]. intros _. cbn [hd]. rewrite suf_hd. reflexivity.
Qed.

Lemma sufl_zero : forall f b, wf_shared f -> sufl f b 0 = 0.
Proof. intros f b W. unfold sufl. rewrite (suf_zero bucket nlen H f b W). reflexivity. Qed.

(* a failed entry test means the mapping is behind the limit *)
Lemma guard_behind : forall f t off n, wf_shared f -> In off (f_chain f (bucket (t_nm t))) ->
  walked2 f (bucket (t_nm t)) (t_head t) off n (t_map t) ->
  (t_map t / UNIT <? n) || (off <? H + c_hashOff) || negb (off mod 8 =? 0) || (t_map t <? off + 16) = true ->
  t_map t < f_limit f.
Proof.
  intros f t off n W Io Wk G.
  destruct (linked_bounds bucket nlen H f _ off W Io) as (A1 & A2 & A3 & _).
  pose proof (walked2_count bucket nlen H _ _ _ _ _ _ W Wk) as Cn.
  repeat (apply orb_true_iff in G; destruct G as [G|G]).
  - apply N.ltb_lt in G. unfold UNIT, c_recordUnit in G. lia.
  - apply N.ltb_lt in G. unfold_consts. lia.
  - apply negb_true_iff in G. apply N.eqb_neq in G. exfalso. apply G. clear - A1. nlia.
  - apply N.ltb_lt in G. lia.
Qed.

Lemma len_guard_behind : forall f t, wf_shared f -> In (t_off t) (f_chain f (bucket (t_nm t))) ->
  (load_len nlen f (t_off t) =? 0) || (t_map t <? t_off t + 16 + load_len nlen f (t_off t)) = true ->
  t_map t < f_limit f.
Proof.
  intros f t W Io G.
  destruct (linked_bounds bucket nlen H f _ _ W Io) as (A1 & A2 & A3 & nl & El & N1 & N2).
  rewrite El in G. apply orb_true_iff in G. destruct G as [G|G]; [apply N.eqb_eq in G; lia|apply N.ltb_lt in G; lia].
Qed.

Ltac simp_t := cbn [t_pc t_ops t_nm t_cell t_amt t_old t_map0 t_map t_head t_off t_n t_lim t_start t_end
  t_tries t_oldh t_sz t_res t_begun t_succ set_pc set_ops set_nm set_cell set_amt set_old set_map0 set_map
  set_head set_off set_n set_lim set_start set_end set_tries set_oldh set_sz set_res set_begun set_succ push_res] in *.

(* ---- the two walk heads ---- *)
Lemma look_fail_progress : forall f t t1 bound, t_pc t <> Done -> t_ops t1 = t_ops t ->
  3 + 2 * Lc f (bucket (t_nm t1)) + 6 + need f (t_nm t1) (t_map t1) < bound ->
  progress f t (look_fail t1) bound.
Proof.
  intros f t t1 bound Nd Eo B. unfold FileConc.look_fail. destruct (10 <=? t_tries t1).
  - apply ret_fail_done; assumption.
  - right. split; [apply same_remaining; cbn; auto; discriminate|]. unfold phi; simp_t. exact B.
Qed.

Lemma look_at_progress : forall f t t1 off n bound, wf_shared f -> t_pc t <> Done -> t_ops t1 = t_ops t ->
  inch f (bucket (t_nm t1)) off ->
  walked2 f (bucket (t_nm t1)) (t_head t1) off n (t_map t1) ->
  2 * sufl f (bucket (t_nm t1)) off + RMP f t1 + 6 + need f (t_nm t1) (t_map t1) + Rk f t1 < bound ->
  progress f t (look_at t1 off n) bound.
Proof.
  intros f t t1 off n bound W Nd Eo Io Wk B. unfold FileConc.look_at.
  destruct (off =? 0) eqn:Q0.
  - right. split; [apply same_remaining; cbn; auto; discriminate|]. unfold phi, Rk, RMP in *; simp_t. lia.
  - apply N.eqb_neq in Q0. destruct Io as [->|Io]; [contradiction|].
    destruct ((t_map t1 / UNIT <? n) || (off <? H + c_hashOff) || negb (off mod 8 =? 0) || (t_map t1 <? off + 16)) eqn:G.
    + apply look_fail_progress; auto.
      pose proof (guard_behind f t1 off n W Io Wk G) as Bh. unfold RMP in B.
      apply N.ltb_lt in Bh. rewrite Bh in B. lia.
    + right. split; [apply same_remaining; cbn; auto; discriminate|]. unfold phi, Rk, RMP in *; simp_t. lia.
Qed.

Lemma dwalk_progress : forall f t t1 off n bound, t_pc t <> Done -> t_ops t1 = t_ops t ->
  2 * sufl f (bucket (t_nm t1)) off + 2 + Rk f t1 < bound ->
  progress f t (dwalk t1 off n) bound.
Proof.
  intros f t t1 off n bound Nd Eo B. unfold FileConc.dwalk.
  destruct (off =? t_oldh t1).
  - right. split; [apply same_remaining; cbn; auto; discriminate|]. unfold phi, Rk in *; simp_t. lia.
  - destruct ((off <? H + c_hashOff) || negb (off mod 8 =? 0) || (t_map t1 <? off + 16)).
    + apply ret_fail_done; assumption.
    + right. split; [apply same_remaining; cbn; auto; discriminate|]. unfold phi, Rk in *; simp_t. lia.
Qed.

Ltac same_rem := apply same_remaining; cbn; auto; try discriminate; try congruence.
Ltac simp_f := unfold need, endof, head_of, Lc, sufl, load_val, FileConc.apply_act in *; cbn [f_size f_limit f_chain f_recs] in *.
Ltac fin Pc := right; split; [same_rem|]; unfold phi, Rk, RMP in *; simp_t; rewrite ?Pc.

(* ---- own steps ---- *)
Theorem own_progress : forall me f t, wf_shared f -> tinv me f t -> tinv2 f t -> t_pc t <> Done ->
  progress (match fst (step_thread me f t) with Some a => apply_act a f | None => f end)
           t (snd (step_thread me f t)) (phi f t).
Proof.
  intros me f t W T (R & P2) Nd. pose proof T as (M0 & M1 & C & S & Bg & P).
  unfold pc_inv in P. unfold pc_inv2 in P2. unfold FileConc.step_thread.
  destruct (t_pc t) eqn:Pc; cbn [fst snd]; try contradiction.
  - (* LHead *)
    apply look_at_progress; simp_t; auto using head_inch; try congruence.
    + apply (walked2_refl bucket nlen H).
    + unfold phi, Rk, RMP; simp_t. rewrite Pc, N.eqb_refl.
      pose proof (sufl_le f (bucket (t_nm t)) (head_of f (bucket (t_nm t)))). lia.
  - (* LLen *)
    destruct P as ([Nm1 Nm2] & Ih & Io & Wk). destruct P2 as (Tr & Bd & Wk2).
    pose proof (sufl_ge1 f _ _ Io) as S1.
    destruct ((load_len nlen f (t_off t) =? 0) || (t_map t <? t_off t + 16 + load_len nlen f (t_off t))) eqn:G; cbn [fst snd].
    + apply look_fail_progress; auto; try congruence.
      pose proof (len_guard_behind f t W Io G) as Bh. unfold phi, RMP. rewrite Pc.
      apply N.ltb_lt in Bh. rewrite Bh. lia.
    + fin Pc. lia.
  - (* LNext *)
    destruct P as ([Nm1 Nm2] & Ih & Io & Wk). destruct P2 as (Tr & Bd & Wk2).
    pose proof (sufl_ge1 f _ _ Io) as S1. pose proof (sufl_next f _ _ W Io) as Sn.
    destruct (name_eq f (t_off t) (t_nm t)) eqn:Q; cbn [fst snd].
    + apply ret_cell_done; auto; congruence.
    + destruct (walk_step bucket nlen H f _ _ _ _ W Io Wk Q) as [I2 _].
      apply look_at_progress; auto; try congruence.
      * apply (walked2_step bucket nlen H); auto.
      * unfold phi. rewrite Pc. lia.
  - (* RLimit *)
    destruct (f_limit f <=? t_map t); cbn [fst snd].
    + apply ret_fail_done; auto; congruence.
    + fin Pc. lia.
  - (* RMap *)
    destruct (f_size f <? t_lim t); cbn [fst snd].
    + apply ret_fail_done; auto; congruence.
    + fin Pc.
      pose proof W as [(_ & _ & Ls & _) _]. destruct M1 as [_ M1].
      assert (Q : (f_size f <? f_limit f) = false) by (apply N.ltb_ge; lia). rewrite Q.
      pose proof (need_mono f (t_nm t) (t_map t) (f_size f) M1). lia.
  - (* PLimit *)
    destruct (place (f_limit f) (t_nm t)) as [s e] eqn:Pl.
    assert (Ee : endof f (t_nm t) = e) by (unfold endof; rewrite Pl; reflexivity).
    destruct (W32 <=? round e PAGE); cbn [fst snd]; [apply ret_fail_done; auto; congruence|].
    destruct (t_map t <? e) eqn:Q; cbn [fst snd].
    + fin Pc. unfold need. rewrite Ee, Q. pose proof (round_page e) as (Rp & _).
      assert (Q2 : (N.max (f_size f) (round e PAGE) <? e) = false) by (apply N.ltb_ge; lia). rewrite Q2. lia.
    + fin Pc. rewrite N.eqb_refl. unfold need. rewrite Ee, Q. lia.
  - (* EStat *) fin Pc. lia.
  - (* EWrite *)
    destruct (t_sz t <? round (t_end t) PAGE) eqn:Q; cbn [fst snd]; fin Pc.
    + simp_f. rewrite <- N.max_assoc, N.max_id. lia.
    + lia.
  - (* EMap *)
    destruct (f_size f <? round (t_end t) PAGE) eqn:Q; cbn [fst snd]; [apply ret_fail_done; auto; congruence|].
    apply N.ltb_ge in Q. fin Pc. rewrite N.max_l by lia. lia.
  - (* PCas *)
    destruct (f_limit f =? t_lim t) eqn:Q; cbn [fst snd]; fin Pc; rewrite ?Q.
    + simp_f. lia.
    + lia.
  - (* WCopy *)
    destruct ((t_start t <? rec_start) || (t_map t <? t_start t + 16 + nlen (t_nm t))); cbn [fst snd];
      [apply ret_fail_done; auto; congruence|].
    fin Pc. simp_f. lia.
  - (* WLen *) fin Pc. simp_f. lia.
  - (* KNext *) fin Pc. simp_f. lia.
  - (* KCas *)
    destruct (head_of f (bucket (t_nm t)) =? t_head t) eqn:Q; cbn [fst snd]; [apply ret_cell_done; auto; congruence|].
    fin Pc. rewrite Q. lia.
  - (* DHead *)
    apply dwalk_progress; simp_t; auto; try congruence.
    unfold phi, Rk; simp_t. rewrite Pc, N.eqb_refl.
    pose proof (sufl_le f (bucket (t_nm t)) (head_of f (bucket (t_nm t)))). lia.
  - (* DLen *)
    destruct ((load_len nlen f (t_off t) =? 0) || (t_map t <? t_off t + 16 + load_len nlen f (t_off t))); cbn [fst snd];
      [apply ret_fail_done; auto; congruence|].
    fin Pc. lia.
  - (* DNext *)
    destruct P as (Io & Fo & Mi & Ih & Iof & Wk).
    pose proof (sufl_ge1 f _ _ Iof) as S1. pose proof (sufl_next f _ _ W Iof) as Sn.
    destruct (t_map t / UNIT <? t_n t); cbn [fst snd]; [apply ret_fail_done; auto; congruence|].
    destruct (name_eq f (t_off t) (t_nm t)); cbn [fst snd].
    + fin Pc. lia.
    + apply dwalk_progress; auto; try congruence. unfold phi. rewrite Pc. lia.
  - (* DDead *) apply ret_cell_done; auto; congruence.
  - (* ALoad *) fin Pc. rewrite N.eqb_refl. lia.
  - (* ACas *)
    destruct (load_val f (t_cell t) =? t_old t) eqn:Q; cbn [fst snd].
    + left. pose proof (dispatch_remaining (t_ops t) (set_succ ((t_cell t, t_amt t) :: t_succ t) t)) as X.
      unfold remaining at 2. rewrite Pc. simp_t. lia.
    + fin Pc. rewrite Q. lia.
Qed.

(* ---- steps of the others ---- *)
Definition is_cas (a : act) : bool :=
  match a with AReserve _ _ _ _ | ALink _ _ | AVal _ _ => true | _ => false end.

Ltac bconv :=
  repeat match goal with
         | H : (_ <? _) = true |- _ => apply N.ltb_lt in H
         | H : (_ <? _) = false |- _ => apply N.ltb_ge in H
         | H : (_ =? _) = true |- _ => apply N.eqb_eq in H
         | H : (_ =? _) = false |- _ => apply N.eqb_neq in H
         end.
Ltac ifs :=
  repeat match goal with
         | |- context [if ?c then _ else _] => destruct c eqn:?
         end; bconv.

Lemma phi_same : forall f f' t,
  f_chain f' (bucket (t_nm t)) = f_chain f (bucket (t_nm t)) -> f_limit f' = f_limit f -> f_size f' = f_size f ->
  (t_pc t = ACas -> load_val f' (t_cell t) = load_val f (t_cell t)) ->
  phi f' t = phi f t.
Proof.
  intros f f' t Ec El Es Ev. unfold phi, Rk, RMP, need, endof, head_of, Lc, sufl. rewrite Ec, El, Es.
  destruct (t_pc t); try reflexivity. rewrite Ev; reflexivity.
Qed.

Lemma cell_linked_rec : forall me f t, wf_shared f -> tinv me f t -> t_pc t = ACas ->
  exists b r, In (t_cell t) (f_chain f b) /\ find_rec (t_cell t) (f_recs f) = Some r.
Proof.
  intros me f t W (_ & _ & C & _ & _ & P) Pc. unfold pc_inv in P. rewrite Pc in P.
  destruct C as [C|[Ic _]]; [contradiction|]. exists (bucket (t_nm t)).
  destruct (proj2 W (bucket (t_nm t))) as (_ & LR & _). destruct (LR _ Ic) as (r & E & _). eauto.
Qed.

Theorem interference : forall me j f t a, wf_shared f -> tinv me f t -> tinv2 f t -> act_pre j f a -> j <> me ->
  let f' := apply_act a f in
  phi f' t <= phi f t + 20 + 2 * Lc f' (bucket (t_nm t)) /\
  (is_cas a = false -> phi f' t <= phi f t).
Proof.
  intros me j f t a W T T2 Pre Ne f'. subst f'.
  destruct a as [e|j' s e nm|off|off|off v|b off|off v]; cbn [is_cas].
  - (* AExtend: only the size grows *)
    assert (X : phi (apply_act (AExtend e) f) t <= phi f t).
    { unfold phi, Rk, RMP. simp_f. destruct (t_pc t); try lia; ifs; lia. }
    split; [lia|intros _; exact X].
  - (* AReserve: the limit moves *)
    split; [|discriminate].
    assert (Lv : t_pc t = ACas -> load_val (apply_act (AReserve j' s e nm) f) (t_cell t) = load_val f (t_cell t)).
    { intro Pc. destruct (cell_linked_rec me f t W T Pc) as (b & r & _ & E).
      unfold load_val. cbn [FileConc.apply_act f_recs]. rewrite find_rec_app, E. reflexivity. }
    unfold phi, Rk, RMP. simp_f. destruct (t_pc t) eqn:Pc; try lia; try (ifs; lia).
  - (* ACopy *)
    destruct Pre as (r0 & E0 & O0 & U0).
    rewrite (phi_same f (apply_act (ACopy off) f) t); try reflexivity; [split; [lia|intros _; lia]|].
    intro Pc. destruct (cell_linked_rec me f t W T Pc) as (b & r & Ic & E).
    unfold load_val. cbn [FileConc.apply_act f_recs]. rewrite find_rec_upd_other; [reflexivity|intro; reflexivity|].
    intro X. rewrite X in Ic. exact (U0 b Ic).
  - (* ALen *)
    destruct Pre as (r0 & E0 & O0 & U0).
    rewrite (phi_same f (apply_act (ALen off) f) t); try reflexivity; [split; [lia|intros _; lia]|].
    intro Pc. destruct (cell_linked_rec me f t W T Pc) as (b & r & Ic & E).
    unfold load_val. cbn [FileConc.apply_act f_recs]. rewrite find_rec_upd_other; [reflexivity|intro; reflexivity|].
    intro X. rewrite X in Ic. exact (U0 b Ic).
  - (* ANext *)
    destruct Pre as (r0 & E0 & O0 & U0).
    rewrite (phi_same f (apply_act (ANext off v) f) t); try reflexivity; [split; [lia|intros _; lia]|].
    intro Pc. destruct (cell_linked_rec me f t W T Pc) as (b0 & r & Ic & E).
    unfold load_val. cbn [FileConc.apply_act f_recs]. rewrite find_rec_upd_other; [reflexivity|intro; reflexivity|].
    intro X. rewrite X in Ic. exact (U0 b0 Ic).
  - (* ALink: a chain grows at the front *)
    split; [|discriminate].
    destruct Pre as (r0 & E0 & O0 & U0 & _).
    assert (Nz : off <> 0).
    { apply find_rec_some in E0. destruct E0 as [I0 Eo]. pose proof (wf_rec_pos nlen H f r0 (proj1 W) I0). lia. }
    destruct (bucket (t_nm t) =? b) eqn:Qb.
    + apply N.eqb_eq in Qb.
      assert (Ech : f_chain (apply_act (ALink b off) f) (bucket (t_nm t)) = off :: f_chain f (bucket (t_nm t))).
      { cbn [FileConc.apply_act f_chain]. rewrite Qb, N.eqb_refl. reflexivity. }
      assert (Sf : forall o, inch f (bucket (t_nm t)) o ->
                   suf o (off :: f_chain f (bucket (t_nm t))) = suf o (f_chain f (bucket (t_nm t)))).
      { intros o Io. cbn [suf]. destruct (off =? o) eqn:Q; [|reflexivity]. apply N.eqb_eq in Q. subst o.
        destruct Io as [X|X]; [contradiction|]. exfalso. exact (U0 _ X). }
      assert (Hd : forall h, inch f (bucket (t_nm t)) h -> (off =? h) = false).
      { intros h Ih. apply N.eqb_neq. intro X. subst h. destruct Ih as [X|X]; [contradiction|exact (U0 _ X)]. }
      destruct T as (_ & _ & _ & _ & _ & P). unfold pc_inv in P.
      unfold phi, Rk, RMP, need, endof, head_of, Lc, sufl. rewrite Ech.
      cbn [FileConc.apply_act f_limit f_size hd length].
      destruct (t_pc t) eqn:Pc; try lia;
        repeat match goal with H : _ /\ _ |- _ => destruct H end;
        try (rewrite (Sf (t_off t)) by (right; assumption));
        try (rewrite (Hd (t_head t)) by assumption);
        try (ifs; lia).
    + apply N.eqb_neq in Qb.
      rewrite (phi_same f (apply_act (ALink b off) f) t); try reflexivity; [lia|].
      cbn [FileConc.apply_act f_chain].
      destruct (bucket (t_nm t) =? b) eqn:Q; [apply N.eqb_eq in Q; contradiction|reflexivity].
  - (* AVal: a cell changes *)
    split; [|discriminate].
    unfold phi, Rk, RMP. simp_f. destruct (t_pc t); try lia. ifs; lia.
Qed.

(* ---- global statements ---- *)
Notation Inv2 := (Inv2 bucket nlen H).
Notation init_ok := (init_ok bucket nlen H).

Definition cas_step (st : state) (j : nat) : Prop :=
  exists tj a, nth_error (snd st) j = Some tj /\
               fst (step_thread j (fst st) tj) = Some a /\ is_cas a = true.

Lemma step_shape : forall f ts i t, nth_error ts i = Some t ->
  step (f, ts) i =
  ((match fst (step_thread i f t) with Some a => apply_act a f | None => f end),
   upd ts i (snd (step_thread i f t))).
Proof.
  intros f ts i t E. unfold FileConc.step. rewrite E. destruct (step_thread i f t) as [oa t']. reflexivity.
Qed.

Theorem nonblocking_own : forall st i t, Inv2 st -> nth_error (snd st) i = Some t -> t_pc t <> Done ->
  exists t', nth_error (snd (step st i)) i = Some t' /\ progress (fst (step st i)) t t' (phi (fst st) t).
Proof.
  intros [f ts] i t ((W & TI & V) & T2) E Nd. cbn [fst snd] in *.
  rewrite (step_shape f ts i t E). cbn [fst snd].
  exists (snd (step_thread i f t)). split; [eapply nth_upd_same; eauto|].
  apply (own_progress i f t W (TI i t E) (T2 i t E) Nd).
Qed.

Theorem nonblocking_others : forall st i j t, Inv2 st -> nth_error (snd st) i = Some t -> j <> i ->
  nth_error (snd (step st j)) i = Some t /\
  phi (fst (step st j)) t <= phi (fst st) t + 20 + 2 * Lc (fst (step st j)) (bucket (t_nm t)) /\
  (~ cas_step st j -> phi (fst (step st j)) t <= phi (fst st) t).
Proof.
  intros [f ts] i j t ((W & TI & V) & T2) E Ne. cbn [fst snd] in *.
  destruct (nth_error ts j) as [tj|] eqn:Ej.
  - rewrite (step_shape f ts j tj Ej). cbn [fst snd].
    split; [rewrite nth_upd_other by exact Ne; exact E|].
    assert (VB : forall r, In r (f_recs f) -> r_val r <= MAX64).
    { intros r I. rewrite (V r I). unfold sat. lia. }
    pose proof (step_thread_post bucket nlen H j f tj W VB (TI j tj Ej)) as Po.
    destruct (fst (step_thread j f tj)) as [a|] eqn:Ea.
    + destruct Po as (Pre & _).
      destruct (interference i j f t a W (TI i t E) (T2 i t E) Pre Ne) as (B1 & B2).
      split; [exact B1|]. intro NC. apply B2. destruct (is_cas a) eqn:Q; [|reflexivity].
      exfalso. apply NC. exists tj, a. cbn [fst snd]. auto.
    + split; [lia|intros _; lia].
  - unfold FileConc.step. rewrite Ej. cbn [fst snd]. split; [exact E|]. split; [lia|intros _; lia].
Qed.

(* a process that keeps running alone (all the others stopped or killed, at
   any points whatsoever) finishes all its calls *)
Theorem nonblocking_solo : forall st i t, Inv2 st -> nth_error (snd st) i = Some t ->
  exists k t', nth_error (snd (run (repeat i k) st)) i = Some t' /\ t_pc t' = Done.
Proof.
  intros st i t I2 E.
  remember (remaining t) as r eqn:Er. remember (phi (fst st) t) as p eqn:Ep.
  revert p st t I2 E Er Ep. induction r as [r IHr] using lt_wf_ind.
  intro p. induction p as [p IHp] using (well_founded_induction N.lt_wf_0).
  intros st t I2 E Er Ep.
  assert (Dec : t_pc t = Done \/ t_pc t <> Done)
    by (destruct (t_pc t); try (left; reflexivity); right; discriminate).
  destruct Dec as [Pd|Nd].
  - exists 0%nat, t. split; [exact E|exact Pd].
  - pose proof (Inv2_step bucket nlen H st i I2) as I2'.
    destruct (nonblocking_own st i t I2 E Nd) as (t' & E' & [Lt|[Eq Lt]]).
    + assert (Lt' : (remaining t' < r)%nat) by lia.
      destruct (IHr (remaining t') Lt' _ (step st i) t' I2' E' eq_refl eq_refl) as (k & t'' & A & B).
      exists (S k), t''. split; [exact A|exact B].
    + assert (Lt' : phi (fst (step st i)) t' < p) by lia.
      assert (Er' : r = remaining t') by lia.
      destruct (IHp (phi (fst (step st i)) t') Lt' (step st i) t' I2' E' Er' eq_refl) as (k & t'' & A & B).
      exists (S k), t''. split; [exact A|exact B].
Qed.

(* ---- the same, for the states reachable from any initial state ---- *)
Lemma reach_inv2 : forall st0 sched, init_ok st0 -> Inv2 (run sched st0).
Proof. intros. apply (Inv2_run bucket nlen H). apply (Inv2_init bucket nlen H). assumption. Qed.

Theorem nonblocking : forall st0 sched, init_ok st0 ->
  let st := run sched st0 in
  forall i t, nth_error (snd st) i = Some t ->
  (* its own step completes the current call or strictly decreases its potential *)
  (t_pc t <> Done ->
     exists t', nth_error (snd (step st i)) i = Some t' /\ progress (fst (step st i)) t t' (phi (fst st) t)) /\
  (* a step of another process leaves it where it is; its potential grows only
     if that step was a successful CAS, and then by a bounded amount *)
  (forall j, j <> i ->
     nth_error (snd (step st j)) i = Some t /\
     phi (fst (step st j)) t <= phi (fst st) t + 20 + 2 * Lc (fst (step st j)) (bucket (t_nm t)) /\
     (~ cas_step st j -> phi (fst (step st j)) t <= phi (fst st) t)) /\
  (* running alone from here (everybody else stopped or dead) it finishes all its calls *)
  (exists k t', nth_error (snd (run (repeat i k) st)) i = Some t' /\ t_pc t' = Done).
Proof.
  intros st0 sched I0 st i t E. pose proof (reach_inv2 st0 sched I0) as I2. fold st in I2.
  split; [intro Nd; apply nonblocking_own; assumption|].
  split; [intros j Ne; apply nonblocking_others; assumption|].
  eapply nonblocking_solo; eauto.
Qed.

End Progress.
