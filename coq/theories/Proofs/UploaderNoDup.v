(* Proofs/UploaderNoDup: every report body written by any step of any run
   folds in each count file at most once, and only count files of its own
   week that are expired for the writer (any number of uploaders, any
   interleaving). *)
From Coq Require Import List ZArith NArith Bool Lia Arith.
From Tele Require Import Lib.Bytes Lib.FS Model.Span Model.Uploader
  Proofs.FSFacts Proofs.UploaderBase Proofs.UploaderNames Proofs.UploaderFiles Proofs.UploaderData
  Proofs.UploaderEver.
Import ListNotations.
Open Scope nat_scope.

(* ---------------------------------------------------------------- names of a directory stay distinct *)
Definition dnames {C} (d : dir C) : list bytes := map fst d.

Lemma in_dnames_mem {C} (d : dir C) n : In n (dnames d) <-> d_mem d n = true.
Proof.
  split; [apply in_map_fst_mem|].
  unfold d_mem, dnames. induction d as [|[k v] d IH]; simpl; [discriminate|].
  destruct (beq k n) eqn:E; intros H.
  - apply beq_eq in E. auto.
  - auto.
Qed.

Lemma dnames_remove_in {C} (d : dir C) n m : In m (dnames (d_remove d n)) -> In m (dnames d).
Proof.
  unfold dnames. induction d as [|[k v] d IH]; simpl; auto.
  destruct (beq k n); simpl; intros H; [auto|destruct H; auto].
Qed.

Lemma nodup_remove {C} (d : dir C) n : NoDup (dnames d) -> NoDup (dnames (d_remove d n)).
Proof.
  unfold dnames. induction d as [|[k v] d IH]; simpl; intros H; [constructor|].
  inversion H; subst. destruct (beq k n); simpl; auto.
  constructor; auto. intros Hin. apply H2. apply (dnames_remove_in d n). exact Hin.
Qed.

Lemma dnames_set_id {C} (d : dir C) id c : dnames (d_set_id d id c) = dnames d.
Proof.
  unfold dnames. induction d as [|[k [i c0]] d IH]; simpl; auto.
  destruct (Nat.eqb i id); simpl; rewrite IH; reflexivity.
Qed.

Definition names_nodup (st : state) : Prop := NoDup (dnames (f_local (s_fs st))).

Lemma names_nodup_step st ia : names_nodup st -> names_nodup (step st ia).
Proof.
  unfold names_nodup. intros H. destruct ia as [i a].
  destruct (step_cases st i a) as [-> | (t & e & t' & Hi & Hk & Hd & ->)]; [auto|].
  simpl. rewrite local_apply. destruct e; auto.
  - apply nodup_remove. exact H.
  - simpl. constructor; auto. destruct (eff_createlocal _ _ _ _ _ Hd) as [Hm _].
    intros Hin. apply in_dnames_mem in Hin. congruence.
  - rewrite dnames_set_id. exact H.
Qed.

(* ---------------------------------------------------------------- sorting keeps distinctness *)
Lemma nodup_ins_sorted x l : ~ In x l -> NoDup l -> NoDup (ins_sorted x l).
Proof.
  induction l as [|y l IH]; simpl; intros Hn H.
  - constructor; auto.
  - destruct (bleb x y).
    + constructor; auto.
    + inversion H; subst. constructor.
      * rewrite in_ins_sorted. intros [-> | Hin]; [apply Hn; auto|contradiction].
      * apply IH; auto.
Qed.

Lemma nodup_sort_names l : NoDup l -> NoDup (sort_names l).
Proof.
  unfold sort_names. induction 1 as [|x l Hn H IH]; simpl; [constructor|].
  apply nodup_ins_sorted; auto. rewrite in_sort_names. exact Hn.
Qed.

Lemma nodup_filter {A} (f : A -> bool) l : NoDup l -> NoDup (filter f l).
Proof.
  induction 1 as [|x l Hn H IH]; simpl; [constructor|].
  destruct (f x); auto. constructor; auto. rewrite filter_In. tauto.
Qed.

(* ---------------------------------------------------------------- the thread's lists *)
Definition gnodup (g : list group) : Prop := Forall (fun e => NoDup (map fst (snd e))) g.

Record nd_inv (t : thread) : Prop := mkND {
  nd_work : NoDup (t_ents t ++ map fst (t_count t));
  nd_weeks : gnodup (t_weeks t);
  nd_files : in_rep (t_pc t) = true -> NoDup (map fst (t_files t))
}.

Lemma nd_inv_new k c : nd_inv (new_thread k c).
Proof. constructor; simpl; try constructor; discriminate. Qed.

Lemma nodup_app {A} (a b : list A) :
  NoDup (a ++ b) <-> NoDup a /\ NoDup b /\ (forall x, In x a -> ~ In x b).
Proof.
  induction a as [|y a IH]; simpl.
  - split; [intros H; repeat split; auto; constructor|tauto].
  - split.
    + intros H. inversion H; subst. apply IH in H3. destruct H3 as (Ha & Hb & Hd).
      split; [constructor; auto; intros Hin; apply H2; apply in_or_app; auto|].
      split; auto. intros x [<- | Hx]; [intros Hin; apply H2; apply in_or_app; auto|auto].
    + intros (Ha & Hb & Hd). inversion Ha; subst. constructor.
      * intros Hin. apply in_app_or in Hin. destruct Hin as [Hin | Hin]; [auto|]. apply (Hd y); auto.
      * apply IH. repeat split; auto.
Qed.

Lemma group_add_nd g w e :
  gnodup g -> (forall x, In x g -> ~ In (fst e) (map fst (snd x))) -> gnodup (group_add g w e).
Proof.
  intros H Hn. induction H as [|[w' l] g H1 H IH]; simpl.
  - constructor; [simpl; repeat constructor; auto|constructor].
  - destruct (beq w' w).
    + constructor; auto. simpl in *. rewrite map_app. simpl.
      apply nodup_app. split; auto. split; [repeat constructor; auto|].
      intros x Hx [<- | []]. apply (Hn (w', l)); auto.
    + constructor; auto. apply IH. intros x Hx. apply Hn. right. exact Hx.
Qed.

Lemma group_add_names g w e x n :
  In x (group_add g w e) -> In n (map fst (snd x)) ->
  n = fst e \/ exists y, In y g /\ In n (map fst (snd y)).
Proof.
  induction g as [|[w' l] g IH]; simpl.
  - intros [<- | []]. simpl. intros [<- | []]. auto.
  - destruct (beq w' w); simpl.
    + intros [<- | Hx] Hn.
      * simpl in Hn. rewrite map_app in Hn. apply in_app_or in Hn. destruct Hn as [Hn | [<- | []]]; auto.
        right. exists (w', l). auto.
      * right. exists x. auto.
    + intros [<- | Hx] Hn.
      * right. exists (w', l). auto.
      * destruct (IH Hx Hn) as [-> | (y & Hy & Hyn)]; auto. right. exists y. auto.
Qed.

Lemma group_files_nd start cs : NoDup (map fst cs) -> gnodup (group_files start cs).
Proof.
  unfold group_files. intros H.
  assert (G : forall acc, gnodup acc ->
            (forall x n, In x acc -> In n (map fst (snd x)) -> ~ In n (map fst cs)) ->
            gnodup (fold_left (fun g e => if before_start (cf_end (snd e)) start
                                          then group_add g (uploader_week (cf_end (snd e))) e else g) cs acc)).
  { induction cs as [|e cs IH]; intros acc Ha Hd; simpl; auto.
    simpl in H. inversion H; subst. apply IH; auto.
    - destruct (before_start (cf_end (snd e)) start); auto.
      apply group_add_nd; auto. intros x Hx Hin. apply (Hd x (fst e) Hx Hin). left. reflexivity.
    - intros x n Hx Hn Hin. destruct (before_start (cf_end (snd e)) start).
      + destruct (group_add_names _ _ _ _ _ Hx Hn) as [-> | (y & Hy & Hyn)]; [contradiction|].
        apply (Hd y n Hy Hyn). right. exact Hin.
      + apply (Hd x n Hx Hn). right. exact Hin. }
  apply G; [constructor|]. intros x n [].
Qed.

Lemma take_week_nd w g files rest :
  gnodup g -> take_week w g = Some (files, rest) -> NoDup (map fst files) /\ gnodup rest.
Proof.
  intros H. revert files rest. induction H as [|[w' l] g H1 H IH]; simpl; intros files rest E; [discriminate|].
  destruct (beq w' w).
  - injection E as <- <-. auto.
  - destruct (take_week w g) as [[l0 r]|]; [|discriminate]. injection E as <- <-.
    destruct (IH _ _ eq_refl) as (A & B). split; auto. constructor; auto.
Qed.

Lemma nd_inv_step f a t e t' :
  decide_all f a t = (e, t') -> NoDup (dnames (f_local f)) -> nd_inv t -> nd_inv t'.
Proof.
  intros H HF [N1 N2 N3].
  destruct a; dinv H; adv; pcrw; simpl in *.
  all: try (destruct (take_week_nd _ _ _ _ N2 ltac:(eassumption)) as (Tf & Tr)).
  all: constructor; simpl; pcrw.
  all: try (match goal with |- (_ = _) -> _ => intros Hx; simpl in Hx; dmatch Hx; pcdiscr end).
  all: repeat match goal with E : ?x = _ |- context [?x] => rewrite E end.
  all: auto.
  all: try (constructor; fail).
  all: try (apply group_files_nd; apply nodup_app in N1; tauto).
  - rewrite app_nil_r, <- Heql. apply nodup_filter. apply nodup_sort_names. exact HF.
  - inversion N1; subst. assumption.
  - inversion N1 as [|x l0 Hn Hnd]; subst. rewrite map_app. simpl.
    apply nodup_app in Hnd. destruct Hnd as (A & B & D).
    apply nodup_app. split; auto. split.
    + apply nodup_app. split; auto. split; [repeat constructor; auto|].
      intros x Hx [<- | []]. apply Hn. apply in_or_app. auto.
    + intros x Hx Hin. apply in_app_or in Hin. destruct Hin as [Hin | [<- | []]].
      * apply (D x); auto.
      * apply Hn. apply in_or_app. auto.
  - inversion N1; subst. assumption.
  - inversion N1; subst. assumption.
Qed.

Lemma nd_reach f cfgs st :
  fs_wf f -> NoDup (dnames (f_local f)) -> reach_from (init_state f cfgs) st ->
  names_nodup st /\ forall i t, nth_error (s_ths st) i = Some t -> nd_inv t.
Proof.
  intros Hwf Hnd. induction 1 as [|st ia H IH|st c H IH].
  - split; [exact Hnd|]. intros i t Hi. destruct (init_threads _ _ _ _ Hi) as (k & c & ->). apply nd_inv_new.
  - destruct IH as [Hn Ht]. split; [apply names_nodup_step; exact Hn|].
    intros j tj Hj. destruct ia as [i a].
    destruct (step_cases st i a) as [E | (t & e & t' & Hi & Hk & Hd & E)]; rewrite E in Hj; [eauto|].
    simpl in Hj. rewrite nth_error_upd in Hj. destruct (Nat.eqb i j) eqn:Eij; [|eauto].
    rewrite Hi in Hj. injection Hj as <-. eapply nd_inv_step; eauto.
  - destruct IH as [Hn Ht]. split; [exact Hn|].
    intros i t Hi. destruct (spawn_threads _ _ _ _ Hi) as [H1 | [_ ->]]; [eauto|apply nd_inv_new].
Qed.

(* ---------------------------------------------------------------- every report written *)
Theorem report_sound f cfgs st i a t fd c t' :
  fs_wf f -> NoDup (dnames (f_local f)) -> reach_from (init_state f cfgs) st ->
  nth_error (s_ths st) i = Some t -> decide_all (s_fs st) a t = (EWriteId fd c, t') ->
  exists r, c = CRep (Some r) /\ r_week r = t_week t /\ r_by r = t_id t /\
            NoDup (map fst (r_files r)) /\
            Forall (entry_ok (f_local f) (t_cfg t) (t_week t)) (r_files r).
Proof.
  intros Hwf Hnd Hrf Hi Hd.
  destruct (nd_reach _ _ _ Hwf Hnd Hrf) as [_ HN]. destruct (data_reach _ _ _ Hwf Hrf) as (_ & _ & HD).
  pose proof (HN _ _ Hi) as N. pose proof (HD _ _ Hi) as D.
  destruct (eff_writeid _ _ _ _ _ _ Hd) as (_ & [(Hp & -> & _) | (Hp & -> & _)]).
  - eexists. split; [reflexivity|]. simpl. repeat split; auto.
    + apply (nd_files _ N). rewrite Hp. reflexivity.
    + apply (di_files _ _ D). rewrite Hp. reflexivity.
  - eexists. split; [reflexivity|]. simpl. repeat split; auto.
    + apply (nd_files _ N). rewrite Hp. reflexivity.
    + apply (di_files _ _ D). rewrite Hp. reflexivity.
Qed.
