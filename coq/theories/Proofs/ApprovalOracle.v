(* Proofs/ApprovalOracle: the executable viewer oracle of C11
   (Model/Approval.viewer_check, applied by the runner to the IMPLEMENTATION's
   summary, ActiveMeta, Active flags and X = 0 upload) reports nothing on the
   model's own outputs, for every configuration and counter file. *)
From Coq Require Import List ZArith NArith Bool Lia.
From Tele Require Import Lib.Bytes Lib.Str Lib.Assoc Lib.Calendar Model.Config Model.ApprovalSpec Model.Report
  Model.Approval Proofs.ConfigFacts Proofs.AggregateFacts Proofs.ReportFacts Proofs.ReportOracle
  Proofs.ApprovalFacts.
Import ListNotations.
Open Scope N_scope.

Lemma filter_nil_all {A} (p : A -> bool) l : filter p l = [] -> forall x, In x l -> p x = false.
Proof.
  intros H x Hx. destruct (p x) eqn:E; [|reflexivity].
  assert (Hin : In x (filter p l)) by (apply filter_In; auto). rewrite H in Hin. destruct Hin.
Qed.

Lemma map_nil_inv {A B} (g : A -> B) l : map g l = [] -> l = [].
Proof. destruct l; [reflexivity | discriminate]. Qed.

Section ViewerOracle.
  (* f is one of the week's files; the X = 0 upload is built from the whole week *)
  Variables (u : upload_cfg) (files : list cfile) (f : cfile).
  Hypothesis Hf : In f files.
  Local Notation c := (new_config u).
  Local Notation i := (f_ident f).
  Local Notation prog := (id_program (f_ident f)).
  Local Notation ps := (filter_upload (new_config u) 0 (aggregate files)).

  Lemma keeps0_approved k : uploader_keeps c 0 prog k = approved_itemb u prog k.
  Proof. apply deciders_item_agree. Qed.

  Lemma registered_approved k : viewer_registered c prog k = approved_itemb u prog k.
  Proof. apply deciders_item_agree. Qed.

  Lemma ps_nodup : NoDup (akeys ps).
  Proof. apply keys_filter_upload, wf_aggregate. Qed.

  Lemma ps_present : approved_buildb u i = true -> exists cs ss, aget ident_eqb i ps = Some (cs, ss) /\
    forall k v0, In (k, v0) (f_counts f) ->
      (uploader_keeps c 0 prog k = true <-> exists v, In (k, v) (if is_stack k then ss else cs)).
  Proof.
    intro Ha. apply approved_buildb_spec in Ha.
    destruct (upload_complete u files 0 f Hf Ha) as [cs [ss [Hin _]]].
    exists cs, ss. split; [apply (In_aget _ _ ident_eqb ident_eqb_eq); [apply ps_nodup | exact Hin]|].
    intros k v0 Hk. rewrite (uploader_keeps_iff_uploaded u files f k v0 Hf Hk Ha). split.
    - intros [cs1 [ss1 [v [Hin1 Hv]]]].
      assert (He : (cs1, ss1) = (cs, ss)).
      { pose proof (In_aget _ _ ident_eqb ident_eqb_eq _ _ _ ps_nodup Hin) as E0.
        pose proof (In_aget _ _ ident_eqb ident_eqb_eq _ _ _ ps_nodup Hin1) as E1. congruence. }
      injection He as -> ->. eauto.
    - intros [v Hv]. eauto.
  Qed.

  Lemma ps_absent : approved_buildb u i = false -> aget ident_eqb i ps = None.
  Proof.
    intro Hn. destruct (aget ident_eqb i ps) as [[cs ss]|] eqn:E; [|reflexivity]. exfalso.
    apply (aget_In _ _ ident_eqb ident_eqb_eq) in E.
    destruct (upload_sound _ _ _ _ _ _ E) as [Hb _]. apply approved_buildb_spec in Hb. congruence.
  Qed.

  Theorem viewer_check_model :
    viewer_check u f (viewer_summary c f) (viewer_active_meta c i) (viewer_active c f) (Some ps) = [].
  Proof.
    unfold viewer_check. cbv zeta.
    (* 1, 2: the set verdict and the meta flags *)
    pose proof (deciders_build_agree u i f eq_refl) as [_ [_ [Hmeta Hset]]].
    rewrite Hset, Hmeta, !Bool.eqb_reflx. cbn [app].
    (* 3: Active flags = documented approval *)
    assert (H3 : forallb (fun kb : bytes * bool => Bool.eqb (snd kb) (approved_itemb u prog (fst kb)))
                         (viewer_active c f) = true).
    { apply forallb_forall. intros kb Hin. unfold viewer_active in Hin. apply in_map_iff in Hin as [kv [<- _]].
      cbn [fst snd]. rewrite registered_approved. apply Bool.eqb_reflx. }
    rewrite H3. cbn [app].
    destruct (approved_buildb u i) eqn:Ea; cbn [negb andb].
    - (* approved build *)
      pose proof (viewer_items_iff_uploader u f (proj1 (approved_buildb_spec u i) Ea)) as Hitems.
      cbv zeta in Hitems.
      destruct Hitems as [Hsum Hact].
      set (dropped := map (fun kv : bytes * N => display_name (fst kv))
                          (filter (fun kv : bytes * N => negb (uploader_keeps c 0 prog (fst kv))) (f_counts f))) in *.
      assert (Hdrop_in : forall n, In n dropped ->
                existsb (fun kv : bytes * N => beq (display_name (fst kv)) n && negb (approved_itemb u prog (fst kv)))
                        (f_counts f) = true).
      { intros n Hn. subst dropped. apply in_map_iff in Hn as [kv [<- Hkv]]. apply filter_In in Hkv as [Hkv Hk].
        apply existsb_exists. exists kv. split; [exact Hkv|]. rewrite beq_refl, <- keeps0_approved. exact Hk. }
      assert (Hdrop_all : forall kv, In kv (f_counts f) ->
                approved_itemb u prog (fst kv) || memb (display_name (fst kv)) dropped = true).
      { intros kv Hkv. destruct (approved_itemb u prog (fst kv)) eqn:E; [reflexivity|]. cbn [orb].
        apply memb_In. subst dropped. apply in_map_iff. exists kv. split; [reflexivity|].
        apply filter_In. split; [exact Hkv|]. rewrite keeps0_approved, E. reflexivity. }
      destruct (ps_present Ea) as [cs [ss [Hget Hkeep]]].
      assert (H5 : forallb (fun kb : bytes * bool => Bool.eqb (snd kb) (in_upload ps i (fst kb))) (viewer_active c f) = true).
      { apply forallb_forall. intros kb Hin. rewrite Hact in Hin. apply in_map_iff in Hin as [[k v0] [<- Hkv]].
        cbn [fst snd]. unfold in_upload. rewrite Hget. cbn [fst snd].
        destruct (uploader_keeps c 0 prog k) eqn:Ek.
        - destruct (proj1 (Hkeep k v0 Hkv) Ek) as [v Hv].
          assert (Hkey : In k (akeys (if is_stack k then ss else cs))) by (apply in_map_iff; exists (k, v); auto).
          destruct (In_aget_some beq beq_eq _ _ Hkey) as [v' ->]. reflexivity.
        - destruct (aget beq k (if is_stack k then ss else cs)) as [v|] eqn:Eg; [|reflexivity]. exfalso.
          apply (aget_In _ _ beq beq_eq) in Eg.
          assert (Ht : uploader_keeps c 0 prog k = true) by (apply (Hkeep k v0 Hkv); eauto). congruence. }
      rewrite Hsum, Hget, H5. destruct dropped as [|n l] eqn:Ed.
      + (* nothing dropped: clean summary, every counter approved *)
        assert (Hall : forallb (fun kv : bytes * N => approved_itemb u prog (fst kv)) (f_counts f) = true).
        { apply forallb_forall. intros kv Hkv. subst dropped. apply map_nil_inv in Ed.
          pose proof (filter_nil_all _ _ Ed kv Hkv) as Hk. cbn beta in Hk. apply negb_false_iff in Hk.
          rewrite <- keeps0_approved. exact Hk. }
        rewrite Hall. reflexivity.
      + assert (H41 : forallb (fun n0 => existsb (fun kv : bytes * N => beq (display_name (fst kv)) n0 &&
                                   negb (approved_itemb u prog (fst kv))) (f_counts f)) (n :: l) = true)
          by (apply forallb_forall; exact Hdrop_in).
        assert (H42 : forallb (fun kv : bytes * N => approved_itemb u prog (fst kv) ||
                                   memb (display_name (fst kv)) (n :: l)) (f_counts f) = true)
          by (apply forallb_forall; exact Hdrop_all).
        rewrite H41, H42. reflexivity.
    - (* build not approved *)
      rewrite (ps_absent Ea). reflexivity.
  Qed.
End ViewerOracle.
