(* Consequences of the invariant of Model/CounterConc for every reachable
   state of every schedule, any number of threads. *)
From Coq Require Import List ZArith NArith Bool Lia.
From Tele Require Import Gen.Consts Model.CounterConc Proofs.CounterWord Proofs.CounterInv.
Import ListNotations.
Open Scope Z_scope.

Definition good_init (s : shared) (ts : list thread) : Prop :=
  0 <= s_word s < W64 /\ wf s /\ Forall fresh_thread ts /\ Z.of_nat (length ts) < LOCKED /\
  w_readers (s_word s) = 0 /\ init_clean s.

Definition total0 (s : shared) (ts : list thread) : Z :=
  persisted s + w_extra (s_word s) + sumf unbegun ts.

Lemma reach_inv np s0 ts0 sched : good_init s0 ts0 ->
  Inv (total0 s0 ts0) (run np sched (s0, ts0)).
Proof.
  intros (A & B & C & D & E & G). apply inv_run. apply inv_init; assumption.
Qed.

Lemma sumf_le f g l : (forall t, In t l -> f t <= g t) -> sumf f l <= sumf g l.
Proof.
  induction l as [|x l IH]; intros H; cbn [sumf]; [lia|].
  pose proof (H x (or_introl eq_refl)). pose proof (IH (fun t Ht => H t (or_intror Ht))). lia.
Qed.

Lemma tl_measures t : tl_ok t -> 0 <= carry t /\ unbegun t <= undep t /\ 0 <= unbegun t.
Proof. intros [Ha _]. unfold carry, undep, unbegun. destruct (t_pc t); lia. Qed.

(* no wrap-around: the word stays a 64-bit value whose fields are in range,
   the reader field is the lock value or exactly the number of threads inside
   the reader section (so it never under- or overflows), cells stay 64-bit *)
Theorem no_wrap np s0 ts0 sched : good_init s0 ts0 ->
  let '(s, ts) := run np sched (s0, ts0) in
  0 <= s_word s < W64 /\ 0 <= w_extra (s_word s) <= MAXEXTRA /\
  (w_readers (s_word s) = LOCKED \/
   (w_readers (s_word s) = sumf rd ts /\ sumf rd ts <= Z.of_nat (length ts))) /\
  Forall (fun c => 0 <= c < W64) (s_cells s).
Proof.
  intros G. pose proof (reach_inv np _ _ sched G) as I.
  destruct (run np sched (s0, ts0)) as [s ts].
  destruct I as (r & h & e & F & C & TL & W & _).
  rewrite (fields_readers _ _ _ _ F), (fields_extra _ _ _ _ F).
  split; [apply (fields_range _ _ _ _ F)|]. destruct F as (_ & _ & He). split; [exact He|].
  split; [|apply W].
  pose proof (sum_rd_lk_le ts). unfold cnt_ok in C. lia.
Qed.

(* at every instant persisted + pending never exceeds the increments begun *)
Theorem upper_bound np s0 ts0 sched : good_init s0 ts0 ->
  let '(s, ts) := run np sched (s0, ts0) in
  persisted s + w_extra (s_word s)
  <= persisted s0 + w_extra (s_word s0) + (sumf unbegun ts0 - sumf unbegun ts).
Proof.
  intros G. pose proof (reach_inv np _ _ sched G) as I.
  destruct (run np sched (s0, ts0)) as [s ts].
  destruct I as (r & h & e & F & C & TL & W & _ & _ & _ & _ & LE & _).
  rewrite (fields_extra _ _ _ _ F). unfold total0 in LE.
  assert (0 <= sumf carry ts).
  { apply sumf_nonneg. intros t Ht. rewrite Forall_forall in TL. apply (tl_measures t (TL t Ht)). }
  assert (sumf unbegun ts <= sumf undep ts).
  { apply sumf_le. intros t Ht. rewrite Forall_forall in TL. apply (tl_measures t (TL t Ht)). }
  lia.
Qed.

Lemma done_measures ts : all_done ts = true ->
  sumf carry ts = 0 /\ sumf undep ts = 0 /\ sumf unbegun ts = 0 /\ sumf rd ts = 0 /\ sumf lk ts = 0 /\
  sumf pendI ts = 0 /\ sumf pendR ts = 0 /\ sumf look ts = 0 /\ sumf xr ts = 0.
Proof.
  induction ts as [|t ts IH]; cbn [all_done forallb sumf]; [intros; lia|].
  intros H. apply andb_true_iff in H as [Ht H]. destruct (IH H) as (A & B & C & D & E & P1 & P2 & P3 & P4).
  assert (M : carry t = 0 /\ undep t = 0 /\ unbegun t = 0 /\ rd t = 0 /\ lk t = 0 /\
              pendI t = 0 /\ pendR t = 0 /\ look t = 0 /\ xr t = 0).
  { unfold is_done in Ht. unfold carry, undep, unbegun, rd, lk, pendI, pendR, look, xr.
    destruct (t_pc t); try discriminate. lia. }
  lia.
Qed.

(* once every call has returned, and no add saturated, nothing is lost and
   nothing is counted twice *)
Theorem exact_at_quiescence np s0 ts0 sched : good_init s0 ts0 ->
  let '(s, ts) := run np sched (s0, ts0) in
  all_done ts = true -> s_sat s = false ->
  persisted s + w_extra (s_word s) = persisted s0 + w_extra (s_word s0) + sumf unbegun ts0 /\
  w_readers (s_word s) = 0.
Proof.
  intros G. pose proof (reach_inv np _ _ sched G) as I.
  destruct (run np sched (s0, ts0)) as [s ts].
  destruct I as (r & h & e & F & C & TL & W & _ & _ & _ & _ & _ & EQ).
  intros D S. destruct (done_measures _ D) as (A & B & _ & Rz & Lz & _).
  rewrite (fields_extra _ _ _ _ F), (fields_readers _ _ _ _ F). specialize (EQ S).
  unfold total0 in EQ. unfold cnt_ok in C. rewrite LOCKED_v in *. split; lia.
Qed.

(* once a counter file is open and all calls have returned, nothing remains
   unpersisted, and a valid pointer is the CURRENT mapping's (increments after a
   rotation land only in the new file) *)
Theorem nothing_unpersisted np s0 ts0 sched : good_init s0 ts0 ->
  let '(s, ts) := run np sched (s0, ts0) in
  all_done ts = true -> s_cur s <> None ->
  w_extra (s_word s) = 0 /\ (w_have (s_word s) = true -> s_ptr s = s_cur s).
Proof.
  intros G. pose proof (reach_inv np _ _ sched G) as I.
  destruct (run np sched (s0, ts0)) as [s ts].
  destruct I as (r & h & e & F & C & TL & W & _ & _ & (S1 & S2 & S3 & S4 & S5) & _).
  intros D Hc. destruct (done_measures _ D) as (_ & _ & _ & Rz & Lz & P1 & P2 & P3 & _).
  rewrite (fields_extra _ _ _ _ F), (fields_have _ _ _ _ F).
  rewrite Rz, Lz, P1, P2, P3 in *.
  pose proof F as (_ & _ & He).
  assert (Fresh : h = true -> s_ptr s = s_cur s).
  { intros Hh. destruct (s_ptr s) as [g|] eqn:Ep; destruct (s_cur s) as [g'|] eqn:Ec; try congruence.
    - destruct (Nat.eq_dec g g') as [->|Ne]; [reflexivity|].
      assert (1 <= 0) by (apply S1; [exact Hh | congruence | reflexivity]). lia.
    - assert (1 <= 0) by (apply S1; [exact Hh | congruence | reflexivity]). lia. }
  split; [|exact Fresh].
  destruct (Z_le_gt_dec e 0) as [Hle|Hgt]; [lia|].
  destruct (S4 ltac:(lia)) as [X|[X|[[Hh Hp]|X]]]; try lia.
  specialize (Fresh Hh). rewrite Hp in Fresh. congruence.
Qed.

(* no call dereferences a nil counter pointer *)
Theorem no_nil_deref np s0 ts0 sched : good_init s0 ts0 ->
  Forall (fun t => crashed t = false) (snd (run np sched (s0, ts0))).
Proof.
  intros G. pose proof (reach_inv np _ _ sched G) as I.
  destruct (run np sched (s0, ts0)) as [s ts]. cbn [snd].
  destruct I as (r & h & e & _ & _ & _ & _ & _ & CR & _). exact CR.
Qed.

(* the saturating operations never decrease and never wrap (one-step facts) *)
Theorem add_extra_no_wrap w n : 0 <= w < W64 -> 0 <= n ->
  w_extra w <= w_extra (w_add_extra w n) <= MAXEXTRA /\
  w_extra (w_add_extra w n) <= w_extra w + n /\
  w_readers (w_add_extra w n) = w_readers w /\ w_have (w_add_extra w n) = w_have w.
Proof.
  intros Hw Hn. pose proof (fields_of _ Hw) as F.
  destruct (f_add_extra _ _ _ _ n F Hn) as [F' _].
  pose proof F as (_ & _ & He).
  pose proof (extra_after_le _ n He Hn).
  rewrite (fields_extra _ _ _ _ F'), (fields_readers _ _ _ _ F'), (fields_have _ _ _ _ F').
  destruct F' as (_ & _ & He'). repeat split; try lia.
Qed.

(* A lock holder whose own lookup extended the file (newCounter1 stored a new
   mapping and its cleanup invalidated every counter, this one included) holds
   the lock with havePtr clear from the end of its invalidate until it sets
   havePtr again: the pointer lookup returns is assigned but never used - the
   next CAS on the saved word fails and the counter is looked up again. *)
Theorem grower_must_look_up_again np s0 ts0 sched : good_init s0 ts0 ->
  let '(s, ts) := run np sched (s0, ts0) in
  forall i t, nth_error ts i = Some t -> t_pc t = GRfLoad \/ t_pc t = GClose ->
  w_have (s_word s) = false /\ w_readers (s_word s) = LOCKED.
Proof.
  intros G. pose proof (reach_inv np _ _ sched G) as I.
  destruct (run np sched (s0, ts0)) as [s ts].
  destruct I as (r & h & e & F & C & TL & W & _ & _ & (_ & _ & _ & _ & S5) & _).
  intros i t Hn Hpc.
  pose proof (sum_others_bound _ _ _ Hn) as (B1 & B2 & B3 & B4 & B5 & B6 & B7 & B8 & B9).
  assert (gp t = 1 /\ lk t = 1) as [G1 L1] by (unfold gp, lk; destruct Hpc as [-> | ->]; split; reflexivity).
  rewrite (fields_have _ _ _ _ F), (fields_readers _ _ _ _ F). split.
  - apply S5. lia.
  - unfold cnt_ok in C. pose proof (sum_rd_lk_le ts). rewrite LOCKED_v in *. lia.
Qed.
