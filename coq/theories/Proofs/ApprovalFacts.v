(* Proofs/ApprovalFacts: property C11.  The uploader's filter, the server's
   validate and the viewer's summary / Active flags all decide approval by the
   documented semantics of the configuration (Model/ApprovalSpec), hence agree. *)
From Coq Require Import List ZArith NArith Bool Lia.
From Tele Require Import Lib.Bytes Lib.Str Lib.Assoc Lib.Calendar Model.Config Model.ApprovalSpec Model.Report
  Model.Approval Proofs.ConfigFacts Proofs.AggregateFacts Proofs.ReportFacts.
Import ListNotations.
Open Scope N_scope.

(* ---------------------------------------------------------------- one specification, three deciders: builds *)

Lemma server_build_ok_eq c i : server_build_ok c i = build_ok c i.
Proof.
  unfold server_build_ok, build_ok.
  destruct (has_goarch c (id_goarch i)), (has_goos c (id_goos i)); reflexivity.
Qed.

Lemma build_ok_approvedb u i : build_ok (new_config u) i = approved_buildb u i.
Proof.
  destruct (approved_buildb u i) eqn:E.
  - apply build_ok_spec, approved_buildb_spec, E.
  - destruct (build_ok (new_config u) i) eqn:E2; [|reflexivity].
    apply build_ok_spec, approved_buildb_spec in E2. congruence.
Qed.

Lemma viewer_meta_all c i : forallb (fun b => b) (viewer_active_meta c i) = build_ok c i.
Proof.
  unfold viewer_active_meta, build_ok. cbn [forallb].
  destruct (has_program c (id_program i)), (has_version c (id_program i) (id_version i)),
    (has_goos c (id_goos i)), (has_goarch c (id_goarch i)), (has_goversion c (id_goversion i)); reflexivity.
Qed.

Lemma viewer_set_iff c f : summary_excludes_set (viewer_summary c f) = negb (build_ok c (f_ident f)).
Proof.
  unfold viewer_summary, build_ok. cbv zeta.
  destruct (has_program c (id_program (f_ident f))); cbn [negb andb orb]; [|rewrite !andb_false_r; reflexivity].
  destruct (has_goos c (id_goos (f_ident f))); cbn [negb andb orb]; [|reflexivity].
  destruct (has_goarch c (id_goarch (f_ident f))); cbn [negb andb orb]; [|reflexivity].
  destruct (has_goversion c (id_goversion (f_ident f))); cbn [negb andb orb]; [|reflexivity].
  destruct (has_version c (id_program (f_ident f)) (id_version (f_ident f))); cbn [negb andb orb]; [|reflexivity].
  destruct (viewer_unregistered c f); reflexivity.
Qed.

(* the three build tests are the documented one *)
Theorem deciders_build_agree u i f : f_ident f = i ->
  build_ok (new_config u) i = approved_buildb u i /\
  server_build_ok (new_config u) i = approved_buildb u i /\
  forallb (fun b => b) (viewer_active_meta (new_config u) i) = approved_buildb u i /\
  summary_excludes_set (viewer_summary (new_config u) f) = negb (approved_buildb u i).
Proof.
  intros <-. rewrite server_build_ok_eq, viewer_meta_all, viewer_set_iff, build_ok_approvedb. auto.
Qed.

(* ---------------------------------------------------------------- counters and stacks *)

Lemma has_counter_approvedb u prog k : has_counter (new_config u) prog k = approved_counterb u prog k.
Proof.
  destruct (approved_counterb u prog k) eqn:E.
  - apply has_counter_spec, approved_counterb_spec, E.
  - destruct (has_counter (new_config u) prog k) eqn:E2; [|reflexivity].
    apply has_counter_spec, approved_counterb_spec in E2. congruence.
Qed.

Lemma has_stack_approvedb u prog k : has_stack (new_config u) prog (stack_title k) = approved_stackb u prog k.
Proof.
  destruct (approved_stackb u prog k) eqn:E.
  - apply has_stack_spec, approved_stackb_spec, E.
  - destruct (has_stack (new_config u) prog (stack_title k)) eqn:E2; [|reflexivity].
    apply has_stack_spec, approved_stackb_spec in E2. congruence.
Qed.

(* at the most permissive X (rates are >= 0) the uploader keeps exactly the
   approved items; so does the viewer's registration test; the server's
   per-item tests are the same table lookups *)
Theorem deciders_item_agree u prog k :
  uploader_keeps (new_config u) 0 prog k = approved_itemb u prog k /\
  viewer_registered (new_config u) prog k = approved_itemb u prog k.
Proof.
  unfold uploader_keeps, viewer_registered, approved_itemb, keep_stack, keep_counter. cbv zeta. cbn [fst].
  assert (H0 : forall r, (0 <=? r) = true) by (intro r; apply N.leb_le, N.le_0_l).
  destruct (is_stack k).
  - rewrite has_stack_approvedb, H0, andb_true_r. auto.
  - rewrite has_counter_approvedb, H0, andb_true_r. auto.
Qed.

(* at any X the uploader keeps no more than that *)
Lemma uploader_keeps_mono c x prog k : uploader_keeps c x prog k = true -> uploader_keeps c 0 prog k = true.
Proof.
  unfold uploader_keeps, keep_stack, keep_counter. cbv zeta. cbn [fst].
  destruct (is_stack k); rewrite !andb_true_iff; intros [H _]; (split; [exact H | apply N.leb_le, N.le_0_l]).
Qed.

(* ---------------------------------------------------------------- server: exact characterisation *)

Definition prog_within (u : upload_cfg) (p : ident * body) : Prop :=
  approved_build u (fst p) /\
  (forall k v, In (k, v) (fst (snd p)) -> exists r, counter_entry u (id_program (fst p)) k r) /\
  (forall k v, In (k, v) (snd (snd p)) -> exists r, stack_entry u (id_program (fst p)) (stack_title k) r).

Lemma server_prog_spec u p : server_prog (new_config u) p = VOk <-> prog_within u p.
Proof.
  unfold server_prog, prog_within. cbv zeta. rewrite server_build_ok_eq.
  destruct (build_ok (new_config u) (fst p)) eqn:Eb; cbn [negb].
  - apply build_ok_spec in Eb.
    destruct (forallb (fun kv : bytes * Z => has_counter (new_config u) (id_program (fst p)) (fst kv)) (fst (snd p))) eqn:Ec; cbn [negb].
    + rewrite forallb_forall in Ec.
      destruct (forallb (fun kv : bytes * Z => has_stack (new_config u) (id_program (fst p)) (stack_title (fst kv))) (snd (snd p))) eqn:Es; cbn [negb].
      * rewrite forallb_forall in Es. split; [intros _|reflexivity]. split; [exact Eb|]. split; intros k v Hin.
        -- apply has_counter_spec. exact (Ec _ Hin).
        -- apply has_stack_spec. exact (Es _ Hin).
      * split; [discriminate|]. intros [_ [_ Hs]]. exfalso.
        assert (Ht : forallb (fun kv : bytes * Z => has_stack (new_config u) (id_program (fst p)) (stack_title (fst kv))) (snd (snd p)) = true).
        { apply forallb_forall. intros [k v] Hin. apply has_stack_spec. eapply Hs. exact Hin. }
        congruence.
    + split; [discriminate|]. intros [_ [Hc _]]. exfalso.
      assert (Ht : forallb (fun kv : bytes * Z => has_counter (new_config u) (id_program (fst p)) (fst kv)) (fst (snd p)) = true).
      { apply forallb_forall. intros [k v] Hin. apply has_counter_spec. eapply Hc. exact Hin. }
      congruence.
  - split; [discriminate|]. intros [Hb _]. apply build_ok_spec in Hb. congruence.
Qed.

Lemma server_progs_spec u ps : server_progs (new_config u) ps = VOk <-> forall p, In p ps -> prog_within u p.
Proof.
  induction ps as [|p ps IH]; cbn [server_progs].
  - split; [intros _ p [] | reflexivity].
  - destruct (server_prog (new_config u) p) eqn:E.
    + apply server_prog_spec in E. rewrite IH. split.
      * intros H q [<-|Hq]; auto.
      * intros H q Hq. apply H. right. exact Hq.
    + split; [discriminate|]. intro H. assert (Hp : prog_within u p) by (apply H; left; reflexivity).
      apply server_prog_spec in Hp. congruence.
    + split; [discriminate|]. intro H. assert (Hp : prog_within u p) by (apply H; left; reflexivity).
      apply server_prog_spec in Hp. congruence.
    + split; [discriminate|]. intro H. assert (Hp : prog_within u p) by (apply H; left; reflexivity).
      apply server_prog_spec in Hp. congruence.
    + split; [discriminate|]. intro H. assert (Hp : prog_within u p) by (apply H; left; reflexivity).
      apply server_prog_spec in Hp. congruence.
    + split; [discriminate|]. intro H. assert (Hp : prog_within u p) by (apply H; left; reflexivity).
      apply server_prog_spec in Hp. congruence.
    + split; [discriminate|]. intro H. assert (Hp : prog_within u p) by (apply H; left; reflexivity).
      apply server_prog_spec in Hp. congruence.
Qed.

(* the server accepts a report iff it is well formed (valid week date, valid
   semver Config, X <> 0) and every program, counter and stack is approved *)
Theorem server_validate_spec u semver_ok r :
  server_validate (new_config u) semver_ok r = VOk <->
  parse_date (r_week r) <> None /\ semver_ok = true /\ x_is_zero (r_x r) = false /\
  forall p, In p (r_programs r) -> prog_within u p.
Proof.
  unfold server_validate. destruct (parse_date (r_week r)) as [d|].
  - destruct semver_ok; cbn [negb].
    + destruct (x_is_zero (r_x r)).
      * split; [discriminate | intros [_ [_ [H _]]]; discriminate H].
      * rewrite server_progs_spec. split; [intro H; split; [discriminate|]; split; [reflexivity|]; split; [reflexivity | exact H] | intros [_ [_ [_ H]]]; exact H].
    + split; [discriminate | intros [_ [H _]]; discriminate H].
  - split; [discriminate | intros [H _]; contradiction].
Qed.

(* a report with a program build, counter or stack outside the configuration is rejected *)
Theorem server_rejects_outside u semver_ok r p :
  In p (r_programs r) -> ~ prog_within u p -> server_validate (new_config u) semver_ok r <> VOk.
Proof. intros Hin Hn H. apply server_validate_spec in H as [_ [_ [_ H]]]. exact (Hn (H p Hin)). Qed.

(* every program of an uploader report is within the configuration *)
Lemma uploader_within u files x p :
  In p (filter_upload (new_config u) x (aggregate files)) -> prog_within u p.
Proof.
  destruct p as [i [cs ss]]. intro H. destruct (upload_sound _ _ _ _ _ _ H) as [Hb [_ [Hc Hs]]].
  split; [exact Hb|]. cbn [fst snd]. split; intros k v Hin.
  - destruct (Hc k v Hin) as [_ [He _]]. exact He.
  - destruct (Hs k v Hin) as [_ [He _]]. exact He.
Qed.

(* the server accepts every report the uploader builds under the same
   configuration (X <> 0; the week is a date; the config version is semver) *)
Theorem server_accepts_uploader gate u cfgver week lastweek x files local up :
  create_report gate u cfgver week lastweek x files = Some (local, Some up) ->
  parse_date week <> None -> x_is_zero x = false ->
  server_validate (new_config u) true up = VOk.
Proof.
  intros H Hw Hx. apply create_report_shape in H as [_ [-> _]].
  apply server_validate_spec. cbn [r_week r_x r_programs].
  split; [exact Hw|]. split; [reflexivity|]. split; [exact Hx|].
  intros q Hq. eapply uploader_within. exact Hq.
Qed.

From Coq Require Import String.
Local Open Scope string_scope.
Local Open Scope list_scope.
Local Open Scope N_scope.
(* known finding 15: the uploader can draw X = 0, which the server refuses *)
Theorem server_x_zero_refuted :
  exists u cfgver week lastweek files local up,
    create_report true u cfgver week lastweek 0 files = Some (local, Some up) /\
    parse_date week <> None /\
    server_validate (new_config u) true up = VBadX.
Proof.
  exists (w_cfg [mkCC (s2b "foo") bits_one] []), (s2b "v1.0.0"), (s2b "2024-01-08"), (s2b ""),
         [mkFile w_id [(s2b "foo", 3%N)]].
  eexists. eexists. split; [vm_compute; reflexivity|]. split; [vm_compute; discriminate | vm_compute; reflexivity].
Qed.

(* ---------------------------------------------------------------- viewer = uploader *)

(* the viewer says "no data from this set would be uploaded" iff the build is
   not approved iff the uploader drops the program whatever X and whatever
   other files are in the week *)
Theorem viewer_set_iff_uploader u f :
  (summary_excludes_set (viewer_summary (new_config u) f) = true <-> ~ approved_build u (f_ident f)) /\
  (~ approved_build u (f_ident f) <->
   forall files x, In f files -> ~ In (f_ident f) (akeys (filter_upload (new_config u) x (aggregate files)))).
Proof.
  split.
  - rewrite viewer_set_iff, negb_true_iff. split.
    + intros H Ha. apply build_ok_spec in Ha. congruence.
    + intro H. destruct (build_ok (new_config u) (f_ident f)) eqn:E; [|reflexivity].
      apply build_ok_spec in E. contradiction.
  - split.
    + intros Hn files x Hf Hin. apply in_map_iff in Hin as [[i [cs ss]] [He Hin]]. cbn in He. subst i.
      destruct (upload_sound _ _ _ _ _ _ Hin) as [Hb _]. contradiction.
    + intros H Ha. apply (H [f] 0 (or_introl eq_refl)).
      destruct (upload_complete u [f] 0 f (or_introl eq_refl) Ha) as [cs [ss [Hin _]]].
      apply in_map_iff. exists (f_ident f, (cs, ss)). auto.
Qed.

(* for an approved build: the summary is exactly the list of displayed names
   of the counters the uploader drops at X = 0, and every Active flag is the
   uploader's decision at X = 0 *)
Theorem viewer_items_iff_uploader u f :
  approved_build u (f_ident f) ->
  let c := new_config u in
  let prog := id_program (f_ident f) in
  let dropped := map (fun kv => display_name (fst kv))
                     (filter (fun kv => negb (uploader_keeps c 0 prog (fst kv))) (f_counts f)) in
  viewer_summary c f = match dropped with [] => SClean | l => SCounters l end /\
  viewer_active c f = map (fun kv => (fst kv, uploader_keeps c 0 prog (fst kv))) (f_counts f).
Proof.
  intro Ha. cbv zeta.
  assert (Hreg : forall k, viewer_registered (new_config u) (id_program (f_ident f)) k =
                           uploader_keeps (new_config u) 0 (id_program (f_ident f)) k).
  { intro k. destruct (deciders_item_agree u (id_program (f_ident f)) k) as [-> ->]. reflexivity. }
  split.
  - apply build_ok_spec in Ha. unfold build_ok in Ha. rewrite !andb_true_iff in Ha.
    destruct Ha as [[[[H1 H2] H3] H4] H5]. unfold viewer_summary. cbv zeta.
    rewrite H1, H2, H3, H4, H5. cbn [negb orb]. unfold viewer_unregistered.
    rewrite (filter_ext _ (fun kv => negb (uploader_keeps (new_config u) 0 (id_program (f_ident f)) (fst kv))))
      by (intro kv; rewrite Hreg; reflexivity).
    set (l := map _ _). destruct l; reflexivity.
  - unfold viewer_active. apply map_ext. intro kv. rewrite Hreg. reflexivity.
Qed.

(* ... and the uploader's decision at X = 0 is what its report at X = 0 contains *)
Theorem uploader_keeps_iff_uploaded u files f k v0 :
  In f files -> In (k, v0) (f_counts f) -> approved_build u (f_ident f) ->
  (uploader_keeps (new_config u) 0 (id_program (f_ident f)) k = true <->
   exists cs ss v, In (f_ident f, (cs, ss)) (filter_upload (new_config u) 0 (aggregate files)) /\
                   In (k, v) (if is_stack k then ss else cs)).
Proof.
  intros Hf Hk Ha. split.
  - intro Hkeep. destruct (upload_complete u files 0 f Hf Ha) as [cs [ss [Hin Hall]]].
    destruct (Hall k v0 Hk) as [Hc Hs]. exists cs, ss.
    unfold uploader_keeps in Hkeep. destruct (is_stack k) eqn:Est.
    + apply keep_stack_spec in Hkeep as [He Hx]. cbn [fst] in *. destruct (Hs eq_refl He Hx) as [v Hv]. eauto.
    + apply keep_counter_spec in Hkeep as [He Hx]. cbn [fst] in *. destruct (Hc eq_refl He Hx) as [v Hv]. eauto.
  - intros [cs [ss [v [Hin Hv]]]]. destruct (upload_sound _ _ _ _ _ _ Hin) as [_ [_ [Hc Hs]]].
    unfold uploader_keeps. destruct (is_stack k) eqn:Est.
    + destruct (Hs k v Hv) as [_ [He [Hx _]]]. apply keep_stack_spec. cbn [fst]. auto.
    + destruct (Hc k v Hv) as [_ [He [Hx _]]]. apply keep_counter_spec. cbn [fst]. auto.
Qed.

(* ---------------------------------------------------------------- the server oracle accepts the model *)

Lemma forallb_within u r : report_withinb u r = true <-> forall p, In p (r_programs r) -> prog_within u p.
Proof.
  unfold report_withinb. rewrite forallb_forall. split; intros H p Hp.
  - specialize (H p Hp). rewrite !andb_true_iff, !forallb_forall in H. destruct H as [[Hb Hc] Hs].
    split; [apply approved_buildb_spec; exact Hb|]. split; intros k v Hin.
    + apply approved_counterb_spec. exact (Hc (k, v) Hin).
    + apply approved_stackb_spec. exact (Hs (k, v) Hin).
  - destruct (H p Hp) as [Hb [Hc Hs]]. rewrite !andb_true_iff, !forallb_forall. repeat split.
    + apply approved_buildb_spec. exact Hb.
    + intros [k v] Hin. apply approved_counterb_spec. eapply Hc. exact Hin.
    + intros [k v] Hin. apply approved_stackb_spec. eapply Hs. exact Hin.
Qed.

Definition is_some {A} (o : option A) : bool := match o with Some _ => true | None => false end.

(* on the model's verdict the server oracle reports nothing, except class
   x-zero for an uploader report whose X is 0 *)
Theorem server_check_model u from_uploader semver_ok r :
  (from_uploader = true -> (forall p, In p (r_programs r) -> prog_within u p) /\
                           parse_date (r_week r) <> None /\ semver_ok = true) ->
  forall cl, In cl (server_check u from_uploader (is_some (parse_date (r_week r))) semver_ok r
                                 (server_validate (new_config u) semver_ok r)) ->
  cl = AXZero /\ x_is_zero (r_x r) = true /\ from_uploader = true.
Proof.
  intros Hup cl. unfold server_check. cbv zeta.
  pose proof (server_validate_spec u semver_ok r) as Hspec.
  pose proof (forallb_within u r) as Hw.
  set (v := server_validate (new_config u) semver_ok r) in *.
  set (acc := match v with VOk => true | _ => false end).
  assert (Hacc : acc = true <-> v = VOk) by (subst acc; destruct v; split; intro H; try discriminate; reflexivity).
  set (wf := is_some (parse_date (r_week r)) && semver_ok && negb (x_is_zero (r_x r))).
  assert (Hwf : wf = true <-> parse_date (r_week r) <> None /\ semver_ok = true /\ x_is_zero (r_x r) = false).
  { subst wf. rewrite !andb_true_iff, negb_true_iff. destruct (parse_date (r_week r)); cbn [is_some]; split.
    - intros [[_ H2] H3]. repeat split; auto. discriminate.
    - intros [_ [H2 H3]]. auto.
    - intros [[H1 _] _]. discriminate.
    - intros [H1 _]. contradiction. }
  destruct acc eqn:Ea.
  - (* accepted: within and well formed *)
    destruct (proj1 Hspec (proj1 Hacc eq_refl)) as [H1 [H2 [H3 H4]]].
    rewrite (proj2 Hw H4). cbn. rewrite !andb_false_r. cbn. intros [].
  - (* refused *)
    assert (Hnv : v <> VOk) by (intro H; apply Hacc in H; discriminate).
    cbn [negb andb]. intro Hin. apply in_app_or in Hin. destruct Hin as [Hin|Hin].
    + destruct from_uploader; [|destruct Hin]. cbn [andb] in Hin.
      destruct (Hup eq_refl) as [Hwithin [Hweek Hsem]].
      destruct (x_is_zero (r_x r)) eqn:Ex.
      * destruct Hin as [<-|[]]. auto.
      * exfalso. apply Hnv. apply Hspec. split; [exact Hweek|]. split; [exact Hsem|]. split; [reflexivity | exact Hwithin].
    + exfalso. cbn [app] in Hin.
      destruct (negb from_uploader && true && report_withinb u r && wf) eqn:E; [|destruct Hin].
      rewrite !andb_true_iff in E. destruct E as [[_ Hr] Hf]. apply Hnv, Hspec.
      destruct (proj1 Hwf Hf) as [H1 [H2 H3]]. split; [exact H1|]. split; [exact H2|]. split; [exact H3|].
      apply Hw. exact Hr.
Qed.
