(* The second walk level of the control invariant of Model/CounterMulti: after
   an inline extension the thread's invariant is the base invariant `CIb`
   (Proofs/CounterMultiCtl2.v) of its BASE VIEW - control popped, the own
   embedded thread replaced by a stand-in at LCas - plus an invariant of the
   nested walk: `wstate` over the virtual family "m_nest j, or the own thread
   with its G program points mapped to IvLoad / IvCas / RfLoad / CClose". *)
From Coq Require Import List ZArith NArith Bool Arith Lia.
From Tele Require Import Gen.Consts Model.CounterConc Model.CounterMulti Proofs.CounterWord Proofs.CounterInv
  Proofs.CounterMultiFacts Proofs.CounterMultiCtl2.
Import ListNotations.
Open Scope Z_scope.

(* ---- CIb looks at (pc, kind, prev, tgt) of the embedded threads only ---- *)
Definition sameC (u u' : thread) : Prop :=
  t_kind u' = t_kind u /\ t_prev u' = t_prev u /\ t_tgt u' = t_tgt u /\
  (t_pc u' = t_pc u \/ (t_pc u = LLook2 /\ t_pc u' = LCas)).

Lemma sameC_pc u u' p : sameC u u' -> p <> LLook2 -> t_pc u = p -> t_pc u' = p.
Proof. intros (_ & _ & _ & [E|[E _]]) Hp H; congruence. Qed.
Lemma sameC_inI u u' : sameC u u' -> inI u -> inI u'.
Proof. intros S [H|H]; [left|right]; eapply sameC_pc; eauto; discriminate. Qed.
Lemma sameC_pcR u u' : sameC u u' -> pcR (t_pc u) = true -> pcR (t_pc u') = true.
Proof. intros (_ & _ & _ & [E|[E1 E2]]) H; [rewrite E; exact H | rewrite E2; reflexivity]. Qed.
Lemma sameC_pcA u u' : sameC u u' -> pcA (t_pc u) = true -> pcA (t_pc u') = true.
Proof. intros (_ & _ & _ & [E|[E1 E2]]) H; [rewrite E; exact H | rewrite E2; reflexivity]. Qed.
Lemma sameC_fin u u' : sameC u u' -> fin u -> fin u'.
Proof.
  intros (_ & P & _ & [E|[E1 E2]]) H; unfold fin in *; rewrite P; [congruence|].
  rewrite E1 in H. destruct (t_prev u); discriminate.
Qed.
Lemma sameC_wstate ph pre cur rest snap j u u' : sameC u u' -> wstate ph pre cur rest snap j u -> wstate ph pre cur rest snap j u'.
Proof.
  intros S W. destruct ph; cbn [wstate] in *; destruct W as (W1 & W2 & W3 & W4); repeat split; intros X.
  - eapply sameC_pc; eauto; discriminate.
  - eapply sameC_inI; eauto.
  - eapply sameC_pc; eauto; discriminate.
  - eapply sameC_fin; eauto.
  - eapply sameC_fin; eauto.
  - eapply sameC_pcR; eauto.
  - eapply sameC_pc; eauto; discriminate.
  - eapply sameC_fin; eauto.
Qed.

(* CIb depends on these fields of the multi thread only *)
Definition same_ctl (t t' : mthread) : Prop :=
  m_pc t' = m_pc t /\ m_isadd t' = m_isadd t /\ m_k t' = m_k t /\ m_tgt t' = m_tgt t /\ m_main t' = m_main t /\
  m_redo t' = m_redo t /\ m_wrote t' = m_wrote t /\ m_role t' = m_role t /\ m_c t' = m_c t /\ m_walks t' = m_walks t /\
  m_prev t' = m_prev t.
Lemma CIb_cong ms t t' : same_ctl t t' -> CIb ms t -> CIb ms t'.
Proof.
  intros (E1 & E2 & E3 & E4 & E5 & E6 & E7 & E8 & E9 & E10 & E11) H.
  unfold CIb, CIadd, CIchg in *. rewrite E1, E2, E3, E4, E5, E6, E7, E8, E9, E10, E11. exact H.
Qed.

(* the focused embedded thread of a thread at MRun may be replaced by one that
   agrees with it on (pc, kind, prev, tgt) *)
Lemma CIb_swap ms t u' : CIb ms t -> m_pc t = MRun -> sameC (gett t (m_role t) (m_c t)) u' ->
  CIb ms (sett t (m_role t) (m_c t) u').
Proof.
  intros (L & X) Hpc S. unfold CIb. destruct (m_isadd t) eqn:Ea.
  - destruct X as (A1 & A2 & A3 & A4 & A5 & A6 & A7 & A8). rewrite Hpc in A8. destruct A8 as (B1 & B2 & B3).
    rewrite B1 in *. destruct (m_role t) eqn:Er; try contradiction; cbn [sett gett] in *; msimp; rewrite ?upd_len, Ea.
    + split; [exact L|]. unfold CIadd. msimp. rewrite Hpc, Er, B1.
      rewrite nth_upd_same by (rewrite L; exact A1). destruct S as (S1 & S2 & S3 & S4).
      split; [exact A1|]. split; [intros j Hj; rewrite nth_upd_other by exact Hj; auto|]. split; [exact A3|].
      split; [congruence|]. split; [exact A5|]. split; [exact A6|]. split; [exact A7|].
      split; [reflexivity|]. split; [exact B2|]. destruct B3 as [C1 C2]. split; [|exact C2].
      eapply sameC_pcA; [|exact C1]. repeat split; assumption.
    + split; [exact L|]. unfold CIadd. msimp. rewrite Hpc, Er, B1. pose proof S as (S1 & S2 & S3 & S4).
      split; [exact A1|]. split; [exact A2|]. split; [exact A3|]. split; [exact A4|].
      split; [congruence|]. split; [congruence|]. split; [exact A7|].
      split; [reflexivity|]. split; [exact B2|]. destruct B3 as [C1 C2]. split; [exact C1|].
      destruct C2 as [C2|C2]; [left; eapply sameC_inI; eauto | right; eapply sameC_pcR; eauto].
  - destruct X as (A1 & A2 & A3 & A8). rewrite Hpc in A8. destruct A8 as (ph & pre & rest & B1 & B2 & B3 & B4).
    rewrite B2 in *. cbn [sett gett] in *. msimp. rewrite upd_len, Ea. split; [exact L|].
    unfold CIchg. msimp. rewrite Hpc. repeat (split; [assumption|]).
    exists ph, pre, rest. split; [exact B1|]. split; [exact B2|]. split; [exact B3|].
    intros j Hj. destruct (B4 j Hj) as [[K1 K2] Wj]. destruct (Nat.eq_dec j (m_c t)) as [->|Nj].
    + rewrite nth_upd_same by (rewrite L; exact Hj). pose proof S as (S1 & S2 & S3 & S4).
      split; [split; congruence|]. eapply sameC_wstate; eauto.
    + rewrite nth_upd_other by exact Nj. split; [split; assumption | exact Wj].
Qed.

(* ---- the nested walk ---- *)
Definition vpc (p : pc) : pc :=
  match p with GIvLoad => IvLoad | GIvCas => IvCas | GRfLoad => RfLoad | GClose => CClose | q => q end.
Definition virt (g0 : nat) (o : thread) : thread := mkT (vpc (t_pc o)) Changer 0 0 0 (Some g0) None SameFile Done.
Definition pcG (p : pc) : bool := match p with GIvLoad | GIvCas | GRfLoad | GClose | Crash => true | _ => false end.

(* the family the nested walk visits *)
Definition VF (t : mthread) (r : role) (c g0 : nat) (j : nat) : thread :=
  if Nat.eqb j c then virt g0 (gett t r c) else nth j (m_nest t) dflt.

Definition rc3 (ms : mshared) (t : mthread) (r : role) (c : nat) : Prop :=
  (c < nc ms)%nat /\ claimed ms c = true /\
  match r with RMain => (c < length (m_main t))%nat | RRedo => m_isadd t = true /\ c = m_k t | RNest => False end.

Definition NW (ms : mshared) (t : mthread) (r : role) (c : nat) (w : walk) : Prop :=
  m_grown t = true /\ length (m_nest t) = nc ms /\ rc3 ms t r c /\ w_own w = Some (r, c) /\
  exists g0, t_prev2 (gett t r c) = Some g0 /\ pcG (t_pc (gett t r c)) = true /\
    (forall j, (j < nc ms)%nat -> j <> c ->
       t_kind (nth j (m_nest t) dflt) = Changer /\ t_prev (nth j (m_nest t) dflt) = Some g0 /\ t_prev2 (nth j (m_nest t) dflt) <> None) /\
    quietb (nth c (m_nest t) dflt) = true /\
    match m_pc t with
    | MHead => w_rest w = [] /\ w_snap w = [] /\ w_ph w = PInv /\ forall j, (j < nc ms)%nat -> t_pc (VF t r c g0 j) = IvLoad
    | MRun => exists pre rest, w_rest w = rest /\ w_snap w = pre ++ m_c t :: rest /\
        snap_ok ms (w_snap w) /\ In c (w_snap w) /\ m_role t = visit_role w (m_c t) /\
        forall j, (j < nc ms)%nat -> wstate (w_ph w) pre (Some (m_c t)) rest (w_snap w) j (VF t r c g0 j)
    | MNext => exists pre, w_snap w = pre ++ w_rest w /\
        snap_ok ms (w_snap w) /\ In c (w_snap w) /\
        forall j, (j < nc ms)%nat -> wstate (w_ph w) pre None (w_rest w) (w_snap w) j (VF t r c g0 j)
    | MClose => forall j, (j < nc ms)%nat -> t_pc (VF t r c g0 j) = CClose
    | _ => False
    end.

Definition bview (t : mthread) (r : role) (c : nat) (ws : list walk) : mthread :=
  with_focus (with_walks (sett t r c (with_pc (gett t r c) LCas)) MRun ws) MRun r c.

Definition NQ (ms : mshared) (t : mthread) : Prop :=
  length (m_nest t) = nc ms /\
  (if m_grown t then forallb quietb (m_nest t) = true else forall j, (j < nc ms)%nat -> nth j (m_nest t) dflt = nest0).

(* the invariant of a thread *)
Definition T3 (ms : mshared) (t : mthread) : Prop :=
  match m_walks t with
  | w :: ws =>
      match w_own w with
      | Some (r, c) => CIb ms (bview t r c ws) /\ NW ms t r c w
      | None => CIb ms t /\ NQ ms t
      end
  | [] => CIb ms t /\ NQ ms t
  end.

Definition susp (t : mthread) : bool :=
  match m_walks t with w :: _ => is_some (w_own w) | [] => false end.

Lemma CIb_not_susp ms t : CIb ms t -> susp t = false.
Proof.
  intros (L & X). unfold susp. destruct (m_isadd t).
  - destruct X as (_ & _ & A3 & _). rewrite A3. reflexivity.
  - destruct X as (_ & _ & _ & A8). destruct (m_pc t); try contradiction;
      try (destruct A8 as [-> _]; reflexivity).
    + destruct A8 as (ph & pre & rest & -> & _). reflexivity.
    + destruct A8 as (ph & pre & rest & -> & _). reflexivity.
    + destruct A8 as (w & gg & -> & -> & _). reflexivity.
Qed.

Lemma T3_unsusp ms t : susp t = false -> T3 ms t <-> (CIb ms t /\ NQ ms t).
Proof.
  unfold susp, T3. destruct (m_walks t) as [|w ws]; [tauto|]. destruct (w_own w) as [[r c]|]; [discriminate|tauto].
Qed.
