(* The second walk level of the control invariant of Model/CounterMulti: after
   an inline extension the thread's invariant is the base invariant `CIb`
   (Proofs/CounterMultiCtl2.v) of its BASE VIEW - control popped, the own
   embedded thread replaced by a stand-in at LCas - plus an invariant of the
   nested walk: `wstate` over the virtual family "m_nest j, or the own thread
   with its G program points mapped to IvLoad / IvCas / RfLoad / CClose". *)
From Coq Require Import List ZArith NArith Bool Arith Lia.
From Tele Require Import Gen.Consts Model.CounterConc Model.CounterMulti Proofs.CounterWord Proofs.CounterInv
  Proofs.CounterMultiFacts Proofs.CounterMultiCtl2.
Import ListNotations.
Open Scope Z_scope.

(* ---- CIb looks at (pc, kind, prev, tgt) of the embedded threads only ---- *)
Definition sameC (u u' : thread) : Prop :=
  t_kind u' = t_kind u /\ t_prev u' = t_prev u /\ t_tgt u' = t_tgt u /\
  (t_pc u' = t_pc u \/ (t_pc u = LLook2 /\ t_pc u' = LCas)).

Lemma sameC_pc u u' p : sameC u u' -> p <> LLook2 -> t_pc u = p -> t_pc u' = p.
Proof. intros (_ & _ & _ & [E|[E _]]) Hp H; congruence. Qed.
Lemma sameC_inI u u' : sameC u u' -> inI u -> inI u'.
Proof. intros S [H|H]; [left|right]; eapply sameC_pc; eauto; discriminate. Qed.
Lemma sameC_pcR u u' : sameC u u' -> pcR (t_pc u) = true -> pcR (t_pc u') = true.
Proof. intros (_ & _ & _ & [E|[E1 E2]]) H; [rewrite E; exact H | rewrite E2; reflexivity]. Qed.
Lemma sameC_pcA u u' : sameC u u' -> pcA (t_pc u) = true -> pcA (t_pc u') = true.
Proof. intros (_ & _ & _ & [E|[E1 E2]]) H; [rewrite E; exact H | rewrite E2; reflexivity]. Qed.
Lemma sameC_fin u u' : sameC u u' -> fin u -> fin u'.
Proof.
  intros (_ & P & _ & [E|[E1 E2]]) H; unfold fin in *; rewrite P; [congruence|].
  rewrite E1 in H. destruct (t_prev u); discriminate.
Qed.
Lemma sameC_wstate ph pre cur rest snap j u u' : sameC u u' -> wstate ph pre cur rest snap j u -> wstate ph pre cur rest snap j u'.
Proof.
  intros S W. destruct ph; cbn [wstate] in *; destruct W as (W1 & W2 & W3 & W4); repeat split; intros X.
  - eapply sameC_pc; eauto; discriminate.
  - eapply sameC_inI; eauto.
  - eapply sameC_pc; eauto; discriminate.
  - eapply sameC_fin; eauto.
  - eapply sameC_fin; eauto.
  - eapply sameC_pcR; eauto.
  - eapply sameC_pc; eauto; discriminate.
  - eapply sameC_fin; eauto.
Qed.

(* CIb depends on these fields of the multi thread only *)
Definition same_ctl (t t' : mthread) : Prop :=
  m_pc t' = m_pc t /\ m_isadd t' = m_isadd t /\ m_k t' = m_k t /\ m_tgt t' = m_tgt t /\ m_main t' = m_main t /\
  m_redo t' = m_redo t /\ m_wrote t' = m_wrote t /\ m_role t' = m_role t /\ m_c t' = m_c t /\ m_walks t' = m_walks t /\
  m_prev t' = m_prev t.
Lemma CIb_cong ms t t' : same_ctl t t' -> CIb ms t -> CIb ms t'.
Proof.
  intros (E1 & E2 & E3 & E4 & E5 & E6 & E7 & E8 & E9 & E10 & E11) H.
  unfold CIb, CIadd, CIchg in *. rewrite E1, E2, E3, E4, E5, E6, E7, E8, E9, E10, E11. exact H.
Qed.

(* the focused embedded thread of a thread at MRun may be replaced by one that
   agrees with it on (pc, kind, prev, tgt) *)
Lemma CIb_swap ms t u' : CIb ms t -> m_pc t = MRun -> sameC (gett t (m_role t) (m_c t)) u' ->
  CIb ms (sett t (m_role t) (m_c t) u').
Proof.
  intros (L & X) Hpc S. unfold CIb. destruct (m_isadd t) eqn:Ea.
  - destruct X as (A1 & A2 & A3 & A4 & A5 & A6 & A7 & A8). rewrite Hpc in A8. destruct A8 as (B1 & B2 & B3).
    rewrite B1 in *. destruct (m_role t) eqn:Er; try contradiction; cbn [sett gett] in *; msimp; rewrite ?upd_len, Ea.
    + split; [exact L|]. unfold CIadd. msimp. rewrite Hpc, Er, B1.
      rewrite nth_upd_same by (rewrite L; exact A1). destruct S as (S1 & S2 & S3 & S4).
      split; [exact A1|]. split; [intros j Hj; rewrite nth_upd_other by exact Hj; auto|]. split; [exact A3|].
      split; [congruence|]. split; [exact A5|]. split; [exact A6|]. split; [exact A7|].
      split; [reflexivity|]. split; [exact B2|]. destruct B3 as [C1 C2]. split; [|exact C2].
      eapply sameC_pcA; [|exact C1]. repeat split; assumption.
    + split; [exact L|]. unfold CIadd. msimp. rewrite Hpc, Er, B1. pose proof S as (S1 & S2 & S3 & S4).
      split; [exact A1|]. split; [exact A2|]. split; [exact A3|]. split; [exact A4|].
      split; [congruence|]. split; [congruence|]. split; [exact A7|].
      split; [reflexivity|]. split; [exact B2|]. destruct B3 as [C1 C2]. split; [exact C1|].
      destruct C2 as [C2|C2]; [left; eapply sameC_inI; eauto | right; eapply sameC_pcR; eauto].
  - destruct X as (A1 & A2 & A3 & A8). rewrite Hpc in A8. destruct A8 as (ph & pre & rest & B1 & B2 & B3 & B4).
    rewrite B2 in *. cbn [sett gett] in *. msimp. rewrite upd_len, Ea. split; [exact L|].
    unfold CIchg. msimp. rewrite Hpc. repeat (split; [assumption|]).
    exists ph, pre, rest. split; [exact B1|]. split; [exact B2|]. split; [exact B3|].
    intros j Hj. destruct (B4 j Hj) as [[K1 K2] Wj]. destruct (Nat.eq_dec j (m_c t)) as [->|Nj].
    + rewrite nth_upd_same by (rewrite L; exact Hj). pose proof S as (S1 & S2 & S3 & S4).
      split; [split; congruence|]. eapply sameC_wstate; eauto.
    + rewrite nth_upd_other by exact Nj. split; [split; assumption | exact Wj].
Qed.

(* ---- the nested walk ---- *)
Definition vpc (p : pc) : pc :=
  match p with GIvLoad => IvLoad | GIvCas => IvCas | GRfLoad => RfLoad | GClose => CClose | q => q end.
Definition virt (g0 : nat) (o : thread) : thread := mkT (vpc (t_pc o)) Changer 0 0 0 (Some g0) None SameFile Done.
Definition pcG (p : pc) : bool := match p with GIvLoad | GIvCas | GRfLoad | GClose | Crash => true | _ => false end.

(* the family the nested walk visits *)
Definition VF (t : mthread) (r : role) (c g0 : nat) (j : nat) : thread :=
  if Nat.eqb j c then virt g0 (gett t r c) else nth j (m_nest t) dflt.

Definition rc3 (ms : mshared) (t : mthread) (r : role) (c : nat) : Prop :=
  (c < nc ms)%nat /\ claimed ms c = true /\
  match r with RMain => (c < length (m_main t))%nat | RRedo => m_isadd t = true /\ c = m_k t | RNest => False end.

Definition NW (ms : mshared) (t : mthread) (r : role) (c : nat) (w : walk) : Prop :=
  m_grown t = true /\ length (m_nest t) = nc ms /\ rc3 ms t r c /\ w_own w = Some (r, c) /\
  exists g0, t_prev2 (gett t r c) = Some g0 /\ pcG (t_pc (gett t r c)) = true /\
    (forall j, (j < nc ms)%nat -> j <> c ->
       t_kind (nth j (m_nest t) dflt) = Changer /\ t_prev (nth j (m_nest t) dflt) = Some g0 /\ t_prev2 (nth j (m_nest t) dflt) <> None) /\
    quietb (nth c (m_nest t) dflt) = true /\
    match m_pc t with
    | MHead => w_rest w = [] /\ w_snap w = [] /\ w_ph w = PInv /\ forall j, (j < nc ms)%nat -> t_pc (VF t r c g0 j) = IvLoad
    | MRun => exists pre rest, w_rest w = rest /\ w_snap w = pre ++ m_c t :: rest /\
        snap_ok ms (w_snap w) /\ In c (w_snap w) /\ m_role t = visit_role w (m_c t) /\
        forall j, (j < nc ms)%nat -> wstate (w_ph w) pre (Some (m_c t)) rest (w_snap w) j (VF t r c g0 j)
    | MNext => exists pre, w_snap w = pre ++ w_rest w /\
        snap_ok ms (w_snap w) /\ In c (w_snap w) /\
        forall j, (j < nc ms)%nat -> wstate (w_ph w) pre None (w_rest w) (w_snap w) j (VF t r c g0 j)
    | MClose => forall j, (j < nc ms)%nat -> t_pc (VF t r c g0 j) = CClose
    | _ => False
    end.

Definition bview (t : mthread) (r : role) (c : nat) (ws : list walk) : mthread :=
  with_focus (with_walks (sett t r c (with_pc (gett t r c) LCas)) MRun ws) MRun r c.

Definition NQ (ms : mshared) (t : mthread) : Prop :=
  length (m_nest t) = nc ms /\
  (if m_grown t then forallb quietb (m_nest t) = true else forall j, (j < nc ms)%nat -> nth j (m_nest t) dflt = nest0).

(* the invariant of a thread *)
Definition T3 (ms : mshared) (t : mthread) : Prop :=
  match m_walks t with
  | w :: ws =>
      match w_own w with
      | Some (r, c) => CIb ms (bview t r c ws) /\ NW ms t r c w
      | None => CIb ms t /\ NQ ms t
      end
  | [] => CIb ms t /\ NQ ms t
  end.

Definition susp (t : mthread) : bool :=
  match m_walks t with w :: _ => is_some (w_own w) | [] => false end.

Lemma CIb_not_susp ms t : CIb ms t -> susp t = false.
Proof.
  intros (L & X). unfold susp. destruct (m_isadd t).
  - destruct X as (_ & _ & A3 & _). rewrite A3. reflexivity.
  - destruct X as (_ & _ & _ & A8). destruct (m_pc t); try contradiction;
      try (destruct A8 as [-> _]; reflexivity).
    + destruct A8 as (ph & pre & rest & -> & _). reflexivity.
    + destruct A8 as (ph & pre & rest & -> & _). reflexivity.
    + destruct A8 as (w & gg & -> & -> & _). reflexivity.
Qed.

Lemma T3_unsusp ms t : susp t = false -> T3 ms t <-> (CIb ms t /\ NQ ms t).
Proof.
  unfold susp, T3. destruct (m_walks t) as [|w ws]; [tauto|]. destruct (w_own w) as [[r c]|]; [discriminate|tauto].
Qed.

(* ---- steps ---- *)
Definition step3 (ms : mshared) (t : mthread) (ms' : mshared) (t' : mthread) : Prop :=
  ms_bad ms' = true \/
  (ms_chk ms' = ms_chk ms /\ ms_bad ms' = ms_bad ms /\ T3 ms' t' /\ grows_to ms ms' /\ MS ms' /\
   m_isadd t' = m_isadd t /\ m_k t' = m_k t /\
   lens_ok ms t = true /\ focus_ok ms t = true /\ done_ok t' = true).

Lemma upd_upd {A} (l : list A) c a b : upd (upd l c a) c b = upd l c b.
Proof. revert c; induction l as [|x l IH]; intros [|c]; cbn; auto. rewrite IH. reflexivity. Qed.

Lemma CIb_focus ms t : CIb ms t -> m_pc t = MRun -> rc3 ms t (m_role t) (m_c t).
Proof.
  intros (L & X) Hpc. unfold rc3. destruct (m_isadd t) eqn:Ea.
  - destruct X as (A1 & A2 & A3 & A4 & A5 & A6 & A7 & A8). rewrite Hpc in A8. destruct A8 as (B1 & B2 & B3).
    rewrite B1. split; [exact A1|]. split; [exact B2|]. destruct (m_role t); try contradiction; [rewrite L; exact A1 | auto].
  - destruct X as (A1 & A2 & A3 & A8). rewrite Hpc in A8. destruct A8 as (ph & pre & rest & B1 & B2 & [B3 B4] & B5).
    destruct (B4 (m_c t)) as [C1 C2]; [apply in_or_app; right; left; reflexivity|].
    rewrite B2. split; [exact C1|]. split; [exact C2|]. rewrite L. exact C1.
Qed.

Lemma gett_sett t r c u : rc_len t r c -> gett (sett t r c u) r c = u.
Proof. destruct r; cbn; intros H; try reflexivity; apply nth_upd_same; exact H. Qed.

Lemma rc3_len ms t r c : rc3 ms t r c -> rc_len t r c.
Proof. intros (_ & _ & H). destruct r; cbn; auto; contradiction. Qed.

Lemma thr_nest0 ms j g0 : ms_cur ms = Some g0 -> ms_tight ms = true ->
  thr_step ms j nest0 = mkT IvLoad Changer 0 0 0 (Some g0) (Some 0%nat) SameFile Done.
Proof. intros C T. unfold thr_step, step_thread, nest0. cbn. rewrite C, T. reflexivity. Qed.

Lemma NQ_quiet ms t : NQ ms t -> forallb quietb (m_nest t) = true.
Proof.
  intros [L Q]. destruct (m_grown t); [exact Q|]. apply (forallb_of_nth quietb dflt). intros j Hj. rewrite L in Hj.
  rewrite (Q j Hj). reflexivity.
Qed.

Lemma core3_unsusp ms t ms' t' : MW ms -> CIb ms t -> NQ ms t -> mstep_core ms t = (ms', t') -> step3 ms t ms' t'.
Proof.
  intros W I0 Q H. pose proof Q as [QL QN].
  destruct (CIb_lens_focus _ _ I0 QL) as [LO FO].
  destruct (step_thread np0 (proj (m_c t) ms) (gett t (m_role t) (m_c t))) as [s' u'] eqn:Es.
  destruct (negb (nogrowb (gett t (m_role t) (m_c t)) u') && match m_pc t with MRun => true | _ => false end) eqn:Eg.
  - (* the inline extension *)
    apply andb_true_iff in Eg as [Eg Hpc]. apply negb_true_iff in Eg. destruct (m_pc t) eqn:Hpc'; try discriminate Hpc. clear Hpc.
    unfold nogrowb in Eg. apply negb_false_iff in Eg. pose proof Eg as Eg'. apply andb_true_iff in Eg' as [G1 G2]. apply pc_is_eq in G1, G2.
    destruct (step_grow _ _ _ _ _ Es G1 G2) as (g0 & Ecur & Efull & P2 & P2' & Kk & Kp & Kt & FP & LC).
    unfold mstep_core in H. rewrite Hpc' in H. cbv zeta in H. rewrite Es, Eg in H.
    destruct (m_grown t) eqn:Egr; cbn [andb] in H.
    { injection H as <- <-. left. cbn. apply orb_true_r. }
    pose proof (CIb_focus _ _ I0 Hpc') as RC. remember (m_role t) as r eqn:Er0. remember (m_c t) as c eqn:Ec0.
    pose proof RC as (Hc & Hcl & Hr). pose proof (rc3_len _ _ _ _ RC) as RL.
    pose proof (MW_MS _ W) as (M1 & M4 & M5).
    assert (OK : ms_tight ms && alli (fun j v => Nat.eqb j c || pc_is (t_pc v) CStore && tgt_same (t_tgt v)) (m_nest t) = true).
    { rewrite (M5 Efull). cbn [andb]. apply (alli_of_nth _ dflt). intros j Hj. rewrite QL in Hj. rewrite (QN j Hj). apply orb_true_r. }
    fold (nest_others ms c t) in H. rewrite OK in H. cbn [negb] in H. rewrite set_chk_false in H. injection H as <- <-.
    assert (G : grows_to ms (inj c ms s')) by (split; [unfold nc, inj; cbn; apply upd_len | auto]).
    assert (S' : MS (inj c ms s')).
    { unfold MS, nc, inj. cbn [ms_claimed ms_ctrs ms_nf ms_full ms_tight]. rewrite upd_len. split; [exact M1|]. split.
      - apply Forall_upd; [exact M4|]. cbn [c_cells]. rewrite LC. cbn [proj s_cells]. rewrite Forall_forall in M4. apply M4. apply nth_In. exact Hc.
      - unfold file_part in FP. injection FP as _ _ _ F4 _. rewrite F4. discriminate. }
    right. split; [reflexivity|]. split; [reflexivity|]. split; [|split; [exact G|split; [exact S'|split; [|split; [|split; [exact LO|split; [exact FO|reflexivity]]]]]]].
    2:{ destruct r; reflexivity. } 2:{ destruct r; reflexivity. }
    destruct (nest_others_same ms c t r) as (N1 & N2 & N3).
    unfold T3. cbn [m_walks with_walks w_own]. split.
    + (* the base view *)
      apply (CIb_cong (inj c ms s') (sett t r c (with_pc u' LCas))).
      * unfold bview, same_ctl, nest_others. destruct r; try contradiction; cbn; cbn in Hr;
          rewrite ?(nth_upd_same _ _ _ _ Hr), ?upd_upd; repeat split; auto.
      * apply (CIb_mono ms); [exact G|]. rewrite Er0, Ec0. apply CIb_swap; [exact I0|exact Hpc'|].
        rewrite <- Er0, <- Ec0. unfold sameC. cbn. repeat split; auto.
    + (* the nested walk, before its head load *)
      match goal with |- NW _ ?T _ _ _ => set (T' := T) end.
      assert (GS : gett T' r c = u') by (unfold T'; destruct r; cbn; try contradiction; [apply nth_upd_same; exact Hr | reflexivity]).
      assert (NS : m_nest T' = mapi (fun j v => if Nat.eqb j c then v else thr_step ms j v) (m_nest t)) by (unfold T', nest_others; destruct r; cbn; try contradiction; reflexivity).
      assert (GR : m_grown T' = true) by (unfold T'; destruct r; reflexivity).
      assert (PC : m_pc T' = MHead) by (unfold T'; destruct r; reflexivity).
      assert (ML : length (m_main T') = length (m_main t)) by (unfold T', nest_others; destruct r; cbn; rewrite ?upd_len; reflexivity).
      assert (IA : m_isadd T' = m_isadd t /\ m_k T' = m_k t) by (unfold T', nest_others; destruct r; cbn; auto).
      assert (NJ : forall j, (j < nc ms)%nat -> j <> c ->
                 nth j (m_nest T') dflt = mkT IvLoad Changer 0 0 0 (Some g0) (Some 0%nat) SameFile Done).
      { intros j Hj Nj. rewrite NS. rewrite nth_mapi by (intros i; destruct (Nat.eqb i c); reflexivity).
        apply Nat.eqb_neq in Nj. rewrite Nj. rewrite (QN j Hj). apply thr_nest0; [exact Ecur | exact (M5 Efull)]. }
      pose proof G as [N _]. unfold NW. rewrite GR, PC, GS, N. split; [reflexivity|]. split; [rewrite NS, mapi_len; exact QL|].
      split. { unfold rc3. destruct IA as [-> ->]. rewrite ML, N. exact RC. }
      split; [reflexivity|]. exists g0. split; [exact P2'|]. split; [rewrite G2; reflexivity|].
      split. { intros j Hj Nj. rewrite (NJ j Hj Nj). cbn. repeat split; discriminate. }
      split. { rewrite NS. rewrite nth_mapi by (intros i; destruct (Nat.eqb i c); reflexivity). rewrite Nat.eqb_refl, (QN c Hc). reflexivity. }
      split; [reflexivity|]. split; [reflexivity|]. split; [reflexivity|].
      intros j Hj. unfold VF. rewrite GS. destruct (Nat.eqb j c) eqn:Ej.
      * cbn. rewrite G2. reflexivity.
      * apply Nat.eqb_neq in Ej. rewrite (NJ j Hj Ej). reflexivity.
  - (* any other step *)
    assert (NG : m_pc t = MRun -> NGH ms t).
    { intros Hpc s'' u'' E. rewrite Es in E. injection E as <- <-. rewrite Hpc, andb_true_r in Eg. apply negb_false_iff in Eg. exact Eg. }
    assert (SO : step_ok ms t ms' t').
    { destruct (m_isadd t) eqn:Ea; [eapply core_CI_add | eapply core_CI_chg]; eauto. }
    destruct SO as (C1 & B1 & EN & EG & ET & I1 & G & S1 & E1 & E2). pose proof G as [N _].
    assert (Q' : NQ ms' t').
    { unfold NQ. rewrite EN, EG, N. exact Q. }
    right. split; [exact C1|]. split; [exact B1|]. split.
    { apply (T3_unsusp ms' t' (CIb_not_susp _ _ I1)). split; assumption. }
    split; [exact G|]. split; [exact S1|]. split; [exact E1|]. split; [exact E2|]. split; [exact LO|]. split; [exact FO|].
    apply (CIb_done_ok _ _ I1). rewrite EN. apply (NQ_quiet _ _ Q).
Qed.

(* ---- the suspended thread: steps of the nested walk ---- *)
Lemma rc3_rc_ok ms t r c : rc3 ms t r c -> rc_ok ms t r c = true.
Proof.
  intros (H1 & H2 & H3). unfold rc_ok. apply Nat.ltb_lt in H1. fold (nc ms). rewrite H1, H2. cbn.
  destruct r; auto; try contradiction. destruct H3 as [-> ->]. rewrite Nat.eqb_refl. reflexivity.
Qed.

Lemma vpc_CClose p : pcG p = true -> vpc p = CClose -> p = GClose.
Proof. destruct p; cbn; intros; try discriminate; reflexivity. Qed.

Lemma bview_same ms ms' t t' r c ws : grows_to ms ms' -> CIb ms (bview t r c ws) ->
  same_ctl (bview t r c ws) (bview t' r c ws) -> CIb ms' (bview t' r c ws).
Proof. intros G I S. eapply CIb_cong; [exact S|]. eapply CIb_mono; eauto. Qed.

(* the nested close: back to the base activity *)
Lemma core3_close ms t ms' t' r c w ws : MW ms -> m_walks t = w :: ws -> w_own w = Some (r, c) ->
  CIb ms (bview t r c ws) -> NW ms t r c w -> m_pc t = MClose ->
  mstep_core ms t = (ms', t') -> step3 ms t ms' t'.
Proof.
  intros W Hw Ho IB (Gr & NL & RC & _ & g0 & P2 & PG & NN & QC & PH) Hpc H.
  rewrite Hpc in PH. pose proof RC as (Hc & Hcl & Hr). pose proof (rc3_len _ _ _ _ RC) as RL.
  pose proof (MW_MS _ W) as (M1 & M4 & M5).
  unfold mstep_core in H. rewrite Hpc, Hw, Ho in H.
  set (O := gett t r c) in *.
  assert (OG : t_pc O = GClose).
  { apply vpc_CClose; [exact PG|]. specialize (PH c Hc). unfold VF in PH. rewrite Nat.eqb_refl in PH. exact PH. }
  fold (nest_others ms c t) in H.
  destruct (step_thread np0 (proj c ms) O) as [s' u'] eqn:Es.
  assert (OK : pc_is (t_pc O) GClose && is_some (t_prev2 O) &&
               alli (fun j v => Nat.eqb j c || pc_is (t_pc v) CClose && onat_eqb (t_prev v) (t_prev2 O)) (m_nest t) = true).
  { rewrite OG, P2. cbn [pc_is is_some andb]. apply (alli_of_nth _ dflt). intros j Hj. rewrite NL in Hj.
    destruct (Nat.eqb j c) eqn:Ej; [reflexivity|]. apply Nat.eqb_neq in Ej. cbn [orb].
    specialize (PH j Hj). unfold VF in PH. apply Nat.eqb_neq in Ej. rewrite Ej in PH. apply Nat.eqb_neq in Ej.
    destruct (NN j Hj Ej) as (_ & Pj & _). rewrite PH, Pj. cbn. rewrite Nat.eqb_refl. reflexivity. }
  rewrite OK in H. cbn [negb] in H. rewrite set_chk_false in H. injection H as <- <-.
  pose proof (step_gclose np0 (proj c ms) O g0 OG P2) as FP. rewrite Es in FP. cbn [fst] in FP.
  destruct (step_gclose_thr np0 (proj c ms) O OG) as (U1 & U2 & U3 & U4 & U5). rewrite Es in U1, U2, U3, U4, U5. cbn [fst snd] in *.
  assert (G : grows_to ms (inj c ms s')) by (split; [unfold nc, inj; cbn; apply upd_len | auto]).
  assert (S' : MS (inj c ms s')).
  { unfold MS, nc, inj. cbn [ms_claimed ms_ctrs ms_nf ms_full ms_tight]. rewrite upd_len. split; [exact M1|]. split.
    - apply Forall_upd; [exact M4|]. cbn [c_cells]. rewrite U5. cbn [proj s_cells]. rewrite Forall_forall in M4. apply M4. apply nth_In. exact Hc.
    - unfold file_part in FP. injection FP as _ _ _ F4 F5. rewrite F4, F5. exact M5. }
  match goal with |- step3 _ _ _ ?T => set (T' := T) end.
  assert (I1 : CIb (inj c ms s') T').
  { apply (CIb_mono ms); [exact G|].
    apply (CIb_cong ms (sett (bview t r c ws) (m_role (bview t r c ws)) (m_c (bview t r c ws)) u')).
    - unfold T', bview, same_ctl, nest_others. destruct r; try contradiction; cbn; rewrite ?upd_upd; repeat split; auto.
    - apply CIb_swap; [exact IB | reflexivity|].
      unfold bview. cbn [m_role m_c with_focus]. fold O.
      assert (GE : gett (with_focus (with_walks (sett t r c (with_pc O LCas)) MRun ws) MRun r c) r c = with_pc O LCas).
      { destruct r; cbn; try contradiction; [apply nth_upd_same; exact Hr | reflexivity]. }
      rewrite GE. unfold sameC. cbn. repeat split; auto. }
  assert (NS : m_nest T' = mapi (fun j v => if Nat.eqb j c then v else thr_step ms j v) (m_nest t)) by (unfold T', nest_others; destruct r; cbn; try contradiction; reflexivity).
  assert (FL : m_grown T' = true /\ m_isadd T' = m_isadd t /\ m_k T' = m_k t /\ m_pc T' = MRun) by (unfold T', nest_others; destruct r; cbn; auto).
  destruct FL as (F1 & F2 & F3 & F4).
  right. split; [reflexivity|]. split; [reflexivity|]. split.
  { apply (T3_unsusp _ T' (CIb_not_susp _ _ I1)). split; [exact I1|]. unfold NQ. rewrite F1, NS, mapi_len. destruct G as [-> _].
    split; [exact NL|]. apply (forallb_of_nth quietb dflt). intros j Hj. rewrite mapi_len, NL in Hj.
    rewrite nth_mapi by (intros i; destruct (Nat.eqb i c); reflexivity). destruct (Nat.eqb j c) eqn:Ej.
    - apply Nat.eqb_eq in Ej. subst j. exact QC.
    - pose proof (PH j Hj) as PJ. unfold VF in PJ. rewrite Ej in PJ. apply Nat.eqb_neq in Ej. destruct (NN j Hj Ej) as (_ & Pj & _).
      unfold quietb. rewrite (thr_close ms j _ g0 PJ Pj). reflexivity. }
  split; [exact G|]. split; [exact S'|]. split; [exact F2|]. split; [exact F3|].
  split. { unfold lens_ok. destruct IB as [LB _]. unfold bview in LB. destruct r; try contradiction; cbn in LB; rewrite ?upd_len in LB;
           rewrite LB, NL; fold (nc ms); rewrite Nat.eqb_refl; reflexivity. }
  split. { unfold focus_ok. rewrite Hpc, Hw, Ho. apply rc3_rc_ok. exact RC. }
  unfold done_ok. rewrite F4. reflexivity.
Qed.

Lemma to_close_prev2 u : t_prev2 (to_close u) = t_prev2 u.
Proof. unfold to_close. destruct (t_prev u); reflexivity. Qed.

(* the nested walk loads the head of the list *)
Lemma core3_head ms t ms' t' r c w ws : MW ms -> m_walks t = w :: ws -> w_own w = Some (r, c) ->
  CIb ms (bview t r c ws) -> NW ms t r c w -> m_pc t = MHead ->
  mstep_core ms t = (ms', t') -> step3 ms t ms' t'.
Proof.
  intros W Hw Ho IB (Gr & NL & RC & _ & g0 & P2 & PG & NN & QC & PH) Hpc H.
  rewrite Hpc in PH. destruct PH as (_ & _ & _ & PH). pose proof RC as (Hc & Hcl & Hr).
  pose proof W as (_ & W2 & W3 & _). pose proof (MW_MS _ W) as S.
  unfold mstep_core in H. rewrite Hpc, Hw in H. cbv zeta in H. rewrite Ho in H.
  destruct (memn c (ms_list ms)) eqn:Emc; cbn [negb] in H.
  2:{ injection H as <- <-. left. cbn. apply orb_true_r. }
  assert (OK : alli (fun j u => memn j (ms_list ms) || true && is_own w j || pc_is (t_pc u) IvLoad) (m_nest t) = true).
  { apply (alli_of_nth _ dflt). intros j Hj. rewrite NL in Hj. destruct (Nat.eqb j c) eqn:Ej.
    - unfold is_own. rewrite Ho, Ej. cbn. rewrite orb_true_r. reflexivity.
    - specialize (PH j Hj). unfold VF in PH. rewrite Ej in PH. rewrite PH. apply orb_true_r. }
  rewrite OK in H. cbn [negb] in H. rewrite set_chk_false, set_bad_false in H. injection H as <- <-.
  set (sk := fun (j : nat) (u : thread) => if memn j (ms_list ms) || true && is_own w j then u else skip_thread u).
  assert (SKD : forall j, sk j dflt = dflt) by (intros j; unfold sk; destruct (memn j (ms_list ms) || _); reflexivity).
  destruct (ms_list ms) as [|c' rest'] eqn:El; [discriminate Emc|].
  match goal with |- step3 _ _ _ ?T => set (T' := T) end.
  (* what the new thread looks like *)
  assert (TF : m_pc T' = MRun /\ m_c T' = c' /\ m_role T' = visit_role w c' /\
               m_walks T' = mkW rest' (c' :: rest') PInv (Some (r, c)) :: ws /\
               m_nest T' = mapi sk (m_nest t) /\ m_main T' = m_main t /\ m_redo T' = m_redo t /\
               m_grown T' = m_grown t /\ m_isadd T' = m_isadd t /\ m_k T' = m_k t /\ m_tgt T' = m_tgt t /\
               m_wrote T' = m_wrote t /\ m_prev T' = m_prev t).
  { unfold T', advance. cbn. unfold visit_role. rewrite Ho. repeat split; reflexivity. }
  destruct TF as (F1 & F2 & F3 & F4 & F5 & F6 & F7 & F8 & F9 & F10 & F11 & F12 & F13).
  assert (GO : gett T' r c = gett t r c) by (destruct r; cbn; rewrite ?F6, ?F7; try reflexivity; destruct Hr).
  right. split; [reflexivity|]. split; [reflexivity|]. split.
  { unfold T3. rewrite F4. cbn [w_own]. split.
    - apply (bview_same ms ms t T'); [apply grows_refl | exact IB|].
      unfold bview, same_ctl. rewrite GO. destruct r; try (destruct Hr; fail); cbn; rewrite ?F6, ?F7; repeat split; auto.
    - unfold NW. rewrite F8, F5, mapi_len, F1, F2, F3, GO. cbn [w_own w_rest w_snap w_ph].
      split; [exact Gr|]. split; [exact NL|]. split. { unfold rc3. rewrite F6, F9, F10. exact RC. }
      split; [reflexivity|]. exists g0. split; [exact P2|]. split; [exact PG|].
      split. { intros j Hj Nj. rewrite nth_mapi by exact SKD. destruct (NN j Hj Nj) as (K1 & K2 & K3). unfold sk.
               destruct (memn j (c' :: rest') || true && is_own w j); [auto|]. unfold skip_thread.
               destruct (to_close_keeps (nth j (m_nest t) dflt)) as [Q1 Q2]. rewrite Q1, Q2, to_close_prev2. auto. }
      split. { rewrite nth_mapi by exact SKD. unfold sk, is_own. rewrite Ho, Nat.eqb_refl. cbn. rewrite orb_true_r. exact QC. }
      exists [], rest'. cbn [app]. split; [reflexivity|]. split; [reflexivity|].
      split; [split; [exact W3|exact W2]|]. split; [apply memn_In; exact Emc|]. split; [unfold visit_role; rewrite Ho; reflexivity|].
      intros j Hj. unfold VF. rewrite GO, F5. rewrite nth_mapi by exact SKD.
      assert (VJ : VF T' r c g0 j = VF T' r c g0 j) by reflexivity.
      cbn [wstate]. split; [intros []|]. destruct (Nat.eqb j c) eqn:Ej.
      + pose proof (PH j Hj) as PJ. unfold VF in PJ. rewrite Ej in PJ.
        split; [intros _; left; exact PJ|]. split; [intros _; exact PJ|].
        intros X. exfalso. apply X. apply Nat.eqb_eq in Ej. subst j. apply memn_In. exact Emc.
      + pose proof (PH j Hj) as PJ. unfold VF in PJ. rewrite Ej in PJ. unfold sk, is_own. rewrite Ho, Ej. cbn [andb]. rewrite orb_false_r.
        destruct (memn j (c' :: rest')) eqn:Em.
        * split; [intros _; left; exact PJ|]. split; [intros _; exact PJ|]. intros X. exfalso. apply X. apply memn_In. exact Em.
        * split; [intros X; injection X as <-; cbn in Em; rewrite Nat.eqb_refl in Em; discriminate|].
          split; [intros X; assert (In j (c' :: rest')) by (right; exact X); apply memn_In in H; congruence|].
          intros _. apply fin_to_close. }
  split; [apply grows_refl|]. split; [exact S|]. split; [exact F9|]. split; [exact F10|].
  split. { unfold lens_ok. destruct IB as [LB _]. unfold bview in LB. destruct r; try (destruct Hr; fail); cbn in LB; rewrite ?upd_len in LB;
           rewrite LB, NL; fold (nc ms); rewrite Nat.eqb_refl; reflexivity. }
  split. { unfold focus_ok. rewrite Hpc. reflexivity. }
  unfold done_ok. rewrite F1. reflexivity.
Qed.

(* the nested walk: on to the next counter, the second loop, or the close *)
Lemma core3_next ms t ms' t' r c w ws : MW ms -> m_walks t = w :: ws -> w_own w = Some (r, c) ->
  CIb ms (bview t r c ws) -> NW ms t r c w -> m_pc t = MNext ->
  mstep_core ms t = (ms', t') -> step3 ms t ms' t'.
Proof.
  intros W Hw Ho IB (Gr & NL & RC & _ & g0 & P2 & PG & NN & QC & PH) Hpc H.
  rewrite Hpc in PH. destruct PH as (pre & SN & SO & IC & WS). pose proof RC as (Hc & Hcl & Hr).
  pose proof (MW_MS _ W) as S.
  unfold mstep_core in H. rewrite Hpc in H. injection H as <- <-.
  destruct w as [rest snap ph own]. cbn [w_own w_rest w_snap w_ph] in *. subst own snap.
  assert (FINALL : forall j, (j < nc ms)%nat -> t_prev (VF t r c g0 j) = Some g0).
  { intros j Hj. unfold VF. destruct (Nat.eqb j c) eqn:Ej; [reflexivity|]. apply Nat.eqb_neq in Ej. apply (NN j Hj Ej). }
  match goal with |- step3 _ _ _ ?T => set (T' := T) end.
  (* the shape of the result *)
  assert (SH : (exists c' rest' ph' pre', m_pc T' = MRun /\ m_c T' = c' /\ m_role T' = visit_role (mkW rest' (pre ++ rest) ph' (Some (r, c))) c' /\
                  m_walks T' = mkW rest' (pre ++ rest) ph' (Some (r, c)) :: ws /\ pre ++ rest = pre' ++ c' :: rest' /\
                  forall j, (j < nc ms)%nat -> wstate ph' pre' (Some c') rest' (pre ++ rest) j (VF t r c g0 j)) \/
               (m_pc T' = MClose /\ m_walks T' = mkW rest (pre ++ rest) ph (Some (r, c)) :: ws /\
                forall j, (j < nc ms)%nat -> t_pc (VF t r c g0 j) = CClose)).
  { unfold T', advance. rewrite Hw. cbn [w_rest w_snap w_ph w_own].
    destruct rest as [|c' rest'].
    - rewrite app_nil_r in *. destruct ph.
      + destruct pre as [|c' rest']; [destruct IC|].
        left. exists c', rest', PRef, []. cbn. do 5 (split; [reflexivity|]).
        intros j Hj. destruct (WS j Hj) as (W1 & W2 & W3 & W4). cbn [wstate]. split; [intros []|].
        split; [intros X; injection X as <-; rewrite W1 by (left; reflexivity); reflexivity|].
        split; [intros X; apply W1; right; exact X | exact W4].
      + right. unfold after_walk. cbn. split; [reflexivity|]. split; [reflexivity|]. intros j Hj. destruct (WS j Hj) as (W1 & _ & _ & W4).
        assert (F : fin (VF t r c g0 j)) by (destruct (in_dec Nat.eq_dec j pre); auto).
        unfold fin in F. rewrite (FINALL j Hj) in F. exact F.
    - left. exists c', rest', ph, pre. cbn. do 5 (split; [reflexivity|]).
      intros j Hj. destruct ph; cbn [wstate] in WS |- *; destruct (WS j Hj) as (W1 & W2 & W3 & W4);
        (split; [exact W1|]); (split; [|split; [intros X; apply W3; right; exact X | exact W4]]).
      + intros X. injection X as <-. left. apply W3. left. reflexivity.
      + intros X. injection X as <-. rewrite W3 by (left; reflexivity). reflexivity. }
  assert (TF : m_nest T' = m_nest t /\ m_main T' = m_main t /\ m_redo T' = m_redo t /\
               m_grown T' = m_grown t /\ m_isadd T' = m_isadd t /\ m_k T' = m_k t /\ m_tgt T' = m_tgt t /\
               m_wrote T' = m_wrote t /\ m_prev T' = m_prev t).
  { unfold T', advance, after_walk. rewrite Hw. cbn [w_rest w_snap w_ph w_own]. destruct rest; [destruct ph; [destruct (pre ++ [])|]|]; cbn; repeat split; reflexivity. }
  destruct TF as (F5 & F6 & F7 & F8 & F9 & F10 & F11 & F12 & F13).
  assert (GO : gett T' r c = gett t r c) by (destruct r; cbn; rewrite ?F6, ?F7; try reflexivity; destruct Hr).
  assert (VE : forall j, VF T' r c g0 j = VF t r c g0 j) by (intros j; unfold VF; rewrite GO, F5; reflexivity).
  assert (LEN : lens_ok ms t = true).
  { unfold lens_ok. destruct IB as [LB _]. unfold bview in LB. destruct r; try (destruct Hr; fail); cbn in LB; rewrite ?upd_len in LB;
      rewrite LB, NL; fold (nc ms); rewrite Nat.eqb_refl; reflexivity. }
  assert (COMMON : forall w', m_walks T' = w' :: ws -> w_own w' = Some (r, c) -> m_pc T' = MRun \/ m_pc T' = MClose ->
            NW ms T' r c w' -> step3 ms t ms T').
  { intros w' Hw' Ho' Hp' NW'. right. split; [reflexivity|]. split; [reflexivity|]. split.
    { unfold T3. rewrite Hw', Ho'. split; [|exact NW'].
      apply (bview_same ms ms t T'); [apply grows_refl | exact IB|].
      unfold bview, same_ctl. rewrite GO. destruct r; try (destruct Hr; fail); cbn; rewrite ?F6, ?F7; repeat split; auto. }
    split; [apply grows_refl|]. split; [exact S|]. split; [exact F9|]. split; [exact F10|]. split; [exact LEN|].
    split; [unfold focus_ok; rewrite Hpc; reflexivity|]. unfold done_ok. destruct Hp' as [-> | ->]; reflexivity. }
  destruct SH as [(c' & rest' & ph' & pre' & E1 & E2 & E3 & E4 & E5 & WS')|(E1 & E4 & CL)].
  - apply (COMMON _ E4 eq_refl (or_introl E1)). unfold NW. rewrite F8, F5, E1, E2, E3, GO. cbn [w_own w_rest w_snap w_ph].
    split; [exact Gr|]. split; [exact NL|]. split. { unfold rc3. rewrite F6, F9, F10. exact RC. }
    split; [reflexivity|]. exists g0. split; [exact P2|]. split; [exact PG|]. split; [exact NN|]. split; [exact QC|].
    exists pre', rest'. split; [reflexivity|]. split; [exact E5|]. split; [exact SO|]. split; [exact IC|]. split; [reflexivity|].
    intros j Hj. rewrite VE. apply WS'. exact Hj.
  - apply (COMMON _ E4 eq_refl (or_intror E1)). unfold NW. rewrite F8, F5, E1, GO. cbn [w_own].
    split; [exact Gr|]. split; [exact NL|]. split. { unfold rc3. rewrite F6, F9, F10. exact RC. }
    split; [reflexivity|]. exists g0. split; [exact P2|]. split; [exact PG|]. split; [exact NN|]. split; [exact QC|].
    intros j Hj. rewrite VE. apply CL. exact Hj.
Qed.

(* ---- one step of a thread that satisfies the invariant (PARTIAL 3) ----
   Every step of a thread preserves its invariant T3 and passes every self
   check (or sets ms_bad), EXCEPT - not proved yet - the visit step inside the
   nested walk (m_pc = MRun while suspended: the invalidate / refresh steps of a
   SameFile changer of another counter and the G steps of the own thread; their
   step lemmas stepI, stepR2, stepG, llook2_prev2 are proved in CounterMultiCtl2). *)
Theorem thread_step_partial3 ms t ms' t' : MW ms -> T3 ms t -> (susp t = true -> m_pc t <> MRun) ->
  mstep_core ms t = (ms', t') -> step3 ms t ms' t'.
Proof.
  intros W I NR H. destruct (susp t) eqn:Es.
  - unfold susp in Es. unfold T3 in I. destruct (m_walks t) as [|w ws] eqn:Hw; [discriminate|].
    destruct (w_own w) as [[r c]|] eqn:Ho; [|discriminate]. destruct I as [IB NWI].
    pose proof NWI as (_ & _ & _ & _ & g0 & _ & _ & _ & _ & PH).
    destruct (m_pc t) eqn:Hpc; try contradiction.
    + exfalso. apply (NR eq_refl). reflexivity.
    + eapply core3_head; eauto.
    + eapply core3_next; eauto.
    + eapply core3_close; eauto.
  - apply (T3_unsusp ms t Es) in I. destruct I as [I Q]. eapply core3_unsusp; eauto.
Qed.

(* ---- the visit step inside the nested walk ---- *)
Lemma visit_wstate ph pre c0 rest (V V' : nat -> thread) g0 n :
  NoDup (pre ++ c0 :: rest) ->
  (forall j, (j < n)%nat -> wstate ph pre (Some c0) rest (pre ++ c0 :: rest) j (V j)) ->
  (forall j, j <> c0 -> V' j = V j) -> t_prev (V' c0) = Some g0 ->
  (match ph with PInv => inI (V' c0) \/ t_pc (V' c0) = RfLoad | PRef => pcR (t_pc (V' c0)) = true \/ t_pc (V' c0) = CClose end) ->
  ((match ph with PInv => t_pc (V' c0) = RfLoad | PRef => t_pc (V' c0) = CClose end) ->
     forall j, (j < n)%nat -> wstate ph (pre ++ [c0]) None rest (pre ++ c0 :: rest) j (V' j)) /\
  ((match ph with PInv => t_pc (V' c0) <> RfLoad | PRef => t_pc (V' c0) <> CClose end) ->
     forall j, (j < n)%nat -> wstate ph pre (Some c0) rest (pre ++ c0 :: rest) j (V' j)).
Proof.
  intros ND WS OT PV CL. destruct (nodup_mid _ _ _ ND) as [NP NR].
  assert (IS : In c0 (pre ++ c0 :: rest)) by (apply in_or_app; right; left; reflexivity).
  split; intros E j Hj; destruct (Nat.eq_dec j c0) as [->|Nj].
  - destruct ph; cbn [wstate]; (split; [|split; [discriminate|split; [intros X; exfalso; auto|intros X; exfalso; auto]]]).
    + intros _. exact E.
    + intros _. unfold fin. rewrite PV. exact E.
  - rewrite (OT j Nj). specialize (WS j Hj). destruct ph; cbn [wstate] in *; destruct WS as (W1 & W2 & W3 & W4);
      (split; [intros X; apply in_app_or in X as [X|[X|[]]]; [auto|congruence]|]); (split; [discriminate|split; assumption]).
  - destruct ph; cbn [wstate]; (split; [intros X; exfalso; auto|]); (split; [|split; [intros X; exfalso; auto|intros X; exfalso; auto]]); intros _.
    + destruct CL as [X|X]; [exact X|congruence].
    + destruct CL as [X|X]; [exact X|congruence].
  - rewrite (OT j Nj). specialize (WS j Hj). destruct ph; cbn [wstate] in *; destruct WS as (W1 & W2 & W3 & W4);
      (split; [exact W1|]); (split; [intros X; injection X as X; congruence|split; assumption]).
Qed.

Lemma vpc_ended p : pcG p = true -> pc_is p GRfLoad = pc_is (vpc p) RfLoad /\ pc_is p GClose = pc_is (vpc p) CClose.
Proof. destruct p; cbn; intros H; try discriminate; split; reflexivity. Qed.
Lemma vpc_GI p : pcG p = true -> (vpc p = IvLoad \/ vpc p = IvCas) -> pcGI p = true.
Proof. destruct p; cbn; intros H [X|X]; try discriminate; reflexivity. Qed.
Lemma vpc_GR p : pcG p = true -> pcR (vpc p) = true -> pcGR p = true.
Proof. destruct p; cbn; intros H X; try discriminate; reflexivity. Qed.
Lemma pcGI_G p : pcGI p = true -> pcG p = true /\ pc_is p LLook2 = false /\ pc_is p CStore || pc_is p CClose || pc_is p GClose = false /\ pcGR p = false.
Proof. destruct p; cbn; intros H; try discriminate; auto. Qed.
Lemma pcGR_G p : pcGR p = true -> pcG p = true /\ pc_is p LLook2 = false /\ pc_is p CStore || pc_is p CClose || pc_is p GClose = false /\ pcGI p = false.
Proof. destruct p; cbn; intros H; try discriminate; auto. Qed.

Lemma core3_run ms t ms' t' r c w ws : MW ms -> m_walks t = w :: ws -> w_own w = Some (r, c) ->
  CIb ms (bview t r c ws) -> NW ms t r c w -> m_pc t = MRun ->
  mstep_core ms t = (ms', t') -> step3 ms t ms' t'.
Proof.
  intros W Hw Ho IB (Gr & NL & RC & _ & g0 & P2 & PG & NN & QC & PH) Hpc H.
  rewrite Hpc in PH. destruct PH as (pre & rest & SR & SN & SO & IC & RV & WS). pose proof RC as (Hc & Hcl & Hr).
  pose proof (MW_MS _ W) as S. pose proof SO as [ND SC].
  destruct w as [rest0 snap ph own]. cbn [w_own w_rest w_snap w_ph] in *. subst own snap rest0.
  set (c' := m_c t) in *.
  destruct (SC c' ltac:(apply in_or_app; right; left; reflexivity)) as [Hc' Hcl'].
  assert (LEN : lens_ok ms t = true).
  { unfold lens_ok. destruct IB as [LB _]. unfold bview in LB. destruct r; try (destruct Hr; fail); cbn in LB; rewrite ?upd_len in LB;
      rewrite LB, NL; fold (nc ms); rewrite Nat.eqb_refl; reflexivity. }
  assert (FOC : focus_ok ms t = true).
  { unfold focus_ok. rewrite Hpc. fold c'. rewrite RV. unfold visit_role. cbn [w_own]. unfold rc_ok. fold (nc ms).
    apply Nat.ltb_lt in Hc'. rewrite Hc', Hcl'. destruct (Nat.eqb c' c) eqn:E; [|reflexivity].
    apply Nat.eqb_eq in E. destruct r; auto; try contradiction. destruct Hr as [-> ->]. rewrite E, Nat.eqb_refl. reflexivity. }
  unfold mstep_core in H. rewrite Hpc in H. cbv zeta in H. fold c' in H.
  assert (TAIL : forall r0 s' u', m_role t = r0 -> step_thread np0 (proj c' ms) (gett t r0 c') = (s', u') ->
    pc_is (t_pc (gett t r0 c')) LLook2 && pc_is (t_pc u') GIvLoad = false ->
    pc_is (t_pc (gett t r0 c')) CStore || pc_is (t_pc (gett t r0 c')) CClose || pc_is (t_pc (gett t r0 c')) GClose = false ->
    file_part s' = file_part (proj c' ms) -> length (s_cells s') = length (s_cells (proj c' ms)) ->
    (forall j, j <> c' -> VF (sett t r0 c' u') r c g0 j = VF t r c g0 j) ->
    t_prev (VF (sett t r0 c' u') r c g0 c') = Some g0 ->
    (match ph with PInv => inI (VF (sett t r0 c' u') r c g0 c') \/ t_pc (VF (sett t r0 c' u') r c g0 c') = RfLoad
                 | PRef => pcR (t_pc (VF (sett t r0 c' u') r c g0 c')) = true \/ t_pc (VF (sett t r0 c' u') r c g0 c') = CClose end) ->
    visit_ended (mkW rest (pre ++ c' :: rest) ph (Some (r, c))) c' u' =
      (match ph with PInv => pc_is (t_pc (VF (sett t r0 c' u') r c g0 c')) RfLoad | PRef => pc_is (t_pc (VF (sett t r0 c' u') r c g0 c')) CClose end) ->
    (t_prev2 (gett (sett t r0 c' u') r c) = Some g0 /\ pcG (t_pc (gett (sett t r0 c' u') r c)) = true /\
     (forall j, (j < nc ms)%nat -> j <> c ->
        t_kind (nth j (m_nest (sett t r0 c' u')) dflt) = Changer /\ t_prev (nth j (m_nest (sett t r0 c' u')) dflt) = Some g0 /\
        t_prev2 (nth j (m_nest (sett t r0 c' u')) dflt) <> None) /\
     quietb (nth c (m_nest (sett t r0 c' u')) dflt) = true) ->
    length (m_nest (sett t r0 c' u')) = nc ms -> m_grown (sett t r0 c' u') = true ->
    CIb ms (bview (sett t r0 c' u') r c ws) -> rc3 ms (sett t r0 c' u') r c ->
    m_isadd (sett t r0 c' u') = m_isadd t /\ m_k (sett t r0 c' u') = m_k t /\ m_pc (sett t r0 c' u') = MRun /\
    m_c (sett t r0 c' u') = c' /\ m_role (sett t r0 c' u') = r0 /\ m_walks (sett t r0 c' u') = m_walks t ->
    step3 ms t ms' t').
  { intros r0 s' u' Er Es Hg Hb FP LC OT PV CL VE (Q1 & Q2 & Q3 & Q4) NL' GR' IB' RC' (F1 & F2 & F3 & F4 & F5 & F6).
    rewrite Er, Es, Hg in H. cbn [andb] in H. rewrite Hb, set_chk_false, Hw, VE in H.
    destruct (inj_shared c' ms s' Hc' S FP LC) as [G S']. pose proof G as [N _].
    destruct (visit_wstate ph pre c' rest (VF t r c g0) (VF (sett t r0 c' u') r c g0) g0 (nc ms) ND WS OT PV CL) as [VW1 VW2].
    set (T1 := sett t r0 c' u') in *.
    assert (COMMON : forall TT, m_walks TT = m_walks t -> gett TT r c = gett T1 r c -> m_nest TT = m_nest T1 ->
              m_grown TT = true -> m_isadd TT = m_isadd t -> m_k TT = m_k t -> m_main TT = m_main T1 -> m_redo TT = m_redo T1 ->
              m_tgt TT = m_tgt T1 -> m_wrote TT = m_wrote T1 -> m_prev TT = m_prev T1 ->
              (m_pc TT = MRun \/ m_pc TT = MNext) ->
              match m_pc TT with
              | MRun => exists pre0 rest0, rest = rest0 /\ pre ++ c' :: rest = pre0 ++ m_c TT :: rest0 /\
                  m_role TT = visit_role (mkW rest (pre ++ c' :: rest) ph (Some (r, c))) (m_c TT) /\
                  forall j, (j < nc ms)%nat -> wstate ph pre0 (Some (m_c TT)) rest0 (pre ++ c' :: rest) j (VF T1 r c g0 j)
              | MNext => exists pre0, pre ++ c' :: rest = pre0 ++ rest /\
                  forall j, (j < nc ms)%nat -> wstate ph pre0 None rest (pre ++ c' :: rest) j (VF T1 r c g0 j)
              | _ => False
              end -> step3 ms t (inj c' ms s') TT).
    { intros TT E1 E2 E3 E4 E5 E6 E7 E8 E9 E10 E11 EP PHASE. right. split; [reflexivity|]. split; [reflexivity|]. split.
      { unfold T3. rewrite E1, Hw. cbn [w_own]. split.
        - apply (CIb_cong (inj c' ms s') (bview T1 r c ws)).
          + unfold bview, same_ctl. rewrite E2. destruct r; cbn; rewrite ?E5, ?E6, ?E7, ?E8, ?E9, ?E10, ?E11; repeat split; auto; rewrite ?F1, ?F2; auto.
          + apply (CIb_mono ms); [exact G | exact IB'].
        - unfold NW. rewrite E4, E3, E2, N. cbn [w_own w_rest w_snap w_ph].
          split; [reflexivity|]. split; [exact NL'|]. split. { unfold rc3. rewrite E7, E5, E6, N. unfold rc3 in RC'. rewrite F1, F2 in RC'. exact RC'. }
          split; [reflexivity|]. exists g0. split; [exact Q1|]. split; [exact Q2|]. split; [exact Q3|]. split; [exact Q4|].
          assert (VE' : forall j, VF TT r c g0 j = VF T1 r c g0 j) by (intros j; unfold VF; rewrite E2, E3; reflexivity).
          destruct EP as [EP|EP]; rewrite EP in PHASE |- *.
          + destruct PHASE as (pre0 & rest0 & P1 & P2' & P3 & P4). exists pre0, rest0. split; [auto|]. split; [exact P2'|].
            split; [eapply snap_ok_mono; eauto|]. split; [exact IC|]. split; [exact P3|]. intros j Hj. rewrite VE'. apply P4. exact Hj.
          + destruct PHASE as (pre0 & P1 & P4). exists pre0. split; [exact P1|].
            split; [eapply snap_ok_mono; eauto|]. split; [exact IC|]. intros j Hj. rewrite VE'. apply P4. exact Hj. }
      split; [exact G|]. split; [exact S'|]. split; [exact E5|]. split; [exact E6|]. split; [exact LEN|]. split; [exact FOC|].
      unfold done_ok. destruct EP as [-> | ->]; reflexivity. }
    destruct (match ph with PInv => pc_is (t_pc (VF T1 r c g0 c')) RfLoad | PRef => pc_is (t_pc (VF T1 r c g0 c')) CClose end) eqn:Ev;
      injection H as <- <-.
    - (* ended *)
      apply COMMON; try reflexivity; cbn; auto; try (right; reflexivity).
      exists (pre ++ [c']). split; [rewrite <- app_assoc; reflexivity|]. apply VW1.
      destruct ph; apply pc_is_eq in Ev; exact Ev.
    - (* still visiting *)
      apply COMMON; try reflexivity; auto; try (left; exact F3). rewrite F3.
      exists pre, rest. split; [reflexivity|]. rewrite F4, F5. split; [reflexivity|]. split; [rewrite <- Er; exact RV|]. apply VW2.
      destruct ph; intros X; rewrite X in Ev; discriminate. }
  rewrite RV in H. unfold visit_role in RV, H. cbn [w_own] in RV, H.
  destruct (Nat.eqb c' c) eqn:Ecc.
  - (* the own thread, at its G program points *)
    apply Nat.eqb_eq in Ecc. rewrite Ecc in *.
    set (O := gett t r c) in *.
    assert (CLS : match ph with PInv => pcGI (t_pc O) = true | PRef => pcGR (t_pc O) = true end).
    { specialize (WS c Hc). unfold VF in WS. rewrite Nat.eqb_refl in WS. fold O in WS.
      destruct ph; cbn [wstate] in WS; destruct WS as (_ & WC & _); specialize (WC eq_refl).
      - apply vpc_GI; [exact PG | exact WC].
      - apply vpc_GR; [exact PG | exact WC]. }
    destruct (step_thread np0 (proj c ms) O) as [s' u'] eqn:Es.
    assert (GG : pcGI (t_pc O) = true \/ pcGR (t_pc O) = true) by (destruct ph; auto).
    destruct (stepG _ _ _ _ _ Es GG) as (D1 & D2 & D3 & D4 & D5 & D6 & D7).
    assert (OF : pc_is (t_pc O) LLook2 = false /\ pc_is (t_pc O) CStore || pc_is (t_pc O) CClose || pc_is (t_pc O) GClose = false)
      by (destruct ph; [destruct (pcGI_G _ CLS) as (_ & A & B & _) | destruct (pcGR_G _ CLS) as (_ & A & B & _)]; auto).
    destruct OF as [OF1 OF2].
    assert (GU : pcG (t_pc u') = true /\
                 match ph with PInv => inI (virt g0 u') \/ t_pc (virt g0 u') = RfLoad
                             | PRef => pcR (t_pc (virt g0 u')) = true \/ t_pc (virt g0 u') = CClose end).
    { destruct ph.
      - rewrite CLS in D1. destruct D1 as [X|X]; [|split; [rewrite X; reflexivity|right; unfold virt; cbn; rewrite X; reflexivity]].
        split; [apply (pcGI_G _ X)|]. left. unfold inI, virt. cbn. destruct (t_pc u'); cbn in X; try discriminate; auto.
      - destruct (pcGR_G _ CLS) as (_ & _ & _ & NGI). rewrite NGI in D1.
        destruct D1 as [X|X]; [|split; [rewrite X; reflexivity|right; unfold virt; cbn; rewrite X; reflexivity]].
        split; [apply (pcGR_G _ X)|]. left. unfold virt. cbn. destruct (t_pc u'); cbn in X; try discriminate; reflexivity. }
    destruct GU as [GU1 GU2].
    assert (GS : gett (sett t r c u') r c = u') by (apply gett_sett; apply (rc3_len _ _ _ _ RC)).
    assert (NS : m_nest (sett t r c u') = m_nest t) by (destruct r; try contradiction; reflexivity).
    apply (TAIL r s' u' RV Es); fold O; auto.
    + rewrite OF1. reflexivity.
    + intros j Hj. unfold VF. apply Nat.eqb_neq in Hj. rewrite Hj, NS. reflexivity.
    + unfold VF. rewrite Nat.eqb_refl. reflexivity.
    + unfold VF. rewrite Nat.eqb_refl, GS. exact GU2.
    + unfold visit_ended, is_own. cbn [w_own w_ph]. rewrite Nat.eqb_refl. unfold VF. rewrite Nat.eqb_refl, GS.
      destruct (vpc_ended _ GU1) as [V1 V2]. destruct ph; [exact V1 | exact V2].
    + rewrite GS, NS. split; [congruence|]. split; [exact GU1|]. split; [exact NN | exact QC].
    + rewrite NS. exact NL.
    + destruct r; try contradiction; exact Gr.
    + apply (CIb_cong ms (sett (bview t r c ws) (m_role (bview t r c ws)) (m_c (bview t r c ws)) (with_pc u' LCas))).
      * unfold bview, same_ctl. fold O. rewrite GS. destruct r; try contradiction; cbn; rewrite ?upd_upd; repeat split; auto.
      * apply CIb_swap; [exact IB | reflexivity|]. unfold bview. cbn [m_role m_c with_focus]. fold O.
        assert (GE : gett (with_focus (with_walks (sett t r c (with_pc O LCas)) MRun ws) MRun r c) r c = with_pc O LCas).
        { destruct r; cbn; try contradiction; [apply nth_upd_same; exact Hr | reflexivity]. }
        rewrite GE. unfold sameC. cbn. repeat split; auto.
    + unfold rc3. destruct r; try contradiction; cbn; rewrite ?upd_len; auto.
    + destruct r; try contradiction; cbn; repeat split; auto.
  - (* a SameFile changer of another counter *)
    apply Nat.eqb_neq in Ecc. cbn [gett] in *.
    set (u := nth c' (m_nest t) dflt) in *.
    destruct (NN c' Hc' Ecc) as (K1 & K2 & K3). fold u in K1, K2, K3.
    assert (VU : VF t r c g0 c' = u) by (unfold VF; apply Nat.eqb_neq in Ecc; rewrite Ecc; reflexivity).
    destruct (step_thread np0 (proj c' ms) u) as [s' u'] eqn:Es.
    pose proof (llook2_prev2 _ _ _ _ _ Es K3) as NGB.
    assert (D : (match ph with PInv => inI u' \/ t_pc u' = RfLoad | PRef => pcR (t_pc u') = true \/ t_pc u' = CClose end) /\
                t_kind u' = Changer /\ t_prev u' = Some g0 /\ file_part s' = file_part (proj c' ms) /\
                length (s_cells s') = length (s_cells (proj c' ms)) /\
                pc_is (t_pc u) CStore || pc_is (t_pc u) CClose || pc_is (t_pc u) GClose = false /\
                (match ph with PInv => pc_is (t_pc u') RfLoad | PRef => pc_is (t_pc u') CClose || pc_is (t_pc u') Done end) =
                (match ph with PInv => pc_is (t_pc u') RfLoad | PRef => pc_is (t_pc u') CClose end)).
    { specialize (WS c' Hc'). rewrite VU in WS. destruct ph; cbn [wstate] in WS; destruct WS as (_ & WC & _); specialize (WC eq_refl).
      - destruct (stepI _ _ _ _ _ Es WC) as (D1 & D2 & D3 & D4 & D5). destruct (inI_not _ WC) as (_ & N2 & N3 & N4 & _).
        rewrite N2, N3, N4. repeat split; try congruence; try exact D1.
      - destruct (stepR2 _ _ _ _ _ Es WC K1 NGB) as (D1 & D2 & D3 & D4 & D5). destruct (pcR_not _ WC) as (_ & N2 & N3 & N4 & _).
        rewrite N2, N3, N4.
        assert (D1' : pcR (t_pc u') = true \/ t_pc u' = CClose).
        { destruct D1 as [X|X]; [left; exact X|right]. unfold fin in X. rewrite D3, K2 in X. exact X. }
        repeat split; try congruence; try exact D1'.
        destruct D1' as [X|X]; [destruct (pcR_not _ X) as (_ & _ & Q1 & _ & Q2 & _); rewrite Q1, Q2; reflexivity | rewrite X; reflexivity]. }
    destruct D as (D1 & D2 & D3 & D4 & D5 & D6 & D7).
    assert (P2U : t_prev2 u' <> None).
    { destruct (step_prev2 _ _ _ _ _ Es) as [X|[X1 X2]]; [congruence|]. unfold nogrowb in NGB. rewrite X1, X2 in NGB. discriminate. }
    assert (NU : nth c' (upd (m_nest t) c' u') dflt = u') by (apply nth_upd_same; rewrite NL; exact Hc').
    assert (GS : gett (sett t RNest c' u') r c = gett t r c) by (destruct r; try contradiction; reflexivity).
    assert (VU' : VF (sett t RNest c' u') r c g0 c' = u').
    { unfold VF. apply Nat.eqb_neq in Ecc. rewrite Ecc. cbn. exact NU. }
    apply (TAIL RNest s' u' RV Es); cbn [gett]; fold u.
    + unfold nogrowb in NGB. apply negb_true_iff in NGB. exact NGB.
    + exact D6.
    + exact D4.
    + exact D5.
    + intros j Hj. unfold VF. rewrite GS. destruct (Nat.eqb j c); [reflexivity|]. cbn. apply nth_upd_other. exact Hj.
    + rewrite VU'. exact D3.
    + rewrite VU'. exact D1.
    + unfold visit_ended, is_own. cbn [w_own w_ph]. apply Nat.eqb_neq in Ecc. rewrite Ecc. rewrite VU'. exact D7.
    + rewrite GS. split; [exact P2|]. split; [exact PG|]. split.
      * intros j Hj Nj. cbn. destruct (Nat.eq_dec j c') as [->|Njc]; [rewrite NU; auto|]. rewrite nth_upd_other by exact Njc. apply NN; assumption.
      * cbn. rewrite nth_upd_other by (intros X; apply Ecc; auto). exact QC.
    + cbn. rewrite upd_len. exact NL.
    + exact Gr.
    + apply (CIb_cong ms (bview t r c ws)); [|exact IB].
      unfold bview, same_ctl. rewrite GS. destruct r; try contradiction; cbn; repeat split; auto.
    + unfold rc3. cbn. exact RC.
    + cbn. repeat split; auto.
Qed.

(* ---- every step of a thread ---- *)
Theorem thread_step3 ms t ms' t' : MW ms -> T3 ms t -> mstep_core ms t = (ms', t') -> step3 ms t ms' t'.
Proof.
  intros W I H. destruct (susp t) eqn:Es.
  - unfold susp in Es. unfold T3 in I. destruct (m_walks t) as [|w ws] eqn:Hw; [discriminate|].
    destruct (w_own w) as [[r c]|] eqn:Ho; [|discriminate]. destruct I as [IB NWI].
    pose proof NWI as (_ & _ & _ & _ & g0 & _ & _ & _ & _ & PH).
    destruct (m_pc t) eqn:Hpc; try contradiction.
    + eapply core3_run; eauto.
    + eapply core3_head; eauto.
    + eapply core3_next; eauto.
    + eapply core3_close; eauto.
  - apply (T3_unsusp ms t Es) in I. destruct I as [I Q]. eapply core3_unsusp; eauto.
Qed.

(* ---- over the thread list ---- *)
Lemma advance_reg tt : reg_phase (advance tt) = false /\ m_wrote (advance tt) = m_wrote tt.
Proof.
  unfold advance, after_walk, reg_phase. destruct (m_walks tt) as [|w ws]; [cbn; auto|].
  destruct (w_rest w); [|cbn; auto]. destruct (w_ph w); [destruct (w_snap w)|]; cbn; auto;
    destruct (w_own w); cbn; auto; destruct (m_prev tt); cbn; auto.
Qed.

Lemma core_susp ms t ms' t' w ws rc : m_walks t = w :: ws -> w_own w = Some rc ->
  (m_pc t = MHead \/ m_pc t = MRun \/ m_pc t = MNext \/ m_pc t = MClose) ->
  mstep_core ms t = (ms', t') -> reg_phase t' = false /\ m_wrote t' = m_wrote t.
Proof.
  intros Hw Ho Hp H. unfold mstep_core in H. destruct rc as [r c].
  destruct Hp as [Hp|[Hp|[Hp|Hp]]]; rewrite Hp, ?Hw in H.
  - cbv zeta in H. rewrite Ho in H. injection H as <- <-.
    match goal with |- context [advance ?x] => destruct (advance_reg x) as [A B] end.
    split; [exact A|]. rewrite B. destruct (negb (memn c (ms_list ms))); destruct r; reflexivity.
  - cbv zeta in H. destruct (step_thread np0 _ _) as [s' u'].
    destruct (_ && m_grown t); [injection H as <- <-; split; reflexivity|].
    destruct (pc_is _ LLook2 && _); [injection H as <- <-; split; [reflexivity|destruct (m_role t); reflexivity]|].
    try rewrite Hw in H. destruct (visit_ended _ _ _); injection H as <- <-; unfold reg_phase; destruct (m_role t); cbn; rewrite ?Hp; split; reflexivity.
  - injection H as <- <-. apply advance_reg.
  - rewrite Ho in H. destruct (step_thread np0 _ _) as [s' u']. injection H as <- <-. split; [reflexivity|destruct r; reflexivity].
Qed.

Lemma T3_mono ms ms' t : grows_to ms ms' -> T3 ms t -> T3 ms' t.
Proof.
  intros G I. pose proof G as [N C]. unfold T3 in *. destruct (m_walks t) as [|w ws].
  - destruct I as [I Q]. split; [eapply CIb_mono; eauto|]. unfold NQ in *. rewrite N. exact Q.
  - destruct (w_own w) as [[r c]|].
    + destruct I as [I (Gr & NL & (R1 & R2 & R3) & Ho & g0 & P2 & PG & NN & QC & PH)]. split; [eapply CIb_mono; eauto|].
      unfold NW. rewrite N. split; [exact Gr|]. split; [exact NL|]. split; [unfold rc3; rewrite N; auto|]. split; [exact Ho|].
      exists g0. repeat (split; [assumption|]). destruct (m_pc t); auto.
      * destruct PH as (pre & rest & A1 & A2 & A3 & A4 & A5 & A6). exists pre, rest. repeat (split; [assumption|]).
        split; [eapply snap_ok_mono; eauto|]. auto.
      * destruct PH as (pre & A2 & A3 & A4 & A6). exists pre. split; [assumption|]. split; [eapply snap_ok_mono; eauto|]. auto.
    + destruct I as [I Q]. split; [eapply CIb_mono; eauto|]. unfold NQ in *. rewrite N. exact Q.
Qed.

(* the registration facts of a thread that satisfies T3 *)
Lemma T3_base ms t : T3 ms t -> exists tb, CIb ms tb /\ m_isadd tb = m_isadd t /\ m_k tb = m_k t /\ m_wrote tb = m_wrote t /\
  (susp t = false -> tb = t).
Proof.
  unfold T3, susp. destruct (m_walks t) as [|w ws]; [intros [I _]; exists t; auto|].
  destruct (w_own w) as [[r c]|]; [|intros [I _]; exists t; auto].
  intros [I _]. exists (bview t r c ws). split; [exact I|]. unfold bview. destruct r; cbn; repeat split; auto; discriminate.
Qed.
Lemma T3_wrote_claimed ms t : T3 ms t -> m_isadd t = true -> m_wrote t = true -> claimed ms (m_k t) = true /\ (m_k t < nc ms)%nat.
Proof.
  intros I Ea Hw. destruct (T3_base _ _ I) as (tb & Ib & E1 & E2 & E3 & _).
  rewrite <- E2. apply (CI_wrote_claimed ms tb Ib); congruence.
Qed.
Lemma T3_susp_pc ms t : T3 ms t -> susp t = true -> exists w ws rc, m_walks t = w :: ws /\ w_own w = Some rc /\
  (m_pc t = MHead \/ m_pc t = MRun \/ m_pc t = MNext \/ m_pc t = MClose).
Proof.
  unfold T3, susp. destruct (m_walks t) as [|w ws]; [discriminate|]. destruct (w_own w) as [[r c]|] eqn:Ho; [|discriminate].
  intros [_ (_ & _ & _ & _ & g0 & _ & _ & _ & _ & PH)] _. exists w, ws, (r, c). split; [reflexivity|]. split; [exact Ho|].
  destruct (m_pc t); try contradiction; auto.
Qed.

Lemma thread_reg ms t0 ms1 t1 : T3 ms t0 -> mstep_core ms t0 = (ms1, t1) ->
  (m_pc t0 = MRLink -> m_isadd t0 = true /\ m_wrote t0 = true /\ reg_phase t0 = true) /\
  (m_isadd t0 = true -> reg_phase t1 = true -> m_wrote t1 = true ->
     (reg_phase t0 = true /\ m_wrote t0 = true /\ (m_pc t0 = MRLink -> ms_list ms1 = ms_list ms)) \/
     (claimed ms (m_k t0) = false /\ ms_list ms1 = ms_list ms)) /\
  (m_isadd t0 = true -> m_wrote t1 = true -> m_wrote t0 = true \/ claimed ms (m_k t0) = false).
Proof.
  intros I Hc. destruct (susp t0) eqn:Es.
  - destruct (T3_susp_pc _ _ I Es) as (w & ws & rc & Hw & Ho & Hp).
    destruct (core_susp _ _ _ _ _ _ _ Hw Ho Hp Hc) as [R Wr].
    split; [intros X; destruct Hp as [Hp|[Hp|[Hp|Hp]]]; congruence|]. split; [intros _ X; congruence|]. intros _ X. left. congruence.
  - apply (T3_unsusp ms t0 Es) in I. destruct I as [I0 _]. split; [|split].
    + intros Hp. destruct (m_isadd t0) eqn:Ea.
      * destruct I0 as (_ & X). rewrite Ea in X. destruct X as (_ & _ & _ & _ & _ & _ & _ & A8). rewrite Hp in A8.
        unfold reg_phase. rewrite Hp. repeat split; apply A8.
      * destruct (CI_chg_wrote _ _ I0 Ea) as [_ R]. unfold reg_phase in R. rewrite Hp in R. discriminate.
    + intros Ea Hr Hw. destruct (core_wrote_add _ _ _ _ Hc I0 Ea) as [_ X]. exact (X Hr Hw).
    + intros Ea Hw. destruct (core_wrote_add _ _ _ _ Hc I0 Ea) as [[X|(X1 & X2 & _)] _]; [left; congruence | right; exact X2].
Qed.

(* ---- the invariant of the whole system, along runs that stay inside the envelope ---- *)
Definition GI3 (st : mstate) : Prop :=
  let '(ms, ts) := st in
  ms_bad ms = true \/
  (ms_chk ms = false /\ MW ms /\ Forall (T3 ms) ts /\
   (forall j t, nth_error ts j = Some t -> m_isadd t = true -> m_wrote t = true -> reg_phase t = true ->
      ~ In (m_k t) (ms_list ms)) /\
   (forall i j ti tj, nth_error ts i = Some ti -> nth_error ts j = Some tj -> i <> j ->
      m_isadd ti = true -> m_isadd tj = true -> m_wrote ti = true -> m_wrote tj = true -> m_k ti <> m_k tj)).

Theorem GI3_step st i : GI3 st -> GI3 (mstep st i).
Proof.
  destruct st as [ms ts]. intros [B|(C & W & F & U3 & U2)].
  { pose proof (mstep_frame (ms, ts) i) as (_ & _ & X & _). cbn [fst] in X. destruct (mstep (ms, ts) i) as [ms' ts']. left. exact (X B). }
  unfold mstep. destruct (nth_error ts i) as [t0|] eqn:Hn; [|right; exact (conj C (conj W (conj F (conj U3 U2))))].
  pose proof (nth_error_Forall _ _ _ _ F Hn) as I0.
  unfold mstep_thread. destruct (mstep_core ms t0) as [ms1 t1] eqn:Hc. cbn [fst snd].
  destruct (thread_step3 _ _ _ _ W I0 Hc) as [B1|(C1 & B1 & I1 & G & S1 & E1 & E2 & LO & FO & DO)].
  { left. cbn. exact B1. }
  destruct (ms_bad ms1) eqn:Eb; [left; cbn; exact Eb|]. right.
  rewrite LO, FO, DO. cbn [andb negb]. rewrite set_chk_false.
  pose proof G as [N CM]. pose proof W as (W1 & W2 & W3 & W4 & W5). destruct S1 as (S1 & S4 & S5).
  pose proof (core_list _ _ _ _ Hc) as CL.
  destruct (thread_reg _ _ _ _ I0 Hc) as (LNK & REG2 & REG3).
  split; [congruence|]. split; [|split; [|split]].
  - (* MW *)
    unfold MW. split; [exact S1|]. split; [|split; [|split; [exact S4|exact S5]]].
    + intros j Hj. rewrite N. destruct CL as [CL | (Hp & CL)]; rewrite CL in Hj.
      * destruct (W2 j Hj). auto.
      * destruct Hj as [<-|Hj]; [|destruct (W2 j Hj); auto].
        destruct (LNK Hp) as (Ea & Hw & _). destruct (T3_wrote_claimed _ _ I0 Ea Hw). auto.
    + destruct CL as [-> | (Hp & ->)]; [exact W3|]. constructor; [|exact W3].
      destruct (LNK Hp) as (Ea & Hw & Hr). exact (U3 i t0 Hn Ea Hw Hr).
  - apply Forall_upd; [|exact I1]. apply Forall_forall. intros x Hx. apply (T3_mono ms); [exact G|].
    rewrite Forall_forall in F. apply F. exact Hx.
  - (* a linker's counter is not on the list *)
    intros j t Hj Ea Hw Hr. destruct (Nat.eq_dec i j) as [<-|Nij].
    + rewrite (nth_error_upd_same _ _ _ _ Hn) in Hj. injection Hj as <-.
      assert (Ea0 : m_isadd t0 = true) by congruence.
      destruct (REG2 Ea0 Hr Hw) as [(R0 & W0 & Lk)|(Cf & Ll)].
      * rewrite E2. destruct CL as [-> | (Hp & _)]; [|rewrite (Lk Hp)]; exact (U3 i t0 Hn Ea0 W0 R0).
      * rewrite E2, Ll. intros Hin. destruct (W2 _ Hin). congruence.
    + rewrite nth_error_upd_other in Hj by exact Nij.
      destruct CL as [-> | (Hp & ->)]; [exact (U3 j t Hj Ea Hw Hr)|].
      intros [Hin|Hin]; [|exact (U3 j t Hj Ea Hw Hr Hin)].
      destruct (LNK Hp) as (Ea0 & Hw0 & _). exact (U2 i j t0 t Hn Hj Nij Ea0 Ea Hw0 Hw Hin).
  - (* one claimer per counter *)
    assert (KEY : forall j tj, nth_error ts j = Some tj -> i <> j -> m_isadd t1 = true -> m_isadd tj = true ->
                  m_wrote t1 = true -> m_wrote tj = true -> m_k t1 <> m_k tj).
    { intros j tj Hj Nij Ea1 Eaj Hw1 Hwj. assert (Ea0 : m_isadd t0 = true) by congruence.
      destruct (REG3 Ea0 Hw1) as [X|X].
      - rewrite E2. apply (U2 i j t0 tj Hn Hj Nij Ea0 Eaj); congruence.
      - rewrite E2. intros Heq. rewrite Forall_forall in F.
        destruct (T3_wrote_claimed ms tj (F tj (nth_error_In _ _ Hj)) Eaj Hwj). congruence. }
    intros a b ta tb Ha Hb Nab Eaa Eab Hwa Hwb.
    destruct (Nat.eq_dec i a) as [<-|Nia]; destruct (Nat.eq_dec i b) as [<-|Nib]; try congruence.
    + rewrite (nth_error_upd_same _ _ _ _ Hn) in Ha. injection Ha as <-. rewrite nth_error_upd_other in Hb by exact Nib.
      exact (KEY b tb Hb Nib Eaa Eab Hwa Hwb).
    + rewrite (nth_error_upd_same _ _ _ _ Hn) in Hb. injection Hb as <-. rewrite nth_error_upd_other in Ha by exact Nia.
      intros Heq. exact (KEY a ta Ha Nia Eab Eaa Hwb Hwa (eq_sym Heq)).
    + rewrite nth_error_upd_other in Ha, Hb by assumption. exact (U2 a b ta tb Ha Hb Nab Eaa Eab Hwa Hwb).
Qed.

Lemma GI3_run sched : forall st, GI3 st -> GI3 (mrun sched st).
Proof. induction sched as [|i sched IH]; intros st G; [exact G|]. cbn [mrun fold_left]. apply IH. apply GI3_step. exact G. Qed.

(* ---- initial states, and the theorems with ms_bad = false as the only flag hypothesis ---- *)
Lemma init_T3 ms t : mthread_init (nc ms) t -> (m_isadd t = false -> m_tgt t = NewFile \/ m_tgt t = FullFile) -> T3 ms t.
Proof.
  intros Hi Ht. pose proof (init_CI2 ms t Hi Ht) as (I & Ne & Gr).
  assert (Hw : m_walks t = []) by (destruct Hi as [(k & n & _ & _ & ->)|(tg & ->)]; reflexivity).
  unfold T3. rewrite Hw. split; [exact I|]. unfold NQ. rewrite Gr, Ne, repeat_length. split; [reflexivity|].
  intros j Hj. rewrite nth_repeat. apply Nat.ltb_lt in Hj. rewrite Hj. reflexivity.
Qed.

Lemma init_GI3 ms ts : mgood ms ts -> ctl_init ms ts -> GI3 (ms, ts).
Proof.
  intros (C & B & FT & _ & _) (W & FN). unfold GI3. right. split; [exact C|]. split; [exact W|].
  split; [|split].
  - rewrite Forall_forall in *. intros t Ht. apply init_T3; [apply FT; exact Ht | apply FN; exact Ht].
  - intros j t Hj _ Hw. rewrite Forall_forall in FT.
    assert (X : m_wrote t = false) by (destruct (FT t (nth_error_In _ _ Hj)) as [(k & n & _ & _ & ->)|(tg & ->)]; reflexivity).
    congruence.
  - intros i j ti tj Hi _ _ _ _ Hw. rewrite Forall_forall in FT.
    assert (X : m_wrote ti = false) by (destruct (FT ti (nth_error_In _ _ Hi)) as [(k & n & _ & _ & ->)|(tg & ->)]; reflexivity).
    congruence.
Qed.

(* the control invariant along every run; the self-check flag is never set
   while the run stays inside the envelope *)
Theorem multi_control_invariant3 ms0 ts0 sched : mgood ms0 ts0 -> ctl_init ms0 ts0 -> GI3 (mrun sched (ms0, ts0)).
Proof. intros G N. apply GI3_run. apply init_GI3; assumption. Qed.

Theorem multi_chk_clear ms0 ts0 sched : mgood ms0 ts0 -> ctl_init ms0 ts0 ->
  ms_bad (fst (mrun sched (ms0, ts0))) = false -> ms_chk (fst (mrun sched (ms0, ts0))) = false.
Proof.
  intros G N B. pose proof (multi_control_invariant3 ms0 ts0 sched G N) as X.
  destruct (mrun sched (ms0, ts0)) as [ms ts]. cbn [fst] in *. destruct X as [X|(C & _)]; [congruence | exact C].
Qed.

Theorem multi_step_projects3 ms0 ts0 sched k i : mgood ms0 ts0 -> ctl_init ms0 ts0 ->
  (k < length (ms_ctrs ms0))%nat -> ms_bad (fst (mstep (mrun sched (ms0, ts0)) i)) = false ->
  xstep (memn k (ms_list (fst (mrun sched (ms0, ts0))))) (sproj k (mrun sched (ms0, ts0)))
        (sproj k (mstep (mrun sched (ms0, ts0)) i)).
Proof.
  intros G N Hk B.
  assert (E : mstep (mrun sched (ms0, ts0)) i = mrun (sched ++ [i]) (ms0, ts0)).
  { unfold mrun. rewrite fold_left_app. reflexivity. }
  pose proof (multi_chk_clear ms0 ts0 (sched ++ [i]) G N) as C. rewrite <- E in C.
  apply mstep_projects; auto.
  pose proof (mrun_frame sched (ms0, ts0)) as (L & _). cbn [fst] in L. rewrite L. exact Hk.
Qed.

Theorem multi_inv3 ms0 ts0 sched k : mgood ms0 ts0 -> reg_init ms0 -> ctl_init ms0 ts0 ->
  ms_bad (fst (mrun sched (ms0, ts0))) = false -> (k < length (ms_ctrs ms0))%nat ->
  Inv (total_k k ms0 ts0) (sproj k (mrun sched (ms0, ts0))) /\
  Forall (fun t => done_ok t = true) (snd (mrun sched (ms0, ts0))).
Proof. intros G R N B Hk. apply multi_inv; auto. apply multi_chk_clear; assumption. Qed.

Theorem multi_upper_bound3 ms0 ts0 sched k : mgood ms0 ts0 -> reg_init ms0 -> ctl_init ms0 ts0 ->
  let '(ms, ts) := mrun sched (ms0, ts0) in
  ms_bad ms = false -> (k < length (ms_ctrs ms0))%nat ->
  persisted (proj k ms) + w_extra (c_word (getc ms k))
  <= persisted (proj k ms0) + w_extra (c_word (getc ms0 k)) + (sumf unbegun (tsproj k ts0) - sumf unbegun (tsproj k ts)).
Proof.
  intros G R N. pose proof (multi_upper_bound ms0 ts0 sched k G R) as U. pose proof (multi_chk_clear ms0 ts0 sched G N) as C.
  destruct (mrun sched (ms0, ts0)) as [ms ts]. cbn [fst] in C. auto.
Qed.

Theorem multi_exact_at_quiescence3 ms0 ts0 sched k : mgood ms0 ts0 -> reg_init ms0 -> ctl_init ms0 ts0 ->
  let '(ms, ts) := mrun sched (ms0, ts0) in
  ms_bad ms = false -> (k < length (ms_ctrs ms0))%nat -> m_all_done ts = true -> c_sat (getc ms k) = false ->
  persisted (proj k ms) + w_extra (c_word (getc ms k))
  = persisted (proj k ms0) + w_extra (c_word (getc ms0 k)) + sumf unbegun (tsproj k ts0) /\
  w_readers (c_word (getc ms k)) = 0.
Proof.
  intros G R N. pose proof (multi_exact_at_quiescence ms0 ts0 sched k G R) as U. pose proof (multi_chk_clear ms0 ts0 sched G N) as C.
  destruct (mrun sched (ms0, ts0)) as [ms ts]. cbn [fst] in C. auto.
Qed.

Theorem multi_no_nil_deref3 ms0 ts0 sched k : mgood ms0 ts0 -> reg_init ms0 -> ctl_init ms0 ts0 ->
  let '(ms, ts) := mrun sched (ms0, ts0) in
  ms_bad ms = false -> (k < length (ms_ctrs ms0))%nat -> Forall (fun u => crashed u = false) (tsproj k ts).
Proof.
  intros G R N. pose proof (multi_no_nil_deref ms0 ts0 sched k G R) as U. pose proof (multi_chk_clear ms0 ts0 sched G N) as C.
  destruct (mrun sched (ms0, ts0)) as [ms ts]. cbn [fst] in C. auto.
Qed.

(* ---- exactly which steps set ms_bad ---- *)
Definition bad_cause (ms : mshared) (t : mthread) : bool :=
  match m_pc t with
  | MRun =>
      (* a second extension of the file by the lookups of one thread *)
      let u := gett t (m_role t) (m_c t) in
      let u' := snd (step_thread np0 (proj (m_c t) ms) u) in
      pc_is (t_pc u) LLook2 && pc_is (t_pc u') GIvLoad && m_grown t
  | MHead =>
      (* the nested walk loads the list and the counter whose lookup extended the
         file is not on it: an Add on a counter another goroutine is still registering *)
      match m_walks t with
      | w :: _ => match w_own w with Some (_, c) => negb (memn c (ms_list ms)) | None => false end
      | [] => false
      end
  | _ => false
  end.

Lemma core_bad ms t ms' t' : mstep_core ms t = (ms', t') -> ms_bad ms' = ms_bad ms || bad_cause ms t.
Proof.
  intros H. unfold mstep_core in H. unfold bad_cause. destruct (m_pc t).
  - destruct (m_isadd t); injection H as <- <-; cbn; rewrite orb_false_r; reflexivity.
  - destruct (claimed ms (m_k t)); injection H as <- <-; cbn; rewrite orb_false_r; reflexivity.
  - injection H as <- <-; cbn; rewrite orb_false_r; reflexivity.
  - destruct (m_wrote t); [|destruct (claimed ms (m_k t))]; injection H as <- <-; cbn; rewrite orb_false_r; reflexivity.
  - destruct (onat_eqb _ _); injection H as <- <-; cbn; rewrite orb_false_r; reflexivity.
  - injection H as <- <-; cbn; rewrite orb_false_r; reflexivity.
  - injection H as <- <-; cbn; rewrite orb_false_r; reflexivity.
  - injection H as <- <-; cbn; rewrite orb_false_r; reflexivity.
  - cbv zeta in H |- *. destruct (step_thread np0 _ _) as [s' u']. cbn [snd].
    destruct (pc_is _ LLook2 && pc_is (t_pc u') GIvLoad) eqn:Eg.
    + destruct (m_grown t); cbn [andb] in H |- *; injection H as <- <-; cbn; rewrite ?orb_false_r; reflexivity.
    + cbn [andb] in H |- *.
      destruct (m_walks t); [destruct (pc_is (t_pc u') Done); [destruct (m_role t)|]|destruct (visit_ended _ _ _)];
        injection H as <- <-; cbn; rewrite orb_false_r; reflexivity.
  - injection H as <- <-. cbn. rewrite orb_false_r; reflexivity.
  - injection H as <- <-; cbn; rewrite orb_false_r; reflexivity.
  - destruct (m_walks t) as [|w ws]; [injection H as <- <-; cbn; rewrite orb_false_r; reflexivity|].
    cbv zeta in H. injection H as <- <-. cbn. destruct (w_own w) as [[r c]|]; reflexivity.
  - injection H as <- <-; cbn; rewrite orb_false_r; reflexivity.
  - destruct (m_walks t) as [|w ws]; [injection H as <- <-; cbn; rewrite orb_false_r; reflexivity|].
    destruct (w_own w) as [[r c]|].
    + destruct (step_thread np0 _ _) as [s' u']. injection H as <- <-. cbn. rewrite orb_false_r; reflexivity.
    + destruct (m_prev t); injection H as <- <-; cbn; rewrite orb_false_r; reflexivity.
  - injection H as <- <-; cbn; rewrite orb_false_r; reflexivity.
Qed.

(* ms_bad is set by exactly these steps *)
Theorem mstep_bad st i :
  ms_bad (fst (mstep st i)) =
  ms_bad (fst st) || match nth_error (snd st) i with Some t => bad_cause (fst st) t | None => false end.
Proof.
  destruct st as [ms ts]. cbn [fst snd]. unfold mstep. destruct (nth_error ts i) as [t|]; [|cbn; rewrite orb_false_r; reflexivity].
  unfold mstep_thread. destruct (mstep_core ms t) as [ms1 t1] eqn:Hc. cbn [fst snd set_chk ms_bad]. exact (core_bad _ _ _ _ Hc).
Qed.
