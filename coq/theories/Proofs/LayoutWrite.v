(* Proofs/LayoutWrite: the three ways a writer changes a well-formed file --
   linking a new record, storing a value, growing by zero pages -- keep it
   well-formed, and say what the layout reader sees afterwards. *)
From Coq Require Import List Arith NArith ZArith Bool Lia Permutation.
From Tele Require Import Lib.Bytes Lib.BytesN Gen.Consts Model.DecodeStack Model.Layout
  Proofs.LayoutArith Proofs.LayoutRead.
Import ListNotations.
Open Scope N_scope.

(* ---------------------------------------------------------------- reading what was put *)

Lemma get32_put_at bs off d k : off + len d <= len bs -> k + 4 <= len d ->
  get32 (put bs off d) (off + k) = get32 d k.
Proof.
  intros H Hk. apply get32_ext2. intros j Hj. rewrite getb_put by exact H.
  replace ((off <=? off + k + j) && (off + k + j <? off + len d)) with true
    by (symmetry; apply andb_true_iff; split; [apply N.leb_le|apply N.ltb_lt]; lia).
  f_equal. lia.
Qed.

Lemma get32_put_at0 bs off d : off + len d <= len bs -> 4 <= len d ->
  get32 (put bs off d) off = get32 d 0.
Proof. intros H Hk. rewrite <- (get32_put_at bs off d 0 H) by lia. f_equal. lia. Qed.

Lemma slice_put_at bs off d k n : off + len d <= len bs -> k + n <= len d ->
  slice (put bs off d) (off + k) n = slice d k n.
Proof.
  intros H Hk. apply slice_ext2; [rewrite len_put by exact H; lia|lia|].
  intros j Hj. rewrite getb_put by exact H.
  replace ((off <=? off + k + j) && (off + k + j <? off + len d)) with true
    by (symmetry; apply andb_true_iff; split; [apply N.leb_le|apply N.ltb_lt]; lia).
  f_equal. lia.
Qed.

Lemma get32_app_r a b k : get32 (a ++ b) (len a + k) = get32 b k.
Proof. apply get32_ext2. intros j Hj. rewrite getb_app_r by lia. f_equal. lia. Qed.

Lemma slice_app_r a b n : n <= len b -> slice (a ++ b) (len a) n = slice b 0 n.
Proof.
  intro H. apply slice_ext2; [rewrite len_app; lia|lia|].
  intros j Hj. rewrite getb_app_r by lia. f_equal. lia.
Qed.

Lemma len_rec_block w h name : len (rec_block w h name) = 8 + len name.
Proof. unfold rec_block. rewrite !len_app, !len_le32. lia. Qed.

Lemma rec_block_word w h name : w < 4294967296 -> get32 (rec_block w h name) 0 = w.
Proof. intro H. unfold rec_block. now apply get32_le32. Qed.

Lemma rec_block_next w h name : h < 4294967296 -> get32 (rec_block w h name) 4 = h.
Proof.
  intro H. unfold rec_block. change 4 with (len (le32 w) + 0). rewrite get32_app_r. now apply get32_le32.
Qed.

Lemma rec_block_name w h name : slice (rec_block w h name) 8 (len name) = name.
Proof.
  unfold rec_block. rewrite app_assoc. change 8 with (len (le32 w ++ le32 h)).
  rewrite slice_app_r by lia. apply slice_all.
Qed.

(* ---------------------------------------------------------------- table update *)

Definition zip_upd (l : list N) (h : N) (x : rec) (tbl : list (list rec)) : list (list rec) :=
  map (fun ic => if fst ic =? h then x :: snd ic else snd ic) (combine l tbl).

Lemma zip_upd_notin l h x : forall tbl, ~ In h l -> length l = length tbl -> zip_upd l h x tbl = tbl.
Proof.
  unfold zip_upd. induction l as [|i l IH]; intros [|c tbl] Hn Hl; cbn in Hl; try discriminate; [reflexivity|].
  cbn [combine map fst snd]. destruct (N.eqb_spec i h) as [->|_]; [exfalso; apply Hn; now left|].
  f_equal. apply IH; [intro; apply Hn; now right|lia].
Qed.

Lemma Add_app_l {A} (x : A) c l l' : Add x l l' -> Add x (c ++ l) (c ++ l').
Proof. intro H. induction c as [|y c IH]; [exact H|]. cbn [app]. now constructor. Qed.

Lemma zip_upd_Add l h x : forall tbl, NoDup l -> In h l -> length l = length tbl ->
  Add x (concat tbl) (concat (zip_upd l h x tbl)).
Proof.
  induction l as [|i l IH]; intros [|c tbl] Hnd Hin Hl; cbn in Hl; try discriminate; [contradiction|].
  inversion Hnd as [|? ? Hni Hnd']; subst. unfold zip_upd. cbn [combine map fst snd concat].
  destruct (N.eqb_spec i h) as [->|Hne].
  - fold (zip_upd l h x tbl). rewrite zip_upd_notin by (try assumption; lia).
    cbn [app]. constructor.
  - fold (zip_upd l h x tbl). apply Add_app_l. apply IH; try assumption; [|lia].
    destruct Hin; [contradiction|assumption].
Qed.

Lemma Forall2_zip_upd (R R' : N -> list rec -> Prop) l h x tbl :
  Forall2 R l tbl ->
  (forall i c, In i l -> R i c -> R' i (if i =? h then x :: c else c)) ->
  Forall2 R' l (zip_upd l h x tbl).
Proof.
  intros H. induction H as [|i c l tbl Hr Hf IH]; intro Hs; [constructor|].
  unfold zip_upd. cbn [combine map fst snd]. constructor.
  - apply Hs; [now left|exact Hr].
  - apply IH. intros j d Hj. apply Hs. now right.
Qed.

Lemma Forall2_imp {A B} (R R' : A -> B -> Prop) l l' :
  Forall2 R l l' -> (forall a b, R a b -> R' a b) -> Forall2 R' l l'.
Proof. intros H Hi. induction H; constructor; auto. Qed.

Lemma Forall2_map_r {A B C} (R : A -> B -> Prop) (R' : A -> C -> Prop) (f : B -> C) l tbl :
  Forall2 R l tbl -> (forall i c, In i l -> In c tbl -> R i c -> R' i (f c)) ->
  Forall2 R' l (map f tbl).
Proof.
  intro H. induction H as [|i c l tbl Hr Hf IH]; intro Hs; [constructor|].
  cbn [map]. constructor.
  - apply Hs; [now left|now left|exact Hr].
  - apply IH. intros j d Hj Hd. apply Hs; now right.
Qed.

Lemma Forall2_in_l {A B} (R : A -> B -> Prop) l l' x :
  Forall2 R l l' -> In x l -> exists y, In y l' /\ R x y.
Proof.
  induction 1 as [|a b l l' Hr Hf IH]; [contradiction|]. intros [<-|H].
  - exists b. split; [now left|exact Hr].
  - destruct (IH H) as (y & Hy & Hr'). exists y. split; [now right|exact Hr'].
Qed.

Lemma Forall2_length_eq {A B} (R : A -> B -> Prop) l l' : Forall2 R l l' -> length l = length l'.
Proof. induction 1; cbn; congruence. Qed.

(* ---------------------------------------------------------------- S3: growing by zeros *)

Lemma grow_ok bs hdr meta kv limit tbl k :
  spec_read bs = Some (hdr, meta, kv, limit, tbl) -> (len bs + k) mod 16384 = 0 ->
  spec_read (bs ++ zeros k) = Some (hdr, meta, kv, limit, tbl).
Proof.
  intros H Hk. apply spec_read_inv in H.
  destruct H as (Eh & Ek & El & H1 & H2 & H3 & H4 & H5 & Ht & Hp).
  assert (Hlen : len (bs ++ zeros k) = len bs + k) by (rewrite len_app, len_zeros; reflexivity).
  apply spec_read_intro; try assumption; try (rewrite Hlen; lia).
  - eapply spec_header_frame; [exact Eh|rewrite Hlen; lia|apply agree_app_zeros].
  - rewrite El. apply get32_agree. apply agree_app_zeros.
  - eapply Forall2_imp; [exact Ht|]. intros i c Hb. unfold bucket_ok in *.
    rewrite <- (get32_agree bs (bs ++ zeros k)) by apply agree_app_zeros.
    apply spec_bucket_inv in Hb as [Hc Hh]. apply spec_bucket_intro; [|exact Hh].
    eapply spec_chain_frame; [|exact Hc]. intros off x Hx.
    eapply spec_record_frame; [exact Hx|lia|lia|rewrite Hlen; lia|apply agree_app_zeros].
Qed.

(* ---------------------------------------------------------------- S2: linking a record *)

Definition link_record (hdr : N) (bs : bytes) (s e nlword head : N) (name : bytes) : bytes :=
  put (put (put bs hdr (le32 e)) (s + 8) (rec_block nlword head name))
      (head_off hdr (hash name)) (le32 s).

Section Link.
  Variables (bs : bytes) (hdr : N) (meta : bytes) (kv : list (bytes * bytes)) (limit : N)
            (tbl : list (list rec)).
  Hypothesis Hread : spec_read bs = Some (hdr, meta, kv, limit, tbl).
  Variables (s e nlword : N) (name : bytes).
  Hypothesis Hname : 1 <= len name <= 4096.
  Hypothesis Hs32 : s mod 32 = 0.
  Hypothesis Hlim : (if limit =? 0 then first_off hdr else limit) <= s.
  Hypothesis He : e = s + rec_size (len name).
  Hypothesis Helen : e <= len bs.
  Hypothesis He32 : e < 4294967296.
  Hypothesis Hpage : s mod 16384 + rec_size (len name) <= 16352.
  Hypothesis Hw32 : nlword < 4294967296.
  Hypothesis Hwlen : nlword mod 16777216 = len name.
  Hypothesis Hfresh : forall r, In r (concat tbl) -> r_name r <> name.

  Let h := hash name.
  Let ho := head_off hdr h.
  Let head := get32 bs ho.
  Let bs1 := put bs hdr (le32 e).
  Let bs2 := put bs1 (s + 8) (rec_block nlword head name).
  Let bs' := put bs2 ho (le32 s).

  Lemma link_facts :
    spec_header bs = Some (hdr, meta) /\ meta_kv meta = Some kv /\ limit = get32 bs hdr /\
    len bs mod 16384 = 0 /\ 16384 <= len bs /\ limit <= len bs /\ 0 <= limit /\
    (limit = 0 \/ first_off hdr <= limit) /\
    Forall2 (bucket_ok bs hdr limit) buckets tbl /\ pairwise rec_compat (concat tbl) = true /\
    (32 <= hdr /\ hdr + 2052 <= len bs) /\ h < 512 /\ first_off hdr <= s /\ limit <= s /\
    32 <= rec_size (len name) <= 4128 /\ 16 + len name <= rec_size (len name) /\
    rec_size (len name) mod 32 = 0.
  Proof.
    pose proof (spec_read_inv _ _ _ _ _ _ Hread) as (Eh & Ek & El & H1 & H2 & H3 & H4 & H5 & Ht & Hp).
    pose proof (spec_header_inv _ _ _ Eh) as (_ & _ & Hb & _ & Hfit & _).
    pose proof (rec_size_bounds _ Hname) as (R1 & R2 & R3).
    pose proof (hash_lt name) as Hh. fold h in Hh.
    repeat split; try assumption; try lia.
    - destruct (N.eqb_spec limit 0); lia.
    - destruct (N.eqb_spec limit 0); [lia|]. lia.
  Qed.

  Lemma ho_bounds : hdr + 4 <= ho /\ ho + 4 <= hdr + 2052.
  Proof.
    destruct link_facts as (_&_&_&_&_&_&_&_&_&_&_&?&_). unfold ho. rewrite head_off_val. lia.
  Qed.

  Lemma link_len1 : len bs1 = len bs.
  Proof. destruct link_facts as (_&_&_&_&?&_&_&_&_&_&?&_). unfold bs1. rewrite len_put; rewrite ?len_le32; lia. Qed.
  Lemma link_len2 : len bs2 = len bs.
  Proof.
    destruct link_facts as (_&_&_&_&?&_&_&_&_&_&?&_&?&_&?&?&_).
    unfold bs2. rewrite len_put; rewrite ?len_rec_block, ?link_len1; lia.
  Qed.
  Lemma link_len : len bs' = len bs.
  Proof.
    destruct link_facts as (_&_&_&_&?&_&_&_&_&_&?&?&_).
    pose proof ho_bounds.
    unfold bs'. rewrite len_put; rewrite ?len_le32, ?link_len2; [reflexivity|lia].
  Qed.

  (* bs and bs' agree away from the three writes *)
  Lemma link_agree lo hi :
    (hi <= hdr \/ hdr + 4 <= lo) -> (hi <= s + 8 \/ s + 16 + len name <= lo) ->
    (hi <= ho \/ ho + 4 <= lo) -> agree bs bs' lo hi.
  Proof.
    intros A1 A2 A3.
    destruct link_facts as (_&_&_&_&?&_&_&_&_&_&?&?&?&_&?&?&_).
    apply (agree_trans _ bs1); [|apply (agree_trans _ bs2)].
    - unfold bs1. apply agree_put; [rewrite len_le32; lia|rewrite len_le32; exact A1].
    - unfold bs2. apply agree_put; rewrite len_rec_block; [rewrite link_len1; lia|].
      destruct A2; [left; lia|right; lia].
    - pose proof ho_bounds. unfold bs'. apply agree_put; rewrite len_le32; [|exact A3].
      rewrite link_len2. lia.
  Qed.

  Lemma link_limit : get32 bs' hdr = e.
  Proof.
    destruct link_facts as (_&_&_&_&?&_&_&_&_&_&?&?&?&_&?&?&_).
    pose proof ho_bounds as Hho.
    pose proof (first_off_val hdr) as Efo.
    unfold bs'. rewrite get32_put_other by (rewrite ?len_le32, ?link_len2; lia).
    unfold bs2. rewrite get32_put_other by (rewrite ?len_rec_block, ?link_len1; lia).
    unfold bs1. apply get32_put_same; lia.
  Qed.

  Lemma link_head : get32 bs' ho = s.
  Proof.
    destruct link_facts as (_&_&_&_&?&_&_&_&_&_&?&?&_).
    pose proof ho_bounds as Hho.
    unfold bs'. apply get32_put_same; rewrite ?link_len2; lia.
  Qed.

  Lemma head_lt : head < 4294967296.
  Proof.
    destruct link_facts as (_&_&_&_&?&Hll&_&_&Ht&_&?&Hh&_&Hls&?&_).
    assert (Hi : In h buckets) by (apply buckets_in; exact Hh).
    destruct (Forall2_in_l _ _ _ _ Ht Hi) as (c & _ & Hb).
    unfold bucket_ok in Hb. fold ho in Hb. fold head in Hb.
    apply spec_bucket_inv in Hb as [Hc _].
    destruct (N.eqb_spec head 0) as [->|Hz]; [lia|].
    destruct (chain_fuel limit) as [|f]; cbn [spec_chain] in Hc.
    - destruct (N.eqb_spec head 0); [contradiction|discriminate].
    - destruct (N.eqb_spec head 0); [contradiction|].
      destruct (spec_record bs hdr limit head) as [[[nm nx] v]|] eqn:E; [|discriminate].
      apply spec_record_inv in E. cbv zeta in E. destruct E as (_ & _ & _ & E & _).
      assert (head <= limit) by (eapply N.le_trans; [|exact E]; rewrite <- N.add_assoc; apply N.le_add_r). lia.
  Qed.

  Lemma link_new_record :
    spec_record bs' hdr e s = Some (name, head, get64 bs s).
  Proof.
    destruct link_facts as (_&_&_&_&?&_&_&_&_&_&?&?&?&?&?&?&?).
    pose proof ho_bounds as Hho.
    pose proof (first_off_val hdr) as Efo.
    assert (E8 : get32 bs' (s + 8) = nlword).
    { unfold bs'. rewrite get32_put_other by (rewrite ?len_le32, ?link_len2; lia).
      unfold bs2.
      rewrite get32_put_at0 by (rewrite ?len_rec_block, ?link_len1; lia).
      now apply rec_block_word. }
    pose proof (spec_record_intro bs' hdr e s) as I. cbv zeta in I. rewrite E8, Hwlen in I.
    rewrite I by (try assumption; lia).
    f_equal. f_equal; [f_equal|].
    - unfold bs'. rewrite slice_put_other by (rewrite ?len_le32, ?link_len2; lia).
      unfold bs2. replace (s + 16) with (s + 8 + 8) by lia.
      rewrite slice_put_at by (rewrite ?len_rec_block, ?link_len1; lia).
      apply rec_block_name.
    - unfold bs'. rewrite get32_put_other by (rewrite ?len_le32, ?link_len2; lia).
      unfold bs2. replace (s + 12) with (s + 8 + 4) by lia.
      rewrite get32_put_at by (rewrite ?len_rec_block, ?link_len1; lia).
      apply rec_block_next. apply head_lt.
    - symmetry. apply get64_agree. apply link_agree; lia.
  Qed.

  Lemma link_old_records off x :
    spec_record bs hdr limit off = Some x -> spec_record bs' hdr e off = Some x.
  Proof.
    intro Hx. destruct link_facts as (_&_&_&_&?&?&_&_&_&_&?&?&?&?&?&?&?).
    pose proof ho_bounds as Hho.
    eapply spec_record_frame; [exact Hx|lia|lia|rewrite link_len; lia|].
    pose proof (first_off_val hdr) as Efo. apply link_agree; lia.
  Qed.

  Lemma chain_fuel_step : (S (chain_fuel limit) <= chain_fuel e)%nat.
  Proof.
    destruct link_facts as (_&_&_&_&_&_&_&_&_&_&_&_&_&?&?&_&?).
    unfold chain_fuel. change c_recordUnit with 32.
    pose proof Hs32 as Hs32'. pose proof He as He'.
    assert (limit / 32 + 1 <= e / 32) by divlia. lia.
  Qed.

  Theorem link_ok :
    spec_read bs' = Some (hdr, meta, kv, e, zip_upd buckets h (s, name, get64 bs s) tbl) /\
    Add (s, name, get64 bs s) (concat tbl) (concat (zip_upd buckets h (s, name, get64 bs s) tbl)).
  Proof.
    pose proof link_facts as (Eh & Ek & El & H1 & H2 & H3 & H4 & H5 & Ht & Hp & Hhdr & Hh & Hfs & Hls & R1 & R2 & R3).
    pose proof ho_bounds as Hho.
    assert (HAdd : Add (s, name, get64 bs s) (concat tbl)
                       (concat (zip_upd buckets h (s, name, get64 bs s) tbl))).
    { apply zip_upd_Add; [apply buckets_nodup|now apply buckets_in|now apply Forall2_length_eq in Ht]. }
    split; [|exact HAdd].
    apply spec_read_intro; try assumption; rewrite ?link_len; try assumption; try lia.
    - eapply spec_header_frame; [exact Eh|rewrite link_len; lia|].
      pose proof (first_off_val hdr) as Efo. apply link_agree; lia.
    - symmetry. apply link_limit.
    - (* the table *)
      eapply Forall2_zip_upd; [exact Ht|]. intros i c Hi Hb. unfold bucket_ok in *.
      apply buckets_in in Hi.
      apply spec_bucket_inv in Hb as [Hc Hhash].
      destruct (N.eqb_spec i h) as [->|Hne].
      + fold ho. rewrite link_head. apply spec_bucket_intro.
        * pose proof chain_fuel_step as Hf.
          destruct (chain_fuel e) as [|f] eqn:Ef; [lia|].
          rewrite spec_chain_S by (pose proof (first_off_val hdr); lia).
          rewrite link_new_record.
          fold ho in Hc. fold head in Hc.
          rewrite (spec_chain_mono _ _ _ _ _ _ f (spec_chain_frame _ _ _ _ _ _ link_old_records _ _ Hc)) by lia.
          reflexivity.
        * constructor; [reflexivity|exact Hhash].
      + assert (Eg : get32 bs' (head_off hdr i) = get32 bs (head_off hdr i)).
        { symmetry. apply get32_agree. pose proof (first_off_val hdr) as Efo.
          pose proof (head_off_val hdr i) as Ei. pose proof (head_off_val hdr h) as Eh'. fold ho in Eh'.
          apply link_agree; lia. }
        rewrite Eg. apply spec_bucket_intro; [|exact Hhash].
        eapply spec_chain_mono; [eapply spec_chain_frame; [exact link_old_records|exact Hc]|].
        pose proof chain_fuel_step. lia.
    - (* pairwise *)
      eapply pairwise_Add; [exact rec_compat_sym|exact HAdd|exact Hp|].
      apply forallb_forall. intros r Hr.
      pose proof (wf_record_in _ _ _ _ _ Ht Hr) as [Hin _].
      pose proof (rec_in_facts _ _ _ _ Hin H3) as (_ & _ & _ & Hend & _).
      unfold rec_compat. apply andb_true_iff. split.
      + apply orb_true_iff. right. apply N.leb_le. change (r_off (s, name, get64 bs s)) with s.
        pose proof (rec_in_facts _ _ _ _ Hin H3) as (Ho32 & _).
        pose proof Hs32 as Hs32'. unfold r_end, rec_size.
        set (a := r_off r) in *. set (b := len (r_name r)) in *. clearbody a b. divlia.
      + apply negb_true_iff. apply beq_neq. change (r_name (s, name, get64 bs s)) with name.
        intro X. apply (Hfresh r Hr). now symmetry.
  Qed.

  Theorem link_all :
    spec_read bs' = Some (hdr, meta, kv, e, zip_upd buckets h (s, name, get64 bs s) tbl) /\
    Add (s, name, get64 bs s) (concat tbl) (concat (zip_upd buckets h (s, name, get64 bs s) tbl)) /\
    len bs' = len bs /\
    (forall lo hi, (hi <= hdr \/ hdr + 4 <= lo) -> (hi <= s + 8 \/ s + 16 + len name <= lo) ->
                   (hi <= ho \/ ho + 4 <= lo) -> agree bs bs' lo hi) /\
    hdr + 4 <= ho /\ ho + 4 <= hdr + 2052.
  Proof.
    destruct link_ok as [A B]. pose proof ho_bounds as [C D].
    repeat split; try assumption; [apply link_len|apply link_agree].
  Qed.
End Link.

(* ---------------------------------------------------------------- S1: storing a value *)

Definition setval (off v : N) (r : rec) : rec :=
  if r_off r =? off then (r_off r, r_name r, v) else r.

Lemma setval_off off v r : r_off (setval off v r) = r_off r.
Proof. unfold setval. destruct (_ =? _); reflexivity. Qed.
Lemma setval_name off v r : r_name (setval off v r) = r_name r.
Proof. unfold setval. destruct (_ =? _); reflexivity. Qed.

Section SetVal.
  Variables (bs : bytes) (hdr : N) (meta : bytes) (kv : list (bytes * bytes)) (limit : N)
            (tbl : list (list rec)).
  Hypothesis Hread : spec_read bs = Some (hdr, meta, kv, limit, tbl).
  Variables (r0 : rec) (v : N).
  Hypothesis Hin : In r0 (concat tbl).
  Hypothesis Hv : v < 18446744073709551616.

  Let off := r_off r0.
  Let bs' := put bs off (le64 v).

  Lemma setval_facts :
    spec_header bs = Some (hdr, meta) /\ meta_kv meta = Some kv /\ limit = get32 bs hdr /\
    len bs mod 16384 = 0 /\ 16384 <= len bs /\ limit <= len bs /\ 0 <= limit /\
    (limit = 0 \/ first_off hdr <= limit) /\
    Forall2 (bucket_ok bs hdr limit) buckets tbl /\ pairwise rec_compat (concat tbl) = true /\
    (32 <= hdr /\ hdr + 2052 <= len bs) /\ first_off hdr <= off /\ off + 16 + len (r_name r0) <= r_end r0 /\
    off + 16 + len (r_name r0) <= limit /\ len bs' = len bs.
  Proof.
    pose proof (spec_read_inv _ _ _ _ _ _ Hread) as (Eh & Ek & El & H1 & H2 & H3 & H4 & H5 & Ht & Hp).
    pose proof (spec_header_inv _ _ _ Eh) as (_ & _ & Hb & _ & Hfit & _).
    pose proof (wf_record_in _ _ _ _ _ Ht Hin) as [Hri _].
    pose proof (rec_in_facts _ _ _ _ Hri H3) as (F1 & F2 & F3 & F4 & _).
    pose proof (rec_size_bounds _ F3) as (R1 & R2 & R3).
    assert (off + 16 + len (r_name r0) <= r_end r0) by (unfold r_end, off; lia).
    repeat split; try assumption; try lia.
    unfold bs'. apply len_put. rewrite len_le64. unfold off. lia.
  Qed.

  Lemma setval_agree lo hi : hi <= off \/ off + 8 <= lo -> agree bs bs' lo hi.
  Proof.
    intro A. destruct setval_facts as (_&_&_&_&?&?&_&_&_&_&_&?&?&?&_).
    unfold bs'. apply agree_put; rewrite len_le64; [lia|exact A].
  Qed.

  (* the record that is written *)
  Lemma setval_same next :
    spec_record bs hdr limit off = Some (r_name r0, next, r_val r0) ->
    spec_record bs' hdr limit off = Some (r_name r0, next, v).
  Proof.
    intro Hx. destruct setval_facts as (_&_&_&_&?&?&_&_&_&_&_&?&?&?&Hl).
    pose proof (spec_record_inv _ _ _ _ _ _ _ Hx) as I. cbv zeta in I.
    destruct I as (I1 & I2 & I3 & I4 & I5 & I6 & I7 & I8).
    set (nl := get32 bs (off + 8) mod 16777216) in *.
    pose proof (rec_size_bounds _ I3) as (R1 & R2 & R3).
    assert (E8 : get32 bs' (off + 8) = get32 bs (off + 8)).
    { symmetry. apply get32_agree. apply setval_agree. lia. }
    pose proof (spec_record_intro bs' hdr limit off) as J. cbv zeta in J. rewrite E8 in J. fold nl in J.
    rewrite J by (try assumption; lia).
    f_equal. f_equal; [f_equal|].
    - rewrite I6. symmetry. apply slice_agree; try lia. apply setval_agree. lia.
    - rewrite I7. symmetry. apply get32_agree. apply setval_agree. lia.
    - unfold bs'. apply get64_put_same; lia.
  Qed.

  (* every other record of the file lies outside the eight bytes written *)
  Lemma setval_other r x :
    In r (concat tbl) -> r_off r <> off ->
    spec_record bs hdr limit (r_off r) = Some x -> spec_record bs' hdr limit (r_off r) = Some x.
  Proof.
    intros Hr Hne Hx.
    destruct setval_facts as (_&_&_&_&?&H3&_&_&Ht&Hp&_&?&?&?&Hl).
    pose proof (wf_record_in _ _ _ _ _ Ht Hr) as [Hri _].
    pose proof (rec_in_facts _ _ _ _ Hri H3) as (F1 & F2 & F3 & F4 & _).
    pose proof (rec_size_bounds _ F3) as (R1 & R2 & R3).
    destruct (pairwise_In _ _ _ _ rec_compat_sym Hp Hin Hr) as [->|C]; [contradiction|].
    unfold rec_compat in C. apply andb_true_iff in C as [C _]. apply orb_true_iff in C.
    destruct x as [[nm nx] vv].
    pose proof (spec_record_inv _ _ _ _ _ _ _ Hx) as I. cbv zeta in I.
    destruct I as (I1 & I2 & I3 & I4 & I5 & I6 & I7 & I8).
    set (nl := get32 bs (r_off r + 8) mod 16777216) in *.
    pose proof (rec_size_bounds _ I3) as (S1 & S2 & S3).
    assert (A : agree bs bs' (r_off r) (r_off r + rec_size nl)).
    { apply setval_agree. unfold r_end in *. fold off in C.
      assert (Enl : len (r_name r) = nl).
      { destruct Hri as [nx' Hri]. rewrite Hx in Hri. injection Hri as E _ _. rewrite <- E, I6.
        apply len_slice. lia. }
      rewrite Enl in C. destruct C as [C|C]; apply N.leb_le in C; lia. }
    assert (E8 : get32 bs' (r_off r + 8) = get32 bs (r_off r + 8)).
    { symmetry. apply get32_agree. eapply agree_sub; [exact A|lia|lia]. }
    pose proof (spec_record_intro bs' hdr limit (r_off r)) as J. cbv zeta in J. rewrite E8 in J. fold nl in J.
    rewrite J by (try assumption; lia).
    f_equal. f_equal; [f_equal|].
    - rewrite I6. symmetry. apply slice_agree; try lia. eapply agree_sub; [exact A|lia|lia].
    - rewrite I7. symmetry. apply get32_agree. eapply agree_sub; [exact A|lia|lia].
    - rewrite I8. symmetry. apply get64_agree. eapply agree_sub; [exact A|lia|lia].
  Qed.

  Lemma setval_chain f : forall o c,
    spec_chain f bs hdr limit o = Some c -> (forall r, In r c -> In r (concat tbl)) ->
    spec_chain f bs' hdr limit o = Some (map (setval off v) c).
  Proof.
    induction f as [|f IH]; intros o c H Hsub.
    - cbn [spec_chain] in *. destruct (o =? 0); [injection H as <-; reflexivity|discriminate].
    - destruct (N.eqb_spec o 0) as [->|Hz].
      + rewrite spec_chain_0 in *. injection H as <-. reflexivity.
      + rewrite spec_chain_S in * by exact Hz.
        destruct (spec_record bs hdr limit o) as [[[nm nx] vv]|] eqn:E; [|discriminate].
        destruct (spec_chain f bs hdr limit nx) as [c'|] eqn:E2; [|discriminate].
        injection H as <-. cbn [map].
        assert (Hr : In (o, nm, vv) (concat tbl)) by (apply Hsub; now left).
        pose proof (IH _ _ E2 (fun r Hr' => Hsub r (or_intror Hr'))) as IH2.
        unfold setval at 1. change (r_off (o, nm, vv)) with o.
        destruct (N.eqb_spec o off) as [Eo|Hne].
        * (* this is the record written: by pairwise compatibility it is r0 itself *)
          subst o.
          destruct setval_facts as (_&_&_&_&_&H3&_&_&Ht&Hp&_).
          destruct (pairwise_In _ _ _ _ rec_compat_sym Hp Hin Hr) as [Er|C].
          -- assert (En : r_name r0 = nm) by (rewrite Er; reflexivity).
             assert (Ev : r_val r0 = vv) by (rewrite Er; reflexivity).
             rewrite <- En, <- Ev in E.
             rewrite (setval_same nx E). rewrite IH2.
             change (r_name (off, nm, vv)) with nm. rewrite En. reflexivity.
          -- exfalso. unfold rec_compat in C. apply andb_true_iff in C as [C _].
             apply orb_true_iff in C. unfold r_end in C. fold off in C.
             change (r_off (off, nm, vv)) with off in C. change (r_name (off, nm, vv)) with nm in C.
             pose proof (wf_record_in _ _ _ _ _ Ht Hin) as [Hri _].
             pose proof (rec_in_facts _ _ _ _ Hri H3) as (_ & _ & F3 & _).
             pose proof (rec_size_bounds _ F3) as (R1 & _).
             pose proof (wf_record_in _ _ _ _ _ Ht Hr) as [Hri' _].
             pose proof (rec_in_facts _ _ _ _ Hri' H3) as (_ & _ & F3' & _).
             change (r_name (off, nm, vv)) with nm in F3'.
             pose proof (rec_size_bounds _ F3') as (R1' & _).
             destruct C as [C|C]; apply N.leb_le in C; lia.
        * pose proof (setval_other (o, nm, vv) (nm, nx, vv) Hr Hne E) as Eo'.
          change (r_off (o, nm, vv)) with o in Eo'. rewrite Eo', IH2. reflexivity.
  Qed.

  Theorem setval_ok :
    spec_read bs' = Some (hdr, meta, kv, limit, map (map (setval off v)) tbl).
  Proof.
    pose proof setval_facts as (Eh & Ek & El & H1 & H2 & H3 & H4 & H5 & Ht & Hp & Hhdr & Hfo & Hro & Hre & Hl).
    apply spec_read_intro; rewrite ?Hl; try assumption.
    - eapply spec_header_frame; [exact Eh|rewrite Hl; lia|]. apply setval_agree.
      pose proof (first_off_val hdr) as Efo. lia.
    - rewrite El. apply get32_agree. apply setval_agree. pose proof (first_off_val hdr) as Efo. lia.
    - (* table *)
      eapply Forall2_map_r; [exact Ht|]. intros i c Hi Hc Hb. unfold bucket_ok in *.
      apply buckets_in in Hi.
      assert (Eg : get32 bs' (head_off hdr i) = get32 bs (head_off hdr i)).
      { symmetry. apply get32_agree. apply setval_agree. rewrite head_off_val. pose proof (first_off_val hdr) as Efo. lia. }
      rewrite Eg. apply spec_bucket_inv in Hb as [Hch Hh]. apply spec_bucket_intro.
      + apply setval_chain; [exact Hch|]. intros r Hr. apply in_concat. exists c. split; assumption.
      + apply Forall_forall. intros r Hr. apply in_map_iff in Hr as (r' & <- & Hr').
        rewrite setval_name. rewrite Forall_forall in Hh. now apply Hh.
    - (* pairwise *)
      rewrite <- concat_map. rewrite pairwise_map; [exact Hp|].
      intros a b. unfold rec_compat, r_end. now rewrite !setval_off, !setval_name.
  Qed.

  Theorem setval_all :
    spec_read bs' = Some (hdr, meta, kv, limit, map (map (setval off v)) tbl) /\
    len bs' = len bs /\ first_off hdr <= off /\ off + 8 <= limit /\ limit <= len bs.
  Proof.
    pose proof setval_facts as (_&_&_&_&_&?&_&_&_&_&_&?&?&?&?).
    pose proof setval_ok. repeat split; try assumption; lia.
  Qed.
End SetVal.
