(* Proofs about Model/Mode: literals, Format/Parse of any year, SetModeAsOf's
   acceptance condition, the set/get round trip. *)
From Coq Require Import String.
From Coq Require Import List ZArith NArith Bool Lia.
From Tele Require Import Lib.Bytes Lib.Calendar Proofs.CalendarFacts Gen.Consts Model.Mode.
Import ListNotations.
Open Scope Z_scope.

(* ---- the spelled-out literals are the strings they stand for ---- *)
Lemma literals_mode :
  m_on = s2b "on" /\ m_off = s2b "off" /\ m_local = s2b "local" /\
  c_DateOnly = s2b "2006-01-02" /\ fmt_date zero_day = s2b "0001-01-01".
Proof. repeat split; vm_compute; reflexivity. Qed.

Lemma valid_mode_cases m : valid_mode m = true <-> m = m_on \/ m = m_off \/ m = m_local.
Proof.
  unfold valid_mode. rewrite !orb_true_iff, !beq_eq. tauto.
Qed.

(* ---- decimal rendering: digits, length ---- *)
Lemma dec_digits_acc f : forall n acc, dec_digits f n acc = (dec_digits f n [] ++ acc)%list.
Proof.
  induction f as [|f IH]; intros n acc; cbn [dec_digits]; [reflexivity|].
  destruct (n <? 10)%N; [reflexivity|].
  rewrite IH. rewrite (IH _ [_]). rewrite <- app_assoc. reflexivity.
Qed.

Lemma is_digit_small n : (n < 10)%N -> is_digit (48 + n) = true.
Proof. intros H. unfold is_digit. apply andb_true_iff. split; apply N.leb_le; lia. Qed.

Lemma dec_digits_all f : forall n, all_digits (dec_digits f n []) = true.
Proof.
  induction f as [|f IH]; intros n; cbn [dec_digits]; [reflexivity|].
  destruct (N.ltb_spec n 10) as [H|H].
  - cbn [all_digits forallb]. rewrite is_digit_small by exact H. reflexivity.
  - rewrite dec_digits_acc. unfold all_digits. rewrite forallb_app. fold (all_digits (dec_digits f (n / 10) [])).
    rewrite IH. cbn [forallb]. rewrite is_digit_small; [reflexivity|].
    apply N.mod_lt. lia.
Qed.

Lemma dec_digits_len k : forall f n, (10 ^ N.of_nat k <= n)%N -> (k < f)%nat ->
  (k < length (dec_digits f n []))%nat.
Proof.
  induction k as [|k IH]; intros f n Hn Hf.
  - destruct f as [|f]; [lia|]. cbn [dec_digits]. destruct (n <? 10)%N; [cbn; lia|].
    rewrite dec_digits_acc, app_length. cbn. lia.
  - destruct f as [|f]; [lia|]. cbn [dec_digits].
    rewrite Nat2N.inj_succ, N.pow_succ_r' in Hn.
    assert (H1 : (1 <= 10 ^ N.of_nat k)%N).
    { change 1%N with (10 ^ 0)%N. apply N.pow_le_mono_r; lia. }
    destruct (N.ltb_spec n 10) as [H|H]; [lia|].
    rewrite dec_digits_acc, app_length. cbn [length].
    assert (k < length (dec_digits f (n / 10) []))%nat; [|lia].
    apply IH; [|lia]. apply N.div_le_lower_bound; lia.
Qed.

Lemma pad_left_long w s : (w <= length s)%nat -> pad_left w s = s.
Proof. intros H. unfold pad_left. replace (w - length s)%nat with O by lia. reflexivity. Qed.

Lemma dec_pad4_big n : (10000 <= n)%N ->
  all_digits (dec_pad 4 n) = true /\ (5 <= length (dec_pad 4 n))%nat.
Proof.
  intros H. unfold dec_pad, dec_of_N.
  pose proof (dec_digits_len 4 40 n ltac:(exact H) ltac:(lia)) as L.
  rewrite pad_left_long by lia. split; [apply dec_digits_all | lia].
Qed.

Lemma nth_digits q r : all_digits q = true -> (5 <= length q)%nat -> is_digit (nth_byte (q ++ r) 4) = true.
Proof.
  intros A L. unfold nth_byte. rewrite app_nth1 by lia.
  unfold all_digits in A. rewrite forallb_forall in A. apply A. apply nth_In. lia.
Qed.

(* ---- Format(DateOnly) then Parse(DateOnly): exactly the years 0..9999 ---- *)
Lemma parse_fixed_dash n t : parse_fixed n (dash :: t) = None.
Proof.
  unfold parse_fixed. cbn [all_digits forallb]. change (is_digit dash) with false.
  cbn [andb]. rewrite andb_false_r. reflexivity.
Qed.

Lemma parse_neg_year t : parse_date (dash :: t) = None.
Proof.
  unfold parse_date. destruct (Nat.eqb _ _); [|reflexivity].
  destruct t as [|a [|b [|c t]]]; cbn [sub skipn firstn]; rewrite parse_fixed_dash; reflexivity.
Qed.

Lemma parse_big_year q r : all_digits q = true -> (5 <= length q)%nat -> parse_date (q ++ r) = None.
Proof.
  intros A L. unfold parse_date. destruct (Nat.eqb _ _); [|reflexivity].
  destruct (parse_fixed 4 _); [|reflexivity].
  destruct (parse_fixed 2 _); [|reflexivity].
  destruct (parse_fixed 2 _); [|reflexivity].
  pose proof (nth_digits q r A L) as D.
  destruct (N.eqb_spec (nth_byte (q ++ r) 4) dash) as [E|E].
  - rewrite E in D. discriminate.
  - reflexivity.
Qed.

Lemma go_fmt_date_in_range day :
  let '(y, m, d) := civil_from_days day in
  0 <= y <= 9999 -> go_fmt_date day = fmt_date day.
Proof.
  unfold go_fmt_date, fmt_date, fmt_ymd, go_fmt_year.
  destruct (civil_from_days day) as [[y m] d]. intros H.
  destruct (Z.ltb_spec y 0); [lia | reflexivity].
Qed.

Theorem fmt_parse_any_year day :
  let '(y, _, _) := civil_from_days day in
  (0 <= y <= 9999 -> parse_date (go_fmt_date day) = Some day /\ go_fmt_date day = fmt_date day) /\
  (~ 0 <= y <= 9999 -> parse_date (go_fmt_date day) = None).
Proof.
  pose proof (go_fmt_date_in_range day) as G.
  pose proof (civil_roundtrip day) as R.
  unfold go_fmt_date, go_fmt_year, fmt_date in *.
  destruct (civil_from_days day) as [[y m] d]. destruct R as [R V].
  split.
  - intros H. rewrite (G H). destruct (parse_fmt_ymd y m d ltac:(lia) V) as [P _].
    rewrite P, R. split; reflexivity.
  - intros H. destruct (Z.ltb_spec y 0) as [Hn|Hn].
    + apply parse_neg_year.
    + assert (Hb : (10000 <= Z.to_N y)%N) by lia.
      destruct (dec_pad4_big _ Hb) as [A L]. apply parse_big_year; assumption.
Qed.

(* ---- TrimSpace leaves "mode date" alone ---- *)
Lemma trim_left_noop pats fuel s : first_prefix s pats = None -> trim_left_fuel_pats pats fuel s = s.
Proof. intros H. destruct fuel; cbn [trim_left_fuel_pats]; [reflexivity | rewrite H; reflexivity]. Qed.

Definition head_differs (c : N) (p : bytes) : bool :=
  match p with [] => false | k :: _ => negb (N.eqb c k) end.

Lemma first_prefix_none c t pats : forallb (head_differs c) pats = true -> first_prefix (c :: t) pats = None.
Proof.
  induction pats as [|p pats IH]; intros H; [reflexivity|].
  cbn [forallb] in H. apply andb_true_iff in H as [H1 H2].
  cbn [first_prefix]. destruct p as [|k p]; [discriminate|].
  cbn [head_differs] in H1. cbn [has_prefix].
  destruct (N.eqb c k); [discriminate|]. cbn [andb]. apply IH. exact H2.
Qed.

Lemma digit_cases c : is_digit c = true ->
  (c = 48 \/ c = 49 \/ c = 50 \/ c = 51 \/ c = 52 \/ c = 53 \/ c = 54 \/ c = 55 \/ c = 56 \/ c = 57)%N.
Proof.
  unfold is_digit. intros H. apply andb_true_iff in H as [H1 H2].
  apply N.leb_le in H1. apply N.leb_le in H2. lia.
Qed.

Lemma digit_not_space_end c t : is_digit c = true -> first_prefix (c :: t) space_seqs_rev = None.
Proof.
  intros H. apply first_prefix_none.
  destruct (digit_cases c H) as [->|[->|[->|[->|[->|[->|[->|[->|[->| ->]]]]]]]]]; vm_compute; reflexivity.
Qed.

Lemma trim_space_noop c t d : forallb (head_differs c) space_seqs = true -> is_digit d = true ->
  trim_space (c :: t ++ [d]) = c :: t ++ [d].
Proof.
  intros Hc Hd. unfold trim_space.
  rewrite (trim_left_noop space_seqs _ (c :: t ++ [d])) by (apply first_prefix_none; exact Hc).
  replace (rev (c :: t ++ [d])) with (d :: rev (c :: t)).
  2:{ change (c :: t ++ [d]) with ((c :: t) ++ [d])%list. rewrite rev_app_distr. reflexivity. }
  rewrite (trim_left_noop space_seqs_rev _ (d :: rev (c :: t))) by (apply digit_not_space_end; exact Hd).
  change (d :: rev (c :: t)) with (rev [d] ++ rev (c :: t))%list.
  rewrite <- rev_app_distr, rev_involutive. reflexivity.
Qed.

(* the rendering of a date in range: ten bytes, ending in a digit, no space *)
Lemma fmt_ymd_shape y m d : 0 <= y < 10000 -> valid_civil y m d = true ->
  exists a b c e m1 m2 d1 d2,
    fmt_ymd y m d = [a; b; c; e; dash; m1; m2; dash; d1; d2] /\ all_digits [a; b; c; e; m1; m2; d1; d2] = true.
Proof.
  intros Hy Hv. pose proof (valid_civil_bounds _ _ _ Hv) as [Hm Hd].
  destruct (d4_spec y Hy) as (a & b & c & e & E4 & D4 & _).
  destruct (d2_spec m ltac:(lia)) as (m1 & m2 & Em & Dm & _).
  destruct (d2_spec d ltac:(lia)) as (d1 & d2 & Ed & Dd & _).
  exists a, b, c, e, m1, m2, d1, d2. unfold fmt_ymd. rewrite E4, Em, Ed. split; [reflexivity|].
  cbn [all_digits forallb] in *.
  repeat (match goal with H : _ && _ = true |- _ => apply andb_true_iff in H as [? ?] end).
  repeat (match goal with H : is_digit _ = true |- _ => rewrite H; clear H end). reflexivity.
Qed.

Lemma is_digit_not_space c : is_digit c = true -> N.eqb c space = false.
Proof. intros H. destruct (digit_cases c H) as [->|[->|[->|[->|[->|[->|[->|[->|[->| ->]]]]]]]]]; reflexivity. Qed.

Lemma parse_mode_written m date day :
  m = m_on \/ m = m_off \/ m = m_local ->
  (exists a b c e m1 m2 d1 d2,
      date = [a; b; c; e; dash; m1; m2; dash; d1; d2] /\ all_digits [a; b; c; e; m1; m2; d1; d2] = true) ->
  parse_date date = Some day ->
  parse_mode (Some (m ++ [space] ++ date)) = (m, Some day).
Proof.
  intros Hm (a & b & c & e & m1 & m2 & d1 & d2 & -> & D) P.
  cbn [all_digits forallb] in D.
  repeat (match goal with H : _ && _ = true |- _ => apply andb_true_iff in H as [? ?] end).
  unfold parse_mode.
  assert (T : forall x t, forallb (head_differs x) space_seqs = true ->
            trim_space (x :: t ++ [space; a; b; c; e; dash; m1; m2; dash; d1; d2]) =
            x :: t ++ [space; a; b; c; e; dash; m1; m2; dash; d1; d2]).
  { intros x t Hx.
    replace (t ++ [space; a; b; c; e; dash; m1; m2; dash; d1; d2])%list
      with ((t ++ [space; a; b; c; e; dash; m1; m2; dash; d1]) ++ [d2])%list
      by (rewrite <- app_assoc; reflexivity).
    apply trim_space_noop; assumption. }
  destruct Hm as [-> | [-> | ->]].
  - change (m_on ++ [space] ++ [a; b; c; e; dash; m1; m2; dash; d1; d2])%list
      with (111%N :: [110%N] ++ [space; a; b; c; e; dash; m1; m2; dash; d1; d2])%list.
    rewrite T by (vm_compute; reflexivity).
    cbn [app index_byte]. change (N.eqb 111 space) with false. change (N.eqb 110 space) with false.
    change (N.eqb space space) with true. cbn [firstn skipn]. rewrite P. reflexivity.
  - change (m_off ++ [space] ++ [a; b; c; e; dash; m1; m2; dash; d1; d2])%list
      with (111%N :: [102%N; 102%N] ++ [space; a; b; c; e; dash; m1; m2; dash; d1; d2])%list.
    rewrite T by (vm_compute; reflexivity).
    cbn [app index_byte]. change (N.eqb 111 space) with false. change (N.eqb 102 space) with false.
    change (N.eqb space space) with true. cbn [firstn skipn]. rewrite P. reflexivity.
  - change (m_local ++ [space] ++ [a; b; c; e; dash; m1; m2; dash; d1; d2])%list
      with (108%N :: [111%N; 99%N; 97%N; 108%N] ++ [space; a; b; c; e; dash; m1; m2; dash; d1; d2])%list.
    rewrite T by (vm_compute; reflexivity).
    cbn [app index_byte]. change (N.eqb 108 space) with false. change (N.eqb 111 space) with false.
    change (N.eqb 99 space) with false. change (N.eqb 97 space) with false.
    change (N.eqb space space) with true. cbn [firstn skipn]. rewrite P. reflexivity.
Qed.

(* ---- SetModeAsOf ---- *)
Theorem set_mode_ok_iff mode sec c :
  set_mode mode sec = SetOk c <->
  valid_mode (trim_space mode) = true /\ 0 <= year_of_sec sec <= 9999 /\
  c = (trim_space mode ++ [space] ++ fmt_date (sec / 86400))%list.
Proof.
  unfold set_mode, year_of_sec.
  pose proof (fmt_parse_any_year (sec / 86400)) as F.
  destruct (civil_from_days (sec / 86400)) as [[y m] d]. destruct F as [F1 F2].
  destruct (valid_mode (trim_space mode)).
  - destruct (Z_le_dec 0 y) as [H0|H0]; [destruct (Z_le_dec y 9999) as [H1|H1]|].
    + destruct (F1 (conj H0 H1)) as [P E]. rewrite P, E. split.
      * intros H. injection H as <-. auto.
      * intros (_ & _ & ->). reflexivity.
    + rewrite F2 by lia. split; [discriminate | lia].
    + rewrite F2 by lia. split; [discriminate | lia].
  - split; [discriminate | intros [H _]; discriminate].
Qed.

Theorem set_get_roundtrip mode sec c :
  set_mode mode sec = SetOk c ->
  parse_mode (Some c) = (trim_space mode, Some (sec / 86400)).
Proof.
  intros H. apply set_mode_ok_iff in H as (V & Y & ->).
  apply valid_mode_cases in V.
  unfold year_of_sec in Y. unfold fmt_date.
  pose proof (civil_roundtrip (sec / 86400)) as R.
  destruct (civil_from_days (sec / 86400)) as [[y m] d]. destruct R as [R Vc].
  apply parse_mode_written; [exact V | apply fmt_ymd_shape; [lia | exact Vc] |].
  destruct (parse_fmt_ymd y m d ltac:(lia) Vc) as [P _]. rewrite P, R. reflexivity.
Qed.

Theorem set_mode_invalid mode sec file :
  valid_mode (trim_space mode) = false -> set_mode_file mode sec file = (file, false).
Proof. intros H. unfold set_mode_file, set_mode. rewrite H. reflexivity. Qed.

Theorem set_mode_error_keeps_file mode sec file :
  snd (set_mode_file mode sec file) = false -> fst (set_mode_file mode sec file) = file.
Proof. unfold set_mode_file. destruct (set_mode mode sec); [discriminate | reflexivity | reflexivity]. Qed.

Theorem set_mode_file_ok mode sec file :
  valid_mode (trim_space mode) = true -> 0 <= year_of_sec sec <= 9999 ->
  exists c, set_mode_file mode sec file = (Some c, true) /\
            parse_mode (Some c) = (trim_space mode, Some (sec / 86400)).
Proof.
  intros V Y. exists (trim_space mode ++ [space] ++ fmt_date (sec / 86400))%list.
  assert (S : set_mode mode sec = SetOk (trim_space mode ++ [space] ++ fmt_date (sec / 86400))%list)
    by (apply set_mode_ok_iff; auto).
  unfold set_mode_file. rewrite S. split; [reflexivity | apply set_get_roundtrip; exact S].
Qed.

(* "ON", "On", ... and the empty string are not modes *)
Lemma valid_mode_examples :
  valid_mode (s2b "ON") = false /\ valid_mode (s2b "") = false /\ valid_mode (s2b "on off") = false /\
  valid_mode (trim_space (s2b " local
")) = true.
Proof. repeat split; vm_compute; reflexivity. Qed.

(* ---- reading: the fail-safe defaults ---- *)
Theorem unreadable_is_local : parse_mode None = (m_local, None) /\ asof_of None = None.
Proof. split; reflexivity. Qed.
Theorem no_path_is_off file : dir_mode false file = (m_off, None).
Proof. reflexivity. Qed.

(* the mode word never contains a space and is what precedes the first one *)
Theorem parse_mode_word file m d : parse_mode (Some file) = (m, d) ->
  index_byte m space = None /\
  (d <> None -> exists rest, trim_space file = (m ++ [space] ++ rest)%list /\ parse_date rest = d).
Proof.
  unfold parse_mode.
  assert (G : forall s i, index_byte s space = Some i ->
              index_byte (firstn i s) space = None /\ s = (firstn i s ++ [space] ++ skipn (S i) s)%list).
  { induction s as [|x s IH]; intros i H; [discriminate|].
    cbn [index_byte] in H. destruct (N.eqb_spec x space) as [->|Hne].
    - injection H as <-. split; reflexivity.
    - destruct (index_byte s space) as [j|] eqn:E; [|discriminate]. injection H as <-.
      destruct (IH j eq_refl) as [I1 I2]. cbn [firstn skipn index_byte app].
      destruct (N.eqb_spec x space); [contradiction|]. rewrite I1. split; [reflexivity|].
      cbn [app] in I2 |- *. f_equal. exact I2. }
  destruct (index_byte (trim_space file) space) as [i|] eqn:E.
  - intros H. injection H as <- <-. destruct (G _ _ E) as [G1 G2]. split; [exact G1|].
    intros _. exists (skipn (S i) (trim_space file)). split; [exact G2 | reflexivity].
  - intros H. injection H as <- <-. split; [exact E | intros C; contradiction].
Qed.

(* ---- "exactly on": which files read as a given word ---- *)
Lemma index_byte_app_nospace w rest : index_byte w space = None ->
  index_byte (w ++ space :: rest) space = Some (length w).
Proof.
  induction w as [|x w IH]; intros H; cbn [app index_byte length].
  - rewrite N.eqb_refl. reflexivity.
  - cbn [index_byte] in H. destruct (N.eqb x space); [discriminate|].
    destruct (index_byte w space); [discriminate|]. rewrite IH by reflexivity. reflexivity.
Qed.

(* the file reads as word w (without a space in it) exactly when, after
   TrimSpace, it is w or w followed by one ASCII space and anything *)
Theorem parse_mode_exact file w : index_byte w space = None ->
  (fst (parse_mode (Some file)) = w <->
   trim_space file = w \/ exists rest, trim_space file = (w ++ space :: rest)%list).
Proof.
  intros Hw. split.
  - intros H. destruct (parse_mode (Some file)) as [m d] eqn:P. cbn [fst] in H. subst m.
    unfold parse_mode in P. destruct (index_byte (trim_space file) space) as [i|] eqn:E.
    + injection P as P1 _. right. exists (skipn (S i) (trim_space file)).
      assert (G : forall s j, index_byte s space = Some j -> s = (firstn j s ++ space :: skipn (S j) s)%list).
      { induction s as [|x s IH]; intros j H; [discriminate|].
        cbn [index_byte] in H. destruct (N.eqb_spec x space) as [->|Hne].
        - injection H as <-. reflexivity.
        - destruct (index_byte s space) as [k|] eqn:Ek; [|discriminate]. injection H as <-.
          cbn [firstn skipn app]. f_equal. apply IH. reflexivity. }
      rewrite <- P1. apply G. exact E.
    + injection P as P1 _. left. exact P1.
  - intros [H|[rest H]]; unfold parse_mode; rewrite H.
    + rewrite Hw. reflexivity.
    + rewrite index_byte_app_nospace by exact Hw. cbn [fst].
      rewrite firstn_app, Nat.sub_diag, firstn_all. cbn [firstn]. apply app_nil_r.
Qed.

Lemma mode_words_no_space :
  index_byte m_on space = None /\ index_byte m_off space = None /\ index_byte m_local space = None.
Proof. repeat split; reflexivity. Qed.
