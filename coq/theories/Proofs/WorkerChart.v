(* Proofs/WorkerChart: charts() and handleChart: the whole chart object
   meets the specification, is deterministic, counts every report read,
   refuses a range with a missing day, and never panics. *)
From Coq Require Import List NArith ZArith Bool Permutation Sorted Lia.
From Tele Require Import Lib.Bytes Lib.Calendar Lib.Sort Gen.Consts Model.Worker Proofs.WorkerFacts Proofs.WorkerSpec.
Import ListNotations.

(* ------------------------------------------------------------------ *)
(* configurations the positive theorems cover *)

Definition gover_key (cfg : config) (k : bytes) : Prop :=
  exists v, In v (cf_goversion cfg) /\ go_major_minor v = k.

(* the premises on the two library comparators: compareSemver is a strict
   total order; version.Compare is one on the normalised go versions of this
   configuration.  Nothing is required of the configuration itself. *)
Definition cfg_ok (lts ltg : bytes -> bytes -> bool) (cfg : config) : Prop :=
  order_ok lts (fun _ => True) /\ order_ok ltg (gover_key cfg).

Lemma lex_order_ok D : order_ok bltb D.
Proof. split; [apply lex_asym | split; [apply lex_trans | apply lex_total]]. Qed.

Lemma lex_req_ok ch buckets : req_ok (mkReq ch buckets false Some bltb).
Proof.
  split; [intros b _; discriminate|]. exists (fun _ => True). split; [apply lex_order_ok | auto].
Qed.

Lemma program_reqs_ok lts ltg cfg p : cfg_ok lts ltg cfg -> Forall req_ok (program_reqs lts ltg cfg p).
Proof.
  intros [Hs Hg]. unfold program_reqs. apply Forall_app. split; [|apply Forall_app; split].
  - destruct (is_toolchain (pc_name p)); constructor; [|constructor].
    split; [intros b _; discriminate|]. exists (fun _ => True). split; [exact Hs | auto].
  - constructor; [apply lex_req_ok|]. constructor; [apply lex_req_ok|]. constructor; [|constructor].
    split; cbn [q_buckets q_norm q_lt].
    + intros b Hb. discriminate.
    + exists (gover_key cfg). split; [exact Hg|]. intros key [b [Hb Hn]]. cbn in Hn. exists b. split; [exact Hb | congruence].
  - apply Forall_forall. intros q Hq. apply in_map_iff in Hq as [c [<- _]]. apply lex_req_ok.
Qed.

(* ------------------------------------------------------------------ *)
(* specification of the whole chart object *)

Definition drop_none (ocs : list (option chart)) : list chart :=
  flat_map (fun oc => match oc with Some c => [c] | None => [] end) ocs.

(* the charts of a program: one per request, in order, nil ones omitted *)
Definition reqs_spec (rs : list report) (pk : bytes) (qs : list preq) (cs : list chart) : Prop :=
  exists ocs, Forall2 (partition_spec rs pk) qs ocs /\ cs = drop_none ocs.

Definition programs_spec lts ltg (cfg : config) (rs : list report)
    (ps : list program_cfg) (os : list prog_out) : Prop :=
  Forall2 (fun p o => po_id o = charts_prefix ++ pc_name p /\ po_name o = pc_name p /\
                      reqs_spec rs (pc_name p) (program_reqs lts ltg cfg p) (po_charts o)) ps os.

Definition chartdata_spec lts ltg (cfg : config) (s e : bytes) (rs : list report) (cd : chartdata) : Prop :=
  cd_start cd = s /\ cd_end cd = e /\ cd_num cd = length rs /\
  programs_spec lts ltg cfg rs (cf_programs cfg) (cd_programs cd).

Lemma run_reqs_spec it rs pk qs :
  iter_ok it -> Forall req_ok qs ->
  exists cs, run_reqs it (group rs) pk qs = Some cs /\ reqs_spec rs pk qs cs.
Proof.
  intros Hit Hqs. induction Hqs as [|q qs Hq _ IH]; cbn [run_reqs].
  - exists []. split; [reflexivity|]. exists []. split; [constructor | reflexivity].
  - destruct (partition_meets_spec it rs pk q Hit Hq) as [oc [R S]]. rewrite R.
    destruct IH as [cs [Rs [ocs [F E]]]]. rewrite Rs.
    eexists. split; [reflexivity|]. exists (oc :: ocs). split; [constructor; assumption|].
    subst cs. destruct oc; reflexivity.
Qed.

Lemma run_programs_spec it lts ltg cfg rs ps :
  iter_ok it -> cfg_ok lts ltg cfg ->
  exists os, run_programs it lts ltg cfg (group rs) ps = Some os /\ programs_spec lts ltg cfg rs ps os.
Proof.
  intros Hit Hcfg. induction ps as [|p ps IH]; cbn [run_programs].
  - exists []. split; [reflexivity | constructor].
  - destruct (run_reqs_spec it rs (pc_name p) _ Hit (program_reqs_ok lts ltg cfg p Hcfg)) as [cs [R S]].
    rewrite R. destruct IH as [os [Ro So]]. rewrite Ro.
    eexists. split; [reflexivity|]. constructor; [|exact So]. cbn. auto.
Qed.

Theorem charts_spec it lts ltg cfg s e rs :
  iter_ok it -> cfg_ok lts ltg cfg ->
  exists cd, charts it lts ltg cfg s e (group rs) (map r_x rs) = Some cd /\
             chartdata_spec lts ltg cfg s e rs cd.
Proof.
  intros Hit Hcfg. unfold charts.
  destruct (run_programs_spec it lts ltg cfg rs (cf_programs cfg) Hit Hcfg) as [os [R S]]. rewrite R.
  eexists. split; [reflexivity|]. unfold chartdata_spec. cbn. rewrite map_length. auto.
Qed.

(* determinism, level by level *)
Lemma run_reqs_det it it' rs rs' pk qs :
  iter_ok it -> iter_ok it' -> Forall req_ok qs -> (forall r, In r rs <-> In r rs') ->
  run_reqs it (group rs) pk qs = run_reqs it' (group rs') pk qs.
Proof.
  intros Hit Hit' Hqs Hrs. induction Hqs as [|q qs Hq _ IH]; cbn [run_reqs]; [reflexivity|].
  rewrite (proj1 (run_req_deterministic it it' rs rs' pk q Hit Hit' Hq Hrs)), IH. reflexivity.
Qed.

Lemma run_programs_det it it' lts ltg cfg rs rs' ps :
  iter_ok it -> iter_ok it' -> cfg_ok lts ltg cfg -> (forall r, In r rs <-> In r rs') ->
  run_programs it lts ltg cfg (group rs) ps = run_programs it' lts ltg cfg (group rs') ps.
Proof.
  intros Hit Hit' Hcfg Hrs. induction ps as [|p ps IH]; cbn [run_programs]; [reflexivity|].
  rewrite (run_reqs_det it it' rs rs' (pc_name p) _ Hit Hit' (program_reqs_ok lts ltg cfg p Hcfg) Hrs), IH.
  reflexivity.
Qed.

Theorem charts_deterministic it it' lts ltg cfg s e rs rs' :
  iter_ok it -> iter_ok it' -> cfg_ok lts ltg cfg -> Permutation rs rs' ->
  charts it lts ltg cfg s e (group rs) (map r_x rs) = charts it' lts ltg cfg s e (group rs') (map r_x rs').
Proof.
  intros Hit Hit' Hcfg Hp. unfold charts.
  assert (Hrs : forall r, In r rs <-> In r rs').
  { intro r. split; apply Permutation_in; [exact Hp | symmetry; exact Hp]. }
  rewrite (run_programs_det it it' lts ltg cfg rs rs' _ Hit Hit' Hcfg Hrs).
  rewrite !map_length, (Permutation_length Hp). reflexivity.
Qed.

(* ------------------------------------------------------------------ *)
(* reading the days of the range *)

Definition reps_of (r : read_result) : list report := match r with ROk rs => rs | _ => [] end.

Fixpoint days_reports (read : Z -> read_result) (day : Z) (n : nat) : list report :=
  match n with
  | O => []
  | S n' => reps_of (read day) ++ days_reports read (day + 1) n'
  end.

Lemma read_days_ok read : forall n day rs,
  read_days read day n = ROk rs ->
  rs = days_reports read day n /\ forall i, (i < n)%nat -> exists rsi, read (day + Z.of_nat i)%Z = ROk rsi.
Proof.
  induction n as [|n IH]; intros day rs H; cbn [read_days days_reports] in *.
  - injection H as <-. split; [reflexivity | intros i Hi; lia].
  - destruct (read day) as [| |r0] eqn:E0; try discriminate.
    destruct (read_days read (day + 1) n) as [| |rest] eqn:E1; try discriminate.
    injection H as <-. destruct (IH _ _ E1) as [-> Hall]. split; [reflexivity|].
    intros [|i] Hi.
    + exists r0. rewrite Z.add_0_r. exact E0.
    + destruct (Hall i ltac:(lia)) as [rsi Hr]. exists rsi. rewrite <- Hr. f_equal. lia.
Qed.

Lemma read_days_all_ok read : forall n day,
  (forall i, (i < n)%nat -> exists rsi, read (day + Z.of_nat i)%Z = ROk rsi) ->
  read_days read day n = ROk (days_reports read day n).
Proof.
  induction n as [|n IH]; intros day H; cbn [read_days days_reports]; [reflexivity|].
  destruct (H 0%nat ltac:(lia)) as [r0 E0]. rewrite Z.add_0_r in E0. rewrite E0. cbn [reps_of].
  rewrite IH; [reflexivity|]. intros i Hi. destruct (H (S i) ltac:(lia)) as [rsi Hr].
  exists rsi. rewrite <- Hr. f_equal. lia.
Qed.

Lemma read_days_first_missing read : forall n day i,
  (i < n)%nat -> read (day + Z.of_nat i)%Z = RNotFound ->
  (forall j, (j < i)%nat -> exists rs, read (day + Z.of_nat j)%Z = ROk rs) ->
  read_days read day n = RNotFound.
Proof.
  induction n as [|n IH]; intros day i Hi Hm Hbefore; [lia|]. cbn [read_days].
  destruct i as [|i].
  - rewrite Z.add_0_r in Hm. rewrite Hm. reflexivity.
  - destruct (Hbefore 0%nat ltac:(lia)) as [r0 E0]. rewrite Z.add_0_r in E0. rewrite E0.
    rewrite (IH (day + 1)%Z i); [reflexivity | lia | |].
    + rewrite <- Hm. f_equal. lia.
    + intros j Hj. destruct (Hbefore (S j) ltac:(lia)) as [rs Hr]. exists rs. rewrite <- Hr. f_equal. lia.
Qed.

Lemma read_days_missing read n day i :
  (i < n)%nat -> read (day + Z.of_nat i)%Z = RNotFound -> forall rs, read_days read day n <> ROk rs.
Proof.
  intros Hi Hm rs H. destruct (read_days_ok read n day rs H) as [_ Hall].
  destruct (Hall i Hi) as [rsi Hr]. congruence.
Qed.

(* day by day the two buckets hold the same reports, in any order *)
Definition day_equiv (a b : read_result) : Prop :=
  match a, b with
  | ROk x, ROk y => Permutation x y
  | RNotFound, RNotFound => True
  | RErr, RErr => True
  | _, _ => False
  end.

Lemma read_days_equiv read read' : forall n day,
  (forall dd, day_equiv (read dd) (read' dd)) -> day_equiv (read_days read day n) (read_days read' day n).
Proof.
  induction n as [|n IH]; intros day H; cbn [read_days]; [cbn; constructor|].
  specialize (IH (day + 1)%Z H). pose proof (H day) as H0.
  destruct (read day), (read' day); cbn in H0; try contradiction; try exact I.
  destruct (read_days read (day + 1) n), (read_days read' (day + 1) n); cbn in IH |- *; try contradiction; try exact I.
  apply Permutation_app; assumption.
Qed.

(* ------------------------------------------------------------------ *)
(* handleChart *)

Theorem handle_chart_ok_spec it lts ltg cfg read start end_ name cd :
  iter_ok it -> cfg_ok lts ltg cfg ->
  handle_chart it lts ltg cfg read start end_ = ChartOk name cd ->
  (start <= end_)%Z /\
  (forall i, (i < Z.to_nat (end_ - start + 1))%nat -> exists rs, read (start + Z.of_nat i)%Z = ROk rs) /\
  name = chart_object_name start end_ /\
  chartdata_spec lts ltg cfg (fmt_date start) (fmt_date end_)
                 (days_reports read start (Z.to_nat (end_ - start + 1))) cd.
Proof.
  intros Hit Hcfg H. unfold handle_chart in H.
  destruct (Z.ltb_spec end_ start) as [Hlt|Hle]; [discriminate|].
  destruct (read_days read start (Z.to_nat (end_ - start + 1))) as [| |rs] eqn:Er; try discriminate.
  destruct (read_days_ok _ _ _ _ Er) as [-> Hall].
  destruct (charts_spec it lts ltg cfg (fmt_date start) (fmt_date end_)
              (days_reports read start (Z.to_nat (end_ - start + 1))) Hit Hcfg) as [cd' [Rc Sc]].
  rewrite Rc in H. injection H as <- <-. auto.
Qed.

Theorem handle_chart_total it lts ltg cfg read start end_ :
  iter_ok it -> cfg_ok lts ltg cfg -> (start <= end_)%Z ->
  (forall i, (i < Z.to_nat (end_ - start + 1))%nat -> exists rs, read (start + Z.of_nat i)%Z = ROk rs) ->
  exists cd, handle_chart it lts ltg cfg read start end_ = ChartOk (chart_object_name start end_) cd.
Proof.
  intros Hit Hcfg Hle Hall. unfold handle_chart.
  destruct (Z.ltb_spec end_ start) as [Hlt|_]; [lia|].
  rewrite (read_days_all_ok _ _ _ Hall).
  destruct (charts_spec it lts ltg cfg (fmt_date start) (fmt_date end_)
              (days_reports read start (Z.to_nat (end_ - start + 1))) Hit Hcfg) as [cd [Rc _]].
  rewrite Rc. exists cd. reflexivity.
Qed.

Theorem handle_chart_missing_day it lts ltg cfg read start end_ day :
  (start <= day <= end_)%Z -> read day = RNotFound ->
  (forall name cd, handle_chart it lts ltg cfg read start end_ <> ChartOk name cd) /\
  ((forall d', (start <= d' < day)%Z -> exists rs, read d' = ROk rs) ->
   handle_chart it lts ltg cfg read start end_ = ChartNotFound).
Proof.
  intros Hd Hm. set (i := Z.to_nat (day - start)).
  assert (Hi : (i < Z.to_nat (end_ - start + 1))%nat) by (unfold i; lia).
  assert (Hday : (start + Z.of_nat i)%Z = day) by (unfold i; lia).
  unfold handle_chart. destruct (Z.ltb_spec end_ start) as [Hlt|_]; [lia|]. split.
  - intros name cd H.
    destruct (read_days read start (Z.to_nat (end_ - start + 1))) as [| |rs] eqn:Er; try discriminate.
    apply (read_days_missing read _ start i Hi) with (rs := rs); [rewrite Hday; exact Hm | exact Er].
  - intro Hbefore. rewrite (read_days_first_missing read _ start i Hi); [reflexivity | rewrite Hday; exact Hm|].
    intros j Hj. apply Hbefore. unfold i in Hj. lia.
Qed.

Theorem handle_chart_deterministic it it' lts ltg cfg read read' start end_ :
  iter_ok it -> iter_ok it' -> cfg_ok lts ltg cfg ->
  day_equiv (read_days read start (Z.to_nat (end_ - start + 1)))
            (read_days read' start (Z.to_nat (end_ - start + 1))) ->
  handle_chart it lts ltg cfg read start end_ = handle_chart it' lts ltg cfg read' start end_.
Proof.
  intros Hit Hit' Hcfg He. unfold handle_chart.
  destruct (Z.ltb end_ start); [reflexivity|].
  destruct (read_days read start _) as [| |rs], (read_days read' start _) as [| |rs'];
    cbn in He; try contradiction; try reflexivity.
  rewrite (charts_deterministic it it' lts ltg cfg (fmt_date start) (fmt_date end_) rs rs' Hit Hit' Hcfg He).
  reflexivity.
Qed.

(* ------------------------------------------------------------------ *)
(* totality: with normalisers that never fail (all of charts()'s, after fix
   48ba0d4) nothing panics -- no premise on the configuration, the reports,
   the iteration orders, the sort or the comparators *)

Definition norm_total (q : preq) : Prop := forall b, q_norm q b <> None.

Lemma bucket_loop_some it d pk ch norm wk : (forall b, norm b <> None) ->
  forall buckets seen m e, bucket_loop it d pk ch norm wk buckets seen m e <> None.
Proof.
  intro Hn. induction buckets as [|b bs IH]; intros seen m e; cbn [bucket_loop]; [discriminate|].
  destruct (mem_b b seen); [apply IH|].
  destruct (norm b) eqn:E; [apply IH | exfalso; exact (Hn b E)].
Qed.

Lemma week_loop_some it d pk ch norm buckets : (forall b, norm b <> None) ->
  forall ws m e en, week_loop it d pk ch norm buckets ws m e en <> None.
Proof.
  intro Hn. induction ws as [|wk ws IH]; intros m e en; cbn [week_loop]; [discriminate|].
  destruct (bucket_loop it d pk ch norm wk buckets [] m e) as [[m' e']|] eqn:E.
  - apply IH.
  - exfalso. exact (bucket_loop_some it d pk ch norm wk Hn _ _ _ _ E).
Qed.

Lemma run_req_some it d pk q : norm_total q -> run_req it d pk q <> None.
Proof.
  intro Hn. unfold run_req, partition.
  destruct (week_loop it d pk (q_chart q) (q_norm q) (q_buckets q) (ord_weeks it (weeks d)) [] true [])
    as [[[m e] en]|] eqn:E.
  - destruct e; discriminate.
  - exfalso. exact (week_loop_some it d pk _ _ _ Hn _ _ _ _ E).
Qed.

Lemma run_reqs_some it d pk qs : Forall norm_total qs -> run_reqs it d pk qs <> None.
Proof.
  intro H. induction H as [|q qs Hq _ IH]; cbn [run_reqs]; [discriminate|].
  destruct (run_req it d pk q) eqn:E; [|exfalso; exact (run_req_some it d pk q Hq E)].
  destruct (run_reqs it d pk qs); [discriminate | contradiction].
Qed.

Lemma program_reqs_total lts ltg cfg p : Forall norm_total (program_reqs lts ltg cfg p).
Proof.
  unfold program_reqs. apply Forall_app. split; [|apply Forall_app; split].
  - destruct (is_toolchain (pc_name p)); constructor; [|constructor]. intros b; discriminate.
  - repeat (constructor; [intros b; discriminate|]). constructor.
  - apply Forall_forall. intros q Hq. apply in_map_iff in Hq as [c [<- _]]. intros b; discriminate.
Qed.

Theorem charts_never_panics it lts ltg cfg s e d xs : charts it lts ltg cfg s e d xs <> None.
Proof.
  unfold charts.
  assert (H : forall ps, run_programs it lts ltg cfg d ps <> None).
  { induction ps as [|p ps IH]; cbn [run_programs]; [discriminate|].
    destruct (run_reqs it d (pc_name p) (program_reqs lts ltg cfg p)) eqn:E;
      [|exfalso; exact (run_reqs_some it d _ _ (program_reqs_total lts ltg cfg p) E)].
    destruct (run_programs it lts ltg cfg d ps); [discriminate | contradiction]. }
  destruct (run_programs it lts ltg cfg d (cf_programs cfg)) eqn:E; [discriminate|].
  exfalso. exact (H _ E).
Qed.

Theorem handle_chart_never_panics it lts ltg cfg read start end_ :
  handle_chart it lts ltg cfg read start end_ <> ChartPanic.
Proof.
  unfold handle_chart. destruct (Z.ltb end_ start); [discriminate|].
  destruct (read_days read start (Z.to_nat (end_ - start + 1))) as [| |rs]; try discriminate.
  destruct (charts it lts ltg cfg (fmt_date start) (fmt_date end_) (group rs) (map r_x rs)) eqn:E; [discriminate|].
  exfalso. exact (charts_never_panics _ _ _ _ _ _ _ _ E).
Qed.

(* the request context does not change what a /chart/ request does: in
   particular a chart object produced under a cancelled or expired context
   still counts every merged report of the range *)
Theorem chart_independent_of_request_context it lts ltg cfg read start end_ c :
  handle_chart_ctx it lts ltg c cfg read start end_ = handle_chart it lts ltg cfg read start end_ /\
  forall name cd, iter_ok it -> cfg_ok lts ltg cfg ->
    handle_chart_ctx it lts ltg c cfg read start end_ = ChartOk name cd ->
    cd_num cd = length (days_reports read start (Z.to_nat (end_ - start + 1))) /\
    chartdata_spec lts ltg cfg (fmt_date start) (fmt_date end_)
                   (days_reports read start (Z.to_nat (end_ - start + 1))) cd.
Proof.
  split; [reflexivity|]. intros name cd Hit Hcfg H. unfold handle_chart_ctx in H.
  destruct (handle_chart_ok_spec it lts ltg cfg read start end_ name cd Hit Hcfg H) as [_ [_ [_ Hs]]].
  split; [apply Hs | exact Hs].
Qed.

(* ------------------------------------------------------------------ *)
(* read faults (after fix 0ab09db) *)

Lemma read_days_ext read read' : forall n day,
  (forall i, (i < n)%nat -> read (day + Z.of_nat i)%Z = read' (day + Z.of_nat i)%Z) ->
  read_days read day n = read_days read' day n.
Proof.
  induction n as [|n IH]; intros day H; cbn [read_days]; [reflexivity|].
  pose proof (H 0%nat ltac:(lia)) as H0. rewrite Z.add_0_r in H0. rewrite <- H0.
  rewrite (IH (day + 1)%Z); [reflexivity|]. intros i Hi.
  replace (day + 1 + Z.of_nat i)%Z with (day + Z.of_nat (S i))%Z by lia. apply H. lia.
Qed.

(* a faulty reading never turns into a chart with fewer reports: if a chart is
   produced, it is the chart of the fault-free reading *)
Lemma faulty_read_chart it lts ltg cfg read read' start end_ name cd :
  (forall d, read' d = read d \/ read' d = RErr) ->
  handle_chart it lts ltg cfg read' start end_ = ChartOk name cd ->
  handle_chart it lts ltg cfg read start end_ = ChartOk name cd.
Proof.
  intros Hr H. unfold handle_chart in *. destruct (Z.ltb end_ start); [discriminate|].
  destruct (read_days read' start (Z.to_nat (end_ - start + 1))) as [| |rs] eqn:Er; try discriminate.
  destruct (read_days_ok _ _ _ _ Er) as [_ Hall].
  rewrite <- (read_days_ext read' read), Er; [exact H|].
  intros i Hi. destruct (Hall i Hi) as [rsi Hi']. destruct (Hr (start + Z.of_nat i)%Z) as [E|E]; [exact E | congruence].
Qed.

Lemma read_with_fault_cases fault read d :
  read_with_fault fault read d = read d \/ read_with_fault fault read d = RErr.
Proof.
  unfold read_with_fault. destruct fault as [[fd k]|]; [|left; reflexivity].
  destruct (Z.eqb d fd); [|left; reflexivity]. destruct (read d); auto.
Qed.

Theorem chart_read_fault_is_error it lts ltg cfg read start end_ fault :
  (* never 200 with fewer reports: a chart produced under a fault is the fault-free chart *)
  (forall name cd, handle_chart_fault it lts ltg fault cfg read start end_ = ChartOk name cd ->
                   handle_chart it lts ltg cfg read start end_ = ChartOk name cd) /\
  (* and a fault on a day of the range whose merged object exists fails the request *)
  (forall fd k, fault = Some (fd, k) -> (start <= fd <= end_)%Z -> read fd <> RNotFound ->
                forall name cd, handle_chart_fault it lts ltg fault cfg read start end_ <> ChartOk name cd).
Proof.
  split.
  - intros name cd H. apply (faulty_read_chart it lts ltg cfg read (read_with_fault fault read)); [|exact H].
    intro d. apply read_with_fault_cases.
  - intros fd k -> Hfd Hnf name cd H. unfold handle_chart_fault, handle_chart in H.
    destruct (Z.ltb end_ start); [discriminate|].
    destruct (read_days (read_with_fault (Some (fd, k)) read) start (Z.to_nat (end_ - start + 1))) as [| |rs] eqn:Er; try discriminate.
    destruct (read_days_ok _ _ _ _ Er) as [_ Hall].
    destruct (Hall (Z.to_nat (fd - start)) ltac:(lia)) as [rsi Hi].
    replace (start + Z.of_nat (Z.to_nat (fd - start)))%Z with fd in Hi by lia.
    unfold read_with_fault in Hi. rewrite Z.eqb_refl in Hi. destruct (read fd); [contradiction | discriminate | discriminate].
Qed.
