(* Proofs/ReportOracle: the executable oracle of C01 (Model/Report.report_check,
   the function the correspondence runner applies to the IMPLEMENTATION's
   reports) accepts the model's reports for all inputs, except for failures
   of the two known classes, each of which comes with a certificate: two
   different configured rates for one (program, name) / a true sum >= 2^63. *)
From Coq Require Import List ZArith NArith Bool Lia.
From Tele Require Import Lib.Bytes Lib.Str Lib.Assoc Model.Config Model.ApprovalSpec Model.Report
  Proofs.ConfigFacts Proofs.AggregateFacts Proofs.ReportFacts.
Import ListNotations.
Open Scope Z_scope.

Definition cert (u : upload_cfg) (files : list cfile) (fl : failure) : Prop :=
  (fst fl = FRateShared /\
   exists prog name r1 r2, rate_entry u prog name r1 /\ rate_entry u prog name r2 /\ r1 <> r2) \/
  (fst fl = FValueWrap /\ exists i k, two63 <= spec_sum files i k).

Lemma existsb_leb_false x l r : existsb (N.leb x) l = false -> In r l -> (r < x)%N.
Proof.
  intros H Hin. destruct (N.leb x r) eqn:E; [|apply N.leb_gt; exact E].
  assert (Ht : existsb (N.leb x) l = true) by (apply existsb_exists; exists r; auto). congruence.
Qed.

Lemma nonempty_false {A} (l : list A) : nonempty l = false -> l = [].
Proof. destruct l; [reflexivity | discriminate]. Qed.

Lemma check_value_model u files i k v :
  spec_entries files i k <> [] -> v = wrap64 (spec_sum files i k) ->
  forall fl, In fl (check_value files i k v) -> cert u files fl.
Proof.
  intros Hne Hv fl. unfold check_value. unfold spec_sum in Hv.
  destruct (spec_entries files i k) as [|e es] eqn:E; [contradiction|].
  rewrite Hv, Z.eqb_refl. destruct (wrap64 (zsum (e :: es)) =? zsum (e :: es)) eqn:Ew; [intros []|].
  intros [<-|[]]. right. split; [reflexivity|]. exists i, k. unfold spec_sum. rewrite E.
  apply Z.eqb_neq in Ew. destruct (Z_lt_ge_dec (zsum (e :: es)) two63) as [Hlt|Hge]; [|lia].
  exfalso. apply Ew. apply wrap64_small. pose proof (zsum_nonneg (e :: es)). unfold two63 in *. lia.
Qed.

Lemma check_counter_model u files x i k v :
  counter_sound u x (id_program i) k ->
  spec_entries files i k <> [] -> v = wrap64 (spec_sum files i k) ->
  forall fl, In fl (check_counter u files x i (k, v)) -> cert u files fl.
Proof.
  intros [Hs [[r Hr] [Hx Hrt]]] Hne Hv fl. unfold check_counter. cbv zeta. cbn [fst snd].
  rewrite in_app_iff. intros [Hin|Hin]; [|eapply check_value_model; eauto].
  rewrite Hs in Hin. rewrite (proj2 (approved_counterb_spec u _ k)) in Hin by eauto. cbn [orb negb] in Hin.
  destruct (existsb (N.leb x) (counter_rates u (id_program i) k)) eqn:Ee; [destruct Hin|].
  assert (Hlt : (r < x)%N) by (eapply existsb_leb_false; [exact Ee | apply in_counter_rates; exact Hr]).
  rewrite (proj2 (N.leb_le _ _) Hx), andb_true_r in Hin.
  destruct (nonempty (stack_rates u (id_program i) k)) eqn:En.
  - destruct Hin as [<-|[]]. left. split; [reflexivity|].
    exists (id_program i), k, r, (rate (new_config u) (id_program i) k).
    split; [left; exact Hr|]. split; [exact Hrt|]. lia.
  - exfalso. destruct Hrt as [Hc|Hst].
    + apply in_counter_rates in Hc. pose proof (existsb_leb_false _ _ _ Ee Hc). lia.
    + apply in_stack_rates in Hst. rewrite (nonempty_false _ En) in Hst. exact Hst.
Qed.

Lemma check_stack_model u files x i k v :
  stack_sound u x (id_program i) k ->
  spec_entries files i k <> [] -> v = wrap64 (spec_sum files i k) ->
  forall fl, In fl (check_stack u files x i (k, v)) -> cert u files fl.
Proof.
  intros [Hs [[r Hr] [Hx Hrt]]] Hne Hv fl. unfold check_stack. cbv zeta. cbn [fst snd].
  rewrite in_app_iff. intros [Hin|Hin]; [|eapply check_value_model; eauto].
  rewrite Hs in Hin. rewrite (proj2 (approved_stackb_spec u _ k)) in Hin by eauto. cbn [orb negb] in Hin.
  destruct (existsb (N.leb x) (stack_rates u (id_program i) (stack_title k))) eqn:Ee; [destruct Hin|].
  assert (Hlt : (r < x)%N) by (eapply existsb_leb_false; [exact Ee | apply in_stack_rates; exact Hr]).
  rewrite (proj2 (N.leb_le _ _) Hx), andb_true_r in Hin.
  destruct (nonempty (counter_rates u (id_program i) (stack_title k))) eqn:En.
  - destruct Hin as [<-|[]]. left. split; [reflexivity|].
    exists (id_program i), (stack_title k), r, (rate (new_config u) (id_program i) (stack_title k)).
    split; [right; exact Hr|]. split; [exact Hrt|]. lia.
  - exfalso. destruct Hrt as [Hc|Hst].
    + apply in_counter_rates in Hc. rewrite (nonempty_false _ En) in Hc. exact Hc.
    + apply in_stack_rates in Hst. pose proof (existsb_leb_false _ _ _ Ee Hst). lia.
Qed.

Lemma dup_idents_nodup l : NoDup l -> dup_idents l = [].
Proof.
  induction 1 as [|i l Hni Hnd IH]; [reflexivity|]. cbn [dup_idents]. rewrite IH, app_nil_r.
  destruct (existsb (ident_eqb i) l) eqn:E; [|reflexivity].
  apply existsb_exists in E as [j [Hj He]]. apply ident_eqb_eq in He. subst j. contradiction.
Qed.

Lemma NoDup_map_filter {A B} (g : A -> B) (p : A -> bool) l :
  NoDup (map g l) -> NoDup (map g (filter p l)).
Proof.
  induction l as [|a l IH]; cbn [map filter]; intro H; [constructor|].
  inversion H as [|? ? Hni Hnd]; subst. destruct (p a); cbn [map]; [|auto].
  constructor; [|auto]. intro Hin. apply Hni. apply in_map_iff in Hin as [b [He Hb]].
  apply filter_In in Hb as [Hb _]. apply in_map_iff. exists b. auto.
Qed.

Lemma keys_filter_upload c x ps : NoDup (akeys ps) -> NoDup (akeys (filter_upload c x ps)).
Proof.
  intro H. unfold filter_upload, akeys. rewrite map_map. cbn [trim_prog fst].
  apply (NoDup_map_filter fst). exact H.
Qed.

Lemma In_aget_some {K V} (eqb : K -> K -> bool) (Heq : forall a b, eqb a b = true <-> a = b)
      k (m : list (K * V)) : In k (akeys m) -> exists v, aget eqb k m = Some v.
Proof.
  intro H. destruct (aget eqb k m) as [v|] eqn:E; [eauto|].
  apply (aget_None_notin _ _ eqb Heq) in E. contradiction.
Qed.

Section Model.
  Variables (u : upload_cfg) (files : list cfile) (x : N).
  Let up := filter_upload (new_config u) x (aggregate files).

  Lemma check_prog_model p : In p up -> forall fl, In fl (check_prog u files x p) -> cert u files fl.
  Proof.
    destruct p as [i [cs ss]]. intros Hin fl. pose proof (upload_sound _ _ _ _ _ _ Hin) as [Hb [[f [Hf Hfi]] [Hc Hs]]].
    unfold check_prog. cbv zeta. cbn [fst snd].
    rewrite (proj2 (approved_buildb_spec u i) Hb).
    assert (He : existsb (fun f => ident_eqb (f_ident f) i) files = true).
    { apply existsb_exists. exists f. split; [exact Hf | apply ident_eqb_eq; exact Hfi]. }
    rewrite He. cbn [app]. rewrite in_app_iff, !in_flat_map.
    intros [[[k v] [Hk Hfl]]|[[k v] [Hk Hfl]]].
    - destruct (upload_values u files x i cs ss k v Hin (or_introl Hk)) as [Hne [Hv _]].
      eapply check_counter_model; eauto.
    - destruct (upload_values u files x i cs ss k v Hin (or_intror Hk)) as [Hne [Hv _]].
      eapply check_stack_model; eauto.
  Qed.

  Lemma check_present_model f : In f files -> forall fl, In fl (check_present u x up f) -> cert u files fl.
  Proof.
    intros Hf fl. unfold check_present. cbv zeta.
    destruct (approved_buildb u (f_ident f)) eqn:Eb; [|intros []].
    apply approved_buildb_spec in Eb.
    destruct (upload_complete u files x f Hf Eb) as [cs [ss [Hin Hall]]]. fold up in Hin.
    assert (Hnd : NoDup (akeys up)) by (apply keys_filter_upload, wf_aggregate).
    rewrite (In_aget _ _ ident_eqb ident_eqb_eq _ _ _ Hnd Hin). cbn [fst snd].
    rewrite in_flat_map. intros [[k v0] [Hk Hfl]]. cbn [fst] in Hfl.
    destruct (Hall k v0 Hk) as [Hc Hs].
    destruct (is_stack k) eqn:Est.
    - destruct (must_stack u x (id_program (f_ident f)) k) eqn:Em; [|destruct Hfl].
      unfold must_stack in Em. apply andb_true_iff in Em as [Ha Hr].
      destruct (aget beq k ss) eqn:Ea; [destruct Hfl|].
      apply approved_stackb_spec in Ha. destruct Ha as [r Hr0].
      pose proof (rate_is_entry u _ _ _ (or_intror Hr0)) as Hrt.
      assert (Hnx : ~ (x <= rate (new_config u) (id_program (f_ident f)) (stack_title k))%N).
      { intro Hx. destruct (Hs eq_refl (ex_intro _ r Hr0) Hx) as [v Hv].
        assert (Hkey : In k (akeys ss)) by (apply in_map_iff; exists (k, v); auto).
        apply (aget_None_notin _ _ beq beq_eq) in Ea. contradiction. }
      rewrite forallb_forall in Hr.
      assert (Hrx : (x <= r)%N) by (apply N.leb_le, Hr, in_stack_rates; exact Hr0).
      rewrite (proj2 (N.leb_gt _ _) (proj1 (N.nle_gt _ _) Hnx)) in Hfl. cbn [negb] in Hfl. rewrite andb_true_r in Hfl.
      destruct (nonempty (counter_rates u (id_program (f_ident f)) (stack_title k))) eqn:En.
      + destruct Hfl as [<-|[]]. left. split; [reflexivity|].
        exists (id_program (f_ident f)), (stack_title k), r, (rate (new_config u) (id_program (f_ident f)) (stack_title k)).
        split; [right; exact Hr0|]. split; [exact Hrt|]. lia.
      + exfalso. destruct Hrt as [Hc1|Hs1].
        * apply in_counter_rates in Hc1. rewrite (nonempty_false _ En) in Hc1. exact Hc1.
        * apply Hnx. apply N.leb_le, Hr, in_stack_rates. exact Hs1.
    - destruct (must_counter u x (id_program (f_ident f)) k) eqn:Em; [|destruct Hfl].
      unfold must_counter in Em. apply andb_true_iff in Em as [Ha Hr].
      destruct (aget beq k cs) eqn:Ea; [destruct Hfl|].
      apply approved_counterb_spec in Ha. destruct Ha as [r Hr0].
      pose proof (rate_is_entry u _ _ _ (or_introl Hr0)) as Hrt.
      assert (Hnx : ~ (x <= rate (new_config u) (id_program (f_ident f)) k)%N).
      { intro Hx. destruct (Hc eq_refl (ex_intro _ r Hr0) Hx) as [v Hv].
        assert (Hkey : In k (akeys cs)) by (apply in_map_iff; exists (k, v); auto).
        apply (aget_None_notin _ _ beq beq_eq) in Ea. contradiction. }
      rewrite forallb_forall in Hr.
      assert (Hrx : (x <= r)%N) by (apply N.leb_le, Hr, in_counter_rates; exact Hr0).
      rewrite (proj2 (N.leb_gt _ _) (proj1 (N.nle_gt _ _) Hnx)) in Hfl. cbn [negb] in Hfl. rewrite andb_true_r in Hfl.
      destruct (nonempty (stack_rates u (id_program (f_ident f)) k)) eqn:En.
      + destruct Hfl as [<-|[]]. left. split; [reflexivity|].
        exists (id_program (f_ident f)), k, r, (rate (new_config u) (id_program (f_ident f)) k).
        split; [left; exact Hr0|]. split; [exact Hrt|]. lia.
      + exfalso. destruct Hrt as [Hc1|Hs1].
        * apply Hnx. apply N.leb_le, Hr, in_counter_rates. exact Hc1.
        * apply in_stack_rates in Hs1. rewrite (nonempty_false _ En) in Hs1. exact Hs1.
  Qed.
End Model.

(* The oracle on the model's own reports: only certified failures of the two known classes. *)
Theorem report_check_model gate u cfgver week lastweek x files local up :
  create_report gate u cfgver week lastweek x files = Some (local, Some up) ->
  forall fl, In fl (report_check u files local up) -> cert u files fl.
Proof.
  intros H fl. apply create_report_shape in H as [-> [-> _]].
  unfold report_check. cbv zeta. cbn [r_x r_programs].
  assert (Hh : header_ok (mkReport week lastweek x cfgver (aggregate files))
                         (mkReport week lastweek x cfgver (filter_upload (new_config u) x (aggregate files))) = true).
  { unfold header_ok. cbn. rewrite !beq_refl, N.eqb_refl. reflexivity. }
  rewrite Hh. cbn [app].
  rewrite dup_idents_nodup by (apply keys_filter_upload, wf_aggregate). cbn [app].
  rewrite in_app_iff, !in_flat_map. intros [[p [Hp Hfl]]|[f [Hf Hfl]]].
  - eapply check_prog_model; eauto.
  - eapply check_present_model; eauto.
Qed.

(* Outside the two known classes the oracle accepts the model's report. *)
Theorem report_ok_model gate u cfgver week lastweek x files local up :
  cfg_rate_unambiguous u -> (forall i k, spec_sum files i k < two63) ->
  create_report gate u cfgver week lastweek x files = Some (local, Some up) ->
  report_ok u files local up = true.
Proof.
  intros Hu Hw H. unfold report_ok.
  destruct (report_check u files local up) as [|fl l] eqn:E; [reflexivity|]. exfalso.
  assert (Hc : cert u files fl) by (eapply report_check_model; [exact H | rewrite E; left; reflexivity]).
  destruct Hc as [[_ [prog [name [r1 [r2 [H1 [H2 Hne]]]]]]] | [_ [i [k Hge]]]].
  - apply Hne. eapply Hu; eauto.
  - specialize (Hw i k). lia.
Qed.

(* The local report passes its oracle for all inputs. *)
Theorem local_check_model gate u cfgver week lastweek x files local up :
  create_report gate u cfgver week lastweek x files = Some (local, up) ->
  local_check files local = [].
Proof.
  intro H. apply create_report_shape in H as [-> _]. unfold local_check. cbn [r_programs].
  rewrite dup_idents_nodup by apply wf_aggregate. cbn [app].
  assert (H1 : forall fl, ~ In fl (flat_map (fun p : ident * body =>
     (if existsb (fun f => ident_eqb (f_ident f) (fst p)) files then [] else [(FProgUnknown, id_program (fst p))]) ++
     flat_map (fun kv => (if is_stack (fst kv) then [(FCounterName, fst kv)] else []) ++
                         check_sum files (fst p) (fst kv) (snd kv)) (fst (snd p)) ++
     flat_map (fun kv => (if is_stack (fst kv) then [] else [(FStackName, fst kv)]) ++
                         check_sum files (fst p) (fst kv) (snd kv)) (snd (snd p))) (aggregate files))).
  { intros fl Hin. apply in_flat_map in Hin as [[i [cs ss]] [Hp Hin]]. cbn [fst snd] in Hin.
    assert (He : existsb (fun f => ident_eqb (f_ident f) i) files = true).
    { assert (Hk : In i (akeys (aggregate files))) by (apply in_map_iff; exists (i, (cs, ss)); auto).
      apply aggregate_keys in Hk as [f [Hf Hfi]]. apply existsb_exists. exists f. split; [exact Hf|].
      apply ident_eqb_eq. exact Hfi. }
    rewrite He in Hin. cbn [app] in Hin. rewrite in_app_iff, !in_flat_map in Hin.
    assert (Hsum : forall k v, pget (aggregate files) i k = Some v -> check_sum files i k v = []).
    { intros k v Hp0. apply pget_value in Hp0 as [Hne ->]. unfold check_sum, spec_sum.
      destruct (spec_entries files i k); [contradiction|]. rewrite Z.eqb_refl. reflexivity. }
    destruct Hin as [[[k v] [Hk Hin]]|[[k v] [Hk Hin]]]; cbn [fst snd] in Hin.
    - destruct (aggregate_counter _ _ _ _ _ _ Hp Hk) as [Hs Hv]. rewrite Hs, (Hsum _ _ Hv) in Hin. exact Hin.
    - destruct (aggregate_stack _ _ _ _ _ _ Hp Hk) as [Hs Hv]. rewrite Hs, (Hsum _ _ Hv) in Hin. exact Hin. }
  assert (H2 : forall fl, ~ In fl (flat_map (fun f => match aget ident_eqb (f_ident f) (aggregate files) with
                     | None => [(FIncomplete, id_program (f_ident f))]
                     | Some b => flat_map (fun kv =>
                         match aget beq (fst kv) (if is_stack (fst kv) then snd b else fst b) with
                         | Some _ => [] | None => [(FIncomplete, fst kv)] end) (f_counts f)
                     end) files)).
  { intros fl Hin. apply in_flat_map in Hin as [f [Hf Hin]].
    destruct (aggregate_has_prog files f Hf) as [cs [ss Hp]].
    destruct (wf_aggregate files) as [Hnd Hwf].
    rewrite (In_aget _ _ ident_eqb ident_eqb_eq _ _ _ Hnd Hp) in Hin. cbn [fst snd] in Hin.
    apply in_flat_map in Hin as [[k v0] [Hk Hin]]. cbn [fst] in Hin.
    destruct (aggregate_has files f k v0 Hf Hk) as [cs1 [ss1 [v' [Hin1 Hk1]]]].
    assert (He : (cs1, ss1) = (cs, ss)).
    { pose proof (In_aget _ _ ident_eqb ident_eqb_eq _ _ _ Hnd Hin1) as E1.
      pose proof (In_aget _ _ ident_eqb ident_eqb_eq _ _ _ Hnd Hp) as E0. congruence. }
    injection He as -> ->. destruct (Hwf _ _ Hp) as [N1 [N2 _]]. cbn [fst snd] in *.
    destruct (is_stack k).
    - rewrite (In_aget _ _ beq beq_eq _ _ _ N2 Hk1) in Hin. exact Hin.
    - rewrite (In_aget _ _ beq beq_eq _ _ _ N1 Hk1) in Hin. exact Hin. }
  match goal with |- ?lst = [] => destruct lst as [|fl l] eqn:E end; [reflexivity|].
  exfalso. assert (Hin : In fl (fl :: l)) by (left; reflexivity). rewrite <- E in Hin.
  apply in_app_iff in Hin as [Hin|Hin]; [exact (H1 fl Hin) | exact (H2 fl Hin)].
Qed.
