(* Proofs/CounterMono: no cell of any counter file ever goes down (C03, the
   no-wrap clause as a statement about histories). *)
From Coq Require Import List ZArith Bool Lia.
From Tele Require Import Gen.Consts Model.CounterConc Proofs.CounterInv.
Import ListNotations.
Open Scope Z_scope.

Definition cells_le (a b : list Z) : Prop :=
  (length a <= length b)%nat /\ forall i, (i < length a)%nat -> nth i a 0 <= nth i b 0.

Lemma cells_le_refl a : cells_le a a.
Proof. split; [lia | intros; lia]. Qed.
Lemma cells_le_trans a b c : cells_le a b -> cells_le b c -> cells_le a c.
Proof.
  intros [L1 H1] [L2 H2]. split; [lia|]. intros i Hi.
  specialize (H1 i Hi). specialize (H2 i ltac:(lia)). lia.
Qed.
Lemma cells_le_app a x : cells_le a (a ++ x).
Proof.
  split; [rewrite app_length; lia|]. intros i Hi. rewrite app_nth1 by exact Hi. lia.
Qed.
Lemma upd_length {A} (l : list A) i x : length (upd l i x) = length l.
Proof. revert i; induction l as [|y l IH]; intros [|i]; cbn; try reflexivity; now rewrite IH. Qed.
Lemma nth_upd (l : list Z) i j x : nth j (upd l i x) 0 = if (Nat.eqb i j && Nat.ltb i (length l))%bool then x else nth j l 0.
Proof.
  revert i j; induction l as [|y l IH]; intros [|i] [|j]; cbn [upd nth length Nat.eqb andb Nat.ltb Nat.leb]; try reflexivity.
  - destruct (Nat.eqb i j); reflexivity.
  - rewrite IH. reflexivity.
Qed.
Lemma cells_le_upd l i x : nth i l 0 <= x -> cells_le l (upd l i x).
Proof.
  intros Hx. split; [rewrite upd_length; lia|]. intros j Hj. rewrite nth_upd.
  destruct (Nat.eqb_spec i j) as [->|]; cbn [andb]; [|lia].
  destruct (Nat.ltb j (length l)); lia.
Qed.
Lemma cell_add_ge old n : 0 <= old < W64 -> 0 <= n -> old <= cell_add old n.
Proof. intros Ho Hn. unfold cell_add. destruct (Z.leb_spec W64 (old + n)); lia. Qed.

(* what one step may do to the cells *)
Definition cells_step (s s' : shared) (amt : Z) : Prop :=
  s_cells s' = s_cells s \/
  (exists g, s_cells s' = upd (s_cells s) (file_of s g) (cell_add (cell_of s g) amt)) \/
  s_cells s' = s_cells s ++ [0].

Lemma step_cells np s t s' t' : step_thread np s t = (s', t') -> cells_step s s' (t_amt t).
Proof.
  unfold step_thread. cbv zeta. intros H.
  repeat match type of H with
         | context [match ?x with _ => _ end] => destruct x eqn:?
         end;
  inversion H; subst; clear H; unfold cells_step;
  cbn [s_cells set_word set_sat set_ptr touch set_cell file_of s_maps];
  try (left; reflexivity);
  try (right; right; reflexivity);
  try (right; left;
       match goal with E : (cell_of _ ?g =? _) = true |- _ => apply Z.eqb_eq in E; exists g; rewrite E; reflexivity end).
Qed.

Lemma cells_step_le s s' amt : wf s -> 0 <= amt -> cells_step s s' amt -> cells_le (s_cells s) (s_cells s').
Proof.
  intros (_ & _ & _ & Hc & _) Ha [E | [[g E] | E]]; rewrite E.
  - apply cells_le_refl.
  - apply cells_le_upd. unfold cell_of.
    destruct (Nat.ltb_spec (file_of s g) (length (s_cells s))) as [L|L].
    + apply cell_add_ge; [|exact Ha]. rewrite Forall_forall in Hc. apply Hc. apply nth_In. exact L.
    + rewrite nth_overflow by exact L. unfold cell_add. destruct (Z.leb_spec W64 (0 + amt)); unfold W64 in *; lia.
  - apply cells_le_app.
Qed.

Lemma step_mono np T st i : Inv T st -> cells_le (s_cells (fst st)) (s_cells (fst (step np st i))).
Proof.
  destruct st as [s ts]. intros I. unfold step. cbn [fst].
  destruct (nth_error ts i) as [t|] eqn:Et; [|apply cells_le_refl].
  destruct (step_thread np s t) as [s' t'] eqn:Es. cbn [fst].
  destruct I as (r & h & e & _ & _ & TL & W & _).
  rewrite Forall_forall in TL. destruct (TL t (nth_error_In _ _ Et)) as [Ha _].
  eapply cells_step_le; [exact W | exact Ha | eapply step_cells; exact Es].
Qed.

(* every schedule, every prefix: from any reachable state on, no cell of any
   file goes down and no cell disappears *)
Theorem run_mono np T sched : forall st, Inv T st ->
  cells_le (s_cells (fst st)) (s_cells (fst (run np sched st))).
Proof.
  induction sched as [|i sched IH]; intros st I; cbn [run fold_left]; [apply cells_le_refl|].
  eapply cells_le_trans; [apply (step_mono np T st i I)|].
  apply IH. apply inv_step. exact I.
Qed.

Lemma sum_cells_le a : forall b, cells_le a b -> Forall (fun c => 0 <= c) b ->
  fold_right Z.add 0 a <= fold_right Z.add 0 b.
Proof.
  induction a as [|x a IH]; intros b [L H] Hb.
  - clear L H. cbn [fold_right]. induction Hb as [|y b Hy _ IHb]; cbn [fold_right]; cbv beta in *; lia.
  - destruct b as [|y b]; [cbn in L; lia|]. cbn [fold_right].
    pose proof (H 0%nat ltac:(cbn; lia)) as H0. cbn [nth] in H0.
    assert (cells_le a b) as Hab.
    { split; [cbn in L; lia|]. intros i Hi. apply (H (S i)). cbn; lia. }
    inversion Hb as [|? ? Hy Hb']; subst. specialize (IH b Hab Hb'). cbv beta in *. lia.
Qed.

From Tele Require Import Proofs.CounterThms.

(* the statement about histories: between any two instants of any schedule no
   cell goes down, so neither does the persisted value (the sum over files) *)
Theorem persisted_never_decreases np s0 ts0 sched1 sched2 : good_init s0 ts0 ->
  let s1 := fst (run np sched1 (s0, ts0)) in
  let s2 := fst (run np (sched1 ++ sched2) (s0, ts0)) in
  cells_le (s_cells s1) (s_cells s2) /\ persisted s1 <= persisted s2.
Proof.
  intros G. cbv zeta.
  assert (RA : run np (sched1 ++ sched2) (s0, ts0) = run np sched2 (run np sched1 (s0, ts0))) by apply fold_left_app.
  rewrite RA.
  pose proof (reach_inv np _ _ sched1 G) as I1.
  pose proof (run_mono np _ sched2 _ I1) as M. split; [exact M|].
  pose proof (inv_run np _ sched2 _ I1) as I2.
  destruct (run np sched2 (run np sched1 (s0, ts0))) as [s2 ts2]. cbn [fst] in *.
  destruct I2 as (r & h & e & _ & _ & _ & (_ & _ & _ & Hc & _) & _).
  unfold persisted. apply sum_cells_le; [exact M|].
  eapply Forall_impl; [|exact Hc]. intros c Hcc. cbv beta in Hcc. lia.
Qed.
