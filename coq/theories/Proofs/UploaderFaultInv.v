(* Proofs/UploaderFaultInv: one uploader.Run under an arbitrary fault plan,
   part 2: what every macro step is (its thread is the thread of a step of
   Model/Uploader on a directory in which some file looks missing, or a plain
   jump), the thread-local invariants, the file-system invariants, and the
   isolation theorems. *)
From Coq Require Import List ZArith NArith Bool Lia Arith.
From Tele Require Import Lib.Bytes Lib.FS Model.Span Model.Uploader Model.UploaderFault
  Proofs.FSFacts Proofs.UploaderBase Proofs.UploaderLock Proofs.UploaderNames Proofs.UploaderFiles
  Proofs.UploaderData Proofs.UploaderEver Proofs.UploaderSeq Proofs.UploaderNoDup Proofs.UploaderLocal
  Proofs.UploaderFaultFacts.
Import ListNotations.
Open Scope nat_scope.

(* ---------------------------------------------------------------- reachable states of a run *)
Inductive freach (p : fplan) (x0 : fstate) : fstate -> Prop :=
  | fr_refl : freach p x0 x0
  | fr_step x picks : freach p x0 x -> freach p x0 (fst (fstep p picks x)).

Lemma frun_reach fuel : forall p picks x0 x, freach p x0 x -> freach p x0 (frun fuel p picks x).
Proof.
  induction fuel as [|k IH]; intros p picks x0 x H; simpl; auto.
  destruct (fdone x); auto.
  destruct (fstep p picks x) as [x' picks'] eqn:E. apply IH.
  replace x' with (fst (fstep p picks x)) by (rewrite E; reflexivity). apply fr_step. exact H.
Qed.

(* ---------------------------------------------------------------- what a macro step is *)
(* f' shows the local directory of f with at most one file hidden *)
Definition hides (f' f : FS) : Prop :=
  f_local f' = f_local f \/ exists n, f_local f' = d_remove (f_local f) n.

Definition jump_ok (p p' : pc) : Prop :=
  (in_rep p' = true -> in_rep p = true) /\ (in_upl p' = true -> in_upl p = true) /\ p' <> RDel /\ p' <> FReadLocal.

Lemma d_get_remove_same {C} (d : dir C) n : d_get (d_remove d n) n = None.
Proof. unfold d_get. rewrite d_find_remove_same. reflexivity. Qed.

Definition hide (f : FS) (n : bytes) : FS := set_local f (d_remove (f_local f) n).
Definition no_up (f : FS) : FS := mkFS (f_local f) None (f_next f).

Lemma fdecide_thread p i f err t e t' err' n pan :
  fdecide p i f err t = (e, t', err', n, pan) ->
  (exists f' o, t' = snd (decide f' o t) /\ hides f' f) \/
  (exists p', t' = set_pc t p' /\ jump_ok (t_pc t) p').
Proof.
  intros H. unfold fdecide in H.
  assert (Hsame : forall o, exists f' o', snd (decide f o t) = snd (decide f' o' t) /\ hides f' f).
  { intros o. exists f, o. split; auto. left. reflexivity. }
  destruct (t_pc t) eqn:Epc.
  all: repeat match type of H with
              | context [match ?x with _ => _ end] => destruct x eqn:?
              end; inversion H; subst; clear H.
  all: try (left; destruct (Hsame O200) as (f' & o' & E & Hh); exists f', o'; split; [exact E|exact Hh]; fail).
  all: try (left; eexists f, _; split; [reflexivity|left; reflexivity]; fail).
  all: try (right; eexists; split; [reflexivity|]; unfold jump_ok; rewrite ?Epc; simpl;
            repeat split; intros; try discriminate; auto; fail).
  - (* FReadCount, read fails = the file looks missing *)
    left. exists (hide f b), O200. split; [|right; exists b; reflexivity].
    unfold decide. rewrite Epc, Heql. simpl. rewrite d_get_remove_same. reflexivity.
  - left. exists f, O200. split; [unfold decide; rewrite Epc; reflexivity|left; reflexivity].
  - left. exists f, O200. split; [unfold decide; rewrite Epc; reflexivity|left; reflexivity].
  - left. exists f, O200. split; [unfold decide; rewrite Epc, Heql; reflexivity|left; reflexivity].
  - left. exists f, O200. split; [unfold decide; rewrite Epc, Heql; reflexivity|left; reflexivity].
  - left. exists f, O200. split; [unfold decide; rewrite Epc, Heqb0; reflexivity|left; reflexivity].
  - left. exists f, O200. split; [unfold decide; rewrite Epc; reflexivity|left; reflexivity].
  - left. exists (hide f (t_file t)), O200. split; [|right; exists (t_file t); reflexivity].
    unfold decide. rewrite Epc. simpl. rewrite d_get_remove_same. reflexivity.
  - left. exists (no_up f), O200. split; [unfold decide; rewrite Epc; reflexivity|left; reflexivity].
  - left. exists (no_up f), O200. split; [unfold decide; rewrite Epc; reflexivity|left; reflexivity].
  - left. exists f, O200. split; [unfold decide; rewrite Epc; reflexivity|left; reflexivity].
Qed.

Lemma fpick_thread p i picks t t' n pan picks' :
  t_pc t = RPick -> fpick p i picks t = (t', n, pan, picks') ->
  t' = step_pick_none t \/ (exists w, t' = step_pick w t) \/ t' = set_pc t Done.
Proof.
  intros Hp H. unfold fpick in H.
  destruct (t_weeks t) as [|g0 gs] eqn:Ew.
  - injection H as <- <- <- <-. left. unfold step_pick_none. rewrite Hp, Ew. reflexivity.
  - destruct (choose picks t (fst g0)) as [w ps].
    destruct (take_week w (g0 :: gs)) as [[files rest]|] eqn:Et.
    + right. destruct (not_needed w (t_uploaded t) (t_ready t)) eqn:En.
      * injection H as <- <- <- <-. left. exists w. unfold step_pick. rewrite Hp, Ew, Et, En. reflexivity.
      * destruct (bad p i).
        -- injection H as <- <- <- <-. right. reflexivity.
        -- left. exists w. unfold step_pick. rewrite Hp, Ew, Et, En.
           destruct (has_counts files); injection H as <- <- <- <-; reflexivity.
    + injection H as <- <- <- <-. right. left. exists w. unfold step_pick. rewrite Hp, Ew, Et. reflexivity.
Qed.

(* ---------------------------------------------------------------- thread-local invariants survive jumps *)
Lemma names_inv_jump t p' : names_inv t -> jump_ok (t_pc t) p' -> names_inv (set_pc t p').
Proof.
  intros [H1 H2 H3 H4 H5 H6 H7 H8 H9 H10] (J1 & J2 & _ & _). constructor; simpl; auto.
Qed.

Section WithL0.
Variable L0 : dir content.

Lemma data_inv_jump t p' : data_inv L0 t -> jump_ok (t_pc t) p' -> data_inv L0 (set_pc t p').
Proof.
  intros [D1 D2 D3 D4] (J1 & _ & J3 & _). constructor; simpl; auto. intros E. contradiction.
Qed.

Definition fs_rel' (f : FS) : Prop := fs_rel L0 f.

Lemma fs_rel_hides f f' : fs_rel L0 f -> hides f' f -> fs_rel L0 f'.
Proof.
  intros H [E | [n E]] m Hm v Hv; rewrite E in Hv.
  - eapply H; eauto.
  - apply d_find_remove_some in Hv. destruct Hv as [_ Hv]. eapply H; eauto.
Qed.

(* the thread-local package *)
Definition tl_inv (t : thread) : Prop := names_inv t /\ data_inv L0 t /\ keys_inv t.

Lemma keys_inv_jump t p' : keys_inv t -> keys_inv (set_pc t p').
Proof. unfold keys_inv. simpl. auto. Qed.

Lemma tl_inv_fdecide p i f err t e t' err' n pan :
  fdecide p i f err t = (e, t', err', n, pan) -> fs_rel L0 f -> tl_inv t -> tl_inv t'.
Proof.
  intros H HF (N & D & K).
  destruct (fdecide_thread _ _ _ _ _ _ _ _ _ _ H) as [(f' & o & -> & Hh) | (p' & -> & J)].
  - destruct (decide f' o t) as [e0 t0] eqn:Ed. simpl.
    assert (Hda : decide_all f' (AStep o) t = (e0, t0)) by exact Ed.
    split; [eapply names_inv_step; eauto|]. split.
    + eapply data_inv_step; eauto. eapply fs_rel_hides; eauto.
    + eapply keys_inv_step; eauto.
  - split; [apply names_inv_jump; auto|]. split; [apply data_inv_jump; auto|apply keys_inv_jump; auto].
Qed.

Lemma done_jump p : jump_ok p Done.
Proof. repeat split; intros; discriminate. Qed.

Lemma tl_inv_fpick p i picks t t' n pan picks' f :
  t_pc t = RPick -> fpick p i picks t = (t', n, pan, picks') -> fs_rel L0 f -> tl_inv t -> tl_inv t'.
Proof.
  intros Hp H HF (N & D & K).
  destruct (fpick_thread _ _ _ _ _ _ _ _ Hp H) as [-> | [[w ->] | ->]].
  - assert (Hda : decide_all f APickNone t = (ENone, step_pick_none t)) by reflexivity.
    split; [eapply names_inv_step; eauto|]. split; [eapply data_inv_step; eauto|eapply keys_inv_step; eauto].
  - assert (Hda : decide_all f (APick w) t = (ENone, step_pick w t)) by reflexivity.
    split; [eapply names_inv_step; eauto|]. split; [eapply data_inv_step; eauto|eapply keys_inv_step; eauto].
  - split; [apply names_inv_jump; auto using done_jump|].
    split; [apply data_inv_jump; auto using done_jump|apply keys_inv_jump; auto].
Qed.

End WithL0.

(* ---------------------------------------------------------------- the effect of a macro step *)
Lemma fdecide_cases p i f err t e t' err' n pan :
  fdecide p i f err t = (e, t', err', n, pan) ->
  (exists o, decide f o t = (e, t')) \/
  (e = ENone /\ writing t' = None) \/
  (t_pc t = RWriteUp /\ exists c, e = EWriteId (t_fd t) c /\ t' = set_pc t RCreateLocal) \/
  (t_pc t = RWriteLocal /\ exists c, e = EWriteId (t_fd t) c /\
     ((t' = finish_week t /\ c = local_body t) \/ t' = abort_week t)) \/
  (t_pc t = UWriteMarker /\ exists c, e = EPutUp (marker_name (t_week t)) c /\ t' = set_pc t UUnlock).
Proof.
  intros H. unfold fdecide in H.
  destruct (t_pc t) eqn:Epc.
  all: repeat match type of H with
              | context [match ?x with _ => _ end] => destruct x eqn:?
              end; inversion H; subst; clear H.
  all: try (left; eexists; apply surjective_pairing; fail).
  all: try (left; exists O200; rewrite (surjective_pairing (decide f O200 t));
            match goal with H : fst _ = _ |- _ => rewrite H end; reflexivity).
  all: try (right; left; split; [reflexivity|unfold writing; simpl; rewrite ?Epc; auto]; fail).
  all: try (right; left; split; [reflexivity|];
            unfold writing, goto_read, finish_week, start_del, abort_week, advance, set_dels; simpl;
            repeat match goal with
                   | |- context [match ?x with nil => _ | cons _ _ => _ end] => destruct x; simpl
                   | |- context [match ?x with Some _ => _ | None => _ end] => destruct x; simpl
                   | |- context [let (_, _) := ?x in _] => destruct x; simpl
                   end;
            reflexivity).
  all: try (right; right; left; split; [reflexivity|eexists; split; reflexivity]; fail).
  all: try (right; right; right; right; split; [reflexivity|eexists; split; reflexivity]; fail).
  all: try (right; right; right; left; split; [reflexivity|eexists; split; [reflexivity|right; reflexivity]]; fail).
  (* RWriteLocal without error: the whole body was written *)
  right; right; right; left. split; [reflexivity|]. eexists. split; [reflexivity|]. left. split; [reflexivity|].
  apply orb_false_iff in Heqb. destruct Heqb as [Heqb _]. apply orb_false_iff in Heqb. destruct Heqb as [_ Hw].
  unfold wbad in Hw. unfold written. destruct (p i); try discriminate; reflexivity.
Qed.

(* ---------------------------------------------------------------- "a report exists now" *)
Definition witness_now (w : bytes) (f : FS) : Prop :=
  d_mem (f_local f) (local_name w) = true \/ d_mem (f_local f) (ready_name w) = true \/
  d_mem (up_dir f) (marker_name w) = true \/
  exists g, d_mem (f_local f) g = true /\ rname g /\ contains g w = true.

(* findWork and reports(): the phases in which the ready list must still be in local/ *)
Definition in_fr (p : pc) : bool :=
  match p with
  | FReadLocal | FReadCount | FReadUpload | FMkdir | RPick => true
  | p => in_rep p
  end.

Definition after_up (p : pc) : bool := match p with RCreateLocal | RWriteLocal => true | _ => false end.

Record now_inv (f : FS) (err : bool) (t : thread) : Prop := mkNW {
  nw_uploaded : forall u n, t_uploaded t = Some u -> In n u -> is_json n = true /\ d_mem (up_dir f) n = true;
  nw_ready : in_fr (t_pc t) = true -> forall g, In g (t_ready t) -> d_mem (f_local f) g = true;
  nw_del : t_pc t = RDel -> witness_now (t_week t) f;
  nw_wup : t_pc t = RWriteUp -> d_mem (f_local f) (ready_name (t_week t)) = true;
  nw_making : after_up (t_pc t) = true -> t_upok t = true -> err = false ->
              d_mem (f_local f) (ready_name (t_week t)) = true;
  nw_wlocal : t_pc t = RWriteLocal -> d_mem (f_local f) (local_name (t_week t)) = true
}.

Lemma witness_remove w (f : FS) b :
  witness_now w f -> is_count b = true -> witness_now w (set_local f (d_remove (f_local f) b)).
Proof.
  intros [H | [H | [H | (g & H & Hr & Hc)]]] Hb; unfold witness_now; simpl.
  - left. rewrite d_mem_remove_other; auto. intros ->. rewrite is_count_local in Hb. discriminate.
  - right. left. rewrite d_mem_remove_other; auto. intros ->. rewrite is_count_ready in Hb. discriminate.
  - right. right. left. exact H.
  - right. right. right. exists g. split; auto. rewrite d_mem_remove_other; auto.
    intros ->. destruct Hr as [Hr _]. congruence.
Qed.

Lemma is_json_lock w : is_json (lock_name w) = false.
Proof.
  unfold is_json, lock_name, sfx_lock, sfx_json.
  change [46; 108; 111; 99; 107]%N with ([46; 108; 111; 99]%N ++ [107%N]).
  change [46; 106; 115; 111; 110]%N with ([46; 106; 115; 111]%N ++ [110%N]) at 2.
  rewrite app_assoc. apply has_suffix_last_ne. discriminate.
Qed.

Lemma now_inv_new f err k c : now_inv f err (new_thread k c).
Proof. constructor; simpl; intros; try discriminate; contradiction. Qed.

Lemma up_bump (f : FS) : up_dir (bump f) = up_dir f. Proof. reflexivity. Qed.
Lemma up_set_upload (f : FS) d : up_dir (set_upload f d) = d. Proof. reflexivity. Qed.
Lemma up_set_local (f : FS) d : up_dir (set_local f d) = up_dir f. Proof. reflexivity. Qed.
Lemma loc_bump (f : FS) : f_local (bump f) = f_local f. Proof. reflexivity. Qed.
Lemma loc_set_upload (f : FS) d : f_local (set_upload f d) = f_local f. Proof. reflexivity. Qed.
Lemma loc_set_local (f : FS) d : f_local (set_local f d) = d. Proof. reflexivity. Qed.

Ltac fsimp := rewrite ?up_bump, ?up_set_upload, ?up_set_local, ?loc_bump, ?loc_set_upload, ?loc_set_local.

Lemma fdecide_now p i f log err t e t' err' n pan :
  fdecide p i f err t = (e, t', err', n, pan) -> names_inv t -> now_inv f err t ->
  now_inv (fst (apply_eff e f log)) err' t'.
Proof.
  intros H N [W1 W2 W3 W6 W4 W5].
  pose proof (ni_dels _ N) as ND. pose proof (ni_ready _ N) as NR. rewrite Forall_forall in NR.
  unfold fdecide, decide in H.
  destruct (t_pc t) eqn:Epc; simpl in W2, W3, W6, W4, W5.
  all: repeat match type of H with
              | context [match ?x with _ => _ end] => destruct x eqn:?
              end; simpl in H; inversion H; subst; clear H.
  all: adv.
  all: constructor; unfold apply_eff; cbn [fst snd]; simpl t_pc; simpl t_week; simpl t_ready; simpl t_uploaded; simpl t_upok.
  all: try (match goal with |- (_ = _) -> _ => intros Hx; simpl in Hx; dmatch Hx; pcdiscr end).
  all: intros; fsimp.
  all: eauto.
  (* effects that the lock step cannot have *)
  all: try (match goal with Hq : fst _ = _ |- _ => simpl in Hq; dmatch Hq; simpl in Hq; discriminate end).
  (* the uploaded listing stays in upload/ *)
  all: try (match goal with
            | Hu : t_uploaded _ = Some ?u, Hi : In ?n ?u |- _ /\ _ =>
                destruct (W1 u n Hu Hi) as [Hj Hm]; split; [exact Hj|];
                rewrite ?d_mem_add, ?d_mem_put, ?Hm, ?orb_true_r; auto;
                rewrite d_mem_remove_other; auto; intros E; rewrite <- E, is_json_lock in Hj; discriminate
            end).
  (* the ready list stays in local/ *)
  all: try (match goal with
            | Hg : In ?g (t_ready _) |- d_mem _ ?g = true =>
                specialize (W2 eq_refl g Hg);
                rewrite ?d_mem_add, ?d_mem_set_id, ?W2, ?orb_true_r; auto;
                rewrite d_mem_remove_other; auto; intros ->;
                destruct (NR _ Hg) as (Hc & _);
                match goal with Hd : t_dels _ = _ |- _ => rewrite Hd in ND end; inversion ND; congruence
            end).
  all: try (apply witness_remove; auto;
            match goal with Hd : t_dels _ = _ |- _ => rewrite Hd in ND end; inversion ND; auto; fail).
  all: try (left; assumption).
  all: try (right; left; assumption).
  all: try (rewrite ?d_mem_add, ?d_mem_set_id, ?beq_refl; auto; fail).
  all: try congruence.
  all: try (match goal with Hx : after_up _ = true |- _ => rewrite Epc in Hx; discriminate end).
  all: try (match goal with Hg : In _ (filter _ (d_names _)) |- _ =>
              apply filter_In in Hg; destruct Hg as [Hg Hj] end;
            try (apply in_d_names; assumption)).
  all: try (match goal with Hq : Some _ = Some _ |- _ => injection Hq as <- end).
  all: try (match goal with Hg : In _ (filter _ (d_names _)) |- _ =>
              apply filter_In in Hg; destruct Hg as [Hg Hj] end;
            split; [assumption|]; unfold up_dir;
            match goal with Hu : f_upload _ = Some _ |- _ => rewrite Hu end; apply in_d_names; assumption).
  all: try (match goal with
            | Hg : In ?g (t_ready _) |- d_mem (d_remove _ _) ?g = true =>
                specialize (W2 eq_refl g Hg); rewrite d_mem_remove_other; auto; intros ->;
                destruct (NR _ Hg) as (Hc & _); inversion ND; congruence
            end).
  all: try (apply witness_remove; auto; inversion ND; auto; fail).
  all: try (match goal with
            | Hg : In ?g (if t_upok ?tt then _ else _) |- _ =>
                rewrite ?d_mem_set_id; destruct (t_upok tt) eqn:Eu;
                [apply in_app_iff in Hg; destruct Hg as [Hg | [<- | []]]; [apply W2|apply W4]|apply W2]; auto
            end).
  all: try (rewrite d_mem_add, W4, orb_true_r; auto; fail).
  all: try (left; simpl; rewrite d_mem_set_id; apply W5; reflexivity).
  all: try (match goal with Hb : ?e || _ || _ = false |- ?e = false =>
              apply orb_false_iff in Hb; destruct Hb as [Hb _]; apply orb_false_iff in Hb; tauto end).
  rewrite Epc in Hx. discriminate.
Qed.

